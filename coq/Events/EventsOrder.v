(* C05 (dispatch order, status propagation): the model's traces are accepted by the C05 checker
   of the specification.  Built on top of the C04 simulation (EventsInv.v): the C04 checker state
   c4 already knows every live registration with its kind; the lists the C05 checker keeps are
   projections of it (R45), so the classification of an invoked id comes for free and only the
   order facts (I1: queues below minq are empty; FIFO queues = registration order) and the
   control state of the dispatcher have to be tracked in addition. *)
From Coq Require Import NArith ZArith List Bool Arith Lia Permutation.
From LCP Require Import Base.CheckedMem Events.EventsTrace Events.EventsSpec Events.EventsModel Events.EventsLemmas Events.EventsNetInv Events.EventsHeap Events.EventsSpecProofs Events.EventsInv.
Import ListNotations.
Local Open Scope res_scope.
Unset Lia Cache.

(* ---------------------------------------------------------------- c5's lists as projections
   of c4's live list (oldest first) *)
Definition imm_of (g : reg) : list (nat * nat) :=
  match g_kind g with KImm p => [(g_rid g, p)] | _ => [] end.
Definition net_of (g : reg) : list nat :=
  match g_kind g with KNet _ _ => [g_rid g] | _ => [] end.
Definition tmr_of (g : reg) : list (nat * (tv * N)) :=
  match g_kind g with KTimer t => [(g_rid g, (t, g_due g))] | _ => [] end.

Record R45 (c4 : c4) (c : c5) : Prop := {
  r_imms : d_imms c = flat_map imm_of (rev (c_live c4));
  r_nets : d_nets c = flat_map net_of (rev (c_live c4));
  r_tmrs : d_tmrs c = flat_map tmr_of (rev (c_live c4));
  r_clock : d_clock c = c_clock c4
}.

Lemma filter_all_true {A} (q : A -> bool) l : (forall b, In b l -> q b = true) -> filter q l = l.
Proof.
  induction l as [|b t IH]; simpl; intros H; [reflexivity|].
  rewrite (H b) by (left; reflexivity). f_equal. apply IH. intros x Hx. apply H. right. exact Hx.
Qed.

Lemma filter_all_false {A} (q : A -> bool) l : (forall b, In b l -> q b = false) -> filter q l = [].
Proof.
  induction l as [|b t IH]; simpl; intros H; [reflexivity|].
  rewrite (H b) by (left; reflexivity). apply IH. intros x Hx. apply H. right. exact Hx.
Qed.

Lemma flat_map_filter {A B} (f : A -> list B) (p : A -> bool) (q : B -> bool) l :
  (forall a b, In b (f a) -> q b = p a) ->
  flat_map f (filter p l) = filter q (flat_map f l).
Proof.
  intros H. induction l as [|a l IH]; simpl; [reflexivity|].
  rewrite filter_app. destruct (p a) eqn:E; simpl; rewrite IH.
  - rewrite (filter_all_true q (f a)); [reflexivity|]. intros b Hb. rewrite (H a b Hb). exact E.
  - rewrite (filter_all_false q (f a)); [reflexivity|]. intros b Hb. rewrite (H a b Hb). exact E.
Qed.

Lemma filter_rev' {A} (p : A -> bool) l : filter p (rev l) = rev (filter p l).
Proof.
  induction l as [|a l IH]; simpl; [reflexivity|].
  rewrite filter_app, IH. simpl. destruct (p a); simpl; [reflexivity | rewrite app_nil_r; reflexivity].
Qed.

Lemma flat_map_map_same {A B} (f : A -> list B) (g : A -> A) l :
  (forall a, f (g a) = f a) -> flat_map f (map g l) = flat_map f l.
Proof. intros H. induction l as [|a l IH]; simpl; [reflexivity|]. rewrite H, IH. reflexivity. Qed.

Lemma flat_map_map_comm {A B} (f : A -> list B) (g : A -> A) (h : B -> B) l :
  (forall a, f (g a) = map h (f a)) -> flat_map f (map g l) = map h (flat_map f l).
Proof.
  intros H. induction l as [|a l IH]; simpl; [reflexivity|]. rewrite H, IH, map_app. reflexivity.
Qed.

(* ids in the projections *)
Lemma in_imm_of x L : In x (flat_map imm_of L) <-> exists g, In g L /\ g_rid g = fst x /\ g_kind g = KImm (snd x).
Proof.
  rewrite in_flat_map. split.
  - intros [g [Hg Hx]]. exists g. split; [exact Hg|]. unfold imm_of in Hx.
    destruct (g_kind g); try (destruct Hx; fail). destruct Hx as [<- | []]. auto.
  - intros [g [Hg [A B]]]. exists g. split; [exact Hg|]. unfold imm_of. rewrite B. left.
    destruct x; simpl in *; congruence.
Qed.

Lemma in_net_of r L : In r (flat_map net_of L) <-> exists g fd dir, In g L /\ g_rid g = r /\ g_kind g = KNet fd dir.
Proof.
  rewrite in_flat_map. split.
  - intros [g [Hg Hx]]. unfold net_of in Hx. destruct (g_kind g) eqn:E; try (destruct Hx; fail).
    destruct Hx as [<- | []]. exists g, fd, dir. auto.
  - intros [g [fd [dir [Hg [A B]]]]]. exists g. split; [exact Hg|]. unfold net_of. rewrite B. left. exact A.
Qed.

Lemma in_tmr_of x L : In x (flat_map tmr_of L) <->
  exists g, In g L /\ g_rid g = fst x /\ g_kind g = KTimer (fst (snd x)) /\ g_due g = snd (snd x).
Proof.
  rewrite in_flat_map. split.
  - intros [g [Hg Hx]]. exists g. split; [exact Hg|]. unfold tmr_of in Hx.
    destruct (g_kind g); try (destruct Hx; fail). destruct Hx as [<- | []]. auto.
  - intros [g [Hg [A [B C]]]]. exists g. split; [exact Hg|]. unfold tmr_of. rewrite B. left.
    destruct x as [r [t d]]; simpl in *; congruence.
Qed.

Lemma imm_of_fst g b : In b (imm_of g) -> fst b = g_rid g.
Proof. unfold imm_of. destruct (g_kind g); simpl; try tauto. intros [<- | []]. reflexivity. Qed.
Lemma tmr_of_fst g b : In b (tmr_of g) -> fst b = g_rid g.
Proof. unfold tmr_of. destruct (g_kind g); simpl; try tauto. intros [<- | []]. reflexivity. Qed.
Lemma net_of_id g b : In b (net_of g) -> b = g_rid g.
Proof. unfold net_of. destruct (g_kind g); simpl; try tauto. intros [<- | []]. reflexivity. Qed.

Lemma proj_remove r L :
  flat_map imm_of (rev (remove_reg r L)) = drop_imm r (flat_map imm_of (rev L)) /\
  flat_map net_of (rev (remove_reg r L)) = drop_net r (flat_map net_of (rev L)) /\
  flat_map tmr_of (rev (remove_reg r L)) = drop_tmr r (flat_map tmr_of (rev L)).
Proof.
  unfold remove_reg, drop_imm, drop_net, drop_tmr. rewrite <- filter_rev'.
  split; [|split]; apply flat_map_filter; intros g b Hb.
  - rewrite (imm_of_fst g b Hb). reflexivity.
  - rewrite (net_of_id g b Hb). reflexivity.
  - rewrite (tmr_of_fst g b Hb). reflexivity.
Qed.

Lemma drop_imm_notin r l : (forall x, In x l -> fst x <> r) -> drop_imm r l = l.
Proof.
  intros H. apply filter_all_true. intros b Hb. apply negb_true_iff, Nat.eqb_neq. apply H. exact Hb.
Qed.
Lemma drop_net_notin r l : ~ In r l -> drop_net r l = l.
Proof.
  intros H. apply filter_all_true. intros b Hb. apply negb_true_iff, Nat.eqb_neq. intros ->. exact (H Hb).
Qed.
Lemma drop_tmr_notin r l : (forall x, In x l -> fst x <> r) -> drop_tmr r l = l.
Proof.
  intros H. apply filter_all_true. intros b Hb. apply negb_true_iff, Nat.eqb_neq. apply H. exact Hb.
Qed.

Lemma find_imm_none r l : find_imm r l = None -> forall x, In x l -> fst x <> r.
Proof.
  unfold find_imm. intros H x Hx E. pose proof (find_none _ _ H x Hx) as X. simpl in X.
  apply Nat.eqb_neq in X. auto.
Qed.
Lemma find_imm_some r l x : find_imm r l = Some x -> In x l /\ fst x = r.
Proof. unfold find_imm. intros H. apply find_some in H. destruct H as [A B]. apply Nat.eqb_eq in B. auto. Qed.
Lemma find_tmr_some r l x : find_tmr r l = Some x -> In x l /\ fst x = r.
Proof. unfold find_tmr. intros H. apply find_some in H. destruct H as [A B]. apply Nat.eqb_eq in B. auto. Qed.

(* an id belongs to one projection only *)
Section Disjoint.
  Variable L : list reg.
  Hypothesis Hnd : NoDup (map g_rid L).

  Lemma nodup_rev_in g1 g2 : In g1 (rev L) -> In g2 (rev L) -> g_rid g1 = g_rid g2 -> g1 = g2.
  Proof. intros A B. apply (nodup_rid_eq L); [exact Hnd | apply in_rev; exact A | apply in_rev; exact B]. Qed.

  Lemma imm_not_net x : In x (flat_map imm_of (rev L)) -> ~ In (fst x) (flat_map net_of (rev L)).
  Proof.
    intros Hx Hn. apply in_imm_of in Hx. destruct Hx as [g [Hg [A B]]].
    apply in_net_of in Hn. destruct Hn as [g' [fd [dir [Hg' [A' B']]]]].
    assert (g = g') by (apply nodup_rev_in; auto; congruence). subst. congruence.
  Qed.
  Lemma imm_not_tmr x y : In x (flat_map imm_of (rev L)) -> In y (flat_map tmr_of (rev L)) -> fst y <> fst x.
  Proof.
    intros Hx Hy E. apply in_imm_of in Hx. destruct Hx as [g [Hg [A B]]].
    apply in_tmr_of in Hy. destruct Hy as [g' [Hg' [A' [B' _]]]].
    assert (g = g') by (apply nodup_rev_in; auto; congruence). subst. congruence.
  Qed.
  Lemma net_not_tmr r y : In r (flat_map net_of (rev L)) -> In y (flat_map tmr_of (rev L)) -> fst y <> r.
  Proof.
    intros Hn Hy E. apply in_net_of in Hn. destruct Hn as [g [fd [dir [Hg [A B]]]]].
    apply in_tmr_of in Hy. destruct Hy as [g' [Hg' [A' [B' _]]]].
    assert (g = g') by (apply nodup_rev_in; auto; congruence). subst. congruence.
  Qed.
End Disjoint.

Lemma tmr_of_set_due r b g : tmr_of (set_due r b g) = map (set_tmr_due r b) (tmr_of g).
Proof.
  unfold set_due, tmr_of, set_tmr_due. destruct (Nat.eqb (g_rid g) r) eqn:E.
  - destruct (g_kind g) eqn:K; simpl; rewrite ?K; try reflexivity. rewrite E. reflexivity.
  - destruct (g_kind g) eqn:K; simpl; try reflexivity. rewrite E. reflexivity.
Qed.
Lemma imm_of_set_due r b g : imm_of (set_due r b g) = imm_of g.
Proof. unfold imm_of. destruct (set_due_ids r b g) as [A B]. rewrite A, B. reflexivity. Qed.
Lemma net_of_set_due r b g : net_of (set_due r b g) = net_of g.
Proof. unfold net_of. destruct (set_due_ids r b g) as [A B]. rewrite A, B. reflexivity. Qed.
Lemma imm_of_mark l g : imm_of (mark_ready l g) = imm_of g.
Proof. unfold imm_of. destruct (mark_ready_ids l g) as [A B]. rewrite A, B. reflexivity. Qed.
Lemma net_of_mark l g : net_of (mark_ready l g) = net_of g.
Proof. unfold net_of. destruct (mark_ready_ids l g) as [A B]. rewrite A, B. reflexivity. Qed.
Lemma tmr_of_mark l g : tmr_of (mark_ready l g) = tmr_of g.
Proof. unfold tmr_of. destruct (mark_ready_ids l g) as [A B]. rewrite A, B, mark_ready_due. reflexivity. Qed.

Lemma R45_init : R45 c4_init c5_init.
Proof. constructor; reflexivity. Qed.

(* both checkers step: the projection relation is kept *)
Lemma R45_step fl x4 c e x4' c' :
  R45 x4 c -> NoDup (map g_rid (c_live x4)) ->
  cstep4 x4 e = Some x4' -> cstep5 fl c e = Some c' -> R45 x4' c'.
Proof.
  intros [Ri Rn Rt Rc] Hnd H4 H5.
  destruct e; simpl in H4, H5.
  - (* ERegister *)
    destruct (EventsSpec.mem_nat r (c_used x4)); [discriminate|].
    match type of H4 with (if ?b then _ else _) = _ => destruct b; [|discriminate] end.
    inversion H4; subst x4'. clear H4.
    destruct k.
    + inversion H5; subst c'. constructor; simpl; rewrite ?flat_map_app; simpl; rewrite ?app_nil_r; congruence.
    + inversion H5; subst c'. constructor; simpl; rewrite ?flat_map_app; simpl; rewrite ?app_nil_r; congruence.
    + rewrite Rc in H5. destruct (c_clock x4) as [now|]; [|discriminate].
      inversion H5; subst c'. constructor; simpl; rewrite ?flat_map_app; simpl; rewrite ?app_nil_r; congruence.
  - inversion H4; inversion H5; subst. constructor; simpl; auto.
  - assert (x4' = x4).
    { destruct e; try (inversion H4; reflexivity).
      destruct (net_slot_live fd op (c_live x4)) as [[|]|]; inversion H4; reflexivity. }
    subst. inversion H5; subst. constructor; simpl; auto.
  - inversion H4; inversion H5; subst. constructor; simpl; auto.
  - (* ECancel *)
    destruct (find_reg r (c_live x4)); [|discriminate]. inversion H4; subst x4'. inversion H5; subst c'.
    destruct (proj_remove r (c_live x4)) as [A [B C]].
    constructor; simpl; congruence.
  - assert (x4' = x4).
    { destruct (net_slot_live fd op (c_live x4)) as [[|]|]; inversion H4; reflexivity. }
    subst. inversion H5; subst. constructor; simpl; auto.
  - discriminate.
  - (* EReset *)
    destruct (find_reg r (c_live x4)) as [g|]; [|discriminate].
    destruct (c_clock x4) as [now|] eqn:Ec; [|discriminate].
    destruct (is_timer (g_kind g)); [|discriminate]. inversion H4; subst x4'.
    rewrite Rc in H5. inversion H5; subst c'.
    constructor; simpl; rewrite <- ?map_rev.
    + rewrite (flat_map_map_same imm_of); [exact Ri | apply imm_of_set_due].
    + rewrite (flat_map_map_same net_of); [exact Rn | apply net_of_set_due].
    + rewrite (flat_map_map_comm tmr_of _ (set_tmr_due r (us now))); [congruence | apply tmr_of_set_due].
    + exact Rc.
  - (* EClock *) inversion H4; inversion H5; subst. constructor; simpl; auto.
  - (* EPoll *)
    assert (Hsame : flat_map imm_of (rev (c_live x4')) = flat_map imm_of (rev (c_live x4)) /\
                    flat_map net_of (rev (c_live x4')) = flat_map net_of (rev (c_live x4)) /\
                    flat_map tmr_of (rev (c_live x4')) = flat_map tmr_of (rev (c_live x4)) /\
                    c_clock x4' = c_clock x4).
    { destruct ans; inversion H4; subst x4'; simpl; auto.
      rewrite <- !map_rev.
      rewrite (flat_map_map_same imm_of), (flat_map_map_same net_of), (flat_map_map_same tmr_of);
        auto using imm_of_mark, net_of_mark, tmr_of_mark. }
    destruct Hsame as [A [B [C D]]].
    destruct (d_incb c); [discriminate|].
    assert (Hc' : d_imms c' = d_imms c /\ d_nets c' = d_nets c /\ d_tmrs c' = d_tmrs c /\ d_clock c' = d_clock c).
    { destruct (d_mode c); try discriminate.
      - destruct (d_drain c); [discriminate|].
        match type of H5 with (if ?b then _ else _) = _ => destruct b; [|discriminate] end.
        inversion H5; subst c'. simpl. auto.
      - inversion H5; subst c'. simpl. auto. }
    destruct Hc' as [A' [B' [C' D']]]. constructor; congruence.
  - (* EInvoke *)
    destruct (find_reg r (c_live x4)) as [g|] eqn:Ef; [|discriminate].
    match type of H4 with (if ?b then _ else _) = _ => destruct b; [|discriminate] end.
    inversion H4; subst x4'. clear H4.
    destruct (proj_remove r (c_live x4)) as [A [B C]].
    destruct (d_incb c || d_stop c); [discriminate|].
    assert (Hmode : exists fire, (fire = fun (imms : list (nat * nat)) (nets : list nat) (tmrs : list (nat * (tv * N))) =>
        Some {| d_imms := imms; d_nets := nets; d_tmrs := tmrs; d_clock := d_clock c; d_prev := PvNone;
                d_mode := d_mode c; d_phase := d_phase c; d_drain := d_drain c; d_incb := true;
                d_intr := d_intr c; d_intr_run := d_intr_run c; d_stop := false;
                d_status := d_status c; d_ninv := S (d_ninv c); d_ready_seen := d_ready_seen c |}) /\
      (match find_imm r (d_imms c) with
       | Some _ => match imm_best (d_imms c) with
                   | Some (r', _) => if Nat.eqb r' r then fire (drop_imm r (d_imms c)) (d_nets c) (d_tmrs c) else None
                   | None => None
                   end
       | None =>
         if EventsSpec.mem_nat r (d_nets c) then
           if EventsSpec.is_nil (d_imms c) then fire (d_imms c) (drop_net r (d_nets c)) (d_tmrs c) else None
         else
           match find_tmr r (d_tmrs c), min_due (d_tmrs c) with
           | Some (_, (_, due)), Some m =>
             if EventsSpec.is_nil (d_imms c) && (negb (f_tmin fl) || (due <=? m)%N) &&
                (negb (f_quiet fl) || match d_prev c with PvPoll0Clock => true | _ => false end)
             then fire (d_imms c) (d_nets c) (drop_tmr r (d_tmrs c)) else None
           | _, _ => None
           end
       end) = Some c').
    { eexists. split; [reflexivity|]. destruct (d_mode c); [discriminate | exact H5 | exact H5]. }
    destruct Hmode as [fire [Hfire H5']]. clear H5.
    destruct (find_imm r (d_imms c)) as [x|] eqn:Efi.
    + (* an immediate *)
      destruct (imm_best (d_imms c)) as [[r' p']|]; [|discriminate].
      destruct (Nat.eqb r' r); [|discriminate]. subst fire. inversion H5'; subst c'.
      apply find_imm_some in Efi. destruct Efi as [Hx Efx]. rewrite Ri in Hx.
      constructor; simpl.
      * congruence.
      * rewrite B, <- Rn. symmetry. apply drop_net_notin. rewrite Rn, <- Efx. apply (imm_not_net _ Hnd). exact Hx.
      * rewrite C, <- Rt. symmetry. apply drop_tmr_notin. intros y Hy. rewrite Rt in Hy. rewrite <- Efx.
        apply (imm_not_tmr _ Hnd x y Hx Hy).
      * exact Rc.
    + pose proof (find_imm_none _ _ Efi) as Hni.
      destruct (EventsSpec.mem_nat r (d_nets c)) eqn:Emn.
      * destruct (EventsSpec.is_nil (d_imms c)); [|discriminate]. subst fire. inversion H5'; subst c'.
        apply mem_nat_true in Emn.
        constructor; simpl.
        -- rewrite A, <- Ri. symmetry. apply drop_imm_notin. exact Hni.
        -- congruence.
        -- rewrite C, <- Rt. symmetry. apply drop_tmr_notin. intros y Hy. rewrite Rt in Hy. rewrite Rn in Emn.
           apply (net_not_tmr _ Hnd r y Emn Hy).
        -- exact Rc.
      * destruct (find_tmr r (d_tmrs c)) as [[r0 [t0 due]]|] eqn:Eft; [|discriminate].
        destruct (min_due (d_tmrs c)); [|discriminate].
        match type of H5' with (if ?b then _ else _) = _ => destruct b; [|discriminate] end.
        subst fire. inversion H5'; subst c'.
        constructor; simpl.
        -- rewrite A, <- Ri. symmetry. apply drop_imm_notin. exact Hni.
        -- rewrite B, <- Rn. symmetry. apply drop_net_notin. intros X. apply mem_nat_true in X. congruence.
        -- congruence.
        -- exact Rc.
  - discriminate.
  - (* ECbEnd *) inversion H4; subst. destruct (d_incb c); [|discriminate]. inversion H5; subst. constructor; simpl; auto.
  - inversion H4; inversion H5; subst. constructor; simpl; auto.
  - inversion H4; inversion H5; subst. constructor; simpl; auto.
  - inversion H4; subst. destruct (d_mode c); try discriminate. inversion H5; subst. constructor; simpl; auto.
  - inversion H4; subst. destruct (d_mode c); try discriminate.
    match type of H5 with (if ?b then _ else _) = _ => destruct b; [|discriminate] end.
    inversion H5; subst. constructor; simpl; auto.
  - inversion H4; subst. destruct (d_mode c); try discriminate. inversion H5; subst. constructor; simpl; auto.
  - inversion H4; subst. destruct (d_mode c); try discriminate.
    match type of H5 with (if ?b then _ else _) = _ => destruct b; [|discriminate] end.
    inversion H5; subst. constructor; simpl; auto.
Qed.

(* R45 holds whenever both checkers have accepted the same trace *)
Lemma R45_steps fl t : forall t0 x4 c x4' c',
  J t0 x4 -> R45 x4 c -> csteps4 x4 t = Some x4' -> csteps5 fl c t = Some c' -> R45 x4' c'.
Proof.
  induction t as [|e t IH]; intros t0 x4 c x4' c' HJ HR H4 H5; simpl in H4, H5.
  - inversion H4; inversion H5; subst. exact HR.
  - destruct (cstep4 x4 e) as [y4|] eqn:E4; [|discriminate].
    destruct (cstep5 fl c e) as [y5|] eqn:E5; [|discriminate].
    eapply (IH (t0 ++ [e])); [eapply J_step; eauto | | exact H4 | exact H5].
    eapply R45_step; eauto. apply (j_nodup_live _ _ HJ).
Qed.

Lemma R45_of_trace fl t x4 c :
  csteps4 c4_init t = Some x4 -> csteps5 fl c5_init t = Some c -> R45 x4 c.
Proof. intros H4 H5. eapply (R45_steps fl t [] c4_init c5_init); eauto using J_init, R45_init. Qed.

(* ================================================================ the immediate queues *)
Lemma NPRIO_is : NPRIO = 32. Proof. reflexivity. Qed.
Lemma PRIO_LIMIT_is : PRIO_LIMIT = NPRIO. Proof. reflexivity. Qed.
Lemma ADV_LIMIT_is : ADV_LIMIT = NPRIO. Proof. reflexivity. Qed.
Lemma EMPTY_MARK_is : EMPTY_MARK = NPRIO. Proof. reflexivity. Qed.
Lemma MINQ_INIT_is : MINQ_INIT = NPRIO. Proof. reflexivity. Qed.
Global Opaque NPRIO PRIO_LIMIT ADV_LIMIT EMPTY_MARK MINQ_INIT.

Definition prio_is (p : nat) (x : nat * nat) : bool := Nat.eqb (snd x) p.

Record ImmOrd (im : imm_st) (l : list (nat * nat)) (bound : nat) : Prop := {
  io_len : length (heads im) = NPRIO;
  io_q : forall p, p < NPRIO -> map r_rid (nth p (heads im) []) = map fst (filter (prio_is p) l);
  io_prio : forall x, In x l -> snd x < NPRIO;
  io_minq : forall i, i < minq im -> nth i (heads im) [] = [];     (* I1 *)
  io_minq_le : minq im <= NPRIO;
  io_nodup : NoDup (map fst l);
  io_lt : forall x, In x l -> fst x < bound
}.

Lemma imm_advance_spec hs : forall fuel m0,
  m0 <= ADV_LIMIT -> ADV_LIMIT - m0 < fuel ->
  let m := imm_advance hs m0 fuel in
  m0 <= m /\ m <= ADV_LIMIT /\ (forall i, m0 <= i -> i < m -> nth i hs [] = []) /\
  (m < ADV_LIMIT -> nth m hs [] <> []).
Proof.
  induction fuel as [|fuel IH]; intros m0 Hle Hfuel; [lia|]. cbn [imm_advance].
  destruct (m0 <? ADV_LIMIT) eqn:E1.
  - apply Nat.ltb_lt in E1. destruct (nth m0 hs []) as [|a q] eqn:E2; cbn [EventsModel.is_nil andb].
    + destruct (IH (S m0)) as [A [B [C D]]]; [lia | lia |]. repeat split; try lia; auto.
      intros i Hi1 Hi2. destruct (Nat.eq_dec i m0) as [->|Hne]; [exact E2 | apply C; lia].
    + repeat split; try lia. intros _. rewrite E2. discriminate.
  - apply Nat.ltb_ge in E1. cbn [andb]. repeat split; try lia.
Qed.

Lemma imm_best_in l x : imm_best l = Some x -> In x l.
Proof.
  revert x. induction l as [|[r p] t IH]; intros x H; simpl in H; [discriminate|].
  destruct (imm_best t) as [[r' p']|].
  - destruct (p' <? p); inversion H; subst; [right; apply IH; reflexivity | left; reflexivity].
  - inversion H. left. reflexivity.
Qed.

Lemma imm_best_spec l r p rest :
  (forall x, In x l -> p <= snd x) -> filter (prio_is p) l = (r, p) :: rest -> imm_best l = Some (r, p).
Proof.
  induction l as [|[r0 p0] t IH]; intros Hmin Hf; simpl in Hf; [discriminate|].
  simpl. unfold prio_is in Hf at 1. simpl in Hf. destruct (Nat.eqb p0 p) eqn:E.
  - apply Nat.eqb_eq in E. subst p0. inversion Hf; subst r0.
    destruct (imm_best t) as [[r' p']|] eqn:Eb; [|reflexivity].
    apply imm_best_in in Eb. assert (p <= p') by (apply (Hmin (r', p')); right; exact Eb).
    assert (X : (p' <? p) = false) by (apply Nat.ltb_ge; exact H). rewrite X. reflexivity.
  - apply Nat.eqb_neq in E. rewrite (IH (fun x Hx => Hmin x (or_intror Hx)) Hf).
    assert (p <= p0) by (apply (Hmin (r0, p0)); left; reflexivity).
    assert (X : (p <? p0) = true) by (apply Nat.ltb_lt; lia). rewrite X. reflexivity.
Qed.

Lemma nth_upd_nth_eq {A} (n : nat) (x d : A) l : n < length l -> nth n (upd_nth n x l) d = x.
Proof. intros H. apply nth_error_nth. apply nth_error_upd_nth_eq. exact H. Qed.
Lemma nth_upd_nth_neq {A} (n m : nat) (x d : A) l : n <> m -> nth m (upd_nth n x l) d = nth m l d.
Proof.
  intros H. destruct (nth_error l m) as [y|] eqn:E.
  - rewrite (nth_error_nth _ _ d E). apply nth_error_nth. rewrite nth_error_upd_nth_neq by exact H. exact E.
  - rewrite !nth_overflow; auto; [apply nth_error_None; exact E|].
    rewrite length_upd_nth. apply nth_error_None. exact E.
Qed.
Lemma nth_of_nth_error {A} (l : list A) n x d : nth_error l n = Some x -> nth n l d = x.
Proof. apply nth_error_nth. Qed.

Lemma ImmOrd_init : ImmOrd {| heads := repeat [] NPRIO; minq := MINQ_INIT |} [] 0.
Proof.
  constructor; simpl.
  - apply repeat_length.
  - intros p Hp. destruct (nth_in_or_default p (repeat (@nil rec) NPRIO) []) as [H | ->]; [|reflexivity].
    apply repeat_spec in H. rewrite H. reflexivity.
  - intros x [].
  - intros i Hi. destruct (nth_in_or_default i (repeat (@nil rec) NPRIO) []) as [H | ->]; [|reflexivity].
    apply repeat_spec in H. exact H.
  - rewrite MINQ_INIT_is. lia.
  - constructor.
  - intros x [].
Qed.

Lemma ImmOrd_bound im l b b' : ImmOrd im l b -> b <= b' -> ImmOrd im l b'.
Proof. intros [A B C D E F G] H. constructor; auto. intros x Hx. specialize (G x Hx). lia. Qed.

Lemma ImmOrd_register cb prio rid im im' l :
  ImmOrd im l rid -> imm_register cb prio rid im = Ok im' -> ImmOrd im' (l ++ [(rid, prio)]) (S rid).
Proof.
  intros [A B C D E F G] H. unfold imm_register in H. rewrite PRIO_LIMIT_is in H.
  destruct (prio <? NPRIO) eqn:Ep; [|discriminate]. apply Nat.ltb_lt in Ep.
  destruct (rdn (heads im) prio) as [q| | |] eqn:Eq; cbn [bind] in H; try discriminate. apply rdn_ok in Eq.
  inversion H; subst im'. clear H.
  assert (Hpl : prio < length (heads im)) by (rewrite A; exact Ep).
  constructor; simpl.
  - rewrite length_upd_nth. exact A.
  - intros p Hp. rewrite filter_app, map_app. simpl. unfold prio_is at 2. simpl.
    destruct (Nat.eq_dec prio p) as [<- | Hne].
    + rewrite nth_upd_nth_eq by exact Hpl. rewrite Nat.eqb_refl. rewrite map_app. simpl.
      rewrite <- (B prio Ep). rewrite (nth_of_nth_error _ _ _ [] Eq). reflexivity.
    + rewrite nth_upd_nth_neq by exact Hne.
      assert (X : Nat.eqb prio p = false) by (apply Nat.eqb_neq; exact Hne). rewrite X. simpl.
      rewrite app_nil_r. apply B. exact Hp.
  - intros x Hx. apply in_app_or in Hx. destruct Hx as [Hx | [<- | []]]; [apply C; exact Hx | exact Ep].
  - intros i Hi. destruct (prio <? minq im) eqn:Em.
    + apply Nat.ltb_lt in Em. rewrite nth_upd_nth_neq by lia. apply D. lia.
    + apply Nat.ltb_ge in Em. rewrite nth_upd_nth_neq by lia. apply D. exact Hi.
  - destruct (prio <? minq im); lia.
  - rewrite map_app. simpl. apply nodup_snoc; [exact F|]. intros X. apply in_map_iff in X.
    destruct X as [x [Ex Hx]]. specialize (G x Hx). lia.
  - intros x Hx. apply in_app_or in Hx. destruct Hx as [Hx | [<- | []]]; [specialize (G x Hx); lia | simpl; lia].
Qed.

Lemma map_filter_comm {A B} (f : A -> B) (P : B -> bool) l :
  map f (filter (fun x => P (f x)) l) = filter P (map f l).
Proof.
  induction l as [|a l IH]; simpl; [reflexivity|]. destruct (P (f a)); simpl; rewrite IH; reflexivity.
Qed.

Lemma filter_comm {A} (p q : A -> bool) l : filter p (filter q l) = filter q (filter p l).
Proof.
  induction l as [|a l IH]; simpl; [reflexivity|].
  destruct (q a) eqn:Eq; destruct (p a) eqn:Ep; simpl; rewrite ?Eq, ?Ep, IH; reflexivity.
Qed.

Lemma filter_implied {A} (p q : A -> bool) l :
  (forall x, In x l -> p x = true -> q x = true) -> filter p (filter q l) = filter p l.
Proof.
  intros H. induction l as [|a l IH]; simpl; [reflexivity|].
  destruct (q a) eqn:Eq; simpl.
  - destruct (p a); rewrite IH; auto; intros x Hx; apply H; right; exact Hx.
  - destruct (p a) eqn:Ep.
    + rewrite (H a (or_introl eq_refl) Ep) in Eq. discriminate.
    + apply IH. intros x Hx. apply H. right. exact Hx.
Qed.

Definition id_neqb (rid : nat) (x : nat) : bool := negb (Nat.eqb x rid).

Lemma nodup_filter_id rid l : NoDup l -> ~ In rid l -> filter (id_neqb rid) l = l.
Proof.
  intros _ H. apply filter_all_true. intros b Hb. unfold id_neqb. apply negb_true_iff, Nat.eqb_neq.
  intros ->. exact (H Hb).
Qed.

Lemma nodup_filter {A} (p : A -> bool) l : NoDup l -> NoDup (filter p l).
Proof. apply NoDup_filter. Qed.

(* removing the (unique) entry with id rid, which sits in queue prio *)
Lemma ImmOrd_remove im im' l b rid prio :
  ImmOrd im l b -> prio < NPRIO ->
  heads im' = upd_nth prio (filter (rid_neqb rid) (nth prio (heads im) [])) (heads im) ->
  minq im' <= NPRIO -> (forall i, i < minq im' -> nth i (heads im') [] = []) ->
  (forall x, In x l -> fst x = rid -> snd x = prio) ->
  ImmOrd im' (drop_imm rid l) b.
Proof.
  intros [A B C D E F G] Hp Hh Hm1 Hm2 Hx.
  assert (Hpl : prio < length (heads im)) by (rewrite A; exact Hp).
  constructor.
  - rewrite Hh, length_upd_nth. exact A.
  - intros p Hpp. rewrite Hh. unfold drop_imm.
    destruct (Nat.eq_dec prio p) as [<- | Hne].
    + rewrite nth_upd_nth_eq by exact Hpl. rewrite filter_comm.
      change (fun x : nat * nat => negb (Nat.eqb (fst x) rid)) with (fun x : nat * nat => id_neqb rid (fst x)).
      rewrite (map_filter_comm fst (id_neqb rid)). rewrite <- (B prio Hp).
      change (rid_neqb rid) with (fun r : rec => id_neqb rid (r_rid r)).
      apply (map_filter_comm r_rid (id_neqb rid)).
    + rewrite nth_upd_nth_neq by exact Hne. rewrite filter_implied; [apply B; exact Hpp|].
      intros x Hxl Hpx. apply negb_true_iff, Nat.eqb_neq. intros Efx. apply Hne.
      rewrite <- (Hx x Hxl Efx). unfold prio_is in Hpx. apply Nat.eqb_eq in Hpx. exact Hpx.
  - intros x Hxl. apply filter_In in Hxl. apply C. tauto.
  - exact Hm2.
  - exact Hm1.
  - unfold drop_imm.
    change (fun x : nat * nat => negb (Nat.eqb (fst x) rid)) with (fun x : nat * nat => id_neqb rid (fst x)).
    rewrite (map_filter_comm fst (id_neqb rid)). apply NoDup_filter. exact F.
  - intros x Hxl. apply filter_In in Hxl. apply G. tauto.
Qed.

Lemma ImmOrd_cancel im im' l b rid prio :
  ImmOrd im l b -> imm_cancel rid prio im = Ok im' ->
  (forall x, In x l -> fst x = rid -> snd x = prio) ->
  ImmOrd im' (drop_imm rid l) b.
Proof.
  intros HO H Hx. unfold imm_cancel in H.
  destruct (rdn (heads im) prio) as [q| | |] eqn:Eq; cbn [bind] in H; try discriminate. apply rdn_ok in Eq.
  inversion H; subst im'. clear H.
  assert (Hp : prio < NPRIO) by (rewrite <- (io_len _ _ _ HO); eapply nth_error_lt; eauto).
  apply (ImmOrd_remove im _ l b rid prio HO Hp); simpl.
  - rewrite (nth_of_nth_error _ _ _ [] Eq). reflexivity.
  - apply (io_minq_le _ _ _ HO).
  - intros i Hi. pose proof (io_minq _ _ _ HO i Hi) as Hempty.
    destruct (Nat.eq_dec prio i) as [<- | Hne].
    + rewrite nth_upd_nth_eq by (rewrite (io_len _ _ _ HO); exact Hp).
      rewrite (nth_of_nth_error _ _ _ [] Eq) in Hempty. subst q. reflexivity.
    + rewrite nth_upd_nth_neq by exact Hne. exact Hempty.
  - exact Hx.
Qed.

Lemma ImmOrd_empty_below im l b p :
  ImmOrd im l b -> p < NPRIO -> nth p (heads im) [] = [] -> forall x, In x l -> snd x <> p.
Proof.
  intros HO Hp He x Hx E.
  pose proof (io_q _ _ _ HO p Hp) as Hq. rewrite He in Hq. simpl in Hq.
  assert (In x (filter (prio_is p) l)).
  { apply filter_In. split; [exact Hx|]. unfold prio_is. apply Nat.eqb_eq. exact E. }
  destruct (filter (prio_is p) l); [destruct H | discriminate].
Qed.

Lemma ImmOrd_get_some im r im' l b :
  ImmOrd im l b -> imm_get im = Ok (Some r, im') ->
  exists m, imm_best l = Some (r_rid r, m) /\ ImmOrd im' (drop_imm (r_rid r) l) b.
Proof.
  intros HO H. unfold imm_get in H.
  destruct (imm_advance_spec (heads im) (S ADV_LIMIT) (minq im)) as [A1 [A2 [A3 A4]]];
    [rewrite ADV_LIMIT_is; apply (io_minq_le _ _ _ HO) | lia |].
  set (m := imm_advance (heads im) (minq im) (S ADV_LIMIT)) in *.
  rewrite EMPTY_MARK_is in H. rewrite ADV_LIMIT_is in A2, A4.
  destruct (m =? NPRIO) eqn:Em; [discriminate|]. apply Nat.eqb_neq in Em.
  assert (Hm : m < NPRIO) by lia.
  destruct (rdn (heads im) m) as [q| | |] eqn:Eq; cbn [bind] in H; try discriminate. apply rdn_ok in Eq.
  destruct q as [|r0 q']; [discriminate|]. inversion H; subst r0 im'. clear H.
  pose proof (nth_of_nth_error _ _ _ [] Eq) as Hnth.
  (* queues below m are empty *)
  assert (Hbelow : forall i, i < m -> nth i (heads im) [] = []).
  { intros i Hi. destruct (lt_dec i (minq im)); [apply (io_minq _ _ _ HO); assumption | apply A3; lia]. }
  (* the head of the list for priority m *)
  pose proof (io_q _ _ _ HO m Hm) as Hq. rewrite Hnth in Hq. simpl in Hq.
  destruct (filter (prio_is m) l) as [|[x0 p0] rest] eqn:Ef; [discriminate|]. simpl in Hq.
  inversion Hq as [[Hx0 Hrest]].
  assert (Hin0 : In (x0, p0) (filter (prio_is m) l)) by (rewrite Ef; left; reflexivity).
  apply filter_In in Hin0. destruct Hin0 as [Hin0 Hp0]. unfold prio_is in Hp0. simpl in Hp0.
  apply Nat.eqb_eq in Hp0. subst p0 x0.
  exists m. split.
  - apply (imm_best_spec l (r_rid r) m rest); [|exact Ef].
    intros x Hx. destruct (le_lt_dec m (snd x)) as [Hle | Hlt]; [exact Hle|]. exfalso.
    assert (Hpx : snd x < NPRIO) by lia.
    exact (ImmOrd_empty_below im l b (snd x) HO Hpx (Hbelow _ Hlt) x Hx eq_refl).
  - (* the only entry with this id is the head one *)
    assert (Hnd : NoDup (map fst l)) by apply (io_nodup _ _ _ HO).
    assert (Honly : forall x, In x l -> fst x = r_rid r -> snd x = m).
    { intros x Hx E. destruct x as [a p]. simpl in *. subst a.
      assert (p = m); [|assumption].
      clear -Hnd Hx Hin0. induction l as [|y t IH]; [destruct Hx|].
      simpl in Hnd. inversion Hnd; subst.
      destruct Hx as [-> | Hx], Hin0 as [E0 | Hin0].
      - inversion E0. reflexivity.
      - exfalso. apply H1. apply (in_map fst) in Hin0. exact Hin0.
      - exfalso. subst y. apply H1. apply (in_map fst) in Hx. exact Hx.
      - apply IH; assumption. }
    assert (Hndq : NoDup (map r_rid (r :: q'))).
    { pose proof (io_q _ _ _ HO m Hm) as Hq2. rewrite Hnth in Hq2. rewrite Hq2.
      change (prio_is m) with (fun x : nat * nat => Nat.eqb (snd x) m).
      clear -Hnd. induction l as [|y t IH]; simpl; [constructor|].
      simpl in Hnd. inversion Hnd; subst. destruct (Nat.eqb (snd y) m); simpl; [|auto].
      constructor; [|auto]. intros X. apply H1. apply in_map_iff in X. destruct X as [z [E Hz]].
      apply filter_In in Hz. apply in_map_iff. exists z. tauto. }
    simpl in Hndq. inversion Hndq as [|? ? Hnotin Hndq']. subst.
    apply (ImmOrd_remove im _ l b (r_rid r) m HO Hm); simpl.
    + rewrite Hnth. simpl. unfold rid_neqb at 1. rewrite Nat.eqb_refl. simpl.
      f_equal. symmetry. apply filter_all_true. intros y Hy. unfold rid_neqb.
      apply negb_true_iff, Nat.eqb_neq. intros E. apply Hnotin. rewrite <- E. apply in_map. exact Hy.
    + lia.
    + intros i Hi. rewrite nth_upd_nth_neq by lia. apply Hbelow. exact Hi.
    + exact Honly.
Qed.

Lemma ImmOrd_get_none im im' l b :
  ImmOrd im l b -> imm_get im = Ok (None, im') -> l = [] /\ ImmOrd im' l b.
Proof.
  intros HO H. unfold imm_get in H.
  destruct (imm_advance_spec (heads im) (S ADV_LIMIT) (minq im)) as [A1 [A2 [A3 A4]]];
    [rewrite ADV_LIMIT_is; apply (io_minq_le _ _ _ HO) | lia |].
  set (m := imm_advance (heads im) (minq im) (S ADV_LIMIT)) in *.
  rewrite EMPTY_MARK_is in H. rewrite ADV_LIMIT_is in A2, A4.
  destruct (m =? NPRIO) eqn:Em.
  - apply Nat.eqb_eq in Em. inversion H; subst im'. clear H.
    assert (Hall : forall i, i < NPRIO -> nth i (heads im) [] = []).
    { intros i Hi. destruct (lt_dec i (minq im)); [apply (io_minq _ _ _ HO); assumption | apply A3; lia]. }
    assert (Hl : l = []).
    { destruct l as [|x t]; [reflexivity|]. exfalso.
      assert (Hx : In x (x :: t)) by (left; reflexivity).
      pose proof (io_prio _ _ _ HO x Hx) as Hpx.
      exact (ImmOrd_empty_below im (x :: t) b (snd x) HO Hpx (Hall _ Hpx) x Hx eq_refl). }
    split; [exact Hl|]. destruct HO as [A B C D E F G].
    constructor; simpl; [exact A | exact B | exact C | intros i Hi; apply Hall; lia | lia | exact F | exact G].
  - destruct (rdn (heads im) m) as [q| | |]; cbn [bind] in H; try discriminate. destruct q; discriminate.
Qed.

(* ================================================================ the C05 invariant *)
Section Sim5.
  Variable fl : c5flags.

  (* data part, holding at every point of an execution *)
  Definition G5 (s : st) (c : c5) : Prop :=
    Good s /\ csteps5 fl c5_init (rev (s_tr s)) = Some c /\
    ImmOrd (s_imm s) (d_imms c) (next_rid (s_cl s)) /\ d_intr c = s_intr s.

  (* control fields an API call made by the client leaves alone *)
  Definition ctl_same (c c' : c5) : Prop :=
    d_mode c' = d_mode c /\ d_incb c' = d_incb c /\ d_stop c' = d_stop c /\ d_status c' = d_status c /\
    d_drain c' = d_drain c /\ d_phase c' = d_phase c /\ d_ninv c' = d_ninv c /\
    d_ready_seen c' = d_ready_seen c /\ (d_intr_run c = true -> d_intr_run c' = true).

  Lemma ctl_same_refl c : ctl_same c c.
  Proof. unfold ctl_same. tauto. Qed.
  Lemma ctl_same_trans a b c : ctl_same a b -> ctl_same b c -> ctl_same a c.
  Proof. unfold ctl_same. intros H1 H2. decompose [and] H1. decompose [and] H2. repeat split; try congruence. auto. Qed.

  Lemma csteps5_app c t1 t2 :
    csteps5 fl c (t1 ++ t2) = match csteps5 fl c t1 with Some c1 => csteps5 fl c1 t2 | None => None end.
  Proof.
    revert c. induction t1 as [|e t1 IH]; intros c; simpl; [reflexivity|].
    destruct (cstep5 fl c e); [apply IH | reflexivity].
  Qed.

  Lemma csteps5_emit s s' e c c' :
    csteps5 fl c5_init (rev (s_tr s)) = Some c -> s_tr s' = e :: s_tr s -> cstep5 fl c e = Some c' ->
    csteps5 fl c5_init (rev (s_tr s')) = Some c'.
  Proof. intros Hc Ht He. rewrite Ht. simpl. rewrite csteps5_app, Hc. simpl. rewrite He. reflexivity. Qed.

  (* the C04 checker state behind Good, with the projection relation *)
  Lemma G5_c4 s c : G5 s c -> exists x4, csteps4 c4_init (rev (s_tr s)) = Some x4 /\ Sim s x4 /\ R45 x4 c.
  Proof.
    intros [[x4 [H4 HS]] [H5 _]]. exists x4. split; [exact H4|]. split; [exact HS|].
    eapply R45_of_trace; eauto.
  Qed.

  Lemma not_imm_id x4 c r k :
    R45 x4 c -> NoDup (map g_rid (c_live x4)) -> live_rid x4 r k -> is_imm k = false ->
    drop_imm r (d_imms c) = d_imms c.
  Proof.
    intros HR Hnd [g [Hg [Er Hk]]] Hnot. apply drop_imm_notin. intros x Hx E.
    rewrite (r_imms _ _ HR) in Hx. apply in_imm_of in Hx. destruct Hx as [g' [Hg' [A B]]].
    assert (g = g') by (apply (nodup_rid_eq (c_live x4)); auto; [apply in_rev; exact Hg' | congruence]).
    subst g'. rewrite B in Hk. subst k. discriminate.
  Qed.

  (* events that leave the immediate list and the interrupt flag alone *)
  Definition passive5 (c c' : c5) : Prop := d_imms c' = d_imms c /\ d_intr c' = d_intr c /\ ctl_same c c'.

  Lemma G5_passive s s' e c c' :
    G5 s c -> Good s' -> s_tr s' = e :: s_tr s -> cstep5 fl c e = Some c' ->
    passive5 c c' -> s_imm s' = s_imm s -> s_intr s' = s_intr s -> next_rid (s_cl s) <= next_rid (s_cl s') ->
    G5 s' c' /\ ctl_same c c'.
  Proof.
    intros [HG [Hc [HO Hi]]] HG' Ht He [Pi [Pn Pc]] Eimm Eintr Hnext. split; [|exact Pc].
    split; [exact HG'|]. split; [eapply csteps5_emit; eauto|]. split.
    - rewrite Pi, Eimm. eapply ImmOrd_bound; eauto.
    - congruence.
  Qed.
End Sim5.

Section Ops5.
  Variable fl : c5flags.

  Lemma upd5_ctl c i n t : ctl_same c (upd5 c i n t).
  Proof. unfold ctl_same. simpl. tauto. Qed.

  Lemma cstep5_clock c t :
    cstep5 fl c (EClock t) =
    Some {| d_imms := d_imms c; d_nets := d_nets c; d_tmrs := d_tmrs c; d_clock := Some t;
            d_prev := match d_prev c with PvPoll0 => PvPoll0Clock | _ => PvClock end;
            d_mode := d_mode c; d_phase := d_phase c; d_drain := d_drain c; d_incb := d_incb c;
            d_intr := d_intr c; d_intr_run := d_intr_run c; d_stop := d_stop c;
            d_status := d_status c; d_ninv := d_ninv c; d_ready_seen := d_ready_seen c |}.
  Proof. reflexivity. Qed.

  (* reading the clock *)
  Lemma g5_read_clock s c now s1 :
    G5 fl s c -> read_clock s = (now, s1) ->
    exists c1, G5 fl s1 c1 /\ ctl_same c c1 /\ d_clock c1 = Some now /\ d_imms c1 = d_imms c /\
               d_nets c1 = d_nets c /\ d_tmrs c1 = d_tmrs c /\
               d_prev c1 = match d_prev c with PvPoll0 => PvPoll0Clock | _ => PvClock end /\
               s_cl s1 = s_cl s /\ s_imm s1 = s_imm s /\ s_net s1 = s_net s /\ s_tmr s1 = s_tmr s /\
               s_intr s1 = s_intr s /\ s_tr s1 = EClock now :: s_tr s.
  Proof.
    intros HG H. pose proof HG as [HGood [Hc [HO Hi]]].
    destruct (read_clock_good s now s1 HGood H) as [_ [E1 [E2 [E3 [E4 [E5 _]]]]]].
    assert (Htr : s_tr s1 = EClock now :: s_tr s).
    { unfold read_clock in H. destruct (clocks (s_env s)); inversion H; reflexivity. }
    set (c1 := {| d_imms := d_imms c; d_nets := d_nets c; d_tmrs := d_tmrs c; d_clock := Some now;
            d_prev := match d_prev c with PvPoll0 => PvPoll0Clock | _ => PvClock end;
            d_mode := d_mode c; d_phase := d_phase c; d_drain := d_drain c; d_incb := d_incb c;
            d_intr := d_intr c; d_intr_run := d_intr_run c; d_stop := d_stop c;
            d_status := d_status c; d_ninv := d_ninv c; d_ready_seen := d_ready_seen c |}).
    assert (Hctl : ctl_same c c1) by (unfold ctl_same; simpl; tauto).
    exists c1. split.
    { apply (G5_passive fl s s1 (EClock now) c c1 HG).
      - eapply read_clock_Good; eauto.
      - exact Htr.
      - apply cstep5_clock.
      - unfold passive5. simpl. auto.
      - exact E2.
      - exact E5.
      - rewrite E1. lia. }
    split; [exact Hctl|]. simpl. repeat split; auto.
  Qed.

  Ltac solve_passive :=
    unfold passive5, ctl_same; simpl; tauto.
  Ltac passive_step HG HGood' :=
    eexists; eapply (G5_passive fl);
      [exact HG | exact HGood' | reflexivity | reflexivity | solve_passive | reflexivity | reflexivity | simpl; lia].

  Lemma g5_exec_op o s s' c :
    G5 fl s c -> op_norm o -> exec_op o s = Ok s' -> exists c', G5 fl s' c' /\ ctl_same c c'.
  Proof.
    intros HG Hn H. pose proof HG as [HGood [Hc [HO Hi]]].
    pose proof (good_exec_op o s s' HGood Hn H) as HGood'.
    destruct (G5_c4 fl s c HG) as [x4 [H4 [HS HR]]].
    destruct o.
    - (* OImmReg *)
      unfold exec_op in H. destruct af as [|af]; cbn [Nat.eqb negb] in H.
      + destruct (imm_register cb prio (next_rid (s_cl s)) (s_imm s)) as [im| | |] eqn:Ei; cbn [bind] in H; try discriminate.
        inversion H; subst s'. clear H.
        eexists. split; [|apply (upd5_ctl c)].
        split; [exact HGood'|]. split; [eapply csteps5_emit; [exact Hc | reflexivity | reflexivity]|]. split.
        * simpl. eapply ImmOrd_register; eauto.
        * simpl. exact Hi.
      + inversion H; subst s'. passive_step HG HGood'.
    - (* OImmCancel *)
      unfold exec_op in H.
      destruct (get_var var (vars (s_cl s))) as [[r [prio|]]|] eqn:Ev;
        try (inversion H; subst; exists c; split; [exact HG | apply ctl_same_refl]).
      destruct (EventsModel.mem_nat r (cl_live (s_cl s))) eqn:Em;
        [|inversion H; subst; exists c; split; [exact HG | apply ctl_same_refl]].
      destruct (imm_cancel r prio (s_imm s)) as [im| | |] eqn:Ei; cbn [bind] in H; try discriminate.
      inversion H; subst s'. clear H.
      eexists. split; [|apply (upd5_ctl c)].
      split; [exact HGood'|]. split; [eapply csteps5_emit; [exact Hc | reflexivity | reflexivity]|]. split.
      * simpl. eapply ImmOrd_cancel; eauto. intros x Hx Ex.
        rewrite (r_imms _ _ HR) in Hx. apply in_imm_of in Hx. destruct Hx as [g [Hg [A B]]].
        apply in_rev in Hg. assert (K : g_kind g = KImm prio) by (eapply (sm_vars s x4 HS); eauto; congruence).
        congruence.
      * simpl. exact Hi.
    - (* ONetReg *)
      unfold exec_op in H. destruct af as [|af]; cbn [Nat.eqb negb] in H.
      + destruct (net_register cb fd opn (next_rid (s_cl s)) (s_net s)) as [[e n]| | |] eqn:En; cbn [bind] in H; try discriminate.
        destruct e as [err|].
        * inversion H; subst s'. passive_step HG HGood'.
        * destruct (op_dir opn) as [dir|]; [|discriminate]. inversion H; subst s'.
          passive_step HG HGood'.
      + inversion H; subst s'. passive_step HG HGood'.
    - (* ONetCancel *)
      unfold exec_op in H.
      destruct (net_cancel fd opn (s_net s)) as [[x n]| | |] eqn:En; cbn [bind] in H; try discriminate.
      destruct (net_cancel_spec fd opn (s_net s) x n (sm_net s x4 HS) En) as [_ [_ Hspec]].
      destruct x as [rc | err].
      + destruct Hspec as [dir [_ [_ [Hrc _]]]]. inversion H; subst s'.
        pose proof (sm_net1 s x4 HS _ _ _ Hrc) as Hlr.
        eexists. eapply (G5_passive fl); [exact HG | exact HGood' | reflexivity | reflexivity | | reflexivity | reflexivity | simpl; lia].
        unfold passive5. simpl. split; [|split; [reflexivity | apply (upd5_ctl c)]].
        eapply not_imm_id; eauto. apply (sm_nodup s x4 HS).
      + inversion H; subst s'. passive_step HG HGood'.
    - (* OTimerReg *)
      unfold exec_op in H. destruct af as [|[|af]]; cbn [Nat.eqb negb] in H.
      + destruct (timer_register cb t (next_rid (s_cl s)) s) as [s1| | |] eqn:Er; cbn [bind] in H; try discriminate.
        inversion H; subst s'. clear H.
        unfold timer_register in Er. destruct (read_clock s) as [now s0] eqn:Ec.
        destruct (g5_read_clock s c now s0 HG Ec) as [c1 [HG1 [Hctl1 [Hclk [Hi1 [_ [_ [_ [E1 [E2 [E3 [E4 [E5 E6]]]]]]]]]]]]].
        destruct (heap_add _ (heap (s_tmr s0))) as [h| | |]; cbn [bind] in Er; try discriminate.
        inversion Er; subst s1. clear Er.
        destruct HG1 as [_ [Hc1 [HO1 Hint1]]].
        eexists. split; [|eapply ctl_same_trans; [exact Hctl1 | apply (upd5_ctl c1)]].
        split; [exact HGood'|]. split.
        * eapply csteps5_emit; [exact Hc1 | reflexivity | simpl; rewrite Hclk; reflexivity].
        * split; [simpl; eapply ImmOrd_bound; [exact HO1 | simpl; lia] | simpl; exact Hint1].
      + inversion H; subst s'. passive_step HG HGood'.
      + destruct (read_clock s) as [now s0] eqn:Ec. inversion H; subst s'.
        destruct (g5_read_clock s c now s0 HG Ec) as [c1 [HG1 [Hctl1 [Hclk [Hi1 [_ [_ [_ [E1 [E2 [E3 [E4 [E5 E6]]]]]]]]]]]]].
        assert (X : exists c', G5 fl (emit (ERegFailTimer t ENOMEM) s0) c' /\ ctl_same c1 c').
        { passive_step HG1 HGood'. }
        destruct X as [c' [A B]]. exists c'. split; [exact A | eapply ctl_same_trans; eauto].
    - (* OTimerCancel *)
      unfold exec_op in H.
      destruct (get_var var (vars (s_cl s))) as [[r [prio|]]|] eqn:Ev;
        try (inversion H; subst; exists c; split; [exact HG | apply ctl_same_refl]).
      destruct (EventsModel.mem_nat r (cl_live (s_cl s))) eqn:Em;
        [|inversion H; subst; exists c; split; [exact HG | apply ctl_same_refl]].
      destruct (timer_cancel r s) as [s1| | |] eqn:Et; cbn [bind] in H; try discriminate.
      inversion H; subst s'. clear H.
      unfold timer_cancel in Et. destruct (heap_index r (heap (s_tmr s))) as [i|] eqn:Ei; [|discriminate].
      destruct (heap_delete i (heap (s_tmr s))) as [h| | |]; cbn [bind] in Et; try discriminate.
      inversion Et; subst s1. clear Et.
      destruct (heap_index_some _ _ _ Ei) as [x [Hx Hxr]].
      destruct (sm_tmr s x4 HS x (nth_error_In _ _ Hx)) as [g [Hg [Er [Hk _]]]]. rewrite Hxr in Er.
      eexists. eapply (G5_passive fl); [exact HG | exact HGood' | reflexivity | reflexivity | | reflexivity | reflexivity | simpl; lia].
      unfold passive5. simpl. split; [|split; [reflexivity | apply (upd5_ctl c)]].
      eapply (not_imm_id x4 c r (KTimer (t_orig x))); eauto; [apply (sm_nodup s x4 HS) | exists g; auto].
    - (* OTimerReset *)
      unfold exec_op in H.
      destruct (get_var var (vars (s_cl s))) as [[r [prio|]]|] eqn:Ev;
        try (inversion H; subst; exists c; split; [exact HG | apply ctl_same_refl]).
      destruct (EventsModel.mem_nat r (cl_live (s_cl s))) eqn:Em;
        [|inversion H; subst; exists c; split; [exact HG | apply ctl_same_refl]].
      destruct (timer_reset r s) as [s1| | |] eqn:Et; cbn [bind] in H; try discriminate.
      inversion H; subst s'. clear H.
      unfold timer_reset in Et. destruct (heap_index r (heap (s_tmr s))) as [i|]; [|discriminate].
      destruct (rdn (heap (s_tmr s)) i) as [x| | |]; cbn [bind] in Et; try discriminate.
      destruct (read_clock s) as [now s0] eqn:Ec.
      destruct (g5_read_clock s c now s0 HG Ec) as [c1 [HG1 [Hctl1 [Hclk [Hi1 [_ [_ [_ [E1 [E2 [E3 [E4 [E5 E6]]]]]]]]]]]]].
      match type of Et with (let* h := ?e in _) = _ => destruct e as [h| | |] end; cbn [bind] in Et; try discriminate.
      inversion Et; subst s1. clear Et.
      destruct HG1 as [_ [Hc1 [HO1 Hint1]]].
      eexists. split; [|eapply ctl_same_trans; [exact Hctl1 | apply (upd5_ctl c1)]].
      split; [exact HGood'|]. split.
      * eapply csteps5_emit; [exact Hc1 | reflexivity | simpl; rewrite Hclk; reflexivity].
      * split; [simpl; exact HO1 | simpl; exact Hint1].
    - (* OInterrupt *)
      unfold exec_op in H. inversion H; subst s'.
      eexists. split.
      + split; [exact HGood'|]. split; [eapply csteps5_emit; [exact Hc | reflexivity | reflexivity]|].
        split; [simpl; exact HO | reflexivity].
      + unfold ctl_same. simpl. tauto.
    - (* ODone *)
      unfold exec_op in H. inversion H; subst s'.
      passive_step HG HGood'.
  Qed.

  Lemma g5_exec_ops l : forall s s' c,
    G5 fl s c -> Forall op_norm l -> exec_ops l s = Ok s' -> exists c', G5 fl s' c' /\ ctl_same c c'.
  Proof.
    induction l as [|o l IH]; intros s s' c HG Hn H; simpl in H.
    - inversion H; subst. exists c. split; [exact HG | apply ctl_same_refl].
    - destruct (exec_op o s) as [s1| | |] eqn:E; cbn [bind] in H; try discriminate.
      inversion Hn; subst. destruct (g5_exec_op o s s1 c HG H2 E) as [c1 [HG1 Hc1]].
      destruct (IH s1 s' c1 HG1 H3 H) as [c' [HG' Hc']]. exists c'. split; [exact HG' | eapply ctl_same_trans; eauto].
  Qed.
End Ops5.

(* ================================================================ the dispatcher *)
Section Dispatch5.
  Variable fl : c5flags.
  (* the clauses of the checker not covered yet (see Properties_C05_events.v) *)
  Hypothesis Hno_tmin : f_tmin fl = false.
  Hypothesis Hno_quiet : f_quiet fl = false.
  Hypothesis Hno_timeout : f_timeout fl = false.
  Hypothesis Hno_progress : f_progress fl = false.

  Variable prog : program.
  Hypothesis Hprog : prog_norm prog.

  Lemma G5_step s s' e c c' :
    G5 fl s c -> Good s' -> s_tr s' = e :: s_tr s -> cstep5 fl c e = Some c' ->
    ImmOrd (s_imm s') (d_imms c') (next_rid (s_cl s')) -> d_intr c' = s_intr s' ->
    G5 fl s' c'.
  Proof.
    intros [HG [Hc [HO Hi]]] HG' Ht He HO' Hi'. split; [exact HG'|].
    split; [eapply csteps5_emit; eauto|]. split; assumption.
  Qed.

  (* control facts kept between two dispatcher steps *)
  Definition run_same (c c' : c5) : Prop :=
    d_mode c' = d_mode c /\ d_drain c' = d_drain c.

  Definition fired (c : c5) (imms : list (nat * nat)) (nets : list nat) (tmrs : list (nat * (tv * N))) : c5 :=
    {| d_imms := imms; d_nets := nets; d_tmrs := tmrs; d_clock := d_clock c; d_prev := PvNone;
       d_mode := d_mode c; d_phase := d_phase c; d_drain := d_drain c; d_incb := true;
       d_intr := d_intr c; d_intr_run := d_intr_run c; d_stop := false;
       d_status := d_status c; d_ninv := S (d_ninv c); d_ready_seen := d_ready_seen c |}.

  Lemma cstep5_invoke_imm c r x p :
    d_incb c = false -> d_stop c = false -> d_mode c <> MOut ->
    find_imm r (d_imms c) = Some x -> imm_best (d_imms c) = Some (r, p) ->
    cstep5 fl c (EInvoke r) = Some (fired c (drop_imm r (d_imms c)) (d_nets c) (d_tmrs c)).
  Proof.
    intros Hincb Hstop Hmode Hfind Hbest. unfold cstep5, fired. rewrite Hincb, Hstop. cbn [orb].
    rewrite Hfind, Hbest, Nat.eqb_refl. destruct (d_mode c) eqn:Em; [congruence | reflexivity | reflexivity].
  Qed.

  Lemma cstep5_invoke_net c r :
    d_incb c = false -> d_stop c = false -> d_mode c <> MOut -> d_imms c = [] ->
    EventsSpec.mem_nat r (d_nets c) = true ->
    cstep5 fl c (EInvoke r) = Some (fired c (d_imms c) (drop_net r (d_nets c)) (d_tmrs c)).
  Proof.
    intros Hincb Hstop Hmode Hnil Hmem. unfold cstep5, fired. rewrite Hincb, Hstop. cbn [orb].
    rewrite Hnil. cbn [find_imm find]. rewrite Hmem. cbn [EventsSpec.is_nil].
    destruct (d_mode c) eqn:Em; [congruence | reflexivity | reflexivity].
  Qed.

  Lemma cstep5_invoke_tmr c r t0 due0 md :
    d_incb c = false -> d_stop c = false -> d_mode c <> MOut -> d_imms c = [] ->
    EventsSpec.mem_nat r (d_nets c) = false ->
    find_tmr r (d_tmrs c) = Some (r, (t0, due0)) -> min_due (d_tmrs c) = Some md ->
    cstep5 fl c (EInvoke r) = Some (fired c (d_imms c) (d_nets c) (drop_tmr r (d_tmrs c))).
  Proof.
    intros Hincb Hstop Hmode Hnil Hmem Hft Hmd. unfold cstep5, fired. rewrite Hincb, Hstop. cbn [orb].
    rewrite Hnil. cbn [find_imm find]. rewrite Hmem, Hft, Hmd. cbn [EventsSpec.is_nil andb].
    rewrite Hno_tmin, Hno_quiet. cbn [negb orb andb].
    destruct (d_mode c) eqn:Em; [congruence | reflexivity | reflexivity].
  Qed.

  (* ---- the three ways a callback is entered *)
  Definition Entered (c : c5) (s1 : st) (c1 : c5) : Prop :=
    G5 fl s1 c1 /\ d_incb c1 = true /\ run_same c c1.

  Lemma enter_imm s c r s1 :
    G5 fl s c -> d_incb c = false -> d_stop c = false -> d_mode c <> MOut ->
    imm_get_s s = Ok (Some r, s1) ->
    exists c1, Entered c (emit (EInvoke (r_rid r)) (fire_cl r s1)) c1.
  Proof.
    intros HG Hincb Hstop Hmode H. pose proof HG as [HGood [Hc [HO Hi]]].
    pose proof (good_imm_get_some s r s1 HGood H) as HGood'.
    unfold imm_get_s in H. destruct (imm_get (s_imm s)) as [[ro im]| | |] eqn:E; cbn [bind] in H; try discriminate.
    inversion H; subst ro s1. clear H.
    destruct (ImmOrd_get_some _ _ _ _ _ HO E) as [m [Hbest HO']].
    assert (Hfind : exists x, find_imm (r_rid r) (d_imms c) = Some x).
    { apply imm_best_in in Hbest. unfold find_imm.
      destruct (find (fun x : nat * nat => Nat.eqb (fst x) (r_rid r)) (d_imms c)) eqn:Ef; [eauto|].
      exfalso. pose proof (find_none _ _ Ef _ Hbest) as X. simpl in X. rewrite Nat.eqb_refl in X. discriminate. }
    destruct Hfind as [x Hfind].
    exists (fired c (drop_imm (r_rid r) (d_imms c)) (d_nets c) (d_tmrs c)). split; [|split].
    - eapply (G5_step s _ (EInvoke (r_rid r)) c); [exact HG | exact HGood' | reflexivity | | |].
      + eapply cstep5_invoke_imm; eauto.
      + simpl. exact HO'.
      + simpl. exact Hi.
    - reflexivity.
    - split; reflexivity.
  Qed.

  Lemma enter_net s c r s1 :
    G5 fl s c -> d_incb c = false -> d_stop c = false -> d_mode c <> MOut -> d_imms c = [] ->
    net_get_s s = Ok (Some r, s1) ->
    exists c1, Entered c (emit (EInvoke (r_rid r)) (fire_cl r s1)) c1.
  Proof.
    intros HG Hincb Hstop Hmode Hnil H. pose proof HG as [HGood [Hc [HO Hi]]].
    pose proof (good_net_get_some s r s1 HGood H) as HGood'.
    destruct (G5_c4 fl s c HG) as [x4 [H4 [HS HR]]].
    unfold net_get_s in H. destruct (net_get (s_net s)) as [[ro n]| | |] eqn:E; cbn [bind] in H; try discriminate.
    inversion H; subst ro s1. clear H.
    destruct (net_get_spec (s_net s) (Some r) n (sm_net s x4 HS) E) as [_ [_ [s0 [dir [Hrc _]]]]].
    destruct (sm_net1 s x4 HS _ _ _ Hrc) as [g [Hg [Er Hk]]].
    assert (Hmem : EventsSpec.mem_nat (r_rid r) (d_nets c) = true).
    { apply mem_nat_true. rewrite (r_nets _ _ HR). apply in_net_of. exists g, s0, dir.
      split; [apply in_rev; rewrite rev_involutive; exact Hg | auto]. }
    exists (fired c (d_imms c) (drop_net (r_rid r) (d_nets c)) (d_tmrs c)). split; [|split].
    - eapply (G5_step s _ (EInvoke (r_rid r)) c); [exact HG | exact HGood' | reflexivity | | |].
      + eapply cstep5_invoke_net; eauto.
      + simpl. exact HO.
      + simpl. exact Hi.
    - reflexivity.
    - split; reflexivity.
  Qed.

  Lemma min_due_some l : l <> [] -> exists m, min_due l = Some m.
  Proof.
    destruct l as [|[r [t d]] rest]; [congruence|]. intros _. simpl.
    destruct (min_due rest); eauto.
  Qed.

  Lemma enter_timer s c r s1 :
    G5 fl s c -> d_incb c = false -> d_stop c = false -> d_mode c <> MOut -> d_imms c = [] ->
    timer_get s = Ok (Some r, s1) ->
    exists c1, Entered c (emit (EInvoke (r_rid r)) (fire_cl r s1)) c1.
  Proof.
    intros HG Hincb Hstop Hmode Hnil H.
    pose proof (good_timer_get_some s r s1 (proj1 HG) H) as HGood'.
    unfold timer_get in H. destruct (tq_inited (s_tmr s)); [|discriminate].
    destruct (read_clock s) as [now s0] eqn:Ec.
    destruct (g5_read_clock fl s c now s0 HG Ec) as [c0 [HG0 [Hctl0 [Hclk [Hi0 [Hn0 [Ht0 [_ [E1 [E2 [E3 [E4 [E5 E6]]]]]]]]]]]]].
    destruct (G5_c4 fl s0 c0 HG0) as [x4 [H4 [HS HR]]].
    destruct (heap (s_tmr s0)) as [|m rest] eqn:Eheap; [discriminate|].
    assert (Hm : In m (heap (s_tmr s0))) by (rewrite Eheap; left; reflexivity).
    destruct (sm_tmr s0 x4 HS m Hm) as [g [Hg [Er [Hk [Hdue _]]]]].
    assert (Hres : r = t_rec m /\ s_imm s1 = s_imm s0 /\ s_intr s1 = s_intr s0 /\ s_cl s1 = s_cl s0 /\ s_tr s1 = s_tr s0).
    { destruct (tv_cmp (t_deadline m) now); try discriminate;
        (destruct (heap_delete 0 (m :: rest)) as [h| | |]; cbn [bind] in H; try discriminate;
         inversion H; subst; simpl; auto). }
    destruct Hres as [-> [F1 [F2 [F3 F4]]]].
    destruct Hctl0 as [C1 [C2 [C3 [C4 [C5 _]]]]].
    (* classification of the id *)
    assert (Hnotnet : EventsSpec.mem_nat (r_rid (t_rec m)) (d_nets c0) = false).
    { destruct (EventsSpec.mem_nat (r_rid (t_rec m)) (d_nets c0)) eqn:X; [|reflexivity]. exfalso.
      apply mem_nat_true in X. rewrite (r_nets _ _ HR) in X. apply in_net_of in X.
      destruct X as [g' [fd [dir [Hg' [A B]]]]]. apply in_rev in Hg'.
      assert (g = g') by (apply (nodup_rid_eq (c_live x4)); auto; [apply (sm_nodup s0 x4 HS) | congruence]).
      subst g'. congruence. }
    assert (Hintm : In (r_rid (t_rec m), (t_orig m, g_due g)) (d_tmrs c0)).
    { rewrite (r_tmrs _ _ HR). apply in_tmr_of. exists g. simpl.
      split; [apply in_rev; rewrite rev_involutive; exact Hg | auto]. }
    assert (Hft : exists t0 due0, find_tmr (r_rid (t_rec m)) (d_tmrs c0) = Some (r_rid (t_rec m), (t0, due0))).
    { unfold find_tmr. destruct (find (fun x : nat * (tv * N) => Nat.eqb (fst x) (r_rid (t_rec m))) (d_tmrs c0)) as [[r0 [t0 d0]]|] eqn:Ef.
      - apply find_some in Ef. destruct Ef as [_ Ef]. simpl in Ef. apply Nat.eqb_eq in Ef. subst r0. eauto.
      - exfalso. pose proof (find_none _ _ Ef _ Hintm) as X. simpl in X. rewrite Nat.eqb_refl in X. discriminate. }
    destruct Hft as [t0 [due0 Hft]].
    destruct (min_due_some (d_tmrs c0)) as [md Hmd]; [intros X; rewrite X in Hintm; destruct Hintm|].
    exists (fired c0 (d_imms c0) (d_nets c0) (drop_tmr (r_rid (t_rec m)) (d_tmrs c0))). split; [|split].
    - eapply (G5_step s0 _ (EInvoke (r_rid (t_rec m))) c0); [exact HG0 | exact HGood' | simpl; rewrite F4; reflexivity | | |].
      + eapply cstep5_invoke_tmr; eauto; congruence.
      + simpl. rewrite F1, F3. apply HG0.
      + simpl. rewrite F2. apply HG0.
    - reflexivity.
    - split; simpl; congruence.
  Qed.

  (* ---- a callback runs and returns *)
  Lemma run_callback c r s s1 c1 rc s' :
    s1 = emit (EInvoke (r_rid r)) (fire_cl r s) -> Entered c s1 c1 ->
    doevent prog r s = Ok (rc, s') ->
    exists c', G5 fl s' c' /\ d_incb c' = false /\ run_same c c' /\ d_status c' = rc /\
               d_stop c' = negb (rc =? 0)%Z || s_intr s'.
  Proof.
    intros -> [HG1 [Hincb1 [Hm1 Hd1]]] H. unfold doevent in H.
    match type of H with (let* s2 := exec_ops ?l ?st in _) = _ =>
      destruct (exec_ops l st) as [s2| | |] eqn:E end; cbn [bind] in H; try discriminate.
    inversion H; subst rc s'. clear H.
    destruct (g5_exec_ops fl _ _ _ c1 HG1 (get_script_norm prog (r_cb r) _ Hprog) E) as [c2 [HG2 Hctl]].
    destruct Hctl as [C1 [C2 [C3 [C4 [C5 _]]]]].
    pose proof HG2 as [HGood2 [Hc2 [HO2 Hi2]]].
    eexists. split; [|split; [|split; [|split]]].
    - eapply (G5_step s2 _ (ECbEnd _) c2); [exact HG2 | apply Good_neutral; [exact HGood2 | exact I] | reflexivity | | |].
      + unfold cstep5. rewrite C2, Hincb1. reflexivity.
      + simpl. exact HO2.
      + simpl. exact Hi2.
    - reflexivity.
    - split; simpl; congruence.
    - reflexivity.
    - simpl. rewrite Hi2. reflexivity.
  Qed.

  (* ---- polling *)
  Definition polled (c c' : c5) : Prop :=
    d_incb c' = false /\ run_same c c' /\ d_stop c' = d_stop c /\ d_status c' = d_status c /\
    d_imms c' = d_imms c.

  Lemma polled_trans a b c : polled a b -> polled b c -> polled a c.
  Proof.
    unfold polled, run_same. intros [A1 [[A2 A3] [A4 [A5 A6]]]] [B1 [[B2 B3] [B4 [B5 B6]]]].
    repeat split; congruence.
  Qed.

  Definition can_poll (c : c5) : Prop :=
    d_incb c = false /\ (d_mode c = MSpin \/ (d_mode c = MRun /\ d_drain c = false)).

  Lemma cstep5_poll c timeout fs ans :
    can_poll c ->
    exists c', cstep5 fl c (EPoll timeout fs ans) = Some c' /\ polled c c' /\
               d_intr c' = match ans with PEintr true => true | _ => d_intr c end.
  Proof.
    intros [Hincb Hmode]. unfold cstep5. rewrite Hincb.
    destruct Hmode as [Hm | [Hm Hd]]; rewrite Hm.
    - eexists. split; [reflexivity|]. unfold polled, run_same. simpl. repeat split; auto.
    - rewrite Hd, Hno_timeout. cbn [negb orb]. eexists. split; [reflexivity|].
      unfold polled, run_same. simpl. repeat split; auto.
  Qed.

  Lemma can_poll_polled c c' : can_poll c -> polled c c' -> can_poll c'.
  Proof.
    unfold can_poll, polled, run_same. intros [A B] [C [[D E] _]]. split; [exact C|]. rewrite D, E. exact B.
  Qed.

  Lemma g5_poll_one s c timeout fs ans X :
    G5 fl s c -> can_poll c -> Good (emit (EPoll timeout fs ans) X) ->
    s_tr X = s_tr s -> s_imm X = s_imm s -> s_cl X = s_cl s ->
    s_intr X = (match ans with PEintr true => true | _ => s_intr s end) ->
    exists c', G5 fl (emit (EPoll timeout fs ans) X) c' /\ polled c c'.
  Proof.
    intros HG Hcp HGood' Etr Eimm Ecl Eintr.
    destruct (cstep5_poll c timeout fs ans Hcp) as [c' [Hstep [Hp Hi']]].
    exists c'. split; [|exact Hp].
    eapply (G5_step s _ _ c c' HG HGood'); [simpl; rewrite Etr; reflexivity | exact Hstep | |].
    - simpl. rewrite Eimm, Ecl. destruct Hp as [_ [_ [_ [_ Hi]]]]. rewrite Hi. apply HG.
    - simpl. rewrite Hi', Eintr. destruct HG as [_ [_ [_ Hi]]]. rewrite Hi. reflexivity.
  Qed.

  Lemma g5_poll_loop timeout pl : forall s c,
    G5 fl s c -> can_poll c -> exists c', G5 fl (poll_loop timeout pl s) c' /\ polled c c'.
  Proof.
    induction pl as [|a rest IH]; intros s c HG Hcp; cbn [poll_loop].
    - apply (g5_poll_one s c); auto.
      eapply Good_congr; [apply (good_poll_eintr s timeout true []); apply HG | | | | | | | |]; reflexivity.
    - destruct a as [raw | [|]].
      + apply (g5_poll_one s c); auto. apply good_poll_ready. apply HG.
      + apply (g5_poll_one s c); auto.
        eapply Good_congr; [apply (good_poll_eintr s timeout true rest); apply HG | | | | | | | |]; reflexivity.
      + destruct (g5_poll_one s c timeout (fdset_of (fds (s_net s))) (PEintr false)
                   (set_polls (net_set_fds s (map (pf_set_rev rb_none) (fds (s_net s)))) rest) HG Hcp)
          as [c1 [HG1 Hp1]]; try reflexivity.
        { apply good_poll_eintr. apply HG. }
        destruct (s_intr s); [exists c1; auto|].
        destruct (IH _ c1 HG1 (can_poll_polled _ _ Hcp Hp1)) as [c2 [HG2 Hp2]].
        exists c2. split; [exact HG2 | eapply polled_trans; eauto].
  Qed.

  Lemma g5_net_select tvo s c :
    G5 fl s c -> can_poll c -> exists c', G5 fl (net_select tvo s) c' /\ polled c c'.
  Proof.
    intros HG Hcp. unfold net_select.
    pose proof HG as [HGood [Hc [HO Hi]]].
    set (s0 := set_net s (net_init (s_net s))).
    assert (HG0 : G5 fl s0 c).
    { split; [|split; [exact Hc | split; [exact HO | exact Hi]]].
      destruct HGood as [x4 [H4 HS]]. pose proof (sm_net s x4 HS) as HI.
      apply good_set_net_views; [exists x4; auto | apply net_init_inv; exact HI | |].
      - intros f d. apply net_init_field. exact HI.
      - intros f. unfold rev_at. rewrite net_init_slot by exact HI. reflexivity. }
    destruct (g5_poll_loop (sel_timeout tvo) (polls (s_env s0)) s0 c HG0 Hcp) as [c1 [HG1 Hp1]].
    exists c1. split; [|exact Hp1].
    destruct HG1 as [HGood1 [Hc1 [HO1 Hi1]]].
    split; [|split; [exact Hc1 | split; [exact HO1 | exact Hi1]]].
    destruct HGood1 as [x4 [H4 HS]]. apply good_set_net_views; [exists x4; auto | | |].
    - pose proof (sm_net _ x4 HS) as HI. destruct HI. constructor; simpl; auto.
    - intros f d. reflexivity.
    - intros f. reflexivity.
  Qed.

  (* ---- the loops *)
  (* at a point where the dispatcher decides what to do next *)
  Definition LoopHead (s : st) (c : c5) : Prop :=
    G5 fl s c /\ d_incb c = false /\ d_mode c <> MOut /\ (d_stop c = true -> s_intr s = true) /\
    d_status c = 0%Z.

  (* what a loop hands back *)
  Definition Returned (c : c5) (rc : Z) (s' : st) : Prop :=
    exists c', G5 fl s' c' /\ d_incb c' = false /\ d_mode c' = d_mode c /\ d_status c' = rc /\
               (d_stop c' = true -> (rc =? 0)%Z = false \/ s_intr s' = true).

  Lemma after_callback c c' rc s' :
    G5 fl s' c' -> d_incb c' = false -> run_same c c' -> d_status c' = rc ->
    d_stop c' = negb (rc =? 0)%Z || s_intr s' -> d_mode c <> MOut ->
    (rc =? 0)%Z = true -> LoopHead s' c'.
  Proof.
    intros HG Hincb [Hm Hd] Hst Hstop Hmode Hrc. unfold LoopHead.
    split; [exact HG|]. split; [exact Hincb|]. split; [congruence|]. split.
    - rewrite Hstop, Hrc. simpl. auto.
    - apply Z.eqb_eq in Hrc. congruence.
  Qed.

  Lemma good5_drain fuel : forall r s c c1 rc s',
    d_mode c <> MOut -> Entered c (emit (EInvoke (r_rid r)) (fire_cl r s)) c1 ->
    drain_loop prog fuel r s = Ok (rc, s') -> Returned c rc s'.
  Proof.
    induction fuel as [|fuel IH]; intros r s c c1 rc s' Hmode HE H; cbn [drain_loop] in H; [discriminate|].
    destruct (doevent prog r s) as [[rc1 s1]| | |] eqn:Ed; cbn [bind] in H; try discriminate.
    destruct (run_callback c r s _ c1 rc1 s1 eq_refl HE Ed) as [c2 [HG2 [Hincb2 [Hrs2 [Hst2 Hstop2]]]]].
    destruct (negb (rc1 =? 0)%Z) eqn:Erc.
    { inversion H; subst. exists c2. destruct Hrs2. auto. }
    destruct (s_intr s1) eqn:Eintr.
    { inversion H; subst. exists c2. destruct Hrs2. auto. }
    apply negb_false_iff in Erc.
    destruct (imm_get_s s1) as [[ro s2]| | |] eqn:Ei; cbn [bind] in H; try discriminate.
    assert (Hstopf : d_stop c2 = false) by (rewrite Hstop2; try rewrite Erc; try rewrite Eintr; reflexivity).
    assert (Hmode2 : d_mode c2 <> MOut) by (destruct Hrs2 as [X _]; congruence).
    destruct ro as [r'|].
    - destruct (enter_imm s1 c2 r' s2 HG2 Hincb2 Hstopf Hmode2 Ei) as [c3 HE3].
      destruct (IH r' s2 c2 c3 rc s' Hmode2 HE3 H) as [c' [A [B [C D]]]].
      exists c'. destruct Hrs2 as [X _]. split; [exact A|]. split; [exact B|]. split; [congruence | exact D].
    - inversion H; subst rc s'.
      pose proof HG2 as [HGood2 [Hc2 [HO2 Hi2]]].
      exists c2. split; [|destruct Hrs2; auto].
      unfold imm_get_s in Ei. destruct (imm_get (s_imm s1)) as [[ro im]| | |] eqn:E; cbn [bind] in Ei; try discriminate.
      inversion Ei; subst ro s2. destruct (ImmOrd_get_none _ _ _ _ HO2 E) as [_ HO'].
      split; [eapply good_imm_get_none; [exact HGood2 | unfold imm_get_s; rewrite E; reflexivity]|].
      split; [exact Hc2 | split; [exact HO' | exact Hi2]].
  Qed.

  (* imm_get found nothing: no immediate is pending *)
  Lemma imm_none s c s1 :
    G5 fl s c -> imm_get_s s = Ok (None, s1) -> G5 fl s1 c /\ d_imms c = [] /\ s_intr s1 = s_intr s.
  Proof.
    intros HG Ei. pose proof HG as [HGood [Hc [HO Hi]]].
    unfold imm_get_s in Ei. destruct (imm_get (s_imm s)) as [[ro im]| | |] eqn:E; cbn [bind] in Ei; try discriminate.
    inversion Ei; subst ro s1. destruct (ImmOrd_get_none _ _ _ _ HO E) as [Hnil HO'].
    split; [|split; [exact Hnil | reflexivity]].
    split; [eapply good_imm_get_none; [exact HGood | unfold imm_get_s; rewrite E; reflexivity]|].
    split; [exact Hc | split; [exact HO' | exact Hi]].
  Qed.

  Lemma net_none s c s1 :
    G5 fl s c -> net_get_s s = Ok (None, s1) -> G5 fl s1 c /\ s_intr s1 = s_intr s.
  Proof.
    intros HG E. pose proof HG as [HGood [Hc [HO Hi]]].
    pose proof (good_net_get_none s s1 HGood E) as HGood1.
    unfold net_get_s in E. destruct (net_get (s_net s)) as [[ro n]| | |]; cbn [bind] in E; try discriminate.
    inversion E; subst ro s1. split; [|reflexivity].
    split; [exact HGood1 | split; [exact Hc | split; [exact HO | exact Hi]]].
  Qed.

  Lemma timer_none s c s1 :
    G5 fl s c -> timer_get s = Ok (None, s1) -> exists c1, G5 fl s1 c1 /\ ctl_same c c1.
  Proof.
    intros HG H. unfold timer_get in H.
    destruct (tq_inited (s_tmr s)); [|inversion H; subst; exists c; split; [exact HG | apply ctl_same_refl]].
    destruct (read_clock s) as [now s0] eqn:Ec.
    destruct (g5_read_clock fl s c now s0 HG Ec) as [c0 [HG0 [Hctl0 _]]].
    assert (s1 = s0).
    { destruct (heap (s_tmr s0)) as [|m rest]; [inversion H; reflexivity|].
      destruct (tv_cmp (t_deadline m) now); try (inversion H; reflexivity);
        destruct (heap_delete 0 (m :: rest)) as [h| | |]; cbn [bind] in H; discriminate. }
    subst s1. exists c0. auto.
  Qed.

  Lemma good5_main fuel : forall s c rc s',
    LoopHead s c -> can_poll c -> main_loop prog fuel s = Ok (rc, s') -> Returned c rc s'.
  Proof.
    induction fuel as [|fuel IH]; intros s c rc s' HL Hcp H; cbn [main_loop] in H; [discriminate|].
    destruct HL as [HG [Hincb [Hmode [Hstop Hstat]]]].
    destruct (s_intr s) eqn:Eintr.
    { inversion H; subst. exists c. auto. }
    assert (Hstopf : d_stop c = false).
    { destruct (d_stop c) eqn:X; [|reflexivity]. specialize (Hstop eq_refl). congruence. }
    (* generic continuation after a callback *)
    assert (Hcont : forall r sx c1 rcx sy,
              Entered c (emit (EInvoke (r_rid r)) (fire_cl r sx)) c1 -> doevent prog r sx = Ok (rcx, sy) ->
              (if negb (rcx =? 0)%Z then Ok (rcx, sy) else main_loop prog fuel sy) = Ok (rc, s') ->
              Returned c rc s').
    { intros r sx c1 rcx sy HE Ed Hk.
      destruct (run_callback c r sx _ c1 rcx sy eq_refl HE Ed) as [c2 [HG2 [Hincb2 [Hrs2 [Hst2 Hstop2]]]]].
      destruct (negb (rcx =? 0)%Z) eqn:Erc.
      - inversion Hk; subst. exists c2. destruct Hrs2. auto.
      - apply negb_false_iff in Erc.
        assert (Hstop2' : d_stop c2 = negb (rcx =? 0)%Z || s_intr sy) by (rewrite Erc; exact Hstop2).
        pose proof (after_callback c c2 rcx sy HG2 Hincb2 Hrs2 Hst2 Hstop2' Hmode Erc) as HL2.
        assert (Hcp2 : can_poll c2).
        { destruct Hrs2 as [X Y]. destruct Hcp as [_ Z]. split; [exact Hincb2|]. rewrite X, Y. exact Z. }
        destruct (IH sy c2 rc s' HL2 Hcp2 Hk) as [c' [A [B [C D]]]].
        exists c'. destruct Hrs2 as [X _]. split; [exact A|]. split; [exact B|]. split; [congruence | exact D]. }
    destruct (imm_get_s s) as [[ro s1]| | |] eqn:E1; cbn [bind] in H; try discriminate.
    destruct ro as [r|].
    { destruct (doevent prog r s1) as [[rc1 s2]| | |] eqn:Ed; cbn [bind] in H; try discriminate.
      destruct (enter_imm s c r s1 HG Hincb Hstopf Hmode E1) as [c1 HE]. eapply Hcont; eauto. }
    destruct (imm_none s c s1 HG E1) as [HG1 [Hnil Ei1]].
    destruct (net_get_s s1) as [[ro s2]| | |] eqn:E2; cbn [bind] in H; try discriminate.
    destruct ro as [r|].
    { destruct (doevent prog r s2) as [[rc1 s3]| | |] eqn:Ed; cbn [bind] in H; try discriminate.
      destruct (enter_net s1 c r s2 HG1 Hincb Hstopf Hmode Hnil E2) as [c1 HE]. eapply Hcont; eauto. }
    destruct (net_none s1 c s2 HG1 E2) as [HG2 Ei2].
    destruct (g5_net_select (Some (0, 0)%N) s2 c HG2 Hcp) as [c3 [HG3 Hp3]].
    set (s3 := net_select (Some (0, 0)%N) s2) in *.
    destruct Hp3 as [Hincb3 [[Hm3 Hd3] [Hstop3 [Hstat3 Himms3]]]].
    assert (Hmode3 : d_mode c3 <> MOut) by congruence.
    assert (Hstopf3 : d_stop c3 = false) by congruence.
    assert (Hnil3 : d_imms c3 = []) by congruence.
    (* what follows is relative to c3; translate back to c *)
    assert (Hback : forall rcx sx, Returned c3 rcx sx -> Returned c rcx sx).
    { intros rcx sx [c' [A [B [C D]]]]. exists c'. split; [exact A|]. split; [exact B|]. split; [congruence | exact D]. }
    assert (Hcont3 : forall r sx c1 rcx sy,
              Entered c3 (emit (EInvoke (r_rid r)) (fire_cl r sx)) c1 -> doevent prog r sx = Ok (rcx, sy) ->
              (if negb (rcx =? 0)%Z then Ok (rcx, sy) else main_loop prog fuel sy) = Ok (rc, s') ->
              Returned c rc s').
    { intros r sx c1 rcx sy [HGe [Hie [Hme Hde]]] Ed Hk. eapply Hcont; eauto.
      split; [exact HGe|]. split; [exact Hie|]. split; congruence. }
    destruct (net_get_s s3) as [[ro s4]| | |] eqn:E4; cbn [bind] in H; try discriminate.
    destruct ro as [r|].
    { destruct (doevent prog r s4) as [[rc1 s5]| | |] eqn:Ed; cbn [bind] in H; try discriminate.
      destruct (enter_net s3 c3 r s4 HG3 Hincb3 Hstopf3 Hmode3 Hnil3 E4) as [c1 HE]. eapply Hcont3; eauto. }
    destruct (net_none s3 c3 s4 HG3 E4) as [HG4 Ei4].
    destruct (timer_get s4) as [[ro s5]| | |] eqn:E5; cbn [bind] in H; try discriminate.
    destruct ro as [r|].
    { destruct (doevent prog r s5) as [[rc1 s6]| | |] eqn:Ed; cbn [bind] in H; try discriminate.
      destruct (enter_timer s4 c3 r s5 HG4 Hincb3 Hstopf3 Hmode3 Hnil3 E5) as [c1 HE]. eapply Hcont3; eauto. }
    inversion H; subst rc s'.
    destruct (timer_none s4 c3 s5 HG4 E5) as [c5' [HG5 Hctl5]].
    destruct Hctl5 as [C1 [C2 [C3 [C4 _]]]].
    exists c5'. split; [exact HG5|]. split; [congruence|]. split; congruence.
  Qed.
