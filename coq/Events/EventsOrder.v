(* C05 (dispatch order, status propagation), first part.  Built on top of the C04 simulation
   (EventsInv.v): the C04 checker state c4 already knows every live registration with its kind;
   the lists the C05 checker keeps are projections of it (R45), so the classification of an
   invoked id comes for free.  This file has the projection relation and the order facts about
   the immediate queues (ImmOrd: I1 "queues below minq are empty", FIFO queues = registration
   order, events_immediate_get returns what imm_best of the specification selects).
   EventsRun5.v adds the timer heap / clock / descriptor-table invariants and the control state
   of the dispatcher and proves that check_c05 accepts every trace of the model. *)
From Coq Require Import NArith ZArith List Bool Arith Lia Permutation.
From LCP Require Import Base.CheckedMem Events.EventsTrace Events.EventsSpec Events.EventsModel Events.EventsLemmas Events.EventsNetInv Events.EventsHeap Events.EventsSpecProofs Events.EventsInv.
Import ListNotations.
Local Open Scope res_scope.
Unset Lia Cache.

(* ---------------------------------------------------------------- c5's lists as projections
   of c4's live list (oldest first) *)
Definition imm_of (g : reg) : list (nat * nat) :=
  match g_kind g with KImm p => [(g_rid g, p)] | _ => [] end.
Definition net_of (g : reg) : list nat :=
  match g_kind g with KNet _ _ => [g_rid g] | _ => [] end.
Definition tmr_of (g : reg) : list (nat * (tv * N)) :=
  match g_kind g with KTimer t => [(g_rid g, (t, g_due g))] | _ => [] end.

Record R45 (c4 : c4) (c : c5) : Prop := {
  r_imms : d_imms c = flat_map imm_of (rev (c_live c4));
  r_nets : d_nets c = flat_map net_of (rev (c_live c4));
  r_tmrs : d_tmrs c = flat_map tmr_of (rev (c_live c4));
  r_clock : d_clock c = c_clock c4
}.

Lemma filter_all_true {A} (q : A -> bool) l : (forall b, In b l -> q b = true) -> filter q l = l.
Proof.
  induction l as [|b t IH]; simpl; intros H; [reflexivity|].
  rewrite (H b) by (left; reflexivity). f_equal. apply IH. intros x Hx. apply H. right. exact Hx.
Qed.

Lemma filter_all_false {A} (q : A -> bool) l : (forall b, In b l -> q b = false) -> filter q l = [].
Proof.
  induction l as [|b t IH]; simpl; intros H; [reflexivity|].
  rewrite (H b) by (left; reflexivity). apply IH. intros x Hx. apply H. right. exact Hx.
Qed.

Lemma flat_map_filter {A B} (f : A -> list B) (p : A -> bool) (q : B -> bool) l :
  (forall a b, In b (f a) -> q b = p a) ->
  flat_map f (filter p l) = filter q (flat_map f l).
Proof.
  intros H. induction l as [|a l IH]; simpl; [reflexivity|].
  rewrite filter_app. destruct (p a) eqn:E; simpl; rewrite IH.
  - rewrite (filter_all_true q (f a)); [reflexivity|]. intros b Hb. rewrite (H a b Hb). exact E.
  - rewrite (filter_all_false q (f a)); [reflexivity|]. intros b Hb. rewrite (H a b Hb). exact E.
Qed.

Lemma filter_rev' {A} (p : A -> bool) l : filter p (rev l) = rev (filter p l).
Proof.
  induction l as [|a l IH]; simpl; [reflexivity|].
  rewrite filter_app, IH. simpl. destruct (p a); simpl; [reflexivity | rewrite app_nil_r; reflexivity].
Qed.

Lemma flat_map_map_same {A B} (f : A -> list B) (g : A -> A) l :
  (forall a, f (g a) = f a) -> flat_map f (map g l) = flat_map f l.
Proof. intros H. induction l as [|a l IH]; simpl; [reflexivity|]. rewrite H, IH. reflexivity. Qed.

Lemma flat_map_map_comm {A B} (f : A -> list B) (g : A -> A) (h : B -> B) l :
  (forall a, f (g a) = map h (f a)) -> flat_map f (map g l) = map h (flat_map f l).
Proof.
  intros H. induction l as [|a l IH]; simpl; [reflexivity|]. rewrite H, IH, map_app. reflexivity.
Qed.

(* ids in the projections *)
Lemma in_imm_of x L : In x (flat_map imm_of L) <-> exists g, In g L /\ g_rid g = fst x /\ g_kind g = KImm (snd x).
Proof.
  rewrite in_flat_map. split.
  - intros [g [Hg Hx]]. exists g. split; [exact Hg|]. unfold imm_of in Hx.
    destruct (g_kind g); try (destruct Hx; fail). destruct Hx as [<- | []]. auto.
  - intros [g [Hg [A B]]]. exists g. split; [exact Hg|]. unfold imm_of. rewrite B. left.
    destruct x; simpl in *; congruence.
Qed.

Lemma in_net_of r L : In r (flat_map net_of L) <-> exists g fd dir, In g L /\ g_rid g = r /\ g_kind g = KNet fd dir.
Proof.
  rewrite in_flat_map. split.
  - intros [g [Hg Hx]]. unfold net_of in Hx. destruct (g_kind g) eqn:E; try (destruct Hx; fail).
    destruct Hx as [<- | []]. exists g, fd, dir. auto.
  - intros [g [fd [dir [Hg [A B]]]]]. exists g. split; [exact Hg|]. unfold net_of. rewrite B. left. exact A.
Qed.

Lemma in_tmr_of x L : In x (flat_map tmr_of L) <->
  exists g, In g L /\ g_rid g = fst x /\ g_kind g = KTimer (fst (snd x)) /\ g_due g = snd (snd x).
Proof.
  rewrite in_flat_map. split.
  - intros [g [Hg Hx]]. exists g. split; [exact Hg|]. unfold tmr_of in Hx.
    destruct (g_kind g); try (destruct Hx; fail). destruct Hx as [<- | []]. auto.
  - intros [g [Hg [A [B C]]]]. exists g. split; [exact Hg|]. unfold tmr_of. rewrite B. left.
    destruct x as [r [t d]]; simpl in *; congruence.
Qed.

Lemma imm_of_fst g b : In b (imm_of g) -> fst b = g_rid g.
Proof. unfold imm_of. destruct (g_kind g); simpl; try tauto. intros [<- | []]. reflexivity. Qed.
Lemma tmr_of_fst g b : In b (tmr_of g) -> fst b = g_rid g.
Proof. unfold tmr_of. destruct (g_kind g); simpl; try tauto. intros [<- | []]. reflexivity. Qed.
Lemma net_of_id g b : In b (net_of g) -> b = g_rid g.
Proof. unfold net_of. destruct (g_kind g); simpl; try tauto. intros [<- | []]. reflexivity. Qed.

Lemma proj_remove r L :
  flat_map imm_of (rev (remove_reg r L)) = drop_imm r (flat_map imm_of (rev L)) /\
  flat_map net_of (rev (remove_reg r L)) = drop_net r (flat_map net_of (rev L)) /\
  flat_map tmr_of (rev (remove_reg r L)) = drop_tmr r (flat_map tmr_of (rev L)).
Proof.
  unfold remove_reg, drop_imm, drop_net, drop_tmr. rewrite <- filter_rev'.
  split; [|split]; apply flat_map_filter; intros g b Hb.
  - rewrite (imm_of_fst g b Hb). reflexivity.
  - rewrite (net_of_id g b Hb). reflexivity.
  - rewrite (tmr_of_fst g b Hb). reflexivity.
Qed.

Lemma drop_imm_notin r l : (forall x, In x l -> fst x <> r) -> drop_imm r l = l.
Proof.
  intros H. apply filter_all_true. intros b Hb. apply negb_true_iff, Nat.eqb_neq. apply H. exact Hb.
Qed.
Lemma drop_net_notin r l : ~ In r l -> drop_net r l = l.
Proof.
  intros H. apply filter_all_true. intros b Hb. apply negb_true_iff, Nat.eqb_neq. intros ->. exact (H Hb).
Qed.
Lemma drop_tmr_notin r l : (forall x, In x l -> fst x <> r) -> drop_tmr r l = l.
Proof.
  intros H. apply filter_all_true. intros b Hb. apply negb_true_iff, Nat.eqb_neq. apply H. exact Hb.
Qed.

Lemma find_imm_none r l : find_imm r l = None -> forall x, In x l -> fst x <> r.
Proof.
  unfold find_imm. intros H x Hx E. pose proof (find_none _ _ H x Hx) as X. simpl in X.
  apply Nat.eqb_neq in X. auto.
Qed.
Lemma find_imm_some r l x : find_imm r l = Some x -> In x l /\ fst x = r.
Proof. unfold find_imm. intros H. apply find_some in H. destruct H as [A B]. apply Nat.eqb_eq in B. auto. Qed.
Lemma find_tmr_some r l x : find_tmr r l = Some x -> In x l /\ fst x = r.
Proof. unfold find_tmr. intros H. apply find_some in H. destruct H as [A B]. apply Nat.eqb_eq in B. auto. Qed.

(* an id belongs to one projection only *)
Section Disjoint.
  Variable L : list reg.
  Hypothesis Hnd : NoDup (map g_rid L).

  Lemma nodup_rev_in g1 g2 : In g1 (rev L) -> In g2 (rev L) -> g_rid g1 = g_rid g2 -> g1 = g2.
  Proof. intros A B. apply (nodup_rid_eq L); [exact Hnd | apply in_rev; exact A | apply in_rev; exact B]. Qed.

  Lemma imm_not_net x : In x (flat_map imm_of (rev L)) -> ~ In (fst x) (flat_map net_of (rev L)).
  Proof.
    intros Hx Hn. apply in_imm_of in Hx. destruct Hx as [g [Hg [A B]]].
    apply in_net_of in Hn. destruct Hn as [g' [fd [dir [Hg' [A' B']]]]].
    assert (g = g') by (apply nodup_rev_in; auto; congruence). subst. congruence.
  Qed.
  Lemma imm_not_tmr x y : In x (flat_map imm_of (rev L)) -> In y (flat_map tmr_of (rev L)) -> fst y <> fst x.
  Proof.
    intros Hx Hy E. apply in_imm_of in Hx. destruct Hx as [g [Hg [A B]]].
    apply in_tmr_of in Hy. destruct Hy as [g' [Hg' [A' [B' _]]]].
    assert (g = g') by (apply nodup_rev_in; auto; congruence). subst. congruence.
  Qed.
  Lemma net_not_tmr r y : In r (flat_map net_of (rev L)) -> In y (flat_map tmr_of (rev L)) -> fst y <> r.
  Proof.
    intros Hn Hy E. apply in_net_of in Hn. destruct Hn as [g [fd [dir [Hg [A B]]]]].
    apply in_tmr_of in Hy. destruct Hy as [g' [Hg' [A' [B' _]]]].
    assert (g = g') by (apply nodup_rev_in; auto; congruence). subst. congruence.
  Qed.
End Disjoint.

Lemma tmr_of_set_due r b g : tmr_of (set_due r b g) = map (set_tmr_due r b) (tmr_of g).
Proof.
  unfold set_due, tmr_of, set_tmr_due. destruct (Nat.eqb (g_rid g) r) eqn:E.
  - destruct (g_kind g) eqn:K; simpl; rewrite ?K; try reflexivity. rewrite E. reflexivity.
  - destruct (g_kind g) eqn:K; simpl; try reflexivity. rewrite E. reflexivity.
Qed.
Lemma imm_of_set_due r b g : imm_of (set_due r b g) = imm_of g.
Proof. unfold imm_of. destruct (set_due_ids r b g) as [A B]. rewrite A, B. reflexivity. Qed.
Lemma net_of_set_due r b g : net_of (set_due r b g) = net_of g.
Proof. unfold net_of. destruct (set_due_ids r b g) as [A B]. rewrite A, B. reflexivity. Qed.
Lemma imm_of_mark l g : imm_of (mark_ready l g) = imm_of g.
Proof. unfold imm_of. destruct (mark_ready_ids l g) as [A B]. rewrite A, B. reflexivity. Qed.
Lemma net_of_mark l g : net_of (mark_ready l g) = net_of g.
Proof. unfold net_of. destruct (mark_ready_ids l g) as [A B]. rewrite A, B. reflexivity. Qed.
Lemma tmr_of_mark l g : tmr_of (mark_ready l g) = tmr_of g.
Proof. unfold tmr_of. destruct (mark_ready_ids l g) as [A B]. rewrite A, B, mark_ready_due. reflexivity. Qed.

Lemma R45_init : R45 c4_init c5_init.
Proof. constructor; reflexivity. Qed.

(* both checkers step: the projection relation is kept *)
Lemma R45_step fl x4 c e x4' c' :
  R45 x4 c -> NoDup (map g_rid (c_live x4)) ->
  cstep4 x4 e = Some x4' -> cstep5 fl c e = Some c' -> R45 x4' c'.
Proof.
  intros [Ri Rn Rt Rc] Hnd H4 H5.
  destruct e; simpl in H4, H5.
  - (* ERegister *)
    destruct (EventsSpec.mem_nat r (c_used x4)); [discriminate|].
    match type of H4 with (if ?b then _ else _) = _ => destruct b; [|discriminate] end.
    inversion H4; subst x4'. clear H4.
    destruct k.
    + inversion H5; subst c'. constructor; simpl; rewrite ?flat_map_app; simpl; rewrite ?app_nil_r; congruence.
    + inversion H5; subst c'. constructor; simpl; rewrite ?flat_map_app; simpl; rewrite ?app_nil_r; congruence.
    + rewrite Rc in H5. destruct (c_clock x4) as [now|]; [|discriminate].
      inversion H5; subst c'. constructor; simpl; rewrite ?flat_map_app; simpl; rewrite ?app_nil_r; congruence.
  - inversion H4; inversion H5; subst. constructor; simpl; auto.
  - assert (x4' = x4).
    { destruct e; try (inversion H4; reflexivity).
      destruct (net_slot_live fd op (c_live x4)) as [[|]|]; inversion H4; reflexivity. }
    subst. inversion H5; subst. constructor; simpl; auto.
  - inversion H4; inversion H5; subst. constructor; simpl; auto.
  - (* ECancel *)
    destruct (find_reg r (c_live x4)); [|discriminate]. inversion H4; subst x4'. inversion H5; subst c'.
    destruct (proj_remove r (c_live x4)) as [A [B C]].
    constructor; simpl; congruence.
  - assert (x4' = x4).
    { destruct (net_slot_live fd op (c_live x4)) as [[|]|]; inversion H4; reflexivity. }
    subst. inversion H5; subst. constructor; simpl; auto.
  - discriminate.
  - (* EReset *)
    destruct (find_reg r (c_live x4)) as [g|]; [|discriminate].
    destruct (c_clock x4) as [now|] eqn:Ec; [|discriminate].
    destruct (is_timer (g_kind g)); [|discriminate]. inversion H4; subst x4'.
    rewrite Rc in H5. inversion H5; subst c'.
    constructor; simpl; rewrite <- ?map_rev.
    + rewrite (flat_map_map_same imm_of); [exact Ri | apply imm_of_set_due].
    + rewrite (flat_map_map_same net_of); [exact Rn | apply net_of_set_due].
    + rewrite (flat_map_map_comm tmr_of _ (set_tmr_due r (us now))); [congruence | apply tmr_of_set_due].
    + exact Rc.
  - (* EClock *) inversion H4; inversion H5; subst. constructor; simpl; auto.
  - (* EPoll *)
    assert (Hsame : flat_map imm_of (rev (c_live x4')) = flat_map imm_of (rev (c_live x4)) /\
                    flat_map net_of (rev (c_live x4')) = flat_map net_of (rev (c_live x4)) /\
                    flat_map tmr_of (rev (c_live x4')) = flat_map tmr_of (rev (c_live x4)) /\
                    c_clock x4' = c_clock x4).
    { destruct ans; inversion H4; subst x4'; simpl; auto.
      rewrite <- !map_rev.
      rewrite (flat_map_map_same imm_of), (flat_map_map_same net_of), (flat_map_map_same tmr_of);
        auto using imm_of_mark, net_of_mark, tmr_of_mark. }
    destruct Hsame as [A [B [C D]]].
    destruct (d_incb c); [discriminate|].
    assert (Hc' : d_imms c' = d_imms c /\ d_nets c' = d_nets c /\ d_tmrs c' = d_tmrs c /\ d_clock c' = d_clock c).
    { destruct (d_mode c); try discriminate.
      - destruct (d_drain c); [discriminate|].
        match type of H5 with (if ?b then _ else _) = _ => destruct b; [|discriminate] end.
        inversion H5; subst c'. simpl. auto.
      - inversion H5; subst c'. simpl. auto. }
    destruct Hc' as [A' [B' [C' D']]]. constructor; congruence.
  - (* EInvoke *)
    destruct (find_reg r (c_live x4)) as [g|] eqn:Ef; [|discriminate].
    match type of H4 with (if ?b then _ else _) = _ => destruct b; [|discriminate] end.
    inversion H4; subst x4'. clear H4.
    destruct (proj_remove r (c_live x4)) as [A [B C]].
    destruct (d_incb c || d_stop c); [discriminate|].
    assert (Hmode : exists fire, (fire = fun (imms : list (nat * nat)) (nets : list nat) (tmrs : list (nat * (tv * N))) =>
        Some {| d_imms := imms; d_nets := nets; d_tmrs := tmrs; d_clock := d_clock c; d_prev := PvNone;
                d_mode := d_mode c; d_phase := d_phase c; d_drain := d_drain c; d_incb := true;
                d_intr := d_intr c; d_intr_run := d_intr_run c; d_stop := false;
                d_status := d_status c; d_ninv := S (d_ninv c); d_ready_seen := d_ready_seen c |}) /\
      (match find_imm r (d_imms c) with
       | Some _ => match imm_best (d_imms c) with
                   | Some (r', _) => if Nat.eqb r' r then fire (drop_imm r (d_imms c)) (d_nets c) (d_tmrs c) else None
                   | None => None
                   end
       | None =>
         if EventsSpec.mem_nat r (d_nets c) then
           if EventsSpec.is_nil (d_imms c) then fire (d_imms c) (drop_net r (d_nets c)) (d_tmrs c) else None
         else
           match find_tmr r (d_tmrs c), min_due (d_tmrs c) with
           | Some (_, (_, due)), Some m =>
             if EventsSpec.is_nil (d_imms c) && (negb (f_tmin fl) || (due <=? m)%N) &&
                (negb (f_quiet fl) || match d_prev c with PvPoll0Clock => true | _ => false end)
             then fire (d_imms c) (d_nets c) (drop_tmr r (d_tmrs c)) else None
           | _, _ => None
           end
       end) = Some c').
    { eexists. split; [reflexivity|]. destruct (d_mode c); [discriminate | exact H5 | exact H5]. }
    destruct Hmode as [fire [Hfire H5']]. clear H5.
    destruct (find_imm r (d_imms c)) as [x|] eqn:Efi.
    + (* an immediate *)
      destruct (imm_best (d_imms c)) as [[r' p']|]; [|discriminate].
      destruct (Nat.eqb r' r); [|discriminate]. subst fire. inversion H5'; subst c'.
      apply find_imm_some in Efi. destruct Efi as [Hx Efx]. rewrite Ri in Hx.
      constructor; simpl.
      * congruence.
      * rewrite B, <- Rn. symmetry. apply drop_net_notin. rewrite Rn, <- Efx. apply (imm_not_net _ Hnd). exact Hx.
      * rewrite C, <- Rt. symmetry. apply drop_tmr_notin. intros y Hy. rewrite Rt in Hy. rewrite <- Efx.
        apply (imm_not_tmr _ Hnd x y Hx Hy).
      * exact Rc.
    + pose proof (find_imm_none _ _ Efi) as Hni.
      destruct (EventsSpec.mem_nat r (d_nets c)) eqn:Emn.
      * destruct (EventsSpec.is_nil (d_imms c)); [|discriminate]. subst fire. inversion H5'; subst c'.
        apply mem_nat_true in Emn.
        constructor; simpl.
        -- rewrite A, <- Ri. symmetry. apply drop_imm_notin. exact Hni.
        -- congruence.
        -- rewrite C, <- Rt. symmetry. apply drop_tmr_notin. intros y Hy. rewrite Rt in Hy. rewrite Rn in Emn.
           apply (net_not_tmr _ Hnd r y Emn Hy).
        -- exact Rc.
      * destruct (find_tmr r (d_tmrs c)) as [[r0 [t0 due]]|] eqn:Eft; [|discriminate].
        destruct (min_due (d_tmrs c)); [|discriminate].
        match type of H5' with (if ?b then _ else _) = _ => destruct b; [|discriminate] end.
        subst fire. inversion H5'; subst c'.
        constructor; simpl.
        -- rewrite A, <- Ri. symmetry. apply drop_imm_notin. exact Hni.
        -- rewrite B, <- Rn. symmetry. apply drop_net_notin. intros X. apply mem_nat_true in X. congruence.
        -- congruence.
        -- exact Rc.
  - discriminate.
  - (* ECbEnd *) inversion H4; subst. destruct (d_incb c); [|discriminate]. inversion H5; subst. constructor; simpl; auto.
  - inversion H4; inversion H5; subst. constructor; simpl; auto.
  - inversion H4; inversion H5; subst. constructor; simpl; auto.
  - inversion H4; subst. destruct (d_mode c); try discriminate. inversion H5; subst. constructor; simpl; auto.
  - inversion H4; subst. destruct (d_mode c); try discriminate.
    match type of H5 with (if ?b then _ else _) = _ => destruct b; [|discriminate] end.
    inversion H5; subst. constructor; simpl; auto.
  - inversion H4; subst. destruct (d_mode c); try discriminate. inversion H5; subst. constructor; simpl; auto.
  - inversion H4; subst. destruct (d_mode c); try discriminate.
    match type of H5 with (if ?b then _ else _) = _ => destruct b; [|discriminate] end.
    inversion H5; subst. constructor; simpl; auto.
Qed.

(* R45 holds whenever both checkers have accepted the same trace *)
Lemma R45_steps fl t : forall t0 x4 c x4' c',
  J t0 x4 -> R45 x4 c -> csteps4 x4 t = Some x4' -> csteps5 fl c t = Some c' -> R45 x4' c'.
Proof.
  induction t as [|e t IH]; intros t0 x4 c x4' c' HJ HR H4 H5; simpl in H4, H5.
  - inversion H4; inversion H5; subst. exact HR.
  - destruct (cstep4 x4 e) as [y4|] eqn:E4; [|discriminate].
    destruct (cstep5 fl c e) as [y5|] eqn:E5; [|discriminate].
    eapply (IH (t0 ++ [e])); [eapply J_step; eauto | | exact H4 | exact H5].
    eapply R45_step; eauto. apply (j_nodup_live _ _ HJ).
Qed.

Lemma R45_of_trace fl t x4 c :
  csteps4 c4_init t = Some x4 -> csteps5 fl c5_init t = Some c -> R45 x4 c.
Proof. intros H4 H5. eapply (R45_steps fl t [] c4_init c5_init); eauto using J_init, R45_init. Qed.

(* ================================================================ the immediate queues *)
Lemma NPRIO_is : NPRIO = 32. Proof. reflexivity. Qed.
Lemma PRIO_LIMIT_is : PRIO_LIMIT = NPRIO. Proof. reflexivity. Qed.
Lemma ADV_LIMIT_is : ADV_LIMIT = NPRIO. Proof. reflexivity. Qed.
Lemma EMPTY_MARK_is : EMPTY_MARK = NPRIO. Proof. reflexivity. Qed.
Lemma MINQ_INIT_is : MINQ_INIT = NPRIO. Proof. reflexivity. Qed.
Global Opaque NPRIO PRIO_LIMIT ADV_LIMIT EMPTY_MARK MINQ_INIT.

Definition prio_is (p : nat) (x : nat * nat) : bool := Nat.eqb (snd x) p.

Record ImmOrd (im : imm_st) (l : list (nat * nat)) (bound : nat) : Prop := {
  io_len : length (heads im) = NPRIO;
  io_q : forall p, p < NPRIO -> map r_rid (nth p (heads im) []) = map fst (filter (prio_is p) l);
  io_prio : forall x, In x l -> snd x < NPRIO;
  io_minq : forall i, i < minq im -> nth i (heads im) [] = [];     (* I1 *)
  io_minq_le : minq im <= NPRIO;
  io_nodup : NoDup (map fst l);
  io_lt : forall x, In x l -> fst x < bound
}.

Lemma imm_advance_spec hs : forall fuel m0,
  m0 <= ADV_LIMIT -> ADV_LIMIT - m0 < fuel ->
  let m := imm_advance hs m0 fuel in
  m0 <= m /\ m <= ADV_LIMIT /\ (forall i, m0 <= i -> i < m -> nth i hs [] = []) /\
  (m < ADV_LIMIT -> nth m hs [] <> []).
Proof.
  induction fuel as [|fuel IH]; intros m0 Hle Hfuel; [lia|]. cbn [imm_advance].
  destruct (m0 <? ADV_LIMIT) eqn:E1.
  - apply Nat.ltb_lt in E1. destruct (nth m0 hs []) as [|a q] eqn:E2; cbn [EventsModel.is_nil andb].
    + destruct (IH (S m0)) as [A [B [C D]]]; [lia | lia |]. repeat split; try lia; auto.
      intros i Hi1 Hi2. destruct (Nat.eq_dec i m0) as [->|Hne]; [exact E2 | apply C; lia].
    + repeat split; try lia. intros _. rewrite E2. discriminate.
  - apply Nat.ltb_ge in E1. cbn [andb]. repeat split; try lia.
Qed.

Lemma imm_best_in l x : imm_best l = Some x -> In x l.
Proof.
  revert x. induction l as [|[r p] t IH]; intros x H; simpl in H; [discriminate|].
  destruct (imm_best t) as [[r' p']|].
  - destruct (p' <? p); inversion H; subst; [right; apply IH; reflexivity | left; reflexivity].
  - inversion H. left. reflexivity.
Qed.

Lemma imm_best_spec l r p rest :
  (forall x, In x l -> p <= snd x) -> filter (prio_is p) l = (r, p) :: rest -> imm_best l = Some (r, p).
Proof.
  induction l as [|[r0 p0] t IH]; intros Hmin Hf; simpl in Hf; [discriminate|].
  simpl. unfold prio_is in Hf at 1. simpl in Hf. destruct (Nat.eqb p0 p) eqn:E.
  - apply Nat.eqb_eq in E. subst p0. inversion Hf; subst r0.
    destruct (imm_best t) as [[r' p']|] eqn:Eb; [|reflexivity].
    apply imm_best_in in Eb. assert (p <= p') by (apply (Hmin (r', p')); right; exact Eb).
    assert (X : (p' <? p) = false) by (apply Nat.ltb_ge; exact H). rewrite X. reflexivity.
  - apply Nat.eqb_neq in E. rewrite (IH (fun x Hx => Hmin x (or_intror Hx)) Hf).
    assert (p <= p0) by (apply (Hmin (r0, p0)); left; reflexivity).
    assert (X : (p <? p0) = true) by (apply Nat.ltb_lt; lia). rewrite X. reflexivity.
Qed.

Lemma nth_upd_nth_eq {A} (n : nat) (x d : A) l : n < length l -> nth n (upd_nth n x l) d = x.
Proof. intros H. apply nth_error_nth. apply nth_error_upd_nth_eq. exact H. Qed.
Lemma nth_upd_nth_neq {A} (n m : nat) (x d : A) l : n <> m -> nth m (upd_nth n x l) d = nth m l d.
Proof.
  intros H. destruct (nth_error l m) as [y|] eqn:E.
  - rewrite (nth_error_nth _ _ d E). apply nth_error_nth. rewrite nth_error_upd_nth_neq by exact H. exact E.
  - rewrite !nth_overflow; auto; [apply nth_error_None; exact E|].
    rewrite length_upd_nth. apply nth_error_None. exact E.
Qed.
Lemma nth_of_nth_error {A} (l : list A) n x d : nth_error l n = Some x -> nth n l d = x.
Proof. apply nth_error_nth. Qed.

Lemma ImmOrd_init : ImmOrd {| heads := repeat [] NPRIO; minq := MINQ_INIT |} [] 0.
Proof.
  constructor; simpl.
  - apply repeat_length.
  - intros p Hp. destruct (nth_in_or_default p (repeat (@nil rec) NPRIO) []) as [H | ->]; [|reflexivity].
    apply repeat_spec in H. rewrite H. reflexivity.
  - intros x [].
  - intros i Hi. destruct (nth_in_or_default i (repeat (@nil rec) NPRIO) []) as [H | ->]; [|reflexivity].
    apply repeat_spec in H. exact H.
  - rewrite MINQ_INIT_is. lia.
  - constructor.
  - intros x [].
Qed.

Lemma ImmOrd_bound im l b b' : ImmOrd im l b -> b <= b' -> ImmOrd im l b'.
Proof. intros [A B C D E F G] H. constructor; auto. intros x Hx. specialize (G x Hx). lia. Qed.

Lemma ImmOrd_register cb prio rid im im' l :
  ImmOrd im l rid -> imm_register cb prio rid im = Ok im' -> ImmOrd im' (l ++ [(rid, prio)]) (S rid).
Proof.
  intros [A B C D E F G] H. unfold imm_register in H. rewrite PRIO_LIMIT_is in H.
  destruct (prio <? NPRIO) eqn:Ep; [|discriminate]. apply Nat.ltb_lt in Ep.
  destruct (rdn (heads im) prio) as [q| | |] eqn:Eq; cbn [bind] in H; try discriminate. apply rdn_ok in Eq.
  inversion H; subst im'. clear H.
  assert (Hpl : prio < length (heads im)) by (rewrite A; exact Ep).
  constructor; simpl.
  - rewrite length_upd_nth. exact A.
  - intros p Hp. rewrite filter_app, map_app. simpl. unfold prio_is at 2. simpl.
    destruct (Nat.eq_dec prio p) as [<- | Hne].
    + rewrite nth_upd_nth_eq by exact Hpl. rewrite Nat.eqb_refl. rewrite map_app. simpl.
      rewrite <- (B prio Ep). rewrite (nth_of_nth_error _ _ _ [] Eq). reflexivity.
    + rewrite nth_upd_nth_neq by exact Hne.
      assert (X : Nat.eqb prio p = false) by (apply Nat.eqb_neq; exact Hne). rewrite X. simpl.
      rewrite app_nil_r. apply B. exact Hp.
  - intros x Hx. apply in_app_or in Hx. destruct Hx as [Hx | [<- | []]]; [apply C; exact Hx | exact Ep].
  - intros i Hi. destruct (prio <? minq im) eqn:Em.
    + apply Nat.ltb_lt in Em. rewrite nth_upd_nth_neq by lia. apply D. lia.
    + apply Nat.ltb_ge in Em. rewrite nth_upd_nth_neq by lia. apply D. exact Hi.
  - destruct (prio <? minq im); lia.
  - rewrite map_app. simpl. apply nodup_snoc; [exact F|]. intros X. apply in_map_iff in X.
    destruct X as [x [Ex Hx]]. specialize (G x Hx). lia.
  - intros x Hx. apply in_app_or in Hx. destruct Hx as [Hx | [<- | []]]; [specialize (G x Hx); lia | simpl; lia].
Qed.

Lemma map_filter_comm {A B} (f : A -> B) (P : B -> bool) l :
  map f (filter (fun x => P (f x)) l) = filter P (map f l).
Proof.
  induction l as [|a l IH]; simpl; [reflexivity|]. destruct (P (f a)); simpl; rewrite IH; reflexivity.
Qed.

Lemma filter_comm {A} (p q : A -> bool) l : filter p (filter q l) = filter q (filter p l).
Proof.
  induction l as [|a l IH]; simpl; [reflexivity|].
  destruct (q a) eqn:Eq; destruct (p a) eqn:Ep; simpl; rewrite ?Eq, ?Ep, IH; reflexivity.
Qed.

Lemma filter_implied {A} (p q : A -> bool) l :
  (forall x, In x l -> p x = true -> q x = true) -> filter p (filter q l) = filter p l.
Proof.
  intros H. induction l as [|a l IH]; simpl; [reflexivity|].
  destruct (q a) eqn:Eq; simpl.
  - destruct (p a); rewrite IH; auto; intros x Hx; apply H; right; exact Hx.
  - destruct (p a) eqn:Ep.
    + rewrite (H a (or_introl eq_refl) Ep) in Eq. discriminate.
    + apply IH. intros x Hx. apply H. right. exact Hx.
Qed.

Definition id_neqb (rid : nat) (x : nat) : bool := negb (Nat.eqb x rid).

Lemma nodup_filter_id rid l : NoDup l -> ~ In rid l -> filter (id_neqb rid) l = l.
Proof.
  intros _ H. apply filter_all_true. intros b Hb. unfold id_neqb. apply negb_true_iff, Nat.eqb_neq.
  intros ->. exact (H Hb).
Qed.

Lemma nodup_filter {A} (p : A -> bool) l : NoDup l -> NoDup (filter p l).
Proof. apply NoDup_filter. Qed.

(* removing the (unique) entry with id rid, which sits in queue prio *)
Lemma ImmOrd_remove im im' l b rid prio :
  ImmOrd im l b -> prio < NPRIO ->
  heads im' = upd_nth prio (filter (rid_neqb rid) (nth prio (heads im) [])) (heads im) ->
  minq im' <= NPRIO -> (forall i, i < minq im' -> nth i (heads im') [] = []) ->
  (forall x, In x l -> fst x = rid -> snd x = prio) ->
  ImmOrd im' (drop_imm rid l) b.
Proof.
  intros [A B C D E F G] Hp Hh Hm1 Hm2 Hx.
  assert (Hpl : prio < length (heads im)) by (rewrite A; exact Hp).
  constructor.
  - rewrite Hh, length_upd_nth. exact A.
  - intros p Hpp. rewrite Hh. unfold drop_imm.
    destruct (Nat.eq_dec prio p) as [<- | Hne].
    + rewrite nth_upd_nth_eq by exact Hpl. rewrite filter_comm.
      change (fun x : nat * nat => negb (Nat.eqb (fst x) rid)) with (fun x : nat * nat => id_neqb rid (fst x)).
      rewrite (map_filter_comm fst (id_neqb rid)). rewrite <- (B prio Hp).
      change (rid_neqb rid) with (fun r : rec => id_neqb rid (r_rid r)).
      apply (map_filter_comm r_rid (id_neqb rid)).
    + rewrite nth_upd_nth_neq by exact Hne. rewrite filter_implied; [apply B; exact Hpp|].
      intros x Hxl Hpx. apply negb_true_iff, Nat.eqb_neq. intros Efx. apply Hne.
      rewrite <- (Hx x Hxl Efx). unfold prio_is in Hpx. apply Nat.eqb_eq in Hpx. exact Hpx.
  - intros x Hxl. apply filter_In in Hxl. apply C. tauto.
  - exact Hm2.
  - exact Hm1.
  - unfold drop_imm.
    change (fun x : nat * nat => negb (Nat.eqb (fst x) rid)) with (fun x : nat * nat => id_neqb rid (fst x)).
    rewrite (map_filter_comm fst (id_neqb rid)). apply NoDup_filter. exact F.
  - intros x Hxl. apply filter_In in Hxl. apply G. tauto.
Qed.

Lemma ImmOrd_cancel im im' l b rid prio :
  ImmOrd im l b -> imm_cancel rid prio im = Ok im' ->
  (forall x, In x l -> fst x = rid -> snd x = prio) ->
  ImmOrd im' (drop_imm rid l) b.
Proof.
  intros HO H Hx. unfold imm_cancel in H.
  destruct (rdn (heads im) prio) as [q| | |] eqn:Eq; cbn [bind] in H; try discriminate. apply rdn_ok in Eq.
  inversion H; subst im'. clear H.
  assert (Hp : prio < NPRIO) by (rewrite <- (io_len _ _ _ HO); eapply nth_error_lt; eauto).
  apply (ImmOrd_remove im _ l b rid prio HO Hp); simpl.
  - rewrite (nth_of_nth_error _ _ _ [] Eq). reflexivity.
  - apply (io_minq_le _ _ _ HO).
  - intros i Hi. pose proof (io_minq _ _ _ HO i Hi) as Hempty.
    destruct (Nat.eq_dec prio i) as [<- | Hne].
    + rewrite nth_upd_nth_eq by (rewrite (io_len _ _ _ HO); exact Hp).
      rewrite (nth_of_nth_error _ _ _ [] Eq) in Hempty. subst q. reflexivity.
    + rewrite nth_upd_nth_neq by exact Hne. exact Hempty.
  - exact Hx.
Qed.

Lemma ImmOrd_empty_below im l b p :
  ImmOrd im l b -> p < NPRIO -> nth p (heads im) [] = [] -> forall x, In x l -> snd x <> p.
Proof.
  intros HO Hp He x Hx E.
  pose proof (io_q _ _ _ HO p Hp) as Hq. rewrite He in Hq. simpl in Hq.
  assert (In x (filter (prio_is p) l)).
  { apply filter_In. split; [exact Hx|]. unfold prio_is. apply Nat.eqb_eq. exact E. }
  destruct (filter (prio_is p) l); [destruct H | discriminate].
Qed.

Lemma ImmOrd_get_some im r im' l b :
  ImmOrd im l b -> imm_get im = Ok (Some r, im') ->
  exists m, imm_best l = Some (r_rid r, m) /\ ImmOrd im' (drop_imm (r_rid r) l) b.
Proof.
  intros HO H. unfold imm_get in H.
  destruct (imm_advance_spec (heads im) (S ADV_LIMIT) (minq im)) as [A1 [A2 [A3 A4]]];
    [rewrite ADV_LIMIT_is; apply (io_minq_le _ _ _ HO) | lia |].
  set (m := imm_advance (heads im) (minq im) (S ADV_LIMIT)) in *.
  rewrite EMPTY_MARK_is in H. rewrite ADV_LIMIT_is in A2, A4.
  destruct (m =? NPRIO) eqn:Em; [discriminate|]. apply Nat.eqb_neq in Em.
  assert (Hm : m < NPRIO) by lia.
  destruct (rdn (heads im) m) as [q| | |] eqn:Eq; cbn [bind] in H; try discriminate. apply rdn_ok in Eq.
  destruct q as [|r0 q']; [discriminate|]. inversion H; subst r0 im'. clear H.
  pose proof (nth_of_nth_error _ _ _ [] Eq) as Hnth.
  (* queues below m are empty *)
  assert (Hbelow : forall i, i < m -> nth i (heads im) [] = []).
  { intros i Hi. destruct (lt_dec i (minq im)); [apply (io_minq _ _ _ HO); assumption | apply A3; lia]. }
  (* the head of the list for priority m *)
  pose proof (io_q _ _ _ HO m Hm) as Hq. rewrite Hnth in Hq. simpl in Hq.
  destruct (filter (prio_is m) l) as [|[x0 p0] rest] eqn:Ef; [discriminate|]. simpl in Hq.
  inversion Hq as [[Hx0 Hrest]].
  assert (Hin0 : In (x0, p0) (filter (prio_is m) l)) by (rewrite Ef; left; reflexivity).
  apply filter_In in Hin0. destruct Hin0 as [Hin0 Hp0]. unfold prio_is in Hp0. simpl in Hp0.
  apply Nat.eqb_eq in Hp0. subst p0 x0.
  exists m. split.
  - apply (imm_best_spec l (r_rid r) m rest); [|exact Ef].
    intros x Hx. destruct (le_lt_dec m (snd x)) as [Hle | Hlt]; [exact Hle|]. exfalso.
    assert (Hpx : snd x < NPRIO) by lia.
    exact (ImmOrd_empty_below im l b (snd x) HO Hpx (Hbelow _ Hlt) x Hx eq_refl).
  - (* the only entry with this id is the head one *)
    assert (Hnd : NoDup (map fst l)) by apply (io_nodup _ _ _ HO).
    assert (Honly : forall x, In x l -> fst x = r_rid r -> snd x = m).
    { intros x Hx E. destruct x as [a p]. simpl in *. subst a.
      assert (p = m); [|assumption].
      clear -Hnd Hx Hin0. induction l as [|y t IH]; [destruct Hx|].
      simpl in Hnd. inversion Hnd; subst.
      destruct Hx as [-> | Hx], Hin0 as [E0 | Hin0].
      - inversion E0. reflexivity.
      - exfalso. apply H1. apply (in_map fst) in Hin0. exact Hin0.
      - exfalso. subst y. apply H1. apply (in_map fst) in Hx. exact Hx.
      - apply IH; assumption. }
    assert (Hndq : NoDup (map r_rid (r :: q'))).
    { pose proof (io_q _ _ _ HO m Hm) as Hq2. rewrite Hnth in Hq2. rewrite Hq2.
      change (prio_is m) with (fun x : nat * nat => Nat.eqb (snd x) m).
      clear -Hnd. induction l as [|y t IH]; simpl; [constructor|].
      simpl in Hnd. inversion Hnd; subst. destruct (Nat.eqb (snd y) m); simpl; [|auto].
      constructor; [|auto]. intros X. apply H1. apply in_map_iff in X. destruct X as [z [E Hz]].
      apply filter_In in Hz. apply in_map_iff. exists z. tauto. }
    simpl in Hndq. inversion Hndq as [|? ? Hnotin Hndq']. subst.
    apply (ImmOrd_remove im _ l b (r_rid r) m HO Hm); simpl.
    + rewrite Hnth. simpl. unfold rid_neqb at 1. rewrite Nat.eqb_refl. simpl.
      f_equal. symmetry. apply filter_all_true. intros y Hy. unfold rid_neqb.
      apply negb_true_iff, Nat.eqb_neq. intros E. apply Hnotin. rewrite <- E. apply in_map. exact Hy.
    + lia.
    + intros i Hi. rewrite nth_upd_nth_neq by lia. apply Hbelow. exact Hi.
    + exact Honly.
Qed.

Lemma ImmOrd_get_none im im' l b :
  ImmOrd im l b -> imm_get im = Ok (None, im') -> l = [] /\ ImmOrd im' l b.
Proof.
  intros HO H. unfold imm_get in H.
  destruct (imm_advance_spec (heads im) (S ADV_LIMIT) (minq im)) as [A1 [A2 [A3 A4]]];
    [rewrite ADV_LIMIT_is; apply (io_minq_le _ _ _ HO) | lia |].
  set (m := imm_advance (heads im) (minq im) (S ADV_LIMIT)) in *.
  rewrite EMPTY_MARK_is in H. rewrite ADV_LIMIT_is in A2, A4.
  destruct (m =? NPRIO) eqn:Em.
  - apply Nat.eqb_eq in Em. inversion H; subst im'. clear H.
    assert (Hall : forall i, i < NPRIO -> nth i (heads im) [] = []).
    { intros i Hi. destruct (lt_dec i (minq im)); [apply (io_minq _ _ _ HO); assumption | apply A3; lia]. }
    assert (Hl : l = []).
    { destruct l as [|x t]; [reflexivity|]. exfalso.
      assert (Hx : In x (x :: t)) by (left; reflexivity).
      pose proof (io_prio _ _ _ HO x Hx) as Hpx.
      exact (ImmOrd_empty_below im (x :: t) b (snd x) HO Hpx (Hall _ Hpx) x Hx eq_refl). }
    split; [exact Hl|]. destruct HO as [A B C D E F G].
    constructor; simpl; [exact A | exact B | exact C | intros i Hi; apply Hall; lia | lia | exact F | exact G].
  - destruct (rdn (heads im) m) as [q| | |]; cbn [bind] in H; try discriminate. destruct q; discriminate.
Qed.
