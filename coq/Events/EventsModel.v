(* Event loop: executable MODEL of events/events.c, events_immediate.c, events_network.c,
   events_timer.c (and of the way they use datastruct/timerqueue.c + ptrheap.c), mirroring the
   C as it is: same statics, same branches, same index arithmetic.  No proofs in this file.

   One record [st] holds the statics of the three modules, the client's bookkeeping (which
   handles it holds, which registrations it believes live), the environment schedule (poll
   answers, clock readings) and the trace emitted so far (newest first).

   Constants (32 priorities, 16/doubling, 1000/999/1000, 1000000) come from Gen/Repo_events.v,
   regenerated from the C text on every run. *)
From Coq Require Import NArith ZArith List Bool Arith.
From LCP Require Import Base.CheckedMem Gen.Repo_events Events.EventsTrace.
Import ListNotations.
Local Open Scope res_scope.

(* ---------------------------------------------------------------- constants *)
Definition NPRIO : nat := N.to_nat imm_nprio.             (* heads[32] *)
Definition MINQ_INIT : nat := N.to_nat imm_minq_init.     (* static int minq = 32 *)
Definition PRIO_LIMIT : nat := N.to_nat imm_prio_limit.   (* assert(prio < 32) *)
Definition ADV_LIMIT : nat := N.to_nat imm_advance_limit. (* while (minq < 32 && ...) *)
Definition EMPTY_MARK : nat := N.to_nat imm_empty_mark.   (* if (minq == 32) return NULL *)
Definition C_INT_MAX : Z := 2147483647.                   (* <limits.h>, int is 32 bits *)
Definition SIZE_WRAP : N := 18446744073709551616.         (* size_t is 64 bits *)

(* ---------------------------------------------------------------- small list helpers *)
Fixpoint upd_nth {A} (n : nat) (x : A) (l : list A) : list A :=
  match l, n with
  | [], _ => []
  | _ :: t, O => x :: t
  | h :: t, S k => h :: upd_nth k x t
  end.

Definition is_nil {A} (l : list A) : bool := match l with [] => true | _ => false end.

Definition rdn {A} (l : list A) (i : nat) : res A :=
  match nth_error l i with Some x => Ok x | None => Fault end.

(* ---------------------------------------------------------------- the library's state *)
(* struct eventrec {func, cookie}: the callback id and the client's registration id *)
Record rec := { r_cb : nat; r_rid : nat }.

(* events_immediate.c *)
Record imm_st := { heads : list (list rec); minq : nat }.

(* events_network.c *)
Record sockrec := { reader : option rec; writer : option rec; pollpos : option nat }.
Record pollfd := { p_fd : nat; p_ein : bool; p_eout : bool; p_rev : rbits }.
Record net_st := {
  net_inited : bool;            (* S != NULL *)
  socks : list sockrec;         (* S *)
  fds : list pollfd;            (* fds[0 .. nfds-1] *)
  fds_alloc : N;
  scanpos : N                   (* fdscanpos, a size_t *)
}.

(* events_timer.c + timerqueue.c + ptrheap.c: the heap array, each element carrying the
   absolute deadline (timerqueue's timerrec.tv), tv_orig and the eventrec *)
Record timer := { t_deadline : tv; t_orig : tv; t_rec : rec }.
Record tmr_st := { tq_inited : bool; heap : list timer }.

(* the client (driver): handle variables, the registrations it believes live, how often each
   callback id ran, the flag watched by events_spin, the next registration id *)
Inductive hkind := HImm (prio : nat) | HTimer.
Record handle := { h_rid : nat; h_kind : hkind }.
Record cl_st := {
  vars : list (nat * handle);
  cl_live : list nat;
  runs : list nat;
  cl_done : bool;
  next_rid : nat
}.

(* the environment: remaining poll answers and clock readings *)
Inductive pollraw := RReady (l : list (nat * rbits)) | REintr (intr : bool).
Record env_st := { polls : list pollraw; clocks : list tv; lastclock : tv }.

Record st := {
  s_imm : imm_st;
  s_net : net_st;
  s_tmr : tmr_st;
  s_intr : bool;                (* interrupt_requested *)
  s_cl : cl_st;
  s_env : env_st;
  s_tr : list event             (* newest first *)
}.

Definition set_imm (s : st) (x : imm_st) : st :=
  {| s_imm := x; s_net := s_net s; s_tmr := s_tmr s; s_intr := s_intr s; s_cl := s_cl s;
     s_env := s_env s; s_tr := s_tr s |}.
Definition set_net (s : st) (x : net_st) : st :=
  {| s_imm := s_imm s; s_net := x; s_tmr := s_tmr s; s_intr := s_intr s; s_cl := s_cl s;
     s_env := s_env s; s_tr := s_tr s |}.
Definition set_tmr (s : st) (x : tmr_st) : st :=
  {| s_imm := s_imm s; s_net := s_net s; s_tmr := x; s_intr := s_intr s; s_cl := s_cl s;
     s_env := s_env s; s_tr := s_tr s |}.
Definition set_intr (s : st) (x : bool) : st :=
  {| s_imm := s_imm s; s_net := s_net s; s_tmr := s_tmr s; s_intr := x; s_cl := s_cl s;
     s_env := s_env s; s_tr := s_tr s |}.
Definition set_cl (s : st) (x : cl_st) : st :=
  {| s_imm := s_imm s; s_net := s_net s; s_tmr := s_tmr s; s_intr := s_intr s; s_cl := x;
     s_env := s_env s; s_tr := s_tr s |}.
Definition set_env (s : st) (x : env_st) : st :=
  {| s_imm := s_imm s; s_net := s_net s; s_tmr := s_tmr s; s_intr := s_intr s; s_cl := s_cl s;
     s_env := x; s_tr := s_tr s |}.
Definition emit (e : event) (s : st) : st :=
  {| s_imm := s_imm s; s_net := s_net s; s_tmr := s_tmr s; s_intr := s_intr s; s_cl := s_cl s;
     s_env := s_env s; s_tr := e :: s_tr s |}.

(* ---------------------------------------------------------------- monoclock_get *)
(* the next scripted reading; when the script is exhausted the last reading repeats *)
Definition read_clock (s : st) : tv * st :=
  let e := s_env s in
  match clocks e with
  | [] => (lastclock e, emit (EClock (lastclock e)) s)
  | c :: r => (c, emit (EClock c) (set_env s {| polls := polls e; clocks := r; lastclock := c |}))
  end.

(* ================================================================ events_immediate.c *)
Definition rid_neqb (rid : nat) (r : rec) : bool := negb (Nat.eqb (r_rid r) rid).

(* events_immediate_register *)
Definition imm_register (cb prio rid : nat) (im : imm_st) : res imm_st :=
  if prio <? PRIO_LIMIT then                                  (* assert *)
    let* q := rdn (heads im) prio in
    Ok {| heads := upd_nth prio (q ++ [{| r_cb := cb; r_rid := rid |}]) (heads im);  (* INSERT_TAIL *)
          minq := if prio <? minq im then prio else minq im |}
  else AssertFail.

(* events_immediate_cancel: q->prio selects the list; TAILQ_REMOVE takes the node out *)
Definition imm_cancel (rid prio : nat) (im : imm_st) : res imm_st :=
  let* q := rdn (heads im) prio in
  Ok {| heads := upd_nth prio (filter (rid_neqb rid) q) (heads im); minq := minq im |}.

(* while ((minq < 32) && TAILQ_EMPTY(&heads[minq])) minq++ *)
Fixpoint imm_advance (hs : list (list rec)) (m fuel : nat) : nat :=
  match fuel with
  | O => m
  | S f => if (m <? ADV_LIMIT) && is_nil (nth m hs []) then imm_advance hs (S m) f else m
  end.

(* events_immediate_get *)
Definition imm_get (im : imm_st) : res (option rec * imm_st) :=
  let m := imm_advance (heads im) (minq im) (S ADV_LIMIT) in
  if m =? EMPTY_MARK then Ok (None, {| heads := heads im; minq := m |})
  else
    let* q := rdn (heads im) m in
    match q with
    | r :: q' => Ok (Some r, {| heads := upd_nth m q' (heads im); minq := m |})
    | [] => Fault                                             (* TAILQ_FIRST == NULL dereferenced *)
    end.

(* ================================================================ events_network.c *)
Definition sock_empty : sockrec := {| reader := None; writer := None; pollpos := None |}.
Definition sk_get (dir : bool) (k : sockrec) : option rec := if dir then writer k else reader k.
Definition sk_set (dir : bool) (v : option rec) (k : sockrec) : sockrec :=
  if dir then {| reader := reader k; writer := v; pollpos := pollpos k |}
  else {| reader := v; writer := writer k; pollpos := pollpos k |}.
Definition sk_setpos (p : option nat) (k : sockrec) : sockrec :=
  {| reader := reader k; writer := writer k; pollpos := p |}.

Definition pf_ev (dir : bool) (p : pollfd) : bool := if dir then p_eout p else p_ein p.
Definition pf_set_ev (dir : bool) (p : pollfd) : pollfd :=
  if dir then {| p_fd := p_fd p; p_ein := p_ein p; p_eout := true; p_rev := p_rev p |}
  else {| p_fd := p_fd p; p_ein := true; p_eout := p_eout p; p_rev := p_rev p |}.
(* events &= ~bit; revents &= ~bit *)
Definition pf_clear (dir : bool) (p : pollfd) : pollfd :=
  let r := p_rev p in
  if dir then {| p_fd := p_fd p; p_ein := p_ein p; p_eout := false;
                 p_rev := {| b_in := b_in r; b_out := false; b_err := b_err r; b_hup := b_hup r |} |}
  else {| p_fd := p_fd p; p_ein := false; p_eout := p_eout p;
          p_rev := {| b_in := false; b_out := b_out r; b_err := b_err r; b_hup := b_hup r |} |}.
Definition pf_set_rev (r : rbits) (p : pollfd) : pollfd :=
  {| p_fd := p_fd p; p_ein := p_ein p; p_eout := p_eout p; p_rev := r |}.

Definition net_with (n : net_st) (sk : list sockrec) (f : list pollfd) : net_st :=
  {| net_inited := net_inited n; socks := sk; fds := f; fds_alloc := fds_alloc n; scanpos := scanpos n |}.

(* init() *)
Definition net_init (n : net_st) : net_st :=
  if net_inited n then n
  else {| net_inited := true; socks := []; fds := []; fds_alloc := 0; scanpos := 0 |}.

(* growsocketlist(nrec) *)
Definition growsocketlist (nrec : nat) (n : net_st) : net_st :=
  net_with n (socks n ++ repeat sock_empty (nrec - length (socks n))) (fds n).

(* growpollfd(fd): assert(pollpos == -1); grow; assert(nfds < fds_alloc); assert(fd < INT_MAX)
   (the last one: descriptor INT_MAX itself is refused by an assertion, so the largest
   descriptor that can be registered is INT_MAX - 1) *)
Definition growpollfd (fd : nat) (n : net_st) : res net_st :=
  let* k := rdn (socks n) fd in
  match pollpos k with
  | Some _ => AssertFail
  | None =>
    let nfds := length (fds n) in
    let alloc := if (fds_alloc n =? N.of_nat nfds)%N
                 then (if (fds_alloc n =? 0)%N then net_fds_initial else fds_alloc n * net_fds_factor)%N
                 else fds_alloc n in
    if (N.of_nat nfds <? alloc)%N then
      if (Z.of_nat fd <? C_INT_MAX)%Z then
        Ok {| net_inited := net_inited n;
              socks := upd_nth fd (sk_setpos (Some nfds) k) (socks n);
              fds := fds n ++ [{| p_fd := fd; p_ein := false; p_eout := false; p_rev := rb_none |}];
              fds_alloc := alloc; scanpos := scanpos n |}
      else AssertFail
    else AssertFail
  end.

(* clearbit(pollpos, bit) *)
Definition clearbit (pos : nat) (dir : bool) (n : net_st) : res net_st :=
  let* p := rdn (fds n) pos in
  let p' := pf_clear dir p in
  if p_ein p' || p_eout p' then Ok (net_with n (socks n) (upd_nth pos p' (fds n)))
  else
    let* k := rdn (socks n) (p_fd p') in
    let sk1 := upd_nth (p_fd p') (sk_setpos None k) (socks n) in
    let last := length (fds n) - 1 in
    if pos =? last then Ok (net_with n sk1 (removelast (fds n)))
    else
      let* pl := rdn (fds n) last in
      let* kl := rdn sk1 (p_fd pl) in
      Ok (net_with n (upd_nth (p_fd pl) (sk_setpos (Some pos) kl) sk1)
                   (removelast (upd_nth pos pl (fds n)))).

(* events_network_register(func, cookie, s, op): None = returned 0, Some e = returned -1 *)
Definition net_register (cb : nat) (fd op : Z) (rid : nat) (n0 : net_st) : res (option errc * net_st) :=
  let n := net_init n0 in
  if (fd <? 0)%Z then Ok (Some E0, n) else
  match op_dir op with
  | None => Ok (Some E0, n)
  | Some dir =>
    let s := Z.to_nat fd in
    let n1 := if length (socks n) <=? s then growsocketlist (S s) n else n in
    let* k := rdn (socks n1) s in
    match sk_get dir k with
    | Some _ => Ok (Some EEXIST, n1)
    | None =>
      let n2 := net_with n1 (upd_nth s (sk_set dir (Some {| r_cb := cb; r_rid := rid |}) k) (socks n1)) (fds n1) in
      let* n3 := match pollpos k with None => growpollfd s n2 | Some _ => Ok n2 end in
      let* k3 := rdn (socks n3) s in
      match pollpos k3 with
      | None => Fault                                        (* fds[(size_t)(-1)] *)
      | Some pp =>
        let* p := rdn (fds n3) pp in
        Ok (None, net_with n3 (socks n3) (upd_nth pp (pf_set_ev dir p) (fds n3)))
      end
    end
  end.

(* events_network_register when one of its allocations is refused (it returns -1 with ENOMEM):
   the state the C leaves behind, by the point [stage] at which the refusal happened
     1      in init() (socketlist_init), or in events_mkrec when the list did not have to grow:
            nothing has been written
     2      in growsocketlist (socketlist_resize): init() has run
     3      in events_mkrec after growsocketlist succeeded: the list has its new empty records
     >= 4   in growpollfd (the realloc of the pollfd array) after events_mkrec succeeded and *r
            was set: err1 frees the record and stores NULL back into the field
   (for a call that returns before that point - bad descriptor, bad op, EEXIST - the state
   reached at its return) *)
Definition net_register_refused (stage cb : nat) (fd op : Z) (rid : nat) (n0 : net_st) : net_st :=
  if stage <=? 1 then n0 else
  let n := net_init n0 in
  if stage =? 2 then n else
  if (fd <? 0)%Z then n else
  match op_dir op with
  | None => n
  | Some dir =>
    let s := Z.to_nat fd in
    let n1 := if length (socks n) <=? s then growsocketlist (S s) n else n in
    if stage =? 3 then n1 else
    match nth_error (socks n1) s with
    | None => n1
    | Some k =>
      match sk_get dir k with
      | Some _ => n1                                          (* EEXIST is tested before the allocation *)
      | None =>
        let k2 := sk_set dir (Some {| r_cb := cb; r_rid := rid |}) k in     (* *r = events_mkrec(...) *)
        net_with n1 (upd_nth s (sk_set dir None k2) (upd_nth s k2 (socks n1))) (fds n1)   (* err1: *r = NULL *)
      end
    end
  end.

(* events_network_cancel(s, op): inl r = returned 0 and r was the record freed *)
Definition net_cancel (fd op : Z) (n0 : net_st) : res ((rec + errc) * net_st) :=
  let n := net_init n0 in
  if (fd <? 0)%Z then Ok (inr E0, n) else
  match op_dir op with
  | None => Ok (inr E0, n)
  | Some dir =>
    let s := Z.to_nat fd in
    if length (socks n) <=? s then Ok (inr ENOENT, n) else
    let* k := rdn (socks n) s in
    match sk_get dir k with
    | None => Ok (inr ENOENT, n)
    | Some r =>
      let n1 := net_with n (upd_nth s (sk_set dir None k) (socks n)) (fds n) in
      match pollpos k with
      | None => Fault
      | Some pp => let* n2 := clearbit pp dir n1 in Ok (inl r, n2)
      end
    end
  end.

(* the timeout conversion of events_network_select *)
Definition sel_timeout (tvo : option tv) : Z :=
  match tvo with
  | None => (-1)%Z
  | Some (sec, usec) =>
    if (C_INT_MAX / Z.of_N sel_clamp_div <=? Z.of_N sec)%Z
    then (C_INT_MAX / Z.of_N sel_clamp_val_div * Z.of_N sel_clamp_val_mul)%Z
    else Z.of_N (sec * sel_ms_per_sec + (usec + sel_round_add) / sel_us_per_ms)%N
  end.

(* poll(2) contract: revents = answer & (events | POLLERR | POLLHUP) *)
Definition apply_poll (raw : list (nat * rbits)) (p : pollfd) : pollfd :=
  let a := match lookup_fd (p_fd p) raw with Some b => b | None => rb_none end in
  pf_set_rev {| b_in := b_in a && p_ein p; b_out := b_out a && p_eout p;
                b_err := b_err a; b_hup := b_hup a |} p.

(* canonical (sorted by descriptor) views of the poll array for the trace *)
Fixpoint insert_fd {A} (x : nat * A) (l : list (nat * A)) : list (nat * A) :=
  match l with
  | [] => [x]
  | y :: t => if fst x <=? fst y then x :: l else y :: insert_fd x t
  end.
Definition sort_fd {A} (l : list (nat * A)) : list (nat * A) := fold_right insert_fd [] l.
Definition fdset_of (f : list pollfd) : list (nat * (bool * bool)) :=
  sort_fd (map (fun p => (p_fd p, (p_ein p, p_eout p))) f).
Definition answer_of (f : list pollfd) : list (nat * rbits) :=
  sort_fd (map (fun p => (p_fd p, p_rev p)) (filter (fun p => negb (rb_is_none (p_rev p))) f)).

Definition net_set_fds (s : st) (f : list pollfd) : st := set_net s (net_with (s_net s) (socks (s_net s)) f).
Definition set_polls (s : st) (pl : list pollraw) : st :=
  set_env s {| polls := pl; clocks := clocks (s_env s); lastclock := lastclock (s_env s) |}.

(* while (poll(fds, nfds, timeout) == -1) { if (errno == EINTR) { if (intr[0]) break; continue; } }
   An EINTR poll stores revents = 0 everywhere (what Linux does).  When the script of answers is
   exhausted every further poll is "interrupted by a signal whose handler calls
   events_interrupt", so that every run terminates. *)
Fixpoint poll_loop (timeout : Z) (pl : list pollraw) (s : st) : st :=
  let f := fds (s_net s) in
  let zero := map (pf_set_rev rb_none) f in
  match pl with
  | [] =>
    emit (EPoll timeout (fdset_of f) (PEintr true)) (set_intr (set_polls (net_set_fds s zero) []) true)
  | RReady raw :: rest =>
    let f' := map (apply_poll raw) f in
    emit (EPoll timeout (fdset_of f) (PReady (answer_of f'))) (set_polls (net_set_fds s f') rest)
  | REintr true :: rest =>
    emit (EPoll timeout (fdset_of f) (PEintr true)) (set_intr (set_polls (net_set_fds s zero) rest) true)
  | REintr false :: rest =>
    let s' := emit (EPoll timeout (fdset_of f) (PEintr false)) (set_polls (net_set_fds s zero) rest) in
    if s_intr s then s' else poll_loop timeout rest s'
  end.

(* events_network_select(tv, &interrupt_requested) *)
Definition net_select (tvo : option tv) (s0 : st) : st :=
  let s := set_net s0 (net_init (s_net s0)) in
  let s1 := poll_loop (sel_timeout tvo) (polls (s_env s)) s in
  let n := s_net s1 in
  let nfds := N.of_nat (length (fds n)) in
  set_net s1 {| net_inited := net_inited n; socks := socks n; fds := fds n; fds_alloc := fds_alloc n;
                scanpos := ((nfds + SIZE_WRAP - 1) mod SIZE_WRAP)%N |}.   (* fdscanpos = nfds - 1 *)

(* POLLERR | POLLHUP: revents &= ~(ERR|HUP); revents |= events *)
Definition pf_fold (p : pollfd) : pollfd :=
  let r := p_rev p in
  if rb_errhup r
  then pf_set_rev {| b_in := b_in r || p_ein p; b_out := b_out r || p_eout p; b_err := false; b_hup := false |} p
  else p.

Definition net_set_scan (n : net_st) (x : N) : net_st :=
  {| net_inited := net_inited n; socks := socks n; fds := fds n; fds_alloc := fds_alloc n; scanpos := x |}.

(* events_network_get: for (; fdscanpos < nfds; fdscanpos--) *)
Fixpoint net_get_loop (fuel : nat) (n : net_st) : res (option rec * net_st) :=
  match fuel with
  | O => OutOfFuel
  | S f =>
    if (scanpos n <? N.of_nat (length (fds n)))%N then
      let pos := N.to_nat (scanpos n) in
      let* p0 := rdn (fds n) pos in
      let p := pf_fold p0 in
      let n1 := net_with n (socks n) (upd_nth pos p (fds n)) in
      if b_in (p_rev p) then
        let* k := rdn (socks n1) (p_fd p) in
        let n2 := net_with n1 (upd_nth (p_fd p) (sk_set false None k) (socks n1)) (fds n1) in
        let* n3 := clearbit pos false n2 in
        Ok (reader k, n3)                                     (* break: cursor not moved *)
      else if b_out (p_rev p) then
        let* k := rdn (socks n1) (p_fd p) in
        let n2 := net_with n1 (upd_nth (p_fd p) (sk_set true None k) (socks n1)) (fds n1) in
        let* n3 := clearbit pos true n2 in
        Ok (writer k, n3)
      else net_get_loop f (net_set_scan n1 ((scanpos n1 + SIZE_WRAP - 1) mod SIZE_WRAP)%N)
    else Ok (None, n)
  end.

Definition net_get (n : net_st) : res (option rec * net_st) :=
  net_get_loop (S (S (length (fds n)))) n.

(* ================================================================ timerqueue.c / ptrheap.c *)
Definition tv_cmp (x y : tv) : comparison :=
  match N.compare (fst x) (fst y) with
  | Eq => N.compare (snd x) (snd y)
  | c => c
  end.

Definition swap_nth {A} (i j : nat) (l : list A) : res (list A) :=
  let* a := rdn l i in
  let* b := rdn l j in
  Ok (upd_nth j a (upd_nth i b l)).

(* heapifyup(elems, i) *)
Fixpoint heapifyup (fuel i : nat) (h : list timer) : res (list timer) :=
  match fuel with
  | O => OutOfFuel
  | S f =>
    if i =? 0 then Ok h else
    let p := (i - 1) / 2 in
    let* a := rdn h i in
    let* b := rdn h p in
    match tv_cmp (t_deadline a) (t_deadline b) with
    | Lt => let* h' := swap_nth i p h in heapifyup f p h'
    | _ => Ok h                                               (* compar >= 0: break *)
    end
  end.

(* heapify(elems, i, N) *)
Fixpoint heapify (fuel i n : nat) (h : list timer) : res (list timer) :=
  match fuel with
  | O => OutOfFuel
  | S f =>
    let* x := rdn h i in
    let* m1 :=
      if 2 * i + 1 <? n then
        let* c := rdn h (2 * i + 1) in
        match tv_cmp (t_deadline x) (t_deadline c) with Gt => Ok (2 * i + 1) | _ => Ok i end
      else Ok i in
    let* xm := rdn h m1 in
    let* m2 :=
      if 2 * i + 2 <? n then
        let* c := rdn h (2 * i + 2) in
        match tv_cmp (t_deadline xm) (t_deadline c) with Gt => Ok (2 * i + 2) | _ => Ok m1 end
      else Ok m1 in
    if m2 =? i then Ok h
    else let* h' := swap_nth m2 i h in heapify f m2 n h'
  end.

(* ptrheap_add *)
Definition heap_add (x : timer) (h : list timer) : res (list timer) :=
  let h1 := h ++ [x] in
  heapifyup (S (length h1)) (length h1 - 1) h1.

(* ptrheap_delete(H, rc) *)
Definition heap_delete (rc : nat) (h : list timer) : res (list timer) :=
  let n := length h in
  if n =? 0 then Fault else
  let* h2 :=
    if rc =? n - 1 then Ok h
    else
      let* l := rdn h (n - 1) in
      let* _ := rdn h rc in
      let h1 := upd_nth rc l h in
      let p := (rc - 1) / 2 in
      let up :=
        if 0 <? rc then
          (let* a := rdn h1 rc in
           let* b := rdn h1 p in
           Ok (match tv_cmp (t_deadline a) (t_deadline b) with Lt => true | _ => false end))
        else Ok false in
      let* u := up in
      if u then (let* h' := swap_nth rc p h1 in heapifyup (S n) p h')
      else heapify (S n) rc n h1 in
  Ok (removelast h2).

Fixpoint heap_index (rid : nat) (h : list timer) : option nat :=
  match h with
  | [] => None
  | x :: t => if Nat.eqb (r_rid (t_rec x)) rid then Some 0 else option_map S (heap_index rid t)
  end.

(* ================================================================ events_timer.c *)
(* gettimeout *)
Definition add_timeout (now delta : tv) : tv :=
  let sec := (fst now + fst delta)%N in
  let usec := (snd now + snd delta)%N in
  if (tmr_usec_per_sec <=? usec)%N then ((sec + tmr_carry)%N, (usec - tmr_usec_per_sec)%N) else (sec, usec).

Definition tmr_with (s : st) (h : list timer) : st := set_tmr s {| tq_inited := true; heap := h |}.

(* events_timer_register (success path; allocation failures are handled by the caller) *)
Definition timer_register (cb : nat) (t : tv) (rid : nat) (s : st) : res st :=
  let (now, s1) := read_clock s in
  let* h := heap_add {| t_deadline := add_timeout now t; t_orig := t; t_rec := {| r_cb := cb; r_rid := rid |} |}
                     (heap (s_tmr s1)) in
  Ok (tmr_with s1 h).

(* events_timer_register refused: what stays behind.  [af] >= 3: the call was the one that created
   the timer queue (Q = timerqueue_init() had succeeded before events_mkrec / malloc /
   timerqueue_add was refused): Q stays initialised - from then on events_timer_get reads the
   clock even though no timer has ever been registered *)
Definition timer_register_refused (af : nat) (s : st) : st :=
  if 3 <=? af then tmr_with s (heap (s_tmr s)) else s.

(* events_timer_cancel *)
Definition timer_cancel (rid : nat) (s : st) : res st :=
  match heap_index rid (heap (s_tmr s)) with
  | None => Fault
  | Some i => let* h := heap_delete i (heap (s_tmr s)) in Ok (tmr_with s h)
  end.

(* events_timer_reset: timerqueue_increase = overwrite the deadline, then sift down *)
Definition timer_reset (rid : nat) (s : st) : res st :=
  match heap_index rid (heap (s_tmr s)) with
  | None => Fault
  | Some i =>
    let* x := rdn (heap (s_tmr s)) i in
    let (now, s1) := read_clock s in
    let x' := {| t_deadline := add_timeout now (t_orig x); t_orig := t_orig x; t_rec := t_rec x |} in
    let h1 := upd_nth i x' (heap (s_tmr s1)) in
    let* h := heapify (S (length h1)) i (length h1) h1 in
    Ok (tmr_with s1 h)
  end.

(* events_timer_min *)
Definition timer_min (s : st) : option tv * st :=
  if tq_inited (s_tmr s) then
    match heap (s_tmr s) with
    | [] => (None, s)
    | m :: _ =>
      let (now, s1) := read_clock s in
      let d := t_deadline m in
      if (fst d <? fst now)%N || ((fst d =? fst now)%N && (snd d <? snd now)%N) then (Some (0, 0)%N, s1)
      else if (snd d <? snd now)%N
           then (Some ((fst d - fst now - tmr_min_borrow_sec)%N, (snd d + tmr_min_borrow - snd now)%N), s1)
           else (Some ((fst d - fst now)%N, (snd d - snd now)%N), s1)
    end
  else (None, s).

(* events_timer_get + timerqueue_getptr *)
Definition timer_get (s : st) : res (option rec * st) :=
  if tq_inited (s_tmr s) then
    let (now, s1) := read_clock s in
    match heap (s_tmr s1) with
    | [] => Ok (None, s1)
    | m :: _ =>
      match tv_cmp (t_deadline m) now with
      | Gt => Ok (None, s1)
      | _ => let* h := heap_delete 0 (heap (s_tmr s1)) in Ok (Some (t_rec m), tmr_with s1 h)
      end
    end
  else Ok (None, s).

(* ================================================================ the client's program *)
(* Operations of the public API as the driver issues them.  [var] names one of the driver's
   handle variables; [af] (allocation failure) is 0 for a call during which every allocation
   succeeds; otherwise the call returns failure with ENOMEM and [af] says at which of its
   allocations it was refused, i.e. what the unwinding leaves behind:
     events_immediate_register   any af > 0: nothing (err1 frees the eventrec again)
     events_network_register     see net_register_refused (1 nothing, 2 init() done, 3 socket list
                                 grown, >= 4 record stored and taken out again by err1)
     events_timer_register       odd: before the clock is read, even: after it (timerqueue_add);
                                 >= 3: the timer queue created by this call stays (timer_register_refused)
   The trace of the failing call itself does not depend on af beyond "clock read or not". *)
Inductive op :=
| OImmReg (cb prio var af : nat)
| OImmCancel (var : nat)
| ONetReg (cb : nat) (fd opn : Z) (af : nat)
| ONetCancel (fd opn : Z)
| OTimerReg (cb : nat) (t : tv) (var af : nat)
| OTimerCancel (var : nat)
| OTimerReset (var : nat)
| OInterrupt
| ODone.

Inductive xop := XOp (o : op) | XRun | XSpin.

Definition script := (list op * Z)%type.
(* prog[cb][k] is what callback cb does at its k-th invocation (nothing, returning 0, beyond) *)
Definition program := list (list script).

Definition count_nat (x : nat) (l : list nat) : nat := length (filter (Nat.eqb x) l).
Definition get_script (p : program) (cb k : nat) : script := nth k (nth cb p []) ([], 0%Z).

Fixpoint get_var (v : nat) (l : list (nat * handle)) : option handle :=
  match l with
  | [] => None
  | (v', h) :: t => if Nat.eqb v' v then Some h else get_var v t
  end.
Definition mem_nat (r : nat) (l : list nat) : bool := existsb (Nat.eqb r) l.
Definition remove_nat (r : nat) (l : list nat) : list nat := filter (fun x => negb (Nat.eqb x r)) l.

Definition cl_with (c : cl_st) (v : list (nat * handle)) (lv : list nat) (nr : nat) : cl_st :=
  {| vars := v; cl_live := lv; runs := runs c; cl_done := cl_done c; next_rid := nr |}.

(* a register call returned success: the client notes the new registration *)
Definition cl_registered (rid : nat) (var : option (nat * hkind)) (s : st) : st :=
  let c := s_cl s in
  set_cl s (cl_with c (match var with Some (v, hk) => (v, {| h_rid := rid; h_kind := hk |}) :: vars c | None => vars c end)
                      (rid :: cl_live c) (S (next_rid c))).
(* the registration is gone (cancelled, or its callback was entered) *)
Definition cl_dead (rid : nat) (s : st) : st :=
  let c := s_cl s in set_cl s (cl_with c (vars c) (remove_nat rid (cl_live c)) (next_rid c)).

Definition exec_op (o : op) (s : st) : res st :=
  let rid := next_rid (s_cl s) in
  match o with
  | OImmReg cb prio var af =>
    if prio <? PRIO_LIMIT then                                 (* the assert precedes the allocations *)
      if negb (af =? 0) then Ok (emit (ERegFailImm prio ENOMEM) s) else
      let* im := imm_register cb prio rid (s_imm s) in
      Ok (emit (ERegister rid (KImm prio)) (cl_registered rid (Some (var, HImm prio)) (set_imm s im)))
    else AssertFail
  | OImmCancel var =>
    match get_var var (vars (s_cl s)) with
    | Some {| h_rid := r; h_kind := HImm prio |} =>
      if mem_nat r (cl_live (s_cl s)) then
        let* im := imm_cancel r prio (s_imm s) in
        Ok (emit (ECancel r) (cl_dead r (set_imm s im)))
      else Ok s
    | _ => Ok s
    end
  | ONetReg cb fd opn af =>
    if negb (af =? 0)
    then Ok (emit (ERegFailNet fd opn ENOMEM) (set_net s (net_register_refused af cb fd opn rid (s_net s)))) else
    let* (e, n) := net_register cb fd opn rid (s_net s) in
    match e with
    | Some err => Ok (emit (ERegFailNet fd opn err) (set_net s n))
    | None =>
      match op_dir opn with
      | Some dir => Ok (emit (ERegister rid (KNet (Z.to_nat fd) dir)) (cl_registered rid None (set_net s n)))
      | None => Fault
      end
    end
  | ONetCancel fd opn =>
    let* (x, n) := net_cancel fd opn (s_net s) in
    match x with
    | inl r => Ok (emit (ECancel (r_rid r)) (cl_dead (r_rid r) (set_net s n)))
    | inr err => Ok (emit (ECancelFail fd opn err) (set_net s n))
    end
  | OTimerReg cb t var af =>
    if af =? 0 then
      let* s1 := timer_register cb t rid s in
      Ok (emit (ERegister rid (KTimer t)) (cl_registered rid (Some (var, HTimer)) s1))
    else
      let s0 := timer_register_refused af s in
      if Nat.odd af then Ok (emit (ERegFailTimer t ENOMEM) s0)
      else let (_, s1) := read_clock s0 in Ok (emit (ERegFailTimer t ENOMEM) s1)
  | OTimerCancel var =>
    match get_var var (vars (s_cl s)) with
    | Some {| h_rid := r; h_kind := HTimer |} =>
      if mem_nat r (cl_live (s_cl s)) then
        let* s1 := timer_cancel r s in
        Ok (emit (ECancel r) (cl_dead r s1))
      else Ok s
    | _ => Ok s
    end
  | OTimerReset var =>
    match get_var var (vars (s_cl s)) with
    | Some {| h_rid := r; h_kind := HTimer |} =>
      if mem_nat r (cl_live (s_cl s)) then
        let* s1 := timer_reset r s in
        Ok (emit (EReset r) s1)
      else Ok s
    | _ => Ok s
    end
  | OInterrupt => Ok (emit EInterrupt (set_intr s true))
  | ODone =>
    let c := s_cl s in
    Ok (emit EDone (set_cl s {| vars := vars c; cl_live := cl_live c; runs := runs c; cl_done := true;
                                next_rid := next_rid c |}))
  end.

Fixpoint exec_ops (l : list op) (s : st) : res st :=
  match l with
  | [] => Ok s
  | o :: t => let* s1 := exec_op o s in exec_ops t s1
  end.

(* ================================================================ events.c *)
Section Dispatcher.
  Variable prog : program.

  (* doevent(r): the callback runs its script for this invocation and returns its code *)
  Definition doevent (r : rec) (s : st) : res (Z * st) :=
    let c := s_cl s in
    let k := count_nat (r_cb r) (runs c) in
    let sc := get_script prog (r_cb r) k in
    let s1 := emit (EInvoke (r_rid r))
                (set_cl s {| vars := vars c; cl_live := remove_nat (r_rid r) (cl_live c);
                             runs := r_cb r :: runs c; cl_done := cl_done c; next_rid := next_rid c |}) in
    let* s2 := exec_ops (fst sc) s1 in
    Ok (snd sc, emit (ECbEnd (snd sc)) s2).

  Definition imm_get_s (s : st) : res (option rec * st) :=
    let* (r, im) := imm_get (s_imm s) in Ok (r, set_imm s im).
  Definition net_get_s (s : st) : res (option rec * st) :=
    let* (r, n) := net_get (s_net s) in Ok (r, set_net s n).

  (* the "if we have any immediate events, process them and return" loop *)
  Fixpoint drain_loop (fuel : nat) (r : rec) (s : st) : res (Z * st) :=
    match fuel with
    | O => OutOfFuel
    | S f =>
      let* (rc, s1) := doevent r s in
      if negb (Z.eqb rc 0) then Ok (rc, s1)
      else if s_intr s1 then Ok (rc, s1)
      else
        let* (ro, s2) := imm_get_s s1 in
        match ro with
        | Some r' => drain_loop f r' s2
        | None => Ok (rc, s2)
        end
    end.

  (* the do { ... } while (1) loop *)
  Fixpoint main_loop (fuel : nat) (s : st) : res (Z * st) :=
    match fuel with
    | O => OutOfFuel
    | S f =>
      if s_intr s then Ok (0%Z, s) else
      let* (ro, s1) := imm_get_s s in
      match ro with
      | Some r =>
        let* (rc, s2) := doevent r s1 in
        if negb (Z.eqb rc 0) then Ok (rc, s2) else main_loop f s2
      | None =>
        let* (ro, s2) := net_get_s s1 in
        match ro with
        | Some r =>
          let* (rc, s3) := doevent r s2 in
          if negb (Z.eqb rc 0) then Ok (rc, s3) else main_loop f s3
        | None =>
          let s3 := net_select (Some (0, 0)%N) s2 in
          let* (ro, s4) := net_get_s s3 in
          match ro with
          | Some r =>
            let* (rc, s5) := doevent r s4 in
            if negb (Z.eqb rc 0) then Ok (rc, s5) else main_loop f s5
          | None =>
            let* (ro, s5) := timer_get s4 in
            match ro with
            | Some r =>
              let* (rc, s6) := doevent r s5 in
              if negb (Z.eqb rc 0) then Ok (rc, s6) else main_loop f s6
            | None => Ok (0%Z, s5)
            end
          end
        end
      end
    end.

  (* events_run_internal *)
  Definition run_internal (fuel : nat) (s : st) : res (Z * st) :=
    let* (ro, s1) := imm_get_s s in
    match ro with
    | Some r => drain_loop fuel r s1
    | None =>
      let (tvo, s2) := timer_min s1 in
      main_loop fuel (net_select tvo s2)
    end.

  (* events_run *)
  Definition events_run (fuel : nat) (s : st) : res st :=
    let* (rc, s1) := run_internal fuel (emit ERunStart s) in
    Ok (emit (ERunEnd rc) (set_intr s1 false)).

  (* events_spin(&done) *)
  Fixpoint spin_loop (fuel : nat) (rc : Z) (s : st) : res (Z * st) :=
    match fuel with
    | O => OutOfFuel
    | S f =>
      if negb (cl_done (s_cl s)) && Z.eqb rc 0 && negb (s_intr s) then
        let* (rc', s1) := run_internal fuel s in spin_loop f rc' s1
      else Ok (rc, s)
    end.

  Definition events_spin (fuel : nat) (s : st) : res st :=
    let* (rc, s1) := spin_loop fuel 0%Z (emit ESpinStart s) in
    Ok (emit (ESpinEnd rc) (set_intr s1 false)).

  Definition exec_xop (fuel : nat) (x : xop) (s : st) : res st :=
    match x with
    | XOp o => exec_op o s
    | XRun => events_run fuel s
    | XSpin => events_spin fuel s
    end.

  Fixpoint exec_xops (fuel : nat) (l : list xop) (s : st) : res st :=
    match l with
    | [] => Ok s
    | x :: t => let* s1 := exec_xop fuel x s in exec_xops fuel t s1
    end.
End Dispatcher.

Definition st_init (pl : list pollraw) (cl : list tv) : st :=
  {| s_imm := {| heads := repeat [] NPRIO; minq := MINQ_INIT |};
     s_net := {| net_inited := false; socks := []; fds := []; fds_alloc := 0; scanpos := 0 |};
     s_tmr := {| tq_inited := false; heap := [] |};
     s_intr := false;
     s_cl := {| vars := []; cl_live := []; runs := []; cl_done := false; next_rid := 0 |};
     s_env := {| polls := pl; clocks := cl; lastclock := (0, 0)%N |};
     s_tr := [] |}.

(* one correspondence case: the trace (oldest first) *)
Definition run_case (p : program) (xs : list xop) (pl : list pollraw) (cl : list tv) (fuel : nat)
  : res trace :=
  let* s := exec_xops p fuel xs (st_init pl cl) in
  Ok (rev (s_tr s)).
