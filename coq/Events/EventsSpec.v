(* Event loop, SPEC side (C04 and C05): trace predicates and executable trace checkers.
   Written from the property texts and the documentation in events.h; independent of the model
   of the C (EventsModel.v is not imported).  The checkers are extracted and run on the trace
   printed by the IMPLEMENTATION; EventsSpecProofs.v proves that acceptance implies the
   logical statements below. *)
From Coq Require Import NArith ZArith List Bool Arith.
From LCP Require Import Events.EventsTrace.
Import ListNotations.

(* ====================================================================================== *)
(* Part 1.  Logical statements over traces (what C04 says)                                  *)
(* ====================================================================================== *)

Definition ev_registered (e : event) : list nat := match e with ERegister r _ => [r] | _ => [] end.
Definition ev_cancelled (e : event) : list nat := match e with ECancel r => [r] | _ => [] end.
Definition ev_invoked (e : event) : list nat := match e with EInvoke r => [r] | _ => [] end.
Definition registered (t : trace) : list nat := flat_map ev_registered t.
Definition cancelled (t : trace) : list nat := flat_map ev_cancelled t.
Definition invoked (t : trace) : list nat := flat_map ev_invoked t.

(* registered, and neither cancelled nor already invoked, in the history t *)
Definition live_in (t : trace) (r : nat) : Prop :=
  In r (registered t) /\ ~ In r (cancelled t) /\ ~ In r (invoked t).

Fixpoint kind_of (t : trace) (r : nat) : option kind :=
  match t with
  | [] => None
  | ERegister r' k :: t' => if Nat.eqb r' r then Some k else kind_of t' r
  | _ :: t' => kind_of t' r
  end.

(* the answer of the latest poll in t (EINTR counts as a poll that reported nothing) *)
Fixpoint last_poll_aux (acc : option pollans) (t : trace) : option pollans :=
  match t with
  | [] => acc
  | EPoll _ _ a :: t' => last_poll_aux (Some a) t'
  | _ :: t' => last_poll_aux acc t'
  end.
Definition last_poll (t : trace) : option pollans := last_poll_aux None t.

Fixpoint last_clock_aux (acc : option tv) (t : trace) : option tv :=
  match t with
  | [] => acc
  | EClock c :: t' => last_clock_aux (Some c) t'
  | _ :: t' => last_clock_aux acc t'
  end.
Definition last_clock (t : trace) : option tv := last_clock_aux None t.

(* the clock reading in force when r was registered or last reset: the latest EClock before
   the latest ERegister r / EReset r *)
Fixpoint armed_aux (r : nat) (clk arm : option tv) (t : trace) : option tv :=
  match t with
  | [] => arm
  | EClock c :: t' => armed_aux r (Some c) arm t'
  | ERegister r' _ :: t' => if Nat.eqb r' r then armed_aux r clk clk t' else armed_aux r clk arm t'
  | EReset r' :: t' => if Nat.eqb r' r then armed_aux r clk clk t' else armed_aux r clk arm t'
  | _ :: t' => armed_aux r clk arm t'
  end.
Definition armed_clock (t : trace) (r : nat) : option tv := armed_aux r None None t.

Definition answers (fd : nat) (dir : bool) (l : list (nat * rbits)) : bool :=
  match lookup_fd fd l with Some b => rb_dir b dir | None => false end.
Definition errhup_for (fd : nat) (l : list (nat * rbits)) : bool :=
  match lookup_fd fd l with Some b => rb_errhup b | None => false end.

(* C04-M1 *)
Definition invoke_at_most_once (t : trace) : Prop := NoDup (invoked t).

(* C04-M2: an invocation happens only for a registration that is live at that moment; a
   registration that never succeeded is never invoked; registration ids are fresh *)
Definition invoke_only_while_registered (t : trace) : Prop :=
  NoDup (registered t) /\
  ~ In EInvokeBogus t /\
  forall t1 r t2, t = t1 ++ EInvoke r :: t2 -> live_in t1 r.

(* C04-M2, second half: "a registration that already fired can be made again" - the library
   refuses a descriptor/direction with EEXIST only while a registration for it is live, and
   it never refuses to cancel a live one *)
Definition reregistrable (t : trace) : Prop :=
  (forall t1 fd op t2, t = t1 ++ ERegFailNet fd op EEXIST :: t2 ->
     exists r d, (0 <= fd)%Z /\ op_dir op = Some d /\ live_in t1 r /\
                 kind_of t1 r = Some (KNet (Z.to_nat fd) d)) /\
  (forall t1 fd op e t2 r d, t = t1 ++ ECancelFail fd op e :: t2 ->
     (0 <= fd)%Z -> op_dir op = Some d -> live_in t1 r ->
     kind_of t1 r <> Some (KNet (Z.to_nat fd) d)) /\
  (forall fd op, ~ In (ECancelBogus fd op) t).

(* C04-M3 *)
Definition socket_invoke_justified (t : trace) : Prop :=
  forall t1 r t2 fd dir, t = t1 ++ EInvoke r :: t2 -> kind_of t1 r = Some (KNet fd dir) ->
    (exists ta tb tmo fs l, t1 = ta ++ ERegister r (KNet fd dir) :: tb /\
        In (EPoll tmo fs (PReady l)) tb /\ answers fd dir l = true)
    \/ (exists l, last_poll t1 = Some (PReady l) /\ errhup_for fd l = true).

(* C04-M4 *)
Definition timer_not_early (t : trace) : Prop :=
  forall t1 r t2 tmo, t = t1 ++ EInvoke r :: t2 -> kind_of t1 r = Some (KTimer tmo) ->
    exists now t0, last_clock t1 = Some now /\ armed_clock t1 r = Some t0 /\
                   (us t0 + us tmo <= us now)%N.

Definition C04_holds (t : trace) : Prop :=
  invoke_at_most_once t /\ invoke_only_while_registered t /\ reregistrable t /\
  socket_invoke_justified t /\ timer_not_early t.

(* ====================================================================================== *)
(* Part 2.  The executable checker for C04                                                 *)
(* ====================================================================================== *)

Record reg := { g_rid : nat; g_kind : kind; g_ready : bool; g_due : N }.

Record c4 := {
  c_live : list reg;                       (* live registrations *)
  c_used : list nat;                       (* every id ever registered *)
  c_lastpoll : list (nat * rbits);         (* what the latest poll stored *)
  c_clock : option tv                      (* latest clock reading *)
}.

Definition c4_init : c4 := {| c_live := []; c_used := []; c_lastpoll := []; c_clock := None |}.

Definition find_reg (r : nat) (l : list reg) : option reg := find (fun g => Nat.eqb (g_rid g) r) l.
Definition remove_reg (r : nat) (l : list reg) : list reg :=
  filter (fun g => negb (Nat.eqb (g_rid g) r)) l.
Definition net_live (fd : nat) (dir : bool) (l : list reg) : bool :=
  existsb (fun g => kind_net_eqb (g_kind g) fd dir) l.
Definition mem_nat (r : nat) (l : list nat) : bool := existsb (Nat.eqb r) l.

Definition mark_ready (ans : list (nat * rbits)) (g : reg) : reg :=
  match g_kind g with
  | KNet fd dir =>
    if answers fd dir ans
    then {| g_rid := g_rid g; g_kind := g_kind g; g_ready := true; g_due := g_due g |}
    else g
  | _ => g
  end.

Definition set_due (r : nat) (base : N) (g : reg) : reg :=
  if Nat.eqb (g_rid g) r then
    match g_kind g with
    | KTimer tmo => {| g_rid := g_rid g; g_kind := g_kind g; g_ready := g_ready g;
                       g_due := (base + us tmo)%N |}
    | _ => g
    end
  else g.

Definition net_slot_live (fd op : Z) (l : list reg) : option bool :=
  if (0 <=? fd)%Z then
    match op_dir op with
    | Some d => Some (net_live (Z.to_nat fd) d l)
    | None => None
    end
  else None.

Definition cstep4 (c : c4) (e : event) : option c4 :=
  match e with
  | ERegister r k =>
    if mem_nat r (c_used c) then None else
    let ok := match k with
              | KNet fd dir => negb (net_live fd dir (c_live c))
              | KTimer _ => match c_clock c with Some _ => true | None => false end
              | KImm _ => true
              end in
    if ok then
      let due := match k, c_clock c with KTimer tmo, Some now => (us now + us tmo)%N | _, _ => 0%N end in
      Some {| c_live := {| g_rid := r; g_kind := k; g_ready := false; g_due := due |} :: c_live c;
              c_used := r :: c_used c; c_lastpoll := c_lastpoll c; c_clock := c_clock c |}
    else None
  | ERegFailNet fd op EEXIST =>
    match net_slot_live fd op (c_live c) with
    | Some true => Some c
    | _ => None
    end
  | ECancelFail fd op _ =>
    match net_slot_live fd op (c_live c) with
    | Some true => None
    | _ => Some c
    end
  | ECancelBogus _ _ => None
  | ECancel r =>
    match find_reg r (c_live c) with
    | Some _ => Some {| c_live := remove_reg r (c_live c); c_used := c_used c;
                        c_lastpoll := c_lastpoll c; c_clock := c_clock c |}
    | None => None
    end
  | EReset r =>
    match find_reg r (c_live c), c_clock c with
    | Some g, Some now =>
      if is_timer (g_kind g) then
        Some {| c_live := map (set_due r (us now)) (c_live c); c_used := c_used c;
                c_lastpoll := c_lastpoll c; c_clock := c_clock c |}
      else None
    | _, _ => None
    end
  | EClock t =>
    Some {| c_live := c_live c; c_used := c_used c; c_lastpoll := c_lastpoll c; c_clock := Some t |}
  | EPoll _ _ (PReady l) =>
    Some {| c_live := map (mark_ready l) (c_live c); c_used := c_used c;
            c_lastpoll := l; c_clock := c_clock c |}
  | EPoll _ _ (PEintr _) =>
    Some {| c_live := c_live c; c_used := c_used c; c_lastpoll := []; c_clock := c_clock c |}
  | EInvoke r =>
    match find_reg r (c_live c) with
    | Some g =>
      let ok := match g_kind g with
                | KImm _ => true
                | KNet fd dir => g_ready g || errhup_for fd (c_lastpoll c)
                | KTimer _ => match c_clock c with
                              | Some now => (g_due g <=? us now)%N
                              | None => false
                              end
                end in
      if ok then Some {| c_live := remove_reg r (c_live c); c_used := c_used c;
                         c_lastpoll := c_lastpoll c; c_clock := c_clock c |}
      else None
    | None => None
    end
  | EInvokeBogus => None
  | _ => Some c
  end.

Fixpoint csteps4 (c : c4) (t : trace) : option c4 :=
  match t with
  | [] => Some c
  | e :: t' => match cstep4 c e with Some c' => csteps4 c' t' | None => None end
  end.

Definition check_c04 (t : trace) : bool :=
  match csteps4 c4_init t with Some _ => true | None => false end.

(* ====================================================================================== *)
(* Part 3.  The executable checker for C05 (order, progress, status)                       *)
(* ====================================================================================== *)

Definition INT_MAX : Z := 2147483647.

(* "blocks no longer than until the earliest timer deadline (rounded up to a millisecond)":
   for a remaining distance of d microseconds the poll timeout must be exactly d rounded up to
   whole milliseconds; only when that does not fit the int argument of poll(2) (the distance is
   INT_MAX / 1000 seconds or more) may it be smaller - any value from 0 up to the rounded
   distance, never beyond it (the loop then simply polls again) *)
Definition ceil_ms (d : N) : Z := Z.of_N ((d + 999) / 1000).
Definition timeout_ok (d : N) (t : Z) : bool :=
  if (Z.of_N (d / 1000000) <? INT_MAX / 1000)%Z then Z.eqb t (ceil_ms d)
  else (0 <=? t)%Z && (t <=? ceil_ms d)%Z.

Inductive mode := MOut | MRun | MSpin.
Inductive phase := PhStart | PhFirst (timeout : Z) | PhLoop.
Inductive prev := PvNone | PvClock | PvPoll0 | PvPoll0Clock.

Record c5 := {
  d_imms : list (nat * nat);            (* live immediates (id, prio), oldest first *)
  d_nets : list nat;                    (* live descriptor registrations *)
  d_tmrs : list (nat * (tv * N));       (* live timers: id, (timeout, deadline in us) *)
  d_clock : option tv;
  d_prev : prev;                        (* shape of the immediately preceding events *)
  d_mode : mode;
  d_phase : phase;
  d_drain : bool;                       (* the run started with an immediate pending *)
  d_incb : bool;
  d_intr : bool;                        (* an interrupt request is pending *)
  d_intr_run : bool;                    (* ... or was pending at some point of this run *)
  d_stop : bool;                        (* no further callback may start in this run *)
  d_status : Z;
  d_ninv : nat;
  d_ready_seen : bool                   (* some poll of this run reported something *)
}.

Definition c5_init : c5 :=
  {| d_imms := []; d_nets := []; d_tmrs := []; d_clock := None; d_prev := PvNone; d_mode := MOut;
     d_phase := PhStart; d_drain := false; d_incb := false; d_intr := false; d_intr_run := false;
     d_stop := false; d_status := 0%Z; d_ninv := 0; d_ready_seen := false |}.

(* the immediate that must run next: lowest priority value, oldest among equals *)
Fixpoint imm_best (l : list (nat * nat)) : option (nat * nat) :=
  match l with
  | [] => None
  | (r, p) :: t =>
    match imm_best t with
    | Some (r', p') => if p' <? p then Some (r', p') else Some (r, p)
    | None => Some (r, p)
    end
  end.

Fixpoint min_due (l : list (nat * (tv * N))) : option N :=
  match l with
  | [] => None
  | (_, (_, d)) :: t => match min_due t with Some m => Some (N.min d m) | None => Some d end
  end.

Definition find_imm (r : nat) (l : list (nat * nat)) := find (fun x => Nat.eqb (fst x) r) l.
Definition find_tmr (r : nat) (l : list (nat * (tv * N))) := find (fun x => Nat.eqb (fst x) r) l.
Definition drop_imm (r : nat) (l : list (nat * nat)) := filter (fun x => negb (Nat.eqb (fst x) r)) l.
Definition drop_tmr (r : nat) (l : list (nat * (tv * N))) := filter (fun x => negb (Nat.eqb (fst x) r)) l.
Definition drop_net (r : nat) (l : list nat) := filter (fun x => negb (Nat.eqb x r)) l.

Definition is_nil {A} (l : list A) : bool := match l with [] => true | _ => false end.

Definition upd5 (c : c5) (imms : list (nat * nat)) (nets : list nat) (tmrs : list (nat * (tv * N))) : c5 :=
  {| d_imms := imms; d_nets := nets; d_tmrs := tmrs; d_clock := d_clock c; d_prev := PvNone;
     d_mode := d_mode c; d_phase := d_phase c; d_drain := d_drain c; d_incb := d_incb c;
     d_intr := d_intr c; d_intr_run := d_intr_run c; d_stop := d_stop c; d_status := d_status c;
     d_ninv := d_ninv c; d_ready_seen := d_ready_seen c |}.

Definition same5 (c : c5) : c5 := upd5 c (d_imms c) (d_nets c) (d_tmrs c).

Definition set_tmr_due (r : nat) (base : N) (x : nat * (tv * N)) : nat * (tv * N) :=
  if Nat.eqb (fst x) r then (fst x, (fst (snd x), (base + us (fst (snd x)))%N)) else x.

Definition poll_quiet (timeout : Z) (ans : pollans) : bool :=
  Z.eqb timeout 0 &&
  match ans with PReady [] => true | PEintr true => true | _ => false end.

Definition ans_nonempty (ans : pollans) : bool :=
  match ans with PReady (_ :: _) => true | _ => false end.

Definition fresh_clock (c : c5) : option tv :=
  match d_prev c with
  | PvClock | PvPoll0Clock => d_clock c
  | _ => None
  end.

(* is t acceptable as the timeout of the first poll of a run?  -1 exactly when no timer is
   registered; otherwise judged against the distance from the clock reading taken just before
   to the earliest deadline *)
Definition first_timeout_ok (c : c5) (t : Z) : bool :=
  match min_due (d_tmrs c) with
  | None => Z.eqb t (-1)
  | Some m => match fresh_clock c with
              | Some now => timeout_ok (m - us now) t
              | None => false
              end
  end.

(* Which of the expensive clauses are enforced.  check_c05 enforces all of them (and that is the
   checker the model is proved against, EventsRun5.model_trace_accepted5 holds for every setting
   of the flags); the flags only make it possible to run a part of the checker on its own. *)
Record c5flags := {
  f_tmin : bool;       (* a timer that fires has a minimal deadline *)
  f_quiet : bool;      (* ... and fires only right after a zero-timeout poll that reported nothing *)
  f_timeout : bool;    (* the poll timeouts (first poll of a run, later polls) *)
  f_progress : bool    (* a run that could run something did *)
}.
Definition c5_strict : c5flags := {| f_tmin := true; f_quiet := true; f_timeout := true; f_progress := true |}.
Definition c5_core : c5flags := {| f_tmin := false; f_quiet := false; f_timeout := false; f_progress := false |}.

Definition cstep5 (fl : c5flags) (c : c5) (e : event) : option c5 :=
  match e with
  | ERegister r k =>
    match k with
    | KImm p => Some (upd5 c (d_imms c ++ [(r, p)]) (d_nets c) (d_tmrs c))
    | KNet _ _ => Some (upd5 c (d_imms c) (d_nets c ++ [r]) (d_tmrs c))
    | KTimer tmo =>
      match d_clock c with
      | Some now => Some (upd5 c (d_imms c) (d_nets c) (d_tmrs c ++ [(r, (tmo, (us now + us tmo)%N))]))
      | None => None
      end
    end
  | ECancel r => Some (upd5 c (drop_imm r (d_imms c)) (drop_net r (d_nets c)) (drop_tmr r (d_tmrs c)))
  | EReset r =>
    match d_clock c with
    | Some now => Some (upd5 c (d_imms c) (d_nets c) (map (set_tmr_due r (us now)) (d_tmrs c)))
    | None => None
    end
  | EClock t =>
    Some {| d_imms := d_imms c; d_nets := d_nets c; d_tmrs := d_tmrs c; d_clock := Some t;
            d_prev := match d_prev c with PvPoll0 => PvPoll0Clock | _ => PvClock end;
            d_mode := d_mode c; d_phase := d_phase c; d_drain := d_drain c; d_incb := d_incb c;
            d_intr := d_intr c; d_intr_run := d_intr_run c; d_stop := d_stop c;
            d_status := d_status c; d_ninv := d_ninv c; d_ready_seen := d_ready_seen c |}
  | EPoll timeout _ ans =>
    if d_incb c then None else
    let intr' := match ans with PEintr true => true | _ => d_intr c end in
    let intr_run' := match ans with PEintr true => true | _ => d_intr_run c end in
    let retry := match ans with PEintr false => true | _ => false end in
    let mk (ph : phase) :=
      Some {| d_imms := d_imms c; d_nets := d_nets c; d_tmrs := d_tmrs c; d_clock := d_clock c;
              d_prev := if poll_quiet timeout ans then PvPoll0 else PvNone;
              d_mode := d_mode c; d_phase := ph; d_drain := d_drain c; d_incb := false;
              d_intr := intr'; d_intr_run := intr_run'; d_stop := d_stop c; d_status := d_status c;
              d_ninv := d_ninv c; d_ready_seen := d_ready_seen c || ans_nonempty ans |} in
    match d_mode c with
    | MOut => None
    | MSpin => mk PhLoop
    | MRun =>
      if d_drain c then None else
      let ok := match d_phase c with
                | PhStart => first_timeout_ok c timeout
                | PhFirst want => Z.eqb timeout want
                | PhLoop => Z.eqb timeout 0
                end in
      if negb (f_timeout fl) || ok then
        mk (match d_phase c with
            | PhStart => if retry then PhFirst timeout else PhLoop
            | PhFirst want => if retry then PhFirst want else PhLoop
            | PhLoop => PhLoop
            end)
      else None
    end
  | EInvoke r =>
    if d_incb c || d_stop c then None else
    match d_mode c with
    | MOut => None
    | _ =>
      let fire (imms : list (nat * nat)) (nets : list nat) (tmrs : list (nat * (tv * N))) :=
        Some {| d_imms := imms; d_nets := nets; d_tmrs := tmrs; d_clock := d_clock c; d_prev := PvNone;
                d_mode := d_mode c; d_phase := d_phase c; d_drain := d_drain c; d_incb := true;
                d_intr := d_intr c; d_intr_run := d_intr_run c; d_stop := false;
                d_status := d_status c; d_ninv := S (d_ninv c); d_ready_seen := d_ready_seen c |} in
      match find_imm r (d_imms c) with
      | Some _ =>
        (* an immediate: must be the lowest priority value, oldest first *)
        match imm_best (d_imms c) with
        | Some (r', _) => if Nat.eqb r' r then fire (drop_imm r (d_imms c)) (d_nets c) (d_tmrs c) else None
        | None => None
        end
      | None =>
        if mem_nat r (d_nets c) then
          (* a descriptor: only when no immediate is pending *)
          if is_nil (d_imms c) then fire (d_imms c) (drop_net r (d_nets c)) (d_tmrs c) else None
        else
          match find_tmr r (d_tmrs c), min_due (d_tmrs c) with
          | Some (_, (_, due)), Some m =>
            (* a timer: no immediate pending, the poll just before reported nothing, and no
               live timer has an earlier deadline *)
            if is_nil (d_imms c) && (negb (f_tmin fl) || (due <=? m)%N) &&
               (negb (f_quiet fl) || match d_prev c with PvPoll0Clock => true | _ => false end)
            then fire (d_imms c) (d_nets c) (drop_tmr r (d_tmrs c)) else None
          | _, _ => None
          end
      end
    end
  | ECbEnd rc =>
    if d_incb c then
      let stop := negb (Z.eqb rc 0) || d_intr c in
      Some {| d_imms := d_imms c; d_nets := d_nets c; d_tmrs := d_tmrs c; d_clock := d_clock c;
              d_prev := PvNone; d_mode := d_mode c; d_phase := d_phase c; d_drain := d_drain c;
              d_incb := false; d_intr := d_intr c; d_intr_run := d_intr_run c; d_stop := stop;
              d_status := rc; d_ninv := d_ninv c; d_ready_seen := d_ready_seen c |}
    else None
  | EInterrupt =>
    Some {| d_imms := d_imms c; d_nets := d_nets c; d_tmrs := d_tmrs c; d_clock := d_clock c;
            d_prev := PvNone; d_mode := d_mode c; d_phase := d_phase c; d_drain := d_drain c;
            d_incb := d_incb c; d_intr := true; d_intr_run := true; d_stop := d_stop c;
            d_status := d_status c; d_ninv := d_ninv c; d_ready_seen := d_ready_seen c |}
  | ERunStart | ESpinStart =>
    match d_mode c with
    | MOut =>
      Some {| d_imms := d_imms c; d_nets := d_nets c; d_tmrs := d_tmrs c; d_clock := d_clock c;
              d_prev := PvNone; d_mode := match e with ERunStart => MRun | _ => MSpin end;
              d_phase := PhStart; d_drain := negb (is_nil (d_imms c)); d_incb := false;
              d_intr := d_intr c; d_intr_run := d_intr c; d_stop := false; d_status := 0%Z;
              d_ninv := 0; d_ready_seen := false |}
    | _ => None
    end
  | ERunEnd rc =>
    match d_mode c with
    | MRun =>
      let status_ok := negb (d_incb c) && Z.eqb rc (d_status c) in
      (* progress: a run that started with an immediate pending ran one; a run during which
         a poll reported something, or whose last clock reading had reached the earliest
         deadline, ran a callback - unless an interrupt was requested *)
      let progress_ok :=
        if Nat.eqb (d_ninv c) 0 then
          negb (d_drain c) &&
          (d_intr_run c ||
           (negb (d_ready_seen c) &&
            match min_due (d_tmrs c), d_clock c with
            | Some m, Some now => (us now <? m)%N
            | Some _, None => false
            | None, _ => true
            end))
        else true in
      if status_ok && (negb (f_progress fl) || progress_ok) then
        Some {| d_imms := d_imms c; d_nets := d_nets c; d_tmrs := d_tmrs c; d_clock := d_clock c;
                d_prev := PvNone; d_mode := MOut; d_phase := PhStart; d_drain := false;
                d_incb := false; d_intr := false; d_intr_run := false; d_stop := false;
                d_status := 0%Z; d_ninv := 0; d_ready_seen := false |}
      else None
    | _ => None
    end
  | ESpinEnd rc =>
    match d_mode c with
    | MSpin =>
      if negb (d_incb c) && Z.eqb rc (d_status c) then
        Some {| d_imms := d_imms c; d_nets := d_nets c; d_tmrs := d_tmrs c; d_clock := d_clock c;
                d_prev := PvNone; d_mode := MOut; d_phase := PhStart; d_drain := false;
                d_incb := false; d_intr := false; d_intr_run := false; d_stop := false;
                d_status := 0%Z; d_ninv := 0; d_ready_seen := false |}
      else None
    | _ => None
    end
  | ERegFailImm _ _ | ERegFailNet _ _ _ | ERegFailTimer _ _ | ECancelFail _ _ _
  | ECancelBogus _ _ | EDone | EInvokeBogus => Some (same5 c)
  end.

Fixpoint csteps5 (fl : c5flags) (c : c5) (t : trace) : option c5 :=
  match t with
  | [] => Some c
  | e :: t' => match cstep5 fl c e with Some c' => csteps5 fl c' t' | None => None end
  end.

Definition checks5 (fl : c5flags) (t : trace) : bool :=
  match csteps5 fl c5_init t with Some _ => true | None => false end.

(* the checker that is run on the implementation's trace: every clause *)
Definition check_c05 (t : trace) : bool := checks5 c5_strict t.
(* order of immediates, immediates before descriptors before timers, status and interrupt
   handling, no poll while draining immediates *)
Definition check_c05_core (t : trace) : bool := checks5 c5_core t.

(* ====================================================================================== *)
(* Part 3b.  Logical statements over traces (what C05 says)                                  *)
(* ====================================================================================== *)

(* a pending immediate event with priority p / a registered timer with timeout tmo *)
Definition live_imm (t : trace) (r p : nat) : Prop := live_in t r /\ kind_of t r = Some (KImm p).
Definition live_tmr (t : trace) (r : nat) (tmo : tv) : Prop := live_in t r /\ kind_of t r = Some (KTimer tmo).

(* r was registered before r' *)
Definition reg_before (t : trace) (r r' : nat) : Prop :=
  exists l1 l2, registered t = l1 ++ r' :: l2 /\ In r l1.

(* the absolute deadline (in microseconds) of timer r: the clock reading in force when it was
   registered or last reset, plus its timeout *)
Definition deadline (t : trace) (r : nat) (tmo : tv) (d : N) : Prop :=
  exists t0, armed_clock t r = Some t0 /\ d = (us t0 + us tmo)%N.

(* a poll that made nothing ready *)
Definition quiet_answer (ans : pollans) : Prop := ans = PReady [] \/ ans = PEintr true.

(* C05-M1: whenever a callback starts - a descriptor or timer callback only when no immediate
   event is pending; a timer callback only directly after a zero-timeout poll that made nothing
   ready (followed by the clock reading that shows the timer expired) *)
Definition choice_priority (t : trace) : Prop :=
  forall t1 r t2 k, t = t1 ++ EInvoke r :: t2 -> kind_of t1 r = Some k ->
    (is_imm k = false -> forall r' p, ~ live_imm t1 r' p) /\
    (is_timer k = true ->
       exists t0 fs ans now, t1 = t0 ++ [EPoll 0 fs ans; EClock now] /\ quiet_answer ans).

(* C05-M2: the immediate that runs has the lowest priority value among the pending ones and,
   among those with that value, was registered first *)
Definition immediate_order (t : trace) : Prop :=
  forall t1 r t2 p, t = t1 ++ EInvoke r :: t2 -> kind_of t1 r = Some (KImm p) ->
    forall r' p', live_imm t1 r' p' -> r' <> r -> p < p' \/ (p = p' /\ reg_before t1 r r').

(* C05-M3: the timer that runs has the earliest deadline among the registered timers *)
Definition timer_order (t : trace) : Prop :=
  forall t1 r t2 tmo, t = t1 ++ EInvoke r :: t2 -> kind_of t1 r = Some (KTimer tmo) ->
    forall r' tmo', live_tmr t1 r' tmo' ->
      exists d d', deadline t1 r tmo d /\ deadline t1 r' tmo' d' /\ (d <= d')%N.

(* ---- one call of events_run (spin = false) or events_spin (spin = true): the events between
   its start and its end *)
Definition run_event (e : event) : bool :=
  match e with ERunStart | ERunEnd _ | ESpinStart | ESpinEnd _ => true | _ => false end.
Definition is_poll (e : event) : bool := match e with EPoll _ _ _ => true | _ => false end.
Definition is_invoke (e : event) : bool := match e with EInvoke _ => true | _ => false end.

Definition is_call (spin : bool) (t t1 body : trace) (rc : Z) (t2 : trace) : Prop :=
  t = t1 ++ (if spin then ESpinStart else ERunStart) :: body ++ (if spin then ESpinEnd rc else ERunEnd rc) :: t2 /\
  forallb (fun e => negb (run_event e)) body = true.

(* an interrupt request (events_interrupt, also from a signal handler during poll) is pending:
   made since the last return of events_run / events_spin *)
Fixpoint intr_aux (acc : bool) (t : trace) : bool :=
  match t with
  | [] => acc
  | EInterrupt :: t' => intr_aux true t'
  | EPoll _ _ (PEintr true) :: t' => intr_aux true t'
  | ERunEnd _ :: t' | ESpinEnd _ :: t' => intr_aux false t'
  | _ :: t' => intr_aux acc t'
  end.
Definition intr_pending (t : trace) : bool := intr_aux false t.

(* the result of the latest callback that returned (0 when none did) *)
Fixpoint last_rc (acc : Z) (body : trace) : Z :=
  match body with
  | [] => acc
  | ECbEnd rc :: b => last_rc rc b
  | _ :: b => last_rc acc b
  end.

(* m is the earliest deadline among the registered timers / there is no timer *)
Definition min_deadline (t : trace) (m : N) : Prop :=
  (exists r tmo, live_tmr t r tmo /\ deadline t r tmo m) /\
  (forall r tmo d, live_tmr t r tmo -> deadline t r tmo d -> (m <= d)%N).
Definition no_timer (t : trace) : Prop := forall r tmo, ~ live_tmr t r tmo.

(* C05-M4a: events_run called with an immediate event pending runs at least one callback and
   does not poll at all *)
Definition progress_immediate (t : trace) : Prop :=
  forall t1 body rc t2, is_call false t t1 body rc t2 -> (exists r p, live_imm t1 r p) ->
    existsb is_invoke body = true /\ existsb is_poll body = false.

(* C05-M4b: the first poll of events_run blocks indefinitely only when no timer is registered;
   otherwise its timeout is the distance from the clock reading taken just before to the earliest
   deadline, rounded up to a millisecond (timeout_ok: exactly, unless that does not fit an int) *)
Definition blocking_bound (t : trace) : Prop :=
  forall t1 body rc t2 b1 tmo fs ans b2, is_call false t t1 body rc t2 ->
    body = b1 ++ EPoll tmo fs ans :: b2 -> existsb is_poll b1 = false ->
    let h := t1 ++ ERunStart :: b1 in
    (no_timer h /\ tmo = (-1)%Z) \/
    (exists m b0 now, min_deadline h m /\ b1 = b0 ++ [EClock now] /\ timeout_ok (m - us now) tmo = true).

(* ... and every later poll of the same events_run does not block (timeout 0), unless it repeats
   a poll that was interrupted by a signal (EINTR without an interrupt request) *)
Definition later_polls (t : trace) : Prop :=
  forall t1 body rc t2 b1 tmo fs ans b2, is_call false t t1 body rc t2 ->
    body = b1 ++ EPoll tmo fs ans :: b2 -> existsb is_poll b1 = true ->
    tmo = 0%Z \/
    (forall e, In e b1 -> is_poll e = true -> exists fs', e = EPoll tmo fs' (PEintr false)).

(* C05-M4c: an events_run that returns without having run any callback had no immediate pending
   when it started, and - unless an interrupt was requested - no poll of it reported anything
   and the latest clock reading is before the earliest deadline (or no timer is registered) *)
Definition wake_runs (t : trace) : Prop :=
  forall t1 body rc t2, is_call false t t1 body rc t2 -> existsb is_invoke body = false ->
    let h := t1 ++ ERunStart :: body in
    (forall r p, ~ live_imm t1 r p) /\
    (intr_pending h = true \/
     ((forall tmo fs l, In (EPoll tmo fs (PReady l)) body -> l = []) /\
      (no_timer h \/ exists m now, min_deadline h m /\ last_clock h = Some now /\ (us now < m)%N))).

(* C05-M5: events_run / events_spin return the result of the latest callback (0 if none ran) *)
Definition status_returned (t : trace) : Prop :=
  forall spin t1 body rc t2, is_call spin t t1 body rc t2 -> rc = last_rc 0 body.

(* ... and once a callback has returned non-zero, or has returned while an interrupt request was
   pending, no further callback starts in that call *)
Definition stops_dispatch (t : trace) : Prop :=
  forall spin t1 body rc t2 b1 rc1 b2, is_call spin t t1 body rc t2 -> body = b1 ++ ECbEnd rc1 :: b2 ->
    (rc1 <> 0%Z \/ intr_pending (t1 ++ (if spin then ESpinStart else ERunStart) :: b1) = true) ->
    existsb is_invoke b2 = false.

Definition C05_holds (t : trace) : Prop :=
  choice_priority t /\ immediate_order t /\ timer_order t /\
  progress_immediate t /\ blocking_bound t /\ later_polls t /\ wake_runs t /\
  status_returned t /\ stops_dispatch t.

(* ====================================================================================== *)
(* Part 4.  C14 (registrations): what a refused allocation inside a register call must     *)
(* look like to the client.  The driver's programs retry the same call immediately.        *)
(* ====================================================================================== *)

(* every registration that failed with ENOMEM is followed at once by the successful retry of
   the same registration (for a timer the retry first reads the clock) *)
Fixpoint check_retry (t : trace) : bool :=
  match t with
  | [] => true
  | ERegFailImm p ENOMEM :: t' =>
    match t' with
    | ERegister _ (KImm p') :: _ => Nat.eqb p p' && check_retry t'
    | _ => false
    end
  | ERegFailNet fd op ENOMEM :: t' =>
    match t' with
    | ERegister _ (KNet fd' d') :: _ =>
      Z.eqb fd (Z.of_nat fd') && match op_dir op with Some d => Bool.eqb d d' | None => false end &&
      check_retry t'
    | ERegFailNet fd' op' E0 :: _ =>
      (* the retry of a call with an invalid descriptor or direction is refused for that reason *)
      Z.eqb fd fd' && Z.eqb op op' &&
      ((fd <? 0)%Z || match op_dir op with None => true | Some _ => false end) && check_retry t'
    | _ => false
    end
  | ERegFailTimer tm ENOMEM :: t' =>
    match t' with
    | EClock _ :: ERegister _ (KTimer tm') :: _ =>
      N.eqb (fst tm) (fst tm') && N.eqb (snd tm) (snd tm') && check_retry t'
    | _ => false
    end
  | _ :: t' => check_retry t'
  end.

(* the C14 reading for event registrations: failure reported, the failed registration is never
   invoked and leaves nothing registered (check_c04: no bogus invocation, no EEXIST without a
   live registration), and the same registration can be made again *)
Definition check_c14_events (t : trace) : bool := check_c04 t && check_retry t.
