(* C05, spec side: what the lists kept by the C05 checker mean in terms of the trace.  For a
   history t accepted by both checkers, the C04 checker state x4 satisfies J t x4
   (EventsSpecProofs.v) and the C05 checker state c is its projection (R45, EventsOrder.v); the
   lemmas below restate the membership of c's lists with live_in / kind_of / armed_clock. *)
From Coq Require Import NArith ZArith List Bool Arith Lia.
From LCP Require Import Events.EventsTrace Events.EventsSpec Events.EventsSpecProofs Events.EventsOrder.
Import ListNotations.

Lemma csteps4_split c t1 t2 c' :
  csteps4 c (t1 ++ t2) = Some c' -> exists c1, csteps4 c t1 = Some c1 /\ csteps4 c1 t2 = Some c'.
Proof.
  revert c. induction t1 as [|e t1 IH]; intros c H; simpl in *; [eauto|].
  destruct (cstep4 c e); [apply IH; exact H | discriminate].
Qed.

Lemma csteps5_split fl c t1 t2 c' :
  csteps5 fl c (t1 ++ t2) = Some c' -> exists c1, csteps5 fl c t1 = Some c1 /\ csteps5 fl c1 t2 = Some c'.
Proof.
  revert c. induction t1 as [|e t1 IH]; intros c H; simpl in *; [eauto|].
  destruct (cstep5 fl c e); [apply IH; exact H | discriminate].
Qed.

(* both checkers accept t1 ++ t2: their states after t1 *)
Record Both (fl : c5flags) (t1 t2 : trace) (x4 : c4) (c : c5) : Prop := {
  b_c4 : csteps4 c4_init t1 = Some x4;
  b_c5 : csteps5 fl c5_init t1 = Some c;
  b_J : J t1 x4;
  b_R : R45 x4 c;
  b_rest4 : exists y4, csteps4 x4 t2 = Some y4;
  b_rest5 : exists c', csteps5 fl c t2 = Some c'
}.

Lemma both_prefix fl t1 t2 :
  check_c04 (t1 ++ t2) = true -> checks5 fl (t1 ++ t2) = true -> exists x4 c, Both fl t1 t2 x4 c.
Proof.
  unfold check_c04, checks5. intros H4 H5.
  destruct (csteps4 c4_init (t1 ++ t2)) as [y4|] eqn:E4; [|discriminate].
  destruct (csteps5 fl c5_init (t1 ++ t2)) as [c'|] eqn:E5; [|discriminate].
  destruct (csteps4_split _ _ _ _ E4) as [x4 [A4 B4]].
  destruct (csteps5_split _ _ _ _ _ E5) as [c [A5 B5]].
  exists x4, c. constructor; eauto.
  - apply (J_steps [] c4_init t1 x4 J_init A4).
  - eapply R45_of_trace; eauto.
Qed.

Section Bridge.
  Variables (t : trace) (x4 : c4) (c : c5).
  Hypothesis HJ : J t x4.
  Hypothesis HR : R45 x4 c.

  Lemma live_reg r : live_in t r -> exists g, In g (c_live x4) /\ g_rid g = r /\ kind_of t r = Some (g_kind g).
  Proof.
    intros H. apply (j_live t x4 HJ) in H. destruct H as [g [Hg Er]]. exists g. split; [exact Hg|].
    split; [exact Er|]. rewrite <- Er. apply (j_kind t x4 HJ). exact Hg.
  Qed.

  Lemma reg_live g : In g (c_live x4) -> live_in t (g_rid g) /\ kind_of t (g_rid g) = Some (g_kind g).
  Proof.
    intros Hg. split; [apply (j_live t x4 HJ); exists g; auto | apply (j_kind t x4 HJ); exact Hg].
  Qed.

  Lemma bridge_imm r p : In (r, p) (d_imms c) <-> live_imm t r p.
  Proof.
    rewrite (r_imms _ _ HR). rewrite in_imm_of. simpl. split.
    - intros [g [Hg [Er Ek]]]. apply in_rev in Hg. destruct (reg_live g Hg) as [A B].
      split; [rewrite <- Er; exact A | rewrite <- Er, B, Ek; reflexivity].
    - intros [Hl Hk]. destruct (live_reg r Hl) as [g [Hg [Er Ek]]]. exists g.
      split; [apply in_rev; rewrite rev_involutive; exact Hg|]. split; [exact Er | congruence].
  Qed.

  Lemma bridge_imm_nil : d_imms c = [] <-> (forall r p, ~ live_imm t r p).
  Proof.
    split.
    - intros E r p H. apply bridge_imm in H. rewrite E in H. destruct H.
    - intros H. destruct (d_imms c) as [|[r p] l] eqn:E; [reflexivity|]. exfalso.
      apply (H r p). apply bridge_imm. rewrite E. left. reflexivity.
  Qed.

  Lemma bridge_net r : In r (d_nets c) <-> live_in t r /\ exists fd dir, kind_of t r = Some (KNet fd dir).
  Proof.
    rewrite (r_nets _ _ HR). rewrite in_net_of. split.
    - intros [g [fd [dir [Hg [Er Ek]]]]]. apply in_rev in Hg. destruct (reg_live g Hg) as [A B].
      split; [rewrite <- Er; exact A|]. exists fd, dir. rewrite <- Er, B, Ek. reflexivity.
    - intros [Hl [fd [dir Hk]]]. destruct (live_reg r Hl) as [g [Hg [Er Ek]]]. exists g, fd, dir.
      split; [apply in_rev; rewrite rev_involutive; exact Hg|]. split; [exact Er | congruence].
  Qed.

  Lemma deadline_fun r tmo d d' : deadline t r tmo d -> deadline t r tmo d' -> d = d'.
  Proof. intros [t0 [A ->]] [t0' [A' ->]]. congruence. Qed.

  Lemma bridge_tmr r tmo d : In (r, (tmo, d)) (d_tmrs c) <-> live_tmr t r tmo /\ deadline t r tmo d.
  Proof.
    rewrite (r_tmrs _ _ HR). rewrite in_tmr_of. simpl. split.
    - intros [g [Hg [Er [Ek Ed]]]]. apply in_rev in Hg. destruct (reg_live g Hg) as [A B].
      destruct (j_due t x4 HJ g tmo Hg Ek) as [t0 [C D]].
      split; [split; [rewrite <- Er; exact A | rewrite <- Er, B, Ek; reflexivity]|].
      exists t0. split; [rewrite <- Er; exact C | congruence].
    - intros [[Hl Hk] [t0 [Ha Hd]]]. destruct (live_reg r Hl) as [g [Hg [Er Ek]]]. exists g.
      split; [apply in_rev; rewrite rev_involutive; exact Hg|]. split; [exact Er|].
      assert (K : g_kind g = KTimer tmo) by congruence. split; [exact K|].
      destruct (j_due t x4 HJ g tmo Hg K) as [t0' [C D]]. rewrite Er in C. congruence.
  Qed.

  Lemma bridge_tmr_nil : d_tmrs c = [] <-> no_timer t.
  Proof.
    split.
    - intros E r tmo H. destruct (live_reg r (proj1 H)) as [g [Hg [Er Ek]]].
      assert (K : g_kind g = KTimer tmo) by (destruct H; congruence).
      destruct (j_due t x4 HJ g tmo Hg K) as [t0 [C D]].
      assert (In (r, (tmo, (us t0 + us tmo)%N)) (d_tmrs c)).
      { apply bridge_tmr. split; [exact H|]. exists t0. split; [rewrite <- Er; exact C | reflexivity]. }
      rewrite E in H0. destruct H0.
    - intros H. destruct (d_tmrs c) as [|[r [tmo d]] l] eqn:E; [reflexivity|]. exfalso.
      apply (H r tmo). apply (bridge_tmr r tmo d). rewrite E. left. reflexivity.
  Qed.

  Lemma bridge_clock : d_clock c = last_clock t.
  Proof. rewrite (r_clock _ _ HR). apply (j_clock t x4 HJ). Qed.

  (* registration ids are not shared between entries *)
  Lemma bridge_imm_fun r p p' : In (r, p) (d_imms c) -> In (r, p') (d_imms c) -> p = p'.
  Proof. intros A B. apply bridge_imm in A. apply bridge_imm in B. destruct A as [_ A], B as [_ B]. congruence. Qed.

  Lemma bridge_tmr_fun r tmo d tmo' d' :
    In (r, (tmo, d)) (d_tmrs c) -> In (r, (tmo', d')) (d_tmrs c) -> tmo = tmo' /\ d = d'.
  Proof.
    intros A B. apply bridge_tmr in A. apply bridge_tmr in B. destruct A as [[_ A] A'], B as [[_ B] B'].
    assert (tmo = tmo') by congruence. subst tmo'. split; [reflexivity | eapply deadline_fun; eauto].
  Qed.

  (* the earliest deadline *)
  Lemma bridge_min_due m : min_due (d_tmrs c) = Some m -> min_deadline t m.
  Proof.
    intros H. split.
    - assert (X : exists y, In y (d_tmrs c) /\ snd (snd y) = m).
      { revert m H. induction (d_tmrs c) as [|[r [tm d]] rest IH]; intros m H; [discriminate|].
        simpl in H. destruct (min_due rest) as [m'|] eqn:E.
        - inversion H; subst m. destruct (N.min_spec d m') as [[_ ->] | [_ ->]].
          + exists (r, (tm, d)). split; [left; reflexivity | reflexivity].
          + destruct (IH m' eq_refl) as [y [Hy Ey]]. exists y. split; [right; exact Hy | exact Ey].
        - inversion H; subst m. exists (r, (tm, d)). split; [left; reflexivity | reflexivity]. }
      destruct X as [[r [tmo d]] [Hy Ey]]. simpl in Ey. subst d. exists r, tmo. apply bridge_tmr. exact Hy.
    - intros r tmo d Hl Hd. assert (Hin : In (r, (tmo, d)) (d_tmrs c)) by (apply bridge_tmr; auto).
      revert m H Hin. induction (d_tmrs c) as [|[r0 [tm0 d0]] rest IH]; intros m H Hin; [destruct Hin|].
      simpl in H. destruct (min_due rest) as [m'|] eqn:E.
      + inversion H; subst m. destruct Hin as [X | X]; [inversion X; subst; lia|].
        specialize (IH m' eq_refl X). lia.
      + inversion H; subst m. destruct Hin as [X | X]; [inversion X; subst; lia|].
        destruct rest as [|[? [? ?]] ?]; [destruct X | simpl in E; destruct (min_due rest); discriminate].
  Qed.
End Bridge.
