(* C14 (network / netbuf part): a refused allocation is reported and changes nothing.
   Only statements, each closed by [exact], with Print Assumptions.
   partial: the theorems cover the request constructors and netbuf_write_reserve / netbuf_read_wait
   at the level of the models (which take the outcome of each allocation / registration as an
   input); allocation failure INSIDE callbacks and leak accounting through the whole I/O stack
   (DESIGN C14-G5) rest on the driver-level exploration of every failure index
   (areas/net.py check_net_allocfail, ASan + LeakSanitizer). *)
From Coq Require Import NArith ZArith List Bool Arith.
From LCP Require Import Base.CheckedMem Gen.Repo_net Net.NetRW Net.NetAccept Net.NetbufRead Net.NetbufWrite.
From LCP Require Import Net.NetbufReadProofs Net.NetbufWriteProofs Net.NetTie.
Import ListNotations.
Local Open Scope nat_scope.

(* network_read / network_write / network_accept: when the cookie allocation or the registration
   is refused, NULL is returned and no request exists (nothing registered, nothing to cancel) *)
Theorem C14_network_read_alloc_failure : forall buf buflen min cookie_ok reg_ok,
  0 < buflen -> cookie_ok && reg_ok = false ->
  network_read buf buflen min cookie_ok reg_ok = Ok None.
Proof.
  exact (fun buf buflen min c r H E =>
    match buflen as b return 0 < b -> network_read buf b min c r = Ok None with
    | 0 => fun H0 => match PeanoNat.Nat.lt_irrefl 0 H0 with end
    | S n => fun _ =>
      match c as c', r as r' return c' && r' = false -> network_read buf (S n) min c' r' = Ok None with
      | true, true => fun E0 => match Bool.diff_true_false E0 with end
      | true, false => fun _ => eq_refl
      | false, _ => fun _ => eq_refl
      end E
    end H).
Qed.
Print Assumptions C14_network_read_alloc_failure.

Theorem C14_network_accept_alloc_failure : forall cookie_ok reg_ok,
  network_accept cookie_ok reg_ok = cookie_ok && reg_ok.
Proof. exact (fun _ _ => eq_refl). Qed.
Print Assumptions C14_network_accept_alloc_failure.

(* netbuf_write_reserve_flag (F6, repaired): a refused allocation leaves the writer exactly as it
   was - in particular reserved = 0 - so no later assert(W->reserved == 0) can fire *)
Theorem C14_reserve_failure_leaves_writer_unchanged : forall W len a1 a2 W',
  winv W -> w_reserved W = false ->
  reserve (N.to_nat WBUFLEN) W len a1 a2 = Ok (W', false) -> W' = W.
Proof. exact (reserve_failure_clean_lemma (N.to_nat WBUFLEN)). Qed.
Print Assumptions C14_reserve_failure_leaves_writer_unchanged.

(* regression: the function as it was before the repair leaves reserved = 1 and the completion
   of the write in flight then aborts *)
Theorem C14_old_reserve_failure_then_abort :
  let W1 := mkW false false [] true (Some (mkWB [65%N] 4096)) in
  exists W2, reserve_old 4096 W1 1 false true = Ok (W2, false) /\ w_reserved W2 = true /\
             writbuf W2 1%Z true = AssertFail.
Proof. exact old_reserve_failure_then_abort. Qed.
Print Assumptions C14_old_reserve_failure_then_abort.

(* netbuf_read_wait with any refused allocation / registration: returns (-1 is [None]) with the
   window invariant intact, nothing pending, and the application's view unchanged - the same
   wait can be made again *)
Theorem C14_reader_wait_failure_clean : forall R k o,
  rinv R -> r_reading R = false -> r_imm R = false ->
  exists R' a, nbr_wait (N.to_nat RBUF_GROW) R k o = Ok (R', a) /\ rinv R' /\ view R' = view R /\
               act_ok R' k a.
Proof. exact (wait_ok_lemma (N.to_nat RBUF_GROW)). Qed.
Print Assumptions C14_reader_wait_failure_clean.
