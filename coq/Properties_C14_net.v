(* C14 (network / netbuf part): a refused allocation is reported and changes nothing.
   Only statements, each closed by [exact], with Print Assumptions.
   partial: the theorems cover netbuf_write_reserve / netbuf_read_wait at the level of the models
   (which take the outcome of each allocation / registration as an input); allocation failure
   INSIDE callbacks and leak accounting through the whole I/O stack (DESIGN C14-G5) rest on the
   driver-level exploration of every failure index (areas/net.py check_net_allocfail, ASan +
   LeakSanitizer).
   The two statements about the request constructors network_read / network_accept
   (..._model_definition) only restate how the MODEL of these functions is defined: the model has no
   allocator and no registration table, so "the cookie is freed again, nothing is left registered"
   is not expressible in it.  For these functions the property is DECIDED by check_net_allocfail:
   the k-th library allocation is refused for every k, LeakSanitizer gives a verdict per case (the
   cookie taken from the pool is returned), "nfds=0" after cleanup says nothing stayed registered,
   and the retried call must reproduce the baseline run. *)
From Coq Require Import NArith ZArith List Bool Arith.
From LCP Require Import Base.CheckedMem Gen.Repo_net Net.NetRW Net.NetAccept Net.NetbufRead Net.NetbufWrite.
From LCP Require Import Net.NetbufReadProofs Net.NetbufWriteProofs Net.NetTie.
Import ListNotations.
Local Open Scope nat_scope.

(* network_read / network_write / network_accept AS MODELLED: when the cookie allocation or the
   registration is refused the model function returns "no request" (NULL).  Definitions, see header. *)
Theorem C14_network_read_alloc_failure_model_definition : forall buf buflen min cookie_ok reg_ok,
  0 < buflen -> cookie_ok && reg_ok = false ->
  network_read buf buflen min cookie_ok reg_ok = Ok None.
Proof.
  exact (fun buf buflen min c r H E =>
    match buflen as b return 0 < b -> network_read buf b min c r = Ok None with
    | 0 => fun H0 => match PeanoNat.Nat.lt_irrefl 0 H0 with end
    | S n => fun _ =>
      match c as c', r as r' return c' && r' = false -> network_read buf (S n) min c' r' = Ok None with
      | true, true => fun E0 => match Bool.diff_true_false E0 with end
      | true, false => fun _ => eq_refl
      | false, _ => fun _ => eq_refl
      end E
    end H).
Qed.
Print Assumptions C14_network_read_alloc_failure_model_definition.

Theorem C14_network_accept_alloc_failure_model_definition : forall cookie_ok reg_ok,
  network_accept cookie_ok reg_ok = cookie_ok && reg_ok.
Proof. exact (fun _ _ => eq_refl). Qed.
Print Assumptions C14_network_accept_alloc_failure_model_definition.

(* netbuf_write_reserve_flag (F6, repaired): a refused allocation leaves the writer exactly as it
   was - in particular reserved = 0 - so no later assert(W->reserved == 0) can fire *)
Theorem C14_reserve_failure_leaves_writer_unchanged : forall W len a1 a2 W',
  winv W -> w_reserved W = false ->
  reserve (N.to_nat WBUFLEN) W len a1 a2 = Ok (W', false) -> W' = W.
Proof. exact (reserve_failure_clean_lemma (N.to_nat WBUFLEN)). Qed.
Print Assumptions C14_reserve_failure_leaves_writer_unchanged.

(* regression: the function as it was before the repair leaves reserved = 1 and the completion
   of the write in flight then aborts *)
Theorem C14_old_reserve_failure_then_abort :
  let W1 := mkW false false [] true (Some (mkWB [65%N] 4096)) in
  exists W2, reserve_old 4096 W1 1 false true = Ok (W2, false) /\ w_reserved W2 = true /\
             writbuf W2 1%Z true = AssertFail.
Proof. exact old_reserve_failure_then_abort. Qed.
Print Assumptions C14_old_reserve_failure_then_abort.

(* netbuf_read_wait(R, k) with refused allocations / registrations.  [wait_refused R k o]: the call
   needs the immediate event and events_immediate_register is refused, or it needs more bytes and
   either the buffer must grow (buflen < k) and malloc is refused, or network_read is refused.
   The call returns -1 (a = None) EXACTLY in these cases, and then the reader is as before for the
   application: window invariant intact, same bytes visible, nothing pending (neither a read nor
   an immediate event) - the same wait can be made again.  (A successful resize / compaction that
   precedes a refused network_read changes the block, not the view.) *)
Theorem C14_reader_wait_failure_clean : forall R k o R' a,
  rinv R -> r_reading R = false -> r_imm R = false ->
  nbr_wait (N.to_nat RBUF_GROW) R k o = Ok (R', a) ->
  (wait_refused R k o <-> a = None) /\
  (a = None -> rinv R' /\ view R' = view R /\ r_reading R' = false /\ r_imm R' = false).
Proof. exact (wait_failure_lemma (N.to_nat RBUF_GROW)). Qed.
Print Assumptions C14_reader_wait_failure_clean.

(* ... and the call itself never faults or asserts, whatever is refused (totality) *)
Theorem C14_reader_wait_total : forall R k o,
  rinv R -> r_reading R = false -> r_imm R = false ->
  exists R' a, nbr_wait (N.to_nat RBUF_GROW) R k o = Ok (R', a) /\ rinv R' /\ view R' = view R /\
               act_ok R' k a.
Proof. exact (wait_ok_lemma (N.to_nat RBUF_GROW)). Qed.
Print Assumptions C14_reader_wait_total.
