(* C15 (number and size parsers): on EVERY NUL-terminated byte string the models of PARSENUM_EX,
   parsenum_float's wrapper and humansize_parse finish with an [Ok] - every character was fetched
   through the checked read [rd] from a buffer that ends at the terminator, so no read is outside the
   string, no assert fires, the loops terminate - and accepted values are inside the documented range.
   Only statements, each closed by [exact], with Print Assumptions. *)
From Coq Require Import NArith ZArith List.
From LCP Require Import Base.CheckedMem Util.ParsenumSpec Util.Strto Util.Parsenum Util.ParsenumProofs Util.Humansize Util.HumansizeSpec Util.HumansizeProofs.
Import ListNotations.
Local Open Scope Z_scope.

Theorem C15_parsenum_unsigned_safe :
  forall w min max base trailing s sd,
    width_ok w -> IMIN <= min <= UMAX -> IMIN <= max <= UMAX -> base_ok base ->
    bytes_ok s -> no_nul s ->
    exists o, parsenum_ex6 {| ck := KUnsigned; cw := w |} (cstr s) min max base trailing sd = Ok o /\
              forall v, presult_of o = OkV v -> Z.max min 0 <= v <= Z.min max (2 ^ w - 1).
Proof. exact parsenum_unsigned_safe_proof. Qed.
Print Assumptions C15_parsenum_unsigned_safe.

Theorem C15_parsenum_signed_safe :
  forall w min max base trailing s sd,
    width_ok w ->
    typemin KSigned w <= min <= typemax KSigned w -> typemin KSigned w <= max <= typemax KSigned w ->
    base_ok base -> bytes_ok s -> no_nul s ->
    exists o, parsenum_ex6 {| ck := KSigned; cw := w |} (cstr s) min max base trailing sd = Ok o /\
              forall v, presult_of o = OkV v -> min <= v <= max.
Proof. exact parsenum_signed_safe_proof. Qed.
Print Assumptions C15_parsenum_signed_safe.

(* the wrapper around strtod reads at most the one character strtod's end pointer designates *)
Theorem C15_parsenum_float_safe :
  forall s sd trailing, no_nul s -> (sd_consumed sd <= length s)%nat ->
    parsenum_float_m (cstr s) sd trailing = Ok (float_spec s sd trailing).
Proof. exact parsenum_float_run. Qed.
Print Assumptions C15_parsenum_float_safe.

(* humansize_parse: the "state != -1 && *s" short-circuit keeps it inside the string *)
Theorem C15_humansize_parse_safe :
  forall s, bytes_ok s -> no_nul s ->
    exists rc size, humansize_parse_repo (cstr s) = Ok (rc, size) /\ (rc = 0 \/ rc = -1) /\
                    (rc = 0 -> 0 <= size < 2 ^ 64).
Proof. exact humansize_parse_safe_proof. Qed.
Print Assumptions C15_humansize_parse_safe.
