(* C17 (hex part) and C15 (unhexify reads only its input string).
   This file contains only statements, each closed by [exact], with Print Assumptions. *)
From Coq Require Import NArith List.
From LCP Require Import Base.CheckedMem Gen.Repo_codec Util.Hex Util.HexProofs Util.HexRaw.
Import ListNotations.

(* hexify with the table now in util/hexify.c writes the lowercase hex spec plus a NUL *)
Theorem C17_hexify_is_lowercase_hex :
  forall bs, bytes_ok bs -> hexify_m hexchars bs = Ok (hex_spec bs ++ [0%N]).
Proof. exact hexify_correct. Qed.
Print Assumptions C17_hexify_is_lowercase_hex.

(* on every NUL-terminated string and every len, unhexify equals the spec decoder:
   never a Fault (no read past the terminator), accepts iff 2*len hex digits, right bytes *)
Theorem C17_unhexify_exact :
  forall s len, bytes_ok s -> unhexify_m hexchars (cstr s) len = Ok (unhex_spec s len).
Proof. exact unhexify_correct. Qed.
Print Assumptions C17_unhexify_exact.

Theorem C17_unhex_accepts_exactly_hex :
  forall s len, (exists out, unhex_spec s len = Some out) <->
    ((2 * len <= length s)%nat /\ forallb is_hexdigit (firstn (2 * len) s) = true).
Proof. exact unhex_spec_accepts_iff. Qed.
Print Assumptions C17_unhex_accepts_exactly_hex.

Theorem C17_unhexify_inverts_hexify :
  forall bs, bytes_ok bs ->
  exists enc, hexify_m hexchars bs = Ok (cstr enc) /\
              unhexify_m hexchars (cstr enc) (length bs) = Ok (Some bs).
Proof. exact unhexify_hexify. Qed.
Print Assumptions C17_unhexify_inverts_hexify.

(* C15: on a raw block WITHOUT a terminator that holds at least 2*len bytes, unhexify equals the
   spec decoder and never faults: it looks at the first 2*len bytes only (a read at in[2*len] of a
   block of exactly 2*len bytes would be a Fault) *)
Theorem C15_unhexify_reads_only_2len :
  forall buf len, bytes_ok buf -> (2 * len <= length buf)%nat ->
  unhexify_m hexchars buf len = Ok (unhex_spec buf len).
Proof. exact unhexify_raw_block. Qed.
Print Assumptions C15_unhexify_reads_only_2len.
