(* C09 for the model of http.c, response side: a rendered well-formed response (HttpSpec.render) is
   decoded to exactly HttpSpec.expect - whatever the segmentation of its bytes, however many 1xx
   responses precede it, for each of the three body framings and for bodiless responses.

   The proof is a simulation: [sim h ph S] relates the request state in callback phase [ph] to the
   not yet consumed rest [S] of the rendered stream (= the reader's window followed by what the
   network has still to deliver); every callback step keeps it ([step_sim]) and the only callback
   that can be made is [expect r]. *)
From Coq Require Import Arith NArith ZArith List Bool Lia.
From LCP Require Import Base.CheckedMem Gen.Repo_http Http.HttpStrto Http.HttpModel Http.HttpSpec
  Http.HttpLemmas Http.HttpSafe Http.HttpNum Http.HttpDecode Http.HttpStream.
Import ListNotations.
Local Open Scope N_scope.
Local Open Scope res_scope.

Ltac Zify.zify_post_hook ::= Z.div_mod_to_equations.

(* ------------------------------------------------------------------ small list facts *)
Lemma list_eqb_refl a : list_eqb a a = true.
Proof. induction a as [|x a IH]; [reflexivity|]. cbn [list_eqb]. rewrite N.eqb_refl, IH. reflexivity. Qed.

Lemma in_insert_at {A} (x : A) : forall pos l g, In g (insert_at pos x l) -> g = x \/ In g l.
Proof.
  induction pos as [|p IH]; intros l g H.
  - destruct H as [<- | H]; [left; reflexivity | right; exact H].
  - destruct l as [|y t].
    + destruct H as [<- | []]. left. reflexivity.
    + destruct H as [<- | H]; [right; left; reflexivity|].
      destruct (IH t g H) as [-> | H']; [left; reflexivity | right; right; exact H'].
Qed.

Lemma forallb_insert_at {A} (P : A -> bool) x : forall pos l,
  P x = true -> forallb P l = true -> forallb P (insert_at pos x l) = true.
Proof.
  intros pos l Hx Hl. apply forallb_forall. intros g Hg.
  destruct (in_insert_at x pos l g Hg) as [-> | H]; [exact Hx|].
  rewrite forallb_forall in Hl. apply Hl. exact H.
Qed.

Lemma findheader_none fs name :
  (forall g, In g fs -> list_eqb (f_name g) name = false) -> findheader (map nv fs) name = None.
Proof.
  induction fs as [|f fs IH]; intros H; [reflexivity|].
  cbn [map findheader nv]. unfold nv at 1. rewrite (H f) by (left; reflexivity).
  apply IH. intros g Hg. apply H. right. exact Hg.
Qed.

Lemma findheader_insert f name : f_name f = name -> forall pos fs,
  (forall g, In g fs -> list_eqb (f_name g) name = false) ->
  findheader (map nv (insert_at pos f fs)) name = Some (f_value f).
Proof.
  intros En. induction pos as [|p IH]; intros fs H.
  - cbn [insert_at map findheader]. unfold nv at 1. rewrite En, list_eqb_refl. reflexivity.
  - destruct fs as [|y t].
    + cbn [insert_at map findheader]. unfold nv at 1. rewrite En, list_eqb_refl. reflexivity.
    + cbn [insert_at map findheader]. unfold nv at 1. rewrite (H y) by (left; reflexivity).
      apply IH. intros g Hg. apply H. right. exact Hg.
Qed.

Lemma wf_field_weaken a f : wf_field a f = true -> wf_field true f = true.
Proof.
  unfold wf_field. rewrite !andb_true_iff. intros [[[[H1 H2] H3] H4] _]. repeat split; assumption.
Qed.

Lemma wf_fields_weaken a fs : forallb (wf_field a) fs = true -> forallb (wf_field true) fs = true.
Proof.
  intros H. apply forallb_forall. intros g Hg. rewrite forallb_forall in H.
  apply (wf_field_weaken a). apply H. exact Hg.
Qed.

Lemma wf_field_names f : wf_field false f = true ->
  list_eqb (f_name f) name_clen = false /\ list_eqb (f_name f) name_te = false.
Proof.
  unfold wf_field. rewrite !andb_true_iff. intros [_ H]. cbn [orb] in H.
  apply negb_true_iff, orb_false_iff in H. exact H.
Qed.

Lemma wf_value_digits ds : forallb is_dec_digit ds = true -> wf_value ds = true.
Proof.
  intros H. rewrite forallb_forall in H.
  assert (Hno : forall c, In c ds -> is_ows c = false /\ negb ((c =? CR) || (c =? LF) || (c =? 0)) = true).
  { intros c Hc. pose proof (dec_digit_ge c (H c Hc)) as B. unfold is_ows, CR, LF, SP, HT. split.
    - apply orb_false_iff. split; apply N.eqb_neq; lia.
    - apply negb_true_iff. rewrite !orb_false_iff. repeat split; apply N.eqb_neq; lia. }
  unfold wf_value. rewrite !andb_true_iff. repeat split.
  - unfold no_ctl. apply forallb_forall. intros c Hc. apply (Hno c Hc).
  - destruct ds as [|c t]; [reflexivity|]. apply negb_true_iff. apply (Hno c). left. reflexivity.
  - rewrite frev_rev. destruct (rev ds) as [|c t] eqn:E; [reflexivity|]. apply negb_true_iff. apply (Hno c).
    apply in_rev. rewrite E. left. reflexivity.
Qed.

Lemma Zeqb_of_N a b : (Z.of_N a =? Z.of_N b)%Z = (a =? b).
Proof.
  destruct (a =? b) eqn:E.
  - apply N.eqb_eq in E. subst. apply Z.eqb_refl.
  - apply N.eqb_neq in E. apply Z.eqb_neq. lia.
Qed.

Lemma take_common (w fut d X : list N) n : w ++ fut = d ++ X -> n <= lenN w -> n <= lenN d ->
  takeN n w = takeN n d.
Proof.
  intros E H1 H2. rewrite <- (takeN_app_le n w fut H1), E. apply takeN_app_le. exact H2.
Qed.

Lemma upd_mid : forall (pre : list N) c post v, upd (pre ++ c :: post) (length pre) v = pre ++ v :: post.
Proof.
  induction pre as [|x pre IH]; intros c post v; [reflexivity|].
  cbn [app length upd]. rewrite IH. reflexivity.
Qed.

(* ------------------------------------------------------------------ the setting *)
Section Decode.
  Variable stale : N.
  Variable ishead : bool.
  Variable limit : N.
  Variable r : response.

  Definition good : Prop :=
    wf_response ishead r = true /\ lenN (resp_body r) <= limit /\ limit < two64.

  Definition st_exp : Z := Z.of_N (m_status (p_final r)).
  Definition hs_exp : hdrs := map nv (final_fields r).
  Definition body : list N := resp_body r.
  Definition rh (m : msg) : list N := render_head m (m_fields m).
  Definition final_head : list N := render_head (p_final r) (final_fields r).
  Definition heads_from (ms : list msg) : list N := concat (map rh ms) ++ final_head ++ render_body r.
  Definition first_head (ms : list msg) : list N :=
    match ms with m :: _ => rh m | [] => final_head end.

  Definition base (h : hst) : Prop := inv h /\ h_max h = limit /\ h_ishead h = ishead.
  Definition got (h : hst) : list N := concat (frev (h_body h)).
  Definition resp_known (h : hst) : Prop := h_status h = st_exp /\ h_headers h = hs_exp.

  Definition ctail (rest : list chunk) (ld le tr : list N) : list N :=
    concat (map render_chunk rest) ++ ld ++ le ++ crlf ++ tr.

  (* the chunks [done] are in the body buffer, the stream goes on with the chunks [rest] *)
  Definition csim (b S : list N) : Prop :=
    exists pos cs ld le tr done rest,
      p_framing r = FrChunked pos cs ld le tr /\ cs = done ++ rest /\
      b = concat (map c_data done) /\ S = ctail rest ld le tr.

  Definition sim (h : hst) (ph : phase) (S : list N) : Prop :=
    base h /\
    match ph with
    | PhHeader =>
      h_bodylen h = 0 /\
      exists ms, forallb (wf_msg 100 199 true) ms = true /\
                 forallb (fun m => lenN (rh m) <=? maxhdr + 1) ms = true /\
                 S = heads_from ms /\ h_hepos h + 4 <= lenN (first_head ms)
    | PhChunkHdr => resp_known h /\ h_chunked h = Some true /\ csim (got h) S
    | PhData =>
      resp_known h /\
      exists d e T ch, h_chunked h = Some ch /\ S = d ++ e ++ T /\ h_readlen h = lenN d + lenN e /\
        lenN e <= 2 /\
        if ch then (d <> [] -> lenN e = 2) /\ csim (got h ++ d) T
        else e = [] /\ T = [] /\ got h ++ d = body /\ exists pos ds, p_framing r = FrClen pos ds
    | PhToEof => resp_known h /\ p_framing r = FrClose /\ got h ++ S = body
    end.

  Lemma sim_set_r h ph S r' : sim h ph S -> rdr_ok r' -> sim (set_r h r') ph S.
  Proof.
    intros [[I [M Hd]] P] R'. split; [split; [apply set_r_inv; assumption | split; assumption]|].
    destruct ph; exact P.
  Qed.

  (* ---------------------------------------------------------------- what well-formedness gives *)
  Lemma good_parts : good ->
    forallb (wf_msg 100 199 true) (p_interim r) = true /\
    wf_msg 200 599 (match p_framing r with FrNone => true | _ => false end) (p_final r) = true /\
    wf_framing ishead r = true /\
    forallb (fun m => lenN (rh m) <=? maxhdr + 1) (p_interim r) = true /\
    lenN final_head <= maxhdr + 1.
  Proof.
    intros [H _]. unfold wf_response in H. rewrite !andb_true_iff in H.
    destruct H as [[[[H1 H2] H3] H4] H5]. apply N.leb_le in H5. repeat split; assumption.
  Qed.

  Lemma framing_field_wf pos f : wf_framing ishead r = true ->
    framing_field r = Some (pos, f) -> wf_field true f = true.
  Proof.
    unfold framing_field, wf_framing.
    destruct (p_framing r) as [|p ds| |]; try discriminate; intros Hw H; inversion H; subst.
    - unfold wf_field. cbn [f_name f_value f_lead f_trail].
      apply andb_true_iff in Hw. destruct Hw as [_ Hw].
      destruct (wf_clen_parts _ _ Hw) as (_ & Dv & _).
      rewrite (wf_value_digits _ (dec_value_digits _ _ _ Dv)). reflexivity.
    - reflexivity.
  Qed.

  Lemma final_fields_wf : good -> forallb (wf_field true) (final_fields r) = true.
  Proof.
    intros G. destruct (good_parts G) as (_ & H2 & Hfr & _).
    destruct (wf_msg_parts _ _ _ _ H2) as (_ & _ & _ & _ & H6).
    apply wf_fields_weaken in H6. unfold final_fields.
    destruct (framing_field r) as [[pos f]|] eqn:E; [|exact H6].
    apply forallb_insert_at; [exact (framing_field_wf pos f Hfr E) | exact H6].
  Qed.

  Lemma fields_no_framing_names : good -> p_framing r <> FrNone ->
    forall g, In g (m_fields (p_final r)) ->
      list_eqb (f_name g) name_clen = false /\ list_eqb (f_name g) name_te = false.
  Proof.
    intros G Hfr g Hg. destruct (good_parts G) as (_ & H2 & _).
    assert (Hw : wf_msg 200 599 false (p_final r) = true) by (destruct (p_framing r); [contradiction | | |]; exact H2).
    destruct (wf_msg_parts _ _ _ _ Hw) as (_ & _ & _ & _ & H6).
    rewrite forallb_forall in H6. apply wf_field_names. apply H6. exact Hg.
  Qed.

  Lemma final_status : good -> 200 <= m_status (p_final r) <= 599.
  Proof.
    intros G. destruct (good_parts G) as (_ & H2 & _).
    destruct (wf_msg_parts _ _ _ _ H2) as (_ & _ & H & _). exact H.
  Qed.

  Lemma expect_eq :
    expect r = CbResp st_exp hs_exp (match body with [] => true | _ => false end) (lenN body) body.
  Proof. reflexivity. Qed.

  Lemma got_empty h : inv h -> h_bodylen h = 0 -> got h = [].
  Proof. intros I B. apply lenN_0. unfold got. rewrite (i_body h I). exact B. Qed.

  (* the success callback hands over exactly the expected response once the whole body is stored *)
  Lemma callback_expect h : base h -> resp_known h -> got h = body -> do_callback h = SFinish [expect r].
  Proof.
    intros [I _] [Hs Hh] Hb. unfold do_callback. rewrite expect_eq, Hs, Hh. fold (got h). rewrite Hb.
    pose proof (i_body h I) as B. fold (got h) in B. rewrite Hb in B.
    pose proof (i_alloc h I) as A. rewrite <- B.
    do 2 f_equal. f_equal. destruct body as [|c t] eqn:E.
    - apply N.eqb_eq. apply A. rewrite <- B. reflexivity.
    - apply N.eqb_neq. intros Ha. apply A in Ha. rewrite <- B, lenN_cons in Ha. lia.
  Qed.

  Lemma bodiless_model n :
    ishead || existsb (fun s => (Z.of_N n =? Z.of_N s)%Z) bodiless_statuses = bodiless ishead n.
  Proof.
    unfold bodiless, bodiless_statuses. cbn [existsb]. rewrite !Zeqb_of_N, orb_false_r, orb_assoc. reflexivity.
  Qed.

  (* ---------------------------------------------------------------- the choice of the framing *)
  Lemma select_framing_sim h S : good -> base h -> h_bodylen h = 0 -> resp_known h -> S = render_body r ->
    exists s, select_framing h = Ok s /\
      match s with
      | SFinish cbs => cbs = [expect r]
      | SCont h' ph' => h_r h' = h_r h /\ ph' <> PhHeader /\ sim h' ph' S
      | _ => False
      end.
  Proof.
    intros G B Hb0 K HS. pose proof B as [I [Hmax Hish]]. pose proof K as [Hst Hhs].
    pose proof (got_empty h I Hb0) as Hgot.
    destruct (good_parts G) as (_ & _ & Hfr & _). pose proof G as (_ & Hlim & Hlim64).
    pose proof (fields_no_framing_names G) as Hnames.
    unfold select_framing. rewrite Hish, Hst, Hhs. unfold st_exp. rewrite bodiless_model.
    unfold wf_framing in Hfr. unfold hs_exp, final_fields, framing_field.
    unfold body, resp_body in Hlim.
    destruct (p_framing r) as [|pos ds|pos cs ld le tr|] eqn:Efr.
    - (* no body *)
      rewrite Hfr. eexists. split; [reflexivity|].
      rewrite expect_eq. unfold body, resp_body, hs_exp, final_fields, framing_field, st_exp. rewrite Efr. reflexivity.
    - (* Content-Length *)
      apply andb_true_iff in Hfr. destruct Hfr as [Hnb Hlen]. apply negb_true_iff in Hnb. rewrite Hnb.
      destruct (wf_clen_parts _ _ Hlen) as (Dne & Dv & Hlen64). specialize (Hnames ltac:(discriminate)).
      set (f := mkF name_clen ds [SP] []).
      change hdr_transfer_encoding with name_te. change hdr_content_length with name_clen.
      rewrite (findheader_none (insert_at pos f (m_fields (p_final r))) name_te).
      2:{ intros g Hg. destruct (in_insert_at _ _ _ _ Hg) as [-> | Hg']; [reflexivity | apply (Hnames g Hg')]. }
      cbv iota.
      rewrite (findheader_insert f name_clen eq_refl pos (m_fields (p_final r))).
      2:{ intros g Hg. apply (Hnames g Hg). }
      cbn [f_value f]. change clen_base with 10. change (negb (clen_trailing =? 0)) with false.
      rewrite (parse_clen _ _ Dne Dv Hlen64). cbn [bind]. unfold get_body_gotclen.
      replace (h_max h <? lenN (p_body r)) with false by (symmetry; apply N.ltb_ge; lia).
      eexists. split; [reflexivity|]. split; [reflexivity|]. split; [discriminate|].
      split; [split; [apply set_read_inv; exact I | split; assumption]|].
      split; [exact K|].
      exists (p_body r), [], [], false. split; [reflexivity|].
      split; [rewrite HS; unfold render_body; rewrite Efr, !app_nil_r; reflexivity|].
      split; [cbn [h_readlen set_read]; rewrite lenN_nil; lia|].
      split; [rewrite lenN_nil; lia|].
      split; [reflexivity|]. split; [reflexivity|].
      split; [|exists pos, ds; exact Efr].
      change (got (set_read h false (lenN (p_body r)))) with (got h). rewrite Hgot.
      unfold body, resp_body. rewrite Efr. reflexivity.
    - (* chunked *)
      rewrite !andb_true_iff in Hfr. destruct Hfr as [[[[[[Hnb _] _] _] _] _] _].
      apply negb_true_iff in Hnb. rewrite Hnb. specialize (Hnames ltac:(discriminate)).
      set (f := mkF name_te value_chunked [SP] []).
      change hdr_transfer_encoding with name_te.
      rewrite (findheader_insert f name_te eq_refl pos (m_fields (p_final r))).
      2:{ intros g Hg. apply (Hnames g Hg). }
      cbn [f_value f]. change (contains te_chunked value_chunked) with true. cbv iota.
      eexists. split; [reflexivity|]. split; [reflexivity|]. split; [discriminate|].
      split; [split; [apply set_chunked_inv; exact I | split; assumption]|].
      split; [exact K|]. split; [reflexivity|].
      change (got (set_chunked h)) with (got h). rewrite Hgot.
      exists pos, cs, ld, le, tr, [], cs. split; [exact Efr|]. split; [reflexivity|]. split; [reflexivity|].
      rewrite HS. unfold render_body, ctail. rewrite Efr. reflexivity.
    - (* read to close *)
      apply negb_true_iff in Hfr. rewrite Hfr. specialize (Hnames ltac:(discriminate)).
      change hdr_transfer_encoding with name_te. change hdr_content_length with name_clen.
      rewrite (findheader_none (m_fields (p_final r)) name_te) by (intros g Hg; apply (Hnames g Hg)).
      cbv iota.
      rewrite (findheader_none (m_fields (p_final r)) name_clen) by (intros g Hg; apply (Hnames g Hg)).
      eexists. split; [reflexivity|]. split; [reflexivity|]. split; [discriminate|].
      split; [exact B|]. split; [exact K|]. split; [exact Efr|].
      rewrite Hgot, HS. unfold render_body, body, resp_body. rewrite Efr. reflexivity.
  Qed.
  (* ---------------------------------------------------------------- what one step must achieve *)
  Definition post (fut : list N) (h : hst) (ph : phase) (s : sres) : Prop :=
    match s with
    | SFinish cbs => cbs = [expect r]
    | SDied => False
    | SCont h' ph' => sim h' ph' (r_win (h_r h') ++ fut) /\ (mu h' ph' < mu h ph)%nat
    | SWait h' len ph' =>
      sim h' ph' (r_win (h_r h') ++ fut) /\ avail (h_r h') < len <= wmax /\
      (len <= lenN (r_win (h_r h') ++ fut) \/ (ph' = PhToEof /\ r_win (h_r h') ++ fut = []))
    end.

  Lemma wrap64_small x : x < two64 -> wrap64 x = x.
  Proof. intros H. unfold wrap64. apply N.mod_small. exact H. Qed.

  (* ---------------------------------------------------------------- callback_read_header *)

  (* M2 + G4 for one header block: with the window somewhere inside (or beyond) a rendered block,
     the callback either waits for one more byte than it has, or hands exactly that block to
     gotheaders - wherever the previous scan stopped *)
  Lemma step_header_window lo hi a m fs h fut Rst :
    wf_msg lo hi a m = true -> 100 <= lo -> hi <= 599 -> forallb (wf_field true) fs = true ->
    lenN (render_head m fs) <= maxhdr + 1 -> rdr_ok (h_r h) ->
    r_win (h_r h) ++ fut = render_head m fs ++ Rst -> h_hepos h + 4 <= lenN (render_head m fs) ->
    (lenN (r_win (h_r h)) < lenN (render_head m fs) /\ fut <> [] /\
     exists q, step_header h RsOk = Ok (SWait (set_hepos h q) (lenN (r_win (h_r h)) + 1) PhHeader) /\
               q + 4 <= lenN (render_head m fs))
    \/
    (exists w' r' n, r_win (h_r h) = render_head m fs ++ w' /\ Rst = w' ++ fut /\ rdr_ok r' /\ r_win r' = w' /\
       step_header h RsOk =
       if m_status m <=? 199 then Ok (SCont (set_hepos (set_r (set_hepos h n) r') 0) PhHeader)
       else select_framing (set_resp (set_r (set_hepos h n) r') (Z.of_N (m_status m)) (map nv fs))).
  Proof.
    intros Hm Hlo Hhi Hfs Hmax R E Hhe.
    destruct (scan_head _ _ _ _ _ _ Hm Hfs) as (n & Sc & Ln).
    pose proof (avail_win _ R) as Av. pose proof (win_small _ R) as Ws.
    destruct (N.lt_ge_cases (lenN (r_win (h_r h))) (lenN (render_head m fs))) as [Hlt | Hge].
    - left. destruct (split_lt _ _ _ _ E Hlt) as (H' & E1 & E2 & Hne).
      split; [exact Hlt|]. split; [rewrite E2; destruct H'; [contradiction | discriminate]|].
      destruct (scan_window_short _ _ _ (h_hepos h) n Sc ltac:(lia) E1 ltac:(lia)) as (q & Eq & Bq).
      exists q. split; [|lia].
      unfold step_header. cbv zeta. rewrite Eq. cbv beta iota.
      replace (maxhdr <? avail (h_r h)) with false by (symmetry; apply N.ltb_ge; lia).
      change hdr_wait_more with 1. rewrite wrap64_small by (unfold two64; lia). rewrite Av. reflexivity.
    - right. destruct (split_le _ _ _ _ E Hge) as (w' & E1 & E2).
      assert (Rh : rdr_ok (h_r (set_hepos h n))) by exact R.
      assert (Wh : r_win (h_r (set_hepos h n)) = render_head m fs ++ w') by exact E1.
      destruct (headers_roundtrip lo hi a m fs (set_hepos h n) w' Hm Hlo Hhi Hfs Rh Wh)
        as (r' & _ & R' & Wr' & Eg).
      exists w', r', n. split; [exact E1|]. split; [exact E2|]. split; [exact R'|]. split; [exact Wr'|].
      unfold step_header. cbv zeta. rewrite E1.
      rewrite (scan_window_found _ w' (h_hepos h) n Sc ltac:(lia)). cbv beta iota.
      replace (n + lenN hdr_terminator) with (lenN (render_head m fs))
        by (change (lenN hdr_terminator) with 4; lia).
      exact Eg.
  Qed.

  Lemma heads_from_cons m ms : heads_from (m :: ms) = rh m ++ heads_from ms.
  Proof. unfold heads_from. cbn [map concat]. rewrite <- app_assoc. reflexivity. Qed.

  Lemma head_len4 m fs : 4 <= lenN (render_head m fs).
  Proof. rewrite lenN_head. lia. Qed.

  Lemma first_head_len4 ms : 4 <= lenN (first_head ms).
  Proof. destruct ms; apply head_len4. Qed.

  Lemma length_lenN {A} (l : list A) : N.of_nat (length l) = lenN l.
  Proof. reflexivity. Qed.

  Lemma step_header_sim h fut : good -> sim h PhHeader (r_win (h_r h) ++ fut) ->
    exists s, step_header h RsOk = Ok s /\ post fut h PhHeader s.
  Proof.
    intros G [B [Hb0 (ms & Hms & Hlen & HS & Hhe)]].
    pose proof B as [I [Hmax Hish]]. pose proof (i_rdr h I) as R.
    destruct (good_parts G) as (_ & G2 & _ & _ & G5).
    destruct ms as [|m ms'].
    - (* the final header block *)
      destruct (step_header_window 200 599 _ (p_final r) (final_fields r) h fut (render_body r)
                  G2 ltac:(lia) ltac:(lia) (final_fields_wf G) G5 R HS Hhe)
        as [(Hlt & Hne & q & Es & Bq) | (w' & r' & n & E1 & E2 & R' & Wr' & Es)].
      + eexists. split; [exact Es|]. cbn [post].
        split; [split; [split; [apply set_hepos_inv; exact I | split; assumption]|]|].
        { split; [exact Hb0|]. exists []. repeat split; try assumption. }
        pose proof (win_small _ R) as Ws. pose proof (avail_win _ R) as Av.
        cbn [h_r set_hepos]. split; [unfold wmax, maxhdr, final_head, rh in *; lia|]. left. rewrite lenN_app.
        destruct fut; [contradiction|]. rewrite lenN_cons. lia.
      + pose proof (final_status G) as Hst.
        replace (m_status (p_final r) <=? 199) with false in Es by (symmetry; apply N.leb_gt; lia).
        set (h1 := set_resp (set_r (set_hepos h n) r') (Z.of_N (m_status (p_final r))) (map nv (final_fields r))) in *.
        assert (B1 : base h1).
        { split; [apply set_resp_inv, set_r_inv; [apply set_hepos_inv; exact I | exact R'] | split; assumption]. }
        destruct (select_framing_sim h1 (render_body r) G B1 Hb0 (conj eq_refl eq_refl) eq_refl)
          as (s & Esel & Ps).
        exists s. split; [rewrite Es; exact Esel|].
        destruct s as [cbs | | h2 len ph2 | h2 ph2]; try contradiction; [exact Ps|].
        destruct Ps as (Hr2 & Hph & Hsim). cbn [post].
        assert (Hw2 : r_win (h_r h2) = w') by (rewrite Hr2; exact Wr').
        split; [rewrite Hw2, <- E2; exact Hsim|].
        unfold mu. rewrite Hw2, E1, app_length. pose proof (head_len4 (p_final r) (final_fields r)) as L4.
        unfold lenN in L4. destruct ph2; lia.
    - (* a 1xx block *)
      cbn [forallb] in Hms, Hlen. apply andb_true_iff in Hms. destruct Hms as [Hm Hms'].
      apply andb_true_iff in Hlen. destruct Hlen as [Hl Hlen']. apply N.leb_le in Hl.
      destruct (wf_msg_parts _ _ _ _ Hm) as (_ & _ & Hst & _ & Hf).
      rewrite heads_from_cons in HS.
      destruct (step_header_window 100 199 true m (m_fields m) h fut (heads_from ms')
                  Hm ltac:(lia) ltac:(lia) Hf Hl R HS Hhe)
        as [(Hlt & Hne & q & Es & Bq) | (w' & r' & n & E1 & E2 & R' & Wr' & Es)].
      + eexists. split; [exact Es|]. cbn [post].
        split; [split; [split; [apply set_hepos_inv; exact I | split; assumption]|]|].
        { split; [exact Hb0|]. exists (m :: ms'). cbn [forallb]. rewrite Hm, Hms', Hlen'.
          replace (lenN (rh m) <=? maxhdr + 1) with true by (symmetry; apply N.leb_le; exact Hl).
          repeat split; try assumption. rewrite heads_from_cons. exact HS. }
        pose proof (win_small _ R) as Ws. pose proof (avail_win _ R) as Av.
        cbn [h_r set_hepos]. split; [unfold wmax, maxhdr, final_head, rh in *; lia|]. left. rewrite lenN_app.
        destruct fut; [contradiction|]. rewrite lenN_cons. lia.
      + replace (m_status m <=? 199) with true in Es by (symmetry; apply N.leb_le; lia).
        eexists. split; [exact Es|]. cbn [post]. cbn [h_r set_hepos set_r]. rewrite Wr'.
        split.
        * split; [split; [apply set_hepos_inv, set_r_inv; [apply set_hepos_inv; exact I | exact R'] | split; assumption]|].
          split; [exact Hb0|]. exists ms'. repeat split; try assumption; [symmetry; exact E2|].
          cbn [h_hepos set_hepos]. pose proof (first_head_len4 ms'). lia.
        * unfold mu. cbn [h_r set_hepos set_r]. rewrite Wr', E1, app_length.
          pose proof (head_len4 m (m_fields m)) as L4. unfold lenN in L4. unfold rh. lia.
  Qed.
  (* ---------------------------------------------------------------- callback_chunkedheader *)
  Lemma sub64_small a b : b <= a -> a < two64 -> sub64 a b = a - b.
  Proof.
    intros H1 H2. unfold sub64. replace (a + two64 - b) with ((a - b) + 1 * two64) by lia.
    rewrite N.mod_add by (unfold two64; lia). apply N.mod_small. lia.
  Qed.

  Lemma wf_ext_nocr ext : wf_ext ext = true -> no_cr ext.
  Proof.
    unfold wf_ext. destruct ext as [|c t]; [constructor|]. intros H.
    apply andb_true_iff in H. destruct H as [_ H]. rewrite forallb_forall in H.
    apply Forall_forall. intros x Hx Hcr. specialize (H x Hx). subst x. discriminate.
  Qed.

  (* the object PARSENUM_EX reads (the window with a NUL over the CR) yields the chunk size *)
  Lemma chunk_line_parse digits ext v A :
    hex_value digits 0 = Some v -> digits <> [] -> wf_ext ext = true -> v < two64 ->
    no_cr (digits ++ ext) /\
    parsenum_unsigned_m (upd ((digits ++ ext) ++ [13; 10] ++ A) (length (digits ++ ext)) 0)
                        0 size_max size_max chunk_base (negb (chunk_trailing =? 0)) = Ok (Some v).
  Proof.
    intros Hv Hne He Hlt. split.
    - unfold no_cr. rewrite Forall_app. split; [|apply wf_ext_nocr; exact He].
      pose proof (hex_value_chars _ _ _ Hv) as Hc. eapply Forall_impl; [|exact Hc].
      cbv beta. intros c Hge. lia.
    - change ((digits ++ ext) ++ [13; 10] ++ A) with ((digits ++ ext) ++ 13 :: (10 :: A)).
      rewrite upd_mid, <- app_assoc. change chunk_base with 16. change (negb (chunk_trailing =? 0)) with true.
      pose proof (hex_value_eval _ _ _ Hv) as Hev.
      assert (Hb : base_ok 16) by (unfold base_ok; lia).
      destruct ext as [|c ext'].
      + cbn [app]. apply parsenum_digits; try assumption; try reflexivity; try discriminate.
      + unfold wf_ext in He. apply andb_true_iff in He. destruct He as [He _]. apply N.eqb_eq in He. subst c.
        change ((59 :: ext') ++ 0 :: 10 :: A) with (59 :: (ext' ++ 0 :: 10 :: A)).
        apply parsenum_digits; try assumption; try reflexivity; try discriminate.
  Qed.

  Lemma step_chunkhdr_line h fut digits ext v A :
    rdr_ok (h_r h) -> hex_value digits 0 = Some v -> digits <> [] -> wf_ext ext = true -> v < two64 ->
    lenN digits + lenN ext + 2 <= maxchlen ->
    r_win (h_r h) ++ fut = digits ++ ext ++ [13; 10] ++ A ->
    (lenN (r_win (h_r h)) < lenN digits + lenN ext + 2 /\ fut <> [] /\
     step_chunkhdr true stale h RsOk = Ok (SWait h (lenN (r_win (h_r h)) + 1) PhChunkHdr))
    \/
    (exists w' r', r_win (h_r h) = digits ++ ext ++ [13; 10] ++ w' /\ A = w' ++ fut /\ rdr_ok r' /\
       r_win r' = w' /\
       step_chunkhdr true stale h RsOk =
       if v =? 0 then Ok (do_callback (set_r h r'))
       else if sub64 (h_max h) (h_bodylen h) <? v then Ok (do_toobig (set_r h r'))
       else if size_max - chunk_readlen_extra <? v then Ok (do_toobig (set_r h r'))
       else Ok (SCont (set_readlen (set_r h r') (v + chunk_readlen_extra)) PhData)).
  Proof.
    intros R Hv Hne He Hlt Hmax E.
    destruct (chunk_line_parse digits ext v A Hv Hne He Hlt) as [Hcr _].
    pose proof (avail_win _ R) as Av. pose proof (win_small _ R) as Ws.
    set (line := digits ++ ext) in *.
    assert (Ll : lenN line = lenN digits + lenN ext) by (subst line; apply lenN_app).
    assert (E' : r_win (h_r h) ++ fut = (line ++ [13; 10]) ++ A).
    { rewrite E. subst line. rewrite <- !app_assoc. reflexivity. }
    assert (Llc : lenN (line ++ [13; 10]) = lenN line + 2) by (rewrite lenN_app; reflexivity).
    unfold maxchlen in Hmax.
    destruct (N.lt_ge_cases (lenN (r_win (h_r h))) (lenN line + 2)) as [Hlt' | Hge].
    - left. split; [lia|].
      destruct (split_lt _ _ _ _ E' ltac:(lia)) as (H' & _ & E2 & Hne').
      split; [rewrite E2; destruct H'; [contradiction | discriminate]|].
      assert (Ef : findeol (r_win (h_r h)) 0 = lenN (r_win (h_r h))).
      { apply (findeol_window_short line A _ fut Hcr); [|exact Hlt'].
        rewrite E'. rewrite <- app_assoc. reflexivity. }
      unfold step_chunkhdr. cbv zeta. rewrite Ef, Av, N.eqb_refl. cbn [negb].
      replace (maxchlen <=? lenN (r_win (h_r h))) with false by (symmetry; apply N.leb_gt; unfold maxchlen; lia).
      change chunk_wait_more with 1. rewrite wrap64_small by (unfold two64; lia). reflexivity.
    - right. destruct (split_le _ _ _ _ E' ltac:(lia)) as (w' & E1 & E2).
      assert (Ew : r_win (h_r h) = line ++ [13; 10] ++ w') by (rewrite E1, <- app_assoc; reflexivity).
      assert (Lw : lenN (r_win (h_r h)) = lenN line + 2 + lenN w').
      { rewrite Ew, !lenN_app. change (lenN [13; 10]) with 2. lia. }
      assert (Hc : lenN line + 2 <= avail (h_r h)) by lia.
      destruct (consume_ok _ _ R Hc) as (r' & Ec & R' & Wr' & _).
      exists w', r'. split; [rewrite Ew; subst line; rewrite <- app_assoc; reflexivity|].
      split; [exact E2|]. split; [exact R'|].
      split; [rewrite Wr', E1; rewrite <- Llc; apply dropN_app_exact|].
      assert (Ef : findeol (r_win (h_r h)) 0 = lenN line).
      { rewrite Ew, (findeol_nocr line w' 0 Hcr). apply N.add_0_l. }
      unfold step_chunkhdr. cbv zeta. rewrite Ef.
      replace (lenN line =? avail (h_r h)) with false by (symmetry; apply N.eqb_neq; lia).
      cbn [negb]. cbv iota.
      replace (N.to_nat (lenN line)) with (length line) by (unfold lenN; lia).
      rewrite Ew. subst line.
      destruct (chunk_line_parse digits ext v w' Hv Hne He Hlt) as [_ Ep].
      rewrite Ep. cbn [bind].
      change chunk_line_skip with 2. rewrite wrap64_small by (unfold two64; lia).
      rewrite Ec. cbn [bind]. reflexivity.
  Qed.

  Lemma wf_chunked_parts pos cs ld le tr : good -> p_framing r = FrChunked pos cs ld le tr ->
    forallb wf_chunk cs = true /\ ld <> [] /\ hex_value ld 0 = Some 0 /\ wf_ext le = true /\
    lenN ld + lenN le + 2 <= maxchlen /\ body = concat (map c_data cs).
  Proof.
    intros G Efr. destruct (good_parts G) as (_ & _ & Hfr & _).
    unfold wf_framing in Hfr. rewrite Efr in Hfr. rewrite !andb_true_iff in Hfr.
    destruct Hfr as [[[[[[_ H2] H3] H4] H5] H6] _]. apply N.leb_le in H6.
    repeat split; try assumption.
    - destruct ld; [discriminate | discriminate].
    - apply zeros_hex_value. exact H4.
    - unfold body, resp_body. rewrite Efr. reflexivity.
  Qed.

  Lemma wf_chunk_parts c : wf_chunk c = true ->
    c_data c <> [] /\ hex_value (c_digits c) 0 = Some (lenN (c_data c)) /\ c_digits c <> [] /\
    wf_ext (c_ext c) = true /\ lenN (c_digits c) + lenN (c_ext c) + 2 <= maxchlen /\
    lenN (c_data c) + 2 < two64.
  Proof.
    unfold wf_chunk. rewrite !andb_true_iff. intros [[[[H1 H2] H3] H4] H5].
    apply N.leb_le in H4. apply N.ltb_lt in H5.
    destruct (hex_value (c_digits c) 0) as [v|]; [|discriminate].
    apply andb_true_iff in H2. destruct H2 as [H2 H2']. apply N.eqb_eq in H2. subst v.
    repeat split; try assumption.
    - destruct (c_data c); [discriminate | discriminate].
    - destruct (c_digits c); [discriminate | discriminate].
  Qed.

  Lemma ctail_cons c rest ld le tr :
    ctail (c :: rest) ld le tr =
    c_digits c ++ c_ext c ++ [13; 10] ++ (c_data c ++ crlf ++ ctail rest ld le tr).
  Proof. unfold ctail, render_chunk, crlf, CR, LF. cbn [map concat]. rewrite <- !app_assoc. reflexivity. Qed.

  Lemma step_chunkhdr_sim h fut : good -> sim h PhChunkHdr (r_win (h_r h) ++ fut) ->
    exists s, step_chunkhdr true stale h RsOk = Ok s /\ post fut h PhChunkHdr s.
  Proof.
    intros G [B [K [Hch (pos & cs & ld & le & tr & done & rest & Efr & Ecs & Egot & ES)]]].
    pose proof B as [I [Hmax Hish]]. pose proof (i_rdr h I) as R.
    pose proof (avail_win _ R) as Av. pose proof (win_small _ R) as Ws.
    destruct (wf_chunked_parts _ _ _ _ _ G Efr) as (Hcs & Hld & Hldv & Hle & Hll & Hbody).
    pose proof G as (_ & Hlim & Hlim64). fold body in Hlim.
    pose proof (i_body h I) as Hbl. fold (got h) in Hbl.
    destruct rest as [|c rest'].
    - (* the last chunk *)
      assert (ES' : r_win (h_r h) ++ fut = ld ++ le ++ [13; 10] ++ tr) by (rewrite ES; reflexivity).
      destruct (step_chunkhdr_line h fut ld le 0 tr R Hldv Hld Hle ltac:(unfold two64; lia) Hll ES')
        as [(Hlt & Hne & Es) | (w' & r' & E1 & E2 & R' & Wr' & Es)].
      + eexists. split; [exact Es|]. cbn [post].
        split; [split; [exact B|]; split; [exact K|]; split; [exact Hch|];
                exists pos, cs, ld, le, tr, done, []; repeat split; assumption|].
        unfold maxchlen in Hll. split; [unfold wmax; lia|]. left. rewrite lenN_app.
        destruct fut; [contradiction|]. rewrite lenN_cons. lia.
      + eexists. split; [exact Es|]. cbn [post].
        assert (Hc : do_callback (set_r h r') = SFinish [expect r]).
        { apply callback_expect.
          - split; [apply set_r_inv; assumption | split; assumption].
          - exact K.
          - change (got (set_r h r')) with (got h). rewrite Egot, Hbody, Ecs, app_nil_r. reflexivity. }
        rewrite Hc. reflexivity.
    - (* a data chunk *)
      assert (Hc : wf_chunk c = true).
      { rewrite Ecs, forallb_app in Hcs. apply andb_true_iff in Hcs. destruct Hcs as [_ Hcs].
        cbn [forallb] in Hcs. apply andb_true_iff in Hcs. apply Hcs. }
      destruct (wf_chunk_parts c Hc) as (Hdne & Hdv & Hdg & Hce & Hcl & Hd64).
      rewrite ctail_cons in ES.
      assert (Hblen : lenN (got h) + lenN (c_data c) <= lenN body).
      { rewrite Hbody, Ecs, map_app, concat_app, <- Egot. cbn [map concat]. rewrite !lenN_app. lia. }
      destruct (step_chunkhdr_line h fut (c_digits c) (c_ext c) (lenN (c_data c)) _ R Hdv Hdg Hce
                  ltac:(lia) Hcl ES)
        as [(Hlt & Hne & Es) | (w' & r' & E1 & E2 & R' & Wr' & Es)].
      + eexists. split; [exact Es|]. cbn [post].
        split; [split; [exact B|]; split; [exact K|]; split; [exact Hch|];
                exists pos, cs, ld, le, tr, done, (c :: rest'); rewrite ctail_cons; repeat split; assumption|].
        unfold maxchlen in Hcl. split; [unfold wmax; lia|]. left. rewrite lenN_app.
        destruct fut; [contradiction|]. rewrite lenN_cons. lia.
      + replace (lenN (c_data c) =? 0) with false in Es.
        2:{ symmetry. apply N.eqb_neq. intros H0. apply lenN_0 in H0. contradiction. }
        rewrite sub64_small in Es by lia.
        replace (h_max h - h_bodylen h <? lenN (c_data c)) with false in Es by (symmetry; apply N.ltb_ge; lia).
        change chunk_readlen_extra with 2 in Es.
        replace (size_max - 2 <? lenN (c_data c)) with false in Es
          by (symmetry; apply N.ltb_ge; unfold size_max, two64 in *; lia).
        eexists. split; [exact Es|].
        cbn [post]. cbn [h_r set_readlen set_r]. rewrite Wr'. split.
        * split; [split; [apply set_readlen_inv, set_r_inv; assumption | split; assumption]|].
          split; [exact K|].
          exists (c_data c), crlf, (ctail rest' ld le tr), true.
          split; [exact Hch|]. split; [symmetry; exact E2|].
          split; [cbn [h_readlen set_readlen]; change (lenN crlf) with 2; reflexivity|].
          split; [change (lenN crlf) with 2; lia|].
          split; [intros _; reflexivity|].
          change (got (set_readlen (set_r h r') (lenN (c_data c) + 2))) with (got h).
          exists pos, cs, ld, le, tr, (done ++ [c]), rest'.
          split; [exact Efr|]. split; [rewrite Ecs, <- app_assoc; reflexivity|].
          split; [|reflexivity].
          rewrite map_app, concat_app, <- Egot. cbn [map concat]. rewrite app_nil_r. reflexivity.
        * unfold mu. cbn [h_r set_readlen set_r]. rewrite Wr', E1, !app_length. cbn [length].
          destruct (c_digits c); [contradiction|]. cbn [length]. lia.
  Qed.
  (* ---------------------------------------------------------------- callback_readdata *)
  Lemma addbody_exact h data : inv h -> h_bodylen h + lenN data <= h_max h ->
    exists alloc', addbody h data = Ok (set_body h (data :: h_body h) (h_bodylen h + lenN data) alloc') /\
                   inv (set_body h (data :: h_body h) (h_bodylen h + lenN data) alloc').
  Proof.
    intros [R M L B A] Hs. unfold addbody.
    set (sum := wrap64 (h_bodylen h + lenN data)).
    assert (Es : sum = h_bodylen h + lenN data) by (subst sum; unfold wrap64; apply N.mod_small; lia).
    replace (h_max h <? sum) with false by (symmetry; apply N.ltb_ge; lia).
    set (alloc' := if h_alloc h <? sum then _ else _).
    assert (Ha : sum <= alloc' /\ (alloc' = 0 <-> sum = 0)).
    { subst alloc'. destruct (h_alloc h <? sum) eqn:E1.
      - apply N.ltb_lt in E1.
        set (na := wrap64 (h_alloc h * 2)).
        destruct (na <? sum) eqn:E2; destruct (h_max h <? _) eqn:E3;
          try apply N.ltb_lt in E2; try apply N.ltb_ge in E2;
          try apply N.ltb_lt in E3; try apply N.ltb_ge in E3; lia.
      - apply N.ltb_ge in E1. split; [lia|]. split; intros; [lia|]. apply A. lia. }
    replace (alloc' <? h_bodylen h + lenN data) with false by (symmetry; apply N.ltb_ge; lia).
    exists alloc'. rewrite Es. split; [reflexivity|].
    constructor; hs; try assumption; try lia.
    rewrite frev_rev. cbn [rev]. rewrite concat_app, lenN_app. cbn [concat]. rewrite app_nil_r.
    rewrite <- frev_rev, B. lia.
  Qed.

  Lemma got_add h data l a : got (set_body h (data :: h_body h) l a) = got h ++ data.
  Proof.
    unfold got. cbn [h_body set_body]. rewrite !frev_rev. cbn [rev].
    rewrite concat_app. cbn [concat]. rewrite app_nil_r. reflexivity.
  Qed.

  Lemma csim_len b S : good -> csim b S -> lenN b <= lenN body.
  Proof.
    intros G (pos & cs & ld & le & tr & done & rest & Efr & Ecs & Eb & _).
    destruct (wf_chunked_parts _ _ _ _ _ G Efr) as (_ & _ & _ & _ & _ & Hbody).
    rewrite Hbody, Ecs, map_app, concat_app, <- Eb, lenN_app. lia.
  Qed.

  Lemma step_data_sim h fut : good -> sim h PhData (r_win (h_r h) ++ fut) ->
    exists s, step_data h RsOk = Ok s /\ post fut h PhData s.
  Proof.
    intros G [B [K (d & e & T & ch & Hch & ES & Hrl & He2 & Hc)]].
    pose proof B as [I [Hmax Hish]]. pose proof (i_rdr h I) as R.
    pose proof (avail_win _ R) as Av. pose proof (win_small _ R) as Ws.
    pose proof G as (_ & Hlim & Hlim64). fold body in Hlim.
    pose proof (i_body h I) as Hbl. fold (got h) in Hbl.
    set (w := r_win (h_r h)) in *.
    assert (F1 : ch = false -> e = []) by (intros ->; apply Hc).
    assert (F2 : lenN (got h) + lenN d <= lenN body).
    { destruct ch.
      - destruct Hc as [_ Hc]. pose proof (csim_len _ _ G Hc) as H. rewrite lenN_app in H. exact H.
      - destruct Hc as (_ & _ & Hc & _). rewrite <- Hc, lenN_app. lia. }
    assert (F3 : ch = true -> lenN d <> 0 -> lenN e = 2).
    { intros -> Hd. apply Hc. intros ->. apply Hd. reflexivity. }
    unfold step_data. rewrite Hch. cbv zeta. fold w.
    set (buflen := if h_readlen h <? avail (h_r h) then h_readlen h else avail (h_r h)).
    assert (Hb : buflen = N.min (lenN d + lenN e) (lenN w)).
    { subst buflen. rewrite Hrl, Av. destruct (lenN d + lenN e <? lenN w) eqn:E1;
        [apply N.ltb_lt in E1 | apply N.ltb_ge in E1]; lia. }
    set (datalen := if ch then _ else buflen).
    assert (Hd : datalen = N.min (lenN d) buflen).
    { subst datalen. change chunk_eol_len with 2. destruct ch.
      - destruct (N.eq_dec (lenN d) 0) as [D0 | D0].
        + rewrite Hrl, D0. replace (0 + lenN e <=? 2) with true by (symmetry; apply N.leb_le; lia). lia.
        + specialize (F3 eq_refl D0). rewrite Hrl, F3.
          replace (lenN d + 2 <=? 2) with false by (symmetry; apply N.leb_gt; lia).
          replace (lenN d + 2 - 2) with (lenN d) by lia.
          destruct (lenN d <? buflen) eqn:E1; [apply N.ltb_lt in E1 | apply N.ltb_ge in E1]; lia.
      - rewrite (F1 eq_refl), lenN_nil in Hb. lia. }
    clearbody buflen datalen.
    assert (Etake : takeN datalen w = takeN datalen d).
    { apply (take_common w fut d (e ++ T)); [exact ES | lia | lia]. }
    rewrite Etake.
    assert (Ltake : lenN (takeN datalen d) = datalen) by (rewrite lenN_takeN; lia).
    destruct (addbody_exact h (takeN datalen d) I ltac:(lia)) as (alloc' & Ea & I1).
    rewrite Ea. cbn [bind]. rewrite Ltake in *.
    set (h1 := set_body h (takeN datalen d :: h_body h) (h_bodylen h + datalen) alloc') in *.
    assert (Hcons : buflen <= avail (h_r h)) by lia.
    destruct (consume_ok _ _ R Hcons) as (r' & Ec & R' & Wr' & Av' & _).
    change (h_r h1) with (h_r h). rewrite Ec. cbn [bind]. cbn [h_readlen set_readlen].
    set (h2 := set_readlen (set_r h1 r') (h_readlen h - buflen)).
    assert (B2 : base h2).
    { split; [apply set_readlen_inv, set_r_inv; assumption | split; assumption]. }
    assert (G2 : got h2 = got h ++ takeN datalen d) by apply got_add.
    set (d' := dropN datalen d). set (e' := dropN (buflen - datalen) e).
    assert (Ld' : lenN d' = lenN d - datalen) by apply lenN_dropN.
    assert (Le' : lenN e' = lenN e - (buflen - datalen)) by apply lenN_dropN.
    assert (ES' : r_win (h_r h2) ++ fut = d' ++ e' ++ T).
    { change (r_win (h_r h2)) with (r_win r'). rewrite Wr'. fold w.
      rewrite <- (dropN_app_le buflen w fut) by lia. rewrite ES.
      destruct (N.le_gt_cases buflen (lenN d)) as [Hle | Hgt].
      - assert (datalen = buflen) by lia. subst d' e'.
        replace (buflen - datalen) with 0 by lia. rewrite dropN_0, H.
        apply dropN_app_le. exact Hle.
      - assert (datalen = lenN d) by lia. subst d' e'. rewrite H.
        rewrite (dropN_all (lenN d) d) by lia. cbn [app].
        rewrite dropN_app_ge by lia. apply dropN_app_le. lia. }
    assert (G2' : got h2 ++ d' = got h ++ d).
    { rewrite G2, <- app_assoc. subst d'. rewrite take_drop. reflexivity. }
    assert (K2 : resp_known h2) by exact K.
    destruct (h_readlen h - buflen =? 0) eqn:E0.
    - apply N.eqb_eq in E0.
      assert (Hd0 : d' = []) by (apply lenN_0; lia).
      assert (He0 : e' = []) by (apply lenN_0; lia).
      rewrite Hd0, He0 in ES'. cbn [app] in ES'. rewrite Hd0, app_nil_r in G2'.
      destruct ch.
      + eexists. split; [reflexivity|]. cbn [post]. fold h2. split.
        * split; [exact B2|]. split; [exact K2|]. split; [exact Hch|].
          rewrite ES', G2'. apply Hc.
        * unfold mu. change (r_win (h_r h2)) with (r_win r'). rewrite Wr'. fold w.
          unfold dropN. rewrite skipn_length. lia.
      + eexists. split; [reflexivity|]. cbn [post]. fold h2.
        rewrite (callback_expect h2 B2 K2); [reflexivity|]. rewrite G2'. apply Hc.
    - apply N.eqb_neq in E0.
      eexists. split; [reflexivity|]. cbn [post]. fold h2. split; [|split].
      + split; [exact B2|]. split; [exact K2|].
        exists d', e', T, ch. split; [exact Hch|]. split; [exact ES'|].
        split; [change (h_readlen h2) with (h_readlen h - buflen); lia|].
        split; [lia|].
        destruct ch.
        * split; [|rewrite G2'; apply Hc].
          intros Hne. assert (lenN d' <> 0) by (intros H0; apply lenN_0 in H0; contradiction).
          assert (lenN d <> 0) by lia. specialize (F3 eq_refl H0). lia.
        * destruct Hc as (Hc1 & Hc2 & Hc3 & Hc4).
          split; [subst e'; rewrite Hc1; unfold dropN; apply skipn_nil|].
          split; [exact Hc2|]. split; [rewrite G2'; exact Hc3 | exact Hc4].
      + change (avail (h_r h2)) with (avail r'). rewrite Av'.
        change waitcap with 1048576.
        destruct (1048576 <? h_readlen h - buflen) eqn:E3;
          [apply N.ltb_lt in E3 | apply N.ltb_ge in E3]; unfold wmax; lia.
      + left. rewrite ES', !lenN_app. change waitcap with 1048576.
        destruct (1048576 <? h_readlen h - buflen) eqn:E3;
          [apply N.ltb_lt in E3 | apply N.ltb_ge in E3]; lia.
  Qed.

  (* ---------------------------------------------------------------- callback_read_toeof *)
  Lemma step_toeof_sim h fut : good -> sim h PhToEof (r_win (h_r h) ++ fut) ->
    exists s, step_toeof h RsOk = Ok s /\ post fut h PhToEof s.
  Proof.
    intros G [B [K [Efr Hgot]]].
    pose proof B as [I [Hmax Hish]]. pose proof (i_rdr h I) as R.
    pose proof (avail_win _ R) as Av. pose proof (win_small _ R) as Ws.
    pose proof G as (_ & Hlim & Hlim64). fold body in Hlim.
    pose proof (i_body h I) as Hbl. fold (got h) in Hbl.
    assert (Hl : lenN (got h) + lenN (r_win (h_r h)) + lenN fut = lenN body).
    { rewrite <- Hgot, !lenN_app. lia. }
    unfold step_toeof. cbv zeta.
    rewrite sub64_small by lia.
    replace (h_max h - h_bodylen h <? avail (h_r h)) with false by (symmetry; apply N.ltb_ge; lia).
    rewrite Av, takeN_all by lia.
    destruct (addbody_exact h (r_win (h_r h)) I ltac:(lia)) as (alloc' & Ea & I1).
    rewrite Ea. cbn [bind].
    set (h1 := set_body h (r_win (h_r h) :: h_body h) (h_bodylen h + lenN (r_win (h_r h))) alloc') in *.
    assert (Hcons : lenN (r_win (h_r h)) <= avail (h_r h)) by lia.
    destruct (consume_ok _ _ R Hcons) as (r' & Ec & R' & Wr' & Av' & _).
    change (h_r h1) with (h_r h). rewrite Ec. cbn [bind].
    assert (Wn : r_win r' = []) by (rewrite Wr'; apply dropN_all; lia).
    eexists. split; [reflexivity|]. cbn [post]. cbn [h_r set_r]. rewrite Wn. cbn [app]. split; [|split].
    - split; [split; [apply set_r_inv; assumption | split; assumption]|].
      split; [exact K|]. split; [exact Efr|].
      change (got (set_r h1 r')) with (got h1). unfold h1. rewrite got_add, <- app_assoc. exact Hgot.
    - rewrite Av'. change toeof_wait with 1. unfold wmax. lia.
    - change toeof_wait with 1. destruct fut as [|c fut'].
      + right. split; reflexivity.
      + left. rewrite lenN_cons. lia.
  Qed.

  Lemma step_sim h ph fut : good -> sim h ph (r_win (h_r h) ++ fut) ->
    exists s, step true stale h ph RsOk = Ok s /\ post fut h ph s.
  Proof.
    intros G S. destruct ph; cbn [step].
    - apply step_header_sim; assumption.
    - apply step_chunkhdr_sim; assumption.
    - apply step_data_sim; assumption.
    - apply step_toeof_sim; assumption.
  Qed.
  (* ---------------------------------------------------------------- one callback from the event loop *)
  Definition cb_post (fut : list N) (s : sres) : Prop :=
    match s with
    | SFinish cbs => cbs = [expect r]
    | SWait h' len ph' =>
      sim h' ph' (r_win (h_r h') ++ fut) /\ avail (h_r h') < len <= wmax /\
      (len <= lenN (r_win (h_r h') ++ fut) \/ (ph' = PhToEof /\ r_win (h_r h') ++ fut = []))
    | _ => False
    end.

  Lemma run_cb_sim : forall fuel h ph fut, good -> sim h ph (r_win (h_r h) ++ fut) -> (mu h ph < fuel)%nat ->
    exists s, run_cb true stale fuel h ph RsOk = Ok s /\ cb_post fut s.
  Proof.
    induction fuel as [|f IH]; intros h ph fut G Hsim F; [lia|].
    cbn [run_cb]. destruct (step_sim h ph fut G Hsim) as (s & E & P). rewrite E. cbn [bind].
    destruct s as [cbs | | h' len ph' | h' ph']; cbn [post] in P.
    - exists (SFinish cbs). split; [reflexivity | exact P].
    - contradiction.
    - exists (SWait h' len ph'). split; [reflexivity | exact P].
    - destruct P as [S' Mu]. apply IH; [exact G | exact S' | lia].
  Qed.

  (* ---------------------------------------------------------------- the whole exchange *)
  Lemma sim_toeof_close h S : sim h PhToEof S -> p_framing r = FrClose.
  Proof. intros [_ [_ [E _]]]. exact E. Qed.

  Lemma run_sim : forall fuel h ph segs e, good -> sim h ph (r_win (h_r h) ++ concat segs) ->
    (netmu segs + 2 <= fuel)%nat -> (p_framing r = FrClose -> e = EndEof) ->
    run true stale fuel h ph RsOk (mkNet segs e) = Ok (Done [expect r]).
  Proof.
    induction fuel as [|f IH]; intros h ph segs e G Hsim F He; [lia|].
    cbn [run].
    destruct (run_cb_sim (cb_fuel h) h ph (concat segs) G Hsim (cb_fuel_enough h ph)) as (s & E & P).
    rewrite E. cbn [bind].
    destruct s as [cbs | | h' len ph' | h' ph']; cbn [cb_post] in P; try contradiction.
    - rewrite P. reflexivity.
    - destruct P as (S' & Hl & Hcase).
      pose proof S' as [[I' _] _]. pose proof (i_rdr h' I') as R'.
      destruct (wait_exact (h_r h') len segs e R' Hl) as [W1 W2].
      destruct Hcase as [Hen | [-> Hnil]].
      + destruct (W1 Hen) as (r'' & segs' & Ew & R'' & Es & _ & Hmu).
        rewrite Ew. cbn [bind].
        apply IH; [exact G | | lia | exact He].
        cbn [h_r set_r]. rewrite Es. apply sim_set_r; assumption.
      + pose proof (He (sim_toeof_close _ _ S')) as Ee.
        destruct (W2 ltac:(rewrite Hnil, lenN_nil; lia) Ee) as (r2 & Ew & R2 & W2').
        rewrite Ew. cbn [bind].
        destruct f as [|f']; [lia|]. cbn [run].
        replace (cb_fuel (set_r h' r2)) with (Datatypes.S (cb_fuel (set_r h' r2) - 1))%nat by (unfold cb_fuel; lia).
        cbn [run_cb step step_toeof bind].
        assert (S2 : sim (set_r h' r2) PhToEof (r_win (h_r h') ++ concat segs)) by (apply sim_set_r; assumption).
        destruct S2 as [B2 [K2 [_ Hg]]]. rewrite Hnil, app_nil_r in Hg.
        rewrite (callback_expect _ B2 K2 Hg). reflexivity.
  Qed.
End Decode.

(* ================================================================== the theorems *)

(* the complete statement: whatever the segmentation of the rendered bytes (empty segments = EAGAIN
   rounds included), whatever the reader had already buffered of them, and - unless the body is
   framed by the close of the connection - however the connection ends afterwards *)
Theorem decode_wellformed stale r0 limit ishead r segs e :
  wf_response ishead r = true -> lenN (resp_body r) <= limit -> limit < two64 ->
  rdr_ok r0 -> r_win r0 ++ concat segs = render r ->
  (p_framing r = FrClose -> e = EndEof) ->
  http_response_run repo_terminated stale r0 limit ishead (mkNet segs e) = Ok (Done [expect r]).
Proof.
  intros Hwf Hlim Hl64 R0 Hs He.
  assert (G : good ishead limit r) by (split; [exact Hwf | split; assumption]).
  rewrite repo_terminated_true. unfold http_response_run.
  apply (run_sim stale ishead limit r); try assumption.
  - destruct (init_inv r0 limit ishead R0 Hl64) as [I _].
    split; [split; [exact I | split; reflexivity]|].
    split; [reflexivity|].
    destruct (good_parts ishead limit r G) as (G1 & _ & _ & G4 & _).
    exists (p_interim r). split; [exact G1|]. split; [exact G4|].
    split; [cbn [h_r init_hst]; rewrite Hs; unfold render, heads_from, rh, final_head; reflexivity|].
    cbn [h_hepos init_hst]. pose proof (first_head_len4 r (p_interim r)). lia.
  - unfold total_fuel, netmu. cbn [n_segs]. lia.
Qed.

(* what [expect] is: the final status, the (name, value) pairs of the final header block in order
   (the framing header included, the optional white space of [render_field] gone), the body *)
Lemma expect_meaning r :
  expect r = CbResp (Z.of_N (m_status (p_final r)))
                    (map (fun f => (f_name f, f_value f)) (final_fields r))
                    (match resp_body r with [] => true | _ => false end)
                    (lenN (resp_body r)) (resp_body r).
Proof. reflexivity. Qed.

(* M3: the three framings and the bodiless case, whole response in one read from a fresh reader *)
Theorem clen_roundtrip stale limit ishead r pos ds :
  wf_response ishead r = true -> p_framing r = FrClen pos ds -> lenN (p_body r) <= limit -> limit < two64 ->
  forall e,
  http_response_run repo_terminated stale init_rdr limit ishead (mkNet [render r] e)
  = Ok (Done [CbResp (Z.of_N (m_status (p_final r))) (map nv (final_fields r))
                     (match p_body r with [] => true | _ => false end) (lenN (p_body r)) (p_body r)]).
Proof.
  intros Hwf Efr Hl Hl64 e.
  rewrite (decode_wellformed stale init_rdr limit ishead r [render r] e); try assumption.
  - unfold expect, resp_body. rewrite Efr. reflexivity.
  - unfold resp_body. rewrite Efr. exact Hl.
  - exact init_rdr_ok.
  - cbn [init_rdr r_win concat app]. apply app_nil_r.
  - rewrite Efr. discriminate.
Qed.

Theorem chunked_roundtrip stale limit ishead r pos cs ld le tr :
  wf_response ishead r = true -> p_framing r = FrChunked pos cs ld le tr ->
  lenN (concat (map c_data cs)) <= limit -> limit < two64 ->
  forall e,
  http_response_run repo_terminated stale init_rdr limit ishead (mkNet [render r] e)
  = Ok (Done [CbResp (Z.of_N (m_status (p_final r))) (map nv (final_fields r))
                     (match concat (map c_data cs) with [] => true | _ => false end)
                     (lenN (concat (map c_data cs))) (concat (map c_data cs))]).
Proof.
  intros Hwf Efr Hl Hl64 e.
  rewrite (decode_wellformed stale init_rdr limit ishead r [render r] e); try assumption.
  - unfold expect, resp_body. rewrite Efr. reflexivity.
  - unfold resp_body. rewrite Efr. exact Hl.
  - exact init_rdr_ok.
  - cbn [init_rdr r_win concat app]. apply app_nil_r.
  - rewrite Efr. discriminate.
Qed.

Theorem close_roundtrip stale limit ishead r :
  wf_response ishead r = true -> p_framing r = FrClose -> lenN (p_body r) <= limit -> limit < two64 ->
  http_response_run repo_terminated stale init_rdr limit ishead (mkNet [render r] EndEof)
  = Ok (Done [CbResp (Z.of_N (m_status (p_final r))) (map nv (final_fields r))
                     (match p_body r with [] => true | _ => false end) (lenN (p_body r)) (p_body r)]).
Proof.
  intros Hwf Efr Hl Hl64.
  rewrite (decode_wellformed stale init_rdr limit ishead r [render r] EndEof); try assumption.
  - unfold expect, resp_body. rewrite Efr. reflexivity.
  - unfold resp_body. rewrite Efr. exact Hl.
  - exact init_rdr_ok.
  - cbn [init_rdr r_win concat app]. apply app_nil_r.
  - reflexivity.
Qed.

(* HEAD, 204, 304: no body, whatever Content-Length / Transfer-Encoding fields the block carries *)
Theorem bodiless_roundtrip stale limit ishead r :
  wf_response ishead r = true -> p_framing r = FrNone -> limit < two64 ->
  forall e,
  http_response_run repo_terminated stale init_rdr limit ishead (mkNet [render r] e)
  = Ok (Done [CbResp (Z.of_N (m_status (p_final r))) (map nv (m_fields (p_final r))) true 0 []]).
Proof.
  intros Hwf Efr Hl64 e.
  rewrite (decode_wellformed stale init_rdr limit ishead r [render r] e); try assumption.
  - unfold expect, resp_body, final_fields, framing_field. rewrite Efr. reflexivity.
  - unfold resp_body. rewrite Efr. apply N.le_0_l.
  - exact init_rdr_ok.
  - cbn [init_rdr r_win concat app]. apply app_nil_r.
  - rewrite Efr. discriminate.
Qed.

(* G4: every segmentation of the rendered bytes gives the outcome of the one-shot arrival *)
Theorem segmentation_independent stale limit ishead r segs e :
  wf_response ishead r = true -> lenN (resp_body r) <= limit -> limit < two64 ->
  concat segs = render r -> (p_framing r = FrClose -> e = EndEof) ->
  http_response_run repo_terminated stale init_rdr limit ishead (mkNet segs e)
  = http_response_run repo_terminated stale init_rdr limit ishead (mkNet [render r] e).
Proof.
  intros Hwf Hl Hl64 Hs He.
  rewrite (decode_wellformed stale init_rdr limit ishead r segs e); try assumption;
    [|exact init_rdr_ok].
  rewrite (decode_wellformed stale init_rdr limit ishead r [render r] e); try assumption.
  - reflexivity.
  - exact init_rdr_ok.
  - cbn [init_rdr r_win concat app]. apply app_nil_r.
Qed.

(* G5: the 1xx responses in front change nothing *)
Definition without_interim (r : response) : response := mkResp [] (p_final r) (p_framing r) (p_body r).

Lemma without_interim_wf ishead r : wf_response ishead r = true -> wf_response ishead (without_interim r) = true.
Proof.
  unfold wf_response. rewrite !andb_true_iff. intros [[[[H1 H2] H3] H4] H5].
  repeat split; try reflexivity; assumption.
Qed.

Theorem interim_skipped stale limit ishead r segs e :
  wf_response ishead r = true -> lenN (resp_body r) <= limit -> limit < two64 ->
  concat segs = render r -> (p_framing r = FrClose -> e = EndEof) ->
  http_response_run repo_terminated stale init_rdr limit ishead (mkNet segs e)
  = http_response_run repo_terminated stale init_rdr limit ishead (mkNet [render (without_interim r)] e).
Proof.
  intros Hwf Hl Hl64 Hs He.
  rewrite (decode_wellformed stale init_rdr limit ishead r segs e); try assumption;
    [|exact init_rdr_ok].
  rewrite (decode_wellformed stale init_rdr limit ishead (without_interim r) [render (without_interim r)] e).
  - reflexivity.
  - apply without_interim_wf. exact Hwf.
  - exact Hl.
  - exact Hl64.
  - exact init_rdr_ok.
  - cbn [init_rdr r_win concat app]. apply app_nil_r.
  - exact He.
Qed.

(* the whole exchange: request bytes and decoded response *)
Theorem exchange_exact stale limit q r segs e :
  lenN (req_render q) + 1 < two64 ->
  wf_response (list_eqb (q_method q) method_head) r = true -> lenN (resp_body r) <= limit -> limit < two64 ->
  concat segs = render r -> (p_framing r = FrClose -> e = EndEof) ->
  http_run repo_terminated stale init_rdr q limit (mkNet segs e)
  = Ok (request_layout q, Done [expect r]).
Proof.
  intros Hq Hwf Hl Hl64 Hs He. unfold http_run.
  destruct (request_bytes q Hq) as [Er _]. rewrite Er. cbn [bind].
  rewrite (decode_wellformed stale init_rdr limit _ r segs e); try assumption; [reflexivity|].
  exact init_rdr_ok.
Qed.

(* ------------------------------------------------------------------ non-vacuity *)
(* 100 Continue, a 103 with a field longer than the final block's, then a chunked 200 whose chunk
   sizes carry a leading zero, upper-case hex and an extension; last chunk "00;l", a trailer *)
Definition ex_chunked : response :=
  mkResp [mkM [49] 100 [67; 111; 110; 116; 105; 110; 117; 101] [];
          mkM [49; 48] 103 [] [mkF [76; 105; 110; 107] [60; 97; 62; 59; 32; 114; 101; 108; 61; 120] [SP] [SP; HT]]]
         (mkM [49] 200 [79; 75] [mkF [88; 45; 65] [97; 58; 98] [SP; SP] [HT]; mkF [69] [] [] []])
         (FrChunked 1 [mkC [48; 53] [59; 120; 61; 49] [104; 101; 108; 108; 111];
                       mkC [65] [] [1; 2; 3; 4; 5; 6; 7; 8; 9; 10]] [48; 48] [59; 108] [13; 10])
         [].

Example ex_chunked_wf : wf_response false ex_chunked = true.
Proof. vm_compute. reflexivity. Qed.

Example ex_chunked_expect :
  expect ex_chunked =
  CbResp 200 [([88; 45; 65], [97; 58; 98]);
              ([84; 114; 97; 110; 115; 102; 101; 114; 45; 69; 110; 99; 111; 100; 105; 110; 103],
               [99; 104; 117; 110; 107; 101; 100]);
              ([69], [])]
         false 15 [104; 101; 108; 108; 111; 1; 2; 3; 4; 5; 6; 7; 8; 9; 10].
Proof. vm_compute. reflexivity. Qed.

(* the model run byte by byte, computed - not derived from the theorem *)
Example ex_chunked_bytewise :
  http_response_run repo_terminated 0 init_rdr 15 false
    (mkNet (map (fun b => [b]) (render ex_chunked)) EndEof) = Ok (Done [expect ex_chunked]).
Proof. vm_compute. reflexivity. Qed.

Definition ex_clen : response :=
  mkResp [] (mkM [48] 404 [78; 111; 112; 101] [mkF [65] [49] [] []]) (FrClen 1 [48; 48; 54]) [0; 13; 10; 13; 10; 255].
Definition ex_close : response :=
  mkResp [mkM [49] 199 [] []] (mkM [49] 599 [] []) FrClose [48; 13; 10; 13; 10].
Definition ex_head : response :=
  mkResp [] (mkM [49] 200 [79; 75] [mkF name_clen [53; 48] [SP] []; mkF name_te value_chunked [] []]) FrNone [].

Example ex_others_wf :
  wf_response false ex_clen = true /\ wf_response false ex_close = true /\ wf_response true ex_head = true.
Proof. repeat split; vm_compute; reflexivity. Qed.

(* Content-Length written with leading zeros: "010" is ten (not eight, the base-0 reading), "0019" is
   nineteen (not a parse failure); computed, byte by byte and in one read *)
Definition ex_clen010 : response :=
  mkResp [] (mkM [49] 200 [79; 75] []) (FrClen 0 [48; 49; 48]) [1; 2; 3; 4; 5; 6; 7; 8; 9; 10].
Definition ex_clen0019 : response :=
  mkResp [] (mkM [49] 200 [79; 75] []) (FrClen 0 [48; 48; 49; 57]) (repeat 120 19).

Example ex_clen_leading_zeros :
  wf_response false ex_clen010 = true /\ wf_response false ex_clen0019 = true /\
  http_response_run repo_terminated 0 init_rdr 10 false (mkNet (map (fun b => [b]) (render ex_clen010)) EndEof)
    = Ok (Done [expect ex_clen010]) /\
  http_response_run repo_terminated 0 init_rdr 100 false (mkNet [render ex_clen0019] EndEof)
    = Ok (Done [expect ex_clen0019]) /\
  http_response_run repo_terminated 0 init_rdr 100 false (mkNet [render ex_clen] EndEof)
    = Ok (Done [expect ex_clen]) /\
  expect ex_clen010 = CbResp 200 [(name_clen, [48; 49; 48])] false 10 [1; 2; 3; 4; 5; 6; 7; 8; 9; 10].
Proof. repeat split; vm_compute; reflexivity. Qed.

(* ------------------------------------------------------------------ the two limit clauses (finding F12) *)
Lemma wf_chunks_split cs :
  forallb wf_chunk cs = true <-> forallb wf_chunk_nolimit cs = true /\ forallb chunk_line_ok cs = true.
Proof.
  induction cs as [|c cs IH]; [cbn; tauto|].
  cbn [forallb]. rewrite !andb_true_iff, IH. unfold wf_chunk, wf_chunk_nolimit, chunk_line_ok.
  rewrite !andb_true_iff. tauto.
Qed.

(* wf_response is wf_response_nolimits plus exactly: every header block <= maxhdr + 1 bytes, every
   chunk-size line (digits, extension, CRLF) <= maxchlen bytes *)
Lemma wf_response_limit_clauses ishead r :
  wf_response ishead r = true <-> wf_response_nolimits ishead r = true /\ within_limits r = true.
Proof.
  unfold wf_response, wf_response_nolimits, within_limits, wf_framing, wf_framing_nolimits.
  destruct (p_framing r) as [|pos ds|pos cs ld le tr|]; rewrite !andb_true_iff; try tauto.
  rewrite wf_chunks_split. tauto.
Qed.

(* the replay of corpus/http/limits_chunkline.case: a chunk extension of 300 bytes *)
Definition ex_overlimit : response :=
  mkResp [] (mkM [49] 200 [79; 75] []) (FrChunked 0 [mkC [53] (59 :: repeat 120 300) [104; 101; 108; 108; 111]] [48] [] [13; 10]) [].

Example over_limit_segmentation_dependent :
  wf_response_nolimits false ex_overlimit = true /\ within_limits ex_overlimit = false /\
  http_response_run repo_terminated 0 init_rdr 100 false (mkNet [render ex_overlimit] EndEof)
    = Ok (Done [expect ex_overlimit]) /\
  http_response_run repo_terminated 0 init_rdr 100 false
    (mkNet (map (fun b => [b]) (render ex_overlimit)) EndEof) = Ok (Done [CbNull]).
Proof. repeat split; vm_compute; reflexivity. Qed.
