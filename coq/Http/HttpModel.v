(* MODEL of http/http.c as it is now (response side: callback_read_header, gotheaders,
   callback_chunkedheader, callback_readdata, addbody, callback_read_toeof, toobig, fail,
   docallback; request side: http_request2's length precomputation and stpcpy chain), written over
   an abstract buffered reader.

   The reader is the window of arrived-but-unconsumed bytes [r_win] together with the geometry of
   the underlying allocation (buflen / bufpos / datalen of struct netbuf_read): the geometry decides
   how many bytes one recv() may deliver, hence what each callback sees, and it is what the one
   unterminated parse of the old code ran into.  netbuf_read_wait / _consume / _peek and the
   network_read loop are mirrored only as far as http.c can observe them (the netbuf area proves
   that the real netbuf implements this window).

   Failure outcomes are those of Base.CheckedMem: assert() -> AssertFail, an access outside an
   object -> Fault.  All constants come from Gen/Repo_http.v (regenerated from http.c).
   [terminated] says whether callback_chunkedheader NUL-terminates the chunk-size line before
   PARSENUM_EX (translator: Repo_http.chunk_line_terminated); with [false] the parse runs over the
   rest of the allocation, whose bytes behind the data are [stale].

   No proofs in this file. *)
From Coq Require Import NArith ZArith List Bool.
From LCP Require Import Base.CheckedMem Gen.Repo_http Http.HttpStrto.
Import ListNotations.
Local Open Scope N_scope.
Local Open Scope res_scope.

(* ------------------------------------------------------------------ small helpers *)
Definition lenN {A} (l : list A) : N := N.of_nat (length l).
Definition takeN {A} (n : N) (l : list A) : list A := firstn (N.to_nat n) l.
Definition dropN {A} (n : N) (l : list A) : list A := skipn (N.to_nat n) l.
Definition wrap64 (x : N) : N := x mod two64.
Definition sub64 (a b : N) : N := (a + two64 - b) mod two64.     (* a - b on size_t, a, b < 2^64 *)
Definition ssize_max : N := 9223372036854775807.

(* List.rev in linear time (rev_alt: rev l = rev_append l []) *)
Definition frev {A} (l : list A) : list A := rev_append l [].

Fixpoint list_eqb (a b : list N) : bool :=
  match a, b with
  | [], [] => true
  | x :: a', y :: b' => (x =? y) && list_eqb a' b'
  | _, _ => false
  end.

Fixpoint memb (c : N) (l : list N) : bool :=
  match l with [] => false | x :: r => (x =? c) || memb c r end.

(* memcmp(p, lit, |lit|) == 0 where at least |lit| bytes are known to be there *)
Fixpoint starts_with (lit l : list N) : bool :=
  match lit with
  | [] => true
  | c :: lit' => match l with x :: l' => (x =? c) && starts_with lit' l' | [] => false end
  end.

Definition at_least (n : nat) (l : list N) : bool :=
  match n with
  | O => true
  | S k => match skipn k l with [] => false | _ :: _ => true end
  end.

(* strstr(l, lit) != NULL *)
Fixpoint contains (lit l : list N) : bool :=
  starts_with lit l || match l with [] => false | _ :: t => contains lit t end.

Definition has_nul (l : list N) : bool := memb 0 l.

(* ------------------------------------------------------------------ the reader *)
Record rdr := mkR { r_buflen : N; r_bufpos : N; r_datalen : N; r_win : list N }.

Definition avail (r : rdr) : N := r_datalen r - r_bufpos r.

(* netbuf_read_consume *)
Definition rdr_consume (r : rdr) (len : N) : res rdr :=
  if avail r <? len then AssertFail
  else Ok (mkR (r_buflen r) (r_bufpos r + len) (r_datalen r) (dropN len (r_win r))).

(* the scripted peer: segments still to arrive, and what follows the last byte *)
Inductive ending := EndEof | EndErr | EndStall.
Record netst := mkNet { n_segs : list (list N); n_end : ending }.

Inductive rstat := RsOk | RsEof | RsErr.          (* status 0 / 1 / -1 of a netbuf_read_wait callback *)

Inductive nread :=
| NrData (chunks_rev : list (list N)) (segs : list (list N))   (* >= need bytes were read *)
| NrZero (segs : list (list N))                                (* a recv with no room returned 0 *)
| NrEnd.                                                       (* the script ran out first *)

(* network_read's loop: recv into the free room [cap] until [need] bytes have arrived; one recv
   takes min(room, rest of the current segment); an empty segment is an EAGAIN round *)
Fixpoint net_read (segs : list (list N)) (cap need : N) (acc : list (list N)) : nread :=
  match segs with
  | [] => NrEnd
  | s :: rest =>
    let n := lenN s in
    if n =? 0 then net_read rest cap need acc
    else if cap =? 0 then NrZero segs
    else if n <=? cap then
      if need <=? n then NrData (s :: acc) rest
      else net_read rest (cap - n) (need - n) (s :: acc)
    else if need <=? cap then NrData (takeN cap s :: acc) (dropN cap s :: rest)
    else NrZero (dropN cap s :: rest)
  end.

Inductive wres :=
| WStatus (st : rstat) (r : rdr) (net : netst)
| WStall.

(* netbuf_read_wait followed by the event loop up to the wait's callback *)
Definition rdr_wait (r : rdr) (len : N) (net : netst) : res wres :=
  if len <=? avail r then Ok (WStatus RsOk r net)             (* immediate callback *)
  else
    (* netbuf_read_resize_buffer *)
    let r1 :=
      if r_buflen r <? len then
        let nb := wrap64 (r_buflen r * 2) in
        let nb := if nb <? len then len else nb in
        mkR nb 0 (avail r) (r_win r)
      else r in
    (* memmove to the front *)
    let r2 :=
      if (r_buflen r1 - r_bufpos r1) <? len
      then mkR (r_buflen r1) 0 (avail r1) (r_win r1) else r1 in
    let cap := r_buflen r2 - r_datalen r2 in
    let need := sub64 (wrap64 (r_bufpos r2 + len)) (r_datalen r2) in
    if cap =? 0 then AssertFail                               (* network_read: assert(buflen != 0) *)
    else if ssize_max <? cap then AssertFail                  (* network_read: assert(buflen <= SSIZE_MAX) *)
    else
      match net_read (n_segs net) cap need [] with
      | NrData chunks segs' =>
        let bytes := concat (frev chunks) in
        Ok (WStatus RsOk
              (mkR (r_buflen r2) (r_bufpos r2) (r_datalen r2 + lenN bytes) (r_win r2 ++ bytes))
              (mkNet segs' (n_end net)))
      | NrZero segs' => Ok (WStatus RsEof r2 (mkNet segs' (n_end net)))
      | NrEnd =>
        match n_end net with
        | EndEof => Ok (WStatus RsEof r2 (mkNet [] EndEof))
        | EndErr => Ok (WStatus RsErr r2 (mkNet [] EndErr))
        | EndStall => Ok WStall
        end
      end.

(* ------------------------------------------------------------------ line handling *)
Definition is_eol (a b : N) : bool := list_eqb [a; b] eol.

(* sgetline on the rest of the header block: the line before the first EOL and what follows the
   EOL; None = findeol found nothing (the assert in sgetline fails) *)
Fixpoint cut_line (l : list N) : option (list N * list N) :=
  match l with
  | [] => None
  | a :: t =>
    match t with
    | b :: t' =>
      if is_eol a b then Some ([], t')
      else match cut_line t with Some (ln, r) => Some (a :: ln, r) | None => None end
    | [] => None
    end
  end.

(* findeol(buf, buflen): position of the first EOL, or buflen *)
Fixpoint findeol (l : list N) (pos : N) : N :=
  match l with
  | [] => pos
  | a :: t =>
    match t with
    | b :: _ => if is_eol a b then pos else findeol t (pos + 1)
    | [] => pos + 1
    end
  end.

(* the line-counting loop of gotheaders: iterations of
     for (n = 0, bufpos = 0; bufpos < headlen; n++, bufpos += linelen + 2) linelen = findeol(...)
   [mid] = we are inside a line (a line without EOL still counts) *)
Fixpoint count_lines (l : list N) (mid : bool) : N :=
  match l with
  | [] => if mid then 1 else 0
  | a :: t =>
    match t with
    | b :: t' => if is_eol a b then 1 + count_lines t' false else count_lines t true
    | [] => 1
    end
  end.

(* trailing OWS removal: while (s_len > 0 && (s[s_len-1] == ' ' || == '\t')) s[--s_len] = 0 *)
Fixpoint drop_while_in (set l : list N) : list N :=
  match l with
  | c :: r => if memb c set then drop_while_in set r else l
  | [] => []
  end.
Definition rtrim (l : list N) : list N := frev (drop_while_in ows_trailing (frev l)).

(* strcspn(s, seps) split *)
Fixpoint break_at (seps l : list N) : list N * list N :=
  match l with
  | [] => ([], [])
  | c :: t => if memb c seps then ([], l) else let (a, b) := break_at seps t in (c :: a, b)
  end.

(* one header line (NUL-free) -> (name, value) *)
Definition split_header (ln : list N) : list N * list N :=
  let s := rtrim ln in
  let (name, after) := break_at hdr_separators s in
  let v := match after with [] => [] | _ :: v => v end in
  (name, drop_while_in ows_leading v).

Definition hdrs := list (list N * list N).

(* the parsing loop: n lines; None = a line contains a NUL (-> fail);
   Some (headers in order, bufpos after the last line) *)
Fixpoint parse_headers (n : nat) (rest : list N) (bufpos : N) (acc : hdrs)
  : res (option (hdrs * N)) :=
  match n with
  | O => Ok (Some (frev acc, bufpos))
  | S n' =>
    match cut_line rest with
    | None => AssertFail                                   (* sgetline: its assert that an EOL was found *)
    | Some (ln, rest') =>
      if has_nul ln then Ok None
      else parse_headers n' rest' (bufpos + lenN ln + sgetline_skip) (split_header ln :: acc)
    end
  end.

(* http_findheader: first header with exactly this name *)
Fixpoint findheader (hs : hdrs) (name : list N) : option (list N) :=
  match hs with
  | [] => None
  | (h, v) :: r => if list_eqb h name then Some v else findheader r name
  end.

(* ------------------------------------------------------------------ the request cookie *)
Record hst := mkH {
  h_r : rdr;
  h_hepos : N;
  h_chunked : option bool;            (* None: not yet written (it is not initialised at creation) *)
  h_readlen : N;
  h_status : Z;
  h_headers : hdrs;
  h_body : list (list N);             (* blocks added so far, last first *)
  h_bodylen : N;
  h_alloc : N;                        (* res_bodylen_alloc; the body pointer is NULL iff 0 *)
  h_max : N;
  h_ishead : bool }.

Definition set_r (h : hst) (r : rdr) : hst :=
  mkH r (h_hepos h) (h_chunked h) (h_readlen h) (h_status h) (h_headers h) (h_body h)
      (h_bodylen h) (h_alloc h) (h_max h) (h_ishead h).
Definition set_hepos (h : hst) (p : N) : hst :=
  mkH (h_r h) p (h_chunked h) (h_readlen h) (h_status h) (h_headers h) (h_body h)
      (h_bodylen h) (h_alloc h) (h_max h) (h_ishead h).
Definition set_read (h : hst) (ch : bool) (len : N) : hst :=
  mkH (h_r h) (h_hepos h) (Some ch) len (h_status h) (h_headers h) (h_body h)
      (h_bodylen h) (h_alloc h) (h_max h) (h_ishead h).
Definition set_chunked (h : hst) : hst :=
  mkH (h_r h) (h_hepos h) (Some true) (h_readlen h) (h_status h) (h_headers h) (h_body h)
      (h_bodylen h) (h_alloc h) (h_max h) (h_ishead h).
Definition set_readlen (h : hst) (len : N) : hst :=
  mkH (h_r h) (h_hepos h) (h_chunked h) len (h_status h) (h_headers h) (h_body h)
      (h_bodylen h) (h_alloc h) (h_max h) (h_ishead h).
Definition set_resp (h : hst) (st : Z) (hs : hdrs) : hst :=
  mkH (h_r h) (h_hepos h) (h_chunked h) (h_readlen h) st hs (h_body h)
      (h_bodylen h) (h_alloc h) (h_max h) (h_ishead h).
Definition set_body (h : hst) (b : list (list N)) (len alloc : N) : hst :=
  mkH (h_r h) (h_hepos h) (h_chunked h) (h_readlen h) (h_status h) (h_headers h) b
      len alloc (h_max h) (h_ishead h).

(* what the user callback is handed *)
Inductive cb :=
| CbNull                                                       (* response == NULL *)
| CbResp (status : Z) (headers : hdrs) (body_null : bool) (bodylen : N) (body : list N).

Inductive phase := PhHeader | PhChunkHdr | PhData | PhToEof.

Inductive sres :=
| SFinish (cbs : list cb)                    (* fail / docallback / toobig: callback made, request freed *)
| SDied                                      (* die(): request freed without a callback, -1 returned *)
| SWait (h : hst) (len : N) (ph : phase)     (* netbuf_read_wait(R, len, callback_<ph>, H); return 0 *)
| SCont (h : hst) (ph : phase).              (* direct call of callback_<ph>(H, 0) *)

Definition do_fail : sres := SFinish [CbNull].
Definition do_callback (h : hst) : sres :=
  SFinish [CbResp (h_status h) (h_headers h) (h_alloc h =? 0) (h_bodylen h) (concat (frev (h_body h)))].
Definition do_toobig (h : hst) : sres :=
  SFinish [CbResp (h_status h) (h_headers h) true size_max []].

(* addbody(H, buf, buflen) with buf[0..buflen) = data *)
Definition addbody (h : hst) (data : list N) : res hst :=
  let buflen := lenN data in
  let sum := wrap64 (h_bodylen h + buflen) in
  if h_max h <? sum then AssertFail
  else
    let alloc' :=
      if h_alloc h <? sum then
        let na := wrap64 (h_alloc h * 2) in
        let na := if na <? sum then sum else na in
        if h_max h <? na then h_max h else na
      else h_alloc h in
    (* memcpy(&body[bodylen], buf, buflen) must stay inside the allocation *)
    if alloc' <? h_bodylen h + buflen then Fault
    else Ok (set_body h (data :: h_body h) sum alloc').

Section Steps.
  Variable terminated : bool.       (* buf[eolpos] = '\0' before PARSENUM_EX *)
  Variable stale : N.               (* content of the allocation behind the data (old code only) *)

  (* ---------------- callback_read_header + gotheaders ---------------- *)

  (* for (; hepos + 4 <= buflen; hepos++) if (memcmp(&buf[hepos], "\r\n\r\n", 4) == 0) break;
     l = the window from hepos on *)
  Fixpoint scan_term (l : list N) (hepos : N) : bool * N :=
    match l with
    | [] => (false, hepos)
    | _ :: t =>
      if at_least (length hdr_terminator) l then
        if starts_with hdr_terminator l then (true, hepos) else scan_term t (hepos + 1)
      else (false, hepos)
    end.

  Definition get_body_gotclen (h : hst) (len : N) : sres :=
    if h_max h <? len then do_toobig h
    else SCont (set_read h false len) PhData.

  (* after the header lines are parsed *)
  Definition select_framing (h : hst) : res sres :=
    let hs := h_headers h in
    let st := h_status h in
    if h_ishead h || existsb (fun s => (st =? Z.of_N s)%Z) bodiless_statuses then
      Ok (SFinish [CbResp st hs true 0 []])
    else
      let chunked :=
        match findheader hs hdr_transfer_encoding with
        | Some te => contains te_chunked te
        | None => false
        end in
      if chunked then Ok (SCont (set_chunked h) PhChunkHdr)
      else
        match findheader hs hdr_content_length with
        | Some v =>
          let* p := parsenum_unsigned_m (cstr v) 0 size_max size_max clen_base
                                        (negb (clen_trailing =? 0)) in
          match p with
          | None => Ok do_fail
          | Some len => Ok (get_body_gotclen h len)
          end
        | None => Ok (SCont h PhToEof)
        end.

  Definition gotheaders (h : hst) (headlen : N) : res sres :=
    let r := h_r h in
    let head := takeN headlen (r_win r) in                (* malloc(headlen); memcpy *)
    let* r' := rdr_consume r headlen in
    let cnt := count_lines head false in
    if cnt <? nonheader_lines then Ok SDied               (* nheaders wraps; imalloc refuses; die *)
    else
      let nh := cnt - nonheader_lines in
      match cut_line head with
      | None => AssertFail
      | Some (sl, rest) =>
        let bufpos := lenN sl + sgetline_skip in
        if has_nul sl then Ok do_fail
        else
          let vals := scanf_m status_format sl [] in
          if lenN vals <? status_min_conversions then Ok do_fail
          else
            let major := nth 0 vals 0%Z in
            let status := nth 2 vals 0%Z in
            if negb (major =? Z.of_N http_major)%Z then Ok do_fail
            else if ((status <? Z.of_N status_lo) || (Z.of_N status_hi <? status))%Z then Ok do_fail
            else
              let* ph := parse_headers (N.to_nat nh) rest bufpos [] in
              match ph with
              | None => Ok do_fail
              | Some (hs, bufpos') =>
                if negb (bufpos' + final_blank_len =? headlen) then AssertFail
                else if ((Z.of_N interim_lo <=? status) && (status <=? Z.of_N interim_hi))%Z then
                  Ok (SCont (set_hepos (set_r h r') 0) PhHeader)
                else select_framing (set_resp (set_r h r') status hs)
              end
      end.

  Definition step_header (h : hst) (st : rstat) : res sres :=
    match st with
    | RsOk =>
      let r := h_r h in
      let buflen := avail r in
      let '(found, hepos') := scan_term (dropN (h_hepos h) (r_win r)) (h_hepos h) in
      let h1 := set_hepos h hepos' in
      if found then gotheaders h1 (hepos' + lenN hdr_terminator)
      else if maxhdr <? buflen then Ok do_fail
      else Ok (SWait h1 (wrap64 (buflen + hdr_wait_more)) PhHeader)
    | _ => Ok do_fail
    end.

  (* ---------------- callback_chunkedheader ---------------- *)
  Fixpoint upd (l : list N) (i : nat) (v : N) : list N :=
    match l, i with
    | [], _ => []
    | _ :: t, O => v :: t
    | x :: t, S j => x :: upd t j v
    end.

  Definition step_chunkhdr (h : hst) (st : rstat) : res sres :=
    match st with
    | RsOk =>
      let r := h_r h in
      let buflen := avail r in
      let win := r_win r in
      let eolpos := findeol win 0 in
      if negb (eolpos =? buflen) then
        (* the object PARSENUM_EX reads: the rest of the allocation from the peek pointer *)
        let obj :=
          if terminated then upd win (N.to_nat eolpos) 0
          else win ++ repeat stale (N.to_nat (r_buflen r - r_datalen r)) in
        let* p := parsenum_unsigned_m obj 0 size_max size_max chunk_base
                                      (negb (chunk_trailing =? 0)) in
        match p with
        | None => Ok do_fail
        | Some clen =>
          let* r' := rdr_consume r (wrap64 (eolpos + chunk_line_skip)) in
          let h' := set_r h r' in
          if clen =? 0 then Ok (do_callback h')
          else if sub64 (h_max h') (h_bodylen h') <? clen then Ok (do_toobig h')
          else if size_max - chunk_readlen_extra <? clen then Ok (do_toobig h')
          else Ok (SCont (set_readlen h' (clen + chunk_readlen_extra)) PhData)
        end
      else if maxchlen <=? buflen then Ok do_fail
      else Ok (SWait h (wrap64 (buflen + chunk_wait_more)) PhChunkHdr)
    | _ => Ok do_fail
    end.

  (* ---------------- callback_readdata ---------------- *)
  Definition step_data (h : hst) (st : rstat) : res sres :=
    match st with
    | RsOk =>
      let r := h_r h in
      let buflen := if h_readlen h <? avail r then h_readlen h else avail r in
      match h_chunked h with
      | None => Fault                                      (* read of a field nobody wrote *)
      | Some ch =>
        let datalen :=
          if ch then
            if h_readlen h <=? chunk_eol_len then 0
            else if (h_readlen h - chunk_eol_len) <? buflen then h_readlen h - chunk_eol_len
            else buflen
          else buflen in
        let* h1 := addbody h (takeN datalen (r_win r)) in
        let* r' := rdr_consume r buflen in
        let h2 := set_readlen (set_r h1 r') (h_readlen h - buflen) in
        if h_readlen h2 =? 0 then
          if ch then Ok (SCont h2 PhChunkHdr) else Ok (do_callback h2)
        else
          let waitlen := if waitcap <? h_readlen h2 then waitcap else h_readlen h2 in
          Ok (SWait h2 waitlen PhData)
      end
    | _ => Ok do_fail
    end.

  (* ---------------- callback_read_toeof ---------------- *)
  Definition step_toeof (h : hst) (st : rstat) : res sres :=
    match st with
    | RsErr => Ok do_fail
    | RsEof => Ok (do_callback h)
    | RsOk =>
      let r := h_r h in
      let buflen := avail r in
      if sub64 (h_max h) (h_bodylen h) <? buflen then Ok (do_toobig h)
      else
        let* h1 := addbody h (takeN buflen (r_win r)) in
        let* r' := rdr_consume r buflen in
        Ok (SWait (set_r h1 r') toeof_wait PhToEof)
    end.

  Definition step (h : hst) (ph : phase) (st : rstat) : res sres :=
    match ph with
    | PhHeader => step_header h st
    | PhChunkHdr => step_chunkhdr h st
    | PhData => step_data h st
    | PhToEof => step_toeof h st
    end.

  (* one callback from the event loop: follow the direct calls until the request finishes or waits *)
  Fixpoint run_cb (fuel : nat) (h : hst) (ph : phase) (st : rstat) : res sres :=
    match fuel with
    | O => OutOfFuel
    | S f =>
      let* s := step h ph st in
      match s with
      | SCont h' ph' => run_cb f h' ph' RsOk
      | _ => Ok s
      end
    end.

  Definition cb_fuel (h : hst) : nat := 2 * length (r_win (h_r h)) + 4.

  Inductive outcome :=
  | Done (cbs : list cb)        (* the request is over and freed; these callbacks were made *)
  | Died                        (* over and freed, no callback, the event loop got -1 *)
  | Waiting.                    (* still pending and nothing more will arrive *)

  Fixpoint run (fuel : nat) (h : hst) (ph : phase) (st : rstat) (net : netst) : res outcome :=
    match fuel with
    | O => OutOfFuel
    | S f =>
      let* s := run_cb (cb_fuel h) h ph st in
      match s with
      | SFinish cbs => Ok (Done cbs)
      | SDied => Ok Died
      | SCont _ _ => OutOfFuel
      | SWait h' len ph' =>
        let* w := rdr_wait (h_r h') len net in
        match w with
        | WStall => Ok Waiting
        | WStatus st' r' net' => run f (set_r h' r') ph' st' net'
        end
      end
    end.
End Steps.

(* ------------------------------------------------------------------ the request side *)
Record request := mkReq {
  q_method : list N; q_path : list N; q_headers : hdrs; q_body : list N }.

(* the precomputed H->req_headlen *)
Definition req_headlen (q : request) : N :=
  wrap64 (fold_left (fun a hv => wrap64 (a + wrap64 (lenN (fst hv) + lenN (snd hv) + reqlen_per_header)))
                    (q_headers q)
                    (wrap64 (lenN (q_method q) + lenN reqlen_sp + lenN (q_path q) + lenN reqlen_version))
          + reqlen_blank).

(* what the stpcpy chain writes (without the final NUL) *)
Definition req_render (q : request) : list N :=
  q_method q ++ req_sp ++ q_path q ++ req_version ++
  flat_map (fun hv => fst hv ++ req_colon ++ snd hv ++ req_eol) (q_headers q) ++ req_blank.

(* http_request2 up to network_connect: the bytes that will be handed to the writer *)
Definition http_request_m (q : request) : res (list N) :=
  let head := req_render q in
  let alloc := wrap64 (req_headlen q + 1) in
  if alloc <? lenN head + 1 then Fault                   (* stpcpy ran past malloc(req_headlen + 1) *)
  else if negb (lenN head =? req_headlen q) then AssertFail
  else Ok (head ++ q_body q).                            (* body written iff bodylen > 0 *)

(* ------------------------------------------------------------------ a whole request *)
Definition init_rdr : rdr := mkR reader_init_buflen 0 0 [].

Definition init_hst (r : rdr) (limit : N) (ishead : bool) : hst :=
  mkH r 0 None 0 0%Z [] [] 0 0 limit ishead.

Definition total_fuel (net : netst) : nat :=
  length (concat (n_segs net)) + length (n_segs net) + 2.

(* the response side of one request on a connected socket: callback_connected calls
   callback_read_header(H, 0) directly *)
Definition http_response_run (terminated : bool) (stale : N) (r0 : rdr) (limit : N) (ishead : bool)
  (net : netst) : res outcome :=
  run terminated stale (total_fuel net) (init_hst r0 limit ishead) PhHeader RsOk net.

Definition http_run (terminated : bool) (stale : N) (r0 : rdr) (q : request) (limit : N)
  (net : netst) : res (list N * outcome) :=
  let* sent := http_request_m q in
  let* o := http_response_run terminated stale r0 limit (list_eqb (q_method q) method_head) net in
  Ok (sent, o).

(* the instance for the code as it is: flag from the translator *)
Definition repo_terminated : bool := negb (chunk_line_terminated =? 0).
