(* The byte stream seen through the reader's window, for C09: two splittings of one stream, the
   incremental search for the end of a header block, the search for the end of a chunk-size line,
   and what a netbuf_read_wait delivers when enough / not enough bytes are still to come. *)
From Coq Require Import Arith NArith ZArith List Bool Lia.
From LCP Require Import Base.CheckedMem Gen.Repo_http Http.HttpStrto Http.HttpModel Http.HttpSpec
  Http.HttpLemmas Http.HttpSafe Http.HttpNum Http.HttpDecode.
Import ListNotations.
Local Open Scope N_scope.
Local Open Scope res_scope.

Ltac Zify.zify_post_hook ::= Z.div_mod_to_equations.

(* ------------------------------------------------------------------ one stream, two splittings *)
Lemma app_split_le {A} (w : list A) : forall fut H R,
  w ++ fut = H ++ R -> (length H <= length w)%nat -> exists w', w = H ++ w' /\ R = w' ++ fut.
Proof.
  induction w as [|a w IH]; intros fut H R E L.
  - destruct H as [|b H]; [|cbn in L; lia]. exists []. split; [reflexivity|]. symmetry. exact E.
  - destruct H as [|b H].
    + exists (a :: w). split; [reflexivity|]. symmetry. exact E.
    + cbn in E. inversion E; subst. destruct (IH fut H R H2) as (w' & E1 & E2); [cbn in L; lia|].
      exists w'. split; [cbn; f_equal; exact E1 | exact E2].
Qed.

Lemma split_le (w fut H R : list N) : w ++ fut = H ++ R -> lenN H <= lenN w ->
  exists w', w = H ++ w' /\ R = w' ++ fut.
Proof. intros E L. apply app_split_le; [exact E | unfold lenN in L; lia]. Qed.

Lemma split_lt (w fut H R : list N) : w ++ fut = H ++ R -> lenN w < lenN H ->
  exists H', H = w ++ H' /\ fut = H' ++ R /\ H' <> [].
Proof.
  intros E L. destruct (app_split_le H R w fut (eq_sym E)) as (H' & E1 & E2); [unfold lenN in L; lia|].
  exists H'. split; [exact E1|]. split; [exact E2|]. intros ->. rewrite app_nil_r in E1. subst. lia.
Qed.

Lemma dropN_app_le {A} n (a b : list A) : n <= lenN a -> dropN n (a ++ b) = dropN n a ++ b.
Proof.
  intros H. unfold dropN, lenN in *. rewrite skipn_app.
  replace (N.to_nat n - length a)%nat with 0%nat by lia. reflexivity.
Qed.

Lemma dropN_app_ge {A} n (a b : list A) : lenN a <= n -> dropN n (a ++ b) = dropN (n - lenN a) b.
Proof.
  intros H. unfold dropN, lenN in *. rewrite skipn_app, skipn_all2 by lia. cbn [app].
  f_equal. lia.
Qed.

Lemma takeN_app_le {A} n (a b : list A) : n <= lenN a -> takeN n (a ++ b) = takeN n a.
Proof.
  intros H. unfold takeN, lenN in *. rewrite firstn_app.
  replace (N.to_nat n - length a)%nat with 0%nat by lia. cbn [firstn]. apply app_nil_r.
Qed.

Lemma dropN_0 {A} (l : list A) : dropN 0 l = l.
Proof. reflexivity. Qed.

Lemma dropN_all {A} n (l : list A) : lenN l <= n -> dropN n l = [].
Proof. intros H. unfold dropN, lenN in *. apply skipn_all2. lia. Qed.

(* ------------------------------------------------------------------ the search for CRLF CRLF *)
Lemma scan_term_cons a t p :
  scan_term (a :: t) p =
  if at_least (length hdr_terminator) (a :: t) then
    if starts_with hdr_terminator (a :: t) then (true, p) else scan_term t (p + 1)
  else (false, p).
Proof. reflexivity. Qed.

Lemma at_least_spec l : at_least (length hdr_terminator) l = (4 <=? length l)%nat.
Proof. destruct l as [|a [|b [|c [|d l']]]]; reflexivity. Qed.

Lemma starts_with_app l e : (4 <= length l)%nat ->
  starts_with hdr_terminator (l ++ e) = starts_with hdr_terminator l.
Proof.
  destruct l as [|a [|b [|c [|d l']]]]; cbn [length]; intros H; try lia. reflexivity.
Qed.

Lemma starts_with_ne a t : a <> 13 -> starts_with hdr_terminator (a :: t) = false.
Proof. intros H. cbn. replace (a =? 13) with false by (symmetry; apply N.eqb_neq; exact H). reflexivity. Qed.

(* found in l -> found at the same place in every extension of l *)
Lemma scan_term_ext l e : forall p n, scan_term l p = (true, n) -> scan_term (l ++ e) p = (true, n).
Proof.
  induction l as [|a t IH]; intros p n H; [discriminate|].
  rewrite scan_term_cons in H. change ((a :: t) ++ e) with (a :: (t ++ e)). rewrite scan_term_cons.
  rewrite at_least_spec in *.
  destruct (4 <=? length (a :: t))%nat eqn:E; [|discriminate].
  apply Nat.leb_le in E.
  replace (4 <=? length (a :: t ++ e))%nat with true
    by (symmetry; apply Nat.leb_le; cbn [length] in *; rewrite app_length; lia).
  change (a :: t ++ e) with ((a :: t) ++ e). rewrite (starts_with_app _ e E).
  destruct (starts_with hdr_terminator (a :: t)); [exact H | apply IH; exact H].
Qed.

(* found at n -> the search restarted from any offset up to n finds the same place *)
Lemma scan_term_skip : forall k l p n, scan_term l p = (true, n) -> p + N.of_nat k <= n ->
  scan_term (skipn k l) (p + N.of_nat k) = (true, n).
Proof.
  induction k as [|k IH]; intros l p n H L.
  - cbn [skipn N.of_nat]. rewrite N.add_0_r. exact H.
  - destruct l as [|a t]; [discriminate|].
    rewrite scan_term_cons in H.
    destruct (at_least (length hdr_terminator) (a :: t)); [|discriminate].
    destruct (starts_with hdr_terminator (a :: t)).
    + inversion H. subst. lia.
    + cbn [skipn]. replace (p + N.of_nat (S k)) with (p + 1 + N.of_nat k) by lia.
      apply IH; [exact H | lia].
Qed.

(* found at n in w ++ z, but the window w stops before n + 4: not found, and the resume offset <= n *)
Lemma scan_term_short w z : forall p n, scan_term (w ++ z) p = (true, n) -> lenN w + p < n + 4 ->
  exists q, scan_term w p = (false, q) /\ p <= q <= n.
Proof.
  induction w as [|a w IH]; intros p n H L.
  - exists p. split; [reflexivity|]. pose proof (scan_term_pos _ _ _ _ H). lia.
  - change ((a :: w) ++ z) with (a :: (w ++ z)) in H. rewrite scan_term_cons in H. rewrite scan_term_cons.
    rewrite at_least_spec in *.
    destruct (4 <=? length (a :: w ++ z))%nat eqn:E1; [|discriminate].
    destruct (4 <=? length (a :: w))%nat eqn:E2.
    + apply Nat.leb_le in E2. change (a :: w ++ z) with ((a :: w) ++ z) in H.
      rewrite (starts_with_app _ z E2) in H.
      destruct (starts_with hdr_terminator (a :: w)).
      * inversion H. subst. unfold lenN in L. lia.
      * pose proof (scan_term_pos _ _ _ _ H) as Hp.
        destruct (IH (p + 1) n H) as (q & Eq & Bq); [rewrite lenN_cons in L; lia|].
        exists q. split; [exact Eq | lia].
    + exists p. split; [reflexivity|].
      destruct (starts_with hdr_terminator (a :: w ++ z)).
      * inversion H. lia.
      * pose proof (scan_term_pos _ _ _ _ H). lia.
Qed.

Lemma scan_window_found H post hepos n : scan_term H 0 = (true, n) -> hepos <= n ->
  scan_term (dropN hepos (H ++ post)) hepos = (true, n).
Proof.
  intros S L. pose proof (scan_term_ext H post 0 n S) as S1.
  pose proof (scan_term_skip (N.to_nat hepos) _ 0 n S1) as S2.
  rewrite N2Nat.id, N.add_0_l in S2. apply S2. exact L.
Qed.

Lemma scan_window_short H w z hepos n : scan_term H 0 = (true, n) -> hepos <= n ->
  H = w ++ z -> lenN w < n + 4 ->
  exists q, scan_term (dropN hepos w) hepos = (false, q) /\ hepos <= q <= n.
Proof.
  intros S L E Lw. subst H.
  pose proof (scan_term_skip (N.to_nat hepos) _ 0 n S) as S2.
  rewrite N2Nat.id, N.add_0_l in S2. specialize (S2 L). fold (dropN hepos (w ++ z)) in S2.
  destruct (N.le_gt_cases hepos (lenN w)) as [Hle | Hgt].
  - rewrite dropN_app_le in S2 by exact Hle.
    apply (scan_term_short _ _ _ _ S2). rewrite lenN_dropN. lia.
  - rewrite dropN_all by lia. exists hepos. split; [reflexivity | lia].
Qed.

(* the search over a rendered header block *)
Lemma scan_skip pre : forall l p, no_cr pre -> (4 <= length l)%nat ->
  scan_term (pre ++ l) p = scan_term l (p + lenN pre).
Proof.
  induction pre as [|a pre IH]; intros l p H L.
  - cbn [app]. rewrite lenN_nil, N.add_0_r. reflexivity.
  - inversion H as [|? ? Ha Hp]; subst.
    change ((a :: pre) ++ l) with (a :: (pre ++ l)). rewrite scan_term_cons, at_least_spec.
    replace (4 <=? length (a :: pre ++ l))%nat with true
      by (symmetry; apply Nat.leb_le; cbn [length]; rewrite app_length; lia).
    rewrite (starts_with_ne a _ Ha). rewrite (IH l (p + 1) Hp L), lenN_cons. f_equal. lia.
Qed.

Lemma scan_crlf_line fl l p : fl <> [] -> no_cr fl -> (4 <= length l)%nat ->
  scan_term ([13; 10] ++ fl ++ l) p = scan_term l (p + 2 + lenN fl).
Proof.
  intros Hne Hc L. destruct fl as [|c fl']; [contradiction|].
  inversion Hc as [|? ? Hc0 Hc']; subst.
  change ([13; 10] ++ (c :: fl') ++ l) with (13 :: ((10 :: c :: fl') ++ l)).
  rewrite scan_term_cons, at_least_spec.
  replace (4 <=? length ((13 :: (10 :: c :: fl') ++ l)%N))%nat with true
    by (symmetry; apply Nat.leb_le; cbn [length]; rewrite app_length; cbn [length]; lia).
  replace (starts_with hdr_terminator (13 :: (10 :: c :: fl') ++ l)) with false.
  2:{ symmetry. cbn. replace (c =? 13) with false by (symmetry; apply N.eqb_neq; exact Hc0). reflexivity. }
  rewrite scan_skip; [|constructor; [discriminate | exact Hc] | exact L].
  f_equal. rewrite !lenN_cons. lia.
Qed.

Lemma field_line_ne a f : wf_field a f = true -> field_line f <> [].
Proof.
  unfold wf_field. rewrite !andb_true_iff. intros [[[[Hn _] _] _] _].
  destruct (wf_name_nosep _ Hn) as (_ & _ & _ & Hne).
  unfold field_line. destruct (f_name f); [contradiction | discriminate].
Qed.

Lemma scan_fields a fs : forall p, forallb (wf_field a) fs = true ->
  scan_term ([13; 10] ++ concat (map render_field fs) ++ [13; 10]) p
  = (true, p + lenN (concat (map render_field fs))).
Proof.
  induction fs as [|f fs IH]; intros p H.
  - cbn [map concat app]. rewrite lenN_nil, N.add_0_r. reflexivity.
  - cbn [forallb] in H. apply andb_true_iff in H. destruct H as [Hf Hfs].
    cbn [map concat]. rewrite render_field_line, <- !app_assoc.
    destruct (field_line_clean a f Hf) as [C1 _].
    rewrite (scan_crlf_line (field_line f) _ p (field_line_ne a f Hf) C1).
    2:{ rewrite !app_length. cbn [length]. lia. }
    change ([13; 10] ++ concat (map render_field fs) ++ [13; 10])
      with ([13; 10] ++ concat (map render_field fs) ++ [13; 10]).
    rewrite (IH _ Hfs). f_equal. rewrite !lenN_app. change (lenN [13; 10]) with 2. lia.
Qed.

Lemma scan_head lo hi a m b fs : wf_msg lo hi a m = true -> forallb (wf_field b) fs = true ->
  exists n, scan_term (render_head m fs) 0 = (true, n) /\ lenN (render_head m fs) = n + 4.
Proof.
  intros Hm Hfs. destruct (status_line_clean _ _ _ _ Hm) as [C1 _].
  exists (lenN (status_line m) + lenN (concat (map render_field fs))). split.
  - rewrite render_head_lines. rewrite scan_skip; [|exact C1 | rewrite !app_length; cbn [length]; lia].
    rewrite (scan_fields b fs _ Hfs). f_equal.
  - rewrite lenN_head. lia.
Qed.

(* ------------------------------------------------------------------ the search for the end of a line *)
Lemma findeol_cons2 a b t p :
  findeol (a :: b :: t) p = if is_eol a b then p else findeol (b :: t) (p + 1).
Proof. reflexivity. Qed.

Lemma is_eol_ne a b : a <> 13 -> is_eol a b = false.
Proof. intros H. rewrite is_eol_spec. apply andb_false_iff. left. apply N.eqb_neq. exact H. Qed.

Lemma findeol_nocr pre post : forall p, no_cr pre -> findeol (pre ++ [13; 10] ++ post) p = p + lenN pre.
Proof.
  induction pre as [|a pre IH]; intros p H.
  - cbn [app]. rewrite findeol_cons2. rewrite (proj2 (is_eol_true 13 10)) by auto.
    rewrite lenN_nil. lia.
  - inversion H as [|? ? Ha Hp]; subst.
    change ((a :: pre) ++ [13; 10] ++ post) with (a :: (pre ++ [13; 10] ++ post)).
    specialize (IH (p + 1) Hp).
    destruct (pre ++ [13; 10] ++ post) as [|b t] eqn:E; [destruct pre; discriminate|].
    rewrite findeol_cons2, (is_eol_ne a b Ha), IH, lenN_cons. lia.
Qed.

Lemma findeol_noeol w : forall p, no_cr w -> findeol w p = p + lenN w.
Proof.
  induction w as [|a w IH]; intros p H.
  - cbn [findeol]. rewrite lenN_nil. lia.
  - inversion H as [|? ? Ha Hp]; subst. destruct w as [|b t].
    + cbn [findeol]. rewrite lenN_cons, lenN_nil. lia.
    + rewrite findeol_cons2, (is_eol_ne a b Ha), (IH (p + 1) Hp), (lenN_cons a). lia.
Qed.

Lemma findeol_cr_end pre : forall p, no_cr pre -> findeol (pre ++ [13]) p = p + lenN pre + 1.
Proof.
  induction pre as [|a pre IH]; intros p H.
  - cbn [app findeol]. rewrite lenN_nil. lia.
  - inversion H as [|? ? Ha Hp]; subst.
    change ((a :: pre) ++ [13]) with (a :: (pre ++ [13])). specialize (IH (p + 1) Hp).
    destruct (pre ++ [13]) as [|b t] eqn:E; [destruct pre; discriminate|].
    rewrite findeol_cons2, (is_eol_ne a b Ha), IH, lenN_cons. lia.
Qed.

(* the window stops inside "line CRLF": no EOL is seen *)
Lemma findeol_window_short line R w z : no_cr line ->
  w ++ z = line ++ [13; 10] ++ R -> lenN w < lenN line + 2 -> findeol w 0 = lenN w.
Proof.
  intros Hc E L. destruct (N.le_gt_cases (lenN w) (lenN line)) as [Hle | Hgt].
  - destruct (app_split_le line ([13; 10] ++ R) w z (eq_sym E)) as (l' & E1 & _); [unfold lenN in Hle; lia|].
    subst line. unfold no_cr in Hc. rewrite Forall_app in Hc. destruct Hc as [Hw _].
    rewrite (findeol_noeol w 0 Hw). lia.
  - destruct (split_le w z line ([13; 10] ++ R) E ltac:(lia)) as (w' & E1 & E2).
    subst w. rewrite lenN_app in *.
    destruct w' as [|c [|c' w'']]; [rewrite lenN_nil in *; lia | | rewrite !lenN_cons in L; lia].
    cbn in E2. inversion E2. subst. rewrite (findeol_cr_end line 0 Hc). change (lenN [13]) with 1. lia.
Qed.

(* ------------------------------------------------------------------ what a wait delivers *)
Lemma net_read_exact : forall segs cap need acc, 1 <= need <= cap ->
  (need <= lenN (concat segs) ->
   exists chunks segs' new, net_read segs cap need acc = NrData chunks segs' /\
     concat (rev chunks) = concat (rev acc) ++ new /\ new ++ concat segs' = concat segs /\
     need <= lenN new <= cap /\ (netmu segs' < netmu segs)%nat) /\
  (lenN (concat segs) < need -> net_read segs cap need acc = NrEnd).
Proof.
  induction segs as [|s rest IH]; intros cap need acc H; cbn [net_read].
  - split; [cbn [concat]; rewrite lenN_nil; lia | reflexivity].
  - destruct (lenN s =? 0) eqn:E0.
    + apply N.eqb_eq in E0. apply lenN_0 in E0. subst s. cbn [concat app].
      destruct (IH cap need acc H) as [I1 I2]. split; [|exact I2].
      intros Hn. destruct (I1 Hn) as (chunks & segs' & new & F1 & F2 & F3 & F4 & F5).
      exists chunks, segs', new. repeat split; try assumption; try lia.
      unfold netmu in *. cbn [concat length app]. lia.
    + apply N.eqb_neq in E0.
      replace (cap =? 0) with false by (symmetry; apply N.eqb_neq; lia).
      cbn [concat]. rewrite lenN_app.
      destruct (lenN s <=? cap) eqn:E1.
      * apply N.leb_le in E1. destruct (need <=? lenN s) eqn:E2.
        -- apply N.leb_le in E2. split; [|lia]. intros _.
           exists (s :: acc), rest, s. split; [reflexivity|].
           cbn [rev]. rewrite concat_app. cbn [concat]. rewrite app_nil_r.
           repeat split; try lia. unfold netmu. cbn [concat length]. rewrite app_length.
           unfold lenN in E0. lia.
        -- apply N.leb_gt in E2.
           destruct (IH (cap - lenN s) (need - lenN s) (s :: acc) ltac:(lia)) as [I1 I2]. split.
           ++ intros Hn. destruct (I1 ltac:(lia)) as (chunks & segs' & new & F1 & F2 & F3 & F4 & F5).
              exists chunks, segs', (s ++ new). split; [exact F1|].
              rewrite F2. cbn [rev]. rewrite concat_app. cbn [concat]. rewrite app_nil_r, <- !app_assoc.
              rewrite F3. repeat split; try reflexivity; try (rewrite lenN_app; lia).
              unfold netmu in *. cbn [concat length]. rewrite app_length. lia.
           ++ intros Hn. apply I2. lia.
      * apply N.leb_gt in E1.
        replace (need <=? cap) with true by (symmetry; apply N.leb_le; lia).
        split; [|lia]. intros _.
        exists (takeN cap s :: acc), (dropN cap s :: rest), (takeN cap s). split; [reflexivity|].
        cbn [rev]. rewrite concat_app. cbn [concat]. rewrite app_nil_r, app_assoc, take_drop.
        rewrite lenN_takeN. repeat split; try reflexivity; try lia.
        unfold netmu. cbn [concat length]. rewrite !app_length. unfold dropN. rewrite skipn_length.
        unfold lenN in E1. lia.
Qed.

Lemma wait_exact r len segs e : rdr_ok r -> avail r < len <= wmax ->
  (len <= lenN (r_win r ++ concat segs) ->
   exists r' segs', rdr_wait r len (mkNet segs e) = Ok (WStatus RsOk r' (mkNet segs' e)) /\ rdr_ok r' /\
     r_win r' ++ concat segs' = r_win r ++ concat segs /\ len <= lenN (r_win r') /\
     (netmu segs' < netmu segs)%nat) /\
  (lenN (r_win r ++ concat segs) < len -> e = EndEof ->
   exists r2, rdr_wait r len (mkNet segs e) = Ok (WStatus RsEof r2 (mkNet [] EndEof)) /\ rdr_ok r2 /\
     r_win r2 = r_win r).
Proof.
  intros R [H1 H2]. pose proof (avail_win r R) as Av. pose proof R as [P D W C].
  unfold wmax in H2. unfold ssize_max in C.
  unfold rdr_wait. replace (len <=? avail r) with false by (symmetry; apply N.leb_gt; exact H1).
  set (r1 := if r_buflen r <? len then _ else r).
  assert (R1 : rdr_ok r1 /\ r_win r1 = r_win r /\ avail r1 = avail r /\ len <= r_buflen r1).
  { subst r1. destruct (r_buflen r <? len) eqn:E; [apply N.ltb_lt in E | apply N.ltb_ge in E].
    - assert (Hw : wrap64 (r_buflen r * 2) = r_buflen r * 2)
        by (unfold wrap64; apply N.mod_small; unfold two64; lia).
      rewrite Hw.
      set (nb := if r_buflen r * 2 <? len then len else r_buflen r * 2).
      assert (len <= nb /\ nb <= 9223372036854775807).
      { subst nb. destruct (r_buflen r * 2 <? len) eqn:E2;
          [apply N.ltb_lt in E2 | apply N.ltb_ge in E2]; lia. }
      split; [|repeat split; cbn; unfold avail in *; cbn; lia].
      constructor; cbn; unfold avail in *; unfold ssize_max; lia.
    - repeat split; try assumption; lia. }
  destruct R1 as (R1 & W1 & A1 & L1). clearbody r1.
  set (r2 := if r_buflen r1 - r_bufpos r1 <? len then _ else r1).
  assert (R2 : rdr_ok r2 /\ r_win r2 = r_win r /\ avail r2 = avail r /\ r_bufpos r2 + len <= r_buflen r2).
  { subst r2. pose proof R1 as [P1 D1 Wn1 C1].
    destruct (r_buflen r1 - r_bufpos r1 <? len) eqn:E; [apply N.ltb_lt in E | apply N.ltb_ge in E].
    - split; [constructor; cbn; unfold avail in *; lia|].
      split; [cbn; exact W1|]. split; [unfold avail in *; cbn; lia|]. cbn. lia.
    - repeat split; try assumption; lia. }
  destruct R2 as (R2 & W2 & A2 & L2). clearbody r2.
  pose proof R2 as [P2 D2 Wn2 C2]. unfold ssize_max in C2. unfold avail in A2, H1.
  assert (Hneed : sub64 (wrap64 (r_bufpos r2 + len)) (r_datalen r2) = r_bufpos r2 + len - r_datalen r2).
  { unfold wrap64, sub64. rewrite (N.mod_small (r_bufpos r2 + len)) by (unfold two64; lia).
    replace (r_bufpos r2 + len + two64 - r_datalen r2) with ((r_bufpos r2 + len - r_datalen r2) + 1 * two64) by lia.
    rewrite N.mod_add by (unfold two64; lia). apply N.mod_small. unfold two64. lia. }
  rewrite Hneed.
  replace (r_buflen r2 - r_datalen r2 =? 0) with false by (symmetry; apply N.eqb_neq; lia).
  replace (ssize_max <? r_buflen r2 - r_datalen r2) with false
    by (symmetry; apply N.ltb_ge; unfold ssize_max; lia).
  cbn [n_segs n_end].
  destruct (net_read_exact segs (r_buflen r2 - r_datalen r2) (r_bufpos r2 + len - r_datalen r2) []
              ltac:(lia)) as [NR1 NR2].
  rewrite lenN_app. unfold avail in Av. split.
  - intros Hl. destruct (NR1 ltac:(lia)) as (chunks & segs' & new & F1 & F2 & F3 & F4 & F5).
    rewrite F1. cbn [rev concat app] in F2.
    eexists. exists segs'. split; [reflexivity|]. cbn [r_win]. rewrite frev_rev, F2.
    split; [constructor; cbn; unfold ssize_max; try lia; rewrite lenN_app; lia|].
    split; [rewrite W2, <- app_assoc, F3; reflexivity|].
    split; [rewrite lenN_app, W2; lia | exact F5].
  - intros Hl ->. rewrite (NR2 ltac:(lia)).
    exists r2. split; [reflexivity|]. split; [exact R2 | exact W2].
Qed.
