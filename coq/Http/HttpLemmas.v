(* Basic facts about the helper functions of HttpModel / HttpStrto used by HttpSafe and HttpDecode:
   list/N conversions, the line functions (cut_line / count_lines / findeol), the terminator scan,
   and "a parse over a buffer that contains a NUL never leaves the buffer". *)
From Coq Require Import Arith NArith ZArith List Bool Lia.
From LCP Require Import Base.CheckedMem Gen.Repo_http Http.HttpStrto Http.HttpModel.
Import ListNotations.
Local Open Scope N_scope.

(* ------------------------------------------------------------------ constants as literals *)
Lemma eol_eq : eol = [13; 10]. Proof. reflexivity. Qed.
Lemma term_eq : hdr_terminator = [13; 10; 13; 10]. Proof. reflexivity. Qed.
Lemma repo_terminated_true : repo_terminated = true. Proof. reflexivity. Qed.

Lemma is_eol_spec a b : is_eol a b = (a =? 13) && (b =? 10).
Proof. unfold is_eol. rewrite eol_eq. cbn. rewrite !andb_true_r. reflexivity. Qed.

Lemma is_eol_true a b : is_eol a b = true <-> a = 13 /\ b = 10.
Proof.
  rewrite is_eol_spec, andb_true_iff, !N.eqb_eq. tauto.
Qed.

(* ------------------------------------------------------------------ lenN / takeN / dropN *)
Lemma lenN_nil {A} : lenN (@nil A) = 0. Proof. reflexivity. Qed.
Lemma lenN_cons {A} (x : A) l : lenN (x :: l) = lenN l + 1.
Proof. unfold lenN. cbn [length]. lia. Qed.
Lemma lenN_app {A} (a b : list A) : lenN (a ++ b) = lenN a + lenN b.
Proof. unfold lenN. rewrite app_length. lia. Qed.
Lemma lenN_takeN {A} n (l : list A) : lenN (takeN n l) = N.min n (lenN l).
Proof. unfold lenN, takeN. rewrite firstn_length. lia. Qed.
Lemma lenN_dropN {A} n (l : list A) : lenN (dropN n l) = lenN l - n.
Proof. unfold lenN, dropN. rewrite skipn_length. lia. Qed.
Lemma take_drop {A} n (l : list A) : takeN n l ++ dropN n l = l.
Proof. apply firstn_skipn. Qed.
Lemma takeN_all {A} n (l : list A) : lenN l <= n -> takeN n l = l.
Proof. unfold lenN, takeN. intros H. apply firstn_all2. lia. Qed.
Lemma takeN_app_exact {A} (a b : list A) : takeN (lenN a) (a ++ b) = a.
Proof.
  unfold takeN, lenN. rewrite Nat2N.id.
  rewrite firstn_app, Nat.sub_diag, firstn_all. cbn. apply app_nil_r.
Qed.
Lemma dropN_app_exact {A} (a b : list A) : dropN (lenN a) (a ++ b) = b.
Proof.
  unfold dropN, lenN. rewrite Nat2N.id. rewrite skipn_app, Nat.sub_diag, skipn_all. reflexivity.
Qed.
Lemma lenN_0 {A} (l : list A) : lenN l = 0 -> l = [].
Proof. destruct l; [reflexivity|]. rewrite lenN_cons. lia. Qed.

Lemma frev_rev {A} (l : list A) : frev l = rev l.
Proof. unfold frev. symmetry. apply rev_alt. Qed.

Lemma lenN_concat_rev (ll : list (list N)) :
  lenN (concat (rev ll)) = fold_right (fun l a => lenN l + a) 0 ll.
Proof.
  induction ll as [|l ll IH]; [reflexivity|].
  cbn [rev fold_right]. rewrite concat_app, lenN_app, IH. cbn [concat]. rewrite app_nil_r. lia.
Qed.

(* ------------------------------------------------------------------ cut_line / count_lines *)

Lemma count_lines_cons2 a b t mid :
  count_lines (a :: b :: t) mid = if is_eol a b then 1 + count_lines t false else count_lines (b :: t) true.
Proof. reflexivity. Qed.

(* a successful cut splits the list around the first EOL, and the line count drops by one *)
Lemma cut_line_some l : forall ln r,
  cut_line l = Some (ln, r) ->
  l = ln ++ [13; 10] ++ r /\ forall mid, count_lines l mid = 1 + count_lines r false.
Proof.
  induction l as [|a t IH]; intros ln r H; [discriminate|].
  cbn [cut_line] in H. destruct t as [|b t']; [discriminate|].
  destruct (is_eol a b) eqn:E.
  - inversion H; subst. apply is_eol_true in E. destruct E; subst. split; [reflexivity|].
    intros mid. rewrite count_lines_cons2. rewrite (proj2 (is_eol_true 13 10)) by auto. reflexivity.
  - destruct (cut_line (b :: t')) as [[ln' r']|] eqn:C; [|discriminate].
    inversion H; subst. destruct (IH _ _ eq_refl) as [E1 E2]. split.
    + cbn. f_equal. exact E1.
    + intros mid. rewrite count_lines_cons2, E. apply E2.
Qed.

(* "tail-good": the rest of a header block: either ends in EOL EOL, or is the last EOL itself *)
Definition ends_term (l : list N) : Prop := exists x, l = x ++ [13; 10; 13; 10].
Definition tail_good (l : list N) : Prop := ends_term l \/ l = [13; 10].

Lemma cut_line_ends_term x : forall l, l = x ++ [13; 10; 13; 10] ->
  exists ln r, cut_line l = Some (ln, r) /\ tail_good r.
Proof.
  induction x as [|a x IH]; intros l ->.
  - exists [], [13; 10]. split; [reflexivity | right; reflexivity].
  - cbn [app cut_line].
    destruct x as [|b x'].
    + (* a :: CR LF CR LF: (a, CR) is not an EOL *)
      cbn [app]. replace (is_eol a 13) with false.
      2:{ symmetry. rewrite is_eol_spec. cbn. apply andb_false_r. }
      destruct (IH _ eq_refl) as (ln & r & C & T). cbn [app] in C. rewrite C.
      exists (a :: ln), r. split; [reflexivity | exact T].
    + cbn [app]. destruct (is_eol a b) eqn:E.
      * exists [], (x' ++ [13; 10; 13; 10]). split; [reflexivity|]. left. exists x'. reflexivity.
      * destruct (IH _ eq_refl) as (ln & r & C & T). cbn [app] in C. rewrite C.
        exists (a :: ln), r. split; [reflexivity | exact T].
Qed.

Lemma count_tail_good l : tail_good l -> 1 <= count_lines l false.
Proof.
  intros [[x ->] | ->]; [|cbn; lia].
  destruct (cut_line_ends_term x _ eq_refl) as (ln & r & C & _).
  destruct (cut_line_some _ _ _ C) as [_ H]. rewrite H. lia.
Qed.

Lemma count_ends_term l : ends_term l -> 2 <= count_lines l false.
Proof.
  intros [x ->].
  destruct (cut_line_ends_term x _ eq_refl) as (ln & r & C & T).
  destruct (cut_line_some _ _ _ C) as [_ H]. rewrite H. pose proof (count_tail_good r T). lia.
Qed.

(* ------------------------------------------------------------------ findeol *)
Lemma findeol_bound l : forall pos, pos <= findeol l pos <= pos + lenN l.
Proof.
  induction l as [|a t IH]; intros pos; cbn [findeol]; [rewrite lenN_nil; lia|].
  rewrite lenN_cons. destruct t as [|b t'].
  - rewrite lenN_nil. lia.
  - destruct (is_eol a b); [lia|]. specialize (IH (pos + 1)). lia.
Qed.

(* found: the EOL and everything before it is inside the list *)
Lemma findeol_found l : forall pos, findeol l pos <> pos + lenN l ->
  findeol l pos + 2 <= pos + lenN l /\
  exists pre post, l = pre ++ [13; 10] ++ post /\ findeol l pos = pos + lenN pre.
Proof.
  induction l as [|a t IH]; intros pos H; cbn [findeol] in *.
  - rewrite lenN_nil in H. lia.
  - destruct t as [|b t'].
    + rewrite lenN_cons, lenN_nil in H. lia.
    + destruct (is_eol a b) eqn:E.
      * apply is_eol_true in E. destruct E; subst. rewrite !lenN_cons. split; [lia|].
        exists [], t'. split; [reflexivity | rewrite lenN_nil; lia].
      * rewrite lenN_cons in H.
        destruct (IH (pos + 1)) as [B (pre & post & E1 & E2)]; [lia|].
        rewrite lenN_cons. split; [lia|].
        exists (a :: pre), post. split; [cbn; f_equal; exact E1 | rewrite lenN_cons; lia].
Qed.

(* ------------------------------------------------------------------ the terminator scan *)
Lemma starts_with_term l :
  starts_with [13; 10; 13; 10] l = true -> exists post, l = [13; 10; 13; 10] ++ post.
Proof.
  destruct l as [|a [|b [|c [|d post]]]]; cbn; try discriminate;
    try (rewrite ?andb_false_r; discriminate).
  rewrite andb_true_r, !andb_true_iff, !N.eqb_eq. intros (-> & -> & -> & ->). eauto.
Qed.

Lemma scan_term_found l : forall hepos p,
  scan_term l hepos = (true, p) ->
  exists pre post, l = pre ++ [13; 10; 13; 10] ++ post /\ p = hepos + lenN pre.
Proof.
  induction l as [|a t IH]; intros hepos p H; cbn [scan_term] in H; [discriminate|].
  destruct (at_least (length hdr_terminator) (a :: t)); [|discriminate].
  rewrite term_eq in H.
  destruct (starts_with [13; 10; 13; 10] (a :: t)) eqn:Sw.
  - inversion H; subst. destruct (starts_with_term _ Sw) as [post E].
    exists [], post. split; [exact E | rewrite lenN_nil; lia].
  - destruct (IH _ _ H) as (pre & post & E1 & E2).
    exists (a :: pre), post. split; [cbn; f_equal; exact E1 | rewrite lenN_cons; lia].
Qed.

Lemma scan_term_pos l : forall hepos f p, scan_term l hepos = (f, p) -> hepos <= p <= hepos + lenN l.
Proof.
  induction l as [|a t IH]; intros hepos f p H; cbn [scan_term] in H.
  - inversion H; subst. rewrite lenN_nil. lia.
  - rewrite lenN_cons.
    destruct (at_least (length hdr_terminator) (a :: t)); [|inversion H; subst; lia].
    destruct (starts_with hdr_terminator (a :: t)); [inversion H; subst; lia|].
    apply IH in H. lia.
Qed.

(* ------------------------------------------------------------------ parsing a buffer that holds a NUL *)
Local Open Scope res_scope.

Definition nul_at (buf : list N) (z : nat) : Prop := nth_error buf z = Some 0.

Lemma rd_le_nul buf z i : nul_at buf z -> (i <= z)%nat -> exists c, rd buf i = Ok c /\ (c = 0 \/ (i < z)%nat).
Proof.
  intros Hz Hi. unfold rd. destruct (nth_error buf i) as [c|] eqn:E.
  - exists c. split; [reflexivity|]. destruct (Nat.eq_dec i z) as [->|]; [|right; lia].
    unfold nul_at in Hz. rewrite Hz in E. inversion E. left; reflexivity.
  - exfalso. apply nth_error_None in E. assert (z < length buf)%nat by (apply nth_error_Some; unfold nul_at in Hz; congruence). lia.
Qed.

Lemma is_space_nz c : is_space c = true -> c <> 0.
Proof. intros H ->. discriminate. Qed.

Lemma skip_space_ok buf z : nul_at buf z -> forall fuel i, (i <= z)%nat -> (z - i < fuel)%nat ->
  exists j, skip_space fuel buf i = Ok j /\ (i <= j <= z)%nat.
Proof.
  intros Hz. induction fuel as [|f IH]; intros i Hi Hf; [lia|].
  cbn [skip_space]. destruct (rd_le_nul buf z i Hz Hi) as (c & R & D). rewrite R. cbn [bind].
  destruct (is_space c) eqn:Sp.
  - destruct D as [->|D]; [discriminate|].
    destruct (IH (S i)) as (j & E & B); [lia | lia |]. exists j. split; [exact E | lia].
  - exists i. split; [reflexivity | lia].
Qed.

Lemma digit_in_nz base c v : digit_in base c = Some v -> c <> 0.
Proof. intros H ->. discriminate. Qed.

Lemma digit_run_ok buf z base : nul_at buf z -> forall fuel i acc ovf, (i <= z)%nat -> (z - i < fuel)%nat ->
  exists a j o, digit_run fuel buf base i acc ovf = Ok (a, j, o) /\ (i <= j <= z)%nat.
Proof.
  intros Hz. induction fuel as [|f IH]; intros i acc ovf Hi Hf; [lia|].
  cbn [digit_run]. destruct (rd_le_nul buf z i Hz Hi) as (c & R & D). rewrite R. cbn [bind].
  destruct (digit_in base c) as [v|] eqn:Dg.
  - destruct D as [->|D]; [discriminate|].
    destruct (ovf || (two64 <=? acc * base + v)).
    + destruct (IH (S i) 0 true) as (a & j & o & E & B); [lia | lia |]. exists a, j, o. split; [exact E | lia].
    + destruct (IH (S i) (acc * base + v) false) as (a & j & o & E & B); [lia | lia |].
      exists a, j, o. split; [exact E | lia].
  - exists acc, i, ovf. split; [reflexivity | lia].
Qed.

Lemma hex_prefix_ok buf z base i1 : nul_at buf z -> (i1 <= z)%nat ->
  exists i2, hex_prefix buf base i1 = Ok i2 /\ (i1 <= i2 <= z)%nat.
Proof.
  intros Hz Hi. unfold hex_prefix. destruct (base =? 16); [|exists i1; split; [reflexivity | lia]].
  destruct (rd_le_nul buf z i1 Hz Hi) as (c0 & R0 & D0). rewrite R0. cbn [bind].
  destruct (c0 =? 48) eqn:E0; [|exists i1; split; [reflexivity | lia]].
  apply N.eqb_eq in E0. subst c0. destruct D0 as [D0|D0]; [discriminate|].
  destruct (rd_le_nul buf z (S i1) Hz ltac:(lia)) as (c1 & R1 & D1). rewrite R1. cbn [bind].
  destruct ((c1 =? 120) || (c1 =? 88)) eqn:E1; [|exists i1; split; [reflexivity | lia]].
  destruct D1 as [->|D1]; [discriminate|].
  destruct (rd_le_nul buf z (S (S i1)) Hz ltac:(lia)) as (c2 & R2 & D2). rewrite R2. cbn [bind].
  destruct (digit_in 16 c2); [exists (S (S i1)) | exists i1]; (split; [reflexivity | lia]).
Qed.

Lemma strtoumax_ok buf z base : nul_at buf z ->
  exists v e er, strtoumax_m buf base = Ok (v, e, er) /\ (e <= z)%nat.
Proof.
  intros Hz. unfold strtoumax_m.
  assert (Hlen : (z < length buf)%nat) by (apply nth_error_Some; unfold nul_at in Hz; congruence).
  destruct (skip_space_ok buf z Hz (S (length buf)) 0%nat) as (i & Ei & Bi); [lia | lia |].
  rewrite Ei. cbn [bind].
  destruct (rd_le_nul buf z i Hz ltac:(lia)) as (c & R & D). rewrite R. cbn [bind].
  set (i1 := if (c =? 45) || (c =? 43) then S i else i).
  assert (Hi1 : (i1 <= z)%nat).
  { subst i1. destruct ((c =? 45) || (c =? 43)) eqn:E; [|lia].
    destruct D as [->|D]; [discriminate | lia]. }
  destruct (hex_prefix_ok buf z base i1 Hz Hi1) as (i2 & E2 & B2). rewrite E2. cbn [bind].
  destruct (digit_run_ok buf z base Hz (S (length buf)) i2 0 false) as (a & j & o & Ej & Bj); [lia | lia |].
  rewrite Ej. cbn [bind].
  destruct (Nat.eqb j i2); [do 3 eexists; split; [reflexivity | lia]|].
  destruct o; do 3 eexists; (split; [reflexivity | lia]).
Qed.

(* PARSENUM_EX on any object that contains a NUL: a result, never a Fault *)
Lemma parsenum_ok buf z mn mx tm base trailing : nul_at buf z ->
  exists p, parsenum_unsigned_m buf mn mx tm base trailing = Ok p.
Proof.
  intros Hz. unfold parsenum_unsigned_m.
  destruct (strtoumax_ok buf z base Hz) as (v & e & er & E & B). rewrite E. cbn [bind].
  destruct (Nat.eqb e 0); [eauto|].
  assert (Hlen : (z < length buf)%nat) by (apply nth_error_Some; unfold nul_at in Hz; congruence).
  assert (exists ce, (if trailing then Ok 0 else rd buf e) = Ok ce) as [ce Ece].
  { destruct trailing; [eauto|]. destruct (rd_le_nul buf z e Hz B) as (c & R & _). eauto. }
  rewrite Ece. cbn [bind].
  destruct (negb trailing && negb (ce =? 0)); [eauto|].
  destruct ((v <? mn) || (mx <? v) || (tm <? v)); [eauto|].
  destruct (negb (v =? 0)); [|eauto].
  destruct (skip_space_ok buf z Hz (S (length buf)) 0%nat) as (i & Ei & Bi); [lia | lia |].
  rewrite Ei. cbn [bind].
  destruct (rd_le_nul buf z i Hz ltac:(lia)) as (c & R & _). rewrite R. cbn [bind].
  destruct (c =? 45); eauto.
Qed.

Lemma nul_at_cstr s : nul_at (cstr s) (length s).
Proof. unfold nul_at, cstr. rewrite nth_error_app2 by lia. rewrite Nat.sub_diag. reflexivity. Qed.

Lemma nul_at_upd l : forall i, (i < length l)%nat -> nul_at (upd l i 0) i.
Proof.
  induction l as [|x t IH]; intros i H; [cbn in H; lia|].
  destruct i; [reflexivity|]. cbn [upd]. unfold nul_at. cbn [nth_error]. apply IH. cbn in H. lia.
Qed.
