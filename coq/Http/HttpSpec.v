(* SPEC for the HTTP client, written from RFC 7230's message grammar and the documentation in
   http.h, independently of the control flow of http.c:

   - [response]: a well-formed HTTP/1.x response as an abstract object (interim 1xx messages, final
     status line, header fields with the optional white space the server chose around each value,
     a framing, a body); [wf_response] says when it is well formed; [render] serialises it;
     [expect] is what the caller's callback must then receive (C09);
   - [cb_ok]: the bounds every callback argument must satisfy whatever the server sent (C08);
   - [request_layout]: the documented bytes of a request (C09).

   Everything is executable (the correspondence run renders generated responses with [render]).
   Two limits of the implementation are part of well-formedness because the property is stated for
   every segmentation: a chunk-size line (digits and extension) has at most maxchlen - 2 bytes and a
   header block at most maxhdr + 1 bytes. *)
From Coq Require Import NArith ZArith List Bool.
From LCP Require Import Gen.Repo_http Http.HttpStrto Http.HttpModel.
Import ListNotations.
Local Open Scope N_scope.

Definition CR : N := 13.
Definition LF : N := 10.
Definition SP : N := 32.
Definition HT : N := 9.
Definition COLON : N := 58.
Definition crlf : list N := [CR; LF].

(* ------------------------------------------------------------------ the abstract response *)
Record hfield := mkF {
  f_name : list N;
  f_value : list N;
  f_lead : list N;            (* optional white space the server put before the value *)
  f_trail : list N }.         (* ... and after it *)

Record chunk := mkC {
  c_digits : list N;          (* the size as the server spelled it (hex, any case, leading zeros) *)
  c_ext : list N;             (* chunk extension, empty or beginning with ';' *)
  c_data : list N }.

Inductive framing :=
| FrNone                                                   (* no body: HEAD, 204, 304 *)
| FrClen (pos : nat) (digits : list N)                     (* Content-Length, placed before field #pos; the
                                                              length as the server wrote it: 1*DIGIT, leading
                                                              zeros allowed (RFC 7230 3.3.2) *)
| FrChunked (pos : nat) (chunks : list chunk)
            (last_digits last_ext trailer : list N)        (* last chunk "0...", then whatever follows *)
| FrClose.                                                 (* body ends when the server closes *)

Record msg := mkM {
  m_minor : list N;           (* decimal digits of the minor version *)
  m_status : N;
  m_reason : list N;
  m_fields : list hfield }.

Record response := mkResp {
  p_interim : list msg;       (* 1xx messages sent first *)
  p_final : msg;
  p_framing : framing;
  p_body : list N }.          (* for FrClen / FrClose; chunked bodies are the chunks' data *)

Definition resp_body (r : response) : list N :=
  match p_framing r with
  | FrNone => []
  | FrClen _ _ => p_body r
  | FrChunked _ cs _ _ _ => concat (map c_data cs)
  | FrClose => p_body r
  end.

(* ------------------------------------------------------------------ rendering *)
Fixpoint dec_aux (fuel : nat) (n : N) (acc : list N) : list N :=
  match fuel with
  | O => acc
  | S f =>
    let acc' := (48 + n mod 10) :: acc in
    if n <? 10 then acc' else dec_aux f (n / 10) acc'
  end.
Definition dec (n : N) : list N := dec_aux (S (N.size_nat n)) n [].

Definition name_clen : list N := [67; 111; 110; 116; 101; 110; 116; 45; 76; 101; 110; 103; 116; 104].
Definition name_te : list N :=
  [84; 114; 97; 110; 115; 102; 101; 114; 45; 69; 110; 99; 111; 100; 105; 110; 103].
Definition value_chunked : list N := [99; 104; 117; 110; 107; 101; 100].
Definition http_1_dot : list N := [72; 84; 84; 80; 47; 49; 46].          (* "HTTP/1." *)

Fixpoint insert_at {A} (pos : nat) (x : A) (l : list A) : list A :=
  match pos, l with
  | O, _ => x :: l
  | S p, y :: t => y :: insert_at p x t
  | S _, [] => [x]
  end.

Definition framing_field (r : response) : option (nat * hfield) :=
  match p_framing r with
  | FrClen pos digits => Some (pos, mkF name_clen digits [SP] [])
  | FrChunked pos _ _ _ _ => Some (pos, mkF name_te value_chunked [SP] [])
  | _ => None
  end.

Definition final_fields (r : response) : list hfield :=
  match framing_field r with
  | Some (pos, f) => insert_at pos f (m_fields (p_final r))
  | None => m_fields (p_final r)
  end.

Definition render_field (f : hfield) : list N :=
  f_name f ++ [COLON] ++ f_lead f ++ f_value f ++ f_trail f ++ crlf.

Definition render_head (m : msg) (fields : list hfield) : list N :=
  http_1_dot ++ m_minor m ++ [SP] ++ dec (m_status m) ++ [SP] ++ m_reason m ++ crlf ++
  concat (map render_field fields) ++ crlf.

Definition render_chunk (c : chunk) : list N :=
  c_digits c ++ c_ext c ++ crlf ++ c_data c ++ crlf.

Definition render_body (r : response) : list N :=
  match p_framing r with
  | FrNone => []
  | FrClen _ _ => p_body r
  | FrChunked _ cs ld le tr => concat (map render_chunk cs) ++ ld ++ le ++ crlf ++ tr
  | FrClose => p_body r
  end.

Definition render (r : response) : list N :=
  concat (map (fun m => render_head m (m_fields m)) (p_interim r)) ++
  render_head (p_final r) (final_fields r) ++ render_body r.

(* what the callback must be handed *)
Definition expect (r : response) : cb :=
  let b := resp_body r in
  CbResp (Z.of_N (m_status (p_final r)))
         (map (fun f => (f_name f, f_value f)) (final_fields r))
         (match b with [] => true | _ => false end) (lenN b) b.

(* ------------------------------------------------------------------ well-formedness *)
Definition is_ows (c : N) : bool := (c =? SP) || (c =? HT).
Definition no_ctl (l : list N) : bool :=            (* no CR, LF, NUL *)
  forallb (fun c => negb ((c =? CR) || (c =? LF) || (c =? 0))) l.
Definition is_dec_digit (c : N) : bool := (48 <=? c) && (c <=? 57).
Definition hexdigit_val (c : N) : option N :=
  if (48 <=? c) && (c <=? 57) then Some (c - 48)
  else if (97 <=? c) && (c <=? 102) then Some (c - 87)
  else if (65 <=? c) && (c <=? 70) then Some (c - 55)
  else None.
Fixpoint hex_value (ds : list N) (acc : N) : option N :=
  match ds with
  | [] => Some acc
  | d :: r => match hexdigit_val d with Some v => hex_value r (16 * acc + v) | None => None end
  end.

(* the value of a string of decimal digits, None if a character is not a digit;
   Content-Length = 1*DIGIT: a non-empty digit string whose value is the length of the body *)
Fixpoint dec_value (ds : list N) (acc : N) : option N :=
  match ds with
  | [] => Some acc
  | d :: r => if is_dec_digit d then dec_value r (10 * acc + (d - 48)) else None
  end.
Definition wf_clen (digits : list N) (body : list N) : bool :=
  negb (match digits with [] => true | _ => false end) &&
  match dec_value digits 0 with Some v => v =? lenN body | None => false end &&
  (lenN body <? two64).

Definition wf_name (n : list N) : bool :=
  negb (match n with [] => true | _ => false end) &&
  forallb (fun c => negb ((c =? CR) || (c =? LF) || (c =? 0) || (c =? COLON) || is_ows c)) n.
Definition wf_value (v : list N) : bool :=
  no_ctl v &&
  match v with [] => true | c :: _ => negb (is_ows c) end &&
  match frev v with [] => true | c :: _ => negb (is_ows c) end.
Definition wf_field (allow_framing_names : bool) (f : hfield) : bool :=
  wf_name (f_name f) && wf_value (f_value f) &&
  forallb is_ows (f_lead f) && forallb is_ows (f_trail f) &&
  (allow_framing_names || negb (list_eqb (f_name f) name_clen || list_eqb (f_name f) name_te)).

Definition wf_msg (lo hi : N) (allow_framing_names : bool) (m : msg) : bool :=
  negb (match m_minor m with [] => true | _ => false end) && forallb is_dec_digit (m_minor m) &&
  (lo <=? m_status m) && (m_status m <=? hi) && no_ctl (m_reason m) &&
  forallb (wf_field allow_framing_names) (m_fields m).

Definition wf_ext (e : list N) : bool :=
  match e with
  | [] => true
  | c :: _ => (c =? 59) && forallb (fun c => negb ((c =? CR) || (c =? LF))) e
  end.
Definition wf_chunk (c : chunk) : bool :=
  negb (match c_data c with [] => true | _ => false end) &&
  match hex_value (c_digits c) 0 with
  | Some v => (v =? lenN (c_data c)) && negb (match c_digits c with [] => true | _ => false end)
  | None => false
  end &&
  wf_ext (c_ext c) && (lenN (c_digits c) + lenN (c_ext c) + 2 <=? maxchlen) &&
  (lenN (c_data c) + 2 <? two64).

Definition bodiless (ishead : bool) (status : N) : bool :=
  ishead || (status =? 204) || (status =? 304).

Definition wf_framing (ishead : bool) (r : response) : bool :=
  match p_framing r with
  | FrNone => bodiless ishead (m_status (p_final r))
  | FrClen pos digits => negb (bodiless ishead (m_status (p_final r))) && wf_clen digits (p_body r)
  | FrChunked pos cs ld le tr =>
    negb (bodiless ishead (m_status (p_final r))) && forallb wf_chunk cs &&
    negb (match ld with [] => true | _ => false end) && forallb (fun c => c =? 48) ld &&
    wf_ext le && (lenN ld + lenN le + 2 <=? maxchlen) &&
    (lenN (concat (map c_data cs)) <? two64)
  | FrClose => negb (bodiless ishead (m_status (p_final r)))
  end.

Definition wf_response (ishead : bool) (r : response) : bool :=
  forallb (wf_msg 100 199 true) (p_interim r) &&
  wf_msg 200 599 (match p_framing r with FrNone => true | _ => false end) (p_final r) &&
  wf_framing ishead r &&
  forallb (fun m => lenN (render_head m (m_fields m)) <=? maxhdr + 1) (p_interim r) &&
  (lenN (render_head (p_final r) (final_fields r)) <=? maxhdr + 1).

(* the same predicate without the two limits of the implementation (header block <= maxhdr + 1 bytes,
   chunk-size line <= maxchlen bytes), and the two limits on their own:
   wf_response = wf_response_nolimits && within_limits (HttpRoundtrip.wf_response_limit_clauses) *)
Definition chunk_line_ok (c : chunk) : bool := lenN (c_digits c) + lenN (c_ext c) + 2 <=? maxchlen.

Definition wf_chunk_nolimit (c : chunk) : bool :=
  negb (match c_data c with [] => true | _ => false end) &&
  match hex_value (c_digits c) 0 with
  | Some v => (v =? lenN (c_data c)) && negb (match c_digits c with [] => true | _ => false end)
  | None => false
  end &&
  wf_ext (c_ext c) && (lenN (c_data c) + 2 <? two64).

Definition wf_framing_nolimits (ishead : bool) (r : response) : bool :=
  match p_framing r with
  | FrNone => bodiless ishead (m_status (p_final r))
  | FrClen pos digits => negb (bodiless ishead (m_status (p_final r))) && wf_clen digits (p_body r)
  | FrChunked pos cs ld le tr =>
    negb (bodiless ishead (m_status (p_final r))) && forallb wf_chunk_nolimit cs &&
    negb (match ld with [] => true | _ => false end) && forallb (fun c => c =? 48) ld &&
    wf_ext le && (lenN (concat (map c_data cs)) <? two64)
  | FrClose => negb (bodiless ishead (m_status (p_final r)))
  end.

Definition wf_response_nolimits (ishead : bool) (r : response) : bool :=
  forallb (wf_msg 100 199 true) (p_interim r) &&
  wf_msg 200 599 (match p_framing r with FrNone => true | _ => false end) (p_final r) &&
  wf_framing_nolimits ishead r.

Definition within_limits (r : response) : bool :=
  forallb (fun m => lenN (render_head m (m_fields m)) <=? maxhdr + 1) (p_interim r) &&
  (lenN (render_head (p_final r) (final_fields r)) <=? maxhdr + 1) &&
  match p_framing r with
  | FrChunked _ cs ld le _ => forallb chunk_line_ok cs && (lenN ld + lenN le + 2 <=? maxchlen)
  | _ => true
  end.

(* ------------------------------------------------------------------ C08: bounds on any callback *)
Definition cb_ok (limit : N) (c : cb) : bool :=
  match c with
  | CbNull => true
  | CbResp st _ bnull blen body =>
    ((100 <=? st) && (st <=? 599))%Z &&
    (((blen <=? limit) && (lenN body =? blen) && (Bool.eqb bnull (blen =? 0)))
     || (bnull && (blen =? size_max) && match body with [] => true | _ => false end))
  end.

(* http.h: "If the response body is larger than maxrlen bytes, the callback is handed a response with
   bodylen == (size_t)(-1) and body == NULL" - status and headers are those of the response.
   [oversized r] is that report for the well-formed response r; [expect_limited limit r] is what the
   callback must receive when the caller's limit is [limit] (C08 oversize clause + C09) *)
Definition oversized (r : response) : cb :=
  CbResp (Z.of_N (m_status (p_final r)))
         (map (fun f => (f_name f, f_value f)) (final_fields r)) true size_max [].

Definition expect_limited (limit : N) (r : response) : cb :=
  if lenN (resp_body r) <=? limit then expect r else oversized r.

(* ------------------------------------------------------------------ C09: the documented request bytes *)
Definition request_layout (q : request) : list N :=
  q_method q ++ [SP] ++ q_path q ++ [SP; 72; 84; 84; 80; 47; 49; 46; 49; CR; LF] ++
  concat (map (fun hv => fst hv ++ [COLON; SP] ++ snd hv ++ crlf) (q_headers q)) ++ crlf ++
  q_body q.
