(* C08 for the model of http.c: for every server byte stream, every arrival pattern, every body
   limit and every initial reader geometry, the response side never faults, never fails an assert,
   terminates, ends with exactly one callback (or keeps waiting if the peer stalls), and every
   callback argument satisfies the bounds HttpSpec.cb_ok. *)
From Coq Require Import Arith NArith ZArith List Bool Lia.
From LCP Require Import Base.CheckedMem Gen.Repo_http Http.HttpStrto Http.HttpModel Http.HttpSpec
  Http.HttpLemmas.
Import ListNotations.
Local Open Scope N_scope.
Local Open Scope res_scope.

Ltac Zify.zify_post_hook ::= Z.div_mod_to_equations.

(* simplify record projections only *)
Ltac hs := cbn [h_r h_hepos h_chunked h_readlen h_status h_headers h_body h_bodylen h_alloc h_max h_ishead
                set_r set_hepos set_read set_chunked set_readlen set_resp set_body
                r_buflen r_bufpos r_datalen r_win] in *.

(* ------------------------------------------------------------------ invariants *)
Definition wmax : N := 4611686018427387904.           (* 2^62: no wait is longer *)

Record rdr_ok (r : rdr) : Prop := {
  ro_pos : r_bufpos r <= r_datalen r;
  ro_dat : r_datalen r <= r_buflen r;
  ro_win : lenN (r_win r) = r_datalen r - r_bufpos r;
  ro_cap : r_buflen r <= ssize_max }.

Lemma avail_win r : rdr_ok r -> avail r = lenN (r_win r).
Proof. intros [? ? W ?]. unfold avail. symmetry. exact W. Qed.

Lemma win_small r : rdr_ok r -> lenN (r_win r) < 9223372036854775808.
Proof. intros [P D W C]. unfold ssize_max in C. lia. Qed.

Definition status_ok (z : Z) : Prop := (100 <= z <= 599)%Z.

Record inv (h : hst) : Prop := {
  i_rdr : rdr_ok (h_r h);
  i_max : h_max h < two64;
  i_len : h_bodylen h <= h_max h;
  i_body : lenN (concat (frev (h_body h))) = h_bodylen h;
  i_alloc : h_alloc h = 0 <-> h_bodylen h = 0 }.

Definition phase_inv (h : hst) (ph : phase) : Prop :=
  match ph with
  | PhHeader => h_bodylen h = 0
  | PhChunkHdr => status_ok (h_status h) /\ h_chunked h = Some true
  | PhData =>
    status_ok (h_status h) /\
    match h_chunked h with
    | Some true => h_bodylen h + (h_readlen h - chunk_eol_len) <= h_max h /\ h_readlen h < two64
    | Some false => h_bodylen h + h_readlen h <= h_max h
    | None => False
    end
  | PhToEof => status_ok (h_status h)
  end.

(* progress measure of the direct-call chain inside one callback *)
Definition mu (h : hst) (ph : phase) : nat :=
  2 * length (r_win (h_r h)) + match ph with PhData => 1 | _ => 0 end.

Definition sres_ok (h : hst) (ph : phase) (s : sres) : Prop :=
  match s with
  | SFinish cbs => exists c, cbs = [c] /\ cb_ok (h_max h) c = true
  | SDied => False
  | SWait h' len ph' =>
    inv h' /\ phase_inv h' ph' /\ h_max h' = h_max h /\ avail (h_r h') < len <= wmax
  | SCont h' ph' =>
    inv h' /\ phase_inv h' ph' /\ h_max h' = h_max h /\ (mu h' ph' < mu h ph)%nat
  end.

Lemma cb_ok_resp limit st hs bnull blen body : status_ok st ->
  (blen <= limit /\ lenN body = blen /\ (bnull = true <-> blen = 0)) \/
  (bnull = true /\ blen = size_max /\ body = []) ->
  cb_ok limit (CbResp st hs bnull blen body) = true.
Proof.
  intros [S1 S2] H. unfold cb_ok.
  apply andb_true_iff. split; [apply andb_true_iff; split; apply Z.leb_le; assumption|].
  apply orb_true_iff. destruct H as [(H1 & H2 & H3) | (-> & -> & ->)].
  - left. rewrite !andb_true_iff. repeat split; [apply N.leb_le; exact H1 | apply N.eqb_eq; exact H2 |].
    apply eqb_true_iff. destruct bnull; destruct (blen =? 0) eqn:E; try reflexivity.
    + apply N.eqb_neq in E. exfalso. apply E. apply H3. reflexivity.
    + apply N.eqb_eq in E. apply H3 in E. discriminate.
  - right. reflexivity.
Qed.

Lemma fail_ok h ph : sres_ok h ph do_fail.
Proof. exists CbNull. split; reflexivity. Qed.

(* ------------------------------------------------------------------ reader operations *)
Lemma consume_ok r len : rdr_ok r -> len <= avail r ->
  exists r', rdr_consume r len = Ok r' /\ rdr_ok r' /\ r_win r' = dropN len (r_win r) /\
             avail r' = avail r - len /\ r_buflen r' = r_buflen r.
Proof.
  intros Hr Hl. pose proof (avail_win r Hr) as Ha. destruct Hr as [P D W C].
  unfold rdr_consume. replace (avail r <? len) with false by (symmetry; apply N.ltb_ge; exact Hl).
  eexists. split; [reflexivity|]. unfold avail in *. cbn. split; [|repeat split; lia].
  constructor; cbn; try lia. rewrite lenN_dropN. lia.
Qed.

(* ------------------------------------------------------------------ addbody *)
Lemma addbody_ok h data : inv h -> h_bodylen h + lenN data <= h_max h ->
  exists h', addbody h data = Ok h' /\ inv h' /\
    h_bodylen h' = h_bodylen h + lenN data /\ h_r h' = h_r h /\ h_max h' = h_max h /\
    h_status h' = h_status h /\ h_chunked h' = h_chunked h /\ h_readlen h' = h_readlen h /\
    h_headers h' = h_headers h.
Proof.
  intros [R M L B A] Hs. unfold addbody.
  set (sum := wrap64 (h_bodylen h + lenN data)).
  assert (Es : sum = h_bodylen h + lenN data) by (subst sum; unfold wrap64; apply N.mod_small; lia).
  replace (h_max h <? sum) with false by (symmetry; apply N.ltb_ge; lia).
  set (alloc' := if h_alloc h <? sum then _ else _).
  assert (Ha : sum <= alloc' /\ (alloc' = 0 <-> sum = 0)).
  { subst alloc'. destruct (h_alloc h <? sum) eqn:E1.
    - apply N.ltb_lt in E1.
      set (na := wrap64 (h_alloc h * 2)).
      destruct (na <? sum) eqn:E2; destruct (h_max h <? _) eqn:E3;
        try apply N.ltb_lt in E2; try apply N.ltb_ge in E2;
        try apply N.ltb_lt in E3; try apply N.ltb_ge in E3; lia.
    - apply N.ltb_ge in E1. split; [lia|]. split; intros; [lia|]. apply A. lia. }
  replace (alloc' <? h_bodylen h + lenN data) with false by (symmetry; apply N.ltb_ge; lia).
  eexists. split; [reflexivity|]. hs. split; [|repeat split; try reflexivity; lia].
  constructor; hs; try assumption; try lia.
  - rewrite frev_rev. cbn [rev]. rewrite concat_app, lenN_app. cbn [concat]. rewrite app_nil_r.
    rewrite <- frev_rev, B. lia.
Qed.

(* ------------------------------------------------------------------ gotheaders *)

(* the parsing loop over the rest of a block that ends in EOL EOL: exactly count - 1 lines can be
   cut, and then bufpos is 2 short of the end *)
Lemma parse_headers_ok : forall n rest bufpos acc,
  tail_good rest -> count_lines rest false = N.of_nat n + 1 ->
  parse_headers n rest bufpos acc = Ok None \/
  exists hs, parse_headers n rest bufpos acc = Ok (Some (hs, bufpos + lenN rest - 2)).
Proof.
  induction n as [|n IH]; intros rest bufpos acc T C.
  - right. cbn [parse_headers]. exists (frev acc). do 3 f_equal.
    destruct T as [E | ->]; [|cbn; lia].
    pose proof (count_ends_term _ E). lia.
  - cbn [parse_headers].
    destruct T as [[x ->] | ->]; [|cbn in C; lia].
    destruct (cut_line_ends_term x _ eq_refl) as (ln & r & Cu & T').
    rewrite Cu. destruct (cut_line_some _ _ _ Cu) as [Es Ec].
    destruct (has_nul ln); [left; reflexivity|].
    rewrite Ec in C.
    destruct (IH r (bufpos + lenN ln + sgetline_skip) (split_header ln :: acc) T') as [E | [hs E]];
      [lia | left; exact E | right].
    exists hs. rewrite E. do 3 f_equal. rewrite Es, !lenN_app.
    change (lenN [13; 10]) with 2. change sgetline_skip with 2.
    pose proof (count_tail_good r T').
    assert (2 <= lenN r).
    { destruct T' as [[y ->] | ->]; [rewrite lenN_app; change (lenN [13;10;13;10]) with 4; lia | cbn; lia]. }
    lia.
Qed.

Lemma set_resp_inv h st hs : inv h -> inv (set_resp h st hs).
Proof. intros [R M L B A]. constructor; assumption. Qed.
Lemma set_r_inv h r : inv h -> rdr_ok r -> inv (set_r h r).
Proof. intros [R M L B A] R'. constructor; assumption. Qed.
Lemma set_hepos_inv h p : inv h -> inv (set_hepos h p).
Proof. intros [R M L B A]. constructor; assumption. Qed.
Lemma set_readlen_inv h n : inv h -> inv (set_readlen h n).
Proof. intros [R M L B A]. constructor; assumption. Qed.
Lemma set_chunked_inv h : inv h -> inv (set_chunked h).
Proof. intros [R M L B A]. constructor; assumption. Qed.
Lemma set_read_inv h c n : inv h -> inv (set_read h c n).
Proof. intros [R M L B A]. constructor; assumption. Qed.

Lemma select_framing_ok h ph0 h0 :
  inv h -> h_bodylen h = 0 -> status_ok (h_status h) -> h_max h = h_max h0 ->
  (2 * length (r_win (h_r h)) + 1 < mu h0 ph0)%nat ->
  exists s, select_framing h = Ok s /\ sres_ok h0 ph0 s.
Proof.
  intros I B S M Mu. unfold select_framing.
  destruct (h_ishead h || existsb _ bodiless_statuses).
  { eexists. split; [reflexivity|]. eexists. split; [reflexivity|].
    apply cb_ok_resp; [exact S|]. left. repeat split; try reflexivity; lia. }
  destruct (match findheader (h_headers h) hdr_transfer_encoding with
            | Some te => contains te_chunked te | None => false end).
  { eexists. split; [reflexivity|].
    split; [apply set_chunked_inv; exact I|]. split; [split; [exact S | reflexivity]|].
    split; [exact M|]. unfold mu in *. hs. lia. }
  destruct (findheader (h_headers h) hdr_content_length) as [v|].
  - destruct (parsenum_ok (cstr v) (length v) 0 size_max size_max clen_base (negb (clen_trailing =? 0))
                (nul_at_cstr v)) as [p Ep].
    rewrite Ep. cbn [bind]. destruct p as [len|]; [|eexists; split; [reflexivity | apply fail_ok]].
    eexists. split; [reflexivity|]. unfold get_body_gotclen.
    destruct (h_max h <? len) eqn:E.
    + eexists. split; [reflexivity|]. apply cb_ok_resp; [exact S|]. right. auto.
    + apply N.ltb_ge in E.
      split; [apply set_read_inv; exact I|]. split; [split; [exact S | hs; lia]|].
      split; [exact M|]. unfold mu in *. hs. lia.
  - eexists. split; [reflexivity|].
    split; [exact I|]. split; [exact S|]. split; [exact M|]. unfold mu in *. lia.
Qed.


Lemma gotheaders_ok h ph0 x post :
  inv h -> h_bodylen h = 0 -> r_win (h_r h) = x ++ [13; 10; 13; 10] ++ post ->
  (2 * length (r_win (h_r h)) <= mu h ph0)%nat ->
  exists s, gotheaders h (lenN x + 4) = Ok s /\ sres_ok h ph0 s.
Proof.
  intros I B W Mu. unfold gotheaders.
  pose proof (i_rdr h I) as R. pose proof (avail_win _ R) as Av.
  assert (Hhead : takeN (lenN x + 4) (r_win (h_r h)) = x ++ [13; 10; 13; 10]).
  { rewrite W, app_assoc.
    replace (lenN x + 4) with (lenN (x ++ [13; 10; 13; 10])) by (rewrite lenN_app; reflexivity).
    apply takeN_app_exact. }
  rewrite Hhead.
  assert (Hlen : lenN x + 4 <= avail (h_r h)).
  { rewrite Av, W, !lenN_app. change (lenN [13;10;13;10]) with 4. lia. }
  destruct (consume_ok _ _ R Hlen) as (r' & Ec & R' & Wr' & Av' & _). rewrite Ec. cbn [bind].
  assert (ET : ends_term (x ++ [13; 10; 13; 10])) by (exists x; reflexivity).
  pose proof (count_ends_term _ ET) as Cn.
  replace (count_lines (x ++ [13; 10; 13; 10]) false <? nonheader_lines) with false
    by (symmetry; apply N.ltb_ge; exact Cn).
  destruct (cut_line_ends_term x _ eq_refl) as (sl & rest & Cu & T). rewrite Cu.
  destruct (cut_line_some _ _ _ Cu) as [Es Ecn].
  destruct (has_nul sl); [eexists; split; [reflexivity | apply fail_ok]|].
  destruct (lenN (scanf_m status_format sl []) <? status_min_conversions);
    [eexists; split; [reflexivity | apply fail_ok]|].
  set (major := nth 0 _ 0%Z). set (status := nth 2 _ 0%Z).
  destruct (negb (major =? Z.of_N http_major)%Z); [eexists; split; [reflexivity | apply fail_ok]|].
  destruct ((status <? Z.of_N status_lo) || (Z.of_N status_hi <? status))%Z eqn:Erange;
    [eexists; split; [reflexivity | apply fail_ok]|].
  apply orb_false_iff in Erange. destruct Erange as [E1 E2].
  apply Z.ltb_ge in E1. apply Z.ltb_ge in E2.
  change (Z.of_N status_lo) with 100%Z in E1. change (Z.of_N status_hi) with 599%Z in E2.
  assert (Sok : status_ok status) by (unfold status_ok; lia).
  rewrite Ecn in *.
  destruct (parse_headers_ok (N.to_nat (1 + count_lines rest false - nonheader_lines)) rest
              (lenN sl + sgetline_skip) [] T) as [E | [hs E]].
  { rewrite N2Nat.id. change nonheader_lines with 2. pose proof (count_tail_good _ T). lia. }
  { rewrite E. cbn [bind]. eexists; split; [reflexivity | apply fail_ok]. }
  rewrite E. cbn [bind].
  replace (negb (lenN sl + sgetline_skip + lenN rest - 2 + final_blank_len =? lenN x + 4)) with false.
  2:{ symmetry. apply negb_false_iff, N.eqb_eq.
      assert (lenN (x ++ [13;10;13;10]) = lenN sl + 2 + lenN rest)
        by (rewrite Es, !lenN_app; change (lenN [13;10]) with 2; lia).
      rewrite lenN_app in H. change (lenN [13;10;13;10]) with 4 in H.
      change sgetline_skip with 2. change final_blank_len with 2.
      assert (2 <= lenN rest).
      { destruct T as [[y ->] | ->]; [rewrite lenN_app; change (lenN [13;10;13;10]) with 4; lia | cbn; lia]. }
      lia. }
  cbn [negb].
  (* the window left after the headers *)
  assert (Hshrink : (length (r_win r') + 4 <= length (r_win (h_r h)))%nat).
  { rewrite Wr'. unfold dropN. rewrite skipn_length.
    assert (lenN x + 4 <= lenN (r_win (h_r h))) by (rewrite <- Av; exact Hlen).
    unfold lenN in H. lia. }
  destruct ((Z.of_N interim_lo <=? status) && (status <=? Z.of_N interim_hi))%Z.
  - eexists. split; [reflexivity|]. cbn.
    repeat split; try (apply set_hepos_inv, set_r_inv; assumption); try assumption.
    unfold mu in *. cbn. lia.
  - apply select_framing_ok; cbn; try assumption.
    + apply set_resp_inv, set_r_inv; assumption.
    + reflexivity.
    + unfold mu in *. lia.
Qed.

(* ------------------------------------------------------------------ the four callbacks *)
Lemma do_callback_ok h0 ph0 h : inv h -> status_ok (h_status h) -> h_max h = h_max h0 ->
  sres_ok h0 ph0 (do_callback h).
Proof.
  intros [R M L B A] S E. eexists. split; [reflexivity|]. apply cb_ok_resp; [exact S|]. left.
  repeat split; [rewrite <- E; exact L | exact B | |].
  - intros H. apply N.eqb_eq in H. apply A. exact H.
  - intros H. apply N.eqb_eq. apply A. exact H.
Qed.

Lemma do_toobig_ok h0 ph0 h : status_ok (h_status h) -> sres_ok h0 ph0 (do_toobig h).
Proof.
  intros S. eexists. split; [reflexivity|]. apply cb_ok_resp; [exact S|]. right. auto.
Qed.

Lemma step_header_ok h st : inv h -> phase_inv h PhHeader ->
  exists s, step_header h st = Ok s /\ sres_ok h PhHeader s.
Proof.
  intros I P. cbn in P. unfold step_header.
  destruct st; try (eexists; split; [reflexivity | apply fail_ok]).
  pose proof (i_rdr h I) as R. pose proof (avail_win _ R) as Av.
  destruct (scan_term (dropN (h_hepos h) (r_win (h_r h))) (h_hepos h)) as [found hepos'] eqn:Sc.
  destruct found.
  - destruct (scan_term_found _ _ _ Sc) as (pre & post & E1 & E2).
    rewrite term_eq. change (lenN [13; 10; 13; 10]) with 4.
    assert (Hw : r_win (h_r h) = (takeN (h_hepos h) (r_win (h_r h)) ++ pre) ++ [13; 10; 13; 10] ++ post).
    { rewrite <- app_assoc, <- E1. symmetry. apply take_drop. }
    assert (Hl : lenN (takeN (h_hepos h) (r_win (h_r h))) = h_hepos h).
    { rewrite lenN_takeN. apply N.min_l.
      destruct (N.le_gt_cases (h_hepos h) (lenN (r_win (h_r h)))) as [|G]; [assumption|].
      exfalso. assert (dropN (h_hepos h) (r_win (h_r h)) = []).
      { apply lenN_0. rewrite lenN_dropN. lia. }
      rewrite H in E1. destruct pre; discriminate. }
    replace (hepos' + 4) with (lenN (takeN (h_hepos h) (r_win (h_r h)) ++ pre) + 4)
      by (rewrite lenN_app, Hl; lia).
    destruct (gotheaders_ok (set_hepos h hepos') PhHeader (takeN (h_hepos h) (r_win (h_r h)) ++ pre) post)
      as (s & Es & Os); try assumption; try (apply set_hepos_inv; assumption).
    { unfold mu. hs. lia. }
    exists s. split; [exact Es|]. exact Os.
  - destruct (maxhdr <? avail (h_r h)) eqn:E; [eexists; split; [reflexivity | apply fail_ok]|].
    apply N.ltb_ge in E. change maxhdr with 65536 in E.
    eexists. split; [reflexivity|].
    assert (Hw : wrap64 (avail (h_r h) + hdr_wait_more) = avail (h_r h) + 1).
    { change hdr_wait_more with 1. unfold wrap64. apply N.mod_small. unfold two64. lia. }
    split; [apply set_hepos_inv; exact I|]. split; [exact P|]. split; [reflexivity|].
    hs. rewrite Hw. unfold wmax. lia.
Qed.

Lemma step_chunkhdr_ok stale h st : inv h -> phase_inv h PhChunkHdr ->
  exists s, step_chunkhdr true stale h st = Ok s /\ sres_ok h PhChunkHdr s.
Proof.
  intros I [S C]. unfold step_chunkhdr.
  destruct st; try (eexists; split; [reflexivity | apply fail_ok]).
  pose proof (i_rdr h I) as R. pose proof (avail_win _ R) as Av.
  destruct (negb (findeol (r_win (h_r h)) 0 =? avail (h_r h))) eqn:E.
  - apply negb_true_iff, N.eqb_neq in E. rewrite Av in E.
    destruct (findeol_found (r_win (h_r h)) 0) as [Bd _]; [lia|].
    set (eolpos := findeol (r_win (h_r h)) 0) in *.
    assert (Hn : (N.to_nat eolpos < length (r_win (h_r h)))%nat) by (unfold lenN in Bd; lia).
    destruct (parsenum_ok (upd (r_win (h_r h)) (N.to_nat eolpos) 0) (N.to_nat eolpos) 0 size_max size_max
                chunk_base (negb (chunk_trailing =? 0)) (nul_at_upd _ _ Hn)) as [p Ep].
    rewrite Ep. cbn [bind]. destruct p as [clen|]; [|eexists; split; [reflexivity | apply fail_ok]].
    assert (Hle : wrap64 (eolpos + chunk_line_skip) <= avail (h_r h)).
    { change chunk_line_skip with 2. unfold wrap64. pose proof (win_small _ R).
      rewrite N.mod_small; [lia|]. unfold two64. lia. }
    destruct (consume_ok _ _ R Hle) as (r' & Ec & R' & Wr' & Av' & _). rewrite Ec. cbn [bind].
    assert (I' : inv (set_r h r')) by (apply set_r_inv; assumption).
    destruct (clen =? 0); [eexists; split; [reflexivity | apply do_callback_ok; auto]|].
    destruct (sub64 (h_max (set_r h r')) (h_bodylen (set_r h r')) <? clen) eqn:E1;
      [eexists; split; [reflexivity | apply do_toobig_ok; auto]|].
    destruct (size_max - chunk_readlen_extra <? clen) eqn:E2;
      [eexists; split; [reflexivity | apply do_toobig_ok; auto]|].
    apply N.ltb_ge in E1. apply N.ltb_ge in E2. cbn in E1.
    eexists. split; [reflexivity|]. cbn.
    split; [apply set_readlen_inv; exact I'|].
    split.
    + split; [exact S|]. rewrite C. change chunk_readlen_extra with 2 in *. change chunk_eol_len with 2.
      destruct I as [_ M L _ _]. unfold sub64 in E1.
      assert ((h_max h + two64 - h_bodylen h) mod two64 = h_max h - h_bodylen h).
      { replace (h_max h + two64 - h_bodylen h) with ((h_max h - h_bodylen h) + 1 * two64) by lia.
        rewrite N.mod_add by (unfold two64; lia). apply N.mod_small. lia. }
      unfold size_max in E2. unfold two64 in *. lia.
    + split; [reflexivity|]. unfold mu. cbn. rewrite Wr'. unfold dropN. rewrite skipn_length.
      change chunk_line_skip with 2. unfold wrap64.
      pose proof (win_small _ R).
      rewrite N.mod_small by (unfold two64; lia).
      unfold lenN in Bd. lia.
  - apply negb_false_iff, N.eqb_eq in E.
    destruct (maxchlen <=? avail (h_r h)) eqn:E1; [eexists; split; [reflexivity | apply fail_ok]|].
    apply N.leb_gt in E1. change maxchlen with 256 in E1.
    eexists. split; [reflexivity|].
    assert (Hw : wrap64 (avail (h_r h) + chunk_wait_more) = avail (h_r h) + 1).
    { change chunk_wait_more with 1. unfold wrap64. apply N.mod_small. unfold two64. lia. }
    split; [exact I|]. split; [split; assumption|]. split; [reflexivity|].
    rewrite Hw. unfold wmax. lia.
Qed.

Lemma step_data_ok h st : inv h -> phase_inv h PhData ->
  exists s, step_data h st = Ok s /\ sres_ok h PhData s.
Proof.
  intros I [S P]. unfold step_data.
  destruct st; try (eexists; split; [reflexivity | apply fail_ok]).
  pose proof (i_rdr h I) as R. pose proof (avail_win _ R) as Av.
  destruct (h_chunked h) as [ch|] eqn:Ech; [|contradiction].
  set (buflen := if h_readlen h <? avail (h_r h) then h_readlen h else avail (h_r h)).
  assert (Hb : buflen <= h_readlen h /\ buflen <= avail (h_r h) /\
               (buflen < h_readlen h -> buflen = avail (h_r h))).
  { subst buflen. destruct (h_readlen h <? avail (h_r h)) eqn:E;
      [apply N.ltb_lt in E | apply N.ltb_ge in E]; lia. }
  set (datalen := if ch then _ else buflen).
  assert (Hd : datalen <= buflen /\ h_bodylen h + datalen <= h_max h /\
               (ch = true -> h_bodylen h + datalen + (h_readlen h - buflen - chunk_eol_len) <= h_max h) /\
               (ch = false -> datalen = buflen)).
  { subst datalen. change chunk_eol_len with 2 in *. destruct ch.
    - destruct P as [P1 P2]. destruct (h_readlen h <=? 2) eqn:E1;
        [apply N.leb_le in E1 | apply N.leb_gt in E1].
      + repeat split; try lia; try discriminate.
      + destruct (h_readlen h - 2 <? buflen) eqn:E2;
          [apply N.ltb_lt in E2 | apply N.ltb_ge in E2]; repeat split; try lia; try discriminate.
    - repeat split; try lia; try discriminate. }
  destruct Hd as (Hd1 & Hd2 & Hd3 & Hd4).
  assert (Hl : lenN (takeN datalen (r_win (h_r h))) = datalen).
  { rewrite lenN_takeN. apply N.min_l. rewrite <- Av. lia. }
  destruct (addbody_ok h (takeN datalen (r_win (h_r h))) I) as (h1 & E1 & I1 & B1 & R1 & M1 & S1 & C1 & L1 & _);
    [rewrite Hl; exact Hd2|].
  rewrite E1. cbn [bind].
  destruct (consume_ok _ _ R (proj1 (proj2 Hb))) as (r' & Ec & R' & Wr' & Av' & _).
  rewrite Ec. cbn [bind].
  set (h2 := set_readlen (set_r h1 r') (h_readlen h - buflen)).
  assert (I2 : inv h2) by (apply set_readlen_inv, set_r_inv; assumption).
  assert (Hmu : (length (r_win r') <= length (r_win (h_r h)))%nat).
  { rewrite Wr'. unfold dropN. rewrite skipn_length. lia. }
  assert (F2 : h_status h2 = h_status h /\ h_chunked h2 = Some ch /\ h_max h2 = h_max h /\
               h_bodylen h2 = h_bodylen h + datalen /\ h_r h2 = r' /\
               h_readlen h2 = h_readlen h - buflen).
  { subst h2. hs. rewrite S1, C1, M1, B1, Hl, Ech. repeat split; reflexivity. }
  destruct F2 as (F2s & F2c & F2m & F2b & F2r & F2l).
  change (h_readlen h2) with (h_readlen h - buflen).
  destruct (h_readlen h - buflen =? 0) eqn:E0.
  - destruct ch.
    + eexists. split; [reflexivity|].
      split; [exact I2|]. split; [split; [rewrite F2s; exact S | exact F2c]|].
      split; [exact F2m|]. unfold mu. rewrite F2r. lia.
    + eexists. split; [reflexivity|]. apply do_callback_ok; [exact I2 | rewrite F2s; exact S | exact F2m].
  - apply N.eqb_neq in E0.
    eexists. split; [reflexivity|].
    split; [exact I2|]. split; [|split; [exact F2m|]].
    + split; [rewrite F2s; exact S|]. rewrite F2c, F2b, F2l, F2m. destruct ch.
      * destruct P as [P1 P2]. split; [apply Hd3; reflexivity | lia].
      * rewrite Hd4 by reflexivity. lia.
    + rewrite F2r, Av'. assert (buflen = avail (h_r h)) by (apply Hb; lia).
      change waitcap with 1048576.
      destruct (1048576 <? h_readlen h - buflen) eqn:E3;
        [apply N.ltb_lt in E3 | apply N.ltb_ge in E3]; unfold wmax; lia.
Qed.

Lemma step_toeof_ok h st : inv h -> phase_inv h PhToEof ->
  exists s, step_toeof h st = Ok s /\ sres_ok h PhToEof s.
Proof.
  intros I S. cbn in S. unfold step_toeof.
  destruct st; try (eexists; split; [reflexivity | apply fail_ok]).
  2:{ eexists. split; [reflexivity | apply do_callback_ok; auto]. }
  pose proof (i_rdr h I) as R. pose proof (avail_win _ R) as Av.
  destruct (sub64 (h_max h) (h_bodylen h) <? avail (h_r h)) eqn:E;
    [eexists; split; [reflexivity | apply do_toobig_ok; auto]|].
  apply N.ltb_ge in E.
  assert (Hs : sub64 (h_max h) (h_bodylen h) = h_max h - h_bodylen h).
  { destruct I as [_ M L _ _]. unfold sub64.
    replace (h_max h + two64 - h_bodylen h) with ((h_max h - h_bodylen h) + 1 * two64) by lia.
    rewrite N.mod_add by (unfold two64; lia). apply N.mod_small. lia. }
  rewrite Hs in E.
  assert (Hl : lenN (takeN (avail (h_r h)) (r_win (h_r h))) = avail (h_r h)).
  { rewrite lenN_takeN. apply N.min_l. lia. }
  destruct (addbody_ok h (takeN (avail (h_r h)) (r_win (h_r h))) I) as (h1 & E1 & I1 & B1 & R1 & M1 & S1 & C1 & L1 & _);
    [rewrite Hl; destruct I; lia|].
  rewrite E1. cbn [bind].
  destruct (consume_ok _ _ R (N.le_refl _)) as (r' & Ec & R' & Wr' & Av' & _).
  rewrite Ec. cbn [bind]. eexists. split; [reflexivity|].
  split; [apply set_r_inv; assumption|]. split; [hs; unfold phase_inv; hs; rewrite S1; exact S|].
  split; [hs; exact M1|]. hs. rewrite Av'. change toeof_wait with 1. unfold wmax. lia.
Qed.

Lemma step_ok stale h ph st : inv h -> phase_inv h ph ->
  exists s, step true stale h ph st = Ok s /\ sres_ok h ph s.
Proof.
  intros I P. destruct ph; cbn [step].
  - apply step_header_ok; assumption.
  - apply step_chunkhdr_ok; assumption.
  - apply step_data_ok; assumption.
  - apply step_toeof_ok; assumption.
Qed.

(* a callback entered with EOF or an error always finishes the request *)
Lemma step_not_ok_status stale h ph st : st <> RsOk -> inv h -> phase_inv h ph ->
  exists c, step true stale h ph st = Ok (SFinish [c]) /\ cb_ok (h_max h) c = true.
Proof.
  intros Hst I P. destruct (step_ok stale h ph st I P) as (s & E & O).
  destruct ph, st; try contradiction; cbn in E |- *; inversion E; subst; cbn in O;
    try (destruct O as (c & Ec & Oc); inversion Ec; subst; eauto).
Qed.

(* ------------------------------------------------------------------ one callback from the event loop *)
Definition cbres_ok (limit : N) (s : sres) : Prop :=
  match s with
  | SFinish cbs => exists c, cbs = [c] /\ cb_ok limit c = true
  | SWait h' len ph' =>
    inv h' /\ phase_inv h' ph' /\ h_max h' = limit /\ avail (h_r h') < len <= wmax
  | _ => False
  end.

Lemma run_cb_ok stale : forall fuel h ph st, inv h -> phase_inv h ph -> (mu h ph < fuel)%nat ->
  exists s, run_cb true stale fuel h ph st = Ok s /\ cbres_ok (h_max h) s.
Proof.
  induction fuel as [|f IH]; intros h ph st I P F; [lia|].
  cbn [run_cb]. destruct (step_ok stale h ph st I P) as (s & E & O). rewrite E. cbn [bind].
  destruct s as [cbs | | h' len ph' | h' ph']; unfold sres_ok in O.
  - exists (SFinish cbs). split; [reflexivity | exact O].
  - contradiction.
  - exists (SWait h' len ph'). split; [reflexivity | exact O].
  - destruct O as (I' & P' & M' & Mu').
    destruct (IH h' ph' RsOk I' P') as (s & Es & Os); [lia|].
    exists s. split; [exact Es|]. rewrite <- M'. exact Os.
Qed.

Lemma cb_fuel_enough h ph : (mu h ph < cb_fuel h)%nat.
Proof. unfold mu, cb_fuel. destruct ph; lia. Qed.

Lemma run_cb_not_ok stale fuel h ph st : st <> RsOk -> inv h -> phase_inv h ph ->
  exists c, run_cb true stale (S fuel) h ph st = Ok (SFinish [c]) /\ cb_ok (h_max h) c = true.
Proof.
  intros Hst I P. destruct (step_not_ok_status stale h ph st Hst I P) as (c & E & O).
  exists c. cbn [run_cb]. rewrite E. cbn [bind]. split; [reflexivity | exact O].
Qed.

(* ------------------------------------------------------------------ waiting for the network *)
Definition netmu (segs : list (list N)) : nat := length (concat segs) + length segs.

Lemma net_read_ok : forall segs cap need acc, 1 <= need <= cap ->
  match net_read segs cap need acc with
  | NrData chunks segs' =>
    exists new, concat (rev chunks) = concat (rev acc) ++ new /\ need <= lenN new <= cap /\
                (netmu segs' < netmu segs)%nat
  | _ => True
  end.
Proof.
  induction segs as [|s rest IH]; intros cap need acc H; cbn [net_read]; [exact I|].
  destruct (lenN s =? 0) eqn:E0.
  - specialize (IH cap need acc H). destruct (net_read rest cap need acc); try exact I.
    destruct IH as (new & E1 & E2 & E3). exists new. repeat split; try assumption; try lia.
    unfold netmu in *. cbn [concat length]. rewrite app_length. lia.
  - apply N.eqb_neq in E0.
    replace (cap =? 0) with false by (symmetry; apply N.eqb_neq; lia).
    destruct (lenN s <=? cap) eqn:E1.
    + apply N.leb_le in E1. destruct (need <=? lenN s) eqn:E2.
      * apply N.leb_le in E2. exists s. cbn [rev]. rewrite concat_app. cbn [concat]. rewrite app_nil_r.
        repeat split; try lia. unfold netmu. cbn [concat length]. rewrite app_length. unfold lenN in E0. lia.
      * apply N.leb_gt in E2. specialize (IH (cap - lenN s) (need - lenN s) (s :: acc) ltac:(lia)).
        destruct (net_read rest (cap - lenN s) (need - lenN s) (s :: acc)); try exact I.
        destruct IH as (new & F1 & F2 & F3). exists (s ++ new).
        rewrite F1. cbn [rev]. rewrite concat_app. cbn [concat]. rewrite app_nil_r, <- app_assoc.
        repeat split; try reflexivity; try (rewrite lenN_app; lia).
        unfold netmu in *. cbn [concat length]. rewrite app_length. lia.
    + apply N.leb_gt in E1. destruct (need <=? cap) eqn:E2; [|exact I].
      exists (takeN cap s). cbn [rev]. rewrite concat_app. cbn [concat]. rewrite app_nil_r.
      rewrite lenN_takeN. repeat split; try reflexivity; try lia.
      unfold netmu. cbn [concat length]. rewrite !app_length. unfold dropN. rewrite skipn_length.
      unfold lenN in E1. lia.
Qed.

Definition wres_ok (net : netst) (w : wres) : Prop :=
  match w with
  | WStall => n_end net = EndStall
  | WStatus st r' net' =>
    rdr_ok r' /\ n_end net' = n_end net /\ (st = RsOk -> (netmu (n_segs net') < netmu (n_segs net))%nat)
  end.

Lemma wait_ok r len net : rdr_ok r -> avail r < len <= wmax ->
  exists w, rdr_wait r len net = Ok w /\ wres_ok net w.
Proof.
  intros R [H1 H2]. pose proof (avail_win r R) as Av. pose proof R as [P D W C].
  unfold wmax in H2. unfold ssize_max in C.
  unfold rdr_wait. replace (len <=? avail r) with false by (symmetry; apply N.leb_gt; exact H1).
  set (r1 := if r_buflen r <? len then _ else r).
  assert (R1 : rdr_ok r1 /\ r_win r1 = r_win r /\ avail r1 = avail r /\ len <= r_buflen r1).
  { subst r1. destruct (r_buflen r <? len) eqn:E; [apply N.ltb_lt in E | apply N.ltb_ge in E].
    - assert (Hw : wrap64 (r_buflen r * 2) = r_buflen r * 2)
        by (unfold wrap64; apply N.mod_small; unfold two64; lia).
      rewrite Hw.
      set (nb := if r_buflen r * 2 <? len then len else r_buflen r * 2).
      assert (len <= nb /\ nb <= 9223372036854775807).
      { subst nb. destruct (r_buflen r * 2 <? len) eqn:E2;
          [apply N.ltb_lt in E2 | apply N.ltb_ge in E2]; lia. }
      split; [|repeat split; cbn; unfold avail in *; cbn; lia].
      constructor; cbn; unfold avail in *; unfold ssize_max; lia.
    - repeat split; try assumption; lia. }
  destruct R1 as (R1 & W1 & A1 & L1). clearbody r1.
  set (r2 := if r_buflen r1 - r_bufpos r1 <? len then _ else r1).
  assert (R2 : rdr_ok r2 /\ r_win r2 = r_win r /\ avail r2 = avail r /\ r_bufpos r2 + len <= r_buflen r2).
  { subst r2. pose proof R1 as [P1 D1 Wn1 C1].
    destruct (r_buflen r1 - r_bufpos r1 <? len) eqn:E; [apply N.ltb_lt in E | apply N.ltb_ge in E].
    - split; [constructor; cbn; unfold avail in *; lia|].
      split; [cbn; exact W1|]. split; [unfold avail in *; cbn; lia|]. cbn. lia.
    - repeat split; try assumption; lia. }
  destruct R2 as (R2 & W2 & A2 & L2). clearbody r2.
  pose proof R2 as [P2 D2 Wn2 C2]. unfold ssize_max in C2. unfold avail in A2, H1.
  assert (Hneed : sub64 (wrap64 (r_bufpos r2 + len)) (r_datalen r2) = r_bufpos r2 + len - r_datalen r2).
  { unfold wrap64, sub64. rewrite (N.mod_small (r_bufpos r2 + len)) by (unfold two64; lia).
    replace (r_bufpos r2 + len + two64 - r_datalen r2) with ((r_bufpos r2 + len - r_datalen r2) + 1 * two64) by lia.
    rewrite N.mod_add by (unfold two64; lia). apply N.mod_small. unfold two64. lia. }
  rewrite Hneed.
  replace (r_buflen r2 - r_datalen r2 =? 0) with false by (symmetry; apply N.eqb_neq; lia).
  replace (ssize_max <? r_buflen r2 - r_datalen r2) with false
    by (symmetry; apply N.ltb_ge; unfold ssize_max; lia).
  pose proof (net_read_ok (n_segs net) (r_buflen r2 - r_datalen r2) (r_bufpos r2 + len - r_datalen r2) []
                ltac:(lia)) as NR.
  destruct (net_read (n_segs net) (r_buflen r2 - r_datalen r2) (r_bufpos r2 + len - r_datalen r2) [])
    as [chunks segs' | segs' |].
  - destruct NR as (new & F1 & F2 & F3). cbn [rev concat app] in F1.
    eexists. split; [reflexivity|]. cbn. rewrite frev_rev, F1.
    split; [|split; [reflexivity | intros _; exact F3]].
    constructor; cbn; unfold ssize_max; try lia. rewrite lenN_app. lia.
  - eexists. split; [reflexivity|]. cbn. split; [exact R2|]. split; [reflexivity | discriminate].
  - destruct (n_end net) eqn:En.
    + eexists. split; [reflexivity|]. cbn. split; [exact R2|]. split; [auto | discriminate].
    + eexists. split; [reflexivity|]. cbn. split; [exact R2|]. split; [auto | discriminate].
    + eexists. split; [reflexivity|]. cbn. exact En.
Qed.

(* ------------------------------------------------------------------ the whole run *)
Definition outcome_ok (limit : N) (e : ending) (o : outcome) : Prop :=
  match o with
  | Done cbs => exists c, cbs = [c] /\ cb_ok limit c = true
  | Died => False
  | Waiting => e = EndStall
  end.

Lemma phase_inv_set_r h r ph : phase_inv h ph -> phase_inv (set_r h r) ph.
Proof. destruct ph; exact (fun x => x). Qed.

Lemma rstat_eq_ok st : st = RsOk \/ st <> RsOk.
Proof. destruct st; [left; reflexivity | right; discriminate | right; discriminate]. Qed.

Lemma run_ok stale : forall fuel h ph st net, inv h -> phase_inv h ph ->
  (st = RsOk -> (netmu (n_segs net) + 2 <= fuel)%nat) -> (1 <= fuel)%nat ->
  exists o, run true stale fuel h ph st net = Ok o /\ outcome_ok (h_max h) (n_end net) o.
Proof.
  induction fuel as [|f IH]; intros h ph st net I P F1 F2; [lia|].
  cbn [run].
  destruct (rstat_eq_ok st) as [->|Hst].
  - destruct (run_cb_ok stale (cb_fuel h) h ph RsOk I P (cb_fuel_enough h ph)) as (s & E & O).
    rewrite E. cbn [bind]. destruct s as [cbs | | h' len ph' | h' ph']; cbn in O; try contradiction.
    + exists (Done cbs). split; [reflexivity | exact O].
    + destruct O as (I' & P' & M' & Hl).
      destruct (wait_ok (h_r h') len net (i_rdr _ I') Hl) as (w & Ew & Ow). rewrite Ew. cbn [bind].
      destruct w as [st' r' net' |]; cbn in Ow.
      * destruct Ow as (R' & En & Pr).
        destruct (IH (set_r h' r') ph' st' net') as (o & Eo & Oo).
        { apply set_r_inv; assumption. }
        { apply phase_inv_set_r; assumption. }
        { intros ->. specialize (Pr eq_refl). specialize (F1 eq_refl). lia. }
        { specialize (F1 eq_refl). lia. }
        exists o. split; [exact Eo|]. cbn in Oo. rewrite M', En in Oo. exact Oo.
      * exists Waiting. split; [reflexivity | exact Ow].
  - unfold cb_fuel. replace (2 * length (r_win (h_r h)) + 4)%nat with (S (2 * length (r_win (h_r h)) + 3)) by lia.
    destruct (run_cb_not_ok stale (2 * length (r_win (h_r h)) + 3) h ph st Hst I P) as (c & E & O).
    rewrite E. cbn [bind]. exists (Done [c]). split; [reflexivity|]. exists c. split; [reflexivity | exact O].
Qed.

(* ------------------------------------------------------------------ the theorems about a whole response *)
Lemma init_inv r0 limit ishead : rdr_ok r0 -> limit < two64 ->
  inv (init_hst r0 limit ishead) /\ phase_inv (init_hst r0 limit ishead) PhHeader.
Proof.
  intros R L. split; [|reflexivity]. constructor; cbn; try assumption; try lia; try tauto.
Qed.

Theorem response_run_total stale r0 limit ishead net : rdr_ok r0 -> limit < two64 ->
  exists o, http_response_run repo_terminated stale r0 limit ishead net = Ok o /\
            outcome_ok limit (n_end net) o.
Proof.
  intros R L. rewrite repo_terminated_true. unfold http_response_run.
  destruct (init_inv r0 limit ishead R L) as [I P].
  destruct (run_ok stale (total_fuel net) (init_hst r0 limit ishead) PhHeader RsOk net I P) as (o & E & O).
  - intros _. unfold total_fuel, netmu. lia.
  - unfold total_fuel. lia.
  - exists o. split; [exact E | exact O].
Qed.

(* M1: no fault, no failed assert, whatever the server sends and however it arrives *)
Theorem http_never_faults stale r0 limit ishead net : rdr_ok r0 -> limit < two64 ->
  http_response_run repo_terminated stale r0 limit ishead net <> Fault /\
  http_response_run repo_terminated stale r0 limit ishead net <> AssertFail.
Proof.
  intros R L. destruct (response_run_total stale r0 limit ishead net R L) as (o & E & _).
  rewrite E. split; discriminate.
Qed.

(* termination: the fuel computed from the script always suffices *)
Theorem http_terminates stale r0 limit ishead net : rdr_ok r0 -> limit < two64 ->
  http_response_run repo_terminated stale r0 limit ishead net <> OutOfFuel.
Proof.
  intros R L. destruct (response_run_total stale r0 limit ishead net R L) as (o & E & _).
  rewrite E. discriminate.
Qed.

(* M2: exactly one callback; the only other outcome is a pending request on a stalled connection
   (which is what http_request_cancel then ends without a callback) *)
Theorem http_one_callback stale r0 limit ishead net : rdr_ok r0 -> limit < two64 ->
  (exists c, http_response_run repo_terminated stale r0 limit ishead net = Ok (Done [c])) \/
  (http_response_run repo_terminated stale r0 limit ishead net = Ok Waiting /\ n_end net = EndStall).
Proof.
  intros R L. destruct (response_run_total stale r0 limit ishead net R L) as (o & E & O).
  rewrite E. destruct o as [cbs | |]; cbn in O.
  - left. destruct O as (c & -> & _). exists c. reflexivity.
  - contradiction.
  - right. split; [reflexivity | exact O].
Qed.

Corollary http_one_callback_when_stream_ends stale r0 limit ishead net :
  rdr_ok r0 -> limit < two64 -> n_end net <> EndStall ->
  exists c, http_response_run repo_terminated stale r0 limit ishead net = Ok (Done [c]).
Proof.
  intros R L Hn. destruct (http_one_callback stale r0 limit ishead net R L) as [H | [_ H]];
    [exact H | contradiction].
Qed.

(* M3: every callback argument is within bounds *)
Theorem http_result_bounds stale r0 limit ishead net cbs : rdr_ok r0 -> limit < two64 ->
  http_response_run repo_terminated stale r0 limit ishead net = Ok (Done cbs) ->
  forall c, In c cbs -> cb_ok limit c = true.
Proof.
  intros R L E c Hc. destruct (response_run_total stale r0 limit ishead net R L) as (o & E' & O).
  rewrite E in E'. inversion E'; subst o. cbn in O. destruct O as (c' & -> & Oc).
  destruct Hc as [<- | []]. exact Oc.
Qed.

(* what cb_ok says, spelled out *)
Lemma cb_ok_spelled limit st hs bnull blen body :
  cb_ok limit (CbResp st hs bnull blen body) = true ->
  (100 <= st <= 599)%Z /\
  ((blen <= limit /\ lenN body = blen /\ (bnull = true <-> blen = 0)) \/
   (blen = size_max /\ bnull = true /\ body = [])).
Proof.
  unfold cb_ok. rewrite !andb_true_iff, orb_true_iff, !andb_true_iff, !Z.leb_le.
  intros [[S1 S2] [[[H1 H2] H3] | [[H1 H2] H3]]]; (split; [lia|]).
  - left. apply N.leb_le in H1. apply N.eqb_eq in H2. apply eqb_prop in H3.
    repeat split; try assumption.
    + intros ->. symmetry in H3. apply N.eqb_eq in H3. exact H3.
    + intros ->. rewrite H3. reflexivity.
  - right. apply N.eqb_eq in H2. destruct body; [|discriminate]. auto.
Qed.

(* ------------------------------------------------------------------ non-vacuity and regression *)
Example init_rdr_ok : rdr_ok init_rdr.
Proof. constructor; cbn; unfold reader_init_buflen, ssize_max; lia. Qed.

Definition ascii_te_head : list N :=            (* "HTTP/1.1 200 OK\r\nTransfer-Encoding: chunked\r\n\r\n" *)
  [72;84;84;80;47;49;46;49;32;50;48;48;32;79;75;13;10;
   84;114;97;110;115;102;101;114;45;69;110;99;111;100;105;110;103;58;32;99;104;117;110;107;101;100;13;10;13;10].

(* a normal chunked response, delivered byte by byte and then closed: one callback with the body *)
Example run_chunked_example :
  http_response_run repo_terminated 0 init_rdr 100 false
    (mkNet (map (fun b => [b]) (ascii_te_head ++ [53;13;10;104;101;108;108;111;13;10;48;13;10;13;10])) EndEof)
  = Ok (Done [CbResp 200%Z [([84;114;97;110;115;102;101;114;45;69;110;99;111;100;105;110;103],
                             [99;104;117;110;107;101;100])]
                     false 5 [104;101;108;108;111]]).
Proof. vm_compute. reflexivity. Qed.

(* the input of finding F2: headers, an empty chunk-size line, blanks up to the end of the
   4096-byte reader buffer, in one segment.  The code as it is answers with a failure callback ... *)
Definition f2_witness : list N :=
  ascii_te_head ++ [13; 10] ++ repeat 32 (N.to_nat (reader_init_buflen - 49)).

Example f2_now_fails_cleanly :
  http_response_run repo_terminated 190 init_rdr 100 false (mkNet [f2_witness] EndEof) = Ok (Done [CbNull]).
Proof. vm_compute. reflexivity. Qed.

(* ... while the old callback_chunkedheader (no NUL written before PARSENUM_EX) let strtoumax skip
   the blanks right out of the allocation *)
Example f2_old_code_overread :
  http_response_run false 190 init_rdr 100 false (mkNet [f2_witness] EndEof) = Fault.
Proof. vm_compute. reflexivity. Qed.
