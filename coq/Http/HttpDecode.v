(* C09 for the model of http.c: the request bytes, and the decoding of rendered well-formed
   responses (HttpSpec.render / expect). *)
From Coq Require Import Arith NArith ZArith List Bool Lia.
From LCP Require Import Base.CheckedMem Gen.Repo_http Http.HttpStrto Http.HttpModel Http.HttpSpec Http.HttpNum
  Http.HttpLemmas Http.HttpSafe.
Import ListNotations.
Local Open Scope N_scope.
Local Open Scope res_scope.

Ltac Zify.zify_post_hook ::= Z.div_mod_to_equations.

(* ================================================================== M1: the request *)

(* the literals of the stpcpy chain and of the length precomputation are the documented ones *)
Lemma req_literals :
  req_sp = [SP] /\ req_version = [SP; 72; 84; 84; 80; 47; 49; 46; 49; CR; LF] /\
  req_colon = [COLON; SP] /\ req_eol = crlf /\ req_blank = crlf /\
  reqlen_sp = req_sp /\ reqlen_version = req_version /\
  reqlen_per_header = lenN req_colon + lenN req_eol /\ reqlen_blank = lenN req_blank.
Proof. repeat split; reflexivity. Qed.

Lemma req_render_layout q : req_render q ++ q_body q = request_layout q.
Proof.
  unfold req_render, request_layout.
  destruct req_literals as (-> & -> & -> & -> & -> & _).
  rewrite flat_map_concat_map. rewrite <- !app_assoc. reflexivity.
Qed.

Definition hdrs_len (hs : hdrs) : N :=
  fold_right (fun hv a => lenN (fst hv) + lenN (snd hv) + 4 + a) 0 hs.

Lemma hdrs_len_render hs :
  lenN (flat_map (fun hv : list N * list N => fst hv ++ req_colon ++ snd hv ++ req_eol) hs) = hdrs_len hs.
Proof.
  induction hs as [|[h v] hs IH]; [reflexivity|].
  cbn [flat_map hdrs_len fold_right fst snd]. rewrite !lenN_app, IH.
  change (lenN req_colon) with 2. change (lenN req_eol) with 2. fold (hdrs_len hs). lia.
Qed.

Lemma headlen_fold hs : forall a, a + hdrs_len hs < two64 ->
  fold_left (fun a (hv : list N * list N) =>
               wrap64 (a + wrap64 (lenN (fst hv) + lenN (snd hv) + reqlen_per_header))) hs a
  = a + hdrs_len hs.
Proof.
  induction hs as [|[h v] hs IH]; intros a H; cbn [fold_left hdrs_len fold_right fst snd] in *; [lia|].
  fold (hdrs_len hs) in *. change reqlen_per_header with 4.
  assert (E1 : wrap64 (lenN h + lenN v + 4) = lenN h + lenN v + 4)
    by (unfold wrap64; apply N.mod_small; lia).
  rewrite E1.
  assert (E2 : wrap64 (a + (lenN h + lenN v + 4)) = a + (lenN h + lenN v + 4))
    by (unfold wrap64; apply N.mod_small; lia).
  rewrite E2. rewrite IH by lia. lia.
Qed.

Lemma req_headlen_exact q : lenN (req_render q) + 1 < two64 -> req_headlen q = lenN (req_render q).
Proof.
  intros H. unfold req_headlen, req_render in *.
  rewrite !lenN_app, hdrs_len_render in *.
  change (lenN reqlen_sp) with 1. change (lenN reqlen_version) with 11. change reqlen_blank with 2.
  change (lenN req_sp) with 1 in *. change (lenN req_version) with 11 in *. change (lenN req_blank) with 2 in *.
  assert (E1 : wrap64 (lenN (q_method q) + 1 + lenN (q_path q) + 11) = lenN (q_method q) + 1 + lenN (q_path q) + 11)
    by (unfold wrap64; apply N.mod_small; lia).
  rewrite E1. rewrite headlen_fold by lia. unfold wrap64. rewrite N.mod_small by lia. lia.
Qed.

(* M1: the bytes handed to the writer are exactly method SP path " HTTP/1.1" CRLF (name ": " value
   CRLF)* CRLF body; the precomputed length is the rendered length (the assert holds, the stpcpy
   chain stays inside malloc(req_headlen + 1)) *)
Theorem request_bytes q : lenN (req_render q) + 1 < two64 ->
  http_request_m q = Ok (request_layout q) /\ req_headlen q = lenN (req_render q).
Proof.
  intros H. pose proof (req_headlen_exact q H) as E. split; [|exact E].
  unfold http_request_m. rewrite E.
  unfold wrap64. rewrite N.mod_small by lia.
  replace (lenN (req_render q) + 1 <? lenN (req_render q) + 1) with false
    by (symmetry; apply N.ltb_ge; lia).
  rewrite N.eqb_refl. cbn [negb]. rewrite req_render_layout. reflexivity.
Qed.

Example request_bytes_nonvacuous :
  let q := mkReq [71; 69; 84] [47] [([72; 111; 115; 116], [120])] [1; 2; 3] in
  lenN (req_render q) + 1 < two64 /\
  http_request_m q = Ok ([71; 69; 84; 32; 47; 32; 72; 84; 84; 80; 47; 49; 46; 49; 13; 10;
                          72; 111; 115; 116; 58; 32; 120; 13; 10; 13; 10; 1; 2; 3]).
Proof. split; [vm_compute; reflexivity | vm_compute; reflexivity]. Qed.

(* ================================================================== lines of a rendered block *)
Definition no_cr (l : list N) : Prop := Forall (fun c => c <> 13) l.

Lemma cut_line_cons2 a b t :
  cut_line (a :: b :: t) =
  if is_eol a b then Some ([], t)
  else match cut_line (b :: t) with Some (ln, r) => Some (a :: ln, r) | None => None end.
Proof. reflexivity. Qed.

Lemma cut_line_nocr ln : forall r, no_cr ln -> cut_line (ln ++ [13; 10] ++ r) = Some (ln, r).
Proof.
  induction ln as [|a ln IH]; intros r H; [reflexivity|].
  inversion H as [|? ? Ha Hl]; subst.
  change ((a :: ln) ++ [13; 10] ++ r) with (a :: (ln ++ [13; 10] ++ r)). specialize (IH r Hl).
  destruct (ln ++ [13; 10] ++ r) as [|b t'] eqn:E; [destruct ln; discriminate|].
  rewrite cut_line_cons2. replace (is_eol a b) with false.
  2:{ symmetry. rewrite is_eol_spec. apply andb_false_iff. left. apply N.eqb_neq. exact Ha. }
  rewrite IH. reflexivity.
Qed.

Lemma count_lines_line ln r : no_cr ln ->
  count_lines (ln ++ [13; 10] ++ r) false = 1 + count_lines r false.
Proof.
  intros H. destruct (cut_line_some _ _ _ (cut_line_nocr ln r H)) as [_ E]. apply E.
Qed.

(* ================================================================== OWS trimming and the split *)
Lemma memb_ows_trailing c : memb c ows_trailing = is_ows c.
Proof.
  unfold ows_trailing, is_ows, SP, HT. cbn [memb]. rewrite orb_false_r, (N.eqb_sym 9 c), (N.eqb_sym 32 c).
  apply orb_comm.
Qed.
Lemma memb_ows_leading c : memb c ows_leading = is_ows c.
Proof.
  unfold ows_leading, is_ows, SP, HT. cbn [memb]. rewrite orb_false_r, (N.eqb_sym 9 c), (N.eqb_sym 32 c).
  apply orb_comm.
Qed.

Lemma drop_while_all set l rest : forallb (fun c => memb c set) l = true ->
  drop_while_in set (l ++ rest) = drop_while_in set rest.
Proof.
  induction l as [|c l IH]; intros H; [reflexivity|].
  cbn [forallb] in H. apply andb_true_iff in H. destruct H as [H1 H2].
  cbn [app drop_while_in]. rewrite H1. apply IH. exact H2.
Qed.

Lemma drop_while_stop set c l : memb c set = false -> drop_while_in set (c :: l) = c :: l.
Proof. intros H. cbn [drop_while_in]. rewrite H. reflexivity. Qed.

Lemma forallb_ext' {A} (f g : A -> bool) l : (forall x, f x = g x) -> forallb f l = forallb g l.
Proof. intros H. induction l as [|x l IH]; [reflexivity|]. cbn. rewrite H, IH. reflexivity. Qed.

Lemma all_ows_memb_t l : forallb is_ows l = true -> forallb (fun c => memb c ows_trailing) l = true.
Proof. intros H. rewrite (forallb_ext' _ is_ows); [exact H|]. intros c. apply memb_ows_trailing. Qed.
Lemma all_ows_memb_l l : forallb is_ows l = true -> forallb (fun c => memb c ows_leading) l = true.
Proof. intros H. rewrite (forallb_ext' _ is_ows); [exact H|]. intros c. apply memb_ows_leading. Qed.

Lemma forallb_rev {A} (f : A -> bool) l : forallb f (rev l) = forallb f l.
Proof.
  induction l as [|x l IH]; [reflexivity|]. cbn [rev forallb]. rewrite forallb_app, IH. cbn. 
  rewrite andb_true_r. apply andb_comm.
Qed.

(* trailing OWS goes, and trimming stops at a byte that is not OWS *)
Lemma rtrim_app_ows l t : forallb is_ows t = true -> rtrim (l ++ t) = rtrim l.
Proof.
  intros H. unfold rtrim. rewrite !frev_rev, rev_app_distr.
  rewrite drop_while_all; [reflexivity|]. apply all_ows_memb_t. rewrite forallb_rev. exact H.
Qed.

Lemma rtrim_stop l c : is_ows c = false -> rtrim (l ++ [c]) = l ++ [c].
Proof.
  intros H. unfold rtrim. rewrite !frev_rev, rev_app_distr. cbn [rev app].
  rewrite drop_while_stop by (rewrite memb_ows_trailing; exact H).
  cbn [rev]. rewrite rev_involutive. reflexivity.
Qed.

Lemma break_at_first name rest : forallb (fun c => negb (memb c hdr_separators)) name = true ->
  break_at hdr_separators (name ++ COLON :: rest) = (name, COLON :: rest).
Proof.
  induction name as [|c name IH]; intros H.
  - reflexivity.
  - cbn [forallb] in H. apply andb_true_iff in H. destruct H as [H1 H2].
    cbn [app break_at]. apply negb_true_iff in H1. rewrite H1. rewrite (IH H2). reflexivity.
Qed.

Lemma has_nul_false l : (forall c, In c l -> c <> 0) -> has_nul l = false.
Proof.
  unfold has_nul. induction l as [|c l IH]; intros H; [reflexivity|].
  cbn [memb]. rewrite IH by (intros x Hx; apply H; right; exact Hx).
  rewrite orb_false_r. apply N.eqb_neq. apply H. left. reflexivity.
Qed.

Lemma wf_name_nosep n : wf_name n = true ->
  forallb (fun c => negb (memb c hdr_separators)) n = true /\ no_cr n /\ has_nul n = false /\ n <> [].
Proof.
  unfold wf_name. rewrite andb_true_iff. intros [H0 H].
  assert (Hne : n <> []) by (destruct n; [discriminate | discriminate]).
  split; [|split; [|split; [|exact Hne]]].
  - rewrite forallb_forall in H. apply forallb_forall. intros c Hc. specialize (H c Hc).
    unfold hdr_separators. cbn [memb]. rewrite orb_false_r, (N.eqb_sym 58 c).
    unfold COLON in H. destruct (c =? 58); [|reflexivity].
    rewrite !orb_true_r in H. cbn in H. rewrite ?orb_true_r in H. discriminate.
  - apply Forall_forall. intros c Hc Hcr. rewrite forallb_forall in H. specialize (H c Hc). subst c.
    discriminate.
  - apply has_nul_false. intros c Hc Hz. rewrite forallb_forall in H. specialize (H c Hc). subst c.
    discriminate.
Qed.

Lemma no_ctl_facts v : no_ctl v = true -> no_cr v /\ has_nul v = false.
Proof.
  unfold no_ctl. intros H. split.
  - apply Forall_forall. intros c Hc Hcr. rewrite forallb_forall in H. specialize (H c Hc). subst c.
    discriminate.
  - apply has_nul_false. intros c Hc Hz. rewrite forallb_forall in H. specialize (H c Hc). subst c.
    discriminate.
Qed.

Lemma all_ows_facts l : forallb is_ows l = true -> no_cr l /\ has_nul l = false.
Proof.
  intros H. split.
  - apply Forall_forall. intros c Hc Hcr. rewrite forallb_forall in H. specialize (H c Hc). subst c.
    discriminate.
  - apply has_nul_false. intros c Hc Hz. rewrite forallb_forall in H. specialize (H c Hc). subst c.
    discriminate.
Qed.

Definition field_line (f : hfield) : list N :=
  f_name f ++ [COLON] ++ f_lead f ++ f_value f ++ f_trail f.

Lemma render_field_line f : render_field f = field_line f ++ [13; 10].
Proof. unfold render_field, field_line, crlf, CR, LF. rewrite <- !app_assoc. reflexivity. Qed.

(* the split of a rendered field line is exactly (name, value) *)
Lemma split_header_field a f : wf_field a f = true ->
  split_header (field_line f) = (f_name f, f_value f).
Proof.
  unfold wf_field. rewrite !andb_true_iff. intros [[[[Hn Hv] Hl] Ht] _].
  destruct (wf_name_nosep _ Hn) as (Hsep & _ & _ & _).
  unfold wf_value in Hv. rewrite !andb_true_iff in Hv. destruct Hv as [[_ Hfirst] Hlast].
  unfold split_header, field_line.
  destruct (f_value f) as [|v0 vs] eqn:Ev.
  - (* empty value: everything behind the colon is OWS *)
    cbn [app]. replace (f_name f ++ COLON :: f_lead f ++ f_trail f)
      with ((f_name f ++ [COLON]) ++ (f_lead f ++ f_trail f)) by (rewrite <- app_assoc; reflexivity).
    rewrite rtrim_app_ows by (rewrite forallb_app, Hl, Ht; reflexivity).
    rewrite rtrim_stop by reflexivity.
    replace (f_name f ++ [COLON]) with (f_name f ++ COLON :: []) by reflexivity.
    rewrite break_at_first by exact Hsep. reflexivity.
  - (* the value ends in a byte that is not OWS *)
    rewrite frev_rev in Hlast.
    destruct (rev (v0 :: vs)) as [|cl rv] eqn:Er.
    { apply (f_equal (@rev N)) in Er. rewrite rev_involutive in Er. discriminate. }
    assert (Eval : v0 :: vs = rev rv ++ [cl]).
    { apply (f_equal (@rev N)) in Er. rewrite rev_involutive in Er. exact Er. }
    apply negb_true_iff in Hlast. apply negb_true_iff in Hfirst.
    replace (f_name f ++ [COLON] ++ f_lead f ++ (v0 :: vs) ++ f_trail f)
      with (((f_name f ++ [COLON] ++ f_lead f ++ rev rv) ++ [cl]) ++ f_trail f).
    2:{ rewrite Eval, <- !app_assoc. reflexivity. }
    rewrite rtrim_app_ows by exact Ht. rewrite rtrim_stop by exact Hlast.
    replace ((f_name f ++ [COLON] ++ f_lead f ++ rev rv) ++ [cl])
      with (f_name f ++ COLON :: (f_lead f ++ v0 :: vs)).
    2:{ rewrite Eval, <- !app_assoc. reflexivity. }
    rewrite break_at_first by exact Hsep.
    rewrite drop_while_all by (apply all_ows_memb_l; exact Hl).
    rewrite drop_while_stop by (rewrite memb_ows_leading; exact Hfirst). reflexivity.
Qed.

Lemma field_line_clean a f : wf_field a f = true -> no_cr (field_line f) /\ has_nul (field_line f) = false.
Proof.
  unfold wf_field. rewrite !andb_true_iff. intros [[[[Hn Hv] Hl] Ht] _].
  destruct (wf_name_nosep _ Hn) as (_ & N1 & N2 & _).
  unfold wf_value in Hv. rewrite !andb_true_iff in Hv. destruct Hv as [[Hc _] _].
  destruct (no_ctl_facts _ Hc) as [V1 V2].
  destruct (all_ows_facts _ Hl) as [L1 L2]. destruct (all_ows_facts _ Ht) as [T1 T2].
  unfold field_line. split.
  - unfold no_cr in *. rewrite !Forall_app. repeat split; try assumption.
    constructor; [discriminate | constructor].
  - unfold has_nul in *.
    assert (Hm : forall a b, memb 0 (a ++ b) = memb 0 a || memb 0 b).
    { induction a0 as [|x a0 IH]; intros b; [reflexivity|]. cbn [app memb]. rewrite IH. apply orb_assoc. }
    rewrite !Hm, N2, V2, L2, T2. reflexivity.
Qed.

(* the parsing loop over rendered fields returns exactly their (name, value) pairs *)
Lemma parse_headers_render a : forall fs tail bufpos acc,
  forallb (wf_field a) fs = true ->
  parse_headers (length fs) (concat (map render_field fs) ++ tail) bufpos acc =
  Ok (Some (rev acc ++ map (fun f => (f_name f, f_value f)) fs,
            bufpos + lenN (concat (map render_field fs)))).
Proof.
  induction fs as [|f fs IH]; intros tail bufpos acc H.
  - cbn. rewrite frev_rev, app_nil_r. f_equal. f_equal. f_equal. lia.
  - cbn [forallb] in H. apply andb_true_iff in H. destruct H as [Hf Hfs].
    cbn [length map concat parse_headers]. rewrite render_field_line, <- !app_assoc.
    destruct (field_line_clean a f Hf) as [C1 C2].
    rewrite (cut_line_nocr (field_line f) _ C1), C2.
    rewrite (IH tail _ _ Hfs). cbn [rev]. rewrite (split_header_field a f Hf), <- app_assoc. cbn [app].
    f_equal. f_equal. f_equal. rewrite !lenN_app, !lenN_cons. change sgetline_skip with 2. lia.
Qed.

(* ================================================================== M2: a rendered header block *)
Definition status_line (m : msg) : list N :=
  http_1_dot ++ m_minor m ++ [SP] ++ dec (m_status m) ++ [SP] ++ m_reason m.

Lemma render_head_lines m fs :
  render_head m fs = status_line m ++ [13; 10] ++ concat (map render_field fs) ++ [13; 10].
Proof. unfold render_head, status_line, crlf, CR, LF. rewrite <- !app_assoc. reflexivity. Qed.

Lemma has_nul_app a b : has_nul (a ++ b) = has_nul a || has_nul b.
Proof.
  unfold has_nul. induction a as [|x a IH]; [reflexivity|]. cbn [app memb]. rewrite IH. apply orb_assoc.
Qed.

Definition clean (l : list N) : Prop := no_cr l /\ has_nul l = false.

Lemma clean_app a b : clean a -> clean b -> clean (a ++ b).
Proof.
  intros [A1 A2] [B1 B2]. split.
  - unfold no_cr in *. rewrite Forall_app. split; assumption.
  - rewrite has_nul_app, A2, B2. reflexivity.
Qed.

Lemma clean_forall l : (forall c, In c l -> c <> 13 /\ c <> 0) -> clean l.
Proof.
  intros H. split.
  - apply Forall_forall. intros c Hc. apply (H c Hc).
  - apply has_nul_false. intros c Hc. apply (H c Hc).
Qed.

Lemma clean_digits ds : forallb is_dec_digit ds = true -> clean ds.
Proof.
  intros H. apply clean_forall. intros c Hc. rewrite forallb_forall in H.
  pose proof (dec_digit_ge c (H c Hc)). lia.
Qed.

Lemma clean_no_ctl l : no_ctl l = true -> clean l.
Proof. intros H. destruct (no_ctl_facts l H). split; assumption. Qed.

Lemma wf_msg_parts lo hi a m : wf_msg lo hi a m = true ->
  m_minor m <> [] /\ forallb is_dec_digit (m_minor m) = true /\ lo <= m_status m <= hi /\
  no_ctl (m_reason m) = true /\ forallb (wf_field a) (m_fields m) = true.
Proof.
  unfold wf_msg. rewrite !andb_true_iff. intros [[[[[H1 H2] H3] H4] H5] H6].
  apply N.leb_le in H3. apply N.leb_le in H4.
  repeat split; try assumption. destruct (m_minor m); [discriminate | discriminate].
Qed.

Lemma status_line_clean lo hi a m : wf_msg lo hi a m = true -> clean (status_line m).
Proof.
  intros H. destruct (wf_msg_parts _ _ _ _ H) as (M1 & M2 & M3 & M4 & _).
  destruct (dec_spec (m_status m)) as (_ & D2 & _).
  unfold status_line. repeat apply clean_app.
  - apply clean_forall. unfold http_1_dot. cbn [In]. intros c Hc.
    repeat (destruct Hc as [<- | Hc]; [split; discriminate|]). contradiction.
  - apply clean_digits. exact M2.
  - apply clean_forall. cbn [In]. intros c [<- | []]. split; discriminate.
  - apply clean_digits. exact D2.
  - apply clean_forall. cbn [In]. intros c [<- | []]. split; discriminate.
  - apply clean_no_ctl. exact M4.
Qed.

(* sscanf(line, "HTTP/%d.%d %d ", ...) step by step *)
Lemma scanf_lit f fmt s vals : (f =? 37) = false -> is_space f = false ->
  scanf_m (f :: fmt) (f :: s) vals = scanf_m fmt s vals.
Proof. intros H1 H2. cbn [scanf_m]. rewrite H1, H2, N.eqb_refl. reflexivity. Qed.

Lemma scanf_d fmt s vals :
  scanf_m (37 :: 100 :: fmt) s vals =
  match scan_int s with Some (v, rest) => scanf_m fmt rest (vals ++ [v]) | None => vals end.
Proof. reflexivity. Qed.

Lemma scanf_sp fmt s vals : scanf_m (32 :: fmt) s vals = scanf_m fmt (drop_space s) vals.
Proof. reflexivity. Qed.

Lemma drop_space_stop d l : 48 <= d -> drop_space (d :: l) = d :: l.
Proof. intros H. cbn [drop_space]. rewrite (is_space_ge d H). reflexivity. Qed.

Lemma scanf_status_line lo hi a m : wf_msg lo hi a m = true -> hi <= 599 ->
  exists minor, scanf_m status_format (status_line m) [] = [1%Z; minor; Z.of_N (m_status m)].
Proof.
  intros H Hhi. destruct (wf_msg_parts _ _ _ _ H) as (M1 & M2 & M3 & M4 & _).
  destruct (dec_spec (m_status m)) as (D1 & D2 & D3).
  unfold status_line, http_1_dot, status_format. cbn [app].
  do 5 (rewrite scanf_lit by reflexivity).
  rewrite scanf_d.
  destruct (scan_int_digits [49] 46 (m_minor m ++ SP :: dec (m_status m) ++ SP :: m_reason m)
              ltac:(discriminate) eq_refl eq_refl) as (z1 & E1 & V1).
  cbn [app] in E1. rewrite E1. rewrite (V1 1) by (try reflexivity; lia).
  rewrite scanf_lit by reflexivity.
  rewrite scanf_d.
  destruct (scan_int_digits (m_minor m) SP (dec (m_status m) ++ SP :: m_reason m) M1 M2 eq_refl)
    as (z2 & E2 & _).
  rewrite E2. rewrite scanf_sp.
  destruct (dec (m_status m)) as [|d0 ds] eqn:Ed; [contradiction|]. rewrite <- Ed in *.
  assert (Hd0 : 48 <= d0).
  { pose proof D2 as D2'. rewrite Ed in D2'. cbn [forallb] in D2'. apply andb_true_iff in D2'.
    destruct D2' as [D2' _]. pose proof (dec_digit_ge _ D2'). lia. }
  cbn [drop_space]. change (is_space SP) with true. cbv iota.
  rewrite Ed. change ((d0 :: ds) ++ SP :: m_reason m) with (d0 :: (ds ++ SP :: m_reason m)).
  rewrite (drop_space_stop d0 _ Hd0).
  change (d0 :: (ds ++ SP :: m_reason m)) with ((d0 :: ds) ++ SP :: m_reason m). rewrite <- Ed.
  rewrite scanf_d.
  destruct (scan_int_digits (dec (m_status m)) SP (m_reason m) D1 D2 eq_refl) as (z3 & E3 & V3).
  rewrite E3. rewrite (V3 (m_status m) D3) by lia.
  rewrite scanf_sp. cbn [scanf_m app]. eauto.
Qed.

Lemma count_lines_fields a fs : forallb (wf_field a) fs = true ->
  count_lines (concat (map render_field fs) ++ [13; 10]) false = N.of_nat (length fs) + 1.
Proof.
  induction fs as [|f fs IH]; intros H; [reflexivity|].
  cbn [forallb] in H. apply andb_true_iff in H. destruct H as [Hf Hfs].
  cbn [map concat]. rewrite render_field_line, <- !app_assoc.
  destruct (field_line_clean a f Hf) as [C1 _].
  rewrite (count_lines_line (field_line f) _ C1). rewrite (IH Hfs).
  cbn [length]. rewrite Nat2N.inj_succ. lia.
Qed.

Lemma count_lines_head lo hi a m b fs : wf_msg lo hi a m = true -> forallb (wf_field b) fs = true ->
  count_lines (render_head m fs) false = N.of_nat (length fs) + 2.
Proof.
  intros H Hfs. rewrite render_head_lines.
  destruct (status_line_clean _ _ _ _ H) as [C1 _].
  rewrite (count_lines_line (status_line m) _ C1), (count_lines_fields b fs Hfs). lia.
Qed.

Lemma lenN_head m fs :
  lenN (render_head m fs) = lenN (status_line m) + 2 + lenN (concat (map render_field fs)) + 2.
Proof. rewrite render_head_lines, !lenN_app. change (lenN [13; 10]) with 2. lia. Qed.

Definition nv (f : hfield) : list N * list N := (f_name f, f_value f).

(* M2: gotheaders on a window that starts with a rendered header block: the block is consumed, the
   status and exactly the (name, value) pairs - optional white space trimmed - are extracted in
   order; a 1xx block restarts the header scan, any other goes on to the choice of the framing *)
Theorem headers_roundtrip lo hi a m fs h post :
  wf_msg lo hi a m = true -> 100 <= lo -> hi <= 599 -> forallb (wf_field true) fs = true ->
  rdr_ok (h_r h) -> r_win (h_r h) = render_head m fs ++ post ->
  exists r', rdr_consume (h_r h) (lenN (render_head m fs)) = Ok r' /\ rdr_ok r' /\ r_win r' = post /\
    gotheaders h (lenN (render_head m fs)) =
    if m_status m <=? 199 then Ok (SCont (set_hepos (set_r h r') 0) PhHeader)
    else select_framing (set_resp (set_r h r') (Z.of_N (m_status m)) (map nv fs)).
Proof.
  intros Hm Hlo Hhi Hfs R W.
  destruct (wf_msg_parts _ _ _ _ Hm) as (M1 & M2 & M3 & M4 & _).
  pose proof (avail_win _ R) as Av.
  assert (Hlen : lenN (render_head m fs) <= avail (h_r h)) by (rewrite Av, W, lenN_app; lia).
  destruct (consume_ok _ _ R Hlen) as (r' & Ec & R' & Wr' & _).
  exists r'. split; [exact Ec|]. split; [exact R'|].
  split; [rewrite Wr', W; apply dropN_app_exact|].
  unfold gotheaders. rewrite Ec. cbn [bind]. rewrite W, takeN_app_exact.
  rewrite (count_lines_head _ _ _ _ _ _ Hm Hfs).
  replace (N.of_nat (length fs) + 2 <? nonheader_lines) with false
    by (symmetry; apply N.ltb_ge; change nonheader_lines with 2; lia).
  destruct (status_line_clean _ _ _ _ Hm) as [C1 C2].
  rewrite render_head_lines at 1. rewrite (cut_line_nocr (status_line m) _ C1), C2.
  destruct (scanf_status_line _ _ _ _ Hm Hhi) as [minor Es]. rewrite Es.
  change (lenN [1%Z; minor; Z.of_N (m_status m)] <? status_min_conversions) with false. cbv iota.
  cbn [nth]. change (negb (1 =? Z.of_N http_major)%Z) with false. cbv iota.
  replace ((Z.of_N (m_status m) <? Z.of_N status_lo) || (Z.of_N status_hi <? Z.of_N (m_status m)))%Z
    with false.
  2:{ symmetry. apply orb_false_iff. change status_lo with 100. change status_hi with 599.
      split; apply Z.ltb_ge; lia. }
  replace (N.to_nat (N.of_nat (length fs) + 2 - nonheader_lines)) with (length fs)
    by (change nonheader_lines with 2; lia).
  rewrite (parse_headers_render true fs [13; 10] _ [] Hfs). cbn [bind rev app].
  replace (negb (lenN (status_line m) + sgetline_skip + lenN (concat (map render_field fs)) + final_blank_len
                 =? lenN (render_head m fs))) with false.
  2:{ symmetry. apply negb_false_iff, N.eqb_eq. rewrite lenN_head.
      change sgetline_skip with 2. change final_blank_len with 2. lia. }
  cbv iota.
  change (Z.of_N interim_lo) with 100%Z. change (Z.of_N interim_hi) with 199%Z.
  replace (100 <=? Z.of_N (m_status m))%Z with true by (symmetry; apply Z.leb_le; lia).
  cbn [andb].
  destruct (m_status m <=? 199) eqn:E.
  - apply N.leb_le in E. replace (Z.of_N (m_status m) <=? 199)%Z with true by (symmetry; apply Z.leb_le; lia).
    reflexivity.
  - apply N.leb_gt in E. replace (Z.of_N (m_status m) <=? 199)%Z with false by (symmetry; apply Z.leb_gt; lia).
    reflexivity.
Qed.

Example headers_roundtrip_nonvacuous :
  let m := mkM [49] 200 [79; 75] [] in
  let fs := [mkF [65] [98; 58; 99] [SP; HT] [SP]; mkF [66] [] [] []] in
  wf_msg 200 599 false m = true /\ forallb (wf_field true) fs = true /\
  rdr_ok (mkR 4096 0 (lenN (render_head m fs)) (render_head m fs)).
Proof.
  cbv zeta. split; [vm_compute; reflexivity|]. split; [vm_compute; reflexivity|].
  constructor; cbn [r_bufpos r_datalen r_buflen r_win]; vm_compute; try reflexivity; discriminate.
Qed.
