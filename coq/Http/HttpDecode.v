(* C09 for the model of http.c: the request bytes, and the decoding of rendered well-formed
   responses (HttpSpec.render / expect). *)
From Coq Require Import Arith NArith ZArith List Bool Lia.
From LCP Require Import Base.CheckedMem Gen.Repo_http Http.HttpStrto Http.HttpModel Http.HttpSpec
  Http.HttpLemmas Http.HttpSafe.
Import ListNotations.
Local Open Scope N_scope.
Local Open Scope res_scope.

Ltac Zify.zify_post_hook ::= Z.div_mod_to_equations.

(* ================================================================== M1: the request *)

(* the literals of the stpcpy chain and of the length precomputation are the documented ones *)
Lemma req_literals :
  req_sp = [SP] /\ req_version = [SP; 72; 84; 84; 80; 47; 49; 46; 49; CR; LF] /\
  req_colon = [COLON; SP] /\ req_eol = crlf /\ req_blank = crlf /\
  reqlen_sp = req_sp /\ reqlen_version = req_version /\
  reqlen_per_header = lenN req_colon + lenN req_eol /\ reqlen_blank = lenN req_blank.
Proof. repeat split; reflexivity. Qed.

Lemma req_render_layout q : req_render q ++ q_body q = request_layout q.
Proof.
  unfold req_render, request_layout.
  destruct req_literals as (-> & -> & -> & -> & -> & _).
  rewrite flat_map_concat_map. rewrite <- !app_assoc. reflexivity.
Qed.

Definition hdrs_len (hs : hdrs) : N :=
  fold_right (fun hv a => lenN (fst hv) + lenN (snd hv) + 4 + a) 0 hs.

Lemma hdrs_len_render hs :
  lenN (flat_map (fun hv : list N * list N => fst hv ++ req_colon ++ snd hv ++ req_eol) hs) = hdrs_len hs.
Proof.
  induction hs as [|[h v] hs IH]; [reflexivity|].
  cbn [flat_map hdrs_len fold_right fst snd]. rewrite !lenN_app, IH.
  change (lenN req_colon) with 2. change (lenN req_eol) with 2. fold (hdrs_len hs). lia.
Qed.

Lemma headlen_fold hs : forall a, a + hdrs_len hs < two64 ->
  fold_left (fun a (hv : list N * list N) =>
               wrap64 (a + wrap64 (lenN (fst hv) + lenN (snd hv) + reqlen_per_header))) hs a
  = a + hdrs_len hs.
Proof.
  induction hs as [|[h v] hs IH]; intros a H; cbn [fold_left hdrs_len fold_right fst snd] in *; [lia|].
  fold (hdrs_len hs) in *. change reqlen_per_header with 4.
  assert (E1 : wrap64 (lenN h + lenN v + 4) = lenN h + lenN v + 4)
    by (unfold wrap64; apply N.mod_small; lia).
  rewrite E1.
  assert (E2 : wrap64 (a + (lenN h + lenN v + 4)) = a + (lenN h + lenN v + 4))
    by (unfold wrap64; apply N.mod_small; lia).
  rewrite E2. rewrite IH by lia. lia.
Qed.

Lemma req_headlen_exact q : lenN (req_render q) + 1 < two64 -> req_headlen q = lenN (req_render q).
Proof.
  intros H. unfold req_headlen, req_render in *.
  rewrite !lenN_app, hdrs_len_render in *.
  change (lenN reqlen_sp) with 1. change (lenN reqlen_version) with 11. change reqlen_blank with 2.
  change (lenN req_sp) with 1 in *. change (lenN req_version) with 11 in *. change (lenN req_blank) with 2 in *.
  assert (E1 : wrap64 (lenN (q_method q) + 1 + lenN (q_path q) + 11) = lenN (q_method q) + 1 + lenN (q_path q) + 11)
    by (unfold wrap64; apply N.mod_small; lia).
  rewrite E1. rewrite headlen_fold by lia. unfold wrap64. rewrite N.mod_small by lia. lia.
Qed.

(* M1: the bytes handed to the writer are exactly method SP path " HTTP/1.1" CRLF (name ": " value
   CRLF)* CRLF body; the precomputed length is the rendered length (the assert holds, the stpcpy
   chain stays inside malloc(req_headlen + 1)) *)
Theorem request_bytes q : lenN (req_render q) + 1 < two64 ->
  http_request_m q = Ok (request_layout q) /\ req_headlen q = lenN (req_render q).
Proof.
  intros H. pose proof (req_headlen_exact q H) as E. split; [|exact E].
  unfold http_request_m. rewrite E.
  unfold wrap64. rewrite N.mod_small by lia.
  replace (lenN (req_render q) + 1 <? lenN (req_render q) + 1) with false
    by (symmetry; apply N.ltb_ge; lia).
  rewrite N.eqb_refl. cbn [negb]. rewrite req_render_layout. reflexivity.
Qed.

Example request_bytes_nonvacuous :
  let q := mkReq [71; 69; 84] [47] [([72; 111; 115; 116], [120])] [1; 2; 3] in
  lenN (req_render q) + 1 < two64 /\
  http_request_m q = Ok ([71; 69; 84; 32; 47; 32; 72; 84; 84; 80; 47; 49; 46; 49; 13; 10;
                          72; 111; 115; 116; 58; 32; 120; 13; 10; 13; 10; 1; 2; 3]).
Proof. split; [vm_compute; reflexivity | vm_compute; reflexivity]. Qed.

(* ================================================================== lines of a rendered block *)
Definition no_cr (l : list N) : Prop := Forall (fun c => c <> 13) l.

Lemma cut_line_cons2 a b t :
  cut_line (a :: b :: t) =
  if is_eol a b then Some ([], t)
  else match cut_line (b :: t) with Some (ln, r) => Some (a :: ln, r) | None => None end.
Proof. reflexivity. Qed.

Lemma cut_line_nocr ln : forall r, no_cr ln -> cut_line (ln ++ [13; 10] ++ r) = Some (ln, r).
Proof.
  induction ln as [|a ln IH]; intros r H; [reflexivity|].
  inversion H as [|? ? Ha Hl]; subst.
  change ((a :: ln) ++ [13; 10] ++ r) with (a :: (ln ++ [13; 10] ++ r)). specialize (IH r Hl).
  destruct (ln ++ [13; 10] ++ r) as [|b t'] eqn:E; [destruct ln; discriminate|].
  rewrite cut_line_cons2. replace (is_eol a b) with false.
  2:{ symmetry. rewrite is_eol_spec. apply andb_false_iff. left. apply N.eqb_neq. exact Ha. }
  rewrite IH. reflexivity.
Qed.

Lemma count_lines_line ln r : no_cr ln ->
  count_lines (ln ++ [13; 10] ++ r) false = 1 + count_lines r false.
Proof.
  intros H. destruct (cut_line_some _ _ _ (cut_line_nocr ln r H)) as [_ E]. apply E.
Qed.

(* ================================================================== OWS trimming and the split *)
Lemma memb_ows_trailing c : memb c ows_trailing = is_ows c.
Proof.
  unfold ows_trailing, is_ows, SP, HT. cbn [memb]. rewrite orb_false_r, (N.eqb_sym 9 c), (N.eqb_sym 32 c).
  apply orb_comm.
Qed.
Lemma memb_ows_leading c : memb c ows_leading = is_ows c.
Proof.
  unfold ows_leading, is_ows, SP, HT. cbn [memb]. rewrite orb_false_r, (N.eqb_sym 9 c), (N.eqb_sym 32 c).
  apply orb_comm.
Qed.

Lemma drop_while_all set l rest : forallb (fun c => memb c set) l = true ->
  drop_while_in set (l ++ rest) = drop_while_in set rest.
Proof.
  induction l as [|c l IH]; intros H; [reflexivity|].
  cbn [forallb] in H. apply andb_true_iff in H. destruct H as [H1 H2].
  cbn [app drop_while_in]. rewrite H1. apply IH. exact H2.
Qed.

Lemma drop_while_stop set c l : memb c set = false -> drop_while_in set (c :: l) = c :: l.
Proof. intros H. cbn [drop_while_in]. rewrite H. reflexivity. Qed.

Lemma forallb_ext' {A} (f g : A -> bool) l : (forall x, f x = g x) -> forallb f l = forallb g l.
Proof. intros H. induction l as [|x l IH]; [reflexivity|]. cbn. rewrite H, IH. reflexivity. Qed.

Lemma all_ows_memb_t l : forallb is_ows l = true -> forallb (fun c => memb c ows_trailing) l = true.
Proof. intros H. rewrite (forallb_ext' _ is_ows); [exact H|]. intros c. apply memb_ows_trailing. Qed.
Lemma all_ows_memb_l l : forallb is_ows l = true -> forallb (fun c => memb c ows_leading) l = true.
Proof. intros H. rewrite (forallb_ext' _ is_ows); [exact H|]. intros c. apply memb_ows_leading. Qed.

Lemma forallb_rev {A} (f : A -> bool) l : forallb f (rev l) = forallb f l.
Proof.
  induction l as [|x l IH]; [reflexivity|]. cbn [rev forallb]. rewrite forallb_app, IH. cbn. 
  rewrite andb_true_r. apply andb_comm.
Qed.

(* trailing OWS goes, and trimming stops at a byte that is not OWS *)
Lemma rtrim_app_ows l t : forallb is_ows t = true -> rtrim (l ++ t) = rtrim l.
Proof.
  intros H. unfold rtrim. rewrite !frev_rev, rev_app_distr.
  rewrite drop_while_all; [reflexivity|]. apply all_ows_memb_t. rewrite forallb_rev. exact H.
Qed.

Lemma rtrim_stop l c : is_ows c = false -> rtrim (l ++ [c]) = l ++ [c].
Proof.
  intros H. unfold rtrim. rewrite !frev_rev, rev_app_distr. cbn [rev app].
  rewrite drop_while_stop by (rewrite memb_ows_trailing; exact H).
  cbn [rev]. rewrite rev_involutive. reflexivity.
Qed.

Lemma break_at_first name rest : forallb (fun c => negb (memb c hdr_separators)) name = true ->
  break_at hdr_separators (name ++ COLON :: rest) = (name, COLON :: rest).
Proof.
  induction name as [|c name IH]; intros H.
  - reflexivity.
  - cbn [forallb] in H. apply andb_true_iff in H. destruct H as [H1 H2].
    cbn [app break_at]. apply negb_true_iff in H1. rewrite H1. rewrite (IH H2). reflexivity.
Qed.

Lemma has_nul_false l : (forall c, In c l -> c <> 0) -> has_nul l = false.
Proof.
  unfold has_nul. induction l as [|c l IH]; intros H; [reflexivity|].
  cbn [memb]. rewrite IH by (intros x Hx; apply H; right; exact Hx).
  rewrite orb_false_r. apply N.eqb_neq. apply H. left. reflexivity.
Qed.

Lemma wf_name_nosep n : wf_name n = true ->
  forallb (fun c => negb (memb c hdr_separators)) n = true /\ no_cr n /\ has_nul n = false /\ n <> [].
Proof.
  unfold wf_name. rewrite andb_true_iff. intros [H0 H].
  assert (Hne : n <> []) by (destruct n; [discriminate | discriminate]).
  split; [|split; [|split; [|exact Hne]]].
  - rewrite forallb_forall in H. apply forallb_forall. intros c Hc. specialize (H c Hc).
    unfold hdr_separators. cbn [memb]. rewrite orb_false_r, (N.eqb_sym 58 c).
    unfold COLON in H. destruct (c =? 58); [|reflexivity].
    rewrite !orb_true_r in H. cbn in H. rewrite ?orb_true_r in H. discriminate.
  - apply Forall_forall. intros c Hc Hcr. rewrite forallb_forall in H. specialize (H c Hc). subst c.
    discriminate.
  - apply has_nul_false. intros c Hc Hz. rewrite forallb_forall in H. specialize (H c Hc). subst c.
    discriminate.
Qed.

Lemma no_ctl_facts v : no_ctl v = true -> no_cr v /\ has_nul v = false.
Proof.
  unfold no_ctl. intros H. split.
  - apply Forall_forall. intros c Hc Hcr. rewrite forallb_forall in H. specialize (H c Hc). subst c.
    discriminate.
  - apply has_nul_false. intros c Hc Hz. rewrite forallb_forall in H. specialize (H c Hc). subst c.
    discriminate.
Qed.

Lemma all_ows_facts l : forallb is_ows l = true -> no_cr l /\ has_nul l = false.
Proof.
  intros H. split.
  - apply Forall_forall. intros c Hc Hcr. rewrite forallb_forall in H. specialize (H c Hc). subst c.
    discriminate.
  - apply has_nul_false. intros c Hc Hz. rewrite forallb_forall in H. specialize (H c Hc). subst c.
    discriminate.
Qed.

Definition field_line (f : hfield) : list N :=
  f_name f ++ [COLON] ++ f_lead f ++ f_value f ++ f_trail f.

Lemma render_field_line f : render_field f = field_line f ++ [13; 10].
Proof. unfold render_field, field_line, crlf, CR, LF. rewrite <- !app_assoc. reflexivity. Qed.

(* the split of a rendered field line is exactly (name, value) *)
Lemma split_header_field a f : wf_field a f = true ->
  split_header (field_line f) = (f_name f, f_value f).
Proof.
  unfold wf_field. rewrite !andb_true_iff. intros [[[[Hn Hv] Hl] Ht] _].
  destruct (wf_name_nosep _ Hn) as (Hsep & _ & _ & _).
  unfold wf_value in Hv. rewrite !andb_true_iff in Hv. destruct Hv as [[_ Hfirst] Hlast].
  unfold split_header, field_line.
  destruct (f_value f) as [|v0 vs] eqn:Ev.
  - (* empty value: everything behind the colon is OWS *)
    cbn [app]. replace (f_name f ++ COLON :: f_lead f ++ f_trail f)
      with ((f_name f ++ [COLON]) ++ (f_lead f ++ f_trail f)) by (rewrite <- app_assoc; reflexivity).
    rewrite rtrim_app_ows by (rewrite forallb_app, Hl, Ht; reflexivity).
    rewrite rtrim_stop by reflexivity.
    replace (f_name f ++ [COLON]) with (f_name f ++ COLON :: []) by reflexivity.
    rewrite break_at_first by exact Hsep. reflexivity.
  - (* the value ends in a byte that is not OWS *)
    rewrite frev_rev in Hlast.
    destruct (rev (v0 :: vs)) as [|cl rv] eqn:Er.
    { apply (f_equal (@rev N)) in Er. rewrite rev_involutive in Er. discriminate. }
    assert (Eval : v0 :: vs = rev rv ++ [cl]).
    { apply (f_equal (@rev N)) in Er. rewrite rev_involutive in Er. exact Er. }
    apply negb_true_iff in Hlast. apply negb_true_iff in Hfirst.
    replace (f_name f ++ [COLON] ++ f_lead f ++ (v0 :: vs) ++ f_trail f)
      with (((f_name f ++ [COLON] ++ f_lead f ++ rev rv) ++ [cl]) ++ f_trail f).
    2:{ rewrite Eval, <- !app_assoc. reflexivity. }
    rewrite rtrim_app_ows by exact Ht. rewrite rtrim_stop by exact Hlast.
    replace ((f_name f ++ [COLON] ++ f_lead f ++ rev rv) ++ [cl])
      with (f_name f ++ COLON :: (f_lead f ++ v0 :: vs)).
    2:{ rewrite Eval, <- !app_assoc. reflexivity. }
    rewrite break_at_first by exact Hsep.
    rewrite drop_while_all by (apply all_ows_memb_l; exact Hl).
    rewrite drop_while_stop by (rewrite memb_ows_leading; exact Hfirst). reflexivity.
Qed.

Lemma field_line_clean a f : wf_field a f = true -> no_cr (field_line f) /\ has_nul (field_line f) = false.
Proof.
  unfold wf_field. rewrite !andb_true_iff. intros [[[[Hn Hv] Hl] Ht] _].
  destruct (wf_name_nosep _ Hn) as (_ & N1 & N2 & _).
  unfold wf_value in Hv. rewrite !andb_true_iff in Hv. destruct Hv as [[Hc _] _].
  destruct (no_ctl_facts _ Hc) as [V1 V2].
  destruct (all_ows_facts _ Hl) as [L1 L2]. destruct (all_ows_facts _ Ht) as [T1 T2].
  unfold field_line. split.
  - unfold no_cr in *. rewrite !Forall_app. repeat split; try assumption.
    constructor; [discriminate | constructor].
  - unfold has_nul in *.
    assert (Hm : forall a b, memb 0 (a ++ b) = memb 0 a || memb 0 b).
    { induction a0 as [|x a0 IH]; intros b; [reflexivity|]. cbn [app memb]. rewrite IH. apply orb_assoc. }
    rewrite !Hm, N2, V2, L2, T2. reflexivity.
Qed.

(* the parsing loop over rendered fields returns exactly their (name, value) pairs *)
Lemma parse_headers_render a : forall fs tail bufpos acc,
  forallb (wf_field a) fs = true ->
  parse_headers (length fs) (concat (map render_field fs) ++ tail) bufpos acc =
  Ok (Some (rev acc ++ map (fun f => (f_name f, f_value f)) fs,
            bufpos + lenN (concat (map render_field fs)))).
Proof.
  induction fs as [|f fs IH]; intros tail bufpos acc H.
  - cbn. rewrite frev_rev, app_nil_r. f_equal. f_equal. f_equal. lia.
  - cbn [forallb] in H. apply andb_true_iff in H. destruct H as [Hf Hfs].
    cbn [length map concat parse_headers]. rewrite render_field_line, <- !app_assoc.
    destruct (field_line_clean a f Hf) as [C1 C2].
    rewrite (cut_line_nocr (field_line f) _ C1), C2.
    rewrite (IH tail _ _ Hfs). cbn [rev]. rewrite (split_header_field a f Hf), <- app_assoc. cbn [app].
    f_equal. f_equal. f_equal. rewrite !lenN_app, !lenN_cons. change sgetline_skip with 2. lia.
Qed.
