(* Number round-trips for C09: what the spec's renderer writes (decimal Content-Length and status,
   the server's hexadecimal chunk sizes) is read back exactly by the models of strtoumax /
   parsenum_unsigned and of sscanf("%d"). *)
From Coq Require Import Arith NArith ZArith List Bool Lia.
From LCP Require Import Base.CheckedMem Gen.Repo_http Http.HttpStrto Http.HttpModel Http.HttpSpec
  Http.HttpLemmas.
Import ListNotations.
Local Open Scope N_scope.
Local Open Scope res_scope.

Ltac Zify.zify_post_hook ::= Z.div_mod_to_equations.

(* ------------------------------------------------------------------ digit strings *)

(* the value of a digit string in a base, the way strtoumax's loop accumulates it *)
Fixpoint eval (base : N) (ds : list N) (acc : N) : option N :=
  match ds with
  | [] => Some acc
  | d :: r => match digit_in base d with Some v => eval base r (acc * base + v) | None => None end
  end.

Lemma eval_ge base ds : forall acc v, 1 <= base -> eval base ds acc = Some v -> acc <= v.
Proof.
  induction ds as [|d ds IH]; intros acc v Hb H; cbn [eval] in H.
  - inversion H. lia.
  - destruct (digit_in base d) as [x|]; [|discriminate]. apply IH in H; [|exact Hb]. nia.
Qed.

Lemma eval_app base x : forall y a,
  eval base (x ++ y) a = match eval base x a with Some v => eval base y v | None => None end.
Proof.
  induction x as [|d x IH]; intros y a; [reflexivity|].
  cbn [app eval]. destruct (digit_in base d); [apply IH | reflexivity].
Qed.

Lemma digit_val_ge c v : digit_val c = Some v -> 48 <= c.
Proof.
  unfold digit_val.
  destruct ((48 <=? c) && (c <=? 57)) eqn:E1.
  { apply andb_true_iff in E1. destruct E1 as [E1 _]. apply N.leb_le in E1. intros _. exact E1. }
  destruct ((97 <=? c) && (c <=? 122)) eqn:E2.
  { apply andb_true_iff in E2. destruct E2 as [E2 _]. apply N.leb_le in E2. intros _. lia. }
  destruct ((65 <=? c) && (c <=? 90)) eqn:E3; [|discriminate].
  apply andb_true_iff in E3. destruct E3 as [E3 _]. apply N.leb_le in E3. intros _. lia.
Qed.

Lemma digit_in_ge base c v : digit_in base c = Some v -> 48 <= c.
Proof.
  unfold digit_in. destruct (digit_val c) as [x|] eqn:E; [|discriminate]. intros _.
  exact (digit_val_ge _ _ E).
Qed.

Lemma is_space_ge c : 48 <= c -> is_space c = false.
Proof.
  intros H. unfold is_space. apply orb_false_iff. split.
  - apply N.eqb_neq. lia.
  - apply andb_false_iff. right. apply N.leb_gt. lia.
Qed.

(* 'x' and 'X' are digits only in bases above 33 *)
Lemma digit_in_not_x base c v : base <= 16 -> digit_in base c = Some v -> c <> 120 /\ c <> 88.
Proof.
  intros Hb H. split; intros ->; unfold digit_in in H; cbn in H.
  - destruct (33 <? base) eqn:E; [apply N.ltb_lt in E; lia | discriminate].
  - destruct (33 <? base) eqn:E; [apply N.ltb_lt in E; lia | discriminate].
Qed.

Lemma rd_mid pre c post : rd (pre ++ c :: post) (length pre) = Ok c.
Proof. unfold rd. rewrite nth_error_app2 by lia. rewrite Nat.sub_diag. reflexivity. Qed.

(* ------------------------------------------------------------------ strtoumax on digits *)
Lemma digit_run_eval base ds : forall pre post acc fuel v c,
  1 <= base -> eval base ds acc = Some v -> v < two64 -> digit_in base c = None ->
  (length ds < fuel)%nat ->
  digit_run fuel (pre ++ ds ++ c :: post) base (length pre) acc false
  = Ok (v, (length pre + length ds)%nat, false).
Proof.
  induction ds as [|d ds IH]; intros pre post acc fuel v c Hb He Hv Hc Hf.
  - destruct fuel as [|f]; [cbn in Hf; lia|]. cbn [digit_run app].
    rewrite rd_mid. cbn [bind]. rewrite Hc. cbn in He. inversion He. subst.
    cbn [length]. rewrite Nat.add_0_r. reflexivity.
  - destruct fuel as [|f]; [cbn in Hf; lia|]. cbn [digit_run].
    change ((d :: ds) ++ c :: post) with (d :: (ds ++ c :: post)).
    rewrite rd_mid. cbn [bind]. cbn [eval] in He.
    destruct (digit_in base d) as [x|] eqn:Ed; [|discriminate].
    pose proof (eval_ge _ _ _ _ Hb He) as Hge.
    replace (false || (two64 <=? acc * base + x)) with false
      by (symmetry; cbn [orb]; apply N.leb_gt; lia).
    replace (pre ++ d :: ds ++ c :: post) with ((pre ++ [d]) ++ ds ++ c :: post)
      by (rewrite <- app_assoc; reflexivity).
    replace (S (length pre)) with (length (pre ++ [d])) by (rewrite app_length; cbn; lia).
    rewrite (IH (pre ++ [d]) post (acc * base + x) f v c Hb He Hv Hc) by (cbn in Hf; lia).
    rewrite app_length. cbn [length]. do 3 f_equal. lia.
Qed.

Lemma skip_space_digit base d x rest fuel :
  digit_in base d = Some x -> skip_space (S fuel) (d :: rest) 0 = Ok 0%nat.
Proof.
  intros H. cbn [skip_space]. change (rd (d :: rest) 0) with (Ok d). cbn [bind].
  rewrite (is_space_ge d (digit_in_ge _ _ _ H)). reflexivity.
Qed.

Lemma hex_prefix_0 base d0 y rest : y <> 120 -> y <> 88 -> hex_prefix (d0 :: y :: rest) base 0 = Ok 0%nat.
Proof.
  intros H1 H2. unfold hex_prefix. destruct (base =? 16); [|reflexivity].
  change (rd (d0 :: y :: rest) 0) with (Ok d0). cbn [bind].
  destruct (d0 =? 48); [|reflexivity].
  change (rd (d0 :: y :: rest) 1) with (Ok y). cbn [bind].
  replace ((y =? 120) || (y =? 88)) with false; [reflexivity|].
  symmetry. apply orb_false_iff. split; apply N.eqb_neq; assumption.
Qed.

Definition base_ok (base : N) : Prop := 1 <= base <= 16.

(* a non-empty digit string followed by something that is not a digit (and not an x): exactly its value *)
Lemma strtoumax_digits base ds c post v :
  base_ok base -> ds <> [] -> eval base ds 0 = Some v -> v < two64 ->
  digit_in base c = None -> c <> 120 -> c <> 88 ->
  strtoumax_m (ds ++ c :: post) base = Ok (v, length ds, false).
Proof.
  intros [Hb1 Hb2] Hne He Hv Hc Hx1 Hx2.
  destruct ds as [|d0 ds']; [contradiction|].
  assert (Ed : exists x, digit_in base d0 = Some x).
  { cbn [eval] in He. destruct (digit_in base d0) as [x|]; [eauto | discriminate]. }
  destruct Ed as [x Ed].
  pose proof (digit_in_ge _ _ _ Ed) as Hge.
  unfold strtoumax_m.
  change ((d0 :: ds') ++ c :: post) with (d0 :: (ds' ++ c :: post)).
  rewrite (skip_space_digit base d0 x _ _ Ed). cbn [bind].
  change (rd (d0 :: ds' ++ c :: post) 0) with (Ok d0). cbn [bind].
  replace (d0 =? 45) with false by (symmetry; apply N.eqb_neq; lia).
  replace (d0 =? 43) with false by (symmetry; apply N.eqb_neq; lia).
  cbn [orb].
  assert (Hp : hex_prefix (d0 :: ds' ++ c :: post) base 0 = Ok 0%nat).
  { destruct ds' as [|d1 ds''].
    - cbn [app]. apply hex_prefix_0; assumption.
    - cbn [app]. cbn [eval] in He. rewrite Ed in He.
      destruct (digit_in base d1) as [x1|] eqn:Ed1; [|discriminate].
      destruct (digit_in_not_x base d1 x1 Hb2 Ed1). apply hex_prefix_0; assumption. }
  rewrite Hp. cbn [bind].
  pose proof (digit_run_eval base (d0 :: ds') [] post 0 (S (length (d0 :: ds' ++ c :: post))) v c
                Hb1 He Hv Hc) as Hr.
  cbn [app length] in Hr. cbn [length]. rewrite Hr by (rewrite app_length; cbn; lia).
  cbn [bind Nat.add Nat.eqb]. reflexivity.
Qed.

Lemma parsenum_digits base ds c post v trailing :
  base_ok base -> ds <> [] -> eval base ds 0 = Some v -> v < two64 ->
  digit_in base c = None -> c <> 120 -> c <> 88 -> (trailing = false -> c = 0) ->
  parsenum_unsigned_m (ds ++ c :: post) 0 size_max size_max base trailing = Ok (Some v).
Proof.
  intros Hb Hne He Hv Hc Hx1 Hx2 Ht.
  unfold parsenum_unsigned_m. rewrite (strtoumax_digits base ds c post v Hb Hne He Hv Hc Hx1 Hx2).
  cbn [bind].
  destruct ds as [|d0 ds'] eqn:Eds; [contradiction|]. rewrite <- Eds in *.
  replace (Nat.eqb (length ds) 0) with false by (rewrite Eds; reflexivity).
  assert (Hce : exists ce, (if trailing then Ok 0 else rd (ds ++ c :: post) (length ds)) = Ok ce /\
                           negb trailing && negb (ce =? 0) = false).
  { destruct trailing.
    - exists 0. split; reflexivity.
    - exists c. split; [apply rd_mid|]. rewrite (Ht eq_refl). reflexivity. }
  destruct Hce as (ce & Ece & Eb). rewrite Ece. cbn [bind]. rewrite Eb.
  replace ((v <? 0) || (size_max <? v) || (size_max <? v)) with false.
  2:{ symmetry. rewrite !orb_false_iff. repeat split; apply N.ltb_ge; unfold size_max, two64 in *; lia. }
  assert (Ed : exists x, digit_in base d0 = Some x).
  { rewrite Eds in He. cbn [eval] in He. destruct (digit_in base d0) as [x|]; [eauto | discriminate]. }
  destruct Ed as [x Ed]. pose proof (digit_in_ge _ _ _ Ed) as Hge.
  destruct (negb (v =? 0)); [|reflexivity].
  rewrite Eds. change ((d0 :: ds') ++ c :: post) with (d0 :: (ds' ++ c :: post)).
  rewrite (skip_space_digit base d0 x _ _ Ed). cbn [bind].
  change (rd (d0 :: ds' ++ c :: post) 0) with (Ok d0). cbn [bind].
  replace (d0 =? 45) with false by (symmetry; apply N.eqb_neq; lia). reflexivity.
Qed.

(* ------------------------------------------------------------------ the renderer's decimal numbers *)
Lemma dec_aux_S f n acc :
  dec_aux (S f) n acc =
  if n <? 10 then (48 + n mod 10) :: acc else dec_aux f (n / 10) ((48 + n mod 10) :: acc).
Proof. reflexivity. Qed.

Lemma digit_in_10 k : k < 10 -> digit_in 10 (48 + k) = Some k.
Proof.
  intros H. unfold digit_in, digit_val.
  replace ((48 <=? 48 + k) && (48 + k <=? 57)) with true
    by (symmetry; apply andb_true_iff; split; apply N.leb_le; lia).
  replace (48 + k - 48) with k by lia.
  replace (k <? 10) with true by (symmetry; apply N.ltb_lt; exact H). reflexivity.
Qed.

Lemma is_dec_digit_48 k : k < 10 -> is_dec_digit (48 + k) = true.
Proof. intros H. unfold is_dec_digit. apply andb_true_iff. split; apply N.leb_le; lia. Qed.

Lemma dec_aux_spec : forall fuel n acc, n < 2 ^ N.of_nat fuel ->
  exists ds, dec_aux (S fuel) n acc = ds ++ acc /\ ds <> [] /\ forallb is_dec_digit ds = true /\
             forall a, eval 10 ds a = Some (a * 10 ^ lenN ds + n).
Proof.
  induction fuel as [|f IH]; intros n acc Hn.
  - cbn in Hn. assert (n = 0) by lia. subst n.
    exists [48]. repeat split; try reflexivity; try discriminate.
  - rewrite dec_aux_S. destruct (n <? 10) eqn:E.
    + apply N.ltb_lt in E. exists [48 + n mod 10]. split; [reflexivity|]. split; [discriminate|].
      assert (Hm : n mod 10 = n) by (apply N.mod_small; exact E). rewrite Hm. split.
      * cbn [forallb]. rewrite (is_dec_digit_48 n E). reflexivity.
      * intros a. cbn [eval]. rewrite (digit_in_10 n E). f_equal.
    + apply N.ltb_ge in E.
      rewrite Nat2N.inj_succ, N.pow_succ_r' in Hn.
      assert (Hq : n / 10 < 2 ^ N.of_nat f) by lia.
      destruct (IH (n / 10) ((48 + n mod 10) :: acc) Hq) as (ds & E1 & E2 & E3 & E4).
      exists (ds ++ [48 + n mod 10]). split; [rewrite E1, <- app_assoc; reflexivity|].
      split; [destruct ds; discriminate|].
      assert (Hm : n mod 10 < 10) by (apply N.mod_lt; lia).
      split.
      * rewrite forallb_app, E3. cbn [forallb]. rewrite (is_dec_digit_48 _ Hm). reflexivity.
      * intros a. rewrite eval_app, E4. cbn [eval]. rewrite (digit_in_10 _ Hm). f_equal.
        rewrite lenN_app. change (lenN [48 + n mod 10]) with 1.
        rewrite N.pow_add_r, N.pow_1_r.
        pose proof (N.div_mod n 10 ltac:(lia)) as Hdm.
        set (X := 10 ^ lenN ds). nia.
Qed.

Lemma pos_size_bound p : N.pos p < 2 ^ N.of_nat (Pos.size_nat p).
Proof.
  induction p as [p IH | p IH |]; cbn [Pos.size_nat]; rewrite Nat2N.inj_succ, N.pow_succ_r'.
  - lia.
  - lia.
  - cbn. lia.
Qed.

Lemma size_nat_bound n : n < 2 ^ N.of_nat (N.size_nat n).
Proof. destruct n as [|p]; [cbn; lia | apply pos_size_bound]. Qed.

Lemma dec_spec n :
  dec n <> [] /\ forallb is_dec_digit (dec n) = true /\ eval 10 (dec n) 0 = Some n.
Proof.
  unfold dec. destruct (dec_aux_spec (N.size_nat n) n [] (size_nat_bound n)) as (ds & E1 & E2 & E3 & E4).
  rewrite E1, app_nil_r. repeat split; try assumption. rewrite E4. reflexivity.
Qed.

(* Content-Length: value is what PARSENUM_EX(&len, clen, 10, 0) returns *)
Lemma parse_dec n : n < two64 ->
  parsenum_unsigned_m (cstr (dec n)) 0 size_max size_max 10 false = Ok (Some n).
Proof.
  intros H. destruct (dec_spec n) as (D1 & D2 & D3). unfold cstr.
  apply parsenum_digits; try assumption; try discriminate; try reflexivity.
  - unfold base_ok. lia.
Qed.

(* ------------------------------------------------------------------ chunk sizes *)
Lemma hexdigit_digit_in d x : hexdigit_val d = Some x -> digit_in 16 d = Some x.
Proof.
  unfold hexdigit_val, digit_in, digit_val.
  destruct ((48 <=? d) && (d <=? 57)) eqn:E1.
  { intros H. inversion H. subst. apply andb_true_iff in E1. destruct E1 as [A B].
    apply N.leb_le in A. apply N.leb_le in B.
    replace (d - 48 <? 16) with true by (symmetry; apply N.ltb_lt; lia). reflexivity. }
  destruct ((97 <=? d) && (d <=? 102)) eqn:E2.
  { intros H. inversion H. subst. apply andb_true_iff in E2. destruct E2 as [A B].
    apply N.leb_le in A. apply N.leb_le in B.
    replace ((97 <=? d) && (d <=? 122)) with true
      by (symmetry; apply andb_true_iff; split; apply N.leb_le; lia).
    replace (d - 87 <? 16) with true by (symmetry; apply N.ltb_lt; lia). reflexivity. }
  destruct ((65 <=? d) && (d <=? 70)) eqn:E3; [|discriminate].
  intros H. inversion H. subst. apply andb_true_iff in E3. destruct E3 as [A B].
  apply N.leb_le in A. apply N.leb_le in B.
  replace ((97 <=? d) && (d <=? 122)) with false
    by (symmetry; apply andb_false_iff; left; apply N.leb_gt; lia).
  replace ((65 <=? d) && (d <=? 90)) with true
    by (symmetry; apply andb_true_iff; split; apply N.leb_le; lia).
  replace (d - 55 <? 16) with true by (symmetry; apply N.ltb_lt; lia). reflexivity.
Qed.

Lemma hex_value_eval ds : forall acc v, hex_value ds acc = Some v -> eval 16 ds acc = Some v.
Proof.
  induction ds as [|d ds IH]; intros acc v H; [exact H|].
  cbn [hex_value] in H. cbn [eval].
  destruct (hexdigit_val d) as [x|] eqn:E; [|discriminate].
  rewrite (hexdigit_digit_in _ _ E). rewrite N.mul_comm. apply IH. exact H.
Qed.

Lemma hex_value_chars ds : forall acc v, hex_value ds acc = Some v -> Forall (fun c => 48 <= c) ds.
Proof.
  induction ds as [|d ds IH]; intros acc v H; [constructor|].
  cbn [hex_value] in H. destruct (hexdigit_val d) as [x|] eqn:E; [|discriminate].
  constructor; [|eapply IH; exact H].
  apply (digit_in_ge 16 d x). apply hexdigit_digit_in. exact E.
Qed.

Lemma zeros_hex_value ld : forallb (fun c => c =? 48) ld = true -> hex_value ld 0 = Some 0.
Proof.
  induction ld as [|c ld IH]; intros H; [reflexivity|].
  cbn [forallb] in H. apply andb_true_iff in H. destruct H as [H1 H2]. apply N.eqb_eq in H1. subst c.
  cbn [hex_value]. change (hexdigit_val 48) with (Some 0). change (16 * 0 + 0) with 0. apply IH. exact H2.
Qed.

(* ------------------------------------------------------------------ sscanf %d on digits *)
Lemma dec_digit_in d : is_dec_digit d = true -> digit_in 10 d = Some (d - 48).
Proof.
  unfold is_dec_digit. intros H. pose proof H as H'. apply andb_true_iff in H'. destruct H' as [A B].
  apply N.leb_le in A. apply N.leb_le in B.
  unfold digit_in, digit_val. rewrite H.
  replace (d - 48 <? 10) with true by (symmetry; apply N.ltb_lt; lia). reflexivity.
Qed.

(* ------------------------------------------------------------------ Content-Length as the server wrote it *)
Lemma dec_value_eval ds : forall acc v, dec_value ds acc = Some v -> eval 10 ds acc = Some v.
Proof.
  induction ds as [|d ds IH]; intros acc v H; [exact H|].
  cbn [dec_value] in H. cbn [eval].
  destruct (is_dec_digit d) eqn:E; [|discriminate].
  rewrite (dec_digit_in _ E). rewrite N.mul_comm. apply IH. exact H.
Qed.

Lemma dec_value_digits ds : forall acc v, dec_value ds acc = Some v -> forallb is_dec_digit ds = true.
Proof.
  induction ds as [|d ds IH]; intros acc v H; [reflexivity|].
  cbn [dec_value] in H. cbn [forallb].
  destruct (is_dec_digit d) eqn:E; [|discriminate]. apply (IH _ _ H).
Qed.

Lemma wf_clen_parts ds body : wf_clen ds body = true ->
  ds <> [] /\ dec_value ds 0 = Some (lenN body) /\ lenN body < two64.
Proof.
  unfold wf_clen. rewrite !andb_true_iff. intros [[H1 H2] H3]. apply N.ltb_lt in H3.
  destruct (dec_value ds 0) as [v|]; [|discriminate]. apply N.eqb_eq in H2. subst v.
  repeat split; try assumption. destruct ds; discriminate.
Qed.

(* any spelling of the length (leading zeros included) is what PARSENUM_EX(&len, clen, 10, 0) returns *)
Lemma parse_clen ds n : ds <> [] -> dec_value ds 0 = Some n -> n < two64 ->
  parsenum_unsigned_m (cstr ds) 0 size_max size_max 10 false = Ok (Some n).
Proof.
  intros Hne Hv H. unfold cstr.
  apply parsenum_digits; try assumption; try discriminate; try reflexivity.
  - unfold base_ok. lia.
  - apply dec_value_eval. exact Hv.
Qed.


Lemma take_digits_eval ds : forall acc cnt v c rest,
  forallb is_dec_digit ds = true -> eval 10 ds acc = Some v -> v < sat -> is_dec_digit c = false ->
  take_digits (ds ++ c :: rest) acc cnt = (v, (cnt + length ds)%nat, c :: rest).
Proof.
  induction ds as [|d ds IH]; intros acc cnt v c rest Hd He Hv Hc.
  - cbn [app take_digits]. unfold is_dec_digit in Hc. rewrite Hc. cbn in He. inversion He.
    cbn [length]. rewrite Nat.add_0_r. reflexivity.
  - cbn [forallb] in Hd. apply andb_true_iff in Hd. destruct Hd as [Hd1 Hd2].
    cbn [app take_digits]. pose proof Hd1 as Hd1'. unfold is_dec_digit in Hd1'. rewrite Hd1'.
    cbn [eval] in He. rewrite (dec_digit_in d Hd1) in He.
    pose proof (eval_ge 10 ds _ _ ltac:(lia) He) as Hge.
    replace (sat <=? acc * 10 + (d - 48)) with false by (symmetry; apply N.leb_gt; lia).
    rewrite (IH _ (S cnt) v c rest Hd2 He Hv Hc). cbn [length]. do 2 f_equal. lia.
Qed.

Lemma take_digits_any ds : forall acc cnt c rest,
  forallb is_dec_digit ds = true -> is_dec_digit c = false ->
  exists v, take_digits (ds ++ c :: rest) acc cnt = (v, (cnt + length ds)%nat, c :: rest).
Proof.
  induction ds as [|d ds IH]; intros acc cnt c rest Hd Hc.
  - cbn [app take_digits]. unfold is_dec_digit in Hc. rewrite Hc. exists acc.
    cbn [length]. rewrite Nat.add_0_r. reflexivity.
  - cbn [forallb] in Hd. apply andb_true_iff in Hd. destruct Hd as [Hd1 Hd2].
    cbn [app take_digits]. unfold is_dec_digit in Hd1. rewrite Hd1.
    destruct (IH (if sat <=? acc * 10 + (d - 48) then sat else acc * 10 + (d - 48)) (S cnt) c rest Hd2 Hc)
      as [v Ev].
    exists v. rewrite Ev. cbn [length]. do 2 f_equal. lia.
Qed.

Lemma dec_digit_ge d : is_dec_digit d = true -> 48 <= d <= 57.
Proof.
  unfold is_dec_digit. intros H. apply andb_true_iff in H. destruct H as [A B].
  apply N.leb_le in A. apply N.leb_le in B. lia.
Qed.

(* one %d on a non-empty digit string followed by a non-digit *)
Lemma scan_int_digits ds c rest :
  ds <> [] -> forallb is_dec_digit ds = true -> is_dec_digit c = false ->
  exists z, scan_int (ds ++ c :: rest) = Some (z, c :: rest) /\
            forall v, eval 10 ds 0 = Some v -> v < 2147483648 -> z = Z.of_N v.
Proof.
  intros Hne Hd Hc. destruct ds as [|d0 ds']; [contradiction|].
  pose proof Hd as Hd'. cbn [forallb] in Hd'. apply andb_true_iff in Hd'. destruct Hd' as [Hd0 _].
  pose proof (dec_digit_ge _ Hd0) as Hge.
  unfold scan_int. change ((d0 :: ds') ++ c :: rest) with (d0 :: (ds' ++ c :: rest)).
  cbn [drop_space]. rewrite (is_space_ge d0) by lia.
  replace (d0 =? 45)%N with false by (symmetry; apply N.eqb_neq; lia).
  replace (d0 =? 43)%N with false by (symmetry; apply N.eqb_neq; lia).
  change (d0 :: ds' ++ c :: rest) with ((d0 :: ds') ++ c :: rest).
  destruct (take_digits_any (d0 :: ds') 0 0 c rest Hd Hc) as [v0 Ev0].
  rewrite Ev0. cbn [Nat.add length].
  eexists. split; [reflexivity|].
  intros v He Hv.
  rewrite (take_digits_eval (d0 :: ds') 0 0 v c rest Hd He) in Ev0 by (try assumption; unfold sat; lia).
  inversion Ev0. subst v0.
  unfold trunc_int, long_max. rewrite Z.min_r by lia.
  rewrite Z.mod_small by lia. lia.
Qed.
