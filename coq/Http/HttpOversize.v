(* C08, the oversize clause, for the model of http.c: a well-formed response (HttpSpec.wf_response)
   whose body is LONGER than the caller's limit is answered with exactly one callback, and that
   callback is HttpSpec.oversized r = the response's own status and headers, bodylen = (size_t)(-1),
   no buffer - whatever the segmentation of the bytes, whatever the reader had buffered, however the
   connection ends.  The three `toobig' call sites of http.c:

     get_body_gotclen        Content-Length > limit: reported straight from the header block;
     callback_chunkedheader  the chunk-size line whose chunk would take the body across the limit
                             (the chunks before it are already in the body buffer, which toobig frees);
     callback_read_toeof     the first callback at which buffered + newly arrived data exceeds the limit.

   The proof is the simulation of HttpRoundtrip.v run with the opposite hypothesis on the limit:
   [osim] is [sim] except in the data phase, where the bound "stored + still to store <= limit"
   established by the chunk-size check replaces the bound "body <= limit". *)
From Coq Require Import Arith NArith ZArith List Bool Lia.
From LCP Require Import Base.CheckedMem Gen.Repo_http Http.HttpStrto Http.HttpModel Http.HttpSpec
  Http.HttpLemmas Http.HttpSafe Http.HttpNum Http.HttpDecode Http.HttpStream Http.HttpRoundtrip.
Import ListNotations.
Local Open Scope N_scope.
Local Open Scope res_scope.

Ltac Zify.zify_post_hook ::= Z.div_mod_to_equations.

Section Oversize.
  Variable stale : N.
  Variable ishead : bool.
  Variable limit : N.
  Variable r : response.

  Definition big : Prop :=
    wf_response ishead r = true /\ limit < lenN (resp_body r) /\ limit < two64.

  Definition big_cb : cb := CbResp (st_exp r) (hs_exp r) true size_max [].

  Lemma big_cb_oversized : big_cb = oversized r.
  Proof. reflexivity. Qed.

  (* [sim] with the data phase restricted to chunked bodies and carrying its own bound *)
  Definition osim (h : hst) (ph : phase) (S : list N) : Prop :=
    match ph with
    | PhData =>
      base ishead limit h /\ resp_known r h /\
      exists d e T, h_chunked h = Some true /\ S = d ++ e ++ T /\ h_readlen h = lenN d + lenN e /\
        lenN e <= 2 /\ (d <> [] -> lenN e = 2) /\ csim r (got h ++ d) T /\
        lenN (got h) + lenN d <= limit
    | _ => sim ishead limit r h ph S
    end.

  Lemma osim_base h ph S : osim h ph S -> base ishead limit h.
  Proof. destruct ph; intros H; apply H. Qed.

  Lemma osim_set_r h ph S r' : osim h ph S -> rdr_ok r' -> osim (set_r h r') ph S.
  Proof.
    intros H R'. destruct ph; try (apply sim_set_r; assumption).
    destruct H as ([I [M Hd]] & K & P).
    split; [split; [apply set_r_inv; assumption | split; assumption]|]. split; [exact K | exact P].
  Qed.

  (* ---------------------------------------------------------------- what well-formedness gives *)
  Lemma big_parts : big ->
    forallb (wf_msg 100 199 true) (p_interim r) = true /\
    wf_msg 200 599 (match p_framing r with FrNone => true | _ => false end) (p_final r) = true /\
    wf_framing ishead r = true /\
    forallb (fun m => lenN (rh m) <=? maxhdr + 1) (p_interim r) = true /\
    lenN (final_head r) <= maxhdr + 1.
  Proof.
    intros [H _]. unfold wf_response in H. rewrite !andb_true_iff in H.
    destruct H as [[[[H1 H2] H3] H4] H5]. apply N.leb_le in H5. repeat split; assumption.
  Qed.

  Lemma big_final_fields_wf : big -> forallb (wf_field true) (final_fields r) = true.
  Proof.
    intros G. destruct (big_parts G) as (_ & H2 & Hfr & _).
    destruct (wf_msg_parts _ _ _ _ H2) as (_ & _ & _ & _ & H6).
    apply wf_fields_weaken in H6. unfold final_fields.
    destruct (framing_field r) as [[pos f]|] eqn:E; [|exact H6].
    apply forallb_insert_at; [exact (framing_field_wf ishead r pos f Hfr E) | exact H6].
  Qed.

  Lemma big_no_framing_names : big -> p_framing r <> FrNone ->
    forall g, In g (m_fields (p_final r)) ->
      list_eqb (f_name g) name_clen = false /\ list_eqb (f_name g) name_te = false.
  Proof.
    intros G Hfr g Hg. destruct (big_parts G) as (_ & H2 & _).
    assert (Hw : wf_msg 200 599 false (p_final r) = true)
      by (destruct (p_framing r); [contradiction | | |]; exact H2).
    destruct (wf_msg_parts _ _ _ _ Hw) as (_ & _ & _ & _ & H6).
    rewrite forallb_forall in H6. apply wf_field_names. apply H6. exact Hg.
  Qed.

  Lemma big_final_status : big -> 200 <= m_status (p_final r) <= 599.
  Proof.
    intros G. destruct (big_parts G) as (_ & H2 & _).
    destruct (wf_msg_parts _ _ _ _ H2) as (_ & _ & H & _). exact H.
  Qed.

  Lemma big_chunked_parts pos cs ld le tr : big -> p_framing r = FrChunked pos cs ld le tr ->
    forallb wf_chunk cs = true /\ ld <> [] /\ hex_value ld 0 = Some 0 /\ wf_ext le = true /\
    lenN ld + lenN le + 2 <= maxchlen /\ resp_body r = concat (map c_data cs).
  Proof.
    intros G Efr. destruct (big_parts G) as (_ & _ & Hfr & _).
    unfold wf_framing in Hfr. rewrite Efr in Hfr. rewrite !andb_true_iff in Hfr.
    destruct Hfr as [[[[[[_ H2] H3] H4] H5] H6] _]. apply N.leb_le in H6.
    repeat split; try assumption.
    - destruct ld; [discriminate | discriminate].
    - apply zeros_hex_value. exact H4.
    - unfold resp_body. rewrite Efr. reflexivity.
  Qed.

  Lemma big_cb_of h : resp_known r h -> do_toobig h = SFinish [big_cb].
  Proof. intros [Hs Hh]. unfold do_toobig, big_cb. rewrite Hs, Hh. reflexivity. Qed.

  (* ---------------------------------------------------------------- the choice of the framing *)
  (* Content-Length: the report is made here (first call site) *)
  Lemma select_framing_big h S : big -> base ishead limit h -> h_bodylen h = 0 -> resp_known r h ->
    S = render_body r ->
    exists s, select_framing h = Ok s /\
      match s with
      | SFinish cbs => cbs = [big_cb]
      | SCont h' ph' => h_r h' = h_r h /\ ph' <> PhHeader /\ ph' <> PhData /\ sim ishead limit r h' ph' S
      | _ => False
      end.
  Proof.
    intros G B Hb0 K HS. pose proof B as [I [Hmax Hish]]. pose proof K as [Hst Hhs].
    pose proof (got_empty h I Hb0) as Hgot.
    destruct (big_parts G) as (_ & _ & Hfr & _). pose proof G as (_ & Hlim & Hlim64).
    pose proof (big_no_framing_names G) as Hnames.
    pose proof (big_cb_of h K) as Hbig.
    unfold select_framing. rewrite Hish, Hst, Hhs. unfold st_exp. rewrite bodiless_model.
    unfold wf_framing in Hfr. unfold hs_exp, final_fields, framing_field.
    unfold resp_body in Hlim.
    destruct (p_framing r) as [|pos ds|pos cs ld le tr|] eqn:Efr.
    - (* no body: cannot be oversized *)
      rewrite lenN_nil in Hlim. lia.
    - (* Content-Length *)
      apply andb_true_iff in Hfr. destruct Hfr as [Hnb Hlen]. apply negb_true_iff in Hnb. rewrite Hnb.
      destruct (wf_clen_parts _ _ Hlen) as (Dne & Dv & Hlen64). specialize (Hnames ltac:(discriminate)).
      set (f := mkF name_clen ds [SP] []).
      change hdr_transfer_encoding with name_te. change hdr_content_length with name_clen.
      rewrite (findheader_none (insert_at pos f (m_fields (p_final r))) name_te).
      2:{ intros g Hg. destruct (in_insert_at _ _ _ _ Hg) as [-> | Hg']; [reflexivity | apply (Hnames g Hg')]. }
      cbv iota.
      rewrite (findheader_insert f name_clen eq_refl pos (m_fields (p_final r))).
      2:{ intros g Hg. apply (Hnames g Hg). }
      cbn [f_value f]. change clen_base with 10. change (negb (clen_trailing =? 0)) with false.
      rewrite (parse_clen _ _ Dne Dv Hlen64). cbn [bind]. unfold get_body_gotclen.
      replace (h_max h <? lenN (p_body r)) with true by (symmetry; apply N.ltb_lt; lia).
      eexists. split; [reflexivity|]. rewrite Hbig. reflexivity.
    - (* chunked *)
      rewrite !andb_true_iff in Hfr. destruct Hfr as [[[[[[Hnb _] _] _] _] _] _].
      apply negb_true_iff in Hnb. rewrite Hnb. specialize (Hnames ltac:(discriminate)).
      set (f := mkF name_te value_chunked [SP] []).
      change hdr_transfer_encoding with name_te.
      rewrite (findheader_insert f name_te eq_refl pos (m_fields (p_final r))).
      2:{ intros g Hg. apply (Hnames g Hg). }
      cbn [f_value f]. change (contains te_chunked value_chunked) with true. cbv iota.
      eexists. split; [reflexivity|]. split; [reflexivity|]. split; [discriminate|]. split; [discriminate|].
      split; [split; [apply set_chunked_inv; exact I | split; assumption]|].
      split; [exact K|]. split; [reflexivity|].
      change (got (set_chunked h)) with (got h). rewrite Hgot.
      exists pos, cs, ld, le, tr, [], cs. split; [exact Efr|]. split; [reflexivity|]. split; [reflexivity|].
      rewrite HS. unfold render_body, ctail. rewrite Efr. reflexivity.
    - (* read to close *)
      apply negb_true_iff in Hfr. rewrite Hfr. specialize (Hnames ltac:(discriminate)).
      change hdr_transfer_encoding with name_te. change hdr_content_length with name_clen.
      rewrite (findheader_none (m_fields (p_final r)) name_te) by (intros g Hg; apply (Hnames g Hg)).
      cbv iota.
      rewrite (findheader_none (m_fields (p_final r)) name_clen) by (intros g Hg; apply (Hnames g Hg)).
      eexists. split; [reflexivity|]. split; [reflexivity|]. split; [discriminate|]. split; [discriminate|].
      split; [exact B|]. split; [exact K|]. split; [exact Efr|].
      rewrite Hgot, HS. unfold render_body, body, resp_body. rewrite Efr. reflexivity.
  Qed.

  (* ---------------------------------------------------------------- what one step must achieve *)
  (* no SDied, no other callback than the oversize report, and a wait is always for bytes that are
     still to come (the report is made before the stream is exhausted) *)
  Definition opost (fut : list N) (h : hst) (ph : phase) (s : sres) : Prop :=
    match s with
    | SFinish cbs => cbs = [big_cb]
    | SDied => False
    | SCont h' ph' => osim h' ph' (r_win (h_r h') ++ fut) /\ (mu h' ph' < mu h ph)%nat
    | SWait h' len ph' =>
      osim h' ph' (r_win (h_r h') ++ fut) /\ avail (h_r h') < len <= wmax /\
      len <= lenN (r_win (h_r h') ++ fut)
    end.

  (* ---------------------------------------------------------------- callback_read_header *)
  Lemma step_header_big h fut : big -> sim ishead limit r h PhHeader (r_win (h_r h) ++ fut) ->
    exists s, step_header h RsOk = Ok s /\ opost fut h PhHeader s.
  Proof.
    intros G [B [Hb0 (ms & Hms & Hlen & HS & Hhe)]].
    pose proof B as [I [Hmax Hish]]. pose proof (i_rdr h I) as R.
    destruct (big_parts G) as (_ & G2 & _ & _ & G5).
    destruct ms as [|m ms'].
    - (* the final header block *)
      destruct (step_header_window 200 599 _ (p_final r) (final_fields r) h fut (render_body r)
                  G2 ltac:(lia) ltac:(lia) (big_final_fields_wf G) G5 R HS Hhe)
        as [(Hlt & Hne & q & Es & Bq) | (w' & r' & n & E1 & E2 & R' & Wr' & Es)].
      + eexists. split; [exact Es|]. cbn [opost osim].
        split; [split; [split; [apply set_hepos_inv; exact I | split; assumption]|]|].
        { split; [exact Hb0|]. exists []. repeat split; try assumption. }
        pose proof (win_small _ R) as Ws. pose proof (avail_win _ R) as Av.
        cbn [h_r set_hepos]. split; [unfold wmax, maxhdr, final_head, rh in *; lia|]. rewrite lenN_app.
        destruct fut; [contradiction|]. rewrite lenN_cons. lia.
      + pose proof (big_final_status G) as Hst.
        replace (m_status (p_final r) <=? 199) with false in Es by (symmetry; apply N.leb_gt; lia).
        set (h1 := set_resp (set_r (set_hepos h n) r') (Z.of_N (m_status (p_final r))) (map nv (final_fields r))) in *.
        assert (B1 : base ishead limit h1).
        { split; [apply set_resp_inv, set_r_inv; [apply set_hepos_inv; exact I | exact R'] | split; assumption]. }
        destruct (select_framing_big h1 (render_body r) G B1 Hb0 (conj eq_refl eq_refl) eq_refl)
          as (s & Esel & Ps).
        exists s. split; [rewrite Es; exact Esel|].
        destruct s as [cbs | | h2 len ph2 | h2 ph2]; try contradiction; [exact Ps|].
        destruct Ps as (Hr2 & Hph & Hpd & Hsim). cbn [opost].
        assert (Hw2 : r_win (h_r h2) = w') by (rewrite Hr2; exact Wr').
        split.
        * rewrite Hw2, <- E2.
          destruct ph2; [exfalso; apply Hph; reflexivity | exact Hsim | exfalso; apply Hpd; reflexivity | exact Hsim].
        * unfold mu. rewrite Hw2, E1, app_length. pose proof (head_len4 (p_final r) (final_fields r)) as L4.
          unfold lenN in L4. destruct ph2; lia.
    - (* a 1xx block *)
      cbn [forallb] in Hms, Hlen. apply andb_true_iff in Hms. destruct Hms as [Hm Hms'].
      apply andb_true_iff in Hlen. destruct Hlen as [Hl Hlen']. apply N.leb_le in Hl.
      destruct (wf_msg_parts _ _ _ _ Hm) as (_ & _ & Hst & _ & Hf).
      rewrite heads_from_cons in HS.
      destruct (step_header_window 100 199 true m (m_fields m) h fut (heads_from r ms')
                  Hm ltac:(lia) ltac:(lia) Hf Hl R HS Hhe)
        as [(Hlt & Hne & q & Es & Bq) | (w' & r' & n & E1 & E2 & R' & Wr' & Es)].
      + eexists. split; [exact Es|]. cbn [opost osim].
        split; [split; [split; [apply set_hepos_inv; exact I | split; assumption]|]|].
        { split; [exact Hb0|]. exists (m :: ms'). cbn [forallb]. rewrite Hm, Hms', Hlen'.
          replace (lenN (rh m) <=? maxhdr + 1) with true by (symmetry; apply N.leb_le; exact Hl).
          repeat split; try assumption. rewrite heads_from_cons. exact HS. }
        pose proof (win_small _ R) as Ws. pose proof (avail_win _ R) as Av.
        cbn [h_r set_hepos]. split; [unfold wmax, maxhdr, final_head, rh in *; lia|]. rewrite lenN_app.
        destruct fut; [contradiction|]. rewrite lenN_cons. lia.
      + replace (m_status m <=? 199) with true in Es by (symmetry; apply N.leb_le; lia).
        eexists. split; [exact Es|]. cbn [opost osim]. cbn [h_r set_hepos set_r]. rewrite Wr'.
        split.
        * split; [split; [apply set_hepos_inv, set_r_inv; [apply set_hepos_inv; exact I | exact R'] | split; assumption]|].
          split; [exact Hb0|]. exists ms'. repeat split; try assumption; [symmetry; exact E2|].
          cbn [h_hepos set_hepos]. pose proof (first_head_len4 r ms'). lia.
        * unfold mu. cbn [h_r set_hepos set_r]. rewrite Wr', E1, app_length.
          pose proof (head_len4 m (m_fields m)) as L4. unfold lenN in L4. unfold rh. lia.
  Qed.

  (* ---------------------------------------------------------------- callback_chunkedheader *)
  (* second call site: the size line of the first chunk that does not fit any more *)
  Lemma step_chunkhdr_big h fut : big -> sim ishead limit r h PhChunkHdr (r_win (h_r h) ++ fut) ->
    exists s, step_chunkhdr true stale h RsOk = Ok s /\ opost fut h PhChunkHdr s.
  Proof.
    intros G [B [K [Hch (pos & cs & ld & le & tr & done & rest & Efr & Ecs & Egot & ES)]]].
    pose proof B as [I [Hmax Hish]]. pose proof (i_rdr h I) as R.
    pose proof (avail_win _ R) as Av. pose proof (win_small _ R) as Ws.
    destruct (big_chunked_parts _ _ _ _ _ G Efr) as (Hcs & Hld & Hldv & Hle & Hll & Hbody).
    pose proof G as (_ & Hlim & Hlim64).
    pose proof (i_body h I) as Hbl. fold (got h) in Hbl.
    pose proof (i_len h I) as Hbm. pose proof (i_max h I) as Hm64.
    destruct rest as [|c rest'].
    - (* the last chunk cannot be reached: the whole body would be stored, and it is above the limit *)
      exfalso. rewrite app_nil_r in Ecs. rewrite Hbody, Ecs, <- Egot in Hlim. lia.
    - (* a data chunk *)
      assert (Hc : wf_chunk c = true).
      { rewrite Ecs, forallb_app in Hcs. apply andb_true_iff in Hcs. destruct Hcs as [_ Hcs].
        cbn [forallb] in Hcs. apply andb_true_iff in Hcs. apply Hcs. }
      destruct (wf_chunk_parts c Hc) as (Hdne & Hdv & Hdg & Hce & Hcl & Hd64).
      rewrite ctail_cons in ES.
      destruct (step_chunkhdr_line stale h fut (c_digits c) (c_ext c) (lenN (c_data c)) _ R Hdv Hdg Hce
                  ltac:(lia) Hcl ES)
        as [(Hlt & Hne & Es) | (w' & r' & E1 & E2 & R' & Wr' & Es)].
      + eexists. split; [exact Es|]. cbn [opost osim].
        split; [split; [exact B|]; split; [exact K|]; split; [exact Hch|];
                exists pos, cs, ld, le, tr, done, (c :: rest'); rewrite ctail_cons; repeat split; assumption|].
        unfold maxchlen in Hcl. split; [unfold wmax; lia|]. rewrite lenN_app.
        destruct fut; [contradiction|]. rewrite lenN_cons. lia.
      + replace (lenN (c_data c) =? 0) with false in Es.
        2:{ symmetry. apply N.eqb_neq. intros H0. apply lenN_0 in H0. contradiction. }
        rewrite sub64_small in Es by lia.
        destruct (h_max h - h_bodylen h <? lenN (c_data c)) eqn:Ecross.
        * (* this chunk would cross the limit: the oversize report *)
          eexists. split; [exact Es|]. cbn [opost]. rewrite (big_cb_of (set_r h r') K). reflexivity.
        * apply N.ltb_ge in Ecross. change chunk_readlen_extra with 2 in Es.
          replace (size_max - 2 <? lenN (c_data c)) with false in Es
            by (symmetry; apply N.ltb_ge; unfold size_max, two64 in *; lia).
          eexists. split; [exact Es|].
          cbn [opost osim]. cbn [h_r set_readlen set_r]. rewrite Wr'. split.
          -- split; [split; [apply set_readlen_inv, set_r_inv; assumption | split; assumption]|].
             split; [exact K|].
             exists (c_data c), crlf, (ctail rest' ld le tr).
             split; [exact Hch|]. split; [symmetry; exact E2|].
             split; [cbn [h_readlen set_readlen]; change (lenN crlf) with 2; reflexivity|].
             split; [change (lenN crlf) with 2; lia|].
             split; [intros _; reflexivity|].
             change (got (set_readlen (set_r h r') (lenN (c_data c) + 2))) with (got h).
             split; [|lia].
             exists pos, cs, ld, le, tr, (done ++ [c]), rest'.
             split; [exact Efr|]. split; [rewrite Ecs, <- app_assoc; reflexivity|].
             split; [|reflexivity].
             rewrite map_app, concat_app, <- Egot. cbn [map concat]. rewrite app_nil_r. reflexivity.
          -- unfold mu. cbn [h_r set_readlen set_r]. rewrite Wr', E1, !app_length. cbn [length].
             destruct (c_digits c); [contradiction|]. cbn [length]. lia.
  Qed.

  (* ---------------------------------------------------------------- callback_readdata *)
  (* only chunks that fit are ever read: addbody's assert holds by the bound kept in [osim] *)
  Lemma step_data_big h fut : big -> osim h PhData (r_win (h_r h) ++ fut) ->
    exists s, step_data h RsOk = Ok s /\ opost fut h PhData s.
  Proof.
    intros G [B [K (d & e & T & Hch & ES & Hrl & He2 & F3' & Hc & F2)]].
    pose proof B as [I [Hmax Hish]]. pose proof (i_rdr h I) as R.
    pose proof (avail_win _ R) as Av. pose proof (win_small _ R) as Ws.
    pose proof G as (_ & Hlim & Hlim64).
    pose proof (i_body h I) as Hbl. fold (got h) in Hbl.
    set (w := r_win (h_r h)) in *.
    assert (F3 : lenN d <> 0 -> lenN e = 2).
    { intros Hd. apply F3'. intros ->. apply Hd. reflexivity. }
    unfold step_data. rewrite Hch. cbv beta iota zeta. fold w.
    set (buflen := if h_readlen h <? avail (h_r h) then h_readlen h else avail (h_r h)).
    assert (Hb : buflen = N.min (lenN d + lenN e) (lenN w)).
    { subst buflen. rewrite Hrl, Av. destruct (lenN d + lenN e <? lenN w) eqn:E1;
        [apply N.ltb_lt in E1 | apply N.ltb_ge in E1]; lia. }
    set (datalen := if h_readlen h <=? chunk_eol_len then _ else _).
    assert (Hd : datalen = N.min (lenN d) buflen).
    { subst datalen. change chunk_eol_len with 2.
      destruct (N.eq_dec (lenN d) 0) as [D0 | D0].
      - rewrite Hrl, D0. replace (0 + lenN e <=? 2) with true by (symmetry; apply N.leb_le; lia). lia.
      - specialize (F3 D0). rewrite Hrl, F3.
        replace (lenN d + 2 <=? 2) with false by (symmetry; apply N.leb_gt; lia).
        replace (lenN d + 2 - 2) with (lenN d) by lia.
        destruct (lenN d <? buflen) eqn:E1; [apply N.ltb_lt in E1 | apply N.ltb_ge in E1]; lia. }
    clearbody buflen datalen.
    assert (Etake : takeN datalen w = takeN datalen d).
    { apply (take_common w fut d (e ++ T)); [exact ES | lia | lia]. }
    rewrite Etake.
    assert (Ltake : lenN (takeN datalen d) = datalen) by (rewrite lenN_takeN; lia).
    destruct (addbody_exact h (takeN datalen d) I ltac:(lia)) as (alloc' & Ea & I1).
    rewrite Ea. cbn [bind]. rewrite Ltake in *.
    set (h1 := set_body h (takeN datalen d :: h_body h) (h_bodylen h + datalen) alloc') in *.
    assert (Hcons : buflen <= avail (h_r h)) by lia.
    destruct (consume_ok _ _ R Hcons) as (r' & Ec & R' & Wr' & Av' & _).
    change (h_r h1) with (h_r h). rewrite Ec. cbn [bind]. cbn [h_readlen set_readlen].
    set (h2 := set_readlen (set_r h1 r') (h_readlen h - buflen)).
    assert (B2 : base ishead limit h2).
    { split; [apply set_readlen_inv, set_r_inv; assumption | split; assumption]. }
    assert (G2 : got h2 = got h ++ takeN datalen d) by apply got_add.
    set (d' := dropN datalen d). set (e' := dropN (buflen - datalen) e).
    assert (Ld' : lenN d' = lenN d - datalen) by apply lenN_dropN.
    assert (Le' : lenN e' = lenN e - (buflen - datalen)) by apply lenN_dropN.
    assert (ES' : r_win (h_r h2) ++ fut = d' ++ e' ++ T).
    { change (r_win (h_r h2)) with (r_win r'). rewrite Wr'. fold w.
      rewrite <- (dropN_app_le buflen w fut) by lia. rewrite ES.
      destruct (N.le_gt_cases buflen (lenN d)) as [Hle | Hgt].
      - assert (datalen = buflen) by lia. subst d' e'.
        replace (buflen - datalen) with 0 by lia. rewrite dropN_0, H.
        apply dropN_app_le. exact Hle.
      - assert (datalen = lenN d) by lia. subst d' e'. rewrite H.
        rewrite (dropN_all (lenN d) d) by lia. cbn [app].
        rewrite dropN_app_ge by lia. apply dropN_app_le. lia. }
    assert (G2' : got h2 ++ d' = got h ++ d).
    { rewrite G2, <- app_assoc. subst d'. rewrite take_drop. reflexivity. }
    assert (F2' : lenN (got h2) + lenN d' <= limit).
    { rewrite <- lenN_app, G2', lenN_app. exact F2. }
    assert (K2 : resp_known r h2) by exact K.
    destruct (h_readlen h - buflen =? 0) eqn:E0.
    - apply N.eqb_eq in E0.
      assert (Hd0 : d' = []) by (apply lenN_0; lia).
      assert (He0 : e' = []) by (apply lenN_0; lia).
      rewrite Hd0, He0 in ES'. cbn [app] in ES'. rewrite Hd0, app_nil_r in G2'.
      eexists. split; [reflexivity|]. cbn [opost osim]. fold h2. split.
      + split; [exact B2|]. split; [exact K2|]. split; [exact Hch|].
        rewrite ES', G2'. exact Hc.
      + unfold mu. change (r_win (h_r h2)) with (r_win r'). rewrite Wr'. fold w.
        unfold dropN. rewrite skipn_length. lia.
    - apply N.eqb_neq in E0.
      eexists. split; [reflexivity|]. cbn [opost osim]. fold h2. split; [|split].
      + split; [exact B2|]. split; [exact K2|].
        exists d', e', T. split; [exact Hch|]. split; [exact ES'|].
        split; [change (h_readlen h2) with (h_readlen h - buflen); lia|].
        split; [lia|].
        split; [|split; [rewrite G2'; exact Hc | exact F2']].
        intros Hne. assert (lenN d' <> 0) by (intros H0; apply lenN_0 in H0; contradiction).
        assert (lenN d <> 0) by lia. specialize (F3 H0). lia.
      + change (avail (h_r h2)) with (avail r'). rewrite Av'.
        change waitcap with 1048576.
        destruct (1048576 <? h_readlen h - buflen) eqn:E3;
          [apply N.ltb_lt in E3 | apply N.ltb_ge in E3]; unfold wmax; lia.
      + rewrite ES', !lenN_app. change waitcap with 1048576.
        destruct (1048576 <? h_readlen h - buflen) eqn:E3;
          [apply N.ltb_lt in E3 | apply N.ltb_ge in E3]; lia.
  Qed.

  (* ---------------------------------------------------------------- callback_read_toeof *)
  (* third call site: buffered + newly arrived data above the limit *)
  Lemma step_toeof_big h fut : big -> sim ishead limit r h PhToEof (r_win (h_r h) ++ fut) ->
    exists s, step_toeof h RsOk = Ok s /\ opost fut h PhToEof s.
  Proof.
    intros G [B [K [Efr Hgot]]].
    pose proof B as [I [Hmax Hish]]. pose proof (i_rdr h I) as R.
    pose proof (avail_win _ R) as Av. pose proof (win_small _ R) as Ws.
    pose proof G as (_ & Hlim & Hlim64).
    pose proof (i_body h I) as Hbl. fold (got h) in Hbl.
    pose proof (i_len h I) as Hbm. pose proof (i_max h I) as Hm64.
    assert (Hl : lenN (got h) + lenN (r_win (h_r h)) + lenN fut = lenN (resp_body r)).
    { change (resp_body r) with (body r). rewrite <- Hgot, !lenN_app. lia. }
    unfold step_toeof. cbv zeta.
    rewrite sub64_small by lia.
    destruct (h_max h - h_bodylen h <? avail (h_r h)) eqn:Ecross.
    - eexists. split; [reflexivity|]. cbn [opost]. rewrite (big_cb_of h K). reflexivity.
    - apply N.ltb_ge in Ecross.
      rewrite Av, takeN_all by lia.
      destruct (addbody_exact h (r_win (h_r h)) I ltac:(lia)) as (alloc' & Ea & I1).
      rewrite Ea. cbn [bind].
      set (h1 := set_body h (r_win (h_r h) :: h_body h) (h_bodylen h + lenN (r_win (h_r h))) alloc') in *.
      assert (Hcons : lenN (r_win (h_r h)) <= avail (h_r h)) by lia.
      destruct (consume_ok _ _ R Hcons) as (r' & Ec & R' & Wr' & Av' & _).
      change (h_r h1) with (h_r h). rewrite Ec. cbn [bind].
      assert (Wn : r_win r' = []) by (rewrite Wr'; apply dropN_all; lia).
      eexists. split; [reflexivity|]. cbn [opost osim]. cbn [h_r set_r]. rewrite Wn. cbn [app]. split; [|split].
      + split; [split; [apply set_r_inv; assumption | split; assumption]|].
        split; [exact K|]. split; [exact Efr|].
        change (got (set_r h1 r')) with (got h1). unfold h1. rewrite got_add, <- app_assoc. exact Hgot.
      + rewrite Av'. change toeof_wait with 1. unfold wmax. lia.
      + change toeof_wait with 1. destruct fut as [|c fut'].
        * exfalso. rewrite lenN_nil in Hl. lia.
        * rewrite lenN_cons. lia.
  Qed.

  Lemma step_big h ph fut : big -> osim h ph (r_win (h_r h) ++ fut) ->
    exists s, step true stale h ph RsOk = Ok s /\ opost fut h ph s.
  Proof.
    intros G S. destruct ph; cbn [step].
    - apply step_header_big; assumption.
    - apply step_chunkhdr_big; assumption.
    - apply step_data_big; assumption.
    - apply step_toeof_big; assumption.
  Qed.

  (* ---------------------------------------------------------------- one callback from the event loop *)
  Definition cb_opost (fut : list N) (s : sres) : Prop :=
    match s with
    | SFinish cbs => cbs = [big_cb]
    | SWait h' len ph' =>
      osim h' ph' (r_win (h_r h') ++ fut) /\ avail (h_r h') < len <= wmax /\
      len <= lenN (r_win (h_r h') ++ fut)
    | _ => False
    end.

  Lemma run_cb_big : forall fuel h ph fut, big -> osim h ph (r_win (h_r h) ++ fut) -> (mu h ph < fuel)%nat ->
    exists s, run_cb true stale fuel h ph RsOk = Ok s /\ cb_opost fut s.
  Proof.
    induction fuel as [|f IH]; intros h ph fut G Hsim F; [lia|].
    cbn [run_cb]. destruct (step_big h ph fut G Hsim) as (s & E & P). rewrite E. cbn [bind].
    destruct s as [cbs | | h' len ph' | h' ph']; cbn [opost] in P.
    - exists (SFinish cbs). split; [reflexivity | exact P].
    - contradiction.
    - exists (SWait h' len ph'). split; [reflexivity | exact P].
    - destruct P as [S' Mu]. apply IH; [exact G | exact S' | lia].
  Qed.

  (* ---------------------------------------------------------------- the whole exchange *)
  (* the end of the connection is never seen: [e] is arbitrary *)
  Lemma run_big : forall fuel h ph segs e, big -> osim h ph (r_win (h_r h) ++ concat segs) ->
    (netmu segs + 2 <= fuel)%nat ->
    run true stale fuel h ph RsOk (mkNet segs e) = Ok (Done [big_cb]).
  Proof.
    induction fuel as [|f IH]; intros h ph segs e G Hsim F; [lia|].
    cbn [run].
    destruct (run_cb_big (cb_fuel h) h ph (concat segs) G Hsim (cb_fuel_enough h ph)) as (s & E & P).
    rewrite E. cbn [bind].
    destruct s as [cbs | | h' len ph' | h' ph']; cbn [cb_opost] in P; try contradiction.
    - rewrite P. reflexivity.
    - destruct P as (S' & Hl & Hen).
      pose proof (osim_base _ _ _ S') as [I' _]. pose proof (i_rdr h' I') as R'.
      destruct (wait_exact (h_r h') len segs e R' Hl) as [W1 _].
      destruct (W1 Hen) as (r'' & segs' & Ew & R'' & Es & _ & Hmu).
      rewrite Ew. cbn [bind].
      apply IH; [exact G | | lia].
      cbn [h_r set_r]. rewrite Es. apply osim_set_r; assumption.
  Qed.
End Oversize.

(* ================================================================== the theorems *)

(* C08, oversize clause: every well-formed response with a body longer than the limit, every
   segmentation (EAGAIN rounds included), every reader geometry holding a prefix of the bytes, every
   ending of the connection: exactly one callback, status and headers of the response,
   bodylen = (size_t)(-1), body = NULL *)
Theorem oversized_body_reported stale r0 limit ishead r segs e :
  wf_response ishead r = true -> limit < lenN (resp_body r) -> limit < two64 ->
  rdr_ok r0 -> r_win r0 ++ concat segs = render r ->
  http_response_run repo_terminated stale r0 limit ishead (mkNet segs e) = Ok (Done [oversized r]).
Proof.
  intros Hwf Hlim Hl64 R0 Hs.
  assert (G : big ishead limit r) by (split; [exact Hwf | split; assumption]).
  rewrite repo_terminated_true. unfold http_response_run.
  rewrite <- (big_cb_oversized r).
  apply (run_big stale ishead limit r); try assumption.
  - destruct (init_inv r0 limit ishead R0 Hl64) as [I _].
    cbn [osim].
    split; [split; [exact I | split; reflexivity]|].
    split; [reflexivity|].
    destruct (big_parts ishead limit r G) as (G1 & _ & _ & G4 & _).
    exists (p_interim r). split; [exact G1|]. split; [exact G4|].
    split; [cbn [h_r init_hst]; rewrite Hs; unfold render, heads_from, rh, final_head; reflexivity|].
    cbn [h_hepos init_hst]. pose proof (first_head_len4 r (p_interim r)). lia.
  - unfold total_fuel, netmu. cbn [n_segs]. lia.
Qed.

(* the three framings spelled out (whole response in one read into a fresh reader) *)
Theorem oversized_clen stale limit ishead r pos ds e :
  wf_response ishead r = true -> p_framing r = FrClen pos ds -> limit < lenN (p_body r) ->
  http_response_run repo_terminated stale init_rdr limit ishead (mkNet [render r] e)
  = Ok (Done [CbResp (Z.of_N (m_status (p_final r))) (map nv (final_fields r)) true size_max []]).
Proof.
  intros Hwf Efr Hl.
  assert (H64 : lenN (p_body r) < two64).
  { unfold wf_response in Hwf. rewrite !andb_true_iff in Hwf. destruct Hwf as [[[[_ _] H3] _] _].
    unfold wf_framing in H3. rewrite Efr in H3. apply andb_true_iff in H3. destruct H3 as [_ H3].
    apply (wf_clen_parts _ _ H3). }
  apply (oversized_body_reported stale init_rdr limit ishead r [render r] e); try assumption.
  - unfold resp_body. rewrite Efr. exact Hl.
  - lia.
  - exact init_rdr_ok.
  - cbn [init_rdr r_win concat app]. apply app_nil_r.
Qed.

Theorem oversized_chunked stale limit ishead r pos cs ld le tr e :
  wf_response ishead r = true -> p_framing r = FrChunked pos cs ld le tr ->
  limit < lenN (concat (map c_data cs)) ->
  http_response_run repo_terminated stale init_rdr limit ishead (mkNet [render r] e)
  = Ok (Done [CbResp (Z.of_N (m_status (p_final r))) (map nv (final_fields r)) true size_max []]).
Proof.
  intros Hwf Efr Hl.
  assert (H64 : lenN (concat (map c_data cs)) < two64).
  { unfold wf_response in Hwf. rewrite !andb_true_iff in Hwf. destruct Hwf as [[[[_ _] H3] _] _].
    unfold wf_framing in H3. rewrite Efr in H3. rewrite !andb_true_iff in H3. apply N.ltb_lt. apply H3. }
  apply (oversized_body_reported stale init_rdr limit ishead r [render r] e); try assumption.
  - unfold resp_body. rewrite Efr. exact Hl.
  - lia.
  - exact init_rdr_ok.
  - cbn [init_rdr r_win concat app]. apply app_nil_r.
Qed.

Theorem oversized_close stale limit ishead r e :
  wf_response ishead r = true -> p_framing r = FrClose -> limit < lenN (p_body r) -> limit < two64 ->
  http_response_run repo_terminated stale init_rdr limit ishead (mkNet [render r] e)
  = Ok (Done [CbResp (Z.of_N (m_status (p_final r))) (map nv (final_fields r)) true size_max []]).
Proof.
  intros Hwf Efr Hl Hl64.
  apply (oversized_body_reported stale init_rdr limit ishead r [render r] e); try assumption.
  - unfold resp_body. rewrite Efr. exact Hl.
  - exact init_rdr_ok.
  - cbn [init_rdr r_win concat app]. apply app_nil_r.
Qed.

(* C08 oversize clause and C09 in one statement: whatever the limit, the callback is
   HttpSpec.expect_limited limit r *)
Theorem limit_respected stale r0 limit ishead r segs e :
  wf_response ishead r = true -> limit < two64 ->
  rdr_ok r0 -> r_win r0 ++ concat segs = render r ->
  (p_framing r = FrClose -> lenN (resp_body r) <= limit -> e = EndEof) ->
  http_response_run repo_terminated stale r0 limit ishead (mkNet segs e)
  = Ok (Done [expect_limited limit r]).
Proof.
  intros Hwf Hl64 R0 Hs He. unfold expect_limited.
  destruct (lenN (resp_body r) <=? limit) eqn:E.
  - apply N.leb_le in E. apply decode_wellformed; try assumption. intros Hc. apply He; assumption.
  - apply N.leb_gt in E. apply oversized_body_reported; assumption.
Qed.

(* what [oversized] is *)
Lemma oversized_meaning r :
  oversized r = CbResp (Z.of_N (m_status (p_final r)))
                       (map (fun f => (f_name f, f_value f)) (final_fields r)) true size_max [].
Proof. reflexivity. Qed.

Lemma oversized_cb_ok limit r : (200 <= m_status (p_final r) <= 599) -> cb_ok limit (oversized r) = true.
Proof.
  intros H. apply cb_ok_resp; [unfold status_ok; lia|]. right. repeat split; reflexivity.
Qed.

(* ------------------------------------------------------------------ non-vacuity *)
(* the hypotheses are satisfiable: the example responses of HttpRoundtrip.v with limits below their
   body sizes (6, 15 = 5 + 10 in two chunks, 5 bytes) *)
Example ex_big_hyps :
  wf_response false ex_clen = true /\ lenN (resp_body ex_clen) = 6 /\
  wf_response false ex_chunked = true /\ lenN (resp_body ex_chunked) = 15 /\
  wf_response false ex_close = true /\ lenN (resp_body ex_close) = 5.
Proof. repeat split; vm_compute; reflexivity. Qed.

(* the runs below are computed, not derived from the theorem *)

(* Content-Length 6 written "006", limit 5 = |body| - 1: byte by byte; in one read with a connection error after it;
   and the header block alone on a connection that then stalls - the report comes from the header *)
Example ex_clen_oversized :
  http_response_run repo_terminated 0 init_rdr 5 false (mkNet (map (fun b => [b]) (render ex_clen)) EndEof)
    = Ok (Done [oversized ex_clen]) /\
  http_response_run repo_terminated 0 init_rdr 5 false (mkNet [render ex_clen] EndErr)
    = Ok (Done [CbResp 404 [([65], [49]); (name_clen, [48; 48; 54])] true size_max []]) /\
  http_response_run repo_terminated 0 init_rdr 5 false
    (mkNet [render_head (p_final ex_clen) (final_fields ex_clen)] EndStall) = Ok (Done [oversized ex_clen]).
Proof. repeat split; vm_compute; reflexivity. Qed.

(* chunks of 5 and 10 bytes (after two 1xx blocks).  limit 14 = |body| - 1 and limit 5: the first chunk
   is stored, the size line "A" of the second crosses the limit; limit 4: the first size line crosses.
   Detection is AT the size line: with the stream cut right behind "A" CRLF (20 bytes before its end)
   and a stalled connection the report is made; cut one byte earlier the request keeps waiting *)
Example ex_chunked_oversized :
  http_response_run repo_terminated 0 init_rdr 14 false (mkNet (map (fun b => [b]) (render ex_chunked)) EndEof)
    = Ok (Done [oversized ex_chunked]) /\
  http_response_run repo_terminated 0 init_rdr 5 false (mkNet [render ex_chunked] EndEof)
    = Ok (Done [oversized ex_chunked]) /\
  http_response_run repo_terminated 0 init_rdr 4 false (mkNet [render ex_chunked] EndEof)
    = Ok (Done [oversized ex_chunked]) /\
  http_response_run repo_terminated 0 init_rdr 14 false
    (mkNet [takeN (lenN (render ex_chunked) - 20) (render ex_chunked)] EndStall)
    = Ok (Done [oversized ex_chunked]) /\
  http_response_run repo_terminated 0 init_rdr 14 false
    (mkNet [takeN (lenN (render ex_chunked) - 21) (render ex_chunked)] EndStall) = Ok Waiting /\
  oversized ex_chunked =
    CbResp 200 [([88; 45; 65], [97; 58; 98]); (name_te, value_chunked); ([69], [])] true size_max [].
Proof. repeat split; vm_compute; reflexivity. Qed.

(* read-to-close body of 5 bytes (after a 199 block), limit 4 = |body| - 1: byte by byte (the fifth byte
   crosses), in one read on a connection that then stalls, and limit 0 *)
Example ex_close_oversized :
  http_response_run repo_terminated 0 init_rdr 4 false (mkNet (map (fun b => [b]) (render ex_close)) EndEof)
    = Ok (Done [oversized ex_close]) /\
  http_response_run repo_terminated 0 init_rdr 4 false (mkNet [render ex_close] EndStall)
    = Ok (Done [oversized ex_close]) /\
  http_response_run repo_terminated 0 init_rdr 0 false (mkNet [render ex_close] EndErr)
    = Ok (Done [CbResp 599 [] true size_max []]).
Proof. repeat split; vm_compute; reflexivity. Qed.

(* at the limit itself nothing is reported: the same responses with limit = |body| are decoded *)
Example ex_at_limit_decoded :
  expect_limited 6 ex_clen = expect ex_clen /\ expect_limited 5 ex_clen = oversized ex_clen /\
  http_response_run repo_terminated 0 init_rdr 15 false (mkNet [render ex_chunked] EndEof)
    = Ok (Done [expect ex_chunked]).
Proof. repeat split; vm_compute; reflexivity. Qed.
