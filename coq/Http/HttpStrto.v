(* The two libc text-to-number facilities http.c relies on, as small executable models
   (their fidelity is part of the trusted base and is sampled by the correspondence run;
   behaviours pinned against glibc 2.36 in DESIGN.md Appendix A):

   - strtoumax in the C locale + util/parsenum.h's parsenum_unsigned, reading a buffer through
     checked memory ([rd]): a read past the end of the buffer is a Fault.  This is what decides
     whether the chunk-size parse stays inside the reader's buffer.
   - sscanf for formats made of literal characters, white space and %d (the status line).

   No proofs here (extraction must keep working when a proof breaks). *)
From Coq Require Import NArith ZArith List Bool.
From LCP Require Import Base.CheckedMem.
Import ListNotations.
Local Open Scope N_scope.
Local Open Scope res_scope.

Definition two64 : N := 18446744073709551616.
Definition size_max : N := 18446744073709551615.

(* isspace() in the C locale: \t \n \v \f \r and the blank *)
Definition is_space (c : N) : bool := (c =? 32) || ((9 <=? c) && (c <=? 13)).

Definition digit_val (c : N) : option N :=
  if (48 <=? c) && (c <=? 57) then Some (c - 48)
  else if (97 <=? c) && (c <=? 122) then Some (c - 87)
  else if (65 <=? c) && (c <=? 90) then Some (c - 55)
  else None.

Definition digit_in (base c : N) : option N :=
  match digit_val c with
  | Some v => if v <? base then Some v else None
  | None => None
  end.

(* ------------------------------------------------------------------ strtoumax *)

(* while (isspace(s[i])) i++; *)
Fixpoint skip_space (fuel : nat) (buf : list N) (i : nat) : res nat :=
  match fuel with
  | O => OutOfFuel
  | S f => let* c := rd buf i in if is_space c then skip_space f buf (S i) else Ok i
  end.

(* the digit run: accumulated value (meaningless once [ovf]), index after the run, overflow flag.
   The whole run is consumed even after an overflow. *)
Fixpoint digit_run (fuel : nat) (buf : list N) (base : N) (i : nat) (acc : N) (ovf : bool)
  : res (N * nat * bool) :=
  match fuel with
  | O => OutOfFuel
  | S f =>
    let* c := rd buf i in
    match digit_in base c with
    | Some v =>
      let acc' := acc * base + v in
      if ovf || (two64 <=? acc') then digit_run f buf base (S i) 0 true
      else digit_run f buf base (S i) acc' false
    | None => Ok (acc, i, ovf)
    end
  end.

(* "0x"/"0X" is skipped in base 16 only when a hex digit follows it *)
Definition hex_prefix (buf : list N) (base : N) (i1 : nat) : res nat :=
  if base =? 16 then
    let* c0 := rd buf i1 in
    if c0 =? 48 then
      let* c1 := rd buf (S i1) in
      if (c1 =? 120) || (c1 =? 88) then
        let* c2 := rd buf (S (S i1)) in
        match digit_in 16 c2 with Some _ => Ok (S (S i1)) | None => Ok i1 end
      else Ok i1
    else Ok i1
  else Ok i1.

(* strtoumax(buf, &end, base) for base 10 or 16: (value, index of end, ERANGE raised?).
   End index 0 = no conversion. *)
Definition strtoumax_m (buf : list N) (base : N) : res (N * nat * bool) :=
  let fuel := S (length buf) in
  let* i := skip_space fuel buf 0 in
  let* c := rd buf i in
  let neg := c =? 45 in
  let i1 := if (c =? 45) || (c =? 43) then S i else i in
  let* i2 := hex_prefix buf base i1 in
  let* r := digit_run fuel buf base i2 0 false in
  let '(acc, j, ovf) := r in
  if Nat.eqb j i2 then Ok (0, O, false)
  else if ovf then Ok (size_max, j, true)
  else Ok ((if neg then (two64 - acc) mod two64 else acc), j, false).

(* parsenum_unsigned(s, min, max, typemax, base, trailing) as it is after the negative-number
   repair; None = errno ends up non-zero (EINVAL or ERANGE). *)
Definition parsenum_unsigned_m (buf : list N) (min max typemax base : N) (trailing : bool)
  : res (option N) :=
  let* r := strtoumax_m buf base in
  let '(v, e, erange) := r in
  if Nat.eqb e O then Ok None
  else
    let* ce := (if trailing then Ok 0 else rd buf e) in
    if negb trailing && negb (ce =? 0) then Ok None
    else if (v <? min) || (max <? v) || (typemax <? v) then Ok None
    else if negb (v =? 0) then
      let* i := skip_space (S (length buf)) buf 0 in
      let* c := rd buf i in
      if c =? 45 then Ok None else Ok (if erange then None else Some v)
    else Ok (if erange then None else Some v).

(* ------------------------------------------------------------------ sscanf, %d only *)
Local Open Scope Z_scope.

Fixpoint drop_space (s : list N) : list N :=
  match s with
  | c :: r => if is_space c then drop_space r else s
  | [] => []
  end.

Definition sat : N := 18446744073709551616%N.     (* accumulate digits saturating at 2^64 *)

Fixpoint take_digits (s : list N) (acc : N) (cnt : nat) : N * nat * list N :=
  match s with
  | c :: r =>
    if ((48 <=? c) && (c <=? 57))%N then
      let a := (acc * 10 + (c - 48))%N in
      take_digits r (if (sat <=? a)%N then sat else a) (S cnt)
    else (acc, cnt, s)
  | [] => (acc, cnt, [])
  end.

Definition long_max : Z := 9223372036854775807.
Definition long_min : Z := -9223372036854775808.

(* (int) of a long: keep the low 32 bits, two's complement *)
Definition trunc_int (v : Z) : Z := ((v + 2147483648) mod 4294967296) - 2147483648.

(* one %d: skip blanks, optional sign, at least one decimal digit; converted as a long with
   clamping, stored into an int by truncation *)
Definition scan_int (s : list N) : option (Z * list N) :=
  let s1 := drop_space s in
  let '(neg, s2) :=
    match s1 with
    | c :: r => if (c =? 45)%N then (true, r) else if (c =? 43)%N then (false, r) else (false, s1)
    | [] => (false, [])
    end in
  let '(v, cnt, rest) := take_digits s2 0%N O in
  match cnt with
  | O => None
  | S _ =>
    let m := Z.of_N v in
    let l := if neg then Z.max long_min (- m) else Z.min long_max m in
    Some (trunc_int l, rest)
  end.

(* sscanf(s, fmt, ...): the list of converted values, in order.  A directive that fails ends the
   scan.  '%' 'd' = 37 100. *)
Fixpoint scanf_m (fmt : list N) (s : list N) (vals : list Z) : list Z :=
  match fmt with
  | [] => vals
  | f :: fmt1 =>
    if (f =? 37)%N then
      match fmt1 with
      | d :: fmt2 =>
        if (d =? 100)%N then
          match scan_int s with
          | Some (v, rest) => scanf_m fmt2 rest (vals ++ [v])
          | None => vals
          end
        else vals                          (* no other conversion is modelled *)
      | [] => vals
      end
    else if is_space f then scanf_m fmt1 (drop_space s) vals
    else
      match s with
      | x :: r => if (x =? f)%N then scanf_m fmt1 r vals else vals
      | [] => vals
      end
  end.
