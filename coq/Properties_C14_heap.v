(* C14 (container part: pointer heap and timer queue) - allocation failure.
   Only statements, each closed by [exact]/[apply] of a lemma, with Print Assumptions.

   The allocator is an oracle o (DS/AllocOracle.v) answering every malloc/realloc of the model in
   program order; the theorems hold for EVERY oracle, so for the failure of the 1st, 2nd, ... k-th
   request, individually or persistently.  [refused ev] = the oracle refused a request during the call.
   [acct L ev L'] (DS/PtrHeapAlloc.v): replaying the call's allocation events on a ghost heap whose
   live blocks are the multiset L never touches a block that is not live and ends with L'.
   heap_blocks h / tq_blocks q = the blocks the object owns. *)
From Coq Require Import NArith ZArith List Permutation.
From LCP Require Import Base.CheckedMem DS.AllocOracle Gen.Repo_heap DS.PtrHeap DS.TimerQueue DS.PtrHeapInst DS.PtrHeapProofs DS.PtrHeapOps DS.PtrHeapAlloc DS.TimerQueueProofs DS.TimerQueueAlloc DS.PtrHeapRepo.
Import ListNotations.

(* ---- M1 fail_unchanged: a refusal <-> the error value, nothing notified, the heap as before ---- *)
Theorem C14_ptrheap_create_fail : forall cmp le, compar_ok cmp le -> forall setrc ptrs o, small (length ptrs) ->
  exists oh ns o' ev,
    ph_create cmp setrc ptrs o = Ok (oh, ns, o', ev) /\
    (refused ev = true <-> oh = None) /\ (oh = None -> ns = []).
Proof. intros cmp le CO. repo_std. exact (create_fail cmp le CO). Qed.
Print Assumptions C14_ptrheap_create_fail.

Theorem C14_ptrheap_add_fail_unchanged : forall cmp le, compar_ok cmp le -> forall setrc h x o,
  heap_inv le h -> small (length (elems h)) ->
  exists ok h' ns o' ev,
    ph_add cmp setrc h x o = Ok (ok, h', ns, o', ev) /\
    (refused ev = true <-> ok = false) /\ (ok = false -> h' = h /\ ns = []).
Proof. intros cmp le CO. repo_std. exact (add_fail cmp le CO). Qed.
Print Assumptions C14_ptrheap_add_fail_unchanged.

Theorem C14_tq_init_fail : forall o,
  exists oq o' ev, tq_init o = Ok (oq, o', ev) /\ (refused ev = true <-> oq = None).
Proof. repo_std. exact (tq_init_fail _). Qed.
Print Assumptions C14_tq_init_fail.

Theorem C14_tq_add_fail_unchanged : forall q id tv ptr o,
  tq_inv q -> rfind (tq_recs q) id = None -> qsmall q ->
  exists c q' o' ev,
    tq_add q id tv ptr o = Ok (c, q', o', ev) /\
    (refused ev = true <-> c = None) /\ (c = None -> q' = q).
Proof. repo_std. exact (tq_add_fail _). Qed.
Print Assumptions C14_tq_add_fail_unchanged.

(* ---- M2 infallible: deletions return normally with their full C13 meaning under EVERY oracle, in
        particular under the one that refuses everything (the shrinking realloc may be refused; the
        array keeps its buffer).  decrease / increase / increasemin / getmin take no oracle at all:
        they make no allocation request (see their types). ---- *)
Theorem C14_ptrheap_delete_infallible : forall cmp le, compar_ok cmp le -> forall setrc h rc,
  heap_inv le h -> small (length (elems h)) -> rc < nelems h ->
  exists h' ns o' ev,
    ph_delete cmp setrc h rc all_refuse = Ok (h', ns, o', ev) /\
    heap_inv le h' /\ Permutation (el (elems h) rc :: elems h') (elems h) /\
    (setrc = true -> forall pos, handles pos h -> handles (apply_notes pos ns) h').
Proof. intros cmp le CO. repo_std. exact (delete_infallible cmp le CO). Qed.
Print Assumptions C14_ptrheap_delete_infallible.

Theorem C14_tq_delete_infallible : forall q id,
  tq_inv q -> qsmall q -> In id (elems (tq_heap q)) ->
  exists q' o' ev,
    tq_delete q id all_refuse = Ok (q', o', ev) /\
    tq_inv q' /\ Permutation (id :: elems (tq_heap q')) (elems (tq_heap q)) /\
    rfind (tq_recs q') id = None.
Proof. repo_std. exact (tq_delete_infallible _). Qed.
Print Assumptions C14_tq_delete_infallible.

Theorem C14_tq_getptr_infallible : forall q tv, tq_inv q -> qsmall q ->
  exists p q' o' ev, tq_getptr q tv all_refuse = Ok (p, q', o', ev) /\ tq_inv q'.
Proof. repo_std. exact (tq_getptr_infallible _). Qed.
Print Assumptions C14_tq_getptr_infallible.

(* ---- M3 no_leak: exact block accounting of every call, for every oracle.  When the call fails the
        object is unchanged (M1), so the live blocks after it are the live blocks before it; after
        the object's free, nothing it owned is live. ---- *)
Theorem C14_ptrheap_create_acct : forall cmp setrc ptrs o oh ns o' ev R, small (length ptrs) ->
  ph_create cmp setrc ptrs o = Ok (oh, ns, o', ev) ->
  acct R ev (match oh with Some h => heap_blocks h ++ R | None => R end).
Proof. intros cmp. repo_std. exact (create_acct cmp). Qed.
Print Assumptions C14_ptrheap_create_acct.

Theorem C14_ptrheap_add_acct : forall cmp le, compar_ok cmp le -> forall setrc h x o ok h' ns o' ev R,
  heap_inv le h -> small (length (elems h)) ->
  ph_add cmp setrc h x o = Ok (ok, h', ns, o', ev) ->
  acct (heap_blocks h ++ R) ev (heap_blocks h' ++ R).
Proof. intros cmp le CO. repo_std. exact (add_acct cmp le). Qed.
Print Assumptions C14_ptrheap_add_acct.

Theorem C14_ptrheap_delete_acct : forall cmp le, compar_ok cmp le -> forall setrc h rc o h' ns o' ev R,
  heap_inv le h -> small (length (elems h)) -> rc < nelems h ->
  ph_delete cmp setrc h rc o = Ok (h', ns, o', ev) ->
  acct (heap_blocks h ++ R) ev (heap_blocks h' ++ R).
Proof. intros cmp le CO. repo_std. exact (delete_acct cmp le CO). Qed.
Print Assumptions C14_ptrheap_delete_acct.

Theorem C14_ptrheap_free_acct : forall h R, acct (heap_blocks h ++ R) (ph_free_ev h) R.
Proof. repo_std. exact free_acct. Qed.
Print Assumptions C14_ptrheap_free_acct.

Theorem C14_tq_init_acct : forall o oq o' ev R,
  tq_init o = Ok (oq, o', ev) ->
  acct R ev (match oq with Some q => tq_blocks timerqueue_struct_size timerrec_struct_size q ++ R | None => R end).
Proof. repo_std. exact (tq_init_acct _ _). Qed.
Print Assumptions C14_tq_init_acct.

Theorem C14_tq_add_acct : forall qsz q id tv ptr o c q' o' ev R,
  tq_inv q -> rfind (tq_recs q) id = None -> qsmall q ->
  tq_add q id tv ptr o = Ok (c, q', o', ev) ->
  acct (tq_blocks qsz timerrec_struct_size q ++ R) ev (tq_blocks qsz timerrec_struct_size q' ++ R).
Proof. intros qsz. repo_std. exact (tq_add_acct qsz _). Qed.
Print Assumptions C14_tq_add_acct.

Theorem C14_tq_delete_acct : forall qsz q id o q' o' ev R,
  tq_inv q -> qsmall q -> In id (elems (tq_heap q)) ->
  tq_delete q id o = Ok (q', o', ev) ->
  acct (tq_blocks qsz timerrec_struct_size q ++ R) ev (tq_blocks qsz timerrec_struct_size q' ++ R).
Proof. intros qsz. repo_std. exact (tq_delete_acct qsz _). Qed.
Print Assumptions C14_tq_delete_acct.

Theorem C14_tq_getptr_acct : forall qsz q tv o p q' o' ev R,
  tq_inv q -> qsmall q ->
  tq_getptr q tv o = Ok (p, q', o', ev) ->
  acct (tq_blocks qsz timerrec_struct_size q ++ R) ev (tq_blocks qsz timerrec_struct_size q' ++ R).
Proof. intros qsz. repo_std. exact (tq_getptr_acct qsz _). Qed.
Print Assumptions C14_tq_getptr_acct.

(* timerqueue_free never fails either (its deletemin calls may see refused shrinks) and releases
   every block the queue owns *)
Theorem C14_tq_free_acct : forall fuel q o,
  tq_inv q -> qsmall q -> length (elems (tq_heap q)) < fuel ->
  exists o' ev, tq_free fuel q o = Ok (o', ev) /\
    forall R, acct (tq_blocks timerqueue_struct_size timerrec_struct_size q ++ R) ev R.
Proof. repo_std. exact (tq_free_acct _ _). Qed.
Print Assumptions C14_tq_free_acct.
