(* C17 (M5), JSON part: on a valid JSON object the key finder returns the start of the value of
   the first top-level member whose decoded name equals the key, else the end.
   Only statements, each closed by [exact]. *)
From Coq Require Import NArith List.
From LCP Require Import Base.CheckedMem Gen.Repo_json Util.Json Util.JsonSpec Util.JsonRepo Util.JsonRfc Util.JsonCorrect.
Import ListNotations.

(* skip_value lands exactly behind the rendering of any well-formed value (any nesting, any
   whitespace / escape choices), provided the next byte - if any - is not one a number could
   continue with ( + - 0..9 . e E or NUL ); in a JSON text it is a blank , ] or } *)
Theorem C17_json_skip_value_render :
  forall v rest, wf v = true -> value_end_ok rest = true ->
  skip_value_c (render v ++ rest) 0 = Ok (length (render v)).
Proof. exact skip_value_render. Qed.
Print Assumptions C17_json_skip_value_render.

Theorem C17_json_skip_value_render_at :
  forall pre v rest, wf v = true -> value_end_ok rest = true ->
  skip_value_c (pre ++ render v ++ rest) (length pre) = Ok (length pre + length (render v)).
Proof. exact skip_value_render_at. Qed.
Print Assumptions C17_json_skip_value_render_at.

(* json_find = find_spec on: optional blanks, ANY well-formed object (members with any names
   incl. duplicates, prefixes, escapes and \u; values of any shape), ANY bytes behind the object,
   ANY key without NUL.  find_spec = offset of the value of the first member whose name, after
   decoding the two-character escapes, equals the key; names written with \u never match; else
   the total length. *)
Theorem C17_json_find_correct :
  forall lead w ms trail key,
  is_wsl lead = true -> wf (JObj w ms) = true -> no_nul key ->
  json_find_c (lead ++ render (JObj w ms) ++ trail) key = Ok (find_spec lead (JObj w ms) trail key).
Proof. exact json_find_correct. Qed.
Print Assumptions C17_json_find_correct.

(* the same for every object valid by the strict RFC 8259 grammar (number syntax, control
   characters escaped, four hex digits after \u): rfc_valid implies wf *)
Theorem C17_json_find_correct_rfc8259 :
  forall lead w ms trail key,
  is_wsl lead = true -> rfc_valid (JObj w ms) = true -> no_nul key ->
  json_find_c (lead ++ render (JObj w ms) ++ trail) key = Ok (find_spec lead (JObj w ms) trail key).
Proof. exact json_find_correct_rfc. Qed.
Print Assumptions C17_json_find_correct_rfc8259.

(* what find_spec is: the offset at which the rendering of the value of the FIRST member whose
   decoded name is the key begins, or - when no member has that name - the total length *)
Theorem C17_json_find_spec_meaning :
  forall lead w ms trail key,
  let text := lead ++ render (JObj w ms) ++ trail in
  let o := find_spec lead (JObj w ms) trail key in
  (exists before m after rest,
      ms = before ++ m :: after /\
      Forall (fun x => decode_name (member_name x) <> Some key) before /\
      decode_name (member_name m) = Some key /\
      skipn o text = render (member_value m) ++ rest)
  \/ (Forall (fun x => decode_name (member_name x) <> Some key) ms /\ o = length text).
Proof. exact find_spec_meaning. Qed.
Print Assumptions C17_json_find_spec_meaning.

(* non-vacuity and regression: an RFC-valid object with a blank after a comma inside a nested
   array; the code as it is now finds y at offset 16 = find_spec; the code before the repair
   of skip_array / skip_object (same model, repaired statements switched off) answered absent *)
Theorem C17_json_nested_blank_example :
  render ex1 = ex1_bytes /\ rfc_valid ex1 = true /\
  find_spec [] ex1 [] [121%N] = 16 /\ json_find_c ex1_bytes [121%N] = Ok 16 /\
  json_find_old ex1_bytes [121%N] = Ok 18.
Proof. exact (conj ex1_render (conj (proj2 ex1_wf) (conj ex1_spec (conj ex1_now ex1_old_missed_y)))). Qed.
Print Assumptions C17_json_nested_blank_example.
