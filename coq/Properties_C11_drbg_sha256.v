(* C11, with the HMAC hypotheses of Properties_C11_drbg.v discharged by the hash area's C01
   theorems for alg/sha256.c (Alg/HashRepoProofs.v).  [drbg_run] is the model of
   crypto_entropy.c over the model of alg/sha256.c's streaming HMAC-SHA256 interface, started
   from the zeroed statics - the function that is extracted and compared with the compiled C;
   [drbg_spec_run] is SP 800-90A 10.1.2 over HMAC_SHA256_spec (RFC 2104 over FIPS 180-4). *)
From Coq Require Import NArith List.
From LCP Require Import Base.CheckedMem Crypto.DrbgSpec Crypto.DrbgOsSpec Crypto.DrbgModel Crypto.DrbgOsModel Crypto.DrbgProofs Crypto.DrbgOsProofs Crypto.DrbgRepo Crypto.DrbgSha256Proofs.
Import ListNotations.

(* for every request sequence and every entropy oracle the modelled generator never aborts and
   returns exactly the SP 800-90A HMAC_DRBG(SHA-256) outputs, return codes and final state *)
Theorem C11_generator_is_hmac_drbg_sha256 :
  forall reqs o,
  exists results st' o' tr,
    drbg_run reqs o = Ok (results, st', o', tr) /\
    drbg_spec_run reqs o = (results, abs_state st', o').
Proof. exact drbg_run_refines_spec. Qed.
Print Assumptions C11_generator_is_hmac_drbg_sha256.

(* ... and its trace obeys the reseed schedule and the no-unseeded-output conditions *)
Theorem C11_generator_schedule :
  forall reqs o results st' o' tr,
  drbg_run reqs o = Ok (results, st', o', tr) ->
  (exists b, pos_run None tr = Some b) /\
  sched_run None tr = Some (astate_of st') /\
  trace_oracle tr o = Some o' /\
  (forall bytes, In (Some bytes) results -> In (EvInstantiate 48 true) tr).
Proof. exact drbg_run_schedule. Qed.
Print Assumptions C11_generator_schedule.

(* the same with the OS entropy source opened up: [drbg_os_run] is the model of crypto_entropy.c
   over the model of util/entropy.c's entropy_read() over scripted open/read/close answers - the
   function that is extracted and compared with the C built with the real util/entropy.c and
   interposed system calls.  For every request sequence and every script it never aborts and
   equals SP 800-90A HMAC_DRBG(SHA-256) fed with the bytes the sessions delivered; a call fails
   exactly when one of its sessions failed (open failed, fewer than the needed bytes before a
   read error / EOF, or close failed) *)
Theorem C11_generator_with_os_entropy_sha256 :
  forall reqs ss,
  exists results st' ss' tr,
    drbg_os_run reqs ss = Ok (results, st', ss', tr) /\
    drbg_os_spec_run reqs ss = (results, abs_state st', spec_resolve (dinst st') ss') /\
    suffix ss' ss.
Proof. exact drbg_os_run_refines_spec. Qed.
Print Assumptions C11_generator_with_os_entropy_sha256.

Theorem C11_generator_with_os_entropy_schedule :
  forall reqs ss results st' ss' tr,
  drbg_os_run reqs ss = Ok (results, st', ss', tr) ->
  (exists b, pos_run None tr = Some b) /\
  sched_run None tr = Some (astate_of st') /\
  trace_oracle tr (spec_resolve false ss) = Some (spec_resolve (dinst st') ss') /\
  (forall bytes, In (Some bytes) results -> In (EvInstantiate 48 true) tr).
Proof. exact drbg_os_run_schedule. Qed.
Print Assumptions C11_generator_with_os_entropy_schedule.
