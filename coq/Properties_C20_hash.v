(* C20 (hash part), M1 final_zeroes_ctx: every field of the context returned by SHA256_Final,
   SHA1_Final, MD5_Final and the three HMAC_XXX_Final is zero, for every input context.

   What is REGENERATED from the C at every run (tools/extract/x_hash.py -> Gen/Repo_hash.v), besides
   the constants of the digest computation:
     hash_structs    the field lists (element type, name, element count) of SHA256_CTX, SHA1_CTX,
                     MD5_CTX, HMAC_SHA256_CTX, HMAC_SHA1_CTX, HMAC_MD5_CTX from the three headers;
     hash_final_fns  for every function defined in alg/sha256.c, alg/sha1.c, alg/md5.c whose name
                     contains "_Final" and that takes one of these contexts (the six public
                     functions, SHA256_Final_internal, HMAC_SHA256_Final_internal): its context
                     parameter and the ordered list of the statements of its body, each one READ by
                     the translator or the whole module refuses (then the pinned output is used and
                     the byte-level observation below alone decides on that run):
                     a call with, per argument, whether it denotes the context object, one of its
                     fields, or no part of it (parentheses, pointer casts and single-assignment
                     temporaries resolved); insecure_memzero(object, size) with the size as a product
                     of integer literals, sizeof(T) (sizeof( *p ) through p's declared pointee type,
                     sizeof(local array) as sizeof(element) * n, sizeof(ctx->f)) and sizeof(pointer);
                     `if (..) insecure_memzero(..)` as a guarded wipe that may not run.
   The models' Final functions (Alg/HashRepo.v) contain NO wipe of their own: they return the context
   as the computation leaves it (state words, bit count, buffer after padding) with exactly those
   fields zeroed that are in the ZERO SET computed by the interpreter Alg/HashWipe.v from these lists.
   Sizes are compared BY VALUE through the regenerated layouts (field offsets with natural alignment,
   LP64 scalar sizes): a field is zero on return only if it lies wholly inside the first
   min(size, size of the object) bytes of a regenerated insecure_memzero on the context or on a field
   of it, or an inner XXX_Final call on that sub-context zeroes it, and no later call takes it as an
   argument and no guarded wipe follows.  So sizeof(SHA1_CTX), (sizeof(SHA1_CTX)), sizeof( *ctx ), 92
   and a temporary holding any of them all cover a SHA1_CTX; sizeof(ctx) (a pointer: 8 bytes) or 91
   do not.  Wipes of objects that are no part of the context (stack scratch) have no effect wherever
   they stand.
   So: SHA256_Final / SHA1_Final / MD5_Final zero the object by their own insecure_memzero;
   HMAC_SHA256_Final by its insecure_memzero(ctx, sizeof(HMAC_SHA256_CTX)) (the inner
   SHA256_Final_internal calls wipe nothing); HMAC_SHA1_Final / HMAC_MD5_Final have no such call and
   the statement follows from the zero sets of the two inner XXX_Final calls on &ctx->ictx and
   &ctx->octx - all of this is derived from the regenerated lists by vm_compute, none of it is
   written in the model.  Removing, mis-sizing, guarding or misplacing one of these wipes in the C
   breaks the corresponding theorems below at the next run.
   The *_wipes_whole theorems say the same about the LAYOUT: every leaf field of the context struct
   as declared in the header (not only the three fields the model records have) is in the zero set.

   PARTIAL by nature: the model says which wipes are REQUESTED by the source text; that the compiled
   code really performs them (insecure_memzero not elided at -O2, sizeof what the text suggests) is
   decided by areas/hash.py check_wipe, which inspects every byte of the real context objects after
   Final (ASan build and plain -O2 build) and reports any non-zero byte with the input.  The stack
   scratch arrays (tmp32, pad, khash, ihash, W, S) are not part of the property's "context object";
   their wipes appear in the regenerated lists but denote no part of the context and are ignored.
   This file contains only statements, each closed by [exact], with Print Assumptions. *)
From Coq Require Import String.
From Coq Require Import NArith List.
From LCP Require Import Gen.Repo_hash Alg.Words Alg.Sha256Model Alg.MD32Model Alg.HmacModel Alg.HashWipe Alg.HashRepo Alg.HashWipeRepoProofs.

Theorem C20_sha256_final_zeroes_ctx : forall c, c256_is_zero (snd (sha256_final c)) = true.
Proof. exact repo_sha256_final_zeroes_ctx. Qed.
Print Assumptions C20_sha256_final_zeroes_ctx.

Theorem C20_sha1_final_zeroes_ctx : forall c, c32_is_zero (snd (sha1_final c)) = true.
Proof. exact repo_sha1_final_zeroes_ctx. Qed.
Print Assumptions C20_sha1_final_zeroes_ctx.

Theorem C20_md5_final_zeroes_ctx : forall c, c32_is_zero (snd (md5_final c)) = true.
Proof. exact repo_md5_final_zeroes_ctx. Qed.
Print Assumptions C20_md5_final_zeroes_ctx.

Theorem C20_hmac_sha256_final_zeroes_ctx : forall c, hctx256_is_zero (snd (hmac256_final c)) = true.
Proof. exact repo_hmac_sha256_final_zeroes_ctx. Qed.
Print Assumptions C20_hmac_sha256_final_zeroes_ctx.

Theorem C20_hmac_sha1_final_zeroes_ctx : forall c, hctx32_is_zero (snd (hmacsha1_final c)) = true.
Proof. exact repo_hmac_sha1_final_zeroes_ctx. Qed.
Print Assumptions C20_hmac_sha1_final_zeroes_ctx.

Theorem C20_hmac_md5_final_zeroes_ctx : forall c, hctx32_is_zero (snd (hmacmd5_final c)) = true.
Proof. exact repo_hmac_md5_final_zeroes_ctx. Qed.
Print Assumptions C20_hmac_md5_final_zeroes_ctx.

(* every leaf field of the context struct, as laid out in the regenerated header declarations, is in
   the zero set the interpreter derives from the regenerated body of the function *)
Theorem C20_sha256_final_wipes_whole :
  wipes_whole_ctx hash_structs hash_final_fns "SHA256_Final"%string = true.
Proof. exact repo_sha256_final_wipes_whole. Qed.
Print Assumptions C20_sha256_final_wipes_whole.

Theorem C20_sha1_final_wipes_whole :
  wipes_whole_ctx hash_structs hash_final_fns "SHA1_Final"%string = true.
Proof. exact repo_sha1_final_wipes_whole. Qed.
Print Assumptions C20_sha1_final_wipes_whole.

Theorem C20_md5_final_wipes_whole :
  wipes_whole_ctx hash_structs hash_final_fns "MD5_Final"%string = true.
Proof. exact repo_md5_final_wipes_whole. Qed.
Print Assumptions C20_md5_final_wipes_whole.

Theorem C20_hmac_sha256_final_wipes_whole :
  wipes_whole_ctx hash_structs hash_final_fns "HMAC_SHA256_Final"%string = true.
Proof. exact repo_hmac_sha256_final_wipes_whole. Qed.
Print Assumptions C20_hmac_sha256_final_wipes_whole.

Theorem C20_hmac_sha1_final_wipes_whole :
  wipes_whole_ctx hash_structs hash_final_fns "HMAC_SHA1_Final"%string = true.
Proof. exact repo_hmac_sha1_final_wipes_whole. Qed.
Print Assumptions C20_hmac_sha1_final_wipes_whole.

Theorem C20_hmac_md5_final_wipes_whole :
  wipes_whole_ctx hash_structs hash_final_fns "HMAC_MD5_Final"%string = true.
Proof. exact repo_hmac_md5_final_wipes_whole. Qed.
Print Assumptions C20_hmac_md5_final_wipes_whole.
