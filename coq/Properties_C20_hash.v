(* C20 (hash part), M1 final_zeroes_ctx: every field of the context returned by SHA256_Final,
   SHA1_Final, MD5_Final and the three HMAC_XXX_Final is zero - in the model instantiated with the
   regenerated constants.  For HMAC-SHA256 the wipe is the explicit insecure_memzero of the whole
   HMAC context in HMAC_SHA256_Final (the inner SHA256_Final_internal calls leave dirty contexts);
   for HMAC-SHA1 / HMAC-MD5 there is no such call and the statement follows from the two inner
   XXX_Final calls each wiping its half.
   PARTIAL by nature: the model says which wipes are REQUESTED; that the compiled code really
   performs them (insecure_memzero not elided at -O2) is decided by areas/hash.py check_wipe, which
   inspects every byte of the real context objects.  The stack scratch arrays (tmp32, pad, khash,
   ihash, W, S) are not part of the property's "context object" and are not modelled.
   This file contains only statements, each closed by [exact], with Print Assumptions. *)
From Coq Require Import NArith List.
From LCP Require Import Alg.Words Alg.Sha256Model Alg.MD32Model Alg.HmacModel Alg.HashRepo Alg.HashRepoProofs.

Theorem C20_sha256_final_zeroes_ctx : forall c, c256_is_zero (snd (sha256_final c)) = true.
Proof. exact repo_sha256_final_zeroes_ctx. Qed.
Print Assumptions C20_sha256_final_zeroes_ctx.

Theorem C20_sha1_final_zeroes_ctx : forall c, c32_is_zero (snd (sha1_final c)) = true.
Proof. exact repo_sha1_final_zeroes_ctx. Qed.
Print Assumptions C20_sha1_final_zeroes_ctx.

Theorem C20_md5_final_zeroes_ctx : forall c, c32_is_zero (snd (md5_final c)) = true.
Proof. exact repo_md5_final_zeroes_ctx. Qed.
Print Assumptions C20_md5_final_zeroes_ctx.

Theorem C20_hmac_sha256_final_zeroes_ctx : forall c, hctx256_is_zero (snd (hmac256_final c)) = true.
Proof. exact repo_hmac_sha256_final_zeroes_ctx. Qed.
Print Assumptions C20_hmac_sha256_final_zeroes_ctx.

Theorem C20_hmac_sha1_final_zeroes_ctx : forall c, hctx32_is_zero (snd (hmacsha1_final c)) = true.
Proof. exact repo_hmac_sha1_final_zeroes_ctx. Qed.
Print Assumptions C20_hmac_sha1_final_zeroes_ctx.

Theorem C20_hmac_md5_final_zeroes_ctx : forall c, hctx32_is_zero (snd (hmacmd5_final c)) = true.
Proof. exact repo_hmac_md5_final_zeroes_ctx. Qed.
Print Assumptions C20_hmac_md5_final_zeroes_ctx.
