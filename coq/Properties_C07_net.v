(* C07: buffered reader and writer preserve the byte stream.
   Only statements, each closed by [exact], with Print Assumptions.  Models: Net/NetbufRead.v,
   Net/NetbufWrite.v (mirrors of netbuf_{read,write}.c); 4096 / 2 / WBUFLEN are regenerated from
   the C text (Gen/Repo_net.v).  The transport below is the C06 contract: a completed read reports
   n in [min, max] bytes stored in its target range, or 0, or -1; a completed write reports its
   whole length or -1.
   netbuf_read.c / netbuf_write.c hand the started transfer to one of two transports - the
   descriptor (network_read / network_write) or, for an object made by netbuf_*_init2(-1, ctx), the
   context transport behind netbuf_{read,write}_ssl_func (TLS) - with the argument computations
   written once per branch: the reader / writer theorems below are about those argument
   computations (target range, max, min, whole-buffer length), which both branches share, and the
   correspondence run (areas/net.py: every netbuf scenario as sc and as scx) executes BOTH branches
   of the C against the one model. *)
From Coq Require Import NArith ZArith List Bool Arith.
From LCP Require Import Base.CheckedMem Gen.Repo_net Net.NetRW Net.NetbufRead Net.NetbufWrite Net.NetWorld.
From LCP Require Import Net.NetbufReadProofs Net.NetbufWriteProofs Net.NetTie.
Import ListNotations.
Local Open Scope nat_scope.

Definition GROW := N.to_nat RBUF_GROW.
Definition INIT := N.to_nat RBUF_INIT.
Definition WBUF := N.to_nat WBUFLEN.

Theorem C07_constants : RBUF_INIT = 4096%N /\ RBUF_GROW = 2%N /\ WBUFLEN = 4096%N.
Proof. exact (conj rbuf_init_is_4096 (conj rbuf_grow_is_2 wbuflen_is_4096)). Qed.
Print Assumptions C07_constants.

(* ---- M1 reader_window_inv.  A fresh reader satisfies the invariant
   bufpos <= datalen <= buflen = length buf, 0 < buflen ... *)
Theorem C07_reader_init_inv : forall a1 a2 R,
  nbr_init INIT a1 a2 = Some R -> rinv R /\ view R = [] /\ r_reading R = false /\ r_imm R = false.
Proof. exact (fun a1 a2 R => init_inv INIT a1 a2 R rbuf_init_pos). Qed.
Print Assumptions C07_reader_init_inv.

(* what netbuf_read_peek shows is [view R], the window [bufpos, datalen) of the buffer: every
   "view" in the statements below is what the application can observe *)
Theorem C07_peek_is_view : forall R, rinv R -> nbr_peek R = Ok (view R).
Proof. exact peek_view. Qed.
Print Assumptions C07_peek_is_view.

(* ... netbuf_read_wait keeps it for EVERY k (k >> 4096 included: sizes are unbounded naturals)
   and every outcome of its allocation / registrations, never faults, never asserts, does not
   change what the application sees, and any network_read it starts has its target range
   [datalen, datalen + max) exactly up to the end of the block with 0 < min <= max and
   min = k - (bytes already buffered)  (act_ok) *)
Theorem C07_reader_wait_ok : forall R k o,
  rinv R -> r_reading R = false -> r_imm R = false ->
  exists R' a, nbr_wait GROW R k o = Ok (R', a) /\ rinv R' /\ view R' = view R /\ act_ok R' k a.
Proof. exact (wait_ok_lemma GROW). Qed.
Print Assumptions C07_reader_wait_ok.

(* ---- M1 + M2 for histories: EVERY sequence of wait(k) / consume(j) / cancel / immediate event /
   completed read, as long as each respects the API rules of netbuf.h, C04 and C06-M1 in the
   state it meets (hist_ok): no Fault, no failed assert; the window invariant holds at the end
   (hence, the claim being about all histories, throughout); every network_read started is
   well-formed (reads_ok); and what the application can peek is exactly the unconsumed suffix of
   the abstract stream (refines), where the abstract stream (abs_step) grows by the first n bytes
   of the target range of each successfully completed read and nothing else.
   NOTE (F9, known finding): the abstract stream consists of the bytes of COMPLETED transport
   reads.  Bytes a network_read had received before it was cancelled by
   netbuf_read_wait_cancel are not in it - and are lost by the code; see
   C07_reader_cancel_partial_loss_refuted. *)
Theorem C07_reader_refines_stream : forall ops R s,
  rinv R -> refines R s -> hist_ok GROW R ops ->
  exists R', rrun GROW R ops = Ok R' /\ rinv R' /\
             refines R' (fold_left abs_step ops s) /\ reads_ok GROW R ops.
Proof. exact (reader_history_lemma GROW). Qed.
Print Assumptions C07_reader_refines_stream.

(* a wait for k reports success exactly when k unconsumed bytes are present: at once (immediate
   event) when they already are, otherwise through a network_read whose minimum makes them so.
   Converse direction ("no success before k bytes are present"): by [act_ok] in C07_reader_wait_ok
   the immediate event is registered only when k <= avail, and otherwise the network_read started
   has 0 < min with min + avail = k - fewer than k bytes are present while it is pending, its
   completion with n >= min (C06-M1) is the first moment k are, and completions with 0 / -1
   report status 1 / -1, never 0 (C07_read_eof_error). *)
Theorem C07_wait_immediate : forall R k o R1,
  rinv R -> r_reading R = false -> r_imm R = false ->
  nbr_wait GROW R k o = Ok (R1, Some WImm) ->
  k <= avail R /\ exists R2, nbr_callback_success R1 = Ok (R2, 0%Z) /\ view R2 = view R.
Proof. exact (wait_immediate_lemma GROW). Qed.
Print Assumptions C07_wait_immediate.

Theorem C07_wait_then_read : forall R k o R1 off max min slice n,
  rinv R -> r_reading R = false -> r_imm R = false ->
  nbr_wait GROW R k o = Ok (R1, Some (WRead off max min)) ->
  length slice = max -> (Z.of_nat min <= n <= Z.of_nat max)%Z ->
  exists R2, nbr_callback_read R1 slice n = Ok (R2, 0%Z) /\ rinv R2 /\ k <= avail R2 /\
             view R2 = view R ++ firstn (Z.to_nat n) slice.
Proof. exact (wait_then_done_lemma GROW). Qed.
Print Assumptions C07_wait_then_read.

(* EOF gives status 1, a transport error -1, and neither changes what is buffered *)
Theorem C07_read_eof_error : forall R slice lenread,
  rinv R -> r_reading R = true ->
  length slice = r_buflen R - r_datalen R -> (lenread <= Z.of_nat (length slice))%Z ->
  exists R' st, nbr_callback_read R slice lenread = Ok (R', st) /\ rinv R' /\
    r_reading R' = false /\ r_imm R' = r_imm R /\
    ((lenread < 0)%Z -> st = (-1)%Z /\ view R' = view R) /\
    (lenread = 0%Z -> st = 1%Z /\ view R' = view R) /\
    ((0 < lenread)%Z -> st = 0%Z /\ view R' = view R ++ firstn (Z.to_nat lenread) slice).
Proof. exact callback_read_ok_lemma. Qed.
Print Assumptions C07_read_eof_error.

(* F9: the strict reading (nothing lost although a wait was cancelled after a partial arrival)
   is false of the code; witness = corpus/net/cancel_partial_loss.case run on the composed model *)
Theorem C07_reader_cancel_partial_loss_refuted :
  last_peek f9_log = Some [6;7;8;9;10;11;12;13;14;15]%N /\ ~ strict_prefix_ok f9_sent f9_log.
Proof. exact reader_cancel_partial_loss_refuted_lemma. Qed.
Print Assumptions C07_reader_cancel_partial_loss_refuted.

(* Known finding, same mechanism without any cancel: bytes received inside ONE wait that then ends
   with end-of-stream (or an error) are not shown.  The peer sends 0,1,2 and closes while the
   application waits for 5: the reader's network_read received the 3 bytes (nb_received = 3), the
   wait callback reports status 1 with an empty view, and a later peek is empty too.  The strict
   reading of "exactly the bytes the peer sent up to the point where end-of-stream or an error is
   reported" is refuted; witness = corpus/net/eof_partial_loss.case on the composed model.
   (C07_read_eof_error above states the behaviour as it is: status 1 / -1, view unchanged.) *)
Theorem C07_reader_eof_partial_loss_refuted :
  nb_received eof_log = 3 /\ last_nrcb eof_log = Some (1%Z, []) /\ last_peek eof_log = Some [] /\
  ~ strict_eof_ok eof_sent eof_log.
Proof. exact reader_eof_partial_loss_refuted_lemma. Qed.
Print Assumptions C07_reader_eof_partial_loss_refuted.

(* ---- M3 writer_prefix + writer_total.  From a fresh writer, EVERY history of
   write / reserve / consume / completion (sizes 0 included, every allocation outcome, every
   completion value) that respects the API rules (whist_ok): no Fault and no failed assert
   (the zero-length abort of F3 is gone); no zero-length network_write; the buffers handed to
   network_write, concatenated in order, are a prefix of the accepted bytes, and together with
   the queue they are all of them while nothing failed; the fail callback fired exactly once
   iff the writer failed; the queue invariant [winv] holds at the end, so the per-operation
   theorems (C07_writer_failed_is_sticky) apply to the state reached. *)
Theorem C07_writer_prefix_total : forall ops W0,
  nbw_init true = Some W0 -> whist_ok WBUF W0 ops ->
  exists W starts acc nf,
    wrun WBUF W0 [] [] 0 ops = Ok (W, starts, acc, nf) /\
    Forall nonempty starts /\
    (exists rest, acc = concat starts ++ rest) /\
    (w_failed W = false -> acc = concat starts ++ queued (w_buffers W) /\ nf = 0) /\
    (w_failed W = true -> nf = 1) /\
    winv W.
Proof. exact (writer_history_lemma WBUF). Qed.
Print Assumptions C07_writer_prefix_total.

(* after the first failure: nothing more is handed to network_write, no second fail callback,
   netbuf_write_write returns 0 and changes nothing; the invariant and the failed flag are kept, so
   the statement applies again to W' (any number of operations after the failure) *)
Theorem C07_writer_failed_is_sticky : forall W op,
  winv W -> w_failed W = true -> wenv_ok W op ->
  exists W' rc, wstep WBUF W op = Ok (W', rc, []) /\ winv W' /\ w_failed W' = true /\
    match op with WoWrite _ _ _ _ => W' = W /\ rc = 0%Z | _ => True end.
Proof. exact (failed_is_sticky_inv_lemma WBUF). Qed.
Print Assumptions C07_writer_failed_is_sticky.

(* "the whole of it when the transport never fails", liveness half.  [thist_good]: every
   network_write the writer wants to start is accepted (netw = true) and every completion reports
   the whole length of the buffer it completes.  Then, from a fresh writer along every such
   history: the writer never fails, no fail callback, and whenever no write is in flight nothing
   is queued - every accepted byte has been handed to network_write (acc = concat starts).
   (With a write in flight the rest is queued behind it: C07_writer_prefix_total.) *)
Theorem C07_writer_drains : forall ops W0,
  nbw_init true = Some W0 -> whist_ok WBUF W0 ops -> thist_good WBUF W0 ops ->
  exists W starts acc nf,
    wrun WBUF W0 [] [] 0 ops = Ok (W, starts, acc, nf) /\
    w_failed W = false /\ nf = 0 /\
    (w_inflight W = false -> queued (w_buffers W) = [] /\ acc = concat starts).
Proof. exact (writer_drains_lemma WBUF). Qed.
Print Assumptions C07_writer_drains.

(* every completion belongs to the start it completes: writbuf compares the reported length with
   the length of THE buffer in flight, which is the last buffer handed to network_write.  With
   nd = [wrun_done] = number of completions so far that reported that whole length: exactly the
   first nd buffers handed over have been completed in full; if a write is in flight it is the
   (nd+1)-th and last one; with nothing in flight all were completed - unless the writer failed,
   which it did on the last one handed over, and nothing was handed over since ([paired]). *)
Theorem C07_writer_completions_paired : forall ops W0,
  nbw_init true = Some W0 -> whist_ok WBUF W0 ops ->
  exists W starts acc nf,
    wrun WBUF W0 [] [] 0 ops = Ok (W, starts, acc, nf) /\
    paired W starts (wrun_done WBUF W0 ops) /\
    wrun_done WBUF W0 ops <= length starts <= S (wrun_done WBUF W0 ops).
Proof. exact (writer_paired_lemma WBUF). Qed.
Print Assumptions C07_writer_completions_paired.

(* composition with C06-M2 WITHOUT an assumed shape of the wire: the first nd buffers were
   completed with their whole length, so (C06_write_exactly_once: the bytes handed to send are
   firstn n buf, n = the reported length) all their bytes went to send; of the one after them, if
   there is one (in flight, or failed), C06-M2 says some prefix p of it did.  That wire is a prefix
   of the bytes the writer accepted. *)
Theorem C07_wire_is_prefix_composed : forall ops W0,
  nbw_init true = Some W0 -> whist_ok WBUF W0 ops ->
  exists W starts acc nf,
    wrun WBUF W0 [] [] 0 ops = Ok (W, starts, acc, nf) /\
    let nd := wrun_done WBUF W0 ops in
    forall p q, (nd < length starts -> nth nd starts [] = p ++ q) ->
      exists rest, acc = (concat (firstn nd starts) ++ (if nd <? length starts then p else [])) ++ rest.
Proof. exact (writer_wire_prefix_lemma WBUF). Qed.
Print Assumptions C07_wire_is_prefix_composed.

(* the list fact used above, for ANY i: IF the wire has the shape "all buffers handed over before
   the i-th and a prefix p of the i-th, or all of them" (a premise here; C07_wire_is_prefix_composed
   derives it from the history with i = number of full completions) it is a prefix of the accepted
   bytes *)
Theorem C07_wire_is_prefix_of_accepted : forall (starts : list (list N)) acc rest i p q wire,
  acc = concat starts ++ rest ->
  (i < length starts /\ nth i starts [] = p ++ q /\ wire = concat (firstn i starts) ++ p) \/
  (wire = concat starts) ->
  exists rest', acc = wire ++ rest'.
Proof. exact wire_is_prefix_of_accepted_lemma. Qed.
Print Assumptions C07_wire_is_prefix_of_accepted.
