(* C19: AWS request signatures verify under an independent Signature Version 4.
   Only statements, each closed by [exact]; Print Assumptions beneath.

   The model (Aws/AwsSignModel.v) INTERPRETS the asprintf format strings, argument lists, strftime
   formats and buffer sizes, the time() error value, the SHA256_Buf / hexify / strdup argument lists
   and the HMAC chain regenerated from aws/aws_sign.c on every run (Gen/Repo_aws.v; the translator
   reads every statement of the five functions and refuses a source it cannot read), so these
   theorems are re-proved against the layouts the source has now.  Written by hand in the model: the
   order of the steps (the translator compares it), the parameter names, and the meaning of the
   accepted length expressions (strlen(x) = the string x; a declared 32-byte array = an HMAC output;
   `body ? bodylen : 0` = the body, or nothing when body is NULL).  The spec (Aws/SigV4Spec.v, Aws/AwsDoc.v) is the published
   SigV4 algorithm - including "an empty absolute path is canonicalised to '/'" - applied to the
   request the header file documents.  The theorems hold for ANY hash functions whose outputs are
   bytes (sha256, hmac are universally quantified; C01 is about the repository's own).

   DOMAIN.  t is the value time() returned.
   * 0 <= t < 253402300800 (1970-01-01T00:00:00Z .. 9999-12-31T23:59:59Z): the four functions
     succeed and return the SigV4 values (the first four theorems).
   * 253402300800 <= t <= gmtime_r_max: "%Y%m%d" needs 10 bytes, strftime returns 0 for date[9] and
     every function returns -1 / NULL (C19_far_future_rejected).
   * Not covered by a theorem (the model follows glibc there and the correspondence run samples it):
     t = -1 is time()'s error value (failure); other negative t down to year 1000 succeed with a
     well-formed timestamp; for years -999..999 glibc's unpadded %Y yields a SHORTER date
     ("9991231") and the functions succeed with a timestamp that is not of the form SigV4 requires;
     years <= -1000 fail like years >= 10000.  Outside [gmtime_r_min, gmtime_r_max] gmtime_r
     returns NULL, which aws_sign.c passes to strftime unchecked: no statement is made.
   * path: the documented request line is "<method> <path> HTTP/1.1", so a path begins with '/'
     (abs_path); for the empty path the C would sign "" where SigV4 signs "/". *)
From Coq Require Import NArith ZArith List.
From LCP Require Import Base.CheckedMem Aws.AwsBase Aws.SigV4Spec Aws.AwsDoc Aws.AwsSignModel Aws.AwsSignProofs.

Section AnyHash.
  Variable sha256 : bytes -> bytes.
  Variable hmac : bytes -> bytes -> bytes.
  Hypothesis sha_bytes : forall m, bytes_ok (sha256 m).
  Hypothesis hmac_bytes : forall k m, bytes_ok (hmac k m).

  (* S3 with headers: content hash = hex SHA-256 of the body (absent = empty); Authorization =
     SigV4 of the documented request at the returned timestamp; scope date = its first 8 chars *)
  Theorem C19_s3_headers :
    forall key_id key_secret region method bucket path body t,
    (0 <= t < 253402300800)%Z ->
    unreserved_str bucket = true -> abs_path path = true -> path_str path = true ->
    aws_sign_s3_headers_m sha256 hmac key_id key_secret region method bucket path body t =
    let dt := datetime_str (gmtime t) in
    let ca := doc_s3_headers sha256 hmac key_id key_secret region method bucket path body dt in
    Some (fst ca, dt, snd ca).
  Proof. exact (s3_headers_doc sha256 hmac sha_bytes hmac_bytes). Qed.

  Theorem C19_svc_headers :
    forall key_id key_secret region svc body t,
    (0 <= t < 253402300800)%Z ->
    unreserved_str svc = true -> unreserved_str region = true ->
    aws_sign_svc_headers_m sha256 hmac key_id key_secret region svc body t =
    let dt := datetime_str (gmtime t) in
    let ca := doc_svc_headers sha256 hmac key_id key_secret region svc body dt in
    Some (fst ca, dt, snd ca).
  Proof. exact (svc_headers_doc sha256 hmac sha_bytes hmac_bytes). Qed.

  Theorem C19_dynamodb_headers :
    forall key_id key_secret region op body t,
    (0 <= t < 253402300800)%Z ->
    unreserved_str region = true -> unreserved_str op = true ->
    aws_sign_dynamodb_headers_m sha256 hmac key_id key_secret region op body t =
    let dt := datetime_str (gmtime t) in
    let ca := doc_dynamodb_headers sha256 hmac key_id key_secret region op body dt in
    Some (fst ca, dt, snd ca).
  Proof. exact (dynamodb_headers_doc sha256 hmac sha_bytes hmac_bytes). Qed.

  Theorem C19_s3_querystr :
    forall key_id key_secret region method bucket path expiry t,
    (0 <= t < 253402300800)%Z ->
    unreserved_str key_id = true -> unreserved_str region = true ->
    unreserved_str bucket = true -> abs_path path = true -> path_str path = true ->
    aws_sign_s3_querystr_m sha256 hmac key_id key_secret region method bucket path expiry t =
    Some (doc_s3_querystr sha256 hmac key_id key_secret region method bucket path expiry
                          (datetime_str (gmtime t))).
  Proof. exact (s3_querystr_doc sha256 hmac sha_bytes hmac_bytes). Qed.

  (* from year 10000 on (as far as gmtime_r gives a result) every function fails, whatever the
     other arguments: the date no longer fits its 9-byte buffer and strftime returns 0 *)
  Theorem C19_far_future_rejected :
    forall t, (253402300800 <= t <= gmtime_r_max)%Z ->
    (forall key_id key_secret region method bucket path body,
       aws_sign_s3_headers_m sha256 hmac key_id key_secret region method bucket path body t = None) /\
    (forall key_id key_secret region svc body,
       aws_sign_svc_headers_m sha256 hmac key_id key_secret region svc body t = None) /\
    (forall key_id key_secret region op body,
       aws_sign_dynamodb_headers_m sha256 hmac key_id key_secret region op body t = None) /\
    (forall key_id key_secret region method bucket path expiry,
       aws_sign_s3_querystr_m sha256 hmac key_id key_secret region method bucket path expiry t = None).
  Proof. exact (far_future_rejected sha256 hmac). Qed.
End AnyHash.

Print Assumptions C19_s3_headers.
Print Assumptions C19_svc_headers.
Print Assumptions C19_dynamodb_headers.
Print Assumptions C19_s3_querystr.
Print Assumptions C19_far_future_rejected.
