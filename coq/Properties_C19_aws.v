(* C19: AWS request signatures verify under an independent Signature Version 4.
   Only statements, each closed by [exact]; Print Assumptions beneath.

   The model (Aws/AwsSignModel.v) INTERPRETS the asprintf format strings, argument lists, strftime
   formats and the HMAC chain regenerated from aws/aws_sign.c on every run (Gen/Repo_aws.v), so these
   theorems are re-proved against the layouts the source has now.  The spec (Aws/SigV4Spec.v,
   Aws/AwsDoc.v) is the published SigV4 algorithm applied to the request the header file documents.
   The theorems hold for ANY hash functions whose outputs are bytes; instantiated below / in
   Properties_C19_aws_inst.v with the repository's SHA-256 and HMAC-SHA256 models. *)
From Coq Require Import NArith ZArith List.
From LCP Require Import Base.CheckedMem Aws.AwsBase Aws.SigV4Spec Aws.AwsDoc Aws.AwsSignModel Aws.AwsSignProofs.

Section AnyHash.
  Variable sha256 : bytes -> bytes.
  Variable hmac : bytes -> bytes -> bytes.
  Hypothesis sha_bytes : forall m, bytes_ok (sha256 m).
  Hypothesis hmac_bytes : forall k m, bytes_ok (hmac k m).

  (* S3 with headers: content hash = hex SHA-256 of the body (absent = empty); Authorization =
     SigV4 of the documented request at the returned timestamp; scope date = its first 8 chars *)
  Theorem C19_s3_headers :
    forall key_id key_secret region method bucket path body t,
    unreserved_str bucket = true -> path_str path = true ->
    aws_sign_s3_headers_m sha256 hmac key_id key_secret region method bucket path body t =
    let dt := datetime_str (gmtime t) in
    let ca := doc_s3_headers sha256 hmac key_id key_secret region method bucket path body dt in
    Some (fst ca, dt, snd ca).
  Proof. exact (s3_headers_doc sha256 hmac sha_bytes hmac_bytes). Qed.

  Theorem C19_svc_headers :
    forall key_id key_secret region svc body t,
    unreserved_str svc = true -> unreserved_str region = true ->
    aws_sign_svc_headers_m sha256 hmac key_id key_secret region svc body t =
    let dt := datetime_str (gmtime t) in
    let ca := doc_svc_headers sha256 hmac key_id key_secret region svc body dt in
    Some (fst ca, dt, snd ca).
  Proof. exact (svc_headers_doc sha256 hmac sha_bytes hmac_bytes). Qed.

  Theorem C19_dynamodb_headers :
    forall key_id key_secret region op body t,
    unreserved_str region = true -> unreserved_str op = true ->
    aws_sign_dynamodb_headers_m sha256 hmac key_id key_secret region op body t =
    let dt := datetime_str (gmtime t) in
    let ca := doc_dynamodb_headers sha256 hmac key_id key_secret region op body dt in
    Some (fst ca, dt, snd ca).
  Proof. exact (dynamodb_headers_doc sha256 hmac sha_bytes hmac_bytes). Qed.

  Theorem C19_s3_querystr :
    forall key_id key_secret region method bucket path expiry t,
    unreserved_str key_id = true -> unreserved_str region = true ->
    unreserved_str bucket = true -> path_str path = true ->
    aws_sign_s3_querystr_m sha256 hmac key_id key_secret region method bucket path expiry t =
    Some (doc_s3_querystr sha256 hmac key_id key_secret region method bucket path expiry
                          (datetime_str (gmtime t))).
  Proof. exact (s3_querystr_doc sha256 hmac sha_bytes hmac_bytes). Qed.
End AnyHash.

Print Assumptions C19_s3_headers.
Print Assumptions C19_svc_headers.
Print Assumptions C19_dynamodb_headers.
Print Assumptions C19_s3_querystr.
