(* C08: the HTTP client (model of http/http.c as it is now, constants regenerated from the C) is
   memory-safe, assert-free, terminating, makes exactly one callback and hands out only bounded
   results - for EVERY server byte stream, EVERY segmentation of it (including EAGAIN rounds), EVERY
   way the connection ends (EOF, error, stall), EVERY body limit, HEAD or not, and EVERY initial
   geometry of the reader's buffer; and a well-formed response whose body is longer than the limit IS
   reported as bodylen = (size_t)(-1), body = NULL with its own status and headers.
   Only statements closed by [exact], with Print Assumptions.

   The hypotheses: [rdr_ok r0] - the reader starts in a state netbuf_read can be in
   (bufpos <= datalen <= buflen <= SSIZE_MAX, window = the unconsumed bytes; Example init_rdr_ok shows
   the state netbuf_read_init creates satisfies it) and [limit < 2^64] (it is a size_t).
   [repo_terminated] is the translator's reading of whether callback_chunkedheader NUL-terminates the
   chunk-size line; [stale] is the content of the allocation behind the data, irrelevant now.

   What "never Fault" covers.  The model reads the server's bytes through the window of the abstract
   reader (arrived, not yet consumed bytes; the netbuf area proves the real netbuf_read implements that
   window), so the header search, sgetline, findeol and the copies out of the window are in bounds by
   construction and their side conditions are the asserts (AssertFail).  Three accesses are NOT in
   bounds by construction and go through checked memory, i.e. the model answers Fault when they leave
   their object:
     - the object PARSENUM_EX reads in callback_chunkedheader (the window with the NUL written over the
       CR - or, for the old code, the window followed by the rest of the allocation): every byte is
       fetched with CheckedMem.rd;
     - addbody's memcpy(&body[bodylen], buf, buflen): Fault unless bodylen + buflen <= the new
       allocation size computed by the doubling/clamping code;
     - callback_readdata's read of H->chunked, which http_request2 does not initialise: Fault if no
       assignment has been made on the path.
   Allocation failure is NOT in this model: malloc/realloc/netbuf_read_wait/events succeed, so the
   die() paths are absent except the one the server can force (the wrapped header count, outcome
   Died, shown unreachable by C08_http_one_callback).  Behaviour under allocation failure is the
   subject of C14 (correspondence run with every allocation refused in turn). *)
From Coq Require Import NArith ZArith List.
From LCP Require Import Base.CheckedMem Gen.Repo_http Http.HttpStrto Http.HttpModel Http.HttpSpec Http.HttpSafe Http.HttpDecode Http.HttpRoundtrip Http.HttpOversize.
Import ListNotations.
Local Open Scope N_scope.

(* M1: never a read/write outside an object (incl. the chunk-size parse, now stopped by the NUL, the
   body buffer and the unwritten `chunked' field), never a failed assert (sgetline, the line count,
   bufpos + 2 == headlen, addbody, netbuf_read_consume, network_read's buffer asserts) *)
Theorem C08_http_never_faults :
  forall stale r0 limit ishead net, rdr_ok r0 -> limit < two64 ->
    http_response_run repo_terminated stale r0 limit ishead net <> Fault /\
    http_response_run repo_terminated stale r0 limit ishead net <> AssertFail.
Proof. exact http_never_faults. Qed.
Print Assumptions C08_http_never_faults.

(* termination: the fuel computed from the script (bytes + segments + 2) is never exhausted *)
Theorem C08_http_terminates :
  forall stale r0 limit ishead net, rdr_ok r0 -> limit < two64 ->
    http_response_run repo_terminated stale r0 limit ishead net <> OutOfFuel.
Proof. exact http_terminates. Qed.
Print Assumptions C08_http_terminates.

(* M2: exactly one callback; the only alternative is a request still pending on a connection that
   has stalled (never die(), never zero or two callbacks) *)
Theorem C08_http_one_callback :
  forall stale r0 limit ishead net, rdr_ok r0 -> limit < two64 ->
    (exists c, http_response_run repo_terminated stale r0 limit ishead net = Ok (Done [c])) \/
    (http_response_run repo_terminated stale r0 limit ishead net = Ok Waiting /\ n_end net = EndStall).
Proof. exact http_one_callback. Qed.
Print Assumptions C08_http_one_callback.

Theorem C08_http_one_callback_when_stream_ends :
  forall stale r0 limit ishead net, rdr_ok r0 -> limit < two64 -> n_end net <> EndStall ->
    exists c, http_response_run repo_terminated stale r0 limit ishead net = Ok (Done [c]).
Proof. exact http_one_callback_when_stream_ends. Qed.
Print Assumptions C08_http_one_callback_when_stream_ends.

(* M3: whatever is handed to the caller satisfies the spec predicate HttpSpec.cb_ok ... *)
Theorem C08_http_result_bounds :
  forall stale r0 limit ishead net cbs, rdr_ok r0 -> limit < two64 ->
    http_response_run repo_terminated stale r0 limit ishead net = Ok (Done cbs) ->
    forall c, In c cbs -> cb_ok limit c = true.
Proof. exact http_result_bounds. Qed.
Print Assumptions C08_http_result_bounds.

(* ... which says: status in 100..599, and either a body of exactly bodylen <= limit bytes (NULL
   pointer iff bodylen = 0) or bodylen = (size_t)(-1) with no buffer *)
Theorem C08_cb_ok_meaning :
  forall limit st hs bnull blen body,
    cb_ok limit (CbResp st hs bnull blen body) = true ->
    (100 <= st <= 599)%Z /\
    ((blen <= limit /\ lenN body = blen /\ (bnull = true <-> blen = 0)) \/
     (blen = size_max /\ bnull = true /\ body = [])).
Proof. exact cb_ok_spelled. Qed.
Print Assumptions C08_cb_ok_meaning.

(* M3, the oversize clause as an OUTCOME (C08_http_result_bounds only bounds the shape): for every
   well-formed response r (HttpSpec.wf_response, the same objects as in C09) whose body is longer than
   the limit, every segmentation [segs] of the rendered bytes (empty segments = EAGAIN rounds), every
   reader state holding a prefix of them, and EVERY ending [e] of the connection: exactly one
   callback, and it is oversized r.  Together with C09_decode_wellformed (body <= limit) no model that
   answered callback(NULL) or handed out a truncated body could satisfy both.
   The three `toobig' call sites of http.c are the three framings: get_body_gotclen (Content-Length
   above the limit, reported from the header block), callback_chunkedheader (the chunk-size line whose
   chunk would cross the limit, the earlier chunks being already stored), callback_read_toeof
   (buffered + arrived data above the limit).  Non-trivial instances, computed: Examples ex_big_hyps,
   ex_clen_oversized, ex_chunked_oversized (limit = body - 1, crossing in the 2nd chunk, detection at
   the size line), ex_close_oversized (HttpOversize.v). *)
Theorem C08_oversized_body_reported :
  forall stale r0 limit ishead r segs e,
    wf_response ishead r = true -> limit < lenN (resp_body r) -> limit < two64 ->
    rdr_ok r0 -> r_win r0 ++ concat segs = render r ->
    http_response_run repo_terminated stale r0 limit ishead (mkNet segs e) = Ok (Done [oversized r]).
Proof. exact oversized_body_reported. Qed.
Print Assumptions C08_oversized_body_reported.

(* what oversized r is: the final status, the (name, value) pairs of the final header block in order
   (framing header included), body pointer NULL, bodylen = SIZE_MAX = (size_t)(-1), no bytes *)
Theorem C08_oversized_meaning :
  forall r,
    oversized r = CbResp (Z.of_N (m_status (p_final r)))
                         (map (fun f => (f_name f, f_value f)) (final_fields r)) true size_max [].
Proof. exact oversized_meaning. Qed.
Print Assumptions C08_oversized_meaning.

(* the three framings spelled out, whole response in one read into a fresh reader, any ending *)
Theorem C08_oversized_clen :
  forall stale limit ishead r pos ds e,
    wf_response ishead r = true -> p_framing r = FrClen pos ds -> limit < lenN (p_body r) ->
    http_response_run repo_terminated stale init_rdr limit ishead (mkNet [render r] e)
    = Ok (Done [CbResp (Z.of_N (m_status (p_final r))) (map nv (final_fields r)) true size_max []]).
Proof. exact oversized_clen. Qed.
Print Assumptions C08_oversized_clen.

Theorem C08_oversized_chunked :
  forall stale limit ishead r pos cs ld le tr e,
    wf_response ishead r = true -> p_framing r = FrChunked pos cs ld le tr ->
    limit < lenN (concat (map c_data cs)) ->
    http_response_run repo_terminated stale init_rdr limit ishead (mkNet [render r] e)
    = Ok (Done [CbResp (Z.of_N (m_status (p_final r))) (map nv (final_fields r)) true size_max []]).
Proof. exact oversized_chunked. Qed.
Print Assumptions C08_oversized_chunked.

Theorem C08_oversized_close :
  forall stale limit ishead r e,
    wf_response ishead r = true -> p_framing r = FrClose -> limit < lenN (p_body r) -> limit < two64 ->
    http_response_run repo_terminated stale init_rdr limit ishead (mkNet [render r] e)
    = Ok (Done [CbResp (Z.of_N (m_status (p_final r))) (map nv (final_fields r)) true size_max []]).
Proof. exact oversized_close. Qed.
Print Assumptions C08_oversized_close.

(* both sides of the limit in one statement: whatever the limit, a well-formed response produces exactly
   the callback HttpSpec.expect_limited limit r = if |body| <= limit then expect r else oversized r
   (a body delimited by the close needs the EOF to be complete - only when it is within the limit) *)
Theorem C08_limit_respected :
  forall stale r0 limit ishead r segs e,
    wf_response ishead r = true -> limit < two64 ->
    rdr_ok r0 -> r_win r0 ++ concat segs = render r ->
    (p_framing r = FrClose -> lenN (resp_body r) <= limit -> e = EndEof) ->
    http_response_run repo_terminated stale r0 limit ishead (mkNet segs e)
    = Ok (Done [expect_limited limit r]).
Proof. exact limit_respected. Qed.
Print Assumptions C08_limit_respected.

(* regression for finding F2 (repaired): the same step function WITHOUT the NUL termination reads
   past the reader's allocation on "headers, CRLF, blanks up to offset 4096" *)
Theorem C08_old_chunkline_parse_overread :
  http_response_run false 190 init_rdr 100 false (mkNet [f2_witness] EndEof) = Fault.
Proof. exact f2_old_code_overread. Qed.
Print Assumptions C08_old_chunkline_parse_overread.
