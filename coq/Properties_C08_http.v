(* C08: the HTTP client (model of http/http.c as it is now, constants regenerated from the C) is
   memory-safe, assert-free, terminating, makes exactly one callback and hands out only bounded
   results - for EVERY server byte stream, EVERY segmentation of it (including EAGAIN rounds), EVERY
   way the connection ends (EOF, error, stall), EVERY body limit, HEAD or not, and EVERY initial
   geometry of the reader's buffer.
   Only statements closed by [exact], with Print Assumptions.

   The hypotheses: [rdr_ok r0] - the reader starts in a state netbuf_read can be in
   (bufpos <= datalen <= buflen <= SSIZE_MAX, window = the unconsumed bytes; Example init_rdr_ok shows
   the state netbuf_read_init creates satisfies it) and [limit < 2^64] (it is a size_t).
   [repo_terminated] is the translator's reading of whether callback_chunkedheader NUL-terminates the
   chunk-size line; [stale] is the content of the allocation behind the data, irrelevant now. *)
From Coq Require Import NArith ZArith List.
From LCP Require Import Base.CheckedMem Gen.Repo_http Http.HttpStrto Http.HttpModel Http.HttpSpec Http.HttpSafe.
Import ListNotations.
Local Open Scope N_scope.

(* M1: never a read/write outside an object (incl. the chunk-size parse, now stopped by the NUL, the
   body buffer and the unwritten `chunked' field), never a failed assert (sgetline, the line count,
   bufpos + 2 == headlen, addbody, netbuf_read_consume, network_read's buffer asserts) *)
Theorem C08_http_never_faults :
  forall stale r0 limit ishead net, rdr_ok r0 -> limit < two64 ->
    http_response_run repo_terminated stale r0 limit ishead net <> Fault /\
    http_response_run repo_terminated stale r0 limit ishead net <> AssertFail.
Proof. exact http_never_faults. Qed.
Print Assumptions C08_http_never_faults.

(* termination: the fuel computed from the script (bytes + segments + 2) is never exhausted *)
Theorem C08_http_terminates :
  forall stale r0 limit ishead net, rdr_ok r0 -> limit < two64 ->
    http_response_run repo_terminated stale r0 limit ishead net <> OutOfFuel.
Proof. exact http_terminates. Qed.
Print Assumptions C08_http_terminates.

(* M2: exactly one callback; the only alternative is a request still pending on a connection that
   has stalled (never die(), never zero or two callbacks) *)
Theorem C08_http_one_callback :
  forall stale r0 limit ishead net, rdr_ok r0 -> limit < two64 ->
    (exists c, http_response_run repo_terminated stale r0 limit ishead net = Ok (Done [c])) \/
    (http_response_run repo_terminated stale r0 limit ishead net = Ok Waiting /\ n_end net = EndStall).
Proof. exact http_one_callback. Qed.
Print Assumptions C08_http_one_callback.

Theorem C08_http_one_callback_when_stream_ends :
  forall stale r0 limit ishead net, rdr_ok r0 -> limit < two64 -> n_end net <> EndStall ->
    exists c, http_response_run repo_terminated stale r0 limit ishead net = Ok (Done [c]).
Proof. exact http_one_callback_when_stream_ends. Qed.
Print Assumptions C08_http_one_callback_when_stream_ends.

(* M3: whatever is handed to the caller satisfies the spec predicate HttpSpec.cb_ok ... *)
Theorem C08_http_result_bounds :
  forall stale r0 limit ishead net cbs, rdr_ok r0 -> limit < two64 ->
    http_response_run repo_terminated stale r0 limit ishead net = Ok (Done cbs) ->
    forall c, In c cbs -> cb_ok limit c = true.
Proof. exact http_result_bounds. Qed.
Print Assumptions C08_http_result_bounds.

(* ... which says: status in 100..599, and either a body of exactly bodylen <= limit bytes (NULL
   pointer iff bodylen = 0) or bodylen = (size_t)(-1) with no buffer *)
Theorem C08_cb_ok_meaning :
  forall limit st hs bnull blen body,
    cb_ok limit (CbResp st hs bnull blen body) = true ->
    (100 <= st <= 599)%Z /\
    ((blen <= limit /\ lenN body = blen /\ (bnull = true <-> blen = 0)) \/
     (blen = size_max /\ bnull = true /\ body = [])).
Proof. exact cb_ok_spelled. Qed.
Print Assumptions C08_cb_ok_meaning.

(* regression for finding F2 (repaired): the same step function WITHOUT the NUL termination reads
   past the reader's allocation on "headers, CRLF, blanks up to offset 4096" *)
Theorem C08_old_chunkline_parse_overread :
  http_response_run false 190 init_rdr 100 false (mkNet [f2_witness] EndEof) = Fault.
Proof. exact f2_old_code_overread. Qed.
Print Assumptions C08_old_chunkline_parse_overread.
