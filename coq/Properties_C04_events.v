(* C04 - event loop: a callback runs at most once, only while registered, only when due.
   Statements only; proofs are in Events/EventsInv.v (model) and Events/EventsSpecProofs.v (spec).

   run_case p xs pl cl fuel : the trace the model of events/events*.c (EventsModel.v, constants
   regenerated from the C text in Gen/Repo_events.v) emits for the program p (what every callback
   does at each of its invocations), the external call sequence xs, the poll answers pl and the
   clock readings cl.  Hypotheses: timer timeouts and clock readings are normalised timevals
   (tv_usec < 1000000), as monoclock_get delivers and events_timer_register expects.
   The theorems hold for every fuel; when the fuel is too small the model returns OutOfFuel and
   there is no trace to speak about (Events/EventsExamples.v shows a run that returns a trace in
   which all three kinds fire, one descriptor carries both directions and a callback cancels the
   descriptor under the scan cursor). *)
From Coq Require Import NArith ZArith List.
From LCP Require Import Base.CheckedMem Events.EventsTrace Events.EventsSpec Events.EventsModel Events.EventsSpecProofs Events.EventsInv Events.EventsExamples.
Import ListNotations.

(* the inductive invariant EvInv (Appendix B) in its consequence form: the specification's
   checker accepts every trace of the model *)
Theorem C04_model_traces_accepted :
  forall p xs pl cl fuel tr, runs_to p xs pl cl fuel tr -> check_c04 tr = true.
Proof. exact runs_to_accepted_all. Qed.
Print Assumptions C04_model_traces_accepted.

(* the checker is sound for the logical statement of C04 (used when it is run on the trace of
   the implementation) *)
Theorem C04_check_sound : forall t, check_c04 t = true -> C04_holds t.
Proof. exact check_c04_sound. Qed.
Print Assumptions C04_check_sound.

(* M1: no registration id occurs twice under Invoke *)
Theorem C04_invoke_at_most_once :
  forall p xs pl cl fuel tr, runs_to p xs pl cl fuel tr -> invoke_at_most_once tr.
Proof. exact runs_to_once. Qed.
Print Assumptions C04_invoke_at_most_once.

(* M2: every Invoke r is preceded by Register r with no Cancel r and no earlier Invoke r *)
Theorem C04_invoke_only_while_registered :
  forall p xs pl cl fuel tr, runs_to p xs pl cl fuel tr -> invoke_only_while_registered tr.
Proof. exact runs_to_registered. Qed.
Print Assumptions C04_invoke_only_while_registered.

(* M2, second half: EEXIST is reported only while a registration for that descriptor and
   direction is live (so after it fired or was cancelled it can be made again), and a cancel is
   refused only when there is none *)
Theorem C04_reregistrable :
  forall p xs pl cl fuel tr, runs_to p xs pl cl fuel tr -> reregistrable tr.
Proof. exact runs_to_rereg. Qed.
Print Assumptions C04_reregistrable.

(* M3: a descriptor callback runs only if a poll issued after its registration reported that
   direction, or the latest poll reported ERR/HUP for the descriptor *)
Theorem C04_socket_invoke_justified :
  forall p xs pl cl fuel tr, runs_to p xs pl cl fuel tr -> socket_invoke_justified tr.
Proof. exact runs_to_socket. Qed.
Print Assumptions C04_socket_invoke_justified.

(* M4: at the Invoke of a timer the latest clock reading is at or after (reading at its
   registration or latest reset) + timeout.  No monotonicity of the readings is needed. *)
Theorem C04_timer_not_early :
  forall p xs pl cl fuel tr, runs_to p xs pl cl fuel tr -> timer_not_early tr.
Proof. exact runs_to_timer. Qed.
Print Assumptions C04_timer_not_early.
