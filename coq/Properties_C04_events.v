(* C04 - event loop: a callback runs at most once, only while registered, only when due.
   Statements only; proofs are in Events/EventsInv.v (model) and Events/EventsSpecProofs.v (spec).

   run_case p xs pl cl fuel : the trace the model of events/events*.c (EventsModel.v, constants
   regenerated from the C text in Gen/Repo_events.v) emits for the program p (what every callback
   does at each of its invocations), the external call sequence xs, the poll answers pl and the
   clock readings cl.  Hypotheses: timer timeouts and clock readings are normalised timevals
   (tv_usec < 1000000), as monoclock_get delivers and events_timer_register expects.
   The theorems hold for every fuel; when the fuel is too small the model returns OutOfFuel and
   there is no trace to speak about (Events/EventsExamples.v shows a run that returns a trace in
   which all three kinds fire, one descriptor carries both directions and a callback cancels the
   descriptor under the scan cursor).

   run_case has four outcomes: Ok tr; OutOfFuel (the fuel of the dispatcher loops ran out); Fault
   (the model indexed outside one of its arrays - S[], fds[], heads[], the heap - or followed a
   missing pointer: pollpos = -1 used as an index, a timer handle that is not in the heap,
   TAILQ_FIRST of an empty queue); AssertFail (an assert of the C failed).  The theorems up to
   C04_timer_not_early speak about Ok only; the last five theorems of this file are about the
   other outcomes (proofs in Events/EventsProgress.v: a structural invariant - 32 queue heads,
   minq <= 32, N1-N5 of events_network.c and nfds <= fds_alloc, every timer handle the client
   believes live is in the heap - holds initially, is preserved by every operation and excludes
   every Fault and two of growpollfd's three asserts). *)
From Coq Require Import NArith ZArith List.
From LCP Require Import Base.CheckedMem Events.EventsTrace Events.EventsSpec Events.EventsModel Events.EventsSpecProofs Events.EventsInv Events.EventsExamples Events.EventsProgress.
Import ListNotations.

(* the inductive invariant EvInv (Appendix B) in its consequence form: the specification's
   checker accepts every trace of the model *)
Theorem C04_model_traces_accepted :
  forall p xs pl cl fuel tr, runs_to p xs pl cl fuel tr -> check_c04 tr = true.
Proof. exact runs_to_accepted_all. Qed.
Print Assumptions C04_model_traces_accepted.

(* the checker is sound for the logical statement of C04 (used when it is run on the trace of
   the implementation) *)
Theorem C04_check_sound : forall t, check_c04 t = true -> C04_holds t.
Proof. exact check_c04_sound. Qed.
Print Assumptions C04_check_sound.

(* M1: no registration id occurs twice under Invoke *)
Theorem C04_invoke_at_most_once :
  forall p xs pl cl fuel tr, runs_to p xs pl cl fuel tr -> invoke_at_most_once tr.
Proof. exact runs_to_once. Qed.
Print Assumptions C04_invoke_at_most_once.

(* M2: every Invoke r is preceded by Register r with no Cancel r and no earlier Invoke r *)
Theorem C04_invoke_only_while_registered :
  forall p xs pl cl fuel tr, runs_to p xs pl cl fuel tr -> invoke_only_while_registered tr.
Proof. exact runs_to_registered. Qed.
Print Assumptions C04_invoke_only_while_registered.

(* M2, second half: EEXIST is reported only while a registration for that descriptor and
   direction is live (so after it fired or was cancelled it can be made again), and a cancel is
   refused only when there is none *)
Theorem C04_reregistrable :
  forall p xs pl cl fuel tr, runs_to p xs pl cl fuel tr -> reregistrable tr.
Proof. exact runs_to_rereg. Qed.
Print Assumptions C04_reregistrable.

(* M3: a descriptor callback runs only if a poll issued after its registration reported that
   direction, or the latest poll reported ERR/HUP for the descriptor *)
Theorem C04_socket_invoke_justified :
  forall p xs pl cl fuel tr, runs_to p xs pl cl fuel tr -> socket_invoke_justified tr.
Proof. exact runs_to_socket. Qed.
Print Assumptions C04_socket_invoke_justified.

(* M4: at the Invoke of a timer the latest clock reading is at or after (reading at its
   registration or latest reset) + timeout.  No monotonicity of the readings is needed. *)
Theorem C04_timer_not_early :
  forall p xs pl cl fuel tr, runs_to p xs pl cl fuel tr -> timer_not_early tr.
Proof. exact runs_to_timer. Qed.
Print Assumptions C04_timer_not_early.

(* ---------------------------------------------------------------- runs that return no trace *)

(* No run of the model faults: for EVERY program, external call sequence, poll schedule, clock
   script and fuel - no normalisation hypothesis at all (timevals play no role in memory safety) -
   run_case never answers Fault.  So the antecedent `run_case ... = Ok tr` of the theorems above
   fails only through OutOfFuel or through one of the asserts characterised next. *)
Theorem C04_model_never_faults :
  forall p xs pl cl fuel, run_case p xs pl cl fuel <> Fault.
Proof. exact model_never_faults. Qed.
Print Assumptions C04_model_never_faults.

(* AssertFail is answered only for arguments outside the documented contract of the API.
   op_safe o (prog_safe p: every operation of every script of p; xop_safe: the external calls):
       events_immediate_register   prio < 32         (PRIO_LIMIT, regenerated from the C's assert)
       events_network_register     fd < INT_MAX      (growpollfd: assert(fd < INT_MAX); a negative
                                                      fd is not an assert, it is reported as -1)
   Under it every run returns a trace or runs out of fuel.  In particular growpollfd's other two
   asserts (pollpos == -1 and nfds < fds_alloc) never fail. *)
Theorem C04_model_asserts_only_outside_contract :
  forall p xs pl cl fuel, prog_safe p -> Forall xop_safe xs ->
    (exists tr, run_case p xs pl cl fuel = Ok tr) \/ run_case p xs pl cl fuel = OutOfFuel.
Proof. exact model_no_assert. Qed.
Print Assumptions C04_model_asserts_only_outside_contract.

(* ... hence with the hypotheses of the theorems above (runs_to = prog_norm p, Forall xop_norm xs,
   normalised clock readings, run_case = Ok tr) and the contract: the run satisfies runs_to, or
   the fuel was too small.  Non-vacuity: EventsExamples.ex_hyps + EventsProgress.ex_safe. *)
Theorem C04_model_run_or_out_of_fuel :
  forall p xs pl cl fuel,
    prog_norm p -> Forall xop_norm xs -> Forall (fun t => tv_norm t = true) cl ->
    prog_safe p -> Forall xop_safe xs ->
    (exists tr, runs_to p xs pl cl fuel tr) \/ run_case p xs pl cl fuel = OutOfFuel.
Proof. exact runs_to_or_out_of_fuel. Qed.
Print Assumptions C04_model_run_or_out_of_fuel.

(* the two asserts are real and sit exactly at these limits: priority 32 asserts (also when the
   call's allocation would have been refused: the assert comes first in the C), priority 31 does
   not; growpollfd asserts for every descriptor >= INT_MAX that reaches it *)
Theorem C04_assert_at_priority_limit :
  run_case [] [XOp (OImmReg 0 32 0 0)] [] [] 5 = AssertFail /\
  run_case [] [XOp (OImmReg 0 32 0 1)] [] [] 5 = AssertFail /\
  exists tr, run_case [] [XOp (OImmReg 0 31 0 0)] [] [] 5 = Ok tr.
Proof. exact ex_assert_prio. Qed.
Print Assumptions C04_assert_at_priority_limit.

Theorem C04_assert_at_descriptor_limit :
  forall fd n k, nth_error (socks n) fd = Some k -> pollpos k = None -> alloc_ok n ->
    (C_INT_MAX <= Z.of_nat fd)%Z -> growpollfd fd n = AssertFail.
Proof. exact growpollfd_int_max. Qed.
Print Assumptions C04_assert_at_descriptor_limit.
