(* Lane bookkeeping for alg/sha256_sse2.c with the immediates the file has today (sse2_std):
   what each helper of the model does to the four lanes of its operands - mm_bswap_epi32 reverses
   the bytes of every lane; SPAN_ONE_THREE; s0_128 = sigma0 on every lane; s1_128_low / s1_128_high
   = sigma1 of two lanes placed in the low / high half (the 64-bit shifts of a doubled lane being
   32-bit rotations); and G3: MSG4 computes the next four words of the FIPS 180-4 schedule, lanes
   2 and 3 using the freshly computed lanes 0 and 1. *)
From Coq Require Import Arith NArith List Lia.
From LCP Require Import Alg.Words Alg.WordsProofs Alg.Sha256Spec Alg.Sha256Model Alg.Sha256Proofs
  Accel.X86Vec Accel.Sse2Sha Accel.Sse2ShaBits.
Import ListNotations.
Local Open Scope N_scope.

(* the constants of sha256_sse2.c as of this writing, round-constant table left open *)
Definition sse2_std (K : list N) : sse2_consts :=
  {| k_Krnd := K; k_rotw := 32; k_S0 := [2; 13; 22]; k_S1 := [6; 11; 25];
     k_bsw_sll := 8; k_bsw_srl := 8; k_bsw_lo := 177; k_bsw_hi := 177;
     k_rot32w := 32; k_s0_rots := [7; 18]; k_s0_shr := 3;
     k_s1h := (80, [17; 19], 10, 136, 8);
     k_s1l := (250, [17; 19], 10, 136, 8);
     k_span := 57;
     k_loads := [(0, 0, 0); (1, 16, 4); (2, 32, 8); (3, 48, 12)];
     k_copy := 32; k_bound := 64; k_step := 16;
     k_rndr := [0; 1; 2; 3; 4; 5; 6; 7; 8; 9; 10; 11; 12; 13; 14; 15];
     k_break := 48;
     k_calls := [(0, 0, 1, 2, 3, 16); (1, 1, 2, 3, 0, 20); (2, 2, 3, 0, 1, 24); (3, 3, 0, 1, 2, 28)];
     k_final := 8 |}.

Definition wfv (v : v128) : Prop := wf32 (ln0 v) /\ wf32 (ln1 v) /\ wf32 (ln2 v) /\ wf32 (ln3 v).

Section Lanes.
  Variable K : list N.
  Let C := sse2_std K.

  (* ---- byte shifts by 8 ---- *)
  Lemma srli_si128_8 a b c d : wf32 c -> wf32 d -> mm_srli_si128 (V4 a b c d) 8 = V4 c d 0 0.
  Proof.
    intros Hc Hd.
    change (mm_srli_si128 (V4 a b c d) 8) with
      (V4 (le32dec4 (byte0 c) (byte0 (N.shiftr c 8)) (byte0 (N.shiftr c 16)) (byte0 (N.shiftr c 24)))
          (le32dec4 (byte0 d) (byte0 (N.shiftr d 8)) (byte0 (N.shiftr d 16)) (byte0 (N.shiftr d 24)))
          0 0).
    rewrite !le32dec4_le32enc by assumption. reflexivity.
  Qed.
  Lemma slli_si128_8 a b c d : wf32 a -> wf32 b -> mm_slli_si128 (V4 a b c d) 8 = V4 0 0 a b.
  Proof.
    intros Ha Hb.
    change (mm_slli_si128 (V4 a b c d) 8) with
      (V4 0 0
          (le32dec4 (byte0 a) (byte0 (N.shiftr a 8)) (byte0 (N.shiftr a 16)) (byte0 (N.shiftr a 24)))
          (le32dec4 (byte0 b) (byte0 (N.shiftr b 8)) (byte0 (N.shiftr b 16)) (byte0 (N.shiftr b 24)))).
    rewrite !le32dec4_le32enc by assumption. reflexivity.
  Qed.

  (* ---- mm_bswap_epi32 ---- *)
  Lemma bswap_lanes a b c d :
    mm_bswap_epi32 C (V4 a b c d) = V4 (bswap_lane a) (bswap_lane b) (bswap_lane c) (bswap_lane d).
  Proof.
    unfold bswap_lane.
    set (f := fun x => N.lor (join16 (sll16 8 (lo16 x)) (sll16 8 (hi16 x)))
                             (join16 (srl16 8 (lo16 x)) (srl16 8 (hi16 x)))).
    change (mm_bswap_epi32 C (V4 a b c d)) with
      (V4 (join16 (lo16 (join16 (hi16 (f a)) (lo16 (f a)))) (hi16 (join16 (hi16 (f a)) (lo16 (f a)))))
          (join16 (lo16 (join16 (hi16 (f b)) (lo16 (f b)))) (hi16 (join16 (hi16 (f b)) (lo16 (f b)))))
          (join16 (hi16 (join16 (lo16 (f c)) (hi16 (f c)))) (lo16 (join16 (lo16 (f c)) (hi16 (f c)))))
          (join16 (hi16 (join16 (lo16 (f d)) (hi16 (f d)))) (lo16 (join16 (lo16 (f d)) (hi16 (f d)))))).
    rewrite !join16_lo_hi. reflexivity.
  Qed.

  Lemma bswap_bytes p0 p1 p2 p3 p4 p5 p6 p7 p8 p9 p10 p11 p12 p13 p14 p15 :
    wf8 p0 -> wf8 p1 -> wf8 p2 -> wf8 p3 -> wf8 p4 -> wf8 p5 -> wf8 p6 -> wf8 p7 ->
    wf8 p8 -> wf8 p9 -> wf8 p10 -> wf8 p11 -> wf8 p12 -> wf8 p13 -> wf8 p14 -> wf8 p15 ->
    mm_bswap_epi32 C (V4 (le32dec4 p0 p1 p2 p3) (le32dec4 p4 p5 p6 p7)
                         (le32dec4 p8 p9 p10 p11) (le32dec4 p12 p13 p14 p15)) =
    V4 (be32dec4 p0 p1 p2 p3) (be32dec4 p4 p5 p6 p7) (be32dec4 p8 p9 p10 p11) (be32dec4 p12 p13 p14 p15).
  Proof. intros. rewrite bswap_lanes, !bswap_lane_bytes by assumption. reflexivity. Qed.

  (* ---- SPAN_ONE_THREE ---- *)
  Lemma span_lanes a0 a1 a2 a3 b0 b1 b2 b3 :
    SPAN_ONE_THREE C (V4 a0 a1 a2 a3) (V4 b0 b1 b2 b3) = V4 a1 a2 a3 b0.
  Proof. reflexivity. Qed.

  (* ---- s0_128: ROTR32 is literally the rotation of Words.v ---- *)
  Lemma s0_128_lanes a b c d :
    s0_128 C (V4 a b c d) = V4 (f256_sigma0 a) (f256_sigma0 b) (f256_sigma0 c) (f256_sigma0 d).
  Proof. reflexivity. Qed.

  (* ---- s1: sigma1 of a lane from the doubled lane ---- *)
  Definition s1_via64 (x : N) : N :=
    N.lxor (N.lxor (w32 (N.shiftr (quad x x) 17)) (w32 (N.shiftr (quad x x) 19))) (N.shiftr x 10).
  Lemma s1_via64_eq x : wf32 x -> s1_via64 x = f256_sigma1 x.
  Proof.
    intros H. unfold s1_via64, f256_sigma1, shr.
    rewrite !quad_shift_rotr by (try exact H; lia). reflexivity.
  Qed.
  Lemma wf32_sigma1 x : wf32 x -> wf32 (f256_sigma1 x).
  Proof.
    intros H. unfold f256_sigma1, shr.
    repeat first [apply wf32_lxor | apply wf32_rotr32 | apply wf32_shiftr]; exact H.
  Qed.
  Lemma wf32_sigma0 x : wf32 x -> wf32 (f256_sigma0 x).
  Proof.
    intros H. unfold f256_sigma0, shr.
    repeat first [apply wf32_lxor | apply wf32_rotr32 | apply wf32_shiftr]; exact H.
  Qed.

  Lemma s1_128_low_lanes a b c d : wf32 c -> wf32 d ->
    s1_128_low C (V4 a b c d) = V4 (f256_sigma1 c) (f256_sigma1 d) 0 0.
  Proof.
    intros Hc Hd.
    (* the junk lanes 1 and 3 are dropped by the second shuffle before anything reads them *)
    change (s1_128_low C (V4 a b c d)) with
      (mm_srli_si128 (V4 (s1_via64 c) (s1_via64 d) (s1_via64 c) (s1_via64 d)) 8).
    rewrite !s1_via64_eq by assumption.
    apply srli_si128_8; apply wf32_sigma1; assumption.
  Qed.
  Lemma s1_128_high_lanes a b c d : wf32 a -> wf32 b ->
    s1_128_high C (V4 a b c d) = V4 0 0 (f256_sigma1 a) (f256_sigma1 b).
  Proof.
    intros Ha Hb.
    change (s1_128_high C (V4 a b c d)) with
      (mm_slli_si128 (V4 (s1_via64 a) (s1_via64 b) (s1_via64 a) (s1_via64 b)) 8).
    rewrite !s1_via64_eq by assumption.
    apply slli_si128_8; apply wf32_sigma1; assumption.
  Qed.

  Lemma add_lanes a0 a1 a2 a3 b0 b1 b2 b3 :
    mm_add_epi32 (V4 a0 a1 a2 a3) (V4 b0 b1 b2 b3) = V4 (add32 a0 b0) (add32 a1 b1) (add32 a2 b2) (add32 a3 b3).
  Proof. reflexivity. Qed.

  (* ---- G3: MSG4 ---- *)
  (* W[t] from W[t-2], W[t-7], W[t-15], W[t-16] (FIPS 180-4 6.2.2 step 1, in the association of f256_wt) *)
  Definition wt4 (w2 w7 w15 w16 : N) : N :=
    add32 (add32 (add32 (f256_sigma1 w2) w7) (f256_sigma0 w15)) w16.

  Theorem msg4_sse2_lanes w0 w1 w2 w3 w4 w5 w6 w7 w8 w9 w10 w11 w12 w13 w14 w15 :
    wf32 w14 -> wf32 w15 ->
    MSG4 C (V4 w0 w1 w2 w3) (V4 w4 w5 w6 w7) (V4 w8 w9 w10 w11) (V4 w12 w13 w14 w15) =
    let n0 := wt4 w14 w9 w1 w0 in
    let n1 := wt4 w15 w10 w2 w1 in
    V4 n0 n1 (wt4 n0 w11 w3 w2) (wt4 n1 w12 w4 w3).
  Proof.
    intros H14 H15. unfold MSG4.
    rewrite !span_lanes, s0_128_lanes, s1_128_low_lanes by assumption.
    rewrite !add_lanes.
    rewrite s1_128_high_lanes by apply wf32_add32.
    rewrite add_lanes. cbv zeta.
    assert (E0 : add32 (add32 (add32 w0 w9) (f256_sigma0 w1)) (f256_sigma1 w14) = wt4 w14 w9 w1 w0)
      by (unfold wt4; add32_ac).
    assert (E1 : add32 (add32 (add32 w1 w10) (f256_sigma0 w2)) (f256_sigma1 w15) = wt4 w15 w10 w2 w1)
      by (unfold wt4; add32_ac).
    rewrite E0, E1.
    set (n0 := wt4 w14 w9 w1 w0). set (n1 := wt4 w15 w10 w2 w1).
    f_equal; [apply add32_0_r; apply wf32_add32 | apply add32_0_r; apply wf32_add32 | |];
      unfold wt4; add32_ac.
  Qed.
End Lanes.
