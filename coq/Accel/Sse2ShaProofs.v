(* G3: SHA256_Transform_sse2 (model of alg/sha256_sse2.c) computes the same function as the portable
   SHA256_Transform (model of alg/sha256.c) and as the FIPS 180-4 compression function, for every
   state and every 64-byte block.
   The four vector registers Y[0..3] always hold the last sixteen schedule words; MSG4
   (Sse2ShaLanes.msg4_sse2_lanes) produces the next four; the stores put them into W[], where the
   scalar rounds - the same RNDr structure as the portable code, so the hash area's per-round
   simulation (Sha256Proofs.rounds16_sim) is reused - read them. *)
From Coq Require Import Arith NArith List Lia.
From LCP Require Import Alg.Words Alg.WordsProofs Alg.Sha256Spec Alg.Sha256Model Alg.Sha256Proofs
  Accel.X86Vec Accel.Sse2Sha Accel.Sse2ShaBits Accel.Sse2ShaLanes.
Import ListNotations.
Local Open Scope N_scope.

(* ---------------------------------------------------------------- lists *)
Lemma nth_skipn_add {A} (l : list A) o i d : nth i (skipn o l) d = nth (o + i) l d.
Proof. revert l. induction o as [|o IH]; intros [|x l]; cbn [skipn Nat.add nth]; auto. destruct i; reflexivity. Qed.

Lemma v_of_bytes_firstn16 l : (16 <= length l)%nat ->
  v_of_bytes (firstn 16 l) =
  V4 (le32dec4 (nth 0 l 0) (nth 1 l 0) (nth 2 l 0) (nth 3 l 0))
     (le32dec4 (nth 4 l 0) (nth 5 l 0) (nth 6 l 0) (nth 7 l 0))
     (le32dec4 (nth 8 l 0) (nth 9 l 0) (nth 10 l 0) (nth 11 l 0))
     (le32dec4 (nth 12 l 0) (nth 13 l 0) (nth 14 l 0) (nth 15 l 0)).
Proof. intros H. do 16 (destruct l as [|? l]; [simpl in H; lia|]). reflexivity. Qed.

Lemma loadu_bytes_nth blk off o : N.to_nat off = o -> (o + 16 <= length blk)%nat ->
  mm_loadu_bytes blk off =
  V4 (le32dec4 (nth (o + 0) blk 0) (nth (o + 1) blk 0) (nth (o + 2) blk 0) (nth (o + 3) blk 0))
     (le32dec4 (nth (o + 4) blk 0) (nth (o + 5) blk 0) (nth (o + 6) blk 0) (nth (o + 7) blk 0))
     (le32dec4 (nth (o + 8) blk 0) (nth (o + 9) blk 0) (nth (o + 10) blk 0) (nth (o + 11) blk 0))
     (le32dec4 (nth (o + 12) blk 0) (nth (o + 13) blk 0) (nth (o + 14) blk 0) (nth (o + 15) blk 0)).
Proof.
  intros Ho Hl. unfold mm_loadu_bytes. rewrite Ho.
  rewrite v_of_bytes_firstn16 by (rewrite skipn_length; lia).
  rewrite !nth_skipn_add. reflexivity.
Qed.

Lemma nth_be32dec_vect j : forall bs, (4 * j + 3 < length bs)%nat ->
  nth j (be32dec_vect bs) 0 =
  be32dec4 (nth (4 * j + 0) bs 0) (nth (4 * j + 1) bs 0) (nth (4 * j + 2) bs 0) (nth (4 * j + 3) bs 0).
Proof.
  induction j as [|j IH]; intros bs H; do 4 (destruct bs as [|? bs]; [simpl in H; lia|]).
  - reflexivity.
  - cbn [be32dec_vect nth]. rewrite IH by (simpl in H; lia).
    replace (4 * S j)%nat with (S (S (S (S (4 * j))))) by lia. reflexivity.
Qed.

Lemma Forall_nth_wf8 bs j : Forall wf8 bs -> wf8 (nth j bs 0).
Proof.
  intros H. destruct (lt_dec j (length bs)) as [L|L].
  - apply Forall_nth; assumption.
  - rewrite nth_overflow by lia. reflexivity.
Qed.

Lemma fold_left_ext_eq {A B} (f g : A -> B -> A) : (forall a b, f a b = g a b) ->
  forall l a, fold_left f l a = fold_left g l a.
Proof. intros H l. induction l as [|x l IH]; intros a; cbn [fold_left]; [reflexivity|]. rewrite H. apply IH. Qed.

(* four consecutive words of a word array as a register *)
Definition vec_at (W : list N) (t : nat) : v128 :=
  V4 (nth t W 0) (nth (t + 1) W 0) (nth (t + 2) W 0) (nth (t + 3) W 0).

Section Transform.
  Variable K : list N.
  Variable blk : list N.
  Hypothesis Hlen : length blk = 64%nat.
  Hypothesis Hwf : Forall wf8 blk.
  Local Notation C := (sse2_std K).
  Let Ws := f256_schedule blk.

  Lemma Ws_length : length Ws = 64%nat.
  Proof.
    unfold Ws, f256_schedule. rewrite f256_extend_length.
    rewrite (be32dec_vect_length 16) by (rewrite Hlen; reflexivity). reflexivity.
  Qed.

  Lemma Ws_low j : (j < 16)%nat -> nth j Ws 0 = nth j (be32dec_vect blk) 0.
  Proof.
    intros Hj. unfold Ws, f256_schedule. apply f256_extend_old.
    rewrite (be32dec_vect_length 16) by (rewrite Hlen; reflexivity). exact Hj.
  Qed.

  Lemma Ws_wf j : wf32 (nth j Ws 0).
  Proof.
    destruct (lt_dec j 16) as [L|L].
    - rewrite Ws_low by exact L. rewrite nth_be32dec_vect by lia.
      apply wf32_be32dec4; apply Forall_nth_wf8; exact Hwf.
    - destruct (lt_dec j 64) as [L2|L2].
      + unfold Ws. rewrite (Wspec_rec blk Hlen) by lia. unfold f256_wt. apply wf32_add32.
      + rewrite nth_overflow by (rewrite Ws_length; lia). apply wf32_0.
  Qed.

  (* ---- one load: bswap of sixteen block bytes = four big-endian words ---- *)
  Lemma load_vec k off : N.to_nat off = (16 * k)%nat -> (k < 4)%nat ->
    mm_bswap_epi32 C (mm_loadu_bytes blk off) = vec_at Ws (4 * k).
  Proof.
    intros Ho Hk. rewrite (loadu_bytes_nth blk off (16 * k)) by (try exact Ho; lia).
    rewrite bswap_bytes by (apply Forall_nth_wf8; exact Hwf).
    unfold vec_at. rewrite !Ws_low by lia. rewrite !nth_be32dec_vect by lia.
    repeat (f_equal; try lia).
  Qed.

  (* ---- one store of four schedule words ---- *)
  Lemma store_ok t W off : sched_ok blk t W -> N.to_nat off = t -> (t + 4 <= 64)%nat ->
    sched_ok blk (t + 4) (mm_storeu_words W off (vec_at Ws t)).
  Proof.
    intros [HL HW] Ho Ht. unfold mm_storeu_words. rewrite Ho. cbn [ln0 ln1 ln2 ln3 vec_at].
    split; [rewrite !upd_length; exact HL|].
    intros j Hj. fold Ws.
    destruct (Nat.eq_dec j (t + 3)) as [->|N3]; [rewrite nth_upd_eq by (rewrite !upd_length; lia); reflexivity|].
    rewrite nth_upd_neq by lia.
    destruct (Nat.eq_dec j (t + 2)) as [->|N2]; [rewrite nth_upd_eq by (rewrite !upd_length; lia); reflexivity|].
    rewrite nth_upd_neq by lia.
    destruct (Nat.eq_dec j (t + 1)) as [->|N1]; [rewrite nth_upd_eq by (rewrite !upd_length; lia); reflexivity|].
    rewrite nth_upd_neq by lia.
    destruct (Nat.eq_dec j t) as [->|N0]; [rewrite nth_upd_eq by lia; reflexivity|].
    rewrite nth_upd_neq by lia. apply HW. lia.
  Qed.

  (* ---- the load phase ---- *)
  Lemma loads_ok : exists W,
    fold_left (load_step C blk) (k_loads C) (repeat vzero 4, repeat 0 64) =
      ([vec_at Ws 0; vec_at Ws 4; vec_at Ws 8; vec_at Ws 12], W) /\ sched_ok blk 16 W.
  Proof.
    set (y := fun (k : nat) (off : N) => mm_bswap_epi32 C (mm_loadu_bytes blk off)).
    change (fold_left (load_step C blk) (k_loads C) (repeat vzero 4, repeat 0 64)) with
      ([y 0%nat 0; y 1%nat 16; y 2%nat 32; y 3%nat 48],
       mm_storeu_words (mm_storeu_words (mm_storeu_words (mm_storeu_words (repeat 0 64)
         0 (y 0%nat 0)) 4 (y 1%nat 16)) 8 (y 2%nat 32)) 12 (y 3%nat 48)).
    unfold y.
    rewrite (load_vec 0 0), (load_vec 1 16), (load_vec 2 32), (load_vec 3 48) by (try reflexivity; lia).
    change (4 * 0)%nat with 0%nat. change (4 * 1)%nat with 4%nat.
    change (4 * 2)%nat with 8%nat. change (4 * 3)%nat with 12%nat.
    eexists. split; [reflexivity|].
    assert (H0 : sched_ok blk 0 (repeat 0 64)).
    { split; [apply repeat_length|]. intros j Hj. lia. }
    apply (store_ok 12 _ 12); [|reflexivity|lia].
    apply (store_ok 8 _ 8); [|reflexivity|lia].
    apply (store_ok 4 _ 4); [|reflexivity|lia].
    apply (store_ok 0 _ 0); [exact H0|reflexivity|lia].
  Qed.

  (* ---- MSG4 on the schedule ---- *)
  Lemma Ws_step u : (u + 16 < 64)%nat ->
    nth (u + 16) Ws 0 = wt4 (nth (u + 14) Ws 0) (nth (u + 9) Ws 0) (nth (u + 1) Ws 0) (nth u Ws 0).
  Proof.
    intros Hu. unfold Ws. rewrite (Wspec_rec blk Hlen) by lia. unfold f256_wt, wt4.
    repeat (f_equal; try lia).
  Qed.

  (* the four new words, in the shape both accelerated schedules produce them *)
  Lemma wt4_sched u : (u + 19 < 64)%nat ->
    (let n0 := wt4 (nth (u + 14) Ws 0) (nth (u + 9) Ws 0) (nth (u + 1) Ws 0) (nth u Ws 0) in
     let n1 := wt4 (nth (u + 15) Ws 0) (nth (u + 10) Ws 0) (nth (u + 2) Ws 0) (nth (u + 1) Ws 0) in
     V4 n0 n1 (wt4 n0 (nth (u + 11) Ws 0) (nth (u + 3) Ws 0) (nth (u + 2) Ws 0))
              (wt4 n1 (nth (u + 12) Ws 0) (nth (u + 4) Ws 0) (nth (u + 3) Ws 0))) = vec_at Ws (u + 16).
  Proof.
    intros Hu. cbv zeta. unfold vec_at.
    replace (u + 16 + 1)%nat with (u + 1 + 16)%nat by lia.
    replace (u + 16 + 2)%nat with (u + 2 + 16)%nat by lia.
    replace (u + 16 + 3)%nat with (u + 3 + 16)%nat by lia.
    rewrite (Ws_step (u + 3)), (Ws_step (u + 2)), (Ws_step (u + 1)), (Ws_step u) by lia.
    replace (u + 2 + 14)%nat with (u + 16)%nat by lia.
    replace (u + 3 + 14)%nat with (u + 1 + 16)%nat by lia.
    rewrite (Ws_step (u + 1)), (Ws_step u) by lia.
    rewrite <- !Nat.add_assoc. cbn [Nat.add]. reflexivity.
  Qed.

  Lemma msg4_sched u1 u2 u3 u4 u5 :
    u2 = (u1 + 4)%nat -> u3 = (u1 + 8)%nat -> u4 = (u1 + 12)%nat -> u5 = (u1 + 16)%nat -> (u5 + 3 < 64)%nat ->
    MSG4 C (vec_at Ws u1) (vec_at Ws u2) (vec_at Ws u3) (vec_at Ws u4) = vec_at Ws u5.
  Proof.
    intros -> -> -> -> Hu. unfold vec_at.
    rewrite msg4_sse2_lanes by apply Ws_wf. cbv zeta.
    replace (u1 + 16 + 1)%nat with (u1 + 1 + 16)%nat by lia.
    replace (u1 + 16 + 2)%nat with (u1 + 2 + 16)%nat by lia.
    replace (u1 + 16 + 3)%nat with (u1 + 3 + 16)%nat by lia.
    rewrite (Ws_step (u1 + 3)), (Ws_step (u1 + 2)), (Ws_step (u1 + 1)), (Ws_step u1) by lia.
    replace (u1 + 2 + 14)%nat with (u1 + 16)%nat by lia.
    replace (u1 + 3 + 14)%nat with (u1 + 1 + 16)%nat by lia.
    rewrite (Ws_step (u1 + 1)), (Ws_step u1) by lia.
    rewrite <- !Nat.add_assoc. cbn [Nat.add]. reflexivity.
  Qed.

  (* ---- the four MSG4 calls of one loop iteration ---- *)
  Lemma msg_block ii W : (ii + 32 <= 64)%nat -> sched_ok blk (ii + 16) W ->
    exists W',
      fold_left (msg_step C ii) (k_calls C)
                ([vec_at Ws ii; vec_at Ws (ii + 4); vec_at Ws (ii + 8); vec_at Ws (ii + 12)], W) =
      ([vec_at Ws (ii + 16); vec_at Ws (ii + 20); vec_at Ws (ii + 24); vec_at Ws (ii + 28)], W') /\
      sched_ok blk (ii + 32) W'.
  Proof.
    intros Hi HW.
    set (Y0 := vec_at Ws ii). set (Y1 := vec_at Ws (ii + 4)).
    set (Y2 := vec_at Ws (ii + 8)). set (Y3 := vec_at Ws (ii + 12)).
    change (fold_left (msg_step C ii) (k_calls C) ([Y0; Y1; Y2; Y3], W)) with
      (let y0 := MSG4 C Y0 Y1 Y2 Y3 in
       let W1 := mm_storeu_words W (16 + N.of_nat ii) y0 in
       let y1 := MSG4 C Y1 Y2 Y3 y0 in
       let W2 := mm_storeu_words W1 (20 + N.of_nat ii) y1 in
       let y2 := MSG4 C Y2 Y3 y0 y1 in
       let W3 := mm_storeu_words W2 (24 + N.of_nat ii) y2 in
       let y3 := MSG4 C Y3 y0 y1 y2 in
       let W4 := mm_storeu_words W3 (28 + N.of_nat ii) y3 in
       ([y0; y1; y2; y3], W4)).
    cbv zeta. unfold Y0, Y1, Y2, Y3.
    rewrite (msg4_sched ii (ii + 4) (ii + 8) (ii + 12) (ii + 16)) by lia.
    rewrite (msg4_sched (ii + 4) (ii + 8) (ii + 12) (ii + 16) (ii + 20)) by lia.
    rewrite (msg4_sched (ii + 8) (ii + 12) (ii + 16) (ii + 20) (ii + 24)) by lia.
    rewrite (msg4_sched (ii + 12) (ii + 16) (ii + 20) (ii + 24) (ii + 28)) by lia.
    eexists. split; [reflexivity|].
    replace (ii + 32)%nat with (ii + 28 + 4)%nat by lia. apply store_ok; [|lia|lia].
    replace (ii + 28)%nat with (ii + 24 + 4)%nat by lia. apply store_ok; [|lia|lia].
    replace (ii + 24)%nat with (ii + 20 + 4)%nat by lia. apply store_ok; [|lia|lia].
    replace (ii + 20)%nat with (ii + 16 + 4)%nat by lia. apply store_ok; [|lia|lia].
    exact HW.
  Qed.

  (* ---- the scalar rounds are those of the portable model ---- *)
  Lemma s_rnd_eq sv i w k : s_rnd C sv i w k = c256_rnd sv i w k.
  Proof. reflexivity. Qed.
  Lemma s_rounds_eq sv W ii : s_rounds C sv W ii = c256_rounds16 K sv W ii.
  Proof.
    unfold s_rounds, c256_rounds16.
    change (map N.to_nat (k_rndr C)) with (seq 0 16).
    change (k_Krnd C) with K.
    apply fold_left_ext_eq. intros a b. apply s_rnd_eq.
  Qed.

  (* ---- the loop, unrolled ---- *)
  Lemma mix_unroll sv s :
    mix C (S (N.to_nat (k_bound C))) 0 sv s =
    let sv1 := s_rounds C sv (snd s) 0 in
    let s1 := fold_left (msg_step C 0) (k_calls C) s in
    let sv2 := s_rounds C sv1 (snd s1) 16 in
    let s2 := fold_left (msg_step C 16) (k_calls C) s1 in
    let sv3 := s_rounds C sv2 (snd s2) 32 in
    let s3 := fold_left (msg_step C 32) (k_calls C) s2 in
    s_rounds C sv3 (snd s3) 48.
  Proof. reflexivity. Qed.

  Theorem transform_sse2_rounds st : length st = 8%nat ->
    transform_sse2 C st blk =
    map2 add32 st (fold_left (fun v t => f256_round v (nth t K 0) (nth t Ws 0)) (seq 0 64) st).
  Proof.
    intros Hst. unfold transform_sse2.
    change (N.to_nat (k_copy C / 4)) with 8%nat. change (N.to_nat (k_final C)) with 8%nat.
    rewrite firstn_all2 by lia. rewrite skipn_all2 by lia.
    change (repeat 0 (8 - 8)) with (@nil N). rewrite !app_nil_r.
    f_equal.
    destruct loads_ok as (W0 & -> & H0).
    rewrite mix_unroll. cbv zeta. rewrite !s_rounds_eq.
    destruct (msg_block 0 W0 ltac:(lia) H0) as (W1 & E1 & H1).
    change (0 + 4)%nat with 4%nat in E1. change (0 + 8)%nat with 8%nat in E1.
    change (0 + 12)%nat with 12%nat in E1. rewrite E1.
    change (0 + 16)%nat with 16%nat. change (0 + 20)%nat with 20%nat.
    change (0 + 24)%nat with 24%nat. change (0 + 28)%nat with 28%nat.
    destruct (msg_block 16 W1 ltac:(lia) H1) as (W2 & E2 & H2).
    change (16 + 4)%nat with 20%nat in E2. change (16 + 8)%nat with 24%nat in E2.
    change (16 + 12)%nat with 28%nat in E2. rewrite E2.
    destruct (msg_block 32 W2 ltac:(lia) H2) as (W3 & E3 & H3).
    change (32 + 4)%nat with 36%nat in E3. change (32 + 8)%nat with 40%nat in E3.
    change (32 + 12)%nat with 44%nat in E3.
    change (16 + 16)%nat with 32%nat. change (16 + 20)%nat with 36%nat.
    change (16 + 24)%nat with 40%nat. change (16 + 28)%nat with 44%nat.
    rewrite E3. cbn [snd].
    set (stepf := fun v t => f256_round v (nth t K 0) (nth t Ws 0)).
    assert (Hl : forall n i v, length v = 8%nat -> length (fold_left stepf (seq i n) v) = 8%nat).
    { induction n as [|n IH]; intros i v Hv; cbn [seq fold_left]; [exact Hv|].
      apply IH. apply f256_round_length. exact Hv. }
    change (seq 0 64) with (seq 0 16 ++ seq 16 16 ++ seq 32 16 ++ seq 48 16).
    rewrite !fold_left_app.
    set (v1 := fold_left stepf (seq 0 16) st).
    assert (R1 : c256_rounds16 K st W0 0 = v1)
      by (apply rounds16_sim; [intros j Hj; apply H0; lia | exact Hst]).
    rewrite R1.
    set (v2 := fold_left stepf (seq 16 16) v1).
    assert (R2 : c256_rounds16 K v1 W1 16 = v2)
      by (apply rounds16_sim; [intros j Hj; apply H1; lia | apply Hl; exact Hst]).
    rewrite R2.
    set (v3 := fold_left stepf (seq 32 16) v2).
    assert (R3 : c256_rounds16 K v2 W2 32 = v3)
      by (apply rounds16_sim; [intros j Hj; apply H2; lia | do 2 apply Hl; exact Hst]).
    rewrite R3.
    apply rounds16_sim; [intros j Hj; apply H3; lia | do 3 apply Hl; exact Hst].
  Qed.
End Transform.

(* G3 *)
Theorem transform_sse2_std_eq_portable K st blk :
  length st = 8%nat -> length blk = 64%nat -> Forall wf8 blk ->
  transform_sse2 (sse2_std K) st blk = c256_transform K st blk.
Proof.
  intros Hst Hb Hwf. rewrite transform_sse2_rounds by assumption.
  symmetry. apply c256_transform_eq_compress; assumption.
Qed.

Theorem transform_sse2_std_eq_compress st blk :
  length st = 8%nat -> length blk = 64%nat -> Forall wf8 blk ->
  transform_sse2 (sse2_std K256) st blk = f256_compress st blk.
Proof. intros Hst Hb Hwf. rewrite transform_sse2_rounds by assumption. reflexivity. Qed.
