(* MODEL of alg/sha256_sse2.c, statement by statement, on the instruction semantics of X86Vec.v:
   mm_bswap_epi32, the scalar RND/RNDr macros on the rotating array S[8], SHR32 / ROTR32 / s0_128,
   s1_128_high, s1_128_low, SPAN_ONE_THREE, MSG4 and SHA256_Transform_sse2.
   Parametric in everything tools/extract/x_accel.py regenerates from the C text (round constants,
   rotation / shift counts, _MM_SHUFFLE immediates, byte-shift counts, load / store offsets, the
   RNDr index list, the loop constants, the rows of the MSG4 calls); Sse2ShaRepo.v instantiates it.
   Definitions only. *)
From Coq Require Import NArith List Arith.
From LCP Require Import Alg.Words Accel.X86Vec.
Import ListNotations.
Local Open Scope N_scope.

(* the constants of s1_128_high / s1_128_low: (first shuffle, the two 64-bit shift counts,
   the 32-bit shift count, second shuffle, byte-shift count) *)
Definition s1_consts : Type := (N * list N * N * N * N)%type.

Record sse2_consts : Type := Sse2Consts {
  k_Krnd : list N;            (* static const uint32_t Krnd[64] *)
  k_rotw : N;                 (* ROTR(x, n): x << (32 - n) *)
  k_S0 : list N;              (* S0(x): the three rotation counts *)
  k_S1 : list N;
  k_bsw_sll : N;              (* mm_bswap_epi32 *)
  k_bsw_srl : N;
  k_bsw_lo : N;
  k_bsw_hi : N;
  k_rot32w : N;               (* ROTR32(x, n): _mm_slli_epi32(x, (32-n)) *)
  k_s0_rots : list N;         (* s0_128 *)
  k_s0_shr : N;
  k_s1h : s1_consts;
  k_s1l : s1_consts;
  k_span : N;                 (* SPAN_ONE_THREE *)
  k_loads : list (N * N * N); (* Y[k] = mm_bswap_epi32(load(&block[b])); store(&W[w], Y[k]) *)
  k_copy : N;                 (* memcpy(S, state, 32) *)
  k_bound : N;                (* for (i = 0; i < 64; i += 16) *)
  k_step : N;
  k_rndr : list N;            (* RNDr(S, W, j, i) for these j *)
  k_break : N;                (* if (i == 48) break *)
  k_calls : list (N * N * N * N * N * N);  (* Y[d] = MSG4(Y[a], Y[b], Y[c], Y[e]); store(&W[w + i], Y[d]) *)
  k_final : N                 (* for (i = 0; i < 8; i++) state[i] += S[i] *)
}.

Section Model.
  Variable C : sse2_consts.

  (* ---- mm_bswap_epi32 ---- *)
  Definition mm_bswap_epi32 (a : v128) : v128 :=
    (* a = _mm_or_si128(_mm_slli_epi16(a, 8), _mm_srli_epi16(a, 8)); *)
    let a := mm_or_si128 (mm_slli_epi16 a (k_bsw_sll C)) (mm_srli_epi16 a (k_bsw_srl C)) in
    (* a = _mm_shufflelo_epi16(a, _MM_SHUFFLE(2, 3, 0, 1)); *)
    let a := mm_shufflelo_epi16 a (k_bsw_lo C) in
    (* a = _mm_shufflehi_epi16(a, _MM_SHUFFLE(2, 3, 0, 1)); *)
    mm_shufflehi_epi16 a (k_bsw_hi C).

  (* ---- scalar macros ---- *)
  Definition s_Ch (x y z : N) : N := N.lxor (N.land x (N.lxor y z)) z.
  Definition s_Maj (x y z : N) : N := N.lor (N.land x (N.lor y z)) (N.land y z).
  Definition s_ROTR (x n : N) : N := N.lor (N.shiftr x n) (w32 (N.shiftl x (k_rotw C - n))).
  Definition s_rot3 (rots : list N) (x : N) : N :=
    match rots with
    | [a; b; c] => N.lxor (N.lxor (s_ROTR x a) (s_ROTR x b)) (s_ROTR x c)
    | _ => 0
    end.
  Definition s_S0 : N -> N := s_rot3 (k_S0 C).
  Definition s_S1 : N -> N := s_rot3 (k_S1 C).

  (* RNDr(S, W, i, ii): the three statements of RND on S[(64 - i) % 8] .. S[(71 - i) % 8] *)
  Definition s_rnd (sv : list N) (i : nat) (w k : N) : list N :=
    let ia := ((64 - i) mod 8)%nat in let ib := ((65 - i) mod 8)%nat in
    let ic := ((66 - i) mod 8)%nat in let id := ((67 - i) mod 8)%nat in
    let ie := ((68 - i) mod 8)%nat in let jf := ((69 - i) mod 8)%nat in
    let ig := ((70 - i) mod 8)%nat in let ih := ((71 - i) mod 8)%nat in
    let g (l : list N) (j : nat) := nth j l 0 in
    let s1 := upd sv ih (add32 (g sv ih)
                (add32 (add32 (add32 (s_S1 (g sv ie)) (s_Ch (g sv ie) (g sv jf) (g sv ig))) w) k)) in
    let s2 := upd s1 id (add32 (g s1 id) (g s1 ih)) in
    upd s2 ih (add32 (g s2 ih) (add32 (s_S0 (g s2 ia)) (s_Maj (g s2 ia) (g s2 ib) (g s2 ic)))).

  Definition s_rounds (sv W : list N) (ii : nat) : list N :=
    fold_left (fun s i => s_rnd s i (nth (i + ii) W 0) (nth (i + ii) (k_Krnd C) 0))
              (map N.to_nat (k_rndr C)) sv.

  (* ---- message schedule ---- *)
  Definition SHR32 (x : v128) (n : N) : v128 := mm_srli_epi32 x n.
  Definition ROTR32 (x : v128) (n : N) : v128 :=
    mm_or_si128 (SHR32 x n) (mm_slli_epi32 x (k_rot32w C - n)).
  Definition s0_128 (x : v128) : v128 :=
    match k_s0_rots C with
    | [r1; r2] => mm_xor_si128 (mm_xor_si128 (ROTR32 x r1) (ROTR32 x r2)) (SHR32 x (k_s0_shr C))
    | _ => vzero
    end.

  Definition s1_128 (byteshift : v128 -> N -> v128) (K : s1_consts) (a : v128) : v128 :=
    let '(dup, srl, shr, pick, nbytes) := K in
    match srl with
    | [n1; n2] =>
      (* b = _mm_shuffle_epi32(a, ..); *)
      let b := mm_shuffle_epi32 a dup in
      (* c = _mm_xor_si128(_mm_srli_epi64(b, 17), _mm_srli_epi64(b, 19)); *)
      let c := mm_xor_si128 (mm_srli_epi64 b n1) (mm_srli_epi64 b n2) in
      (* c = _mm_xor_si128(c, _mm_srli_epi32(b, 10)); *)
      let c := mm_xor_si128 c (mm_srli_epi32 b shr) in
      (* c = _mm_shuffle_epi32(c, _MM_SHUFFLE(2, 0, 2, 0)); *)
      let c := mm_shuffle_epi32 c pick in
      (* c = _mm_slli_si128(c, 8);  resp.  c = _mm_srli_si128(c, 8); *)
      byteshift c nbytes
    | _ => vzero
    end.
  Definition s1_128_high : v128 -> v128 := s1_128 mm_slli_si128 (k_s1h C).
  Definition s1_128_low : v128 -> v128 := s1_128 mm_srli_si128 (k_s1l C).

  Definition SPAN_ONE_THREE (a b : v128) : v128 := mm_shuffle_epi32 (mm_move_ss a b) (k_span C).

  Definition MSG4 (X0 X1 X2 X3 : v128) : v128 :=
    let Xj_minus_seven := SPAN_ONE_THREE X2 X3 in
    let Xj_minus_fifteen := SPAN_ONE_THREE X0 X1 in
    let X4 := mm_add_epi32 X0 Xj_minus_seven in
    let X4 := mm_add_epi32 X4 (s0_128 Xj_minus_fifteen) in
    let X4 := mm_add_epi32 X4 (s1_128_low X3) in
    mm_add_epi32 X4 (s1_128_high X4).

  (* ---- SHA256_Transform_sse2 ---- *)
  Definition yw : Type := (list v128 * list N)%type.     (* Y[4], W[64] *)

  Definition load_step (block : list N) (s : yw) (row : N * N * N) : yw :=
    let '(k, boff, woff) := row in
    let y := mm_bswap_epi32 (mm_loadu_bytes block boff) in
    (updv (fst s) (N.to_nat k) y, mm_storeu_words (snd s) woff y).

  Definition msg_step (ii : nat) (s : yw) (row : N * N * N * N * N * N) : yw :=
    let '(d, a0, a1, a2, a3, woff) := row in
    let Y := fst s in
    let y := MSG4 (nthv Y (N.to_nat a0)) (nthv Y (N.to_nat a1)) (nthv Y (N.to_nat a2)) (nthv Y (N.to_nat a3)) in
    (updv Y (N.to_nat d) y, mm_storeu_words (snd s) (woff + N.of_nat ii) y).

  (* for (i = 0; i < 64; i += 16) { RNDr x 16; if (i == 48) break; MSG4 x 4; } *)
  Fixpoint mix (fuel ii : nat) (sv : list N) (s : yw) {struct fuel} : list N :=
    match fuel with
    | O => sv
    | S f =>
      if (ii <? N.to_nat (k_bound C))%nat then
        let sv' := s_rounds sv (snd s) ii in
        if (ii =? N.to_nat (k_break C))%nat then sv'
        else mix f (ii + N.to_nat (k_step C)) sv' (fold_left (msg_step ii) (k_calls C) s)
      else sv
    end.

  Definition transform_sse2 (state block : list N) : list N :=
    (* 1. Y[k] = mm_bswap_epi32(load); store to W.  W[16..63] is scratch owned by the caller *)
    let s0 := fold_left (load_step block) (k_loads C) (repeat vzero 4, repeat 0 64) in
    (* 2. memcpy(S, state, 32) *)
    let nw := N.to_nat (k_copy C / 4) in
    let sv := firstn nw state ++ repeat 0 (8 - nw) in
    (* 3. mix *)
    let sv := mix (S (N.to_nat (k_bound C))) 0 sv s0 in
    (* 4. state[i] += S[i] *)
    let nf := N.to_nat (k_final C) in
    map2 add32 (firstn nf state) sv ++ skipn nf state.
End Model.
