(* MODEL of alg/sha256_shani.c, statement by statement, on the instruction semantics of X86Vec.v:
   be32dec_128 (SHUF table + _mm_shuffle_epi8), IMM4, RND4, MSG4, RNDMSG and SHA256_Transform_shani.
   Parametric in what tools/extract/x_accel.py regenerates from the C text (the SHUF bytes, the lane
   order of IMM4, the byte shift of RND4, the W offsets / alignr immediate / modulus of MSG4, the
   limit and look-ahead of RNDMSG, the 16 (i, K0, K1, K2, K3) rows, the state shuffles and the
   state / block offsets); ShaNiRepo.v instantiates it.  Definitions only. *)
From Coq Require Import NArith List Arith.
From LCP Require Import Alg.Words Accel.X86Vec.
Import ListNotations.
Local Open Scope N_scope.

Record shani_consts : Type := ShaniConsts {
  n_SHUF : list N;            (* const __m128i SHUF, bytes in memory order *)
  n_klanes : list N;          (* lane l of IMM4(K3, K2, K1, K0) holds K<n_klanes[l]> *)
  n_rnd4_srl : N;             (* M = _mm_srli_si128(M, 8) *)
  n_msg_mod : N;              (* W[(i + k) % 4] *)
  n_msg_offs : list N;        (* the k of: destination, msg1 operand, alignr high, alignr low, msg2 operand *)
  n_msg_alignr : N;           (* _mm_alignr_epi8(.., .., 4) *)
  n_rnd_mod : N;              (* RND4(S, W[i % 4], ..) *)
  n_msg_limit : N;            (* if (i < 12) *)
  n_msg_ahead : N;            (* MSG4(W, i + 4) *)
  n_state_offs : list N;      (* &state[0], &state[4] (loads), &state[0], &state[4] (stores) *)
  n_state_shufs : list N;     (* the four _mm_shuffle_epi32 immediates *)
  n_block_offs : list N;      (* W[k] = be32dec_128(&block[..]) *)
  n_rndmsg : list (N * N * N * N * N)   (* RNDMSG(S, W, i, K0, K1, K2, K3) *)
}.

Section Model.
  Variable C : shani_consts.

  Definition nthN (l : list N) (j : nat) : N := nth j l 0.

  (* be32dec_128(&block[off]) *)
  Definition be32dec_128 (block : list N) (off : N) : v128 :=
    mm_shuffle_epi8 (mm_loadu_bytes block off) (v_of_bytes (n_SHUF C)).

  (* IMM4(K3, K2, K1, K0) with I32 = the same 32 bits as a signed int *)
  Definition kvec (K : list N) : v128 :=
    let k l := nthN K (N.to_nat (nthN (n_klanes C) l)) in
    mm_set_epi32 (k 3%nat) (k 2%nat) (k 1%nat) (k 0%nat).

  (* RND4(S, W, K0, K1, K2, K3) *)
  Definition RND4 (St : v128 * v128) (W : v128) (K : list N) : v128 * v128 :=
    let S0 := fst St in
    let S1 := snd St in
    (* M = _mm_add_epi32(W, IMM4(K3, K2, K1, K0)); *)
    let M := mm_add_epi32 W (kvec K) in
    (* S[1] = _mm_sha256rnds2_epu32(S[1], S[0], M); *)
    let S1 := sha256rnds2 S1 S0 M in
    (* M = _mm_srli_si128(M, 8); *)
    let M := mm_srli_si128 M (n_rnd4_srl C) in
    (* S[0] = _mm_sha256rnds2_epu32(S[0], S[1], M); *)
    let S0 := sha256rnds2 S0 S1 M in
    (S0, S1).

  Definition widx (i k : N) : nat := N.to_nat ((i + k) mod n_msg_mod C).

  (* MSG4(W, i) *)
  Definition MSG4 (W : list v128) (i : N) : list v128 :=
    match n_msg_offs C with
    | [kd; k1; kh; kl; k2] =>
      let d := widx i kd in
      let W := updv W d (sha256msg1 (nthv W d) (nthv W (widx i k1))) in
      let W := updv W d (mm_add_epi32 (nthv W d)
                           (mm_alignr_epi8 (nthv W (widx i kh)) (nthv W (widx i kl)) (n_msg_alignr C))) in
      updv W d (sha256msg2 (nthv W d) (nthv W (widx i k2)))
    | _ => W
    end.

  (* RNDMSG(S, W, i, K0, K1, K2, K3) *)
  Definition sw : Type := ((v128 * v128) * list v128)%type.
  Definition RNDMSG (s : sw) (row : N * N * N * N * N) : sw :=
    let '(i, k0, k1, k2, k3) := row in
    let St := RND4 (fst s) (nthv (snd s) (N.to_nat (i mod n_rnd_mod C))) [k0; k1; k2; k3] in
    let W := if i <? n_msg_limit C then MSG4 (snd s) (i + n_msg_ahead C) else snd s in
    (St, W).

  Definition transform_shani (state block : list N) : list N :=
    let off j := nthN (n_state_offs C) j in
    let shuf j := nthN (n_state_shufs C) j in
    (* Load state. *)
    let S3210 := mm_loadu_words state (off 0%nat) in
    let S7654 := mm_loadu_words state (off 1%nat) in
    (* Shuffle the 8 32-bit values into the order we need them. *)
    let S0123 := mm_shuffle_epi32 S3210 (shuf 0%nat) in
    let S4567 := mm_shuffle_epi32 S7654 (shuf 1%nat) in
    let S0145 := mm_unpackhi_epi64 S4567 S0123 in
    let S2367 := mm_unpacklo_epi64 S4567 S0123 in
    (* Load input block. *)
    let W := map (be32dec_128 block) (n_block_offs C) in
    (* 64 rounds, 4 at a time. *)
    let Sf := fst (fold_left RNDMSG (n_rndmsg C) ((S0145, S2367), W)) in
    (* Mix local working variables into global state. *)
    let S0145 := mm_add_epi32 S0145 (fst Sf) in
    let S2367 := mm_add_epi32 S2367 (snd Sf) in
    (* Shuffle state back to the original word order and store. *)
    let S0123 := mm_unpackhi_epi64 S2367 S0145 in
    let S4567 := mm_unpacklo_epi64 S2367 S0145 in
    let S3210 := mm_shuffle_epi32 S0123 (shuf 2%nat) in
    let S7654 := mm_shuffle_epi32 S4567 (shuf 3%nat) in
    mm_storeu_words (mm_storeu_words state (off 2%nat) S3210) (off 3%nat) S7654.
End Model.
