(* alg/crc32c_sse42.c and the routing in CRC32C_Update: instruction-level model of the CRC32
   instruction (Intel SDM vol. 2A, "CRC32 - Accumulate CRC32 Value") and a model of
   CRC32C_Update_SSE42 that reads the buffer through checked memory.  No proofs here. *)
From Coq Require Import NArith List Bool.
From LCP Require Import Base.CheckedMem Alg.GF2Poly Alg.Crc32c.
Import ListNotations.
Local Open Scope N_scope.
Local Open Scope res_scope.

(* ---------------- the instruction, as documented ----------------
     TEMP1[w-1:0]   <- BIT_REFLECT_w(SRC[w-1:0])
     TEMP2[31:0]    <- BIT_REFLECT32(DEST[31:0])
     TEMP3[w+31:0]  <- TEMP1 << 32
     TEMP4[w+31:0]  <- TEMP2 << w
     TEMP5          <- TEMP3 XOR TEMP4
     TEMP6[31:0]    <- TEMP5 MOD2 11EDC6F41H
     DEST[31:0]     <- BIT_REFLECT32(TEMP6)                                  *)
Definition crc32_insn (w : nat) (dest src : N) : N :=
  let temp1 := reflect w src in
  let temp2 := reflect 32 dest in
  let temp3 := N.shiftl temp1 32 in
  let temp4 := N.shiftl temp2 (N.of_nat w) in
  let temp5 := N.lxor temp3 temp4 in
  let temp6 := pmod temp5 castagnoli in
  reflect 32 temp6.

Definition crc32_u8 (crc v : N) : N := crc32_insn 8 crc v.     (* _mm_crc32_u8 *)
Definition crc32_u32 (crc v : N) : N := crc32_insn 32 crc v.   (* _mm_crc32_u32 *)
Definition crc32_u64 (crc v : N) : N := crc32_insn 64 crc v.   (* _mm_crc32_u64, truncated to uint32_t *)

(* little-endian load of the bytes (x86): *(const uint64_t * )&buf[i] *)
Fixpoint le_word (bytes : list N) : N :=
  match bytes with
  | [] => 0
  | b :: r => b + 256 * le_word r
  end.

(* read n bytes starting at i through checked memory *)
Fixpoint rd_n (buf : list N) (i n : nat) : res (list N) :=
  match n with
  | O => Ok []
  | S n' => let* b := rd buf i in let* r := rd_n buf (S i) n' in Ok (b :: r)
  end.

Definition w64 (x : N) : N := x mod 18446744073709551616.
(* size_t subtraction *)
Definition sub64 (a b : N) : N := w64 (a + 18446744073709551616 - w64 b).

Section Model.
  Variable minlen : N.          (* assert(len >= 8) *)
  Variable align_from : N.      (* (8 - (uintptr_t)buf) *)
  Variable align_mask : N.      (* & 7 *)
  Variable block_mod : N.       (* remaining_bytes % 8 *)
  Variable assert_mask : N.     (* (uintptr_t)&buf[i] & 7 *)
  Variable stride : N.          (* i += 8 *)
  Variable tail_bound : N.      (* assert((len - i) < 8) *)
  Variable use64 : bool.        (* CPUSUPPORT_X86_SSE42_64 *)

  (* for (; i < bound; i++) state = _mm_crc32_u8(state, buf[i]); returns (state, i) *)
  Fixpoint u8_loop (fuel : nat) (buf : list N) (st i bound : N) : res (N * N) :=
    if i <? bound then
      match fuel with
      | O => OutOfFuel
      | S f => let* b := rd buf (N.to_nat i) in u8_loop f buf (crc32_u8 st b) (i + 1) bound
      end
    else Ok (st, i).

  (* for (; i < in_block; i += 8) state = _mm_crc32_u64(state, *(uint64_t * )&buf[i]) *)
  Fixpoint blk_loop (fuel : nat) (buf : list N) (st i in_block : N) : res (N * N) :=
    if i <? in_block then
      match fuel with
      | O => OutOfFuel
      | S f =>
        let* st' :=
          (if use64 then
             (let* bs := rd_n buf (N.to_nat i) 8 in Ok (crc32_u64 st (le_word bs)))
           else
             (let* lo := rd_n buf (N.to_nat i) 4 in
              let* hi := rd_n buf (N.to_nat (i + 4)) 4 in
              Ok (crc32_u32 (crc32_u32 st (le_word lo)) (le_word hi)))) in
        blk_loop f buf st' (w64 (i + stride)) in_block
      end
    else Ok (st, i).

  (* CRC32C_Update_SSE42(state, buf, len): addr is the address of buf[0], buf has exactly len bytes *)
  Definition update_sse42_m (addr : N) (state : N) (buf : list N) : res N :=
    let len := N.of_nat (length buf) in
    let fuel := S (length buf) in
    if len <? minlen then AssertFail else
    let pre_block := N.land (sub64 align_from addr) align_mask in
    let remaining := sub64 len pre_block in
    let in_block := sub64 remaining (remaining mod block_mod) in
    let* (st1, i1) := u8_loop fuel buf state 0 pre_block in
    if (i1 <? in_block) && negb (N.land (w64 (addr + i1)) assert_mask =? 0) then AssertFail else
    let* (st2, i2) := blk_loop fuel buf st1 i1 in_block in
    if negb (sub64 len i2 <? tail_bound) then AssertFail else
    let* (st3, _) := u8_loop fuel buf st2 i2 len in
    Ok st3.
End Model.

(* ---------------- CRC32C_Update with the routing ---------------- *)
Section Routing.
  Variable hw_minlen : N.                               (* len >= 8 in CRC32C_Update *)
  Variable sse42 : N -> N -> list N -> res N.           (* the accelerated update *)
  Variable sw : N -> list N -> N.                       (* the portable loops *)
  Variable hw : bool.                                   (* hwaccel == HW_X86_CRC32 *)

  Definition update_any_m (addr st : N) (buf : list N) : res N :=
    if (hw_minlen <=? N.of_nat (length buf)) && hw then sse42 addr st buf else Ok (sw st buf).

  (* a stream of Update calls on consecutive pieces of one buffer starting at addr *)
  Fixpoint stream_m (addr st : N) (parts : list (list N)) : res N :=
    match parts with
    | [] => Ok st
    | p :: rest =>
      let* st' := update_any_m addr st p in
      stream_m (addr + N.of_nat (length p)) st' rest
    end.
End Routing.
