(* Executable semantics of the x86 vector instructions used by alg/sha256_sse2.c and
   alg/sha256_shani.c, following the Intel SDM (vol. 2) operation sections of
     PSHUFD  PSHUFLW  PSHUFHW  PSLLW/PSRLW  PSLLD/PSRLD  PSLLQ/PSRLQ  PSLLDQ/PSRLDQ  POR  PXOR  PADDD
     MOVSS (register form)  PUNPCKLQDQ  PUNPCKHQDQ  PSHUFB  PALIGNR  PBLENDW
     SHA256RNDS2  SHA256MSG1  SHA256MSG2   and the unaligned loads / stores (MOVDQU).

   A 128-bit register is the record of its four 32-bit lanes, lane 0 = bits 31:0.  In memory
   (little endian) lane j occupies bytes 4j..4j+3, least significant byte first, so a uint32_t[4]
   loaded with MOVDQU has element j in lane j.  Sub-lane views (eight 16-bit words, two 64-bit
   quadwords, sixteen bytes) are computed from the lanes.  Lanes are meant to be < 2^32; every
   operation returns such lanes when given such lanes (proved in Sse2ShaBits.v).

   The SDM defines SHA256RNDS2 / SHA256MSG1 / SHA256MSG2 with the functions Ch, Maj, Sigma0, Sigma1,
   sigma0, sigma1 of FIPS 180-4; those are taken from Alg/Sha256Spec.v.

   The fidelity of these definitions is part of the trusted base; harness/drv_accel.c executes the
   real instructions one at a time and areas/accel.py compares (check_accel_instructions).
   Definitions only. *)
From Coq Require Import NArith List Arith.
From LCP Require Import Alg.Words Alg.Sha256Spec.
Import ListNotations.
Local Open Scope N_scope.

Record v128 : Type := V4 { ln0 : N; ln1 : N; ln2 : N; ln3 : N }.

Definition vzero : v128 := V4 0 0 0 0.
Definition lane (v : v128) (i : N) : N :=
  match i with 0 => ln0 v | 1 => ln1 v | 2 => ln2 v | _ => ln3 v end.
Definition vmap (f : N -> N) (v : v128) : v128 := V4 (f (ln0 v)) (f (ln1 v)) (f (ln2 v)) (f (ln3 v)).
Definition vmap2 (f : N -> N -> N) (a b : v128) : v128 :=
  V4 (f (ln0 a) (ln0 b)) (f (ln1 a) (ln1 b)) (f (ln2 a) (ln2 b)) (f (ln3 a) (ln3 b)).

(* ---- views ---- *)
Definition words_of_v (v : v128) : list N := [ln0 v; ln1 v; ln2 v; ln3 v].
Definition v_of_words (l : list N) : v128 := V4 (nth 0 l 0) (nth 1 l 0) (nth 2 l 0) (nth 3 l 0).
(* the sixteen bytes in memory order / a register from sixteen bytes *)
Definition bytes_of_v (v : v128) : list N := le32enc_vect (words_of_v v).
Definition v_of_bytes (bs : list N) : v128 := v_of_words (le32dec_vect bs).
(* the eight 16-bit words, word 0 = bits 15:0 *)
Definition mask16 : N := 65535.
Definition lo16 (x : N) : N := N.land x mask16.
Definition hi16 (x : N) : N := N.shiftr x 16.
Definition join16 (lo hi : N) : N := N.lor lo (N.shiftl hi 16).
Definition words16_of_v (v : v128) : list N :=
  [lo16 (ln0 v); hi16 (ln0 v); lo16 (ln1 v); hi16 (ln1 v);
   lo16 (ln2 v); hi16 (ln2 v); lo16 (ln3 v); hi16 (ln3 v)].
Definition v_of_words16 (l : list N) : v128 :=
  V4 (join16 (nth 0 l 0) (nth 1 l 0)) (join16 (nth 2 l 0) (nth 3 l 0))
     (join16 (nth 4 l 0) (nth 5 l 0)) (join16 (nth 6 l 0) (nth 7 l 0)).
(* a 64-bit quadword from its two lanes *)
Definition quad (lo hi : N) : N := N.lor lo (N.shiftl hi 32).

(* ---- MOVDQU ---- *)
(* _mm_loadu_si128 of 16 bytes at offset off of a byte array *)
Definition mm_loadu_bytes (mem : list N) (off : N) : v128 :=
  v_of_bytes (firstn 16 (skipn (N.to_nat off) mem)).
(* _mm_loadu_si128 / _mm_storeu_si128 at &a[off] of a uint32_t array *)
Definition mm_loadu_words (mem : list N) (off : N) : v128 :=
  v_of_words (firstn 4 (skipn (N.to_nat off) mem)).
Definition mm_storeu_words (mem : list N) (off : N) (v : v128) : list N :=
  let o := N.to_nat off in
  upd (upd (upd (upd mem o (ln0 v)) (o + 1) (ln1 v)) (o + 2) (ln2 v)) (o + 3) (ln3 v).
(* _mm_set_epi32(e3, e2, e1, e0) *)
Definition mm_set_epi32 (e3 e2 e1 e0 : N) : v128 := V4 (w32 e0) (w32 e1) (w32 e2) (w32 e3).

(* ---- POR, PXOR, PADDD ---- *)
Definition mm_or_si128 : v128 -> v128 -> v128 := vmap2 N.lor.
Definition mm_xor_si128 : v128 -> v128 -> v128 := vmap2 N.lxor.
Definition mm_add_epi32 : v128 -> v128 -> v128 := vmap2 add32.

(* ---- shifts by a count: every element becomes 0 when the count exceeds its width - 1 ---- *)
Definition sll16 (n x : N) : N := if 15 <? n then 0 else N.land (N.shiftl x n) mask16.
Definition srl16 (n x : N) : N := if 15 <? n then 0 else N.shiftr x n.
Definition mm_slli_epi16 (a : v128) (n : N) : v128 :=
  vmap (fun x => join16 (sll16 n (lo16 x)) (sll16 n (hi16 x))) a.
Definition mm_srli_epi16 (a : v128) (n : N) : v128 :=
  vmap (fun x => join16 (srl16 n (lo16 x)) (srl16 n (hi16 x))) a.
Definition mm_slli_epi32 (a : v128) (n : N) : v128 :=
  vmap (fun x => if 31 <? n then 0 else w32 (N.shiftl x n)) a.
Definition mm_srli_epi32 (a : v128) (n : N) : v128 :=
  vmap (fun x => if 31 <? n then 0 else N.shiftr x n) a.
Definition on_quads (f : N -> N) (a : v128) : v128 :=
  let q0 := f (quad (ln0 a) (ln1 a)) in
  let q1 := f (quad (ln2 a) (ln3 a)) in
  V4 (w32 q0) (N.shiftr q0 32) (w32 q1) (N.shiftr q1 32).
Definition mm_slli_epi64 (a : v128) (n : N) : v128 :=
  on_quads (fun q => if 63 <? n then 0 else w64 (N.shiftl q n)) a.
Definition mm_srli_epi64 (a : v128) (n : N) : v128 :=
  on_quads (fun q => if 63 <? n then 0 else N.shiftr q n) a.

(* ---- PSLLDQ / PSRLDQ: byte shifts of the whole register, counts above 15 act as 16 ---- *)
Definition mm_slli_si128 (a : v128) (n : N) : v128 :=
  v_of_bytes (firstn 16 (repeat 0 (N.to_nat (N.min n 16)) ++ bytes_of_v a)).
Definition mm_srli_si128 (a : v128) (n : N) : v128 :=
  v_of_bytes (firstn 16 (skipn (N.to_nat (N.min n 16)) (bytes_of_v a) ++ repeat 0 16)).

(* ---- shuffles ---- *)
(* two-bit field j of an immediate *)
Definition sel2 (imm : N) (j : N) : N := N.land (N.shiftr imm (2 * j)) 3.
(* PSHUFD: dest lane j = src lane imm[2j+1:2j] *)
Definition mm_shuffle_epi32 (a : v128) (imm : N) : v128 :=
  V4 (lane a (sel2 imm 0)) (lane a (sel2 imm 1)) (lane a (sel2 imm 2)) (lane a (sel2 imm 3)).
(* PSHUFLW / PSHUFHW: the same on the four low / high 16-bit words, the other half copied *)
Definition mm_shufflelo_epi16 (a : v128) (imm : N) : v128 :=
  let w := words16_of_v a in
  let s j := nth (N.to_nat (sel2 imm j)) w 0 in
  v_of_words16 [s 0; s 1; s 2; s 3; nth 4 w 0; nth 5 w 0; nth 6 w 0; nth 7 w 0].
Definition mm_shufflehi_epi16 (a : v128) (imm : N) : v128 :=
  let w := words16_of_v a in
  let s j := nth (4 + N.to_nat (sel2 imm j)) w 0 in
  v_of_words16 [nth 0 w 0; nth 1 w 0; nth 2 w 0; nth 3 w 0; s 0; s 1; s 2; s 3].
(* MOVSS xmm, xmm (_mm_move_ss(a, b)): lane 0 from b, lanes 1..3 from a *)
Definition mm_move_ss (a b : v128) : v128 := V4 (ln0 b) (ln1 a) (ln2 a) (ln3 a).
(* PUNPCKLQDQ / PUNPCKHQDQ (_mm_unpacklo_epi64(a, b), _mm_unpackhi_epi64(a, b)) *)
Definition mm_unpacklo_epi64 (a b : v128) : v128 := V4 (ln0 a) (ln1 a) (ln0 b) (ln1 b).
Definition mm_unpackhi_epi64 (a b : v128) : v128 := V4 (ln2 a) (ln3 a) (ln2 b) (ln3 b).
(* PSHUFB (_mm_shuffle_epi8(a, b)): dest byte i = b[i] bit 7 ? 0 : a byte (b[i] & 15) *)
Definition mm_shuffle_epi8 (a b : v128) : v128 :=
  let ab := bytes_of_v a in
  v_of_bytes (map (fun s => if N.testbit s 7 then 0 else nth (N.to_nat (N.land s 15)) ab 0)
                  (bytes_of_v b)).
(* PALIGNR (_mm_alignr_epi8(a, b, n)): bytes n..n+15 of the 32-byte value a:b (b low), zero-filled *)
Definition mm_alignr_epi8 (a b : v128) (n : N) : v128 :=
  v_of_bytes (firstn 16 (skipn (N.to_nat (N.min n 32)) (bytes_of_v b ++ bytes_of_v a) ++ repeat 0 16)).
(* PBLENDW (_mm_blend_epi16(a, b, imm)): word j from b when imm bit j is set, else from a *)
Definition mm_blend_epi16 (a b : v128) (imm : N) : v128 :=
  let wa := words16_of_v a in
  let wb := words16_of_v b in
  v_of_words16 (map (fun j => if N.testbit imm (N.of_nat j) then nth j wb 0 else nth j wa 0) (seq 0 8)).

(* ---- SHA extensions ---- *)
(* one iteration of the FOR loop of SHA256RNDS2 *)
Definition rnds_step (s : N * N * N * N * N * N * N * N) (wk : N) : N * N * N * N * N * N * N * N :=
  let '(a, b, c, d, e, f, g, h) := s in
  let t := add32 (add32 (add32 (f256_Ch e f g) (f256_Sigma1 e)) wk) h in
  (add32 (add32 t (f256_Maj a b c)) (f256_Sigma0 a), a, b, c, add32 t d, e, f, g).
(* SHA256RNDS2 xmm1, xmm2, <XMM0> = _mm_sha256rnds2_epu32(src1 = xmm1, src2 = xmm2, wk = xmm0):
   src1 = C:D:G:H, src2 = A:B:E:F (lane 3 first), result = A2:B2:E2:F2 *)
Definition sha256rnds2 (src1 src2 wk : v128) : v128 :=
  let s0 := (ln3 src2, ln2 src2, ln3 src1, ln2 src1, ln1 src2, ln0 src2, ln1 src1, ln0 src1) in
  let s1 := rnds_step s0 (ln0 wk) in
  let '(a2, b2, _, _, e2, f2, _, _) := rnds_step s1 (ln1 wk) in
  V4 f2 e2 b2 a2.
(* SHA256MSG1: dest lane k = W[k] + sigma0(W[k+1]), W[4] = src2 lane 0 *)
Definition sha256msg1 (src1 src2 : v128) : v128 :=
  V4 (add32 (ln0 src1) (f256_sigma0 (ln1 src1))) (add32 (ln1 src1) (f256_sigma0 (ln2 src1)))
     (add32 (ln2 src1) (f256_sigma0 (ln3 src1))) (add32 (ln3 src1) (f256_sigma0 (ln0 src2))).
(* SHA256MSG2: W14 = src2 lane 2, W15 = src2 lane 3; W16 = src1[0] + sigma1(W14), W17 = src1[1] +
   sigma1(W15), W18 = src1[2] + sigma1(W16), W19 = src1[3] + sigma1(W17) *)
Definition sha256msg2 (src1 src2 : v128) : v128 :=
  let w16 := add32 (ln0 src1) (f256_sigma1 (ln2 src2)) in
  let w17 := add32 (ln1 src1) (f256_sigma1 (ln3 src2)) in
  V4 w16 w17 (add32 (ln2 src1) (f256_sigma1 w16)) (add32 (ln3 src1) (f256_sigma1 w17)).

(* ---- small arrays of registers (__m128i Y[4], W[4]) ---- *)
Definition nthv (l : list v128) (i : nat) : v128 := nth i l vzero.
Fixpoint updv (l : list v128) (i : nat) (v : v128) {struct l} : list v128 :=
  match l, i with
  | [], _ => []
  | _ :: r, O => v :: r
  | x :: r, S j => x :: updv r j v
  end.
