(* C03 for whole SHA-256 computations: whichever transform hwaccel_init() selected, SHA256_Init /
   SHA256_Update* / SHA256_Final over ANY partition of the message, and SHA256_Buf, return the digest
   of FIPS 180-4 - hence the digest the portable build returns.
   The streaming argument of the hash area (Alg/MDStreaming.v: Inv, update_body_inv) is parametric in
   the compression function; the SHA-256 specific part (bit count, SHA256_Pad) is redone here with the
   transform as a parameter, giving: final state = fold of the selected transform over the blocks of
   the padded message.  The three transforms agree with f256_compress on every 8-word state and every
   64-byte block of bytes (ShaRepoProofs), all blocks of a padded byte message are such. *)
From Coq Require Import Arith NArith List Lia Bool.
From LCP Require Import Gen.Repo_hash Gen.Repo_accel Alg.Words Alg.WordsProofs Alg.MDSpec Alg.MDModel Alg.MDStreaming
  Alg.Sha256Spec Alg.Sha256Model Alg.Sha256Proofs Alg.HashRepo Alg.HashRepoProofs
  Accel.Sse2ShaBits Accel.Sse2ShaRepo Accel.ShaNiRepo Accel.ShaRepoProofs Accel.ShaCfg.
Import ListNotations.
Local Open Scope N_scope.

(* ---------------------------------------------------------------- streaming, transform abstract *)
Section Streaming.
  Variable T : list N -> list N -> list N.
  Variable st0 : list N.
  Variable base : N.
  Hypothesis Hbase : base mod 512 = 0.
  Let upd_ := h256_update T 64 3 63.
  Let pad_ := h256_pad T PAD_spec 56 64 3 63.

  Definition hinv256 (c : ctx256) (m : list N) : Prop :=
    Inv T st0 (c256_state c) (c256_buf c) m /\
    c256_count c = (base + 8 * N.of_nat (length m)) mod M64.

  Lemma hinv256_r c m : hinv256 c m -> c256_r 3 63 c = (length m mod 64)%nat.
  Proof.
    intros [_ Hc]. unfold c256_r. rewrite Hc, residue_of_count_base by exact Hbase. lia.
  Qed.

  Lemma h256_update_inv c m d : hinv256 c m -> hinv256 (upd_ c d) (m ++ d).
  Proof.
    intros H. unfold upd_, h256_update.
    destruct (N.eqb_spec (N.of_nat (length d)) 0) as [Hz|Hnz].
    - destruct d; [|simpl in Hz; lia]. rewrite app_nil_r. exact H.
    - rewrite (hinv256_r c m H). change (N.to_nat 64) with 64%nat.
      destruct H as [HI Hc].
      pose proof (update_body_inv T st0 _ _ _ d HI) as HU.
      destruct (update_body T 64 (c256_state c) (c256_buf c) (length m mod 64) d) as [st bf].
      cbn [fst snd] in HU. split; cbn [c256_state c256_buf c256_count]; [exact HU|].
      rewrite Hc, count_step_base, app_length. f_equal. lia.
  Qed.

  Lemma h256_updates_inv parts : forall c m, hinv256 c m ->
    hinv256 (fold_left upd_ parts c) (m ++ concat parts).
  Proof.
    induction parts as [|p ps IH]; intros c m H; cbn [fold_left concat].
    - rewrite app_nil_r. exact H.
    - rewrite app_assoc. apply IH. apply h256_update_inv. exact H.
  Qed.

  Lemma h256_pad_state c m : hinv256 c m ->
    c256_state (pad_ c) = fold_left T (blocks (md_pad_from be64enc base m)) st0.
  Proof.
    intros H. pose proof (hinv256_r c m H) as Hr. destruct H as [HI Hc].
    apply Inv_residue in HI. destruct HI as (F & R & Hm & [q HF] & HR & Hst & Hb & HbR).
    unfold pad_, h256_pad. rewrite Hr, <- HR.
    change (N.to_nat 56) with 56%nat. change (N.to_nat 64) with 64%nat.
    assert (HR64 : (length R < 64)%nat) by lia.
    unfold md_pad_from. unfold M64 in Hc. rewrite <- Hc.
    replace (md_zeros (length m)) with ((119 - length R) mod 64)%nat by (unfold md_zeros; rewrite HR; reflexivity).
    set (enc := be64enc (c256_count c)).
    assert (Henc : length enc = 8%nat) by reflexivity.
    subst m.
    destruct (Nat.ltb_spec (length R) 56) as [Hlt|Hge].
    - cbn [c256_state].
      replace (56 - length R)%nat with (S (55 - length R)) by lia.
      rewrite firstn_PAD by lia.
      set (P := 128 :: repeat 0 (55 - length R)).
      assert (HP : length P = (56 - length R)%nat) by (unfold P; cbn [length]; rewrite repeat_length; lia).
      rewrite (buf_write_at _ _ R P HbR).
      assert (Hf : firstn 56 (R ++ P ++ skipn (length R + length P) (c256_buf c)) = R ++ P).
      { rewrite app_assoc, firstn_app, firstn_all2 by (rewrite app_length; lia).
        rewrite app_length. replace (56 - (length R + length P))%nat with 0%nat by lia.
        cbn [firstn]. apply app_nil_r. }
      rewrite (buf_write_at _ 56 (R ++ P) enc Hf).
      rewrite skipn_all2 by (rewrite !app_length, skipn_length; lia).
      rewrite app_nil_r.
      replace ((119 - length R) mod 64)%nat with (55 - length R)%nat by lia.
      rewrite <- (app_assoc F R).
      rewrite (blocks_app F _ q HF), fold_left_app, <- Hst.
      change ([128] ++ repeat 0 (55 - length R) ++ enc) with (P ++ enc).
      rewrite blocks_one by (rewrite !app_length; lia).
      rewrite <- (app_assoc R P enc). reflexivity.
    - cbn [c256_state].
      replace (64 - length R)%nat with (S (63 - length R)) by lia.
      rewrite firstn_PAD by lia.
      set (P := 128 :: repeat 0 (63 - length R)).
      assert (HP : length P = (64 - length R)%nat) by (unfold P; cbn [length]; rewrite repeat_length; lia).
      rewrite (buf_write_at _ _ R P HbR).
      rewrite skipn_all2 by lia. rewrite app_nil_r.
      assert (HRP : length (R ++ P) = 64%nat) by (rewrite app_length; lia).
      unfold buf_write at 2. cbn [firstn app Nat.add]. rewrite repeat_length.
      assert (Hf : firstn 56 (repeat 0 56 ++ skipn 56 (R ++ P)) = repeat 0 56).
      { rewrite firstn_app, repeat_length, Nat.sub_diag. rewrite firstn_O, app_nil_r.
        apply firstn_all2. rewrite repeat_length. lia. }
      rewrite (buf_write_at _ 56 (repeat 0 56) enc Hf).
      rewrite skipn_all2 by (rewrite app_length, repeat_length, skipn_length; lia).
      rewrite app_nil_r.
      replace ((119 - length R) mod 64)%nat with ((63 - length R) + 56)%nat by lia.
      rewrite repeat_app_plus.
      rewrite <- (app_assoc F R).
      rewrite (blocks_app F _ q HF), fold_left_app, <- Hst.
      replace (R ++ 128 :: (repeat 0 (63 - length R) ++ repeat 0 56) ++ enc)
        with ((R ++ P) ++ (repeat 0 56 ++ enc))
        by (unfold P; rewrite <- !app_assoc; cbn [app]; reflexivity).
      rewrite (blocks_app (R ++ P) _ 1) by lia.
      rewrite fold_left_app, (blocks_one (R ++ P)) by exact HRP.
      rewrite blocks_one by (rewrite app_length, repeat_length; lia).
      reflexivity.
  Qed.
End Streaming.

(* ---------------------------------------------------------------- blocks of byte strings *)
Lemma Forall_firstn_wf8 n : forall l, Forall wf8 l -> Forall wf8 (firstn n l).
Proof.
  induction n as [|n IH]; intros l H; [constructor|]. destruct l as [|x l]; [constructor|].
  inversion H; subst. cbn [firstn]. constructor; [assumption|]. apply IH. assumption.
Qed.
Lemma Forall_skipn_wf8 n : forall l, Forall wf8 l -> Forall wf8 (skipn n l).
Proof.
  induction n as [|n IH]; intros l H; [exact H|]. destruct l as [|x l]; [constructor|].
  inversion H; subst. cbn [skipn]. apply IH. assumption.
Qed.
Lemma chunks_wf8 k : forall l, Forall wf8 l -> Forall (Forall wf8) (chunks k l).
Proof.
  induction k as [|k IH]; intros l H; cbn [chunks]; constructor.
  - apply Forall_firstn_wf8. exact H.
  - apply IH. apply Forall_skipn_wf8. exact H.
Qed.
Lemma Forall_repeat0_wf8 n : Forall wf8 (repeat 0 n).
Proof. induction n; cbn [repeat]; constructor; [reflexivity | assumption]. Qed.
Lemma be64enc_wf8 x : Forall wf8 (be64enc x).
Proof. unfold be64enc. repeat constructor; apply byte0_lt. Qed.
Lemma md_pad_from_wf8 bits m : Forall wf8 m -> Forall wf8 (md_pad_from be64enc bits m).
Proof.
  intros H. unfold md_pad_from. apply Forall_app. split; [exact H|].
  apply Forall_app. split; [repeat constructor|].
  apply Forall_app. split; [apply Forall_repeat0_wf8 | apply be64enc_wf8].
Qed.
Lemma concat_wf8 parts : Forall (Forall wf8) parts -> Forall wf8 (concat parts).
Proof.
  induction 1 as [|p ps Hp _ IH]; cbn [concat]; [constructor|]. apply Forall_app. split; assumption.
Qed.

(* a transform that agrees with the standard's on well-formed arguments folds to the same value *)
Definition agrees (T : list N -> list N -> list N) : Prop :=
  forall st blk, length st = 8%nat -> length blk = 64%nat -> Forall wf8 blk -> T st blk = f256_compress st blk.

Lemma fold_agrees T : agrees T -> forall bs st, length st = 8%nat ->
  Forall (fun b => length b = 64%nat) bs -> Forall (Forall wf8) bs ->
  fold_left T bs st = fold_left f256_compress bs st.
Proof.
  intros HT. induction bs as [|b bs IH]; intros st Hst Hl Hw; [reflexivity|].
  inversion Hl; subst. inversion Hw; subst. cbn [fold_left].
  rewrite HT by assumption. apply IH; [apply f256_compress_length; exact Hst | assumption | assumption].
Qed.

Lemma sha256_transform_hw_agrees hw : agrees (sha256_transform_hw hw).
Proof.
  intros st blk Hst Hb Hw.
  destruct hw;
    [ change (sha256_transform_hw HW_SOFTWARE) with sha256_transform
    | change (sha256_transform_hw HW_X86_SHANI) with sha256_transform_shani
    | change (sha256_transform_hw HW_X86_SSE2) with sha256_transform_sse2 ].
  - apply repo_sha256_transform_is_compress; assumption.
  - apply sha256_transform_shani_eq_fips; assumption.
  - apply sha256_transform_sse2_eq_fips; assumption.
Qed.

(* ---------------------------------------------------------------- the theorems *)
Lemma sha256_update_hw_eq hw : sha256_update_hw hw = h256_update (sha256_transform_hw hw) 64 3 63.
Proof.
  destruct repo_sha256_limits as (L1 & L2 & L3 & L4).
  unfold sha256_update_hw. rewrite L2, L3, L4. reflexivity.
Qed.
Lemma sha256_pad_hw_eq hw :
  h256_pad (sha256_transform_hw hw) sha256_PAD sha256_padlim sha256_blk sha256_cshift sha256_rmask =
  h256_pad (sha256_transform_hw hw) PAD_spec 56 64 3 63.
Proof.
  destruct repo_sha256_limits as (L1 & L2 & L3 & L4).
  rewrite repo_sha256_PAD_eq_spec, L1, L2, L3, L4. reflexivity.
Qed.

(* from any well-formed context holding bytes: the digest is the standard's continuation *)
Theorem sha256_resume_hw hw c parts : wf256 c -> Forall wf8 (c256_buf c) -> Forall (Forall wf8) parts ->
  fst (sha256_final_hw hw (fold_left (sha256_update_hw hw) parts c)) =
  SHA256_resume (c256_state c) (c256_count c) (c256_buf c) (concat parts).
Proof.
  intros (Hst & Hbuf & Hc8 & Hc64) Hbw Hpw.
  set (T := sha256_transform_hw hw).
  set (r := N.to_nat ((c256_count c / 8) mod 64)).
  set (base := c256_count c - 8 * N.of_nat r).
  assert (Hr : (r < 64)%nat) by (unfold r; lia).
  assert (Hbase : base mod 512 = 0) by (unfold base, r; lia).
  assert (HR : length (firstn r (c256_buf c)) = r) by (rewrite firstn_length; lia).
  assert (H0 : hinv256 T (c256_state c) base c (firstn r (c256_buf c))).
  { split.
    - exists [], (firstn r (c256_buf c)). rewrite HR. repeat split; auto.
      exists 0%nat. reflexivity.
    - rewrite HR. unfold base, r, M64 in *. lia. }
  rewrite sha256_update_hw_eq.
  pose proof (h256_updates_inv T _ _ Hbase parts c _ H0) as H1.
  pose proof (h256_pad_state T _ _ Hbase _ _ H1) as H2.
  unfold sha256_final_hw, h256_final, h256_final_internal. cbn [fst].
  rewrite sha256_pad_hw_eq. fold T. rewrite H2.
  unfold SHA256_resume, md_resume. fold r. fold base. f_equal.
  apply fold_agrees; [apply sha256_transform_hw_agrees | exact Hst | apply blocks_all64 |].
  unfold blocks. apply chunks_wf8. apply md_pad_from_wf8. apply Forall_app. split.
  - apply Forall_firstn_wf8. exact Hbw.
  - apply concat_wf8. exact Hpw.
Qed.

Lemma wf8_init_buf : Forall wf8 (c256_buf sha256_init).
Proof. apply Forall_repeat0_wf8. Qed.

(* SHA256_Init / Update* / Final in any configuration = FIPS 180-4 *)
Theorem sha256_stream_hw_is_spec hw parts : Forall (Forall wf8) parts ->
  sha256_stream_hw hw parts = SHA256_spec (concat parts).
Proof.
  intros Hp. unfold sha256_stream_hw.
  rewrite sha256_resume_hw; [| rewrite sha256_init_eq; apply wf256_init | apply wf8_init_buf | exact Hp].
  rewrite sha256_init_eq. reflexivity.
Qed.

(* ... = what the portable configuration returns, whatever the two partitions are *)
Theorem sha256_stream_hw_eq_portable hw parts parts' :
  Forall (Forall wf8) parts -> concat parts = concat parts' ->
  sha256_stream_hw hw parts = fst (sha256_final (fold_left sha256_update parts' sha256_init)).
Proof.
  intros Hp He. rewrite sha256_stream_hw_is_spec by exact Hp.
  rewrite repo_sha256_streaming_all, He. reflexivity.
Qed.

Theorem sha256_stream_any_two_configs hw1 hw2 parts1 parts2 :
  Forall (Forall wf8) parts1 -> Forall (Forall wf8) parts2 -> concat parts1 = concat parts2 ->
  sha256_stream_hw hw1 parts1 = sha256_stream_hw hw2 parts2.
Proof. intros H1 H2 He. rewrite !sha256_stream_hw_is_spec by assumption. rewrite He. reflexivity. Qed.

(* SHA256_Buf *)
Theorem sha256_buf_hw_is_spec hw m : Forall wf8 m -> sha256_buf_hw hw m = SHA256_spec m.
Proof.
  intros Hm.
  assert (E : sha256_buf_hw hw m = sha256_stream_hw hw [m]) by reflexivity.
  rewrite E, sha256_stream_hw_is_spec by (constructor; [exact Hm | constructor]).
  cbn [concat]. rewrite app_nil_r. reflexivity.
Qed.

(* hwtest() succeeds for both accelerated transforms, so hwaccel_init() selects by build and CPU
   feature only: SHA-NI (+SSSE3) first, then SSE2, else software *)
Theorem sha256_hwtest_passes : forallb sha256_hwtest [0; 1; 2] = true.
Proof. vm_compute. reflexivity. Qed.

Theorem sha256_hwaccel_init_by_feature b1 b2 c1 c2 c3 :
  sha256_hwaccel_init b1 b2 c1 c2 c3 =
  if b1 && (c1 && c2) then HW_X86_SHANI else if b2 && c3 then HW_X86_SSE2 else HW_SOFTWARE.
Proof.
  pose proof sha256_hwtest_passes as H. cbn [forallb] in H.
  apply andb_prop in H. destruct H as [_ H]. apply andb_prop in H. destruct H as [H1 H].
  apply andb_prop in H. destruct H as [H2 _].
  unfold sha256_hwaccel_init.
  change shacfg_validate with [(1, 1); (2, 2); (3, 3)].
  cbn [validate cpu_check hw_of_code]. rewrite H1, H2, !andb_true_r. cbn [andb]. reflexivity.
Qed.

(* non-vacuity: a three-part byte message *)
Example sha256_stream_hw_instance :
  let parts := [[97; 98]; []; [99]] in
  Forall (Forall wf8) parts /\
  sha256_stream_hw HW_X86_SHANI parts = sha256_stream_hw HW_X86_SSE2 [[97; 98; 99]] /\
  firstn 4 (sha256_stream_hw HW_X86_SSE2 parts) = [186; 120; 22; 191].
Proof.
  cbv zeta. split; [repeat constructor|]. split; vm_compute; reflexivity.
Qed.
