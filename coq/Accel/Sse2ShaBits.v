(* Bit-level facts behind the two accelerated SHA-256 transforms, each proved for ALL operands by
   N.testbit extensionality (no enumeration of values):
     - well-formedness (lanes < 2^32, bytes < 2^8) is preserved by every word operation used;
     - byte decomposition / recomposition of a lane (little and big endian);
     - 16-bit views: join16 (lo16 x) (hi16 x) = x; the lane function computed by mm_bswap_epi32
       (shift the 16-bit halves by 8 both ways, or, swap the halves) is the byte reversal;
     - the 64-bit-shift emulation of a 32-bit rotation: the low half of (x:x) >> n is ROTR(x, n). *)
From Coq Require Import Arith NArith ZArith List Lia ZifyNat ZifyN Bool.
From LCP Require Import Alg.Words Alg.WordsProofs Accel.X86Vec.
Import ListNotations.
Local Open Scope N_scope.

(* ---------------------------------------------------------------- testbit of each operation *)
Lemma tb_shiftl a n m : N.testbit (N.shiftl a n) m = (n <=? m) && N.testbit a (m - n).
Proof.
  destruct (N.leb_spec n m) as [H|H].
  - rewrite N.shiftl_spec_high' by exact H. reflexivity.
  - rewrite N.shiftl_spec_low by exact H. reflexivity.
Qed.
Lemma tb_shiftr a n m : N.testbit (N.shiftr a n) m = N.testbit a (m + n).
Proof. apply N.shiftr_spec'. Qed.
Lemma tb_ones n m : N.testbit (N.ones n) m = (m <? n).
Proof.
  destruct (N.ltb_spec m n) as [H|H].
  - apply N.ones_spec_low. exact H.
  - apply N.ones_spec_high. exact H.
Qed.
Lemma tb_w32 x m : N.testbit (w32 x) m = (m <? 32) && N.testbit x m.
Proof. unfold w32. change mask32 with (N.ones 32). rewrite N.land_spec, tb_ones. apply andb_comm. Qed.
Lemma tb_w64 x m : N.testbit (w64 x) m = (m <? 64) && N.testbit x m.
Proof. unfold w64. change mask64 with (N.ones 64). rewrite N.land_spec, tb_ones. apply andb_comm. Qed.
Lemma tb_byte0 x m : N.testbit (byte0 x) m = (m <? 8) && N.testbit x m.
Proof. unfold byte0. change 255 with (N.ones 8). rewrite N.land_spec, tb_ones. apply andb_comm. Qed.
Lemma tb_lo16 x m : N.testbit (lo16 x) m = (m <? 16) && N.testbit x m.
Proof. unfold lo16. change mask16 with (N.ones 16). rewrite N.land_spec, tb_ones. apply andb_comm. Qed.
Lemma tb_mask16 x m : N.testbit (N.land x mask16) m = (m <? 16) && N.testbit x m.
Proof. exact (tb_lo16 x m). Qed.

(* x < 2^k  <->  all bits from k up are clear *)
Definition below (k x : N) : Prop := forall m, k <= m -> N.testbit x m = false.
Lemma lt_below k x : x < 2 ^ k -> below k x.
Proof.
  intros H m Hm. destruct (N.eq_dec x 0) as [->|Hx]; [apply N.bits_0|].
  apply N.bits_above_log2. apply N.log2_lt_pow2; [lia|].
  apply N.lt_le_trans with (2 ^ k); [exact H|]. apply N.pow_le_mono_r; lia.
Qed.
Lemma below_lt k x : below k x -> x < 2 ^ k.
Proof.
  intros H. assert (E : x = N.land x (N.ones k)).
  { apply N.bits_inj. intro m. rewrite N.land_spec, tb_ones.
    destruct (N.ltb_spec m k) as [L|L]; [rewrite andb_true_r; reflexivity|].
    rewrite andb_false_r. apply H. exact L. }
  rewrite E, N.land_ones. apply N.mod_lt. apply N.pow_nonzero. discriminate.
Qed.

Definition wf32 (x : N) : Prop := x < M32.
Definition wf8 (x : N) : Prop := x < 256.
Lemma wf32_below x : wf32 x -> below 32 x. Proof. apply (lt_below 32). Qed.
Lemma below_wf32 x : below 32 x -> wf32 x. Proof. apply (below_lt 32). Qed.
Lemma wf8_below x : wf8 x -> below 8 x. Proof. apply (lt_below 8). Qed.
Lemma below_wf8 x : below 8 x -> wf8 x. Proof. apply (below_lt 8). Qed.

(* ---------------------------------------------------------------- the tactic *)
Ltac tb_rewrite :=
  repeat first
    [ rewrite tb_w32 | rewrite tb_w64 | rewrite tb_byte0 | rewrite tb_lo16 | rewrite tb_mask16
    | rewrite N.lor_spec | rewrite N.lxor_spec | rewrite N.land_spec
    | rewrite tb_shiftr | rewrite tb_shiftl | rewrite tb_ones | rewrite N.bits_0 ].
(* decide every comparison of the goal by lia (the bit index must already be confined to a region) *)
Ltac tb_guards :=
  repeat match goal with
  | |- context [N.leb ?a ?b] =>
    first [ rewrite (proj2 (N.leb_le a b)) by lia | rewrite (proj2 (N.leb_gt a b)) by lia ]
  | |- context [N.ltb ?a ?b] =>
    first [ rewrite (proj2 (N.ltb_lt a b)) by lia | rewrite (proj2 (N.ltb_ge a b)) by lia ]
  end.
(* bits above the bound of a bounded operand are clear *)
Ltac tb_high :=
  repeat match goal with
  | H : below ?k ?p |- context [N.testbit ?p ?e] => rewrite (H e) by lia
  end.
Ltac tb_bool :=
  repeat first
    [ rewrite andb_true_l | rewrite andb_true_r | rewrite andb_false_l | rewrite andb_false_r
    | rewrite orb_false_l | rewrite orb_false_r | rewrite orb_true_l | rewrite orb_true_r
    | rewrite xorb_false_l | rewrite xorb_false_r ].
Ltac tb_finish :=
  tb_guards; tb_bool; tb_high; tb_bool;
  first [ reflexivity
        | f_equal; lia
        | f_equal; f_equal; lia
        | f_equal; [f_equal; lia | f_equal; lia] ].
(* split the bit index i at the given constant *)
Ltac tb_split i c := destruct (N.lt_ge_cases i c).

(* ---------------------------------------------------------------- closure of wf32 *)
Lemma wf32_lxor a b : wf32 a -> wf32 b -> wf32 (N.lxor a b).
Proof.
  intros Ha%wf32_below Hb%wf32_below. apply below_wf32. intros m Hm.
  rewrite N.lxor_spec, Ha, Hb by exact Hm. reflexivity.
Qed.
Lemma wf32_lor a b : wf32 a -> wf32 b -> wf32 (N.lor a b).
Proof.
  intros Ha%wf32_below Hb%wf32_below. apply below_wf32. intros m Hm.
  rewrite N.lor_spec, Ha, Hb by exact Hm. reflexivity.
Qed.
Lemma wf32_land_l a b : wf32 a -> wf32 (N.land a b).
Proof.
  intros Ha%wf32_below. apply below_wf32. intros m Hm.
  rewrite N.land_spec, Ha by exact Hm. reflexivity.
Qed.
Lemma wf32_shiftr a n : wf32 a -> wf32 (N.shiftr a n).
Proof.
  intros Ha%wf32_below. apply below_wf32. intros m Hm.
  rewrite tb_shiftr. apply Ha. lia.
Qed.
Lemma wf32_w32 x : wf32 (w32 x).
Proof. unfold wf32. rewrite w32_mod. apply N.mod_lt. discriminate. Qed.
Lemma wf32_add32 a b : wf32 (add32 a b).
Proof. apply add32_lt. Qed.
Lemma wf32_rotr32 x n : wf32 x -> wf32 (rotr32 x n).
Proof. intros H. unfold rotr32. apply wf32_lor; [apply wf32_shiftr; exact H | apply wf32_w32]. Qed.
Lemma wf32_0 : wf32 0. Proof. reflexivity. Qed.
Lemma w32_id x : wf32 x -> w32 x = x.
Proof. intros H. rewrite w32_mod. apply N.mod_small. exact H. Qed.
Lemma add32_0_r x : wf32 x -> add32 x 0 = x.
Proof. intros H. unfold add32. rewrite N.add_0_r. apply w32_id. exact H. Qed.

(* ---------------------------------------------------------------- bytes of a lane *)
Lemma le32dec4_le32enc x : wf32 x ->
  le32dec4 (byte0 x) (byte0 (N.shiftr x 8)) (byte0 (N.shiftr x 16)) (byte0 (N.shiftr x 24)) = x.
Proof.
  intros H%wf32_below. unfold le32dec4. apply N.bits_inj. intro i. tb_rewrite.
  tb_split i 8; [tb_finish|]. tb_split i 16; [tb_finish|]. tb_split i 24; [tb_finish|].
  tb_split i 32; tb_finish.
Qed.

Lemma byte_of_le32dec4 p0 p1 p2 p3 : wf8 p0 -> wf8 p1 -> wf8 p2 -> wf8 p3 ->
  let x := le32dec4 p0 p1 p2 p3 in
  byte0 x = p0 /\ byte0 (N.shiftr x 8) = p1 /\ byte0 (N.shiftr x 16) = p2 /\ byte0 (N.shiftr x 24) = p3.
Proof.
  intros H0%wf8_below H1%wf8_below H2%wf8_below H3%wf8_below x. unfold x, le32dec4.
  repeat split; apply N.bits_inj; intro i; tb_rewrite; (tb_split i 8; tb_finish).
Qed.
Lemma le32enc_le32dec4 p0 p1 p2 p3 : wf8 p0 -> wf8 p1 -> wf8 p2 -> wf8 p3 ->
  le32enc (le32dec4 p0 p1 p2 p3) = [p0; p1; p2; p3].
Proof.
  intros H0 H1 H2 H3. destruct (byte_of_le32dec4 p0 p1 p2 p3 H0 H1 H2 H3) as (E0 & E1 & E2 & E3).
  unfold le32enc. rewrite E0, E1, E2, E3. reflexivity.
Qed.
Lemma wf32_le32dec4 p0 p1 p2 p3 : wf8 p0 -> wf8 p1 -> wf8 p2 -> wf8 p3 -> wf32 (le32dec4 p0 p1 p2 p3).
Proof.
  intros H0%wf8_below H1%wf8_below H2%wf8_below H3%wf8_below. apply below_wf32. intros i Hi.
  unfold le32dec4. tb_rewrite. tb_finish.
Qed.
Lemma be32dec4_le32dec4 p0 p1 p2 p3 : be32dec4 p0 p1 p2 p3 = le32dec4 p3 p2 p1 p0.
Proof. reflexivity. Qed.
Lemma wf32_be32dec4 p0 p1 p2 p3 : wf8 p0 -> wf8 p1 -> wf8 p2 -> wf8 p3 -> wf32 (be32dec4 p0 p1 p2 p3).
Proof. intros. rewrite be32dec4_le32dec4. apply wf32_le32dec4; assumption. Qed.
Lemma wf8_byte0 x : wf8 (byte0 x).
Proof. apply byte0_lt. Qed.

(* ---------------------------------------------------------------- 16-bit views *)
Lemma join16_lo_hi x : join16 (lo16 x) (hi16 x) = x.
Proof.
  unfold join16, hi16. apply N.bits_inj. intro i. tb_rewrite.
  tb_split i 16; tb_finish.
Qed.
Lemma wf32_join16 lo hi : below 16 lo -> below 16 hi -> wf32 (join16 lo hi).
Proof.
  intros Hl Hh. apply below_wf32. intros i Hi. unfold join16. tb_rewrite. tb_finish.
Qed.
Lemma below16_lo16 x : below 16 (lo16 x).
Proof. intros i Hi. tb_rewrite. tb_finish. Qed.
Lemma below16_hi16 x : wf32 x -> below 16 (hi16 x).
Proof. intros H%wf32_below i Hi. unfold hi16. tb_rewrite. tb_finish. Qed.

(* what mm_bswap_epi32 does to one lane (shift counts 8, both shuffles swapping the two halves) *)
Definition bswap_lane (x : N) : N :=
  let y := N.lor (join16 (sll16 8 (lo16 x)) (sll16 8 (hi16 x)))
                 (join16 (srl16 8 (lo16 x)) (srl16 8 (hi16 x))) in
  join16 (hi16 y) (lo16 y).

Lemma bswap_lane_bytes p0 p1 p2 p3 : wf8 p0 -> wf8 p1 -> wf8 p2 -> wf8 p3 ->
  bswap_lane (le32dec4 p0 p1 p2 p3) = be32dec4 p0 p1 p2 p3.
Proof.
  intros H0%wf8_below H1%wf8_below H2%wf8_below H3%wf8_below.
  unfold bswap_lane, be32dec4, le32dec4, join16, hi16, sll16, srl16.
  change (15 <? 8) with false. cbv iota.
  apply N.bits_inj. intro i. tb_rewrite.
  tb_split i 8; [tb_finish|]. tb_split i 16; [tb_finish|]. tb_split i 24; [tb_finish|].
  tb_split i 32; tb_finish.
Qed.

(* ---------------------------------------------------------------- 64-bit shifts of a doubled lane *)
Lemma quad_shift_rotr x n : wf32 x -> n <= 32 -> w32 (N.shiftr (quad x x) n) = rotr32 x n.
Proof.
  intros H%wf32_below Hn. unfold quad, rotr32. apply N.bits_inj. intro i. tb_rewrite.
  tb_split i 32; [|tb_finish].
  tb_split i (32 - n); tb_finish.
Qed.
