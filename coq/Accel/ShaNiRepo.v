(* The model of alg/sha256_shani.c instantiated with the constants REGENERATED from /repo
   (Gen/Repo_accel.v).  Definitions only. *)
From Coq Require Import NArith List.
From LCP Require Import Gen.Repo_accel Accel.X86Vec Accel.ShaNi.
Import ListNotations.
Local Open Scope N_scope.

Definition shani_repo_consts : shani_consts :=
  {| n_SHUF := shani_SHUF; n_klanes := shani_klanes; n_rnd4_srl := shani_rnd4_srl;
     n_msg_mod := shani_msg_mod; n_msg_offs := shani_msg_offs; n_msg_alignr := shani_msg_alignr;
     n_rnd_mod := shani_rnd_mod; n_msg_limit := shani_msg_limit; n_msg_ahead := shani_msg_ahead;
     n_state_offs := shani_state_offs; n_state_shufs := shani_state_shufs;
     n_block_offs := shani_block_offs; n_rndmsg := shani_rndmsg |}.

Definition sha256_transform_shani : list N -> list N -> list N := transform_shani shani_repo_consts.
