(* C03-M1: the SSE4.2 path of CRC32C computes the portable function.
   - the CRC32 instruction (SDM semantics) over the bits of its source = the bit-serial register;
     hence _mm_crc32_u8 = the table step, _mm_crc32_u64 of a little-endian load = eight of them;
   - the pre_block / in_block / tail arithmetic of CRC32C_Update_SSE42 visits every byte exactly
     once, never reads outside the buffer, and no assert fires;
   - with the len >= 8 routing, CRC32C_Update is the same function in every configuration. *)
From Coq Require Import Arith NArith ZArith List Lia Bool ZifyNat ZifyN.
From LCP Require Import Base.CheckedMem Gen.Repo_crc Alg.GF2Poly Alg.Crc32c Alg.Crc32cRepo Alg.Crc32cGF2Proofs Alg.Crc32cProofs Accel.Sse42Crc Accel.Sse42CrcRepo.
Import ListNotations.
Local Open Scope N_scope.

Ltac Zify.zify_post_hook ::= Z.div_mod_to_equations.

(* ------------------------------------------------------------------ *)
(* the instruction                                                     *)
(* ------------------------------------------------------------------ *)
Theorem crc32_insn_eq_bits w dest src : dest < 2 ^ 32 ->
  crc32_insn w dest src = crc_bits dest (nbits_lsb w src).
Proof.
  intros Hd. unfold crc32_insn. rewrite pmod_lxor.
  change 32 with (N.of_nat 32) at 1. rewrite !pmod_shiftl.
  rewrite (pmod_small (reflect 32 dest)) by (apply (reflect_lt 32)).
  rewrite (reflect_unfold w src). unfold poly_of_bits at 1. rewrite pmod_poly_of_bits_from.
  change (pmod 0 castagnoli) with 0.
  pose proof (crc_bits_algebra (nbits_lsb w src) 0 (reflect 32 dest) ltac:(reflexivity) (reflect_lt 32 dest)) as H.
  rewrite nbits_lsb_length, xpow_0, N.lxor_0_l, (reflect32_invol dest Hd) in H.
  symmetry. exact H.
Qed.

Lemma crc32_u8_eq_bits s b : s < 2 ^ 32 -> crc32_u8 s b = crc_byte_bits s b.
Proof. intros H. unfold crc32_u8. rewrite crc32_insn_eq_bits by exact H. symmetry. apply crc_byte_bits_unfold. Qed.

(* _mm_crc32_u8 is the table-driven byte step of the portable code *)
Theorem crc32_u8_eq_table_step_proof s b : s < 2 ^ 32 -> b < 256 -> crc32_u8 s b = crc_byte_step s b.
Proof.
  intros Hs Hb. rewrite crc32_u8_eq_bits by exact Hs. symmetry. apply crc_table_step_eq_bits_proof, Hb.
Qed.

(* bits of a little-endian word *)
Lemma nbits_lsb_app n m x : nbits_lsb (n + m) x = nbits_lsb n x ++ nbits_lsb m (x / 2 ^ N.of_nat n).
Proof.
  unfold nbits_lsb. rewrite seq_app, map_app. f_equal. cbn [Nat.add].
  rewrite map_seq_shift. apply map_ext. intros i. rewrite N.div_pow2_bits, Nat2N.inj_add. reflexivity.
Qed.

Lemma nbits_lsb_mod n x : nbits_lsb n (x mod 2 ^ N.of_nat n) = nbits_lsb n x.
Proof.
  unfold nbits_lsb. apply map_ext_in. intros i Hi. apply in_seq in Hi.
  apply N.mod_pow2_bits_low. lia.
Qed.

Lemma nbits_le_word bs : bytes_ok bs -> nbits_lsb (8 * length bs) (le_word bs) = bits_lsb bs.
Proof.
  induction bs as [|b r IH]; intros H; [reflexivity|].
  inversion H as [|? ? Hb Hr]; subst. unfold is_byte in Hb.
  cbn [length le_word]. replace (8 * S (length r))%nat with (8 + 8 * length r)%nat by lia.
  rewrite nbits_lsb_app, bits_lsb_unfold. cbn [flat_map]. rewrite <- bits_lsb_unfold. f_equal.
  - rewrite <- nbits_lsb_mod. f_equal. change (2 ^ N.of_nat 8) with 256.
    rewrite N.mul_comm, N.mod_add by discriminate. apply N.mod_small, Hb.
  - rewrite <- (IH Hr). f_equal. change (2 ^ N.of_nat 8) with 256.
    rewrite N.mul_comm, N.div_add by discriminate. rewrite N.div_small by exact Hb. reflexivity.
Qed.

(* the CRC32 instruction applied to a little-endian load of n bytes = n byte steps *)
Theorem crc32_insn_le_word s bs : s < 2 ^ 32 -> bytes_ok bs ->
  crc32_insn (8 * length bs) s (le_word bs) = fold_left crc_byte_step bs s.
Proof.
  intros Hs Hb. rewrite crc32_insn_eq_bits by exact Hs. rewrite nbits_le_word by exact Hb.
  symmetry. apply fold_byte_step_eq_bits, Hb.
Qed.

Lemma crc32_u64_le s bs : s < 2 ^ 32 -> bytes_ok bs -> length bs = 8%nat ->
  crc32_u64 s (le_word bs) = fold_left crc_byte_step bs s.
Proof. intros Hs Hb Hl. rewrite <- crc32_insn_le_word by assumption. rewrite Hl. reflexivity. Qed.

Lemma crc32_u32_le s bs : s < 2 ^ 32 -> bytes_ok bs -> length bs = 4%nat ->
  crc32_u32 s (le_word bs) = fold_left crc_byte_step bs s.
Proof. intros Hs Hb Hl. rewrite <- crc32_insn_le_word by assumption. rewrite Hl. reflexivity. Qed.

Global Opaque crc32_insn.

(* ------------------------------------------------------------------ *)
(* reading through checked memory                                      *)
(* ------------------------------------------------------------------ *)
Lemma rd_mid pre b rest : rd (pre ++ b :: rest) (length pre) = Ok b.
Proof.
  replace (length pre) with (length pre + 0)%nat by lia. rewrite rd_app_r. reflexivity.
Qed.

Lemma rd_n_mid c : forall pre rest, rd_n (pre ++ c ++ rest) (length pre) (length c) = Ok c.
Proof.
  induction c as [|b c IH]; intros pre rest; [reflexivity|].
  cbn [length rd_n app]. rewrite rd_mid. cbn [bind].
  specialize (IH (pre ++ [b]) rest). rewrite app_length, <- app_assoc in IH. cbn [length app] in IH.
  replace (length pre + 1)%nat with (S (length pre)) in IH by lia. rewrite IH. reflexivity.
Qed.

(* ------------------------------------------------------------------ *)
(* the three loops                                                     *)
(* ------------------------------------------------------------------ *)
Lemma u8_loop_unfold fuel buf st i bound :
  u8_loop fuel buf st i bound =
  if i <? bound then
    match fuel with
    | O => OutOfFuel
    | S f => bind (rd buf (N.to_nat i)) (fun b => u8_loop f buf (crc32_u8 st b) (i + 1) bound)
    end
  else Ok (st, i).
Proof. destruct fuel; reflexivity. Qed.

Lemma u8_loop_ok mid : forall pre post fuel st,
  bytes_ok mid -> st < 2 ^ 32 -> (length mid <= fuel)%nat ->
  u8_loop fuel (pre ++ mid ++ post) st (N.of_nat (length pre)) (N.of_nat (length pre + length mid)) =
  Ok (fold_left crc_byte_step mid st, N.of_nat (length pre + length mid)).
Proof.
  induction mid as [|b m IH]; intros pre post fuel st Hb Hs Hf.
  - rewrite u8_loop_unfold. cbn [length]. rewrite Nat.add_0_r, N.ltb_irrefl. reflexivity.
  - inversion Hb as [|? ? Hb0 Hbm]; subst. unfold is_byte in Hb0.
    rewrite u8_loop_unfold. cbn [length] in *.
    assert (N.of_nat (length pre) <? N.of_nat (length pre + S (length m)) = true) as -> by (apply N.ltb_lt; lia).
    destruct fuel as [|f]; [lia|].
    rewrite Nat2N.id. cbn [app]. rewrite rd_mid. cbn [bind].
    rewrite crc32_u8_eq_table_step_proof by assumption.
    specialize (IH (pre ++ [b]) post f (crc_byte_step st b) Hbm (crc_byte_step_lt _ _ Hs Hb0) ltac:(lia)).
    rewrite app_length, <- app_assoc in IH. cbn [length app] in IH.
    replace (N.of_nat (length pre) + 1) with (N.of_nat (length pre + 1)) by lia.
    replace (length pre + S (length m))%nat with (length pre + 1 + length m)%nat by lia.
    rewrite IH. reflexivity.
Qed.

Section Blocks.
  Variable use64 : bool.

  Lemma blk_loop_unfold fuel buf st i in_block :
    blk_loop 8 use64 fuel buf st i in_block =
    if i <? in_block then
      match fuel with
      | O => OutOfFuel
      | S f =>
        bind (if use64 then
                bind (rd_n buf (N.to_nat i) 8) (fun bs => Ok (crc32_u64 st (le_word bs)))
              else
                bind (rd_n buf (N.to_nat i) 4) (fun lo =>
                bind (rd_n buf (N.to_nat (i + 4)) 4) (fun hi =>
                Ok (crc32_u32 (crc32_u32 st (le_word lo)) (le_word hi)))))
             (fun st' => blk_loop 8 use64 f buf st' (w64 (i + 8)) in_block)
      end
    else Ok (st, i).
  Proof. destruct fuel; reflexivity. Qed.

  (* one 8-byte block *)
  Lemma blk_body pre c rest st : length c = 8%nat -> bytes_ok c -> st < 2 ^ 32 ->
    (if use64 then
       bind (rd_n (pre ++ c ++ rest) (N.to_nat (N.of_nat (length pre))) 8) (fun bs => Ok (crc32_u64 st (le_word bs)))
     else
       bind (rd_n (pre ++ c ++ rest) (N.to_nat (N.of_nat (length pre))) 4) (fun lo =>
       bind (rd_n (pre ++ c ++ rest) (N.to_nat (N.of_nat (length pre) + 4)) 4) (fun hi =>
       Ok (crc32_u32 (crc32_u32 st (le_word lo)) (le_word hi)))))
    = Ok (fold_left crc_byte_step c st).
  Proof.
    intros Hl Hb Hs. destruct use64.
    - rewrite Nat2N.id. rewrite <- Hl at 1. rewrite rd_n_mid. cbn [bind].
      rewrite crc32_u64_le by assumption. reflexivity.
    - destruct c as [|b0 [|b1 [|b2 [|b3 [|b4 [|b5 [|b6 [|b7 [|]]]]]]]]]; try discriminate Hl.
      assert (bytes_ok [b0; b1; b2; b3] /\ bytes_ok [b4; b5; b6; b7]) as [Hlo Hhi].
      { change [b0; b1; b2; b3; b4; b5; b6; b7] with ([b0; b1; b2; b3] ++ [b4; b5; b6; b7]) in Hb.
        apply Forall_app in Hb. exact Hb. }
      rewrite Nat2N.id.
      change (pre ++ [b0; b1; b2; b3; b4; b5; b6; b7] ++ rest)
        with (pre ++ [b0; b1; b2; b3] ++ ([b4; b5; b6; b7] ++ rest)) at 1.
      rewrite (rd_n_mid [b0; b1; b2; b3] pre). cbn [bind].
      replace (N.to_nat (N.of_nat (length pre) + 4)) with (length (pre ++ [b0; b1; b2; b3]))
        by (rewrite app_length; cbn [length]; lia).
      replace (pre ++ [b0; b1; b2; b3; b4; b5; b6; b7] ++ rest)
        with ((pre ++ [b0; b1; b2; b3]) ++ [b4; b5; b6; b7] ++ rest) by (rewrite <- app_assoc; reflexivity).
      rewrite (rd_n_mid [b4; b5; b6; b7] (pre ++ [b0; b1; b2; b3])). cbn [bind].
      rewrite (crc32_u32_le st [b0; b1; b2; b3]) by (try assumption; reflexivity).
      rewrite (crc32_u32_le _ [b4; b5; b6; b7])
        by (try assumption; try reflexivity; apply fold_byte_step_lt; assumption).
      reflexivity.
  Qed.

  (* k blocks: the loop runs while i < in_block, where in_block is a byte COUNT, not an end index *)
  Lemma blk_loop_ok (k : nat) : forall mid pre post fuel st in_block,
    length mid = (8 * k)%nat -> bytes_ok mid -> st < 2 ^ 32 -> (k <= fuel)%nat ->
    N.of_nat (length pre + length mid) < 18446744073709551616 ->
    (k = 0%nat -> in_block <= N.of_nat (length pre)) ->
    (k <> 0%nat -> N.of_nat (length pre) + 8 * (N.of_nat k - 1) < in_block /\
                    in_block <= N.of_nat (length pre) + 8 * N.of_nat k) ->
    blk_loop 8 use64 fuel (pre ++ mid ++ post) st (N.of_nat (length pre)) in_block =
    Ok (fold_left crc_byte_step mid st, N.of_nat (length pre + length mid)).
  Proof.
    induction k as [|k IH]; intros mid pre post fuel st in_block Hl Hb Hs Hf Hw H0 Hk.
    - destruct mid; [|discriminate Hl]. rewrite blk_loop_unfold.
      assert (N.of_nat (length pre) <? in_block = false) as -> by (apply N.ltb_ge, H0; reflexivity).
      cbn [length fold_left]. rewrite Nat.add_0_r. reflexivity.
    - clear H0. destruct (Hk ltac:(discriminate)) as [Hlo Hhi].
      rewrite blk_loop_unfold.
      assert (N.of_nat (length pre) <? in_block = true) as -> by (apply N.ltb_lt; lia).
      destruct fuel as [|f]; [lia|].
      (* split off the first block *)
      assert (exists c m, mid = c ++ m /\ length c = 8%nat /\ length m = (8 * k)%nat) as (c & m & -> & Hc & Hm).
      { exists (firstn 8 mid), (skipn 8 mid). rewrite firstn_skipn. split; [reflexivity|].
        rewrite firstn_length, skipn_length. lia. }
      apply Forall_app in Hb. destruct Hb as [Hbc Hbm].
      rewrite <- app_assoc. rewrite (blk_body pre c (m ++ post) st Hc Hbc Hs). cbn [bind].
      rewrite app_length in Hw.
      assert (w64 (N.of_nat (length pre) + 8) = N.of_nat (length (pre ++ c))) as ->.
      { rewrite app_length, Hc. unfold w64. rewrite N.mod_small; lia. }
      replace (pre ++ c ++ m ++ post) with ((pre ++ c) ++ m ++ post) by (rewrite <- app_assoc; reflexivity).
      rewrite (IH m (pre ++ c) post f (fold_left crc_byte_step c st) in_block Hm Hbm).
      + rewrite fold_left_app.
        replace (length (pre ++ c) + length m)%nat with (length pre + length (c ++ m))%nat
          by (rewrite !app_length; lia).
        reflexivity.
      + apply fold_byte_step_lt; assumption.
      + lia.
      + rewrite app_length. lia.
      + intros ->. rewrite app_length, Hc. lia.
      + intros Hne. rewrite app_length, Hc. lia.
  Qed.
End Blocks.

(* ------------------------------------------------------------------ *)
(* CRC32C_Update_SSE42                                                  *)
(* ------------------------------------------------------------------ *)
Lemma repo_sse42_constants use64 :
  crc_update_sse42_gen use64 = update_sse42_m 8 8 7 8 7 8 8 use64.
Proof. reflexivity. Qed.

Lemma land7 x : N.land x 7 = x mod 8.
Proof. change 7 with (N.ones 3). rewrite N.land_ones. reflexivity. Qed.

(* the number of bytes before the first 8-byte boundary *)
Definition pre_of (addr : N) : N := (8 - addr mod 8) mod 8.

Lemma w64_mod8 x : (w64 x) mod 8 = x mod 8.
Proof.
  unfold w64. change 18446744073709551616 with (8 * 2305843009213693952).
  rewrite N.mod_mul_r by discriminate. rewrite N.mul_comm, N.mod_add by discriminate. apply N.mod_mod. discriminate.
Qed.

Lemma pre_block_eq addr : N.land (sub64 8 addr) 7 = pre_of addr.
Proof.
  rewrite land7. unfold sub64, pre_of. rewrite w64_mod8.
  pose proof (w64_mod8 addr) as E. assert (w64 addr < 18446744073709551616) as Hlt by (apply N.mod_lt; discriminate).
  generalize dependent (w64 addr). intros r E Hlt.
  rewrite <- E. pose proof (N.div_mod r 8 ltac:(discriminate)) as D.
  pose proof (N.mod_lt r 8 ltac:(discriminate)) as M.
  set (q := r / 8) in *. set (m := r mod 8) in *.
  replace (8 + 18446744073709551616 - r) with ((8 - m) + (2305843009213693952 - q) * 8) by lia.
  apply N.mod_add. discriminate.
Qed.

Lemma sse42_decomposed use64 addr st head body tail (k : nat) :
  bytes_ok head -> bytes_ok body -> bytes_ok tail -> st < 2 ^ 32 ->
  N.of_nat (length head) = pre_of addr -> length body = (8 * k)%nat -> (length tail < 8)%nat ->
  (8 <= length (head ++ body ++ tail))%nat ->
  N.of_nat (length (head ++ body ++ tail)) < 18446744073709551616 ->
  update_sse42_m 8 8 7 8 7 8 8 use64 addr st (head ++ body ++ tail) =
  Ok (fold_left crc_byte_step (head ++ body ++ tail) st).
Proof.
  intros Hbh Hbb Hbt Hs Hpre Hbody Htail Hmin Hmax.
  unfold update_sse42_m. set (buf := head ++ body ++ tail) in *.
  assert (length buf = (length head + 8 * k + length tail)%nat) as Hlen
    by (unfold buf; rewrite !app_length; lia).
  assert (N.of_nat (length buf) <? 8 = false) as -> by (apply N.ltb_ge; lia).
  rewrite pre_block_eq, <- Hpre.
  assert (pre_of addr < 8) as Hp8 by (unfold pre_of; lia).
  assert (sub64 (N.of_nat (length buf)) (N.of_nat (length head)) = N.of_nat (8 * k + length tail)) as ->
    by (unfold sub64, w64; lia).
  assert (sub64 (N.of_nat (8 * k + length tail)) (N.of_nat (8 * k + length tail) mod 8) = N.of_nat (8 * k)) as ->
    by (unfold sub64, w64; lia).
  (* head *)
  pose proof (u8_loop_ok head [] (body ++ tail) (S (length buf)) st Hbh Hs ltac:(lia)) as L1.
  cbn [app length Nat.add] in L1. change (N.of_nat 0) with 0 in L1. fold buf in L1. rewrite L1. cbn [bind].
  (* alignment assert *)
  assert (N.land (w64 (addr + N.of_nat (length head))) 7 =? 0 = true) as ->.
  { apply N.eqb_eq. rewrite land7, Hpre. unfold w64, pre_of. lia. }
  rewrite andb_false_r.
  (* blocks *)
  pose proof (fold_byte_step_lt head st Hs Hbh) as Hs1.
  pose proof (blk_loop_ok use64 k body head tail (S (length buf)) _ (N.of_nat (8 * k)) Hbody Hbb Hs1
                ltac:(lia) ltac:(lia) ltac:(lia) ltac:(lia)) as L2.
  fold buf in L2. rewrite L2. cbn [bind].
  (* tail assert *)
  assert (sub64 (N.of_nat (length buf)) (N.of_nat (length head + length body)) <? 8 = true) as ->
    by (apply N.ltb_lt; unfold sub64, w64; lia).
  cbn [negb].
  (* tail *)
  pose proof (fold_byte_step_lt body _ Hs1 Hbb) as Hs2.
  pose proof (u8_loop_ok tail (head ++ body) [] (S (length buf)) _ Hbt Hs2 ltac:(lia)) as L3.
  rewrite app_nil_r, <- app_assoc, app_length in L3. fold buf in L3.
  replace (length head + length body + length tail)%nat with (length buf) in L3 by lia.
  rewrite L3. cbn [bind]. unfold buf. rewrite !fold_left_app. reflexivity.
Qed.

(* every buffer of at least 8 bytes splits as head / aligned blocks / tail *)
Lemma split_for_addr addr (data : list N) : (8 <= length data)%nat ->
  exists head body tail k, data = head ++ body ++ tail /\
    N.of_nat (length head) = pre_of addr /\ length body = (8 * k)%nat /\ (length tail < 8)%nat.
Proof.
  intros H. set (p := N.to_nat (pre_of addr)).
  assert (p < 8)%nat as Hp by (unfold p, pre_of; lia).
  set (rest := skipn p data). set (k := ((length data - p) / 8)%nat).
  exists (firstn p data), (firstn (8 * k) rest), (skipn (8 * k) rest), k.
  assert (length rest = (length data - p)%nat) as Hr by (unfold rest; apply skipn_length).
  pose proof (Nat.div_mod (length data - p) 8 ltac:(lia)) as Hdm.
  pose proof (Nat.mod_upper_bound (length data - p) 8 ltac:(lia)) as Hmb.
  fold k in Hdm.
  repeat split.
  - rewrite firstn_skipn. unfold rest. rewrite firstn_skipn. reflexivity.
  - rewrite firstn_length. unfold p in *. lia.
  - rewrite firstn_length. lia.
  - rewrite skipn_length. lia.
Qed.

(* C03-M1, for any address: a = addr mod 8 is all that matters *)
Theorem crc_update_sse42_gen_eq use64 addr state data :
  state < 2 ^ 32 -> bytes_ok data -> (8 <= length data)%nat ->
  N.of_nat (length data) < 18446744073709551616 ->
  crc_update_sse42_gen use64 addr state data = Ok (fold_left crc_byte_step data state).
Proof.
  intros Hs Hb Hmin Hmax. rewrite repo_sse42_constants.
  destruct (split_for_addr addr data Hmin) as (head & body & tail & k & -> & Hpre & Hbody & Htail).
  apply Forall_app in Hb. destruct Hb as [Hbh Hb]. apply Forall_app in Hb. destruct Hb as [Hbb Hbt].
  apply (sse42_decomposed use64 addr state head body tail k); assumption.
Qed.

Theorem crc_update_sse42_eq_proof a state data :
  a < 8 -> state < 2 ^ 32 -> bytes_ok data -> (8 <= length data)%nat ->
  N.of_nat (length data) < 2 ^ 64 ->
  crc_update_sse42 a state data = Ok (fold_left crc_byte_step data state).
Proof. intros _. apply crc_update_sse42_gen_eq. Qed.

(* below the documented minimum the function asserts (and CRC32C_Update never sends such calls) *)
Lemma crc_update_sse42_short use64 addr state data : (length data < 8)%nat ->
  crc_update_sse42_gen use64 addr state data = AssertFail.
Proof.
  intros H. rewrite repo_sse42_constants. unfold update_sse42_m.
  assert (N.of_nat (length data) <? 8 = true) as -> by (apply N.ltb_lt; lia). reflexivity.
Qed.

(* ------------------------------------------------------------------ *)
(* CRC32C_Update in any configuration                                   *)
(* ------------------------------------------------------------------ *)
Theorem crc_update_any_config_gen_eq use64 hw addr state data :
  state < 2 ^ 32 -> bytes_ok data -> N.of_nat (length data) < 2 ^ 64 ->
  crc_update_any_config_gen use64 hw addr state data = Ok (crc_update_c state data).
Proof.
  intros Hs Hb Hmax. unfold crc_update_any_config_gen, update_any_m.
  change crc_hw_minlen with 8.
  destruct ((8 <=? N.of_nat (length data)) && hw) eqn:E; [|reflexivity].
  apply andb_true_iff in E. destruct E as [E _]. apply N.leb_le in E.
  rewrite crc_update_sse42_gen_eq by (try assumption; lia).
  rewrite crc_update_c_eq_bytes by assumption. reflexivity.
Qed.

Definition sizes_ok (parts : list (list N)) : Prop :=
  Forall (fun p => N.of_nat (length p) < 2 ^ 64) parts.

(* a whole stream: any configuration, any base address, any partition (so the stream may switch
   between the accelerated and the portable path call by call) *)
Theorem crc_stream_any_config_gen_eq use64 hw parts : forall addr,
  Forall bytes_ok parts -> sizes_ok parts ->
  crc_stream_any_config_gen use64 hw addr parts = Ok (crc_stream_c parts).
Proof.
  intros addr Hb Hsz. unfold crc_stream_any_config_gen, crc_stream_c.
  assert (forall st a, st < 2 ^ 32 ->
            stream_m crc_hw_minlen (crc_update_sse42_gen use64) crc_update_c hw a st parts =
            Ok (fold_left crc_update_c parts st)) as H.
  { clear addr. induction parts as [|p r IH]; intros st a Hs; [reflexivity|].
    inversion Hb as [|? ? Hbp Hbr]; subst. inversion Hsz as [|? ? Hsp Hsr]; subst.
    cbn [stream_m fold_left].
    pose proof (crc_update_any_config_gen_eq use64 hw a st p Hs Hbp Hsp) as E.
    unfold crc_update_any_config_gen in E. rewrite E. cbn [bind].
    apply IH; try assumption. apply crc_update_c_lt; assumption. }
  rewrite H by apply crc_init_lt. reflexivity.
Qed.

(* ------------------------------------------------------------------ *)
(* the self-test of hwaccel_init passes in the model, at every alignment *)
(* ------------------------------------------------------------------ *)
Lemma crc_hwtest_passes :
  forallb (fun a => crc_hwtest true a && crc_hwtest false a) [0; 1; 2; 3; 4; 5; 6; 7] = true.
Proof. vm_compute. reflexivity. Qed.

(* ------------------------------------------------------------------ *)
(* non-vacuity                                                          *)
(* ------------------------------------------------------------------ *)
(* a = 5: three head bytes, one aligned block, two tail bytes *)
Example sse42_example :
  crc_update_sse42 5 305419896 [1; 2; 3; 4; 5; 6; 7; 8; 9; 10; 11; 12; 13] =
  Ok (fold_left crc_byte_step [1; 2; 3; 4; 5; 6; 7; 8; 9; 10; 11; 12; 13] 305419896).
Proof. vm_compute. reflexivity. Qed.
(* a stream that alternates between the two paths *)
Example stream_example :
  crc_stream_any_config true 3 [[1; 2; 3]; [4; 5; 6; 7; 8; 9; 10; 11; 12; 13; 14]; []; [15]] =
  Ok (crc_stream_c [[1; 2; 3; 4; 5; 6; 7; 8; 9; 10; 11; 12; 13; 14; 15]]).
Proof. vm_compute. reflexivity. Qed.
(* the instruction on the SDM's terms: CRC32 of one zero byte from register 0 stays 0, and a
   single 0x80 byte from register 0 gives T0[0x80] *)
Example crc32_u8_example : crc32_u8 0 0 = 0 /\ crc32_u8 0 128 = crc_T_0_0x80.
Proof. vm_compute. split; reflexivity. Qed.
