(* G4: SHA256_Transform_shani (model of alg/sha256_shani.c over the SHA256RNDS2 / SHA256MSG1 /
   SHA256MSG2 / PSHUFB / PALIGNR semantics of X86Vec.v) computes the FIPS 180-4 compression function,
   for every state and every 64-byte block.
     - be32dec_128 (PSHUFB with the SHUF table) = four big-endian words;
     - SHA256RNDS2 on the (ABEF, CDGH) packing = two rounds of FIPS 180-4 6.2.2 step 3, so RND4 = four;
     - SHA256MSG1, PALIGNR 4 + PADDD, SHA256MSG2 = the next four schedule words (the same shape
       Sse2ShaProofs.wt4_sched handles for the SSE2 code);
     - the sixteen RNDMSG groups: W[] always holds the four most recent groups of four schedule words,
       slot (j + k) mod 4 holding group j + k. *)
From Coq Require Import Arith NArith List Lia.
From LCP Require Import Alg.Words Alg.WordsProofs Alg.Sha256Spec Alg.Sha256Model Alg.Sha256Proofs
  Accel.X86Vec Accel.Sse2Sha Accel.Sse2ShaBits Accel.Sse2ShaLanes Accel.Sse2ShaProofs Accel.ShaNi.
Import ListNotations.
Local Open Scope N_scope.

(* the constants of sha256_shani.c as of this writing; the RNDMSG rows are (i, K[4i..4i+3]) *)
Definition shani_row (K : list N) (j : nat) : N * N * N * N * N :=
  (N.of_nat j, nth (4 * j) K 0, nth (4 * j + 1) K 0, nth (4 * j + 2) K 0, nth (4 * j + 3) K 0).
Definition shani_std_SHUF : list N := [3; 2; 1; 0; 7; 6; 5; 4; 11; 10; 9; 8; 15; 14; 13; 12].
Definition shani_std (K : list N) : shani_consts :=
  {| n_SHUF := shani_std_SHUF; n_klanes := [0; 1; 2; 3]; n_rnd4_srl := 8;
     n_msg_mod := 4; n_msg_offs := [0; 1; 3; 2; 3]; n_msg_alignr := 4;
     n_rnd_mod := 4; n_msg_limit := 12; n_msg_ahead := 4;
     n_state_offs := [0; 4; 0; 4]; n_state_shufs := [27; 27; 27; 27];
     n_block_offs := [0; 16; 32; 48];
     n_rndmsg := map (shani_row K) (seq 0 16) |}.

(* ---------------------------------------------------------------- word arithmetic *)
Lemma add32_w32_r a b : add32 a (w32 b) = add32 a b.
Proof.
  rewrite !add32_mod, w32_mod. rewrite N.add_mod_idemp_r by discriminate. reflexivity.
Qed.

(* ---------------------------------------------------------------- PSHUFB / PALIGNR on lanes *)
Lemma bytes_of_v_le32dec4 p0 p1 p2 p3 p4 p5 p6 p7 p8 p9 p10 p11 p12 p13 p14 p15 :
  wf8 p0 -> wf8 p1 -> wf8 p2 -> wf8 p3 -> wf8 p4 -> wf8 p5 -> wf8 p6 -> wf8 p7 ->
  wf8 p8 -> wf8 p9 -> wf8 p10 -> wf8 p11 -> wf8 p12 -> wf8 p13 -> wf8 p14 -> wf8 p15 ->
  bytes_of_v (V4 (le32dec4 p0 p1 p2 p3) (le32dec4 p4 p5 p6 p7)
                 (le32dec4 p8 p9 p10 p11) (le32dec4 p12 p13 p14 p15)) =
  [p0; p1; p2; p3; p4; p5; p6; p7; p8; p9; p10; p11; p12; p13; p14; p15].
Proof.
  intros. unfold bytes_of_v, words_of_v, le32enc_vect. cbn [ln0 ln1 ln2 ln3 flat_map].
  rewrite !le32enc_le32dec4 by assumption. reflexivity.
Qed.

Lemma shuffle_epi8_be p0 p1 p2 p3 p4 p5 p6 p7 p8 p9 p10 p11 p12 p13 p14 p15 :
  wf8 p0 -> wf8 p1 -> wf8 p2 -> wf8 p3 -> wf8 p4 -> wf8 p5 -> wf8 p6 -> wf8 p7 ->
  wf8 p8 -> wf8 p9 -> wf8 p10 -> wf8 p11 -> wf8 p12 -> wf8 p13 -> wf8 p14 -> wf8 p15 ->
  mm_shuffle_epi8 (V4 (le32dec4 p0 p1 p2 p3) (le32dec4 p4 p5 p6 p7)
                      (le32dec4 p8 p9 p10 p11) (le32dec4 p12 p13 p14 p15))
                  (v_of_bytes shani_std_SHUF) =
  V4 (be32dec4 p0 p1 p2 p3) (be32dec4 p4 p5 p6 p7) (be32dec4 p8 p9 p10 p11) (be32dec4 p12 p13 p14 p15).
Proof.
  intros. unfold mm_shuffle_epi8. rewrite bytes_of_v_le32dec4 by assumption.
  change (bytes_of_v (v_of_bytes shani_std_SHUF)) with shani_std_SHUF.
  reflexivity.
Qed.

(* PALIGNR by 4: the register one lane further into the pair *)
Lemma alignr_4 a0 a1 a2 a3 b0 b1 b2 b3 : wf32 a0 -> wf32 b1 -> wf32 b2 -> wf32 b3 ->
  mm_alignr_epi8 (V4 a0 a1 a2 a3) (V4 b0 b1 b2 b3) 4 = V4 b1 b2 b3 a0.
Proof.
  intros Ha0 Hb1 Hb2 Hb3.
  change (mm_alignr_epi8 (V4 a0 a1 a2 a3) (V4 b0 b1 b2 b3) 4) with
    (V4 (le32dec4 (byte0 b1) (byte0 (N.shiftr b1 8)) (byte0 (N.shiftr b1 16)) (byte0 (N.shiftr b1 24)))
        (le32dec4 (byte0 b2) (byte0 (N.shiftr b2 8)) (byte0 (N.shiftr b2 16)) (byte0 (N.shiftr b2 24)))
        (le32dec4 (byte0 b3) (byte0 (N.shiftr b3 8)) (byte0 (N.shiftr b3 16)) (byte0 (N.shiftr b3 24)))
        (le32dec4 (byte0 a0) (byte0 (N.shiftr a0 8)) (byte0 (N.shiftr a0 16)) (byte0 (N.shiftr a0 24)))).
  rewrite !le32dec4_le32enc by assumption. reflexivity.
Qed.

(* ---------------------------------------------------------------- SHA256MSG1 / PALIGNR / SHA256MSG2 *)
Theorem msg4_shani_lanes w0 w1 w2 w3 w4 w5 w6 w7 w8 w9 w10 w11 w12 w13 w14 w15 :
  wf32 w9 -> wf32 w10 -> wf32 w11 -> wf32 w12 ->
  sha256msg2 (mm_add_epi32 (sha256msg1 (V4 w0 w1 w2 w3) (V4 w4 w5 w6 w7))
                           (mm_alignr_epi8 (V4 w12 w13 w14 w15) (V4 w8 w9 w10 w11) 4))
             (V4 w12 w13 w14 w15) =
  let n0 := wt4 w14 w9 w1 w0 in
  let n1 := wt4 w15 w10 w2 w1 in
  V4 n0 n1 (wt4 n0 w11 w3 w2) (wt4 n1 w12 w4 w3).
Proof.
  intros H9 H10 H11 H12. rewrite alignr_4 by assumption.
  unfold sha256msg1, sha256msg2. cbn [ln0 ln1 ln2 ln3]. rewrite add_lanes. cbn [ln0 ln1 ln2 ln3].
  cbv zeta.
  assert (E0 : add32 (add32 (add32 w0 (f256_sigma0 w1)) w9) (f256_sigma1 w14) = wt4 w14 w9 w1 w0)
    by (unfold wt4; add32_ac).
  assert (E1 : add32 (add32 (add32 w1 (f256_sigma0 w2)) w10) (f256_sigma1 w15) = wt4 w15 w10 w2 w1)
    by (unfold wt4; add32_ac).
  rewrite E0, E1.
  set (n0 := wt4 w14 w9 w1 w0). set (n1 := wt4 w15 w10 w2 w1).
  f_equal; unfold wt4; add32_ac.
Qed.

(* ---------------------------------------------------------------- SHA256RNDS2 *)
(* the two packings of the working variables a..h *)
Definition abef (v : list N) : v128 := V4 (nth 5 v 0) (nth 4 v 0) (nth 1 v 0) (nth 0 v 0).
Definition cdgh (v : list N) : v128 := V4 (nth 7 v 0) (nth 6 v 0) (nth 3 v 0) (nth 2 v 0).

Lemma rnds_step_eq a b c d e f g h k w :
  rnds_step (a, b, c, d, e, f, g, h) (add32 w k) =
  (add32 (add32 (add32 (add32 (add32 h (f256_Sigma1 e)) (f256_Ch e f g)) k) w)
         (add32 (f256_Sigma0 a) (f256_Maj a b c)),
   a, b, c,
   add32 d (add32 (add32 (add32 (add32 h (f256_Sigma1 e)) (f256_Ch e f g)) k) w),
   e, f, g).
Proof.
  unfold rnds_step.
  assert (E : add32 (add32 (add32 (f256_Ch e f g) (f256_Sigma1 e)) (add32 w k)) h =
              add32 (add32 (add32 (add32 h (f256_Sigma1 e)) (f256_Ch e f g)) k) w) by add32_ac.
  rewrite E. set (T1 := add32 (add32 (add32 (add32 h (f256_Sigma1 e)) (f256_Ch e f g)) k) w).
  assert (Ea : add32 (add32 T1 (f256_Maj a b c)) (f256_Sigma0 a) =
               add32 T1 (add32 (f256_Sigma0 a) (f256_Maj a b c))) by add32_ac.
  assert (Ee : add32 T1 d = add32 d T1) by add32_ac.
  rewrite Ea, Ee. reflexivity.
Qed.

Lemma rnds2_abef v k0 w0 k1 w1 x y : length v = 8%nat ->
  sha256rnds2 (cdgh v) (abef v) (V4 (add32 w0 (w32 k0)) (add32 w1 (w32 k1)) x y) =
    abef (f256_round (f256_round v k0 w0) k1 w1) /\
  abef v = cdgh (f256_round (f256_round v k0 w0) k1 w1).
Proof.
  intros H. do 8 (destruct v as [|? v]; [discriminate|]). destruct v; [|discriminate].
  rewrite !add32_w32_r.
  unfold sha256rnds2, abef, cdgh. cbn [nth ln0 ln1 ln2 ln3].
  rewrite !rnds_step_eq.
  split; reflexivity.
Qed.

(* ---------------------------------------------------------------- the transform *)
Section Transform.
  Variable K : list N.
  Variable blk : list N.
  Hypothesis Hlen : length blk = 64%nat.
  Hypothesis Hwf : Forall wf8 blk.
  Local Notation C := (shani_std K).
  Let Ws := f256_schedule blk.
  Let stepf := fun (v : list N) (t : nat) => f256_round v (nth t K 0) (nth t Ws 0).

  Lemma stepf_length : forall n i v, length v = 8%nat -> length (fold_left stepf (seq i n) v) = 8%nat.
  Proof.
    induction n as [|n IH]; intros i v Hv; cbn [seq fold_left]; [exact Hv|].
    apply IH. apply f256_round_length. exact Hv.
  Qed.

  (* ---- be32dec_128 of sixteen block bytes = four schedule words ---- *)
  Lemma be32dec_128_vec k off : N.to_nat off = (16 * k)%nat -> (k < 4)%nat ->
    be32dec_128 C blk off = vec_at Ws (4 * k).
  Proof.
    intros Ho Hk. unfold be32dec_128. rewrite (loadu_bytes_nth blk off (16 * k)) by (try exact Ho; lia).
    change (n_SHUF C) with shani_std_SHUF.
    rewrite shuffle_epi8_be by (apply Forall_nth_wf8; exact Hwf).
    unfold vec_at, Ws. rewrite !(Ws_low blk Hlen) by lia. rewrite !nth_be32dec_vect by lia.
    do 4 (destruct k as [|k]; [reflexivity|]). lia.
  Qed.

  (* ---- RND4 = four rounds ---- *)
  Lemma rnd4_rounds v t : length v = 8%nat ->
    RND4 C (abef v, cdgh v) (vec_at Ws t)
         [nth t K 0; nth (t + 1) K 0; nth (t + 2) K 0; nth (t + 3) K 0] =
    (abef (fold_left stepf (seq t 4) v), cdgh (fold_left stepf (seq t 4) v)).
  Proof.
    intros Hv. unfold RND4. cbn [fst snd].
    change (kvec C [nth t K 0; nth (t + 1) K 0; nth (t + 2) K 0; nth (t + 3) K 0]) with
      (V4 (w32 (nth t K 0)) (w32 (nth (t + 1) K 0)) (w32 (nth (t + 2) K 0)) (w32 (nth (t + 3) K 0))).
    unfold vec_at. rewrite add_lanes.
    change (n_rnd4_srl C) with 8.
    rewrite srli_si128_8 by apply wf32_add32.
    destruct (rnds2_abef v (nth t K 0) (nth t Ws 0) (nth (t + 1) K 0) (nth (t + 1) Ws 0)
                (add32 (nth (t + 2) Ws 0) (w32 (nth (t + 2) K 0)))
                (add32 (nth (t + 3) Ws 0) (w32 (nth (t + 3) K 0))) Hv) as [E1 E2].
    rewrite E1, E2.
    set (v2 := f256_round (f256_round v (nth t K 0) (nth t Ws 0)) (nth (t + 1) K 0) (nth (t + 1) Ws 0)).
    assert (Hv2 : length v2 = 8%nat) by (unfold v2; do 2 apply f256_round_length; exact Hv).
    destruct (rnds2_abef v2 (nth (t + 2) K 0) (nth (t + 2) Ws 0) (nth (t + 3) K 0) (nth (t + 3) Ws 0)
                0 0 Hv2) as [E3 E4].
    rewrite E3, E4.
    cbn [seq fold_left]. unfold stepf, v2.
    replace (S (S (S t))) with (t + 3)%nat by lia.
    replace (S (S t)) with (t + 2)%nat by lia.
    replace (S t) with (t + 1)%nat by lia. reflexivity.
  Qed.

  (* ---- MSG4 on the schedule ---- *)
  Lemma msg4_shani_sched u1 u2 u3 u4 u5 :
    u2 = (u1 + 4)%nat -> u3 = (u1 + 8)%nat -> u4 = (u1 + 12)%nat -> u5 = (u1 + 16)%nat -> (u5 + 3 < 64)%nat ->
    sha256msg2 (mm_add_epi32 (sha256msg1 (vec_at Ws u1) (vec_at Ws u2))
                             (mm_alignr_epi8 (vec_at Ws u4) (vec_at Ws u3) 4))
               (vec_at Ws u4) = vec_at Ws u5.
  Proof.
    intros -> -> -> -> Hu. unfold vec_at at 1 2 3 4 5.
    rewrite msg4_shani_lanes by (apply (Ws_wf blk Hlen Hwf)).
    unfold Ws. rewrite <- (wt4_sched blk Hlen u1) by lia. cbv zeta.
    rewrite <- !Nat.add_assoc. cbn [Nat.add]. reflexivity.
  Qed.

  (* ---- the W[4] array: slot (j + k) mod 4 holds the schedule words of group j + k ---- *)
  Definition grp (m : nat) : v128 := vec_at Ws (4 * m).
  Definition warr (j : nat) : list v128 :=
    match (j mod 4)%nat with
    | 0%nat => [grp j; grp (j + 1); grp (j + 2); grp (j + 3)]
    | 1%nat => [grp (j + 3); grp j; grp (j + 1); grp (j + 2)]
    | 2%nat => [grp (j + 2); grp (j + 3); grp j; grp (j + 1)]
    | _ => [grp (j + 1); grp (j + 2); grp (j + 3); grp j]
    end.

  Lemma nthv_updv_eq y0 y1 y2 y3 d x : (d < 4)%nat -> nthv (updv [y0; y1; y2; y3] d x) d = x.
  Proof. intros H. do 4 (destruct d as [|d]; [reflexivity|]). lia. Qed.
  Lemma nthv_updv_neq y0 y1 y2 y3 d e x : d <> e -> nthv (updv [y0; y1; y2; y3] d x) e = nthv [y0; y1; y2; y3] e.
  Proof.
    intros H. do 4 (destruct d as [|d]; [do 4 (destruct e as [|e]; [reflexivity || (exfalso; apply H; reflexivity)|]); reflexivity|]).
    reflexivity.
  Qed.
  Lemma updv_updv4 y0 y1 y2 y3 d x y : updv (updv [y0; y1; y2; y3] d x) d y = updv [y0; y1; y2; y3] d y.
  Proof. do 4 (destruct d as [|d]; [reflexivity|]). reflexivity. Qed.

  (* RNDMSG with the branch and the index arithmetic evaluated *)
  Lemma rndmsg_lo i k0 k1 k2 k3 St y0 y1 y2 y3 d d1 d2 d3 :
    (i <? 12) = true -> N.to_nat (i mod 4) = d -> N.to_nat ((i + 4 + 0) mod 4) = d ->
    N.to_nat ((i + 4 + 1) mod 4) = d1 -> N.to_nat ((i + 4 + 2) mod 4) = d2 ->
    N.to_nat ((i + 4 + 3) mod 4) = d3 -> (d < 4)%nat -> d <> d1 -> d <> d2 -> d <> d3 ->
    RNDMSG C (St, [y0; y1; y2; y3]) (i, k0, k1, k2, k3) =
    (RND4 C St (nthv [y0; y1; y2; y3] d) [k0; k1; k2; k3],
     updv [y0; y1; y2; y3] d
       (sha256msg2 (mm_add_epi32 (sha256msg1 (nthv [y0; y1; y2; y3] d) (nthv [y0; y1; y2; y3] d1))
                                 (mm_alignr_epi8 (nthv [y0; y1; y2; y3] d3) (nthv [y0; y1; y2; y3] d2) 4))
                   (nthv [y0; y1; y2; y3] d3))).
  Proof.
    intros Hlt E0 E0' E1 E2 E3 Hd N1 N2 N3.
    unfold RNDMSG, MSG4, widx. cbn [fst snd].
    change (n_msg_limit C) with 12. change (n_msg_ahead C) with 4. change (n_rnd_mod C) with 4.
    change (n_msg_mod C) with 4. change (n_msg_alignr C) with 4.
    change (n_msg_offs C) with [0; 1; 3; 2; 3]. cbv iota.
    rewrite Hlt, E0, E0', E1, E2, E3.
    rewrite updv_updv4, nthv_updv_eq by exact Hd.
    rewrite !nthv_updv_neq by assumption.
    rewrite updv_updv4, nthv_updv_eq by exact Hd.
    rewrite !nthv_updv_neq by assumption.
    reflexivity.
  Qed.
  Lemma rndmsg_hi i k0 k1 k2 k3 St W d :
    (i <? 12) = false -> N.to_nat (i mod 4) = d ->
    RNDMSG C (St, W) (i, k0, k1, k2, k3) = (RND4 C St (nthv W d) [k0; k1; k2; k3], W).
  Proof.
    intros Hlt E0. unfold RNDMSG. cbn [fst snd].
    change (n_msg_limit C) with 12. change (n_rnd_mod C) with 4. rewrite Hlt, E0. reflexivity.
  Qed.

  Ltac close_nat :=
    repeat match goal with
    | |- context [N.of_nat ?e] => let v := eval vm_compute in (N.of_nat e) in change (N.of_nat e) with v
    end.

  (* one RNDMSG group with message-schedule update *)
  Lemma rndmsg_step_lo j v : (j < 12)%nat -> length v = 8%nat ->
    RNDMSG C ((abef v, cdgh v), warr j) (shani_row K j) =
    ((abef (fold_left stepf (seq (4 * j) 4) v), cdgh (fold_left stepf (seq (4 * j) 4) v)), warr (S j)).
  Proof.
    intros Hj Hv.
    do 12 (destruct j as [|j];
      [ unfold shani_row, warr; cbn [Nat.modulo Nat.divmod Nat.sub fst snd Nat.add Nat.mul]; close_nat;
        match goal with
        | |- RNDMSG _ (_, _) (?i, _, _, _, _) = _ =>
          let d := eval vm_compute in (N.to_nat (i mod 4)) in
          let d1 := eval vm_compute in (N.to_nat ((i + 4 + 1) mod 4)) in
          let d2 := eval vm_compute in (N.to_nat ((i + 4 + 2) mod 4)) in
          let d3 := eval vm_compute in (N.to_nat ((i + 4 + 3) mod 4)) in
          rewrite (rndmsg_lo i _ _ _ _ _ _ _ _ _ d d1 d2 d3) by (reflexivity || lia)
        end;
        cbn [nthv nth updv]; unfold grp; cbn [Nat.mul Nat.add];
        match goal with
        | |- context [RND4 _ _ (vec_at _ ?t) _] =>
          let R := fresh "R" in
          pose proof (rnd4_rounds v t Hv) as R; cbn [Nat.add] in R; rewrite R; clear R
        end;
        match goal with
        | |- context [sha256msg1 (vec_at _ ?a) (vec_at _ ?b)] =>
          match goal with
          | |- context [mm_alignr_epi8 (vec_at _ ?d) (vec_at _ ?c) 4] =>
            let R := fresh "R" in
            pose proof (msg4_shani_sched a b c d (a + 16) ltac:(reflexivity) ltac:(reflexivity)
                          ltac:(reflexivity) ltac:(reflexivity) ltac:(cbn [Nat.add]; lia)) as R;
            cbn [Nat.add] in R; rewrite R; clear R
          end
        end;
        reflexivity
      | ]).
    lia.
  Qed.

  (* one of the last four groups: rounds only, W[] = groups 12..15 untouched *)
  Lemma rndmsg_step_hi j v : (12 <= j < 16)%nat -> length v = 8%nat ->
    RNDMSG C ((abef v, cdgh v), warr 12) (shani_row K j) =
    ((abef (fold_left stepf (seq (4 * j) 4) v), cdgh (fold_left stepf (seq (4 * j) 4) v)), warr 12).
  Proof.
    intros Hj Hv.
    do 12 (destruct j as [|j]; [lia|]).
    do 4 (destruct j as [|j];
      [ unfold shani_row, warr; cbn [Nat.modulo Nat.divmod Nat.sub fst snd Nat.add Nat.mul]; close_nat;
        match goal with
        | |- RNDMSG _ (_, _) (?i, _, _, _, _) = _ =>
          let d := eval vm_compute in (N.to_nat (i mod 4)) in
          rewrite (rndmsg_hi i _ _ _ _ _ _ d) by reflexivity
        end;
        cbn [nthv nth]; unfold grp; cbn [Nat.mul Nat.add];
        match goal with
        | |- context [RND4 _ _ (vec_at _ ?t) _] =>
          let R := fresh "R" in
          pose proof (rnd4_rounds v t Hv) as R; cbn [Nat.add] in R; rewrite R; clear R
        end;
        reflexivity
      | ]).
    lia.
  Qed.

  (* ---- the sixteen groups ---- *)
  Lemma groups_rounds st : length st = 8%nat ->
    fst (fold_left (RNDMSG C) (n_rndmsg C) ((abef st, cdgh st), warr 0)) =
    (abef (fold_left stepf (seq 0 64) st), cdgh (fold_left stepf (seq 0 64) st)).
  Proof.
    intros Hst.
    change (n_rndmsg C) with
      [shani_row K 0; shani_row K 1; shani_row K 2; shani_row K 3; shani_row K 4; shani_row K 5;
       shani_row K 6; shani_row K 7; shani_row K 8; shani_row K 9; shani_row K 10; shani_row K 11;
       shani_row K 12; shani_row K 13; shani_row K 14; shani_row K 15].
    cbn [fold_left].
    change (seq 0 64) with (seq (4 * 0) 4 ++ seq (4 * 1) 4 ++ seq (4 * 2) 4 ++ seq (4 * 3) 4 ++
      seq (4 * 4) 4 ++ seq (4 * 5) 4 ++ seq (4 * 6) 4 ++ seq (4 * 7) 4 ++ seq (4 * 8) 4 ++
      seq (4 * 9) 4 ++ seq (4 * 10) 4 ++ seq (4 * 11) 4 ++ seq (4 * 12) 4 ++ seq (4 * 13) 4 ++
      seq (4 * 14) 4 ++ seq (4 * 15) 4).
    rewrite !fold_left_app.
    rewrite (rndmsg_step_lo 0) by (try lia; repeat first [exact Hst | apply stepf_length]).
    rewrite (rndmsg_step_lo 1) by (try lia; repeat first [exact Hst | apply stepf_length]).
    rewrite (rndmsg_step_lo 2) by (try lia; repeat first [exact Hst | apply stepf_length]).
    rewrite (rndmsg_step_lo 3) by (try lia; repeat first [exact Hst | apply stepf_length]).
    rewrite (rndmsg_step_lo 4) by (try lia; repeat first [exact Hst | apply stepf_length]).
    rewrite (rndmsg_step_lo 5) by (try lia; repeat first [exact Hst | apply stepf_length]).
    rewrite (rndmsg_step_lo 6) by (try lia; repeat first [exact Hst | apply stepf_length]).
    rewrite (rndmsg_step_lo 7) by (try lia; repeat first [exact Hst | apply stepf_length]).
    rewrite (rndmsg_step_lo 8) by (try lia; repeat first [exact Hst | apply stepf_length]).
    rewrite (rndmsg_step_lo 9) by (try lia; repeat first [exact Hst | apply stepf_length]).
    rewrite (rndmsg_step_lo 10) by (try lia; repeat first [exact Hst | apply stepf_length]).
    rewrite (rndmsg_step_lo 11) by (try lia; repeat first [exact Hst | apply stepf_length]).
    rewrite (rndmsg_step_hi 12) by (try lia; repeat first [exact Hst | apply stepf_length]).
    rewrite (rndmsg_step_hi 13) by (try lia; repeat first [exact Hst | apply stepf_length]).
    rewrite (rndmsg_step_hi 14) by (try lia; repeat first [exact Hst | apply stepf_length]).
    rewrite (rndmsg_step_hi 15) by (try lia; repeat first [exact Hst | apply stepf_length]).
    reflexivity.
  Qed.

  (* ---- loading / storing the state ---- *)
  Lemma load_abef st : length st = 8%nat ->
    mm_unpackhi_epi64
      (mm_shuffle_epi32 (mm_loadu_words st (nthN (n_state_offs C) 1)) (nthN (n_state_shufs C) 1))
      (mm_shuffle_epi32 (mm_loadu_words st (nthN (n_state_offs C) 0)) (nthN (n_state_shufs C) 0)) = abef st.
  Proof.
    intros H. do 8 (destruct st as [|? st]; [discriminate|]). destruct st; [|discriminate]. reflexivity.
  Qed.
  Lemma load_cdgh st : length st = 8%nat ->
    mm_unpacklo_epi64
      (mm_shuffle_epi32 (mm_loadu_words st (nthN (n_state_offs C) 1)) (nthN (n_state_shufs C) 1))
      (mm_shuffle_epi32 (mm_loadu_words st (nthN (n_state_offs C) 0)) (nthN (n_state_shufs C) 0)) = cdgh st.
  Proof.
    intros H. do 8 (destruct st as [|? st]; [discriminate|]). destruct st; [|discriminate]. reflexivity.
  Qed.
  Lemma store_state st v : length st = 8%nat -> length v = 8%nat ->
    mm_storeu_words
      (mm_storeu_words st (nthN (n_state_offs C) 2)
         (mm_shuffle_epi32
            (mm_unpackhi_epi64 (mm_add_epi32 (cdgh st) (cdgh v)) (mm_add_epi32 (abef st) (abef v)))
            (nthN (n_state_shufs C) 2)))
      (nthN (n_state_offs C) 3)
      (mm_shuffle_epi32
         (mm_unpacklo_epi64 (mm_add_epi32 (cdgh st) (cdgh v)) (mm_add_epi32 (abef st) (abef v)))
         (nthN (n_state_shufs C) 3)) = map2 add32 st v.
  Proof.
    intros H Hv. do 8 (destruct st as [|? st]; [discriminate|]). destruct st; [|discriminate].
    do 8 (destruct v as [|? v]; [discriminate|]). destruct v; [|discriminate]. reflexivity.
  Qed.

  Theorem transform_shani_rounds st : length st = 8%nat ->
    transform_shani C st blk = map2 add32 st (fold_left stepf (seq 0 64) st).
  Proof.
    intros Hst. unfold transform_shani.
    change (map (be32dec_128 C blk) (n_block_offs C)) with
      [be32dec_128 C blk 0; be32dec_128 C blk 16; be32dec_128 C blk 32; be32dec_128 C blk 48].
    rewrite (be32dec_128_vec 0 0), (be32dec_128_vec 1 16), (be32dec_128_vec 2 32), (be32dec_128_vec 3 48)
      by (try reflexivity; lia).
    change [vec_at Ws (4 * 0); vec_at Ws (4 * 1); vec_at Ws (4 * 2); vec_at Ws (4 * 3)] with (warr 0).
    rewrite (load_abef st Hst), (load_cdgh st Hst).
    rewrite (groups_rounds st Hst). cbn [fst snd].
    apply store_state; [exact Hst | apply stepf_length; exact Hst].
  Qed.
End Transform.

(* G4 *)
Theorem transform_shani_std_eq_compress st blk :
  length st = 8%nat -> length blk = 64%nat -> Forall wf8 blk ->
  transform_shani (shani_std K256) st blk = f256_compress st blk.
Proof. intros Hst Hb Hwf. rewrite transform_shani_rounds by assumption. reflexivity. Qed.

Theorem transform_shani_std_eq_portable K st blk :
  length st = 8%nat -> length blk = 64%nat -> Forall wf8 blk ->
  transform_shani (shani_std K) st blk = c256_transform K st blk.
Proof.
  intros Hst Hb Hwf. rewrite transform_shani_rounds by assumption.
  symmetry. apply c256_transform_eq_compress; assumption.
Qed.

Theorem transform_shani_std_eq_sse2 K st blk :
  length st = 8%nat -> length blk = 64%nat -> Forall wf8 blk ->
  transform_shani (shani_std K) st blk = transform_sse2 (sse2_std K) st blk.
Proof.
  intros Hst Hb Hwf. rewrite transform_shani_std_eq_portable, transform_sse2_std_eq_portable by assumption.
  reflexivity.
Qed.
