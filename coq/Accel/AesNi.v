(* MODEL of crypto/crypto_aes_aesni.c at instruction level.

   An __m128i is the list of its 16 bytes in memory order (byte 0 = bits 7:0), which is what
   _mm_loadu_si128 / _mm_storeu_si128 make of a uint8_t[16].  The instruction semantics follow the
   Intel SDM (AESENC, AESENCLAST, AESKEYGENASSIST, PSHUFD, PSLLDQ, PXOR, PUNPCKLQDQ, MOVQ); the SDM
   defines the AES instructions by reference to the FIPS-197 transformations, which are taken from
   AesSpec (parametric in the S-box function).  Their fidelity is part of the trusted base and is
   sampled by the correspondence run on a CPU that executes them.

   On top of the instructions: the two key-expansion functions driven by the (i, rcon) and
   (i, shuffle, rcon) lists regenerated from the MKRKEY128 / MKRKEY256 invocations and by the
   immediates found in the macro bodies, and crypto_aes_encrypt_block_aesni_m128i with its
   `if (nr > 10)` branch driven by the regenerated aes_key[] index lists.  No proofs here. *)
From Coq Require Import NArith List Arith Bool.
From LCP Require Import Crypto.AesSpec.
Import ListNotations.
Local Open Scope N_scope.

Definition m128 := list N.

(* ------------------------------------------------------------------ SSE2 lane operations *)
(* PXOR *)
Definition mm_xor_si128 (a b : m128) : m128 :=
  map (fun i => N.lxor (nth i a 0) (nth i b 0)) (seq 0 16).

(* PSLLDQ: shift the whole register left by n bytes, shifting in zeros *)
Definition mm_slli_si128 (a : m128) (n : N) : m128 :=
  firstn 16 (repeat 0 (N.to_nat n) ++ a).

(* dword j (bits 32j+31 : 32j) *)
Definition dword (a : m128) (j : nat) : list N := firstn 4 (skipn (4 * j) a).

(* PSHUFD: dest dword j = source dword ((imm >> 2j) & 3) *)
Definition mm_shuffle_epi32 (a : m128) (imm : N) : m128 :=
  flat_map (fun j => dword a (N.to_nat (N.land (N.shiftr imm (2 * N.of_nat j)) 3))) [0; 1; 2; 3]%nat.

(* PUNPCKLQDQ: low quadword of a, then low quadword of b *)
Definition mm_unpacklo_epi64 (a b : m128) : m128 := firstn 8 a ++ firstn 8 b.

(* MOVQ load (_mm_loadu_si64): 8 bytes from memory, upper half zero *)
Definition load_si64 (mem : list N) : m128 := firstn 8 mem ++ repeat 0 8.

Section WithSbox.
  Variable sb : N -> N.

  (* ---------------------------------------------------------------- AES-NI *)
  (* AESENC: ShiftRows; SubBytes; MixColumns; xor round key (SDM order) *)
  Definition aesenc (s k : m128) : m128 :=
    mm_xor_si128 (MixColumns (SubBytes sb (ShiftRows s))) k.
  (* AESENCLAST: ShiftRows; SubBytes; xor round key *)
  Definition aesenclast (s k : m128) : m128 :=
    mm_xor_si128 (SubBytes sb (ShiftRows s)) k.

  (* xor of a dword with the zero-extended imm8 *)
  Definition xor_imm8 (w : list N) (rcon : N) : list N :=
    match w with b0 :: r => N.lxor b0 rcon :: r | [] => [] end.
  (* RotWord on a dword held little-endian: (X >> 8) | (X << 24), i.e. bytes [b1; b2; b3; b0] *)
  Definition rot_dword (w : list N) : list N :=
    match w with b0 :: r => r ++ [b0] | [] => [] end.

  (* AESKEYGENASSIST: X3 = src[127:96], X1 = src[63:32];
     dest = [ SubWord X1 | RotWord(SubWord X1) xor rcon | SubWord X3 | RotWord(SubWord X3) xor rcon ] *)
  Definition mm_aeskeygenassist_si128 (a : m128) (rcon : N) : m128 :=
    let x1 := map sb (dword a 1) in
    let x3 := map sb (dword a 3) in
    x1 ++ xor_imm8 (rot_dword x1) rcon ++ x3 ++ xor_imm8 (rot_dword x3) rcon.

  (* ---------------------------------------------------------------- key expansion *)
  Fixpoint upd {A} (l : list A) (i : nat) (v : A) : list A :=
    match l, i with
    | [], _ => []
    | _ :: r, O => v :: r
    | x :: r, S j => x :: upd r j v
    end.

  Definition rk_at (rkeys : list m128) (i : N) : m128 := nth (N.to_nat i) rkeys [].

  (* the body shared by MKRKEY128 / MKRKEY256:
       _s = _s ^ slli(_s, n) for the n of the macro body, in order;
       _t = shuffle(aeskeygenassist(_t, rcon), shuffle); result _s ^ _t *)
  Definition mkrkey (s t : m128) (slli : list N) (shuffle rcon : N) : m128 :=
    let s := fold_left (fun s n => mm_xor_si128 s (mm_slli_si128 s n)) slli s in
    let t := mm_shuffle_epi32 (mm_aeskeygenassist_si128 t rcon) shuffle in
    mm_xor_si128 s t.

  (* the rkeys[] array: [slots] entries, not initialised by malloc; modelled as empty entries *)
  Definition rkeys_init (slots : N) : list m128 := repeat [] (N.to_nat slots).

  Definition load_keys (loads : list (N * N)) (key : list N) (rkeys : list m128) : list m128 :=
    fold_left (fun rk '(j, off) => upd rk (N.to_nat j) (firstn 16 (skipn (N.to_nat off) key))) loads rkeys.

  Section Tables.
    Variables (slots : N) (loads128 loads256 : list (N * N))
              (mk128 : list (N * N)) (mk256 : list (N * N * N))
              (s_off128 t_off128 shuffle128 s_off256 t_off256 : N) (slli128 slli256 : list N)
              (nr128 nr256 : N)
              (enc_first : N) (enc_pre : list N) (enc_threshold : N) (enc_branch : list N).

    Definition key_expand_128_aesni (key : list N) : list m128 :=
      fold_left (fun rk '(i, rcon) =>
                   upd rk (N.to_nat i)
                       (mkrkey (rk_at rk (i - s_off128)) (rk_at rk (i - t_off128)) slli128 shuffle128 rcon))
                mk128 (load_keys loads128 key (rkeys_init slots)).

    Definition key_expand_256_aesni (key : list N) : list m128 :=
      fold_left (fun rk '(i, shuffle, rcon) =>
                   upd rk (N.to_nat i)
                       (mkrkey (rk_at rk (i - s_off256)) (rk_at rk (i - t_off256)) slli256 shuffle rcon))
                mk256 (load_keys loads256 key (rkeys_init slots)).

    (* crypto_aes_key_expand_aesni; struct crypto_aes_key_aesni is (rkeys, nr); None = the
       warn0 + NULL exit for other lengths.  The two expansion functions are arguments so that
       the instance for the regenerated tables mentions them by name. *)
    Definition key_expand_aesni (expand128 expand256 : list N -> list m128) (key : list N)
      : option (list m128 * N) :=
      if (length key =? 16)%nat then Some (expand128 key, nr128)
      else if (length key =? 32)%nat then Some (expand256 key, nr256)
      else None.

    (* crypto_aes_encrypt_block_aesni_m128i *)
    Definition encrypt_block_aesni (k : list m128 * N) (inp : m128) : m128 :=
      let '(rk, nr) := k in
      let s := mm_xor_si128 inp (rk_at rk enc_first) in
      let s := fold_left (fun s i => aesenc s (rk_at rk i)) enc_pre s in
      let s := if enc_threshold <? nr
               then fold_left (fun s i => aesenc s (rk_at rk i)) enc_branch s
               else s in
      aesenclast s (rk_at rk nr).
  End Tables.
End WithSbox.
