(* G4: the AES-NI key schedules of crypto_aes_aesni.c (MKRKEY128 / MKRKEY256 chains, driven by the
   regenerated invocation lists) compute the FIPS-197 KeyExpansion, for an arbitrary S-box function.
   Lane algebra: the slli/xor prefix-xor trick gives w[i-Nk] ^ w[i-Nk+1] ^ .. and the shuffled
   aeskeygenassist lane gives SubWord(RotWord(w[i-1])) ^ Rcon (0xff) or SubWord(w[i-1]) (0xaa). *)
From Coq Require Import NArith ZArith List Arith Bool Lia ZifyNat.
From LCP Require Import Gen.Repo_aes.
From LCP Require Import Crypto.AesSpec.
From LCP Require Import Crypto.AesProofs.
From LCP Require Import Accel.AesNi.
From LCP Require Import Crypto.AesCtrModel.
From LCP Require Import Crypto.AesRepo.
From LCP Require Import Crypto.AesCtrProofs.
From LCP Require Import Accel.AesNiProofs.
Import ListNotations.
Local Open Scope N_scope.

Ltac Zify.zify_post_hook ::= Z.to_euclidean_division_equations.

Section G4.
  Variable sb : N -> N.

  (* four new words from the four words Nk positions back and the (already transformed) temp *)
  Definition next4 (a b c d temp : word) : list word :=
    let e := xor_word a temp in
    let f := xor_word b e in
    let g := xor_word c f in
    let h := xor_word d g in
    [e; f; g; h].

  Definition temp_rot (last : word) (rc : N) : word :=
    xor_word (SubWord sb (RotWord last)) [rc; 0; 0; 0].
  Definition temp_sub (last : word) : word := SubWord sb last.

  Ltac lanes :=
    cbv -[N.lxor]; rewrite ?N.lxor_0_r, ?N.lxor_0_l, ?N.lxor_assoc; reflexivity.

  (* MKRKEY128 *)
  Lemma lane128 s0 s1 s2 s3 s4 s5 s6 s7 s8 s9 s10 s11 s12 s13 s14 s15 rcon :
    let k := [s0;s1;s2;s3;s4;s5;s6;s7;s8;s9;s10;s11;s12;s13;s14;s15] in
    mkrkey sb k k [4; 8] 255 rcon =
    concat (next4 [s0;s1;s2;s3] [s4;s5;s6;s7] [s8;s9;s10;s11] [s12;s13;s14;s15]
                  (temp_rot [s12;s13;s14;s15] rcon)).
  Proof. lanes. Qed.

  (* MKRKEY256 with shuffle 0xff and with shuffle 0xaa *)
  Lemma lane256_ff s0 s1 s2 s3 s4 s5 s6 s7 s8 s9 s10 s11 s12 s13 s14 s15
        t0 t1 t2 t3 t4 t5 t6 t7 t8 t9 t10 t11 t12 t13 t14 t15 rcon :
    mkrkey sb [s0;s1;s2;s3;s4;s5;s6;s7;s8;s9;s10;s11;s12;s13;s14;s15]
              [t0;t1;t2;t3;t4;t5;t6;t7;t8;t9;t10;t11;t12;t13;t14;t15] [4; 8] 255 rcon =
    concat (next4 [s0;s1;s2;s3] [s4;s5;s6;s7] [s8;s9;s10;s11] [s12;s13;s14;s15]
                  (temp_rot [t12;t13;t14;t15] rcon)).
  Proof. lanes. Qed.

  Lemma lane256_aa s0 s1 s2 s3 s4 s5 s6 s7 s8 s9 s10 s11 s12 s13 s14 s15
        t0 t1 t2 t3 t4 t5 t6 t7 t8 t9 t10 t11 t12 t13 t14 t15 rcon :
    mkrkey sb [s0;s1;s2;s3;s4;s5;s6;s7;s8;s9;s10;s11;s12;s13;s14;s15]
              [t0;t1;t2;t3;t4;t5;t6;t7;t8;t9;t10;t11;t12;t13;t14;t15] [4; 8] 170 rcon =
    concat (next4 [s0;s1;s2;s3] [s4;s5;s6;s7] [s8;s9;s10;s11] [s12;s13;s14;s15]
                  (temp_sub [t12;t13;t14;t15])).
  Proof. lanes. Qed.

  (* ---------------------------------------------------------------- FIPS side: word recurrences *)
  Lemma next_word_4 w' a b c d :
    next_word sb 4 (w' ++ [a; b; c; d]) =
    xor_word a (if (length w' mod 4 =? 0)%nat
                then xor_word (SubWord sb (RotWord d)) (Rcon (length w' / 4 + 1))
                else d).
  Proof.
    unfold next_word. rewrite app_length. cbn [length].
    replace ((length w' + 4) mod 4)%nat with (length w' mod 4)%nat by lia.
    replace ((length w' + 4) / 4)%nat with (length w' / 4 + 1)%nat by lia.
    replace (length w' + 4 - 1)%nat with (length w' + 3)%nat by lia.
    replace (length w' + 4 - 4)%nat with (length w' + 0)%nat by lia.
    rewrite !nth_app_exact by reflexivity. cbn [nth].
    change ((6 <? 4)%nat) with false. cbn [andb].
    destruct (length w' mod 4 =? 0)%nat; reflexivity.
  Qed.

  Lemma next_word_8 w' a b c d e f g h :
    next_word sb 8 (w' ++ [a; b; c; d; e; f; g; h]) =
    xor_word a (if (length w' mod 8 =? 0)%nat
                then xor_word (SubWord sb (RotWord h)) (Rcon (length w' / 8 + 1))
                else if (length w' mod 8 =? 4)%nat then SubWord sb h else h).
  Proof.
    unfold next_word. rewrite app_length. cbn [length].
    replace ((length w' + 8) mod 8)%nat with (length w' mod 8)%nat by lia.
    replace ((length w' + 8) / 8)%nat with (length w' / 8 + 1)%nat by lia.
    replace (length w' + 8 - 1)%nat with (length w' + 7)%nat by lia.
    replace (length w' + 8 - 8)%nat with (length w' + 0)%nat by lia.
    rewrite !nth_app_exact by reflexivity. cbn [nth].
    change ((6 <? 8)%nat) with true. cbn [andb].
    destruct (length w' mod 8 =? 0)%nat; reflexivity.
  Qed.

  Lemma shift1 {A} (w' : list A) x rest y : (w' ++ x :: rest) ++ [y] = (w' ++ [x]) ++ rest ++ [y].
  Proof. rewrite <- !app_assoc. reflexivity. Qed.

  Lemma expand_S Nk n w : expand sb Nk (S n) w = expand sb Nk n (w ++ [next_word sb Nk w]).
  Proof. reflexivity. Qed.

  (* Nk = 4: four steps of the word recurrence = one next4 *)
  Lemma expand4_step q w' a b c d n : length w' = (4 * q)%nat ->
    expand sb 4 (S (S (S (S n)))) (w' ++ [a; b; c; d]) =
    expand sb 4 n ((w' ++ [a; b; c; d]) ++ next4 a b c d (temp_rot d (Nat.iter q xtime 1))).
  Proof.
    intros Hl.
    rewrite expand_S, next_word_4.
    replace (length w' mod 4 =? 0)%nat with true by (symmetry; apply Nat.eqb_eq; lia).
    replace (length w' / 4 + 1)%nat with (S q) by lia.
    unfold Rcon. replace (S q - 1)%nat with q by lia.
    fold (temp_rot d (Nat.iter q xtime 1)).
    set (e := xor_word a _).
    rewrite shift1. cbn [app]. rewrite expand_S, next_word_4, app_length. cbn [length].
    replace ((length w' + 1) mod 4 =? 0)%nat with false by (symmetry; apply Nat.eqb_neq; lia).
    set (f := xor_word b e).
    rewrite shift1. cbn [app]. rewrite expand_S, next_word_4, !app_length. cbn [length].
    replace ((length w' + 1 + 1) mod 4 =? 0)%nat with false by (symmetry; apply Nat.eqb_neq; lia).
    set (g := xor_word c f).
    rewrite shift1. cbn [app]. rewrite expand_S, next_word_4, !app_length. cbn [length].
    replace ((length w' + 1 + 1 + 1) mod 4 =? 0)%nat with false by (symmetry; apply Nat.eqb_neq; lia).
    set (h := xor_word d g).
    f_equal. unfold next4. fold e. fold f. fold g. fold h.
    rewrite <- !app_assoc. reflexivity.
  Qed.

  (* Nk = 8: four steps starting at i = 0 mod 8 (rotate, substitute, Rcon) ... *)
  Lemma expand8_step_even q w' a b c d e f g h n : length w' = (8 * q)%nat ->
    expand sb 8 (S (S (S (S n)))) (w' ++ [a; b; c; d; e; f; g; h]) =
    expand sb 8 n ((w' ++ [a; b; c; d; e; f; g; h]) ++ next4 a b c d (temp_rot h (Nat.iter q xtime 1))).
  Proof.
    intros Hl.
    rewrite expand_S, next_word_8.
    replace (length w' mod 8 =? 0)%nat with true by (symmetry; apply Nat.eqb_eq; lia).
    replace (length w' / 8 + 1)%nat with (S q) by lia.
    unfold Rcon. replace (S q - 1)%nat with q by lia.
    fold (temp_rot h (Nat.iter q xtime 1)).
    set (x1 := xor_word a _).
    rewrite shift1. cbn [app]. rewrite expand_S, next_word_8, app_length. cbn [length].
    replace ((length w' + 1) mod 8 =? 0)%nat with false by (symmetry; apply Nat.eqb_neq; lia).
    replace ((length w' + 1) mod 8 =? 4)%nat with false by (symmetry; apply Nat.eqb_neq; lia).
    set (x2 := xor_word b x1).
    rewrite shift1. cbn [app]. rewrite expand_S, next_word_8, !app_length. cbn [length].
    replace ((length w' + 1 + 1) mod 8 =? 0)%nat with false by (symmetry; apply Nat.eqb_neq; lia).
    replace ((length w' + 1 + 1) mod 8 =? 4)%nat with false by (symmetry; apply Nat.eqb_neq; lia).
    set (x3 := xor_word c x2).
    rewrite shift1. cbn [app]. rewrite expand_S, next_word_8, !app_length. cbn [length].
    replace ((length w' + 1 + 1 + 1) mod 8 =? 0)%nat with false by (symmetry; apply Nat.eqb_neq; lia).
    replace ((length w' + 1 + 1 + 1) mod 8 =? 4)%nat with false by (symmetry; apply Nat.eqb_neq; lia).
    set (x4 := xor_word d x3).
    f_equal. unfold next4. fold x1. fold x2. fold x3. fold x4.
    rewrite <- !app_assoc. reflexivity.
  Qed.

  (* ... and four steps starting at i = 4 mod 8 (substitute only) *)
  Lemma expand8_step_odd q w' a b c d e f g h n : length w' = (8 * q + 4)%nat ->
    expand sb 8 (S (S (S (S n)))) (w' ++ [a; b; c; d; e; f; g; h]) =
    expand sb 8 n ((w' ++ [a; b; c; d; e; f; g; h]) ++ next4 a b c d (temp_sub h)).
  Proof.
    intros Hl.
    rewrite expand_S, next_word_8.
    replace (length w' mod 8 =? 0)%nat with false by (symmetry; apply Nat.eqb_neq; lia).
    replace (length w' mod 8 =? 4)%nat with true by (symmetry; apply Nat.eqb_eq; lia).
    fold (temp_sub h).
    set (x1 := xor_word a _).
    rewrite shift1. cbn [app]. rewrite expand_S, next_word_8, app_length. cbn [length].
    replace ((length w' + 1) mod 8 =? 0)%nat with false by (symmetry; apply Nat.eqb_neq; lia).
    replace ((length w' + 1) mod 8 =? 4)%nat with false by (symmetry; apply Nat.eqb_neq; lia).
    set (x2 := xor_word b x1).
    rewrite shift1. cbn [app]. rewrite expand_S, next_word_8, !app_length. cbn [length].
    replace ((length w' + 1 + 1) mod 8 =? 0)%nat with false by (symmetry; apply Nat.eqb_neq; lia).
    replace ((length w' + 1 + 1) mod 8 =? 4)%nat with false by (symmetry; apply Nat.eqb_neq; lia).
    set (x3 := xor_word c x2).
    rewrite shift1. cbn [app]. rewrite expand_S, next_word_8, !app_length. cbn [length].
    replace ((length w' + 1 + 1 + 1) mod 8 =? 0)%nat with false by (symmetry; apply Nat.eqb_neq; lia).
    replace ((length w' + 1 + 1 + 1) mod 8 =? 4)%nat with false by (symmetry; apply Nat.eqb_neq; lia).
    set (x4 := xor_word d x3).
    f_equal. unfold next4. fold x1. fold x2. fold x3. fold x4.
    rewrite <- !app_assoc. reflexivity.
  Qed.

  (* ---------------------------------------------------------------- FIPS side: chains of blocks *)
  Definition flat4 (a b c d : word) : list N := a ++ b ++ c ++ d.

  Lemma concat4 (a b c d : word) : concat [a; b; c; d] = flat4 a b c d.
  Proof. unfold flat4. cbn [concat]. rewrite app_nil_r. reflexivity. Qed.

  (* AES-128: the blocks of four words, one per round constant *)
  Fixpoint fchain128 (rcs : list N) (a b c d : word) : list (list word) :=
    [a; b; c; d] ::
    match rcs with
    | [] => []
    | rc :: l =>
      let t := temp_rot d rc in
      let e := xor_word a t in
      let f := xor_word b e in
      let g := xor_word c f in
      let h := xor_word d g in
      fchain128 l e f g h
    end.

  Definition rcon_powers (q n : nat) : list N := map (fun j => Nat.iter j xtime 1) (seq q n).

  Lemma expand128_chain : forall rcs q w' a b c d,
    length w' = (4 * q)%nat -> rcs = rcon_powers q (length rcs) ->
    expand sb 4 (4 * length rcs) (w' ++ [a; b; c; d]) = w' ++ concat (fchain128 rcs a b c d).
  Proof.
    induction rcs as [|rc rcs IH]; intros q w' a b c d Hl Hrc.
    - cbn. reflexivity.
    - cbn [length] in *. unfold rcon_powers in Hrc. cbn [seq map] in Hrc.
      injection Hrc as Hrc Hrest.
      replace (4 * S (length rcs))%nat with (S (S (S (S (4 * length rcs)))))%nat by lia.
      rewrite (expand4_step q) by exact Hl. rewrite <- Hrc.
      unfold next4. cbv zeta.
      rewrite (IH (S q)); [| rewrite app_length; cbn [length]; lia | exact Hrest].
      cbn [fchain128 concat]. cbv zeta. rewrite <- !app_assoc. reflexivity.
  Qed.

  (* AES-256: a window of two blocks; op = (shuffle, rcon) as in the MKRKEY256 invocations *)
  Definition temp256 (op : N * N) (last : word) : word :=
    if fst op =? 255 then temp_rot last (snd op) else temp_sub last.

  Fixpoint fchain256 (ops : list (N * N)) (a b c d e f g h : word) : list (list word) :=
    [a; b; c; d] ::
    match ops with
    | [] => [[e; f; g; h]]
    | op :: l =>
      let t := temp256 op h in
      let x1 := xor_word a t in
      let x2 := xor_word b x1 in
      let x3 := xor_word c x2 in
      let x4 := xor_word d x3 in
      fchain256 l e f g h x1 x2 x3 x4
    end.

  (* the op list is what FIPS-197 prescribes from block m on: even blocks rotate + Rcon, odd blocks
     substitute only *)
  Fixpoint ops_ok (m : nat) (ops : list (N * N)) : Prop :=
    match ops with
    | [] => True
    | op :: l =>
      (if (m mod 2 =? 0)%nat then fst op = 255 /\ snd op = Nat.iter (m / 2) xtime 1
       else fst op = 170) /\ ops_ok (S m) l
    end.

  Lemma expand256_chain : forall ops m w' a b c d e f g h,
    length w' = (4 * m)%nat -> ops_ok m ops ->
    expand sb 8 (4 * length ops) (w' ++ [a; b; c; d; e; f; g; h]) =
    w' ++ concat (fchain256 ops a b c d e f g h).
  Proof.
    induction ops as [|op ops IH]; intros m w' a b c d e f g h Hl Hok.
    - cbn. reflexivity.
    - cbn [length]. cbn [ops_ok] in Hok. destruct Hok as [Hop Hok].
      replace (4 * S (length ops))%nat with (S (S (S (S (4 * length ops)))))%nat by lia.
      assert (Hshift : forall x1 x2 x3 x4 : word,
                 (w' ++ [a; b; c; d; e; f; g; h]) ++ [x1; x2; x3; x4] =
                 (w' ++ [a; b; c; d]) ++ [e; f; g; h; x1; x2; x3; x4]).
      { intros. rewrite <- !app_assoc. reflexivity. }
      destruct (m mod 2 =? 0)%nat eqn:Hpar.
      + apply Nat.eqb_eq in Hpar. destruct Hop as [Hsh Hrc].
        rewrite (expand8_step_even (m / 2)) by lia.
        unfold next4. cbv zeta. rewrite Hshift.
        rewrite (IH (S m)); [| rewrite app_length; cbn [length]; lia | exact Hok].
        cbn [fchain256 concat]. cbv zeta. unfold temp256. rewrite Hsh, Hrc.
        change (255 =? 255) with true. cbv iota.
        rewrite <- !app_assoc. reflexivity.
      + apply Nat.eqb_neq in Hpar.
        rewrite (expand8_step_odd (m / 2)) by lia.
        unfold next4. cbv zeta. rewrite Hshift.
        rewrite (IH (S m)); [| rewrite app_length; cbn [length]; lia | exact Hok].
        cbn [fchain256 concat]. cbv zeta. unfold temp256. rewrite Hop.
        change (170 =? 255) with false. cbv iota.
        rewrite <- !app_assoc. reflexivity.
  Qed.

  (* ---------------------------------------------------------------- model side: chains of round keys *)
  Fixpoint mchain128 (rcons : list N) (k : m128) : list m128 :=
    k :: match rcons with
         | [] => []
         | rc :: l => mchain128 l (mkrkey sb k k [4; 8] 255 rc)
         end.

  Fixpoint mchain256 (ops : list (N * N)) (s t : m128) : list m128 :=
    s :: match ops with
         | [] => [t]
         | op :: l => mchain256 l t (mkrkey sb s t [4; 8] (fst op) (snd op))
         end.

  Definition word4 (w : word) : Prop := length w = 4%nat.

  Lemma xor_word_4 a b : word4 (xor_word a b).
  Proof. reflexivity. Qed.

  Ltac explode w H :=
    destruct w as [|? [|? [|? [|? [|? ?]]]]]; try discriminate H; clear H.

  Lemma sim128 : forall rcs a b c d, word4 a -> word4 b -> word4 c -> word4 d ->
    map (@concat N) (fchain128 rcs a b c d) = mchain128 rcs (flat4 a b c d).
  Proof.
    induction rcs as [|rc rcs IH]; intros a b c d Ha Hb Hc Hd.
    - cbn [fchain128 map mchain128]. rewrite concat4. reflexivity.
    - cbn [fchain128 map mchain128]. cbv zeta. rewrite concat4. f_equal.
      rewrite IH by apply xor_word_4. f_equal.
      explode a Ha. explode b Hb. explode c Hc. explode d Hd.
      unfold flat4 at 2. cbn [app].
      etransitivity; [| symmetry; apply lane128].
      unfold next4. cbv zeta. rewrite concat4. reflexivity.
  Qed.

  Definition ops_shuffles_ok (ops : list (N * N)) : Prop :=
    Forall (fun op => fst op = 255 \/ fst op = 170) ops.

  Lemma sim256 : forall ops a b c d e f g h,
    ops_shuffles_ok ops ->
    word4 a -> word4 b -> word4 c -> word4 d -> word4 e -> word4 f -> word4 g -> word4 h ->
    map (@concat N) (fchain256 ops a b c d e f g h) = mchain256 ops (flat4 a b c d) (flat4 e f g h).
  Proof.
    induction ops as [|op ops IH]; intros a b c d e f g h Hops Ha Hb Hc Hd He Hf Hg Hh.
    - cbn [fchain256 map mchain256]. rewrite !concat4. reflexivity.
    - cbn [fchain256 map mchain256]. cbv zeta. rewrite concat4. f_equal.
      inversion Hops as [|op' ops' Hop Hrest]; subst.
      rewrite IH by (try apply xor_word_4; assumption). f_equal.
      explode a Ha. explode b Hb. explode c Hc. explode d Hd.
      explode e He. explode f Hf. explode g Hg. explode h Hh.
      unfold flat4 at 2 3. cbn [app]. unfold temp256.
      destruct Hop as [Hop | Hop]; rewrite Hop.
      + change (255 =? 255) with true. cbv iota.
        etransitivity; [| symmetry; apply lane256_ff].
        unfold next4. cbv zeta. rewrite concat4. reflexivity.
      + change (170 =? 255) with false. cbv iota.
        etransitivity; [| symmetry; apply lane256_aa].
        unfold next4. cbv zeta. rewrite concat4. reflexivity.
  Qed.

  (* ---------------------------------------------------------------- model side: the rkeys[] array *)
  Lemma upd_app_exact {A} : forall (pre : list A) x post v,
    upd (pre ++ x :: post) (length pre) v = pre ++ v :: post.
  Proof. induction pre as [|p pre IH]; intros; [reflexivity|]. cbn [app length upd]. rewrite IH. reflexivity. Qed.

  Lemma rk_at_app pre (x : m128) post j : length pre = j ->
    rk_at (pre ++ x :: post) (N.of_nat j) = x.
  Proof.
    intros <-. unfold rk_at. rewrite Nat2N.id.
    replace (length pre) with (length pre + 0)%nat by lia. rewrite nth_app_exact by reflexivity. reflexivity.
  Qed.

  Lemma rk_at_app2 pre (s t : m128) post j : length pre = j ->
    rk_at (pre ++ s :: t :: post) (N.of_nat (S j)) = t.
  Proof.
    intros Hj.
    replace (pre ++ s :: t :: post) with ((pre ++ [s]) ++ t :: post) by (rewrite <- app_assoc; reflexivity).
    apply rk_at_app. rewrite app_length. cbn [length]. lia.
  Qed.

  Lemma fold128_chain : forall (l : list (N * N)) j pre k post,
    length pre = j -> map fst l = map N.of_nat (seq (S j) (length l)) ->
    (length l <= length post)%nat ->
    fold_left (fun rk '(i, rcon) =>
                 upd rk (N.to_nat i) (mkrkey sb (rk_at rk (i - 1)) (rk_at rk (i - 1)) [4; 8] 255 rcon))
              l (pre ++ k :: post)
    = pre ++ mchain128 (map snd l) k ++ skipn (length l) post.
  Proof.
    induction l as [|[i rc] l IH]; intros j pre k post Hj Hidx Hpost.
    - reflexivity.
    - cbn [fold_left map length seq fst snd] in *. injection Hidx as Hi Hidx. subst i.
      destruct post as [|p0 post]; [cbn in Hpost; lia|].
      change (N.pos (Pos.of_succ_nat j)) with (N.of_nat (S j)).
      replace (N.of_nat (S j) - 1) with (N.of_nat j) by lia.
      rewrite (rk_at_app pre k (p0 :: post) j Hj). rewrite Nat2N.id.
      replace (pre ++ k :: p0 :: post) with ((pre ++ [k]) ++ p0 :: post) by (rewrite <- app_assoc; reflexivity).
      replace (S j) with (length (pre ++ [k])) at 1 by (rewrite app_length; cbn [length]; lia).
      rewrite upd_app_exact.
      rewrite (IH (S j)); [| rewrite app_length; cbn [length]; lia | exact Hidx | cbn [length] in Hpost; lia].
      cbn [mchain128 skipn]. rewrite <- app_assoc. reflexivity.
  Qed.

  Lemma fold256_chain : forall (l : list (N * N * N)) j pre s t post,
    length pre = j -> map (fun x => fst (fst x)) l = map N.of_nat (seq (S (S j)) (length l)) ->
    (length l <= length post)%nat ->
    fold_left (fun rk '(i, shuffle, rcon) =>
                 upd rk (N.to_nat i) (mkrkey sb (rk_at rk (i - 2)) (rk_at rk (i - 1)) [4; 8] shuffle rcon))
              l (pre ++ s :: t :: post)
    = pre ++ mchain256 (map (fun x => (snd (fst x), snd x)) l) s t ++ skipn (length l) post.
  Proof.
    induction l as [|[[i sh] rc] l IH]; intros j pre s t post Hj Hidx Hpost.
    - reflexivity.
    - cbn [fold_left map length seq fst snd] in *. injection Hidx as Hi Hidx. subst i.
      destruct post as [|p0 post]; [cbn in Hpost; lia|].
      change (N.pos (Pos.succ (Pos.of_succ_nat j))) with (N.of_nat (S (S j))).
      replace (N.of_nat (S (S j)) - 2) with (N.of_nat j) by lia.
      replace (N.of_nat (S (S j)) - 1) with (N.of_nat (S j)) by lia.
      rewrite (rk_at_app pre s (t :: p0 :: post) j Hj).
      rewrite (rk_at_app2 pre s t (p0 :: post) j Hj).
      rewrite Nat2N.id.
      replace (pre ++ s :: t :: p0 :: post) with ((pre ++ [s; t]) ++ p0 :: post) by (rewrite <- app_assoc; reflexivity).
      replace (S (S j)) with (length (pre ++ [s; t])) at 1 by (rewrite app_length; cbn [length]; lia).
      rewrite upd_app_exact.
      replace ((pre ++ [s; t]) ++ mkrkey sb s t [4; 8] sh rc :: post)
        with ((pre ++ [s]) ++ t :: mkrkey sb s t [4; 8] sh rc :: post) by (rewrite <- !app_assoc; reflexivity).
      rewrite (IH (S j)); [| rewrite app_length; cbn [length]; lia | exact Hidx | cbn [length] in Hpost; lia].
      cbn [mchain256 skipn fst snd]. rewrite <- app_assoc. reflexivity.
  Qed.

  (* ---------------------------------------------------------------- round keys of a schedule in blocks *)
  Lemma concat_blocks_length : forall blocks : list (list word),
    Forall (fun b => length b = 4%nat) blocks -> length (concat blocks) = (4 * length blocks)%nat.
  Proof.
    induction 1 as [|b bs Hb _ IH]; [reflexivity|].
    cbn [concat length]. rewrite app_length, Hb, IH. lia.
  Qed.

  Lemma round_keys_blocks : forall (blocks : list (list word)) pre p,
    Forall (fun b => length b = 4%nat) blocks -> length pre = (4 * p)%nat ->
    map (round_key (pre ++ concat blocks)) (seq p (length blocks)) = map (@concat N) blocks.
  Proof.
    induction blocks as [|b bs IH]; intros pre p Hwf Hp; [reflexivity|].
    inversion Hwf as [|b' bs' Hb Hbs]; subst.
    cbn [length seq map concat]. f_equal.
    - unfold round_key. rewrite skipn_app_exact by exact Hp.
      rewrite firstn_app_exact by exact Hb. reflexivity.
    - rewrite app_assoc. apply IH; [exact Hbs|]. rewrite app_length, Hb. lia.
  Qed.

  Lemma round_keys_concat (blocks : list (list word)) :
    Forall (fun b => length b = 4%nat) blocks -> round_keys (concat blocks) = map (@concat N) blocks.
  Proof.
    intros Hwf. unfold round_keys. rewrite concat_blocks_length by exact Hwf.
    replace (4 * length blocks / 4)%nat with (length blocks) by lia.
    apply (round_keys_blocks blocks [] 0%nat Hwf). reflexivity.
  Qed.

  Lemma fchain128_wf : forall rcs a b c d, Forall (fun b => length b = 4%nat) (fchain128 rcs a b c d).
  Proof.
    induction rcs as [|rc rcs IH]; intros; cbn [fchain128]; cbv zeta; constructor; try reflexivity.
    - constructor.
    - apply IH.
  Qed.

  Lemma fchain256_wf : forall ops a b c d e f g h,
    Forall (fun b => length b = 4%nat) (fchain256 ops a b c d e f g h).
  Proof.
    induction ops as [|op ops IH]; intros; cbn [fchain256]; cbv zeta; constructor; try reflexivity.
    - constructor; [reflexivity | constructor].
    - apply IH.
  Qed.

  (* ---------------------------------------------------------------- the regenerated invocation lists *)
  Lemma repo_mkrkey128_ok :
    map fst mkrkey128 = map N.of_nat (seq 1 (length mkrkey128)) /\
    map snd mkrkey128 = rcon_powers 0 (length (map snd mkrkey128)) /\
    length mkrkey128 = 10%nat.
  Proof. repeat split; vm_compute; reflexivity. Qed.

  Definition ops256 : list (N * N) := map (fun x => (snd (fst x), snd x)) mkrkey256.

  Lemma repo_mkrkey256_ok :
    map (fun x => fst (fst x)) mkrkey256 = map N.of_nat (seq 2 (length mkrkey256)) /\
    ops_ok 0 ops256 /\ ops_shuffles_ok ops256 /\ length mkrkey256 = 13%nat.
  Proof.
    split; [vm_compute; reflexivity|]. split; [|split; [|reflexivity]].
    - unfold ops256, mkrkey256. cbn [map fst snd ops_ok]. repeat split; vm_compute; reflexivity.
    - unfold ops_shuffles_ok. apply Forall_forall. intros op Hin.
      unfold ops256, mkrkey256 in Hin. cbn [map fst snd In] in Hin.
      repeat (destruct Hin as [<- | Hin]; [cbn [fst]; auto|]). contradiction.
  Qed.

  (* ---------------------------------------------------------------- G4 *)
  Theorem key_expand_128_aesni_eq : forall key, length key = 16%nat ->
    firstn 11 (repo_key_expand_128_aesni sb key) = round_keys (KeyExpansion sb key).
  Proof.
    intros key Hlen.
    destruct repo_mkrkey128_ok as (Hidx & Hrc & Hn).
    do 16 (destruct key as [|? key]; [discriminate Hlen|]). destruct key; [|discriminate Hlen].
    match goal with
    | |- context [KeyExpansion sb [?x0;?x1;?x2;?x3;?x4;?x5;?x6;?x7;?x8;?x9;?x10;?x11;?x12;?x13;?x14;?x15]] =>
      (* FIPS side *)
      change (KeyExpansion sb [x0;x1;x2;x3;x4;x5;x6;x7;x8;x9;x10;x11;x12;x13;x14;x15])
        with (expand sb 4 (4 * length (map snd mkrkey128))
                     ([] ++ [[x0;x1;x2;x3]; [x4;x5;x6;x7]; [x8;x9;x10;x11]; [x12;x13;x14;x15]]));
      rewrite (expand128_chain (map snd mkrkey128) 0 [] _ _ _ _ eq_refl Hrc);
      cbn [app]; rewrite round_keys_concat by apply fchain128_wf;
      rewrite sim128 by reflexivity;
      (* model side *)
      change (repo_key_expand_128_aesni sb [x0;x1;x2;x3;x4;x5;x6;x7;x8;x9;x10;x11;x12;x13;x14;x15])
        with (fold_left (fun rk '(i, rcon) =>
                 upd rk (N.to_nat i) (mkrkey sb (rk_at rk (i - 1)) (rk_at rk (i - 1)) [4; 8] 255 rcon))
                mkrkey128
                ([] ++ flat4 [x0;x1;x2;x3] [x4;x5;x6;x7] [x8;x9;x10;x11] [x12;x13;x14;x15] :: repeat [] 14))
    end.
    rewrite (fold128_chain mkrkey128 0 [] _ (repeat [] 14) eq_refl Hidx) by (rewrite Hn; cbn; lia).
    cbn [app]. apply firstn_app_exact.
    generalize (flat4 [n; n0; n1; n2] [n3; n4; n5; n6] [n7; n8; n9; n10] [n11; n12; n13; n14]).
    generalize (map snd mkrkey128) (eq_refl : length (map snd mkrkey128) = 10%nat).
    clear. intros l. revert l.
    assert (H : forall l k, length (mchain128 l k) = S (length l)).
    { induction l as [|x l IH]; intros k; [reflexivity|]. cbn [mchain128 length]. rewrite IH. reflexivity. }
    intros l Hl k. rewrite H, Hl. reflexivity.
  Qed.

  Theorem key_expand_256_aesni_eq : forall key, length key = 32%nat ->
    repo_key_expand_256_aesni sb key = round_keys (KeyExpansion sb key).
  Proof.
    intros key Hlen.
    destruct repo_mkrkey256_ok as (Hidx & Hok & Hsh & Hn).
    do 32 (destruct key as [|? key]; [discriminate Hlen|]). destruct key; [|discriminate Hlen].
    match goal with
    | |- context [KeyExpansion sb [?x0;?x1;?x2;?x3;?x4;?x5;?x6;?x7;?x8;?x9;?x10;?x11;?x12;?x13;?x14;?x15;
                                   ?y0;?y1;?y2;?y3;?y4;?y5;?y6;?y7;?y8;?y9;?y10;?y11;?y12;?y13;?y14;?y15]] =>
      change (KeyExpansion sb [x0;x1;x2;x3;x4;x5;x6;x7;x8;x9;x10;x11;x12;x13;x14;x15;
                               y0;y1;y2;y3;y4;y5;y6;y7;y8;y9;y10;y11;y12;y13;y14;y15])
        with (expand sb 8 (4 * length ops256)
                     ([] ++ [[x0;x1;x2;x3]; [x4;x5;x6;x7]; [x8;x9;x10;x11]; [x12;x13;x14;x15];
                             [y0;y1;y2;y3]; [y4;y5;y6;y7]; [y8;y9;y10;y11]; [y12;y13;y14;y15]]));
      rewrite (expand256_chain ops256 0 [] _ _ _ _ _ _ _ _ eq_refl Hok);
      cbn [app]; rewrite round_keys_concat by apply fchain256_wf;
      rewrite sim256 by (try reflexivity; exact Hsh);
      change (repo_key_expand_256_aesni sb [x0;x1;x2;x3;x4;x5;x6;x7;x8;x9;x10;x11;x12;x13;x14;x15;
                               y0;y1;y2;y3;y4;y5;y6;y7;y8;y9;y10;y11;y12;y13;y14;y15])
        with (fold_left (fun rk '(i, shuffle, rcon) =>
                 upd rk (N.to_nat i) (mkrkey sb (rk_at rk (i - 2)) (rk_at rk (i - 1)) [4; 8] shuffle rcon))
                mkrkey256
                ([] ++ flat4 [x0;x1;x2;x3] [x4;x5;x6;x7] [x8;x9;x10;x11] [x12;x13;x14;x15]
                    :: flat4 [y0;y1;y2;y3] [y4;y5;y6;y7] [y8;y9;y10;y11] [y12;y13;y14;y15] :: repeat [] 13))
    end.
    rewrite (fold256_chain mkrkey256 0 [] _ _ (repeat [] 13) eq_refl Hidx) by (rewrite Hn; cbn; lia).
    cbn [app]. rewrite Hn. change (skipn 13 (repeat [] 13)) with (@nil m128).
    rewrite app_nil_r. reflexivity.
  Qed.

  (* ---------------------------------------------------------------- block encryption = FIPS-197 *)
  Lemma expand_length Nk : forall n w, length (expand sb Nk n w) = (length w + n)%nat.
  Proof.
    induction n as [|n IH]; intros w; [cbn; lia|].
    cbn [expand]. rewrite IH, app_length. cbn [length]. lia.
  Qed.

  Lemma nth_of_round_keys (rk : list m128) (w : list word) n r :
    firstn n rk = round_keys w -> (length w / 4 = n)%nat -> (r < n)%nat ->
    nth r rk [] = round_key w r.
  Proof.
    intros Hrk Hn Hr.
    assert (H : nth r (firstn n rk) [] = nth r rk []).
    { clear -Hr. revert r rk Hr. induction n as [|n IH]; intros r rk Hr; [lia|].
      destruct rk as [|x rk]; [destruct r; reflexivity|].
      destruct r; [reflexivity|]. cbn [firstn nth]. apply IH. lia. }
    rewrite <- H, Hrk. unfold round_keys. rewrite Hn.
    rewrite (nth_indep _ [] (round_key w 0)) by (rewrite map_length, seq_length; exact Hr).
    rewrite map_nth, seq_nth by exact Hr. reflexivity.
  Qed.

  Lemma KeyExpansion_length key : (length key = 16 \/ length key = 32)%nat ->
    (length (KeyExpansion sb key) / 4 = length key / 4 + 7)%nat.
  Proof.
    intros H. unfold KeyExpansion. rewrite expand_length.
    assert (Hw : forall n bytes, length (words_of bytes n) = n).
    { induction n as [|n IH]; intros; [reflexivity|]. cbn [words_of length]. rewrite IH. reflexivity. }
    rewrite Hw. destruct H as [-> | ->]; reflexivity.
  Qed.

  Lemma rk128_nth key r : length key = 16%nat -> (r <= 10)%nat ->
    nth r (repo_key_expand_128_aesni sb key) [] = round_key (KeyExpansion sb key) r.
  Proof.
    intros Hlen Hr.
    apply (nth_of_round_keys _ _ 11); [apply (key_expand_128_aesni_eq key Hlen) | | lia].
    rewrite KeyExpansion_length by (left; exact Hlen). rewrite Hlen. reflexivity.
  Qed.

  Lemma rk256_nth key r : length key = 32%nat -> (r <= 14)%nat ->
    nth r (repo_key_expand_256_aesni sb key) [] = round_key (KeyExpansion sb key) r.
  Proof.
    intros Hlen Hr.
    assert (Hl : (length (KeyExpansion sb key) / 4 = 15)%nat).
    { rewrite KeyExpansion_length by (right; exact Hlen). rewrite Hlen. reflexivity. }
    apply (nth_of_round_keys _ _ 15); [| exact Hl | lia].
    rewrite (key_expand_256_aesni_eq key Hlen). apply firstn_all2.
    unfold round_keys. rewrite map_length, seq_length, Hl. lia.
  Qed.

  Theorem aesni_block_eq_fips : forall key k b,
    repo_key_expand_aesni sb key = Some k ->
    repo_encrypt_block_aesni sb k b = aes_encrypt sb key b.
  Proof.
    intros key k b Hk. unfold repo_key_expand_aesni, key_expand_aesni in Hk.
    destruct (length key =? 16)%nat eqn:H16.
    - apply Nat.eqb_eq in H16. injection Hk as <-.
      unfold aes_encrypt, Nr_of. rewrite H16.
      apply (encrypt_block_aesni_eq_Cipher sb (KeyExpansion sb key) 10 _ b (or_introl eq_refl)).
      intros r Hr. exact (rk128_nth key r H16 Hr).
    - destruct (length key =? 32)%nat eqn:H32; [|discriminate Hk].
      apply Nat.eqb_eq in H32. injection Hk as <-.
      unfold aes_encrypt, Nr_of. rewrite H32.
      apply (encrypt_block_aesni_eq_Cipher sb (KeyExpansion sb key) 14 _ b (or_intror eq_refl)).
      intros r Hr. exact (rk256_nth key r H32 Hr).
  Qed.

  Lemma repo_key_expand_aesni_some key : (length key = 16 \/ length key = 32)%nat ->
    exists k, repo_key_expand_aesni sb key = Some k.
  Proof.
    intros [H | H]; unfold repo_key_expand_aesni, key_expand_aesni; rewrite H; cbn [Nat.eqb]; eauto.
  Qed.

  Lemma repo_encrypt_block_aesni_length k b : length (repo_encrypt_block_aesni sb k b) = 16%nat.
  Proof.
    unfold repo_encrypt_block_aesni, encrypt_block_aesni. destruct k as [rk nr].
    unfold aesenclast. apply mm_xor_length.
  Qed.
End G4.
