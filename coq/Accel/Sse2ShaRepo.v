(* The model of alg/sha256_sse2.c instantiated with the constants REGENERATED from /repo
   (Gen/Repo_accel.v).  This is the function that is extracted, run against the compiled
   SHA256_Transform_sse2, and that the property theorems are about.  Definitions only. *)
From Coq Require Import NArith List.
From LCP Require Import Gen.Repo_accel Accel.X86Vec Accel.Sse2Sha.
Import ListNotations.
Local Open Scope N_scope.

Definition sse2_repo_consts : sse2_consts :=
  {| k_Krnd := sse2_Krnd; k_rotw := sse2_rotr_width; k_S0 := sse2_bigS0_rots; k_S1 := sse2_bigS1_rots;
     k_bsw_sll := sse2_bswap_sll16; k_bsw_srl := sse2_bswap_srl16;
     k_bsw_lo := sse2_bswap_shuflo; k_bsw_hi := sse2_bswap_shufhi;
     k_rot32w := sse2_rotr32_width; k_s0_rots := sse2_s0_rots; k_s0_shr := sse2_s0_shr;
     k_s1h := (sse2_s1h_dup, sse2_s1h_srl64, sse2_s1h_shr, sse2_s1h_pick, sse2_s1h_bytes);
     k_s1l := (sse2_s1l_dup, sse2_s1l_srl64, sse2_s1l_shr, sse2_s1l_pick, sse2_s1l_bytes);
     k_span := sse2_span_shuf; k_loads := sse2_loads; k_copy := sse2_copy_bytes;
     k_bound := sse2_loop_bound; k_step := sse2_loop_step; k_rndr := sse2_rndr;
     k_break := sse2_loop_break; k_calls := sse2_msg_calls; k_final := sse2_final_words |}.

Definition sha256_transform_sse2 : list N -> list N -> list N := transform_sse2 sse2_repo_consts.
Definition sse2_bswap : v128 -> v128 := mm_bswap_epi32 sse2_repo_consts.
Definition sse2_msg4 : v128 -> v128 -> v128 -> v128 -> v128 := MSG4 sse2_repo_consts.
