(* The model of alg/crc32c_sse42.c and of the routing in CRC32C_Update, instantiated with the
   constants regenerated from the C source. *)
From Coq Require Import NArith List.
From LCP Require Import Base.CheckedMem Gen.Repo_crc Alg.GF2Poly Alg.Crc32c Alg.Crc32cRepo Accel.Sse42Crc.
Import ListNotations.
Local Open Scope N_scope.

(* use64 = CPUSUPPORT_X86_SSE42_64 defined *)
Definition crc_update_sse42_gen (use64 : bool) : N -> N -> list N -> res N :=
  update_sse42_m sse42_minlen sse42_align_from sse42_align_mask sse42_block_mod
                 sse42_assert_mask sse42_stride sse42_tail_bound use64.
Definition crc_update_sse42 : N -> N -> list N -> res N := crc_update_sse42_gen true.
Definition crc_update_sse42_32 : N -> N -> list N -> res N := crc_update_sse42_gen false.

(* CRC32C_Update in a build/CPU where hwaccel = hw *)
Definition crc_update_any_config_gen (use64 hw : bool) : N -> N -> list N -> res N :=
  update_any_m crc_hw_minlen (crc_update_sse42_gen use64) crc_update_c hw.
Definition crc_update_any_config : bool -> N -> N -> list N -> res N := crc_update_any_config_gen true.

(* Init; Update on consecutive pieces of a buffer at address addr; Final *)
Definition crc_stream_any_config_gen (use64 hw : bool) (addr : N) (parts : list (list N)) : res (list N) :=
  match stream_m crc_hw_minlen (crc_update_sse42_gen use64) crc_update_c hw addr crc_init parts with
  | Ok st => Ok (crc_final st)
  | Fault => Fault | AssertFail => AssertFail | OutOfFuel => OutOfFuel
  end.
Definition crc_stream_any_config : bool -> N -> list (list N) -> res (list N) := crc_stream_any_config_gen true.

(* hwtest(): the accelerated update of the self-test vector gives the expected bytes *)
Definition crc_hwtest (use64 : bool) (addr : N) : bool :=
  match crc_update_sse42_gen use64 addr crc_T_0_0x80 crc_hwtest_buf with
  | Ok st => if list_eq_dec N.eq_dec (crc_final st) crc_hwtest_crc then true else false
  | _ => false
  end.
