(* M3: crypto_aes_encrypt_block_aesni_m128i on a correct key schedule is the FIPS-197 Cipher.
   Parametric in the S-box function; the aes_key[] index lists and the `nr > T` threshold are the
   ones regenerated from crypto_aes_aesni.c. *)
From Coq Require Import NArith List Arith Bool Lia.
From LCP Require Import Gen.Repo_aes.
From LCP Require Import Crypto.AesSpec.
From LCP Require Import Crypto.AesProofs.
From LCP Require Import Accel.AesNi.
From LCP Require Import Crypto.AesCtrModel.
From LCP Require Import Crypto.AesRepo.
Import ListNotations.
Local Open Scope N_scope.

Section M3.
  Variable sb : N -> N.

  Lemma mm_xor_is_AddRoundKey a b : mm_xor_si128 a b = AddRoundKey a b.
  Proof. reflexivity. Qed.

  Lemma mm_xor_length a b : length (mm_xor_si128 a b) = 16%nat.
  Proof. unfold mm_xor_si128. rewrite map_length. reflexivity. Qed.

  (* SubBytes acts bytewise, ShiftRows permutes positions: the SDM's order (ShiftRows first) and
     FIPS-197's order (SubBytes first) give the same state *)
  Lemma SubBytes_ShiftRows_comm s :
    length s = 16%nat -> SubBytes sb (ShiftRows s) = ShiftRows (SubBytes sb s).
  Proof.
    intros H.
    do 16 (destruct s as [|? s]; [discriminate H|]).
    destruct s; [|discriminate H].
    reflexivity.
  Qed.

  Lemma aesenc_eq_mid_round s k : length s = 16%nat -> aesenc sb s k = mid_round sb s k.
  Proof.
    intros H. unfold aesenc, mid_round. rewrite mm_xor_is_AddRoundKey.
    rewrite SubBytes_ShiftRows_comm by exact H. reflexivity.
  Qed.

  Lemma aesenclast_eq_final_round s k : length s = 16%nat -> aesenclast sb s k = final_round sb s k.
  Proof.
    intros H. unfold aesenclast, final_round. rewrite mm_xor_is_AddRoundKey.
    rewrite SubBytes_ShiftRows_comm by exact H. reflexivity.
  Qed.

  Lemma mid_round_length s k : length (mid_round sb s k) = 16%nat.
  Proof. apply AddRoundKey_length. Qed.

  Section Keys.
    Variables (rk : list m128) (w : list word).

    Lemma fold_aesenc_eq : forall (l : list N) s,
      length s = 16%nat ->
      (forall i, In i l -> rk_at rk i = round_key w (N.to_nat i)) ->
      fold_left (fun s i => aesenc sb s (rk_at rk i)) l s =
      fold_left (fun s r => mid_round sb s (round_key w r)) (map N.to_nat l) s.
    Proof.
      induction l as [|i l IH]; intros s Hs Hk; [reflexivity|].
      cbn [fold_left map].
      rewrite aesenc_eq_mid_round by exact Hs.
      rewrite (Hk i (or_introl eq_refl)).
      apply IH.
      - apply mid_round_length.
      - intros j Hj. apply Hk. right. exact Hj.
    Qed.

    Lemma fold_mid_length : forall (l : list nat) s,
      length s = 16%nat ->
      length (fold_left (fun s r => mid_round sb s (round_key w r)) l s) = 16%nat.
    Proof.
      induction l as [|r l IH]; intros s Hs; [exact Hs|].
      cbn [fold_left]. apply IH. apply mid_round_length.
    Qed.
  End Keys.

  (* the regenerated index lists are rounds 1..9 and 10..13 *)
  Lemma repo_enc_lists :
    enc_first = 0 /\ map N.to_nat enc_pre = seq 1 9 /\
    map N.to_nat (enc_pre ++ enc_branch) = seq 1 13 /\ enc_threshold = 10.
  Proof. repeat split; reflexivity. Qed.

  Theorem encrypt_block_aesni_eq_Cipher :
    forall (w : list word) (Nr : nat) (rk : list m128) b,
      (Nr = 10 \/ Nr = 14)%nat ->
      (forall r, (r <= Nr)%nat -> nth r rk [] = round_key w r) ->
      repo_encrypt_block_aesni sb (rk, N.of_nat Nr) b = Cipher sb Nr w b.
  Proof.
    intros w Nr rk b HNr Hrk.
    destruct repo_enc_lists as (Hfirst & Hpre & Hall & Hthr).
    assert (Hat : forall i, (N.to_nat i <= Nr)%nat -> rk_at rk i = round_key w (N.to_nat i)).
    { intros i Hi. unfold rk_at. apply Hrk. exact Hi. }
    unfold repo_encrypt_block_aesni, encrypt_block_aesni, Cipher.
    rewrite Hfirst, Hthr.
    rewrite mm_xor_is_AddRoundKey.
    rewrite (Hat 0) by (cbn; lia). change (N.to_nat 0) with 0%nat.
    set (s0 := AddRoundKey b (round_key w 0)).
    assert (Hs0 : length s0 = 16%nat) by apply AddRoundKey_length.
    destruct HNr as [-> | ->].
    - (* AES-128: nr = 10, the branch is not taken *)
      change (10 <? N.of_nat 10) with false. cbv iota.
      rewrite (fold_aesenc_eq rk w enc_pre s0 Hs0).
      2:{ intros i Hi. apply Hat.
          assert (Hin : In (N.to_nat i) (map N.to_nat enc_pre)) by (apply in_map; exact Hi).
          rewrite Hpre in Hin. apply in_seq in Hin. lia. }
      rewrite Hpre.
      change (10 - 1)%nat with 9%nat.
      rewrite aesenclast_eq_final_round by (apply fold_mid_length; exact Hs0).
      rewrite (Hat (N.of_nat 10)) by (cbn; lia).
      reflexivity.
    - (* AES-256: nr = 14, four more rounds *)
      change (10 <? N.of_nat 14) with true. cbv iota.
      rewrite <- fold_left_app.
      rewrite (fold_aesenc_eq rk w (enc_pre ++ enc_branch) s0 Hs0).
      2:{ intros i Hi. apply Hat.
          assert (Hin : In (N.to_nat i) (map N.to_nat (enc_pre ++ enc_branch))) by (apply in_map; exact Hi).
          rewrite Hall in Hin. apply in_seq in Hin. lia. }
      rewrite Hall.
      change (14 - 1)%nat with 13%nat.
      rewrite aesenclast_eq_final_round by (apply fold_mid_length; exact Hs0).
      rewrite (Hat (N.of_nat 14)) by (cbn; lia).
      reflexivity.
  Qed.
End M3.
