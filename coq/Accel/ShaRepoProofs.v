(* The tie for the two accelerated SHA-256 transforms: the instruction arguments, immediates, offsets,
   loop constants and RNDMSG / MSG4 rows the translator regenerates from alg/sha256_sse2.c and
   alg/sha256_shani.c (Gen/Repo_accel.v) are the ones the proofs of Sse2ShaProofs / ShaNiProofs are
   about, and the round-constant tables of the two files are the FIPS 180-4 constants.  Hence the
   models instantiated with the regenerated sequences (Sse2ShaRepo.sha256_transform_sse2,
   ShaNiRepo.sha256_transform_shani - the functions that are extracted and run against the compiled C)
   equal the portable transform instantiated from alg/sha256.c (HashRepo.sha256_transform) and the
   FIPS 180-4 compression function.  Every equality of regenerated data is by vm_compute: a changed
   immediate, offset, row or constant in the C text breaks this file. *)
From Coq Require Import Arith NArith List Lia.
From LCP Require Import Gen.Repo_accel Alg.Words Alg.WordsProofs Alg.Sha256Spec Alg.Sha256Model
  Alg.Sha256Proofs Alg.HashRepo Alg.HashRepoProofs
  Accel.X86Vec Accel.Sse2Sha Accel.Sse2ShaBits Accel.Sse2ShaLanes Accel.Sse2ShaProofs Accel.Sse2ShaRepo
  Accel.ShaNi Accel.ShaNiProofs Accel.ShaNiRepo.
Import ListNotations.
Local Open Scope N_scope.

Lemma sse2_repo_consts_eq_std : sse2_repo_consts = sse2_std K256.
Proof. vm_compute. reflexivity. Qed.
Lemma shani_repo_consts_eq_std : shani_repo_consts = shani_std K256.
Proof. vm_compute. reflexivity. Qed.

Lemma sha256_transform_sse2_eq_std : sha256_transform_sse2 = transform_sse2 (sse2_std K256).
Proof. unfold sha256_transform_sse2. rewrite sse2_repo_consts_eq_std. reflexivity. Qed.
Lemma sha256_transform_shani_eq_std : sha256_transform_shani = transform_shani (shani_std K256).
Proof. unfold sha256_transform_shani. rewrite shani_repo_consts_eq_std. reflexivity. Qed.

Definition bytes256 (l : list N) : Prop := Forall (fun b => b < 256) l.

(* SSE2 *)
Theorem sha256_transform_sse2_eq_portable st blk :
  length st = 8%nat -> length blk = 64%nat -> bytes256 blk ->
  sha256_transform_sse2 st blk = sha256_transform st blk.
Proof.
  intros. rewrite sha256_transform_sse2_eq_std, sha256_transform_eq.
  apply transform_sse2_std_eq_portable; assumption.
Qed.
Theorem sha256_transform_sse2_eq_fips st blk :
  length st = 8%nat -> length blk = 64%nat -> bytes256 blk ->
  sha256_transform_sse2 st blk = f256_compress st blk.
Proof.
  intros. rewrite sha256_transform_sse2_eq_std. apply transform_sse2_std_eq_compress; assumption.
Qed.

(* SHA-NI *)
Theorem sha256_transform_shani_eq_portable st blk :
  length st = 8%nat -> length blk = 64%nat -> bytes256 blk ->
  sha256_transform_shani st blk = sha256_transform st blk.
Proof.
  intros. rewrite sha256_transform_shani_eq_std, sha256_transform_eq.
  apply transform_shani_std_eq_portable; assumption.
Qed.
Theorem sha256_transform_shani_eq_fips st blk :
  length st = 8%nat -> length blk = 64%nat -> bytes256 blk ->
  sha256_transform_shani st blk = f256_compress st blk.
Proof.
  intros. rewrite sha256_transform_shani_eq_std. apply transform_shani_std_eq_compress; assumption.
Qed.

(* the hypotheses are satisfiable and the statements non-trivial: the initial state and a block *)
Example sha_accel_instance :
  let st := H0_256 in
  let blk := map N.of_nat (seq 0 64) in
  length st = 8%nat /\ length blk = 64%nat /\ bytes256 blk /\
  sha256_transform_sse2 st blk = sha256_transform_shani st blk /\
  sha256_transform_sse2 st blk <> st.
Proof.
  cbv zeta. split; [reflexivity|]. split; [reflexivity|]. split.
  - apply Forall_forall. intros b Hb. apply in_map_iff in Hb. destruct Hb as (i & <- & Hi).
    apply in_seq in Hi. change 256 with (N.of_nat 256). lia.
  - split; [vm_compute; reflexivity|]. vm_compute. discriminate.
Qed.
