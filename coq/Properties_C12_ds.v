(* C12: elastic array / elastic queue / sequential pointer map / object pool refine their abstract
   models.  Only statements, each closed by [exact], with Print Assumptions.
   The r_* functions are the models of datastruct/elasticarray.c, elasticqueue.c, seqptrmap.c and
   mpool.h instantiated with the constants regenerated from /repo (DS/ElasticArrayRepo.v); they are
   the functions the correspondence run executes against the compiled C.
   Notions used (DS/*Proofs.v): st_inv = (size <= alloc = length of the storage block < 2^64);
   st_abs / qst_abs / mst_abs = the ideal byte sequence / FIFO of records / association list a
   state stands for; tr_flags = per operation, whether the allocator refused a request made
   during it (an operation that may fail does so exactly then - C14). *)
From Coq Require Import NArith ZArith List Bool Permutation.
From LCP Require Import Base.CheckedMem.
From LCP Require Import Gen.Repo_ds.
From LCP Require Import DS.AllocOracle.
From LCP Require Import DS.ElasticArray.
From LCP Require Import DS.ElasticQueue.
From LCP Require Import DS.SeqPtrMap.
From LCP Require Import DS.Mpool.
From LCP Require Import DS.ElasticArrayRepo.
From LCP Require Import DS.ElasticArrayProofs.
From LCP Require Import DS.ElasticQueueProofs.
From LCP Require Import DS.SeqPtrMapProofs.
From LCP Require Import DS.MpoolProofs.
From LCP Require Import DS.ElasticArrayRepoProofs.
Import ListNotations.
Local Open Scope N_scope.

(* M1 ea_refines: for every program of init/resize/append/shrink/truncate/get/getsize/export/
   exportdup/free with arbitrary nrec and reclen > 0 (size-overflowing products included - they
   are refused with nothing changed, as the ideal array says) and every allocation oracle, the
   model never Faults (no access outside the storage block) and no assert fails, the invariant
   size <= alloc = length buf holds after every operation, and every result and the contents
   visible afterwards are those of the ideal resizable byte sequence. *)
Theorem C12_ea_refines :
  forall ops st o,
    st_inv st -> Forall ea_op_ok ops ->
    exists tr,
      r_ea_run ops st o = Ok tr /\
      Forall (fun t => st_inv (tr_st t)) tr /\
      tr_obs tr = ea_spec_run ops (st_abs st) (tr_flags tr).
Proof. exact r_ea_run_refines. Qed.
Print Assumptions C12_ea_refines.

(* M1 (get): whenever (pos+1)*reclen <= size, the pointer returned by get addresses reclen bytes
   inside the storage block and they are the ideal record *)
Theorem C12_ea_get_inside :
  forall e pos reclen,
    ea_inv e -> 0 < reclen -> (pos + 1) * reclen <= ea_size e ->
    ea_get e pos reclen + reclen <= N.of_nat (length (ea_buf e)) /\
    mem_read (ea_buf e) (ea_get e pos reclen) reclen =
    Ok (firstn (N.to_nat reclen) (skipn (N.to_nat (pos * reclen)) (ea_abs e))).
Proof. exact ea_get_inside. Qed.
Print Assumptions C12_ea_get_inside.

(* M1 (export): a successful export hands over exactly the contents, with nrec = size / reclen,
   and the array is gone *)
Theorem C12_ea_export_exact :
  forall e reclen o b n st' o' ev,
    ea_inv e -> 0 < reclen ->
    r_ea_step (OExport reclen) (Some e) o = Ok (XExport true b n, st', o', ev) ->
    b = ea_abs e /\ n = ea_size e / reclen /\ st' = None /\ refused ev = false.
Proof. exact r_ea_export_exact. Qed.
Print Assumptions C12_ea_export_exact.

(* M2 ea_capacity (a): after any successful init / resize / append / truncate, and after any
   shrink during which no realloc was refused, alloc / 4 <= size - whatever the state before;
   and an operation without a refused request preserves that bound.
   [alloc / 4 is integer division: the code's own quarter test; see C12_ea_capacity_strict_refuted] *)
Theorem C12_ea_capacity_step :
  forall op st o x st' o' ev,
    st_inv st -> ea_op_ok op ->
    r_ea_step op st o = Ok (x, st', o', ev) ->
    (establishes_cap op x ev -> st_cap st') /\ (refused ev = false -> st_cap st -> st_cap st').
Proof. exact r_ea_capacity_step. Qed.
Print Assumptions C12_ea_capacity_step.

(* M2 (b): hence always, while no request is refused *)
Theorem C12_ea_capacity_run :
  forall ops st o tr,
    st_inv st -> Forall ea_op_ok ops -> st_cap st ->
    r_ea_run ops st o = Ok tr ->
    Forall (fun t => refused (tr_ev t) = false) tr ->
    Forall (fun t => st_cap (tr_st t)) tr.
Proof. exact r_ea_run_capacity. Qed.
Print Assumptions C12_ea_capacity_run.

(* M2 (c): after a growing resize(), alloc <= 2 * size *)
Theorem C12_ea_grow_bound :
  forall e nsize o e' o' ev,
    ea_inv e -> nsize < W ->
    r_resize e nsize o = Ok (true, e', o', ev) ->
    ea_alloc e < ea_alloc e' -> ea_alloc e' <= 2 * ea_size e' /\ ea_alloc e' / 4 <= ea_size e'.
Proof. exact r_ea_grow_bound. Qed.
Print Assumptions C12_ea_grow_bound.

(* the bound without the rounding is false: init(7,1); shrink(6,1) gives alloc = 7, size = 1 *)
Theorem C12_ea_capacity_strict_refuted :
  exists tr e,
    r_ea_run [OInit 7 1 0; OShrink 6 1] None all_grant = Ok tr /\
    tr_final None tr = Some e /\ ea_size e = 1 /\ ea_alloc e = 7 /\
    cap_strict (ea_size e) (ea_alloc e) = false /\ cap_ok (ea_size e) (ea_alloc e) = true.
Proof. exact r_ea_capacity_strict_refuted. Qed.
Print Assumptions C12_ea_capacity_strict_refuted.

(* M3 eq_refines: for every program of init/add/delete/getlen/get/store-through-get/free on
   records of rl bytes (fewer operations than would make the byte count reach 2^64) and every
   oracle: no Fault, no failed assert, and the client sees an ideal FIFO (delete on an empty queue
   is a no-op, get pos = the pos-th record, NULL from the length on). *)
Theorem C12_eq_refines :
  forall rl ops st o,
    qst_inv rl st -> Forall (eq_op_ok rl) ops ->
    (q_used st + N.of_nat (length ops)) * rl < W ->
    exists tr,
      r_eq_run ops st o = Ok tr /\
      Forall (fun t => qst_inv rl (qtr_st t)) tr /\
      qtr_obs tr = eq_spec_run ops (qst_abs st) (qtr_flags tr).
Proof. exact r_eq_run_refines. Qed.
Print Assumptions C12_eq_refines.

(* M3 (get): reading through elasticqueue_get at 0 .. len-1 yields exactly the records, in order *)
Theorem C12_eq_view :
  forall q, eq_inv q -> eq_view q = Ok (eq_recs q).
Proof. exact eq_view_spec. Qed.
Print Assumptions C12_eq_view.

(* M4 spm_refines: for every program of init/add/get/getmin/delete/free with non-NULL 64-bit
   pointers and int64 numbers, shorter than 2^60 operations, and every oracle: no Fault, no failed
   assert, the trimming loop never runs out of fuel, and the client sees the abstract map: numbers
   issued consecutively from 0, get = the pointer stored under a number until it is deleted and
   NULL for every other number (below the offset, beyond the end, negative), getmin = the least
   live number or -1. *)
Theorem C12_spm_refines :
  forall ops st o,
    mst_inv st -> Forall spm_op_ok ops ->
    m_used st + N.of_nat (length ops) < 2 ^ 60 ->
    (m_next st + Z.of_nat (length ops) < 2 ^ 60)%Z ->
    exists tr,
      r_spm_run ops st o = Ok tr /\
      Forall (fun t => mst_inv (mtr_st t)) tr /\
      mtr_obs tr = spm_spec_run ops (mst_abs st) (mtr_flags tr).
Proof. exact r_spm_run_refines. Qed.
Print Assumptions C12_spm_refines.

(* am_min, used by the abstract map for getmin, is the least key *)
Theorem C12_spm_min_is_least :
  forall l k p, In (k, p) l -> (am_min l <= k)%Z /\ exists q, In (am_min l, q) l.
Proof. exact am_min_least. Qed.
Print Assumptions C12_spm_min_is_least.

(* M5 mpool_no_double_handout: for every malloc/free program of a client that frees only what it
   holds, on a pool created by MPOOL(name, type, size), under every oracle (the underlying malloc
   returning fresh blocks): no Fault / failed assert and the spec predicate holds - malloc never
   returns an object the client still holds.  (The length bound keeps the stack's byte count below
   2^64.) *)
Theorem C12_mpool_no_double_handout :
  forall olen size ops o,
    0 < size -> N.max size (2 * N.of_nat (length ops)) * 16 < W64 ->
    exists tr,
      r_mp_run olen ops (mp_world0 size) o = Ok tr /\
      mp_spec_ok ops (map (fun t => out_ptr (ptr_out t)) tr) [] = true.
Proof. exact r_mp_no_double_handout. Qed.
Print Assumptions C12_mpool_no_double_handout.

(* M5 mpool_atexit_frees_all: the exit handler gives every cached object back to free() - the
   objects live afterwards are exactly those the client still holds - and frees the stack iff it
   was allocated *)
Theorem C12_mpool_atexit_frees_all :
  forall olen w,
    mp_inv w ->
    let '(pool', ev, freed) := r_mp_atexit olen (w_pool w) in
    freed = mp_stack (w_pool w) /\ mp_stack pool' = [] /\
    Permutation (remove_ids (w_live w) freed) (w_held w) /\
    ev = map (fun _ => AFree olen) (mp_stack (w_pool w)) ++
         (if mp_static (w_pool w) then [] else [AFree (mp_slots (w_pool w) * mpool_ptr_size)]).
Proof. exact r_mp_atexit_frees_all. Qed.
Print Assumptions C12_mpool_atexit_frees_all.

(* M5 mpool_exit_handler_registered.  [mp_inv] carries the conjunct: M->state = 1 (set together
   with the atexit() call), or M->state = 0 and the pool has never obtained a block from the
   allocator (no object, static stack).  (a) Hence in every state satisfying the invariant: anything
   cached, held or live, an allocated stack, or any block ever obtained -> the handler is registered. *)
Theorem C12_mpool_registered_when_used :
  forall w,
    mp_inv w ->
    (mp_stack (w_pool w) <> [] \/ w_held w <> [] \/ w_live w <> [] \/
     mp_static (w_pool w) = false \/ mp_nextid (w_pool w) <> 1) ->
    mp_state (w_pool w) = 1.
Proof. exact r_mp_inv_registered. Qed.
Print Assumptions C12_mpool_registered_when_used.

(* (b) for every program on a pool created by MPOOL(name, type, size), under every oracle: after
   every operation the invariant holds, the number of atexit() calls made so far ([reg_calls]: the
   POut outputs with the registration flag, which the correspondence run compares with the wrapped
   atexit of the C) equals M->state - 0 or 1, never registered twice - and it is 1 from the first
   operation on in which mpool_malloc returned an object *)
Theorem C12_mpool_exit_handler_registered :
  forall olen size ops o,
    0 < size -> N.max size (2 * N.of_nat (length ops)) * 16 < W64 ->
    exists tr,
      r_mp_run olen ops (mp_world0 size) o = Ok tr /\
      forall pre t post, tr = pre ++ t :: post ->
        mp_inv (ptr_w t) /\
        reg_calls (pre ++ [t]) = mp_state (w_pool (ptr_w t)) /\
        ((exists t', In t' (pre ++ [t]) /\ out_ptr (ptr_out t') <> 0) -> reg_calls (pre ++ [t]) = 1).
Proof. exact r_mp_exit_handler_registered. Qed.
Print Assumptions C12_mpool_exit_handler_registered.

(* (c) mpool_exit_returns_all: after ANY such program, process exit ([r_mp_exit]: the handler runs
   iff M->state <> 0, i.e. by (b) iff atexit() was called for it) returns every cached object:
   the cache is empty afterwards, the live objects are exactly those the client still holds, and
   the events are one free() per cached object plus the stack iff it was allocated.
   [That a handler passed to atexit() runs at exit is the C library's contract, not modelled.] *)
Theorem C12_mpool_exit_returns_all :
  forall olen size ops o,
    0 < size -> N.max size (2 * N.of_nat (length ops)) * 16 < W64 ->
    exists tr,
      r_mp_run olen ops (mp_world0 size) o = Ok tr /\
      let wf := mp_final (mp_world0 size) tr in
      reg_calls tr = mp_state (w_pool wf) /\
      let '(w', ev) := r_mp_exit olen wf in
      mp_stack (w_pool w') = [] /\ w_held w' = w_held wf /\
      Permutation (w_live w') (w_held wf) /\
      ev = map (fun _ => AFree olen) (mp_stack (w_pool wf)) ++
           (if mp_static (w_pool wf) then [] else [AFree (mp_slots (w_pool wf) * mpool_ptr_size)]).
Proof. exact r_mp_exit_returns_all. Qed.
Print Assumptions C12_mpool_exit_returns_all.

(* the pool invariant (used above; it includes the registration conjunct) holds after every
   operation of every program *)
Theorem C12_mpool_invariant :
  forall olen size ops w o k,
    mp_inv w -> mp_count w <= k -> mp_allocsize (w_pool w) <= N.max size (2 * k) ->
    N.max size (2 * (k + N.of_nat (length ops))) * 16 < W64 ->
    exists tr,
      r_mp_run olen ops w o = Ok tr /\
      Forall (fun t => mp_inv (ptr_w t)) tr /\
      mp_spec_ok ops (map (fun t => out_ptr (ptr_out t)) tr) (w_held w) = true.
Proof. exact r_mp_run_ok. Qed.
Print Assumptions C12_mpool_invariant.
