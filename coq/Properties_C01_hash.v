(* C01 (hash part): SHA-256 / SHA-1 / MD5 digests, the HMACs built on them and PBKDF2-HMAC-SHA256
   are bit for bit the functions of FIPS 180-4, RFC 1321, RFC 2104 and RFC 8018, for every message,
   every key, every partition of the message across Update calls; one-shot = streaming.

   Every theorem is about the MODEL INSTANTIATED WITH THE REGENERATED CONSTANTS (Alg/HashRepo.v over
   Gen/Repo_hash.v): sha256_update is c256_update applied to the Krnd / limits the translator pulled
   out of alg/sha256.c on this run, etc.  The lemmas used below rewrite those constants with the
   premise-free equalities repo_*_eq_spec (vm_compute), so a changed table breaks this file.

   What is proved in full (all premise-free unless a hypothesis is shown):
     * M1  the three C block transforms (rotating working array, macro-invocation order taken from
           the source) = the standards' compression functions, by per-round simulation;
     * M2/M3 streaming = standard, for ALL partitions and ALL lengths (the length field is the bit
           length mod 2^64, which is what RFC 1321 prescribes and coincides with FIPS 180-4 on its
           domain; the guarded FIPS-domain statements are given too), one-shot = standard;
     * the generalisation to ANY well-formed context (resume theorems): covers the carry between
           the two 32-bit count words of SHA-1 / MD5 and the wrap of the 64-bit count;
     * M4  HMAC for all key lengths (hashed-key branch included) and all partitions, one-shot;
     * M5  PBKDF2 for 1 <= c < 2^64-1 and dkLen <= 32*(2^32-1); c = 0 behaves as c = 1.
   What remains PARTIAL (outside this file's reach, named honestly):
     * the C is modelled by hand; the link from these theorems to the binary is the translator
       (constants, per-round macro tuples) plus the correspondence run of areas/hash.py;
     * the word vocabulary (add32, rotr32, be32dec ...: Alg/Words.v) is shared by model and spec;
       its arithmetic meaning is proved in WordsProofs.v and the specs are checked against the
       standards' own test vectors in HashExamples.v;
     * c = 2^64-1 makes the C loop forever (uint64_t j <= c): the model returns OutOfFuel and the
       theorem excludes it; dkLen beyond the assert is AssertFail;
     * CRC32C and the SSE2 / SHA-NI / ARM transforms belong to other areas (C01-crc, C03).
   This file contains only statements, each closed by [exact], with Print Assumptions. *)
From Coq Require Import NArith List.
From LCP Require Import Base.CheckedMem Gen.Repo_hash Alg.Words Alg.MDSpec Alg.Sha256Spec Alg.Sha1Spec Alg.Md5Spec Alg.HashSpecs Alg.Sha256Model Alg.MD32Model Alg.HashRepo Alg.Sha256Proofs Alg.MD32Proofs Alg.Sha1Proofs Alg.Md5Proofs Alg.HashRepoProofs Alg.HashExamples.
(* HashExamples: test vectors and non-vacuity instances, compiled with this file *)
Import ListNotations.
Local Open Scope N_scope.

(* ---- the regenerated tables are the standards' tables ---- *)
Theorem C01_repo_hash_tables_are_the_standards :
  (sha256_Krnd = K256 /\ sha256_initial_state = H0_256 /\ sha256_PAD = 128 :: repeat 0 63) /\
  (sha1_iv = H0_1 /\ sha1_kinds = sha1_kinds_spec /\ sha1_rounds = sha1_rounds_spec) /\
  (md5_iv = IV_md5 /\ md5_index_formulas = md5_formulas_spec /\ md5_ops = md5_ops_spec).
Proof.
  exact (conj (conj repo_sha256_Krnd_eq_spec (conj repo_sha256_iv_eq_spec repo_sha256_PAD_eq_spec))
        (conj (conj repo_sha1_iv_eq_spec (conj repo_sha1_kinds_eq_spec repo_sha1_rounds_eq_spec))
              (conj repo_md5_iv_eq_spec (conj repo_md5_formulas_eq_spec repo_md5_ops_eq_spec)))).
Qed.
Print Assumptions C01_repo_hash_tables_are_the_standards.

(* ---- M1: the C block transforms are the standards' compression functions ---- *)
Theorem C01_transforms_are_the_standards_compression_functions :
  (forall st block, length st = 8%nat -> length block = 64%nat ->
     sha256_transform st block = f256_compress st block) /\
  (forall st block, length st = 5%nat -> length block = 64%nat ->
     sha1_transform st block = f1_compress st block) /\
  (forall st block, length st = 4%nat -> length block = 64%nat ->
     md5_transform st block = r5_compress st block).
Proof.
  exact (conj repo_sha256_transform_is_compress
        (conj repo_sha1_transform_is_compress repo_md5_transform_is_compress)).
Qed.
Print Assumptions C01_transforms_are_the_standards_compression_functions.

(* ---- M3: Init / Update* / Final over ANY partition = the standard on the whole message ---- *)
Theorem C01_sha256_streaming_correct :
  forall parts, 8 * N.of_nat (length (concat parts)) < 18446744073709551616 ->
  fst (sha256_final (fold_left sha256_update parts sha256_init)) = SHA256_spec (concat parts).
Proof. exact repo_sha256_streaming. Qed.
Print Assumptions C01_sha256_streaming_correct.

(* the same without the length guard (length field = bit length mod 2^64); one-shot = standard;
   one-shot = streaming *)
Theorem C01_sha256_correct_all_lengths :
  (forall parts,
     fst (sha256_final (fold_left sha256_update parts sha256_init)) = SHA256_spec (concat parts)) /\
  (forall m, sha256_buf m = SHA256_spec m) /\
  (forall parts,
     sha256_buf (concat parts) = fst (sha256_final (fold_left sha256_update parts sha256_init))).
Proof. exact (conj repo_sha256_streaming_all (conj repo_sha256_oneshot repo_sha256_oneshot_eq_streaming)). Qed.
Print Assumptions C01_sha256_correct_all_lengths.

Theorem C01_sha1_streaming_correct :
  forall parts, 8 * N.of_nat (length (concat parts)) < 18446744073709551616 ->
  fst (sha1_final (fold_left sha1_update parts sha1_init)) = SHA1_spec (concat parts).
Proof. exact repo_sha1_streaming. Qed.
Print Assumptions C01_sha1_streaming_correct.

Theorem C01_sha1_correct_all_lengths :
  (forall parts,
     fst (sha1_final (fold_left sha1_update parts sha1_init)) = SHA1_spec (concat parts)) /\
  (forall m, sha1_buf m = SHA1_spec m) /\
  (forall parts,
     sha1_buf (concat parts) = fst (sha1_final (fold_left sha1_update parts sha1_init))).
Proof. exact (conj repo_sha1_streaming_all (conj repo_sha1_oneshot repo_sha1_oneshot_eq_streaming)). Qed.
Print Assumptions C01_sha1_correct_all_lengths.

(* RFC 1321 3.2 itself takes the low-order 64 bits of the length: no guard *)
Theorem C01_md5_correct :
  (forall parts,
     fst (md5_final (fold_left md5_update parts md5_init)) = MD5_spec (concat parts)) /\
  (forall m, md5_buf m = MD5_spec m) /\
  (forall parts,
     md5_buf (concat parts) = fst (md5_final (fold_left md5_update parts md5_init))).
Proof. exact (conj repo_md5_streaming (conj repo_md5_oneshot repo_md5_oneshot_eq_streaming)). Qed.
Print Assumptions C01_md5_correct.

(* ---- streaming from ANY well-formed context (state, bit count, buffer): the digest is the
        standard's padding and compression continued from there.  Covers the carry between the two
        count words of SHA-1 / MD5 and the wrap of the bit count at 2^64. ---- *)
Theorem C01_resume_from_any_context_correct :
  (forall c parts, wf256 c ->
     fst (sha256_final (fold_left sha256_update parts c)) =
     SHA256_resume_spec (c256_state c) (c256_count c) (c256_buf c) (concat parts)) /\
  (forall c parts, wf32 5 true c ->
     fst (sha1_final (fold_left sha1_update parts c)) =
     SHA1_resume_spec (c32_state c) (c32_count0 c * 4294967296 + c32_count1 c) (c32_buf c) (concat parts)) /\
  (forall c parts, wf32 4 false c ->
     fst (md5_final (fold_left md5_update parts c)) =
     MD5_resume_spec (c32_state c) (c32_count1 c * 4294967296 + c32_count0 c) (c32_buf c) (concat parts)).
Proof. exact (conj repo_sha256_resume (conj repo_sha1_resume repo_md5_resume)). Qed.
Print Assumptions C01_resume_from_any_context_correct.

(* ---- M4: HMAC, every key length (both sides of 64, hashed-key branch), every partition;
        one-shot = RFC 2104; one-shot = streaming ---- *)
Theorem C01_hmac_sha256_correct :
  (forall K parts,
     fst (hmac256_final (fold_left hmac256_update parts (hmac256_init K))) =
     HMAC_SHA256_spec K (concat parts)) /\
  (forall K m, hmac256_buf K m = HMAC_SHA256_spec K m) /\
  (forall K parts,
     hmac256_buf K (concat parts) =
     fst (hmac256_final (fold_left hmac256_update parts (hmac256_init K)))).
Proof.
  exact (conj repo_hmac_sha256_correct (conj repo_hmac_sha256_buf repo_hmac_sha256_buf_eq_streaming)).
Qed.
Print Assumptions C01_hmac_sha256_correct.

Theorem C01_hmac_sha1_correct :
  (forall K parts,
     fst (hmacsha1_final (fold_left hmacsha1_update parts (hmacsha1_init K))) =
     HMAC_SHA1_spec K (concat parts)) /\
  (forall K m, hmacsha1_buf K m = HMAC_SHA1_spec K m).
Proof. exact (conj repo_hmac_sha1_correct repo_hmac_sha1_buf). Qed.
Print Assumptions C01_hmac_sha1_correct.

Theorem C01_hmac_md5_correct :
  (forall K parts,
     fst (hmacmd5_final (fold_left hmacmd5_update parts (hmacmd5_init K))) =
     HMAC_MD5_spec K (concat parts)) /\
  (forall K m, hmacmd5_buf K m = HMAC_MD5_spec K m).
Proof. exact (conj repo_hmac_md5_correct repo_hmac_md5_buf). Qed.
Print Assumptions C01_hmac_md5_correct.

(* ---- M5: PBKDF2-HMAC-SHA256 = RFC 8018 PBKDF2 over the RFC 2104 HMAC over FIPS SHA-256 ---- *)
Theorem C01_pbkdf2_correct :
  forall P S c dkLen,
  1 <= c -> c < 18446744073709551615 -> dkLen <= 32 * 4294967295 ->
  pbkdf2_sha256 P S c dkLen = Ok (PBKDF2_SHA256_spec P S c dkLen).
Proof. exact repo_pbkdf2_correct. Qed.
Print Assumptions C01_pbkdf2_correct.

(* c = 0 is outside RFC 8018's domain; the C then does exactly what it does for c = 1 *)
Theorem C01_pbkdf2_zero_iterations_as_one :
  forall P S dkLen, pbkdf2_sha256 P S 0 dkLen = pbkdf2_sha256 P S 1 dkLen.
Proof. exact repo_pbkdf2_zero_iterations. Qed.
Print Assumptions C01_pbkdf2_zero_iterations_as_one.
