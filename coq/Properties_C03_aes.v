(* C03 (AES part): the AES-NI paths compute the same function as the portable ones.
   Only statements, each closed by [exact], with Print Assumptions.

   The portable AES block function is OpenSSL's and is not modelled; "same function" for the
   block cipher is therefore stated against the common reference FIPS-197 (C03_aesni_block_...),
   and for the stream it is a direct path-against-path theorem for an arbitrary block function. *)
From Coq Require Import NArith List.
From LCP Require Import Base.CheckedMem.
From LCP Require Import Gen.Repo_aes.
From LCP Require Import Crypto.AesSpec.
From LCP Require Import Crypto.AesProofs.
From LCP Require Import Accel.AesNi.
From LCP Require Import Crypto.AesCtrModel.
From LCP Require Import Crypto.AesRepo.
From LCP Require Import Accel.AesNiProofs.
From LCP Require Import Accel.AesNiKeyProofs.
From LCP Require Import Crypto.AesCtrProofs.
From LCP Require Import Crypto.AesTop.
Import ListNotations.
Local Open Scope N_scope.

(* M2: from any state satisfying the stream invariant, crypto_aesctr_aesni_stream and the portable
   crypto_aesctr_stream write the same bytes and leave states with equal bytectr, equal pblk and
   - whenever it can still be read, i.e. off a block boundary - equal buf; both states satisfy the
   invariant again.  (Plain equality of the records is false: see
   AesCtrExamples.paths_differ_on_dead_buf.) *)
Theorem C03_ctr_stream_aesni_eq : forall (E : list N -> list N),
  (forall b, length (E b) = 16%nat) ->
  forall nonce start, start mod 16 = 0 ->
  forall total s inp,
    ctr_inv E nonce start total s -> total + N.of_nat (length inp) < two64 ->
    exists s1 s2 out,
      stream_aesni E s inp = Ok (s1, out) /\ stream E s inp = Ok (s2, out) /\
      st_obs_eq s1 s2 /\
      ctr_inv E nonce start (total + N.of_nat (length inp)) s1 /\
      ctr_inv E nonce start (total + N.of_nat (length inp)) s2.
Proof. exact stream_aesni_eq_stream. Qed.
Print Assumptions C03_ctr_stream_aesni_eq.

(* the `buflen >= 16` routing: whichever path each call takes (hw1, hw2 = the two configurations),
   whole scripts of calls - even differently partitioned - give the same bytes *)
Theorem C03_ctr_any_config_same_bytes : forall (E : list N -> list N),
  (forall b, length (E b) = 16%nat) ->
  forall hw1 hw2 nonce any1 any2 chunks1 chunks2,
    st_wf any1 -> st_wf any2 -> concat chunks1 = concat chunks2 ->
    N.of_nat (length (concat chunks1)) < two64 ->
    exists s1 outs1 s2 outs2,
      stream_all E hw1 (init2 ctr_init_index ctr_init_byte nonce any1) chunks1 = Ok (s1, outs1) /\
      stream_all E hw2 (init2 ctr_init_index ctr_init_byte nonce any2) chunks2 = Ok (s2, outs2) /\
      concat outs1 = concat outs2.
Proof. exact ctr_partition_independent. Qed.
Print Assumptions C03_ctr_any_config_same_bytes.

(* the AES-NI block path against the reference the portable path is compared with *)
Theorem C03_aesni_block_is_fips197 : forall key k b,
  x_key_expand_aesni key = Some k -> x_encrypt_block_aesni k b = AES_encrypt key b.
Proof. exact x_aesni_block_is_fips197. Qed.
Print Assumptions C03_aesni_block_is_fips197.

(* the two key-expansion chains of crypto_aes_aesni.c (MKRKEY128 / MKRKEY256 with the regenerated
   rcon / shuffle immediates) = the FIPS-197 key schedule, for every 128- and 256-bit key *)
Theorem C03_aesni_key_expand_128_is_fips197 : forall key, length key = 16%nat ->
  firstn 11 (repo_key_expand_128_aesni sbox key) = round_keys (AES_KeyExpansion key).
Proof. exact aesni_key_expand_128_is_fips197. Qed.
Print Assumptions C03_aesni_key_expand_128_is_fips197.

Theorem C03_aesni_key_expand_256_is_fips197 : forall key, length key = 32%nat ->
  repo_key_expand_256_aesni sbox key = round_keys (AES_KeyExpansion key).
Proof. exact aesni_key_expand_256_is_fips197. Qed.
Print Assumptions C03_aesni_key_expand_256_is_fips197.

(* end to end, AES-NI build: key schedule, block function, `buflen >= 16` routing and partial-block
   carry-over as modelled from the C give SP 800-38A CTR over FIPS-197 AES for every partition into
   calls - the value the portable build is specified (and, over the same block function, proved:
   C03_ctr_any_config_same_bytes) to return *)
Theorem C03_aesctr_aesni_is_ctr_of_fips197 : forall key k nonce any chunks,
  x_key_expand_aesni key = Some k ->
  st_wf any -> N.of_nat (length (concat chunks)) < two64 ->
  exists s' outs,
    stream_all (x_encrypt_block_aesni k) true (x_init2 nonce any) chunks = Ok (s', outs) /\
    concat outs = ctr_spec (AES_encrypt key) nonce (concat chunks) /\
    map (@length N) outs = map (@length N) chunks.
Proof. exact aesctr_aesni_is_ctr_of_fips197. Qed.
Print Assumptions C03_aesctr_aesni_is_ctr_of_fips197.
