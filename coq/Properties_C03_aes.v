(* C03 (AES part): the AES-NI paths compute the same function as the portable ones.
   Only statements, each closed by [exact], with Print Assumptions.

   The portable AES block function is OpenSSL's and is not modelled; "same function" for the
   block cipher is therefore stated against the common reference FIPS-197 (C03_aesni_block_...),
   and for the stream it is a direct path-against-path theorem for an arbitrary block function. *)
From Coq Require Import NArith List.
From LCP Require Import Base.CheckedMem.
From LCP Require Import Gen.Repo_aes.
From LCP Require Import Crypto.AesSpec.
From LCP Require Import Crypto.AesProofs.
From LCP Require Import Accel.AesNi.
From LCP Require Import Crypto.AesCtrModel.
From LCP Require Import Crypto.AesCtrRef.
From LCP Require Import Crypto.AesRepo.
From LCP Require Import Accel.AesNiProofs.
From LCP Require Import Accel.AesNiKeyProofs.
From LCP Require Import Crypto.AesCtrProofs.
From LCP Require Import Crypto.AesTop.
From LCP Require Import Gen.Repo_aes_sel.
From LCP Require Import Crypto.AesSelect.
From LCP Require Import Crypto.AesSelectProofs.
Import ListNotations.
Local Open Scope N_scope.

(* The stream model (stream, stream_aesni, stream_cfg, wholeblocks_aesni, ... of Crypto/AesCtrModel.v)
   contains no hand-written bookkeeping arithmetic: every statement of crypto_aesctr.c,
   crypto_aesctr_shared.c and crypto_aesctr_aesni.c that updates stream->bytectr, *buflen, *inbuf /
   *outbuf, block_counter, the loop counter i and stream->pblk[15], every condition over them and the
   (nbytes, bytemod) arguments of the cipherblock_use calls are regenerated from the C text as
   expression trees (Gen/Repo_aes_arith.v) and evaluated with C integer semantics (Crypto/AesCtrArith.v:
   the type a literal's spelling gives it, integer promotions, usual arithmetic conversions, wrap at the
   width of the type; `*buflen & ~15U` keeps only bits 4..31, `& ~(size_t)15` and `& ~15` keep 4..63:
   the mask_ examples of AesCtrExamples.v).  Ref.* (Crypto/AesCtrRef.v) are the same functions with the arithmetic
   written out in N ("subtract 16 * (buflen / 16)", "(bytectr + n) mod 2^64").  For every state whose pblk
   has 16 bytes and EVERY call length that does not run past stream position 2^64 - nothing is bounded
   by 2^32 - the two compute the same; all theorems below are about the evaluated, regenerated model. *)
Theorem C03_ctr_regenerated_bookkeeping_eq_reference : forall (E : list N -> list N) hw s inp,
  bytectr s + N.of_nat (length inp) < two64 -> length (pblk s) = 16%nat ->
  stream_cfg E hw s inp = Ref.stream_cfg E hw s inp.
Proof. exact stream_cfg_eq_reference. Qed.
Print Assumptions C03_ctr_regenerated_bookkeeping_eq_reference.

(* in particular the AES-NI whole-block function with its end-of-loop updates of *buflen, pblk[8..15]
   and stream->bytectr, for one call of any number of blocks entered - as
   crypto_aesctr_aesni_stream does - on a block boundary *)
Theorem C03_aesni_wholeblocks_bookkeeping_eq_reference : forall (E : list N -> list N) s inp,
  16 <= N.of_nat (length inp) -> bytectr s mod 16 = 0 ->
  bytectr s + N.of_nat (length inp) < two64 -> length (pblk s) = 16%nat ->
  wholeblocks_aesni E s inp (N.of_nat (length inp)) = Ref.wholeblocks_aesni E s inp (N.of_nat (length inp)).
Proof. exact wholeblocks_aesni_eq_reference. Qed.
Print Assumptions C03_aesni_wholeblocks_bookkeeping_eq_reference.

(* M2: from any state satisfying the stream invariant, crypto_aesctr_aesni_stream and the portable
   crypto_aesctr_stream write the same bytes and leave states with equal bytectr, equal pblk and
   - whenever it can still be read, i.e. off a block boundary - equal buf; both states satisfy the
   invariant again.  (Plain equality of the records is false: see
   AesCtrExamples.paths_differ_on_dead_buf.) *)
Theorem C03_ctr_stream_aesni_eq : forall (E : list N -> list N),
  (forall b, length (E b) = 16%nat) ->
  forall nonce start, start mod 16 = 0 ->
  forall total s inp,
    ctr_inv E nonce start total s -> total + N.of_nat (length inp) < two64 ->
    exists s1 s2 out,
      stream_aesni E s inp = Ok (s1, out) /\ stream E s inp = Ok (s2, out) /\
      st_obs_eq s1 s2 /\
      ctr_inv E nonce start (total + N.of_nat (length inp)) s1 /\
      ctr_inv E nonce start (total + N.of_nat (length inp)) s2.
Proof. exact stream_aesni_eq_stream. Qed.
Print Assumptions C03_ctr_stream_aesni_eq.

(* the `buflen >= 16` routing: whichever path each call takes (hw1, hw2 = the two configurations),
   whole scripts of calls - even differently partitioned - give the same bytes *)
Theorem C03_ctr_any_config_same_bytes : forall (E : list N -> list N),
  (forall b, length (E b) = 16%nat) ->
  forall hw1 hw2 nonce any1 any2 chunks1 chunks2,
    st_wf any1 -> st_wf any2 -> concat chunks1 = concat chunks2 ->
    N.of_nat (length (concat chunks1)) < two64 ->
    exists s1 outs1 s2 outs2,
      stream_all E hw1 (init2 ctr_init_index ctr_init_byte nonce any1) chunks1 = Ok (s1, outs1) /\
      stream_all E hw2 (init2 ctr_init_index ctr_init_byte nonce any2) chunks2 = Ok (s2, outs2) /\
      concat outs1 = concat outs2.
Proof. exact ctr_partition_independent. Qed.
Print Assumptions C03_ctr_any_config_same_bytes.

(* the AES-NI block path against the reference the portable path is compared with *)
Theorem C03_aesni_block_is_fips197 : forall key k b,
  x_key_expand_aesni key = Some k -> x_encrypt_block_aesni k b = AES_encrypt key b.
Proof. exact x_aesni_block_is_fips197. Qed.
Print Assumptions C03_aesni_block_is_fips197.

(* the two key-expansion chains of crypto_aes_aesni.c (MKRKEY128 / MKRKEY256 with the regenerated
   rcon / shuffle immediates) = the FIPS-197 key schedule, for every 128- and 256-bit key *)
Theorem C03_aesni_key_expand_128_is_fips197 : forall key, length key = 16%nat ->
  firstn 11 (repo_key_expand_128_aesni sbox key) = round_keys (AES_KeyExpansion key).
Proof. exact aesni_key_expand_128_is_fips197. Qed.
Print Assumptions C03_aesni_key_expand_128_is_fips197.

Theorem C03_aesni_key_expand_256_is_fips197 : forall key, length key = 32%nat ->
  repo_key_expand_256_aesni sbox key = round_keys (AES_KeyExpansion key).
Proof. exact aesni_key_expand_256_is_fips197. Qed.
Print Assumptions C03_aesni_key_expand_256_is_fips197.

(* end to end, AES-NI build: key schedule, block function, `buflen >= 16` routing and partial-block
   carry-over as modelled from the C give SP 800-38A CTR over FIPS-197 AES for every partition into
   calls - the value the portable build is specified (and, over the same block function, proved:
   C03_ctr_any_config_same_bytes) to return *)
Theorem C03_aesctr_aesni_is_ctr_of_fips197 : forall key k nonce any chunks,
  x_key_expand_aesni key = Some k ->
  st_wf any -> N.of_nat (length (concat chunks)) < two64 ->
  exists s' outs,
    stream_all (x_encrypt_block_aesni k) true (x_init2 nonce any) chunks = Ok (s', outs) /\
    concat outs = ctr_spec (AES_encrypt key) nonce (concat chunks) /\
    map (@length N) outs = map (@length N) chunks.
Proof. exact aesctr_aesni_is_ctr_of_fips197. Qed.
Print Assumptions C03_aesctr_aesni_is_ctr_of_fips197.

(* ---------------------------------------------------------------- which implementation is selected
   crypto_aes.c and crypto_aesctr.c each keep their own `hwaccel`.  Their hwaccel_init bodies and the
   functions testing hwaccel are regenerated from the C text as data (Gen/Repo_aes_sel.v) and
   interpreted by Crypto/AesSelect.v as functions of
     cpu      = cpusupport_x86_aesni() != 0
     selftest = functest(x86_aesni_oneshot) == 0  (the first-use self-test, its allocations included).
   x_key_is_aesni: crypto_aes_key_expand builds struct crypto_aes_key_aesni objects;
   x_block_is_aesni: crypto_aes_encrypt_block reads key objects as such; x_can_use: the value of
   crypto_aes_can_use_intrinsics(); x_bulk_is_aesni .. n: crypto_aesctr_stream hands an n-byte call to
   crypto_aesctr_aesni_stream.  For all four outcomes the modules agree: everything is AES-NI exactly
   when cpu && selftest (and n >= 16), so the bulk code never sees an OpenSSL AES_KEY. *)
Theorem C03_aes_ctr_selection_agree : forall cpu selftest n,
  exists key_ni bulk_ni,
    x_key_is_aesni cpu selftest = Ok key_ni /\
    x_block_is_aesni cpu selftest = Ok key_ni /\
    x_can_use cpu selftest = Ok (if key_ni then 1 else 0) /\
    x_bulk_is_aesni cpu selftest n = Ok bulk_ni /\
    key_ni = (cpu && selftest)%bool /\
    bulk_ni = ((16 <=? n) && key_ni)%bool.
Proof. exact aes_ctr_selection_agree. Qed.
Print Assumptions C03_aes_ctr_selection_agree.

Theorem C03_bulk_only_on_aesni_keys : forall cpu selftest n,
  x_bulk_is_aesni cpu selftest n = Ok true -> x_key_is_aesni cpu selftest = Ok true.
Proof. exact bulk_only_on_aesni_keys. Qed.
Print Assumptions C03_bulk_only_on_aesni_keys.

(* the choice of crypto_aes.c is made once: re-running hwaccel_init with ANY later answers of the CPU
   predicate and the self-test leaves it unchanged (so a self-test that failed once, e.g. on a refused
   allocation, is not silently re-taken while key objects of the first kind are alive) *)
Theorem C03_aes_choice_is_latched : forall cpu selftest cpu' selftest' hw,
  x_aes_hw cpu selftest = Ok hw ->
  run_init (validate_body ni_data) (eval_aes cpu' selftest') (aes_init ni_data) (aes_init ni_data) hw = Ok hw.
Proof. exact aes_choice_is_latched. Qed.
Print Assumptions C03_aes_choice_is_latched.

(* hence the data path.  x_lib_aesctr cpu selftest ossl key nonce any chunks = crypto_aes_key_expand,
   crypto_aesctr_init2 on an object with arbitrary content, one crypto_aesctr_stream per chunk, under
   the selection made for (cpu, selftest); a callee applied to a key object of the other kind is Fault.
   Partial: OpenSSL is not modelled - what is ASSUMED about it is exactly the hypothesis on ossl
   (AES_set_encrypt_key + AES_encrypt = FIPS-197 AES for 128-/256-bit keys); an instance of the
   hypothesis is AesSelectProofs.ossl_hypothesis_instance.  Full statement = the same without that
   hypothesis, with ossl := OpenSSL's code. *)
Theorem C03_aesctr_any_selection_is_ctr_of_fips197_partial :
  forall (ossl : list N -> list N -> list N),
    (forall key b, (length key = 16 \/ length key = 32)%nat -> ossl key b = AES_encrypt key b) ->
    forall cpu selftest key nonce any chunks,
      (length key = 16 \/ length key = 32)%nat ->
      st_wf any -> N.of_nat (length (concat chunks)) < two64 ->
      exists s' outs,
        x_lib_aesctr cpu selftest ossl key nonce any chunks = Ok (s', outs) /\
        concat outs = ctr_spec (AES_encrypt key) nonce (concat chunks) /\
        map (@length N) outs = map (@length N) chunks.
Proof. exact aesctr_any_selection_is_ctr_of_fips197. Qed.
Print Assumptions C03_aesctr_any_selection_is_ctr_of_fips197_partial.

(* whichever features the build enables (build_data true: CPUSUPPORT_X86_AESNI defined; false: no
   feature macro) and the running CPU / self-test report, and however the data is cut into calls:
   the same bytes (same OpenSSL assumption) *)
Theorem C03_aesctr_any_build_any_selection_same_bytes_partial :
  forall (ossl : list N -> list N -> list N),
    (forall key b, (length key = 16 \/ length key = 32)%nat -> ossl key b = AES_encrypt key b) ->
    forall build1 cpu1 selftest1 build2 cpu2 selftest2 key nonce any1 any2 chunks1 chunks2,
      (length key = 16 \/ length key = 32)%nat ->
      st_wf any1 -> st_wf any2 -> concat chunks1 = concat chunks2 ->
      N.of_nat (length (concat chunks1)) < two64 ->
      exists s1 outs1 s2 outs2,
        lib_aesctr (build_data build1) cpu1 selftest1 ossl key nonce any1 chunks1 = Ok (s1, outs1) /\
        lib_aesctr (build_data build2) cpu2 selftest2 ossl key nonce any2 chunks2 = Ok (s2, outs2) /\
        concat outs1 = concat outs2.
Proof. exact aesctr_any_build_any_selection_same_bytes. Qed.
Print Assumptions C03_aesctr_any_build_any_selection_same_bytes_partial.
