(* C11 - the random generator is HMAC_DRBG(SHA-256) over OS entropy, reseeded on schedule.
   Only statements, each closed by [exact].
   Model: Crypto/DrbgModel.v (mirrors crypto/crypto_entropy.c, constants regenerated from the C into
   Gen/Repo_dhdrbg.v).  Spec: Crypto/DrbgSpec.v (SP 800-90A 10.1.2 with a one-shot HMAC).
   The theorems are parametric in HMAC: [hmac] is the one-shot function of the spec, the model
   uses a streaming interface (Init/Update/Update/Final) and a one-shot call (HMAC_SHA256_Buf);
   the three hypotheses say that both compute [hmac] and that the MAC has 32 bytes.  For
   alg/sha256.c they are the subject of C01 (streaming = one-shot = RFC 2104 over FIPS 180-4).
   [run_m P ... reqs st o] runs a history of crypto_entropy_read calls with request lengths
   [reqs] from statics [st] against the entropy oracle [o] (one entry per entropy_read call:
   Some bytes / None = failure); it returns per call Some buffer (returned 0) / None (returned
   -1), the final statics, the unconsumed oracle and the ghost trace of instantiate / reseed /
   generate events. *)
From Coq Require Import NArith List.
From LCP Require Import Base.CheckedMem Gen.Repo_dhdrbg Crypto.DrbgSpec Crypto.DrbgModel Crypto.DrbgProofs.
Import ListNotations.
Local Open Scope N_scope.

(* M1: for ALL request sequences, ALL initial statics and ALL entropy oracles the model never
   aborts (no assert, no fuel exhaustion) and its per-call results, final (Key, V,
   reseed_counter, instantiated) and oracle consumption equal those of the SP 800-90A machine *)
Theorem C11_drbg_refines_spec :
  forall (hmac : list N -> list N -> list N) (hctx : Type) (h_init : list N -> hctx)
         (h_update : hctx -> list N -> hctx) (h_final : hctx -> list N) (h_buf : list N -> list N -> list N),
  (forall K a b, h_final (h_update (h_update (h_init K) a) b) = hmac K (a ++ b)) ->
  (forall K m, h_buf K m = hmac K m) ->
  (forall K m, length (hmac K m) = 32%nat) ->
  forall reqs st o,
  exists results st' o' tr,
    run_m repo_drbg_params hctx h_init h_update h_final h_buf reqs st o = Ok (results, st', o', tr) /\
    spec_run hmac reqs (abs_state st) o = (results, abs_state st', o').
Proof. exact repo_drbg_refines_spec. Qed.
Print Assumptions C11_drbg_refines_spec.

(* M2a: a successful request of n bytes makes exactly ceil(n / 65536) generate calls (none for
   n = 0), their sizes are in (0, 65536] and add up to n *)
Theorem C11_generate_count :
  forall (hmac : list N -> list N -> list N) (hctx : Type) (h_init : list N -> hctx)
         (h_update : hctx -> list N -> hctx) (h_final : hctx -> list N) (h_buf : list N -> list N -> list N),
  (forall K a b, h_final (h_update (h_update (h_init K) a) b) = hmac K (a ++ b)) ->
  (forall K m, h_buf K m = hmac K m) ->
  (forall K m, length (hmac K m) = 32%nat) ->
  forall st n o bytes st' o' tr,
  entropy_read_m repo_drbg_params hctx h_init h_update h_final h_buf st n o = Ok (true, bytes, st', o', tr) ->
  N.of_nat (length (gen_sizes tr)) = (n + 65535) / 65536 /\
  fold_right N.add 0 (gen_sizes tr) = n /\ Forall (fun c => 0 < c <= 65536) (gen_sizes tr).
Proof. exact repo_generate_count. Qed.
Print Assumptions C11_generate_count.

(* M2b: from the zeroed statics, for every history and every oracle, the trace is accepted by
   the position automaton [pos_run]: with j = number of generate calls since instantiation, a
   reseed is attempted only when j > 0 and j mod 256 = 0 and no reseed has succeeded since the
   last generate, and a generate at such a j happens only after a successful reseed; i.e. fresh
   entropy is mixed in exactly before generate calls number 257, 513, ... *)
Theorem C11_reseed_schedule :
  forall (hmac : list N -> list N -> list N) (hctx : Type) (h_init : list N -> hctx)
         (h_update : hctx -> list N -> hctx) (h_final : hctx -> list N) (h_buf : list N -> list N -> list N),
  (forall K a b, h_final (h_update (h_update (h_init K) a) b) = hmac K (a ++ b)) ->
  (forall K m, h_buf K m = hmac K m) ->
  (forall K m, length (hmac K m) = 32%nat) ->
  forall reqs o results st' o' tr,
  run_m repo_drbg_params hctx h_init h_update h_final h_buf reqs dstate0 o = Ok (results, st', o', tr) ->
  exists b, pos_run None tr = Some b.
Proof. exact repo_reseed_schedule. Qed.
Print Assumptions C11_reseed_schedule.

(* M3: from the zeroed statics, for every history and oracle: the counter automaton accepts the
   trace (every generate ran in a seeded state with reseed_counter <= 256; reseeds only when the
   counter exceeded 256), the entropy reads of the trace are the oracle's answers in order, and
   any call that returned 0 implies a successful instantiate in the history *)
Theorem C11_no_unseeded_output :
  forall (hmac : list N -> list N -> list N) (hctx : Type) (h_init : list N -> hctx)
         (h_update : hctx -> list N -> hctx) (h_final : hctx -> list N) (h_buf : list N -> list N -> list N),
  (forall K a b, h_final (h_update (h_update (h_init K) a) b) = hmac K (a ++ b)) ->
  (forall K m, h_buf K m = hmac K m) ->
  (forall K m, length (hmac K m) = 32%nat) ->
  forall reqs o results st' o' tr,
  run_m repo_drbg_params hctx h_init h_update h_final h_buf reqs dstate0 o = Ok (results, st', o', tr) ->
  sched_run None tr = Some (astate_of st') /\
  trace_oracle tr o = Some o' /\
  (forall bytes, In (Some bytes) results -> In (EvInstantiate 48 true) tr).
Proof. exact repo_no_unseeded_output. Qed.
Print Assumptions C11_no_unseeded_output.

(* reading the counter automaton: every generate of an accepted trace ran with counter <= 256
   on 1..65536 bytes, and (from the uninstantiated state) after a successful instantiate *)
Theorem C11_accepted_generate_bounds :
  forall tr a a' n c, sched_run a tr = Some a' -> In (EvGenerate n c) tr -> c <= 256 /\ 0 < n <= 65536.
Proof. exact sched_generate_bounds. Qed.
Print Assumptions C11_accepted_generate_bounds.

Theorem C11_accepted_generate_after_instantiate :
  forall tr a' pre n c post,
  sched_run None tr = Some a' -> tr = pre ++ EvGenerate n c :: post -> In (EvInstantiate 48 true) pre.
Proof. exact sched_generate_after_instantiate. Qed.
Print Assumptions C11_accepted_generate_after_instantiate.

(* M3, per call: the call fails iff one of its entropy reads failed (the reads being the
   oracle's answers in order); success means instantiated, n bytes, the chunk sizes of n; a failed
   instantiation returns -1 and leaves the statics untouched with instantiated = 0 *)
Theorem C11_call_facts :
  forall (hmac : list N -> list N -> list N) (hctx : Type) (h_init : list N -> hctx)
         (h_update : hctx -> list N -> hctx) (h_final : hctx -> list N) (h_buf : list N -> list N -> list N),
  (forall K a b, h_final (h_update (h_update (h_init K) a) b) = hmac K (a ++ b)) ->
  (forall K m, h_buf K m = hmac K m) ->
  (forall K m, length (hmac K m) = 32%nat) ->
  forall st n o rc bytes st' o' tr,
  entropy_read_m repo_drbg_params hctx h_init h_update h_final h_buf st n o = Ok (rc, bytes, st', o', tr) ->
  trace_oracle tr o = Some o' /\ forallb ev_ok tr = rc /\
  (rc = true -> dinst st' = true /\ gen_sizes tr = spec_chunks n /\ length bytes = N.to_nat n /\
                (dinst st = false -> In (EvInstantiate 48 true) tr)) /\
  (dinst st = false -> dinst st' = false -> rc = false /\ st' = st /\ tr = [EvInstantiate 48 false]).
Proof. exact repo_call_facts. Qed.
Print Assumptions C11_call_facts.

(* the constants now in crypto_entropy.c are the ones the spec states as literals *)
Theorem C11_repo_constants :
  repo_drbg_params = {| d_interval := 256; d_maxlen := 65536; d_seed_inst := 48; d_seed_reseed := 32;
                        d_sep1 := 0; d_sep2 := 1; d_key_init := 0; d_v_init := 1;
                        d_ctr_init := 1; d_ctr_reset := 1; d_ctr_step := 1; d_blk := 32 |}.
Proof. exact repo_params_eq_spec. Qed.
Print Assumptions C11_repo_constants.

(* util/entropy.c: the read loop never aborts; on success the buffer holds exactly buflen bytes,
   the answers of read() in order, cut to the space left; otherwise it fails *)
Theorem C11_entropy_read_fill :
  forall buflen answers,
  exists res rest used,
    entropy_read_fill_m buflen answers = Ok (res, rest) /\ answers = used ++ rest /\
    (forall bytes, res = Some bytes ->
       bytes = firstn (N.to_nat buflen) (concat (map payload used)) /\ length bytes = N.to_nat buflen).
Proof. exact entropy_read_fill_correct. Qed.
Print Assumptions C11_entropy_read_fill.
