(* C11 - the random generator is HMAC_DRBG(SHA-256) over OS entropy, reseeded on schedule.
   Only statements, each closed by [exact].
   Model: Crypto/DrbgModel.v (mirrors crypto/crypto_entropy.c, constants regenerated from the C into
   Gen/Repo_dhdrbg.v).  Spec: Crypto/DrbgSpec.v (SP 800-90A 10.1.2 with a one-shot HMAC).
   The theorems are parametric in HMAC: [hmac] is the one-shot function of the spec, the model
   uses a streaming interface (Init/Update/Update/Final) and a one-shot call (HMAC_SHA256_Buf);
   the three hypotheses say that both compute [hmac] and that the MAC has 32 bytes.  For
   alg/sha256.c they are the subject of C01 (streaming = one-shot = RFC 2104 over FIPS 180-4).
   [run_m P ... reqs st o] runs a history of crypto_entropy_read calls with request lengths
   [reqs] from statics [st] against the entropy oracle [o] (one entry per entropy_read call:
   Some bytes / None = failure); it returns per call Some buffer (returned 0) / None (returned
   -1), the final statics, the unconsumed oracle and the ghost trace of instantiate / reseed /
   generate events. *)
From Coq Require Import NArith List.
From LCP Require Import Base.CheckedMem Gen.Repo_dhdrbg Crypto.DrbgSpec Crypto.DrbgOsSpec Crypto.DrbgModel Crypto.DrbgOsModel Crypto.DrbgProofs Crypto.DrbgOsProofs.
Import ListNotations.
Local Open Scope N_scope.

(* M1: for ALL request sequences, ALL initial statics and ALL entropy oracles the model never
   aborts (no assert, no fuel exhaustion) and its per-call results, final (Key, V,
   reseed_counter, instantiated) and oracle consumption equal those of the SP 800-90A machine *)
Theorem C11_drbg_refines_spec :
  forall (hmac : list N -> list N -> list N) (hctx : Type) (h_init : list N -> hctx)
         (h_update : hctx -> list N -> hctx) (h_final : hctx -> list N) (h_buf : list N -> list N -> list N),
  (forall K a b, h_final (h_update (h_update (h_init K) a) b) = hmac K (a ++ b)) ->
  (forall K m, h_buf K m = hmac K m) ->
  (forall K m, length (hmac K m) = 32%nat) ->
  forall reqs st o,
  exists results st' o' tr,
    run_m repo_drbg_params hctx h_init h_update h_final h_buf reqs st o = Ok (results, st', o', tr) /\
    spec_run hmac reqs (abs_state st) o = (results, abs_state st', o').
Proof. exact repo_drbg_refines_spec. Qed.
Print Assumptions C11_drbg_refines_spec.

(* M2a: a successful request of n bytes makes exactly ceil(n / 65536) generate calls (none for
   n = 0), their sizes are in (0, 65536] and add up to n *)
Theorem C11_generate_count :
  forall (hmac : list N -> list N -> list N) (hctx : Type) (h_init : list N -> hctx)
         (h_update : hctx -> list N -> hctx) (h_final : hctx -> list N) (h_buf : list N -> list N -> list N),
  (forall K a b, h_final (h_update (h_update (h_init K) a) b) = hmac K (a ++ b)) ->
  (forall K m, h_buf K m = hmac K m) ->
  (forall K m, length (hmac K m) = 32%nat) ->
  forall st n o bytes st' o' tr,
  entropy_read_m repo_drbg_params hctx h_init h_update h_final h_buf st n o = Ok (true, bytes, st', o', tr) ->
  N.of_nat (length (gen_sizes tr)) = (n + 65535) / 65536 /\
  fold_right N.add 0 (gen_sizes tr) = n /\ Forall (fun c => 0 < c <= 65536) (gen_sizes tr).
Proof. exact repo_generate_count. Qed.
Print Assumptions C11_generate_count.

(* M2b: from the zeroed statics, for every history and every oracle, the trace is accepted by
   the position automaton [pos_run]: with j = number of generate calls since instantiation, a
   reseed is attempted only when j > 0 and j mod 256 = 0 and no reseed has succeeded since the
   last generate, and a generate at such a j happens only after a successful reseed; i.e. fresh
   entropy is mixed in exactly before generate calls number 257, 513, ... *)
Theorem C11_reseed_schedule :
  forall (hmac : list N -> list N -> list N) (hctx : Type) (h_init : list N -> hctx)
         (h_update : hctx -> list N -> hctx) (h_final : hctx -> list N) (h_buf : list N -> list N -> list N),
  (forall K a b, h_final (h_update (h_update (h_init K) a) b) = hmac K (a ++ b)) ->
  (forall K m, h_buf K m = hmac K m) ->
  (forall K m, length (hmac K m) = 32%nat) ->
  forall reqs o results st' o' tr,
  run_m repo_drbg_params hctx h_init h_update h_final h_buf reqs dstate0 o = Ok (results, st', o', tr) ->
  exists b, pos_run None tr = Some b.
Proof. exact repo_reseed_schedule. Qed.
Print Assumptions C11_reseed_schedule.

(* M3: from the zeroed statics, for every history and oracle: the counter automaton accepts the
   trace (every generate ran in a seeded state with reseed_counter <= 256; reseeds only when the
   counter exceeded 256), the entropy reads of the trace are the oracle's answers in order, and
   any call that returned 0 implies a successful instantiate in the history *)
Theorem C11_no_unseeded_output :
  forall (hmac : list N -> list N -> list N) (hctx : Type) (h_init : list N -> hctx)
         (h_update : hctx -> list N -> hctx) (h_final : hctx -> list N) (h_buf : list N -> list N -> list N),
  (forall K a b, h_final (h_update (h_update (h_init K) a) b) = hmac K (a ++ b)) ->
  (forall K m, h_buf K m = hmac K m) ->
  (forall K m, length (hmac K m) = 32%nat) ->
  forall reqs o results st' o' tr,
  run_m repo_drbg_params hctx h_init h_update h_final h_buf reqs dstate0 o = Ok (results, st', o', tr) ->
  sched_run None tr = Some (astate_of st') /\
  trace_oracle tr o = Some o' /\
  (forall bytes, In (Some bytes) results -> In (EvInstantiate 48 true) tr).
Proof. exact repo_no_unseeded_output. Qed.
Print Assumptions C11_no_unseeded_output.

(* reading the counter automaton: every generate of an accepted trace ran with counter <= 256
   on 1..65536 bytes, and (from the uninstantiated state) after a successful instantiate *)
Theorem C11_accepted_generate_bounds :
  forall tr a a' n c, sched_run a tr = Some a' -> In (EvGenerate n c) tr -> c <= 256 /\ 0 < n <= 65536.
Proof. exact sched_generate_bounds. Qed.
Print Assumptions C11_accepted_generate_bounds.

Theorem C11_accepted_generate_after_instantiate :
  forall tr a' pre n c post,
  sched_run None tr = Some a' -> tr = pre ++ EvGenerate n c :: post -> In (EvInstantiate 48 true) pre.
Proof. exact sched_generate_after_instantiate. Qed.
Print Assumptions C11_accepted_generate_after_instantiate.

(* M3, per call: the call fails iff one of its entropy reads failed (the reads being the
   oracle's answers in order); success means instantiated, n bytes, the chunk sizes of n; a failed
   instantiation returns -1 and leaves the statics untouched with instantiated = 0 *)
Theorem C11_call_facts :
  forall (hmac : list N -> list N -> list N) (hctx : Type) (h_init : list N -> hctx)
         (h_update : hctx -> list N -> hctx) (h_final : hctx -> list N) (h_buf : list N -> list N -> list N),
  (forall K a b, h_final (h_update (h_update (h_init K) a) b) = hmac K (a ++ b)) ->
  (forall K m, h_buf K m = hmac K m) ->
  (forall K m, length (hmac K m) = 32%nat) ->
  forall st n o rc bytes st' o' tr,
  entropy_read_m repo_drbg_params hctx h_init h_update h_final h_buf st n o = Ok (rc, bytes, st', o', tr) ->
  trace_oracle tr o = Some o' /\ forallb ev_ok tr = rc /\
  (rc = true -> dinst st' = true /\ gen_sizes tr = spec_chunks n /\ length bytes = N.to_nat n /\
                (dinst st = false -> In (EvInstantiate 48 true) tr)) /\
  (dinst st = false -> dinst st' = false -> rc = false /\ st' = st /\ tr = [EvInstantiate 48 false]).
Proof. exact repo_call_facts. Qed.
Print Assumptions C11_call_facts.

(* the constants now in crypto_entropy.c are the ones the spec states as literals *)
Theorem C11_repo_constants :
  repo_drbg_params = {| d_interval := 256; d_maxlen := 65536; d_seed_inst := 48; d_seed_reseed := 32;
                        d_sep1 := 0; d_sep2 := 1; d_key_init := 0; d_v_init := 1;
                        d_ctr_init := 1; d_ctr_reset := 1; d_ctr_step := 1; d_blk := 32 |}.
Proof. exact repo_params_eq_spec. Qed.
Print Assumptions C11_repo_constants.

(* util/entropy.c: the read loop never aborts; on success the buffer holds exactly buflen bytes,
   the answers of read() in order, cut to the space left.  (Success direction only; WHEN it
   succeeds and fails is C11_entropy_read_fill_exact / _succeeds / _fails_why below.) *)
Theorem C11_entropy_read_fill :
  forall buflen answers,
  exists res rest used,
    entropy_read_fill_m buflen answers = Ok (res, rest) /\ answers = used ++ rest /\
    (forall bytes, res = Some bytes ->
       bytes = firstn (N.to_nat buflen) (concat (map payload used)) /\ length bytes = N.to_nat buflen).
Proof. exact entropy_read_fill_correct. Qed.
Print Assumptions C11_entropy_read_fill.

(* ---------------- util/entropy.c in full, and the generator over it ----------------
   Vocabulary (Crypto/DrbgOsSpec.v, DrbgOsProofs.v): a [session] is the answers the OS gives to
   one open, to the reads and to the closes that follow; [good a] = the read delivered at least one
   byte; [all_good l] = every answer of l is good; [total l] = bytes delivered by l together;
   [close_succeeds c] = c is k >= 0 answers -1/EINTR followed by an answer 0; [suffix l' l] = l'
   is what remains of l after a prefix was consumed; [spec_fill], [spec_session] and
   [spec_resolve] are the spec's reading of a session (no loop, no goto ladder). *)

(* the read loop, for EVERY answer sequence, never aborts and returns exactly [spec_fill]:
   success with the first buflen delivered bytes iff at least buflen bytes were delivered before
   the first read that returned -1, returned 0, or was beyond the script; otherwise failure *)
Theorem C11_entropy_read_fill_exact :
  forall buflen answers,
  exists rest, entropy_read_fill_m buflen answers = Ok (spec_fill (N.to_nat buflen) answers, rest) /\
               suffix rest answers.
Proof. exact entropy_read_fill_exact. Qed.
Print Assumptions C11_entropy_read_fill_exact.

(* short reads are tolerated: if the answers to be consumed each deliver something and together
   reach buflen, the call succeeds with the first buflen bytes delivered *)
Theorem C11_entropy_read_fill_succeeds :
  forall buflen used rest,
  all_good used -> (N.to_nat buflen <= total used)%nat ->
  exists rest', entropy_read_fill_m buflen (used ++ rest) =
                Ok (Some (firstn (N.to_nat buflen) (concat (map payload used))), rest').
Proof. exact entropy_read_fill_succeeds. Qed.
Print Assumptions C11_entropy_read_fill_succeeds.

(* it fails only if, after good reads of fewer than buflen bytes together, the last consumed
   answer is -1, or is 0 bytes (EOF), or the answers ran out *)
Theorem C11_entropy_read_fill_fails_why :
  forall buflen answers rest,
  entropy_read_fill_m buflen answers = Ok (None, rest) ->
  exists pre, all_good pre /\ (total pre < N.to_nat buflen)%nat /\
    (answers = pre ++ RdErr :: rest \/ answers = pre ++ RdBytes [] :: rest \/ (answers = pre /\ rest = [])).
Proof. exact entropy_read_fill_fails_why. Qed.
Print Assumptions C11_entropy_read_fill_fails_why.

(* and success means: the consumed answers were all good, reached buflen, and the buffer holds
   the first buflen bytes they delivered *)
Theorem C11_entropy_read_fill_success_why :
  forall buflen answers bytes rest,
  entropy_read_fill_m buflen answers = Ok (Some bytes, rest) ->
  exists used, answers = used ++ rest /\ all_good used /\ (N.to_nat buflen <= total used)%nat /\
    bytes = firstn (N.to_nat buflen) (concat (map payload used)) /\ length bytes = N.to_nat buflen.
Proof. exact entropy_read_fill_success_why. Qed.
Print Assumptions C11_entropy_read_fill_success_why.

(* the one-shot wrapper entropy_read(buf, buflen), for every session and every buflen <=
   SSIZE_MAX: never aborts; it returns 0 with buf = bytes iff open() succeeded AND
   entropy_read_fill returned 0 having stored bytes AND entropy_read_done returned 0 (close()
   answered 0, after any number of EINTR); in every other case it returns -1 (res = None); on
   success exactly buflen bytes *)
Theorem C11_entropy_read_wrapper :
  forall buflen s, (buflen <= ssize_max)%N ->
  exists res lg, entropy_read_w buflen s = Ok (res, lg) /\
    (forall bytes, res = Some bytes <->
       s_open s = true /\
       (exists rest, entropy_read_fill_m buflen (s_reads s) = Ok (Some bytes, rest)) /\
       close_succeeds (s_closes s)) /\
    (forall bytes, res = Some bytes -> length bytes = N.to_nat buflen).
Proof. exact entropy_read_w_iff. Qed.
Print Assumptions C11_entropy_read_wrapper.

(* ... which is the spec's reading of a session *)
Theorem C11_entropy_read_wrapper_exact :
  forall buflen s, (buflen <= ssize_max)%N ->
  exists lg, entropy_read_w buflen s = Ok (spec_session (N.to_nat buflen) s, lg).
Proof. exact entropy_read_w_exact. Qed.
Print Assumptions C11_entropy_read_wrapper_exact.

(* the generator over the real entropy wrapper: crypto_entropy_read with instantiate() / reseed()
   calling the model of entropy_read() over the system-call answers (one session per call), for
   ALL request sequences, ALL initial statics and ALL session scripts: never aborts, and its
   per-call results, final (Key, V, reseed_counter, instantiated) and session consumption equal
   those of the SP 800-90A machine fed with what the sessions delivered ([spec_resolve]: the
   i-th acquisition uses the i-th session, asked for 48 bytes while uninstantiated and for 32
   afterwards; a failed session is a failed acquisition and the call fails) *)
Theorem C11_generator_with_os_entropy :
  forall (hmac : list N -> list N -> list N) (hctx : Type) (h_init : list N -> hctx)
         (h_update : hctx -> list N -> hctx) (h_final : hctx -> list N) (h_buf : list N -> list N -> list N),
  (forall K a b, h_final (h_update (h_update (h_init K) a) b) = hmac K (a ++ b)) ->
  (forall K m, h_buf K m = hmac K m) ->
  (forall K m, length (hmac K m) = 32%nat) ->
  forall reqs st ss,
  exists results st' ss' tr,
    run_os repo_drbg_params hctx h_init h_update h_final h_buf reqs st ss = Ok (results, st', ss', tr) /\
    spec_run hmac reqs (abs_state st) (spec_resolve (dinst st) ss) =
      (results, abs_state st', spec_resolve (dinst st') ss') /\
    suffix ss' ss.
Proof. exact repo_os_refines_spec. Qed.
Print Assumptions C11_generator_with_os_entropy.

(* per call, over the system calls: the entropy acquisitions of the call are the next sessions
   in order, each succeeding exactly when its session did ([trace_oracle] over the resolved
   sessions); the call returns 0 iff all of them succeeded; success means instantiated, n bytes,
   the chunk sizes of n; a failed instantiation leaves the statics untouched, instantiated = 0 *)
Theorem C11_os_call_facts :
  forall (hmac : list N -> list N -> list N) (hctx : Type) (h_init : list N -> hctx)
         (h_update : hctx -> list N -> hctx) (h_final : hctx -> list N) (h_buf : list N -> list N -> list N),
  (forall K a b, h_final (h_update (h_update (h_init K) a) b) = hmac K (a ++ b)) ->
  (forall K m, h_buf K m = hmac K m) ->
  (forall K m, length (hmac K m) = 32%nat) ->
  forall st n ss rc bytes st' ss' tr,
  entropy_read_os_m repo_drbg_params hctx h_init h_update h_final h_buf st n ss = Ok (rc, bytes, st', ss', tr) ->
  trace_oracle tr (spec_resolve (dinst st) ss) = Some (spec_resolve (dinst st') ss') /\
  forallb ev_ok tr = rc /\ suffix ss' ss /\
  (rc = true -> dinst st' = true /\ gen_sizes tr = spec_chunks n /\ length bytes = N.to_nat n /\
                (dinst st = false -> In (EvInstantiate 48 true) tr)) /\
  (dinst st = false -> dinst st' = false -> rc = false /\ st' = st /\ tr = [EvInstantiate 48 false]).
Proof. exact repo_os_call_facts. Qed.
Print Assumptions C11_os_call_facts.
