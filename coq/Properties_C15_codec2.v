(* C15, codec2 part: base-64 decoder/encoder, serialised-address decoder, socket-address parser,
   key-file and passphrase-file readers never leave their input or the output space their
   contract names.  A Fault is any access outside an object; the theorems say the result is Ok.
   Only statements, each closed by [exact], with Print Assumptions.

   OUTSIDE THE GALLINA MODEL: the diagnostics path.  When a parser rejects its input it reports
   through warn0()/warnp() (util/warnp.c), and util/sock.c quotes the rejected address text in
   the message ("socket path too long: %s", "Invalid port number: %s", "Invalid [IP address]: %s",
   "Error parsing IP address: %s", "Address must contain port number: %s"); the file readers
   quote the file NAME only, never file content.  warnp.c (vfprintf to stderr, or - after
   warnp_syslog(1) - vsnprintf into a fixed line buffer of WARNP_SYSLOG_MAX_LINE + 1 bytes handed to
   syslog) is not modelled and no theorem below speaks about it.  It is exercised by the run
   instead: the sock-safety sub-check links the library's own warnp.c and runs every resolve case
   in BOTH reporting modes (stderr; syslog with syslog(3) interposed) under ASan, including
   rejected addresses whose message length sweeps 4000..4200 around the line-buffer size and
   addresses of 8192 and 70000 bytes, for every message that quotes its input.
   sock_addr_prettyprint IS inside the theorems, for every address value: since the repair F14
   (prettyprint_unix bounded by namelen) C15_sock_addr_prettyprint_no_fault holds for any family,
   any name bytes and any name length; before it the AF_UNIX branch left the name block when the
   name had no NUL (C15_prettyprint_unix_regression_F14). *)
From Coq Require Import NArith List.
From LCP Require Import Base.CheckedMem Gen.Repo_codec Gen.Repo_codec2 Util.EndianMem Util.B64 Util.B64Proofs Util.SockText Util.Sock Util.SockProofs Util.LineFiles Util.LineFilesProofs.
Import ListNotations.
Local Open Scope N_scope.

(* b64decode on an input object of exactly inlen bytes and an output object of exactly
   (inlen/4)*3 bytes: no Fault on any input; the output object keeps its size (writes inside)
   and outlen is within it *)
Theorem C15_b64decode_no_fault :
  forall s out, bytes_ok s -> N.of_nat (length s) < 2 ^ 64 -> length out = b64declen (length s) ->
  exists r, b64decode_m b64chars s (length s) out = Ok r /\
            match r with
            | None => True
            | Some (out', n) => length out' = length out /\ n <= N.of_nat (length out)
            end.
Proof. exact b64decode_no_fault. Qed.
Print Assumptions C15_b64decode_no_fault.

Theorem C15_b64encode_no_fault :
  forall bs out, bytes_ok bs -> length out = S (b64len (length bs)) ->
  exists r, b64encode_m b64chars bs out (length bs) = Ok r /\ length r = length out.
Proof. exact b64encode_no_fault. Qed.
Print Assumptions C15_b64encode_no_fault.

(* sock_addr_deserialize reads only the buflen bytes it was given, whatever the length field says;
   an accepted buffer is exactly header + namelen bytes and the name is its tail *)
Theorem C15_sock_addr_deserialize_no_fault :
  forall buf, bytes_ok buf ->
  exists r, sock_addr_deserialize_m buf = Ok r /\
            match r with
            | Some sa => length buf = (12 + length (sa_name sa))%nat /\ sa_name sa = skipn 12 buf
            | None => True
            end.
Proof. exact sock_addr_deserialize_no_fault. Qed.
Print Assumptions C15_sock_addr_deserialize_no_fault.

(* sock_addr_prettyprint on EVERY address value (any family, any name bytes, any name length - in
   particular on whatever the decoder above accepted): never a Fault.  ntop6 = inet_ntop(AF_INET6),
   arbitrary.  For AF_UNIX the result is NULL when the name stops before sun_path, otherwise the
   bytes of the sun_path region up to its first NUL or to the end of the name (until_nul). *)
Theorem C15_sock_addr_prettyprint_no_fault :
  forall (ntop6 : list N -> list N) sa,
  exists r, sock_addr_prettyprint_m ntop6 sa = Ok r /\
            (sa_family sa = af_unix ->
             r = if Nat.ltb (length (sa_name sa)) (N.to_nat off_sun_path) then None
                 else Some (until_nul (skipn (N.to_nat off_sun_path) (sa_name sa)))).
Proof. exact sock_addr_prettyprint_no_fault. Qed.
Print Assumptions C15_sock_addr_prettyprint_no_fault.

(* decoding any buffer and printing what was decoded: no Fault *)
Theorem C15_deserialize_then_prettyprint_no_fault :
  forall (ntop6 : list N -> list N) buf, bytes_ok buf ->
  exists r, bind (sock_addr_deserialize_m buf)
                 (fun o => match o with
                           | None => Ok None
                           | Some sa => sock_addr_prettyprint_m ntop6 sa
                           end) = Ok r.
Proof. exact deserialize_then_prettyprint_no_fault. Qed.
Print Assumptions C15_deserialize_then_prettyprint_no_fault.

(* regression for finding F14: the 18-byte serialised address 01000000 01000000 06000000 0100
   2f626364 (AF_UNIX, namelen 6, name "/bcd" without terminator) is accepted by the decoder; the
   printer as it was (strdup of sun_path ignoring namelen) leaves the 6-byte name block, the
   repaired one prints "/bcd"; likewise for a 2-byte name; a 1-byte name prints NULL *)
Theorem C15_prettyprint_unix_regression_F14 :
  let buf := [1; 0; 0; 0; 1; 0; 0; 0; 6; 0; 0; 0; 1; 0; 47; 98; 99; 100] in
  let sa := mk_sa 1 1 [1; 0; 47; 98; 99; 100] in
  sock_addr_deserialize_m buf = Ok (Some sa) /\
  prettyprint_unix_old_m sa = Fault /\
  sock_addr_prettyprint_x sa = Ok (Some [47; 98; 99; 100]) /\
  prettyprint_unix_old_m (mk_sa 1 1 [1; 0]) = Fault /\
  sock_addr_prettyprint_x (mk_sa 1 1 [1; 0]) = Ok (Some []) /\
  sock_addr_prettyprint_x (mk_sa 1 1 [1]) = Ok None.
Proof. exact prettyprint_unix_regression_F14. Qed.
Print Assumptions C15_prettyprint_unix_regression_F14.

(* sock_resolve on every NUL-terminated string (Unix-path, bracketed and host-name forms up to the
   point where the resolver would be called): no Fault; pton6 = inet_pton(AF_INET6), of which only
   "fills 16 bytes" is assumed *)
Theorem C15_sock_resolve_no_fault :
  forall (pton6 : list N -> option (list N)),
  (forall s a, pton6 s = Some a -> length a = 16%nat) ->
  forall s, no_nul s -> exists r, sock_resolve_m pton6 (cstr s) = Ok r.
Proof. exact sock_resolve_no_fault. Qed.
Print Assumptions C15_sock_resolve_no_fault.

Theorem C15_sock_addr_ensure_port_no_fault :
  forall s, no_nul s ->
  exists r, sock_addr_ensure_port_m (cstr s) = Ok r /\ (r = s \/ r = s ++ [58; 48]).
Proof. exact sock_addr_ensure_port_no_fault. Qed.
Print Assumptions C15_sock_addr_ensure_port_no_fault.

(* the line readers, for every file content and every previous content of the stack buffer
   (sizes regenerated from the sources: fgets is never given more than the buffer holds) *)
Theorem C15_aws_readkeys_no_fault :
  forall buf0 file, length buf0 = N.to_nat aws_buf_size -> exists r, aws_readkeys_m buf0 file = Ok r.
Proof. exact aws_readkeys_no_fault. Qed.
Print Assumptions C15_aws_readkeys_no_fault.

Theorem C15_readpass_file_no_fault :
  forall buf0 file, length buf0 = N.to_nat rp_buf_size ->
  exists r, readpass_file_m buf0 file = Ok r /\
            match r with Some s => (length s < N.to_nat rp_buf_size)%nat | None => True end.
Proof. exact readpass_file_no_fault. Qed.
Print Assumptions C15_readpass_file_no_fault.
