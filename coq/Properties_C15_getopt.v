(* C15 (getopt part): the command-line parser reads only the bytes of the argv strings it was given.
   Every read of argv[optind][0..2], *packedopts, packedopts[1], os[i] inside strncmp, os[olen],
   the basename scan of argv[0] and the consumer's read of optarg goes through checked memory
   (Fault when outside the string object incl. its terminator, or at argv[argc]). *)
From Coq Require Import NArith List.
From LCP Require Import Base.CheckedMem Util.Getopt Util.GetoptSearch Util.GetoptSteps Util.GetoptProofs.
Import ListNotations.

(* for every state of the statics with optreset set, every table of NUL-free names (any names),
   every argv of terminated strings: no Fault, the loop terminates within the fuel given, and the
   run aborts (AssertFail) exactly when the registration pass refuses the table -- a DIE of
   getopt_register_opt before any argv word is looked at (reg_accepts: every name "-x"/"--long" and
   not matched by an earlier label; C18_reg_accepts_meaning); in particular never for a
   well-formed table (C18_wf_table_accepted) *)
Theorem C15_getopt_no_fault :
  forall s (t : table) (miss : option nat) (argv : list str),
    names_nn t -> wf_miss t miss -> Forall no_nul argv ->
    run_from (set_optreset true s) t miss argv <> Fault /\
    run_from (set_optreset true s) t miss argv <> OutOfFuel /\
    (run_from (set_optreset true s) t miss argv = AssertFail <-> ~ reg_accepts t).
Proof. exact getopt_no_fault_exact. Qed.
Print Assumptions C15_getopt_no_fault.

(* the same for a compiled GETOPT_SWITCH statement in any source layout (wf_miss holds by
   construction) *)
Theorem C15_switch_no_fault :
  forall s (lay : layout) (argv : list str),
    names_nn (table_of lay) -> Forall no_nul argv ->
    run_switch_from (set_optreset true s) lay argv <> Fault /\
    run_switch_from (set_optreset true s) lay argv <> OutOfFuel /\
    (run_switch_from (set_optreset true s) lay argv = AssertFail <-> ~ reg_accepts (table_of lay)).
Proof. exact switch_no_fault. Qed.
Print Assumptions C15_switch_no_fault.

(* searchopt alone, on any terminated string: stays inside it and returns the first matching slot *)
Theorem C15_searchopt_in_bounds :
  forall (t : table), names_nn t -> forall i (s : str) d, no_nul s ->
    searchopt_from t i (cstr s) d = Ok (match fm t i s with Some (j, _, _, _) => j | None => d end).
Proof. exact searchopt_from_spec. Qed.
Print Assumptions C15_searchopt_in_bounds.

(* documented range: the final optind lies in [1, max 1 argc] *)
Theorem C15_getopt_optind_range :
  forall (t : table) (miss : option nat) (argv : list str),
    wf_table t -> wf_miss t miss -> Forall no_nul argv ->
    exists evs k, run_model t miss argv = Ok (evs, k) /\
      stop_reason (tl argv) 1 k /\
      k = first_operand (doc_short t) (doc_long t) (tl argv) 1.
Proof. exact getopt_stops. Qed.
Print Assumptions C15_getopt_optind_range.
