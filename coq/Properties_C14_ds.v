(* C14 (containers of datastruct/: elastic array, elastic queue, sequential pointer map):
   a refused allocation is reported, leaves the object exactly as it was and leaks nothing;
   shrink / delete / free cannot fail.  Only statements, each closed by [exact].
   [refused ev] = the allocation oracle refused a request among the events of the operation;
   the theorems quantify over every oracle (single failures, persistent failure from k on, ...).

   Direction of M1.  C14_*_fail_unchanged are implications: refused request -> documented error
   value + unchanged state.  The converse (error value -> some request was refused) holds for the
   queue and the map within their length bounds (C14_eq_fail_iff, C14_spm_fail_iff); it is FALSE
   for the array, which also answers ENOMEM - without asking the allocator - when the byte count
   nrec * reclen (or size + nrec * reclen) does not fit size_t (C14_ea_error_without_refusal);
   the exact condition is C14_ea_fail_iff: error value <-> refused \/ not representable.

   Limitation of M3 (ghost heap).  Allocation events carry block SIZES, not block identities, and
   the ghost heap ([heap_run], DS/AllocOracle.v) is a multiset of the sizes of the live blocks:
   [AFree n] removes ONE live block of size n and fails (None) only if there is none.  The no-leak
   theorems therefore prove that frees and allocations balance per size (nothing leaked, no free
   without a live block of that size); they cannot distinguish freeing block A twice from freeing
   two distinct live blocks A and B of the same size.  Block identity is checked only in the
   correspondence run: the wrapped allocator of the C harness keys its table by pointer (a free of
   a block that is not live is logged as "f?" and the build runs under ASan), and the size-level
   event log of the C must equal the model's. *)
From Coq Require Import NArith ZArith List Bool Permutation.
From LCP Require Import Base.CheckedMem.
From LCP Require Import Gen.Repo_ds.
From LCP Require Import DS.AllocOracle.
From LCP Require Import DS.ElasticArray.
From LCP Require Import DS.ElasticQueue.
From LCP Require Import DS.SeqPtrMap.
From LCP Require Import DS.ElasticArrayRepo.
From LCP Require Import DS.ElasticArrayProofs.
From LCP Require Import DS.ElasticQueueProofs.
From LCP Require Import DS.SeqPtrMapProofs.
From LCP Require Import DS.ElasticArrayRepoProofs.
Import ListNotations.
Local Open Scope N_scope.

(* M1 fail_unchanged, elastic array (init, resize, append, truncate, export, exportdup): if the
   oracle refuses a request during the operation it returns its error value (NULL / -1) and the
   state - every field - is the state before; the invariant still holds, so every C12 theorem
   applies to the object afterwards (it remains usable); a failed export leaves the array intact. *)
Theorem C14_ea_fail_unchanged :
  forall op st o x st' o' ev,
    st_inv st -> ea_op_ok op ->
    r_ea_step op st o = Ok (x, st', o', ev) ->
    refused ev = true -> is_shrink op = false ->
    st' = st /\ x = ea_err_out op /\ st_inv st'.
Proof. exact r_ea_fail_unchanged. Qed.
Print Assumptions C14_ea_fail_unchanged.

(* ... the exact condition for the array: the error value is returned iff a request was refused
   or the requested byte count is not representable ([ea_unrep]: nrec * reclen >= 2^64 for init /
   resize, nrec * reclen or size + nrec * reclen >= 2^64 for append) *)
Theorem C14_ea_fail_iff :
  forall op st o x st' o' ev,
    st_inv st -> ea_op_ok op ->
    r_ea_step op st o = Ok (x, st', o', ev) ->
    is_shrink op = false ->
    (x = ea_err_out op <-> refused ev = true \/ ea_unrep op (st_abs st) = true).
Proof. exact r_ea_fail_iff. Qed.
Print Assumptions C14_ea_fail_iff.

(* ... so "error value -> refused" does not hold for the array: resize(2^63 records of 4 bytes)
   returns -1 with no allocation event at all *)
Theorem C14_ea_error_without_refusal :
  let e := {| ea_size := 0; ea_alloc := 0; ea_buf := [] |} in
  r_ea_step (OResize (2 ^ 63) 4 0) (Some e) all_grant = Ok (XRc false, Some e, all_grant, []).
Proof. exact r_ea_error_without_refusal. Qed.
Print Assumptions C14_ea_error_without_refusal.

(* queue (init, add): refused request -> -1 / NULL and nothing changed *)
Theorem C14_eq_fail_unchanged :
  forall rl op st o x st' o' ev,
    qst_inv rl st -> eq_op_ok rl op -> (q_used st + 1) * rl < W ->
    r_eq_step op st o = Ok (x, st', o', ev) ->
    refused ev = true -> op <> QDelete ->
    st' = st /\ x = YRc false /\ qst_inv rl st'.
Proof. exact r_eq_fail_unchanged. Qed.
Print Assumptions C14_eq_fail_unchanged.

(* queue, both directions (within the length bound no byte count reaches 2^64, so the array's
   ENOMEM-without-request cannot occur): failure reported <-> a request was refused *)
Theorem C14_eq_fail_iff :
  forall rl op st o x st' o' ev,
    qst_inv rl st -> eq_op_ok rl op -> (q_used st + 1) * rl < W ->
    r_eq_step op st o = Ok (x, st', o', ev) ->
    op <> QDelete ->
    (refused ev = true <-> x = YRc false).
Proof. exact r_eq_fail_iff. Qed.
Print Assumptions C14_eq_fail_iff.

(* map (init, add): refused request -> NULL / -1 and nothing changed *)
Theorem C14_spm_fail_unchanged :
  forall op st o x st' o' ev,
    mst_inv st -> spm_op_ok op -> (m_used st + 1) * 8 < W -> (m_next st < INT64_MAX)%Z ->
    r_spm_step op st o = Ok (x, st', o', ev) ->
    refused ev = true -> is_sdelete op = false ->
    st' = st /\ x = spm_err_out op /\ mst_inv st'.
Proof. exact r_spm_fail_unchanged. Qed.
Print Assumptions C14_spm_fail_unchanged.

(* map, both directions: NULL from init / -1 from add <-> a request was refused (the number add
   issues is never -1) *)
Theorem C14_spm_fail_iff :
  forall op st o x st' o' ev,
    mst_inv st -> spm_op_ok op -> (m_used st + 1) * 8 < W -> (m_next st < INT64_MAX)%Z ->
    r_spm_step op st o = Ok (x, st', o', ev) ->
    is_sdelete op = false ->
    (refused ev = true <-> x = spm_err_out op).
Proof. exact r_spm_fail_iff. Qed.
Print Assumptions C14_spm_fail_iff.

(* M2 infallible_ops: elasticarray_shrink and _free return normally under EVERY oracle (the
   all-refusing one included) and the contents are those of the ideal shrink: when realloc
   refuses, the old buffer is kept and the new size recorded *)
Theorem C14_ea_infallible :
  forall op e o,
    ea_inv e -> ea_op_ok op -> (is_shrink op = true \/ op = OFree) ->
    exists st' o' ev,
      r_ea_step op (Some e) o = Ok (XUnit, st', o', ev) /\ st_inv st' /\
      st_abs st' = snd (ea_spec_step op (Some (ea_abs e)) false).
Proof. exact r_ea_infallible. Qed.
Print Assumptions C14_ea_infallible.

Theorem C14_eq_delete_infallible :
  forall rl q o,
    eq_inv q -> eq_reclen q = rl -> (eq_offset q + eq_len q + 1) * rl < W ->
    exists q' o' ev,
      r_eq_step QDelete (Some q) o = Ok (YUnit, Some q', o', ev) /\
      eq_inv q' /\ eq_abs q' = (rl, tl (eq_recs q)).
Proof. exact r_eq_delete_infallible. Qed.
Print Assumptions C14_eq_delete_infallible.

Theorem C14_spm_delete_infallible :
  forall m i o,
    spm_inv m -> spm_trimmed m -> (- 2 ^ 63 <= i <= INT64_MAX)%Z ->
    exists m' o' ev,
      r_spm_step (SDelete i) (Some m) o = Ok (ZUnit, Some m', o', ev) /\
      spm_inv m' /\ spm_trimmed m' /\
      spm_abs m' = {| am_next := am_next (spm_abs m); am_live := am_remove (am_live (spm_abs m)) i |}.
Proof. exact r_spm_delete_infallible. Qed.
Print Assumptions C14_spm_delete_infallible.

(* M3 no_leak: replaying the malloc / realloc / free events of an operation on the ghost heap
   (multiset of block sizes; None = a free / realloc of a size of which no block is live - see the
   limitation in the header) succeeds and leaves exactly the blocks (sizes) the object owns
   afterwards, plus what export / exportdup handed to the client.
   With C14_*_fail_unchanged: after a refused request the live blocks are those before; after
   free (state None, owns nothing) none of the object's blocks is live. *)
Theorem C14_ea_no_leak :
  forall op st o x st' o' ev rest,
    st_inv st -> ea_op_ok op ->
    r_ea_step op st o = Ok (x, st', o', ev) ->
    exists h, heap_run (st_owned ea_struct_size st ++ rest) ev = Some h /\
              Permutation h (st_owned ea_struct_size st' ++ handed op x st ++ rest).
Proof. exact r_ea_step_no_leak. Qed.
Print Assumptions C14_ea_no_leak.

(* ... and for whole programs under any oracle *)
Theorem C14_ea_run_no_leak :
  forall ops st o tr rest,
    st_inv st -> Forall ea_op_ok ops ->
    r_ea_run ops st o = Ok tr ->
    exists h, heap_run (st_owned ea_struct_size st ++ rest) (concat (map tr_ev tr)) = Some h /\
              Permutation h (st_owned ea_struct_size (tr_final st tr) ++ tr_handed ops st tr ++ rest).
Proof. exact r_ea_run_no_leak. Qed.
Print Assumptions C14_ea_run_no_leak.

Theorem C14_eq_no_leak :
  forall rl op st o x st' o' ev rest,
    qst_inv rl st -> eq_op_ok rl op -> (q_used st + 1) * rl < W ->
    r_eq_step op st o = Ok (x, st', o', ev) ->
    exists h, heap_run (qst_owned ea_struct_size eq_struct_size st ++ rest) ev = Some h /\
              Permutation h (qst_owned ea_struct_size eq_struct_size st' ++ rest).
Proof. exact r_eq_step_no_leak. Qed.
Print Assumptions C14_eq_no_leak.

Theorem C14_spm_no_leak :
  forall op st o x st' o' ev rest,
    mst_inv st -> spm_op_ok op -> (m_used st + 1) * 8 < W -> (m_next st < INT64_MAX)%Z ->
    r_spm_step op st o = Ok (x, st', o', ev) ->
    exists h, heap_run (mst_owned ea_struct_size eq_struct_size spm_struct_size st ++ rest) ev = Some h /\
              Permutation h (mst_owned ea_struct_size eq_struct_size spm_struct_size st' ++ rest).
Proof. exact r_spm_step_no_leak. Qed.
Print Assumptions C14_spm_no_leak.

(* ... and for whole queue / map programs under any oracle (the per-step statements composed
   through the C12 invariants, as C14_ea_run_no_leak): after the program the live blocks are
   those present before that the object did not own, plus exactly what the object owns in its
   final state - nothing if the program ends with free *)
Theorem C14_eq_run_no_leak :
  forall rl ops st o tr rest,
    qst_inv rl st -> Forall (eq_op_ok rl) ops ->
    (q_used st + N.of_nat (length ops)) * rl < W ->
    r_eq_run ops st o = Ok tr ->
    exists h, heap_run (qst_owned ea_struct_size eq_struct_size st ++ rest) (concat (map qtr_ev tr)) = Some h /\
              Permutation h (qst_owned ea_struct_size eq_struct_size (qtr_final st tr) ++ rest).
Proof. exact r_eq_run_no_leak. Qed.
Print Assumptions C14_eq_run_no_leak.

Theorem C14_spm_run_no_leak :
  forall ops st o tr rest,
    mst_inv st -> Forall spm_op_ok ops ->
    m_used st + N.of_nat (length ops) < 2 ^ 60 ->
    (m_next st + Z.of_nat (length ops) < 2 ^ 60)%Z ->
    r_spm_run ops st o = Ok tr ->
    exists h, heap_run (mst_owned ea_struct_size eq_struct_size spm_struct_size st ++ rest)
                       (concat (map mtr_ev tr)) = Some h /\
              Permutation h (mst_owned ea_struct_size eq_struct_size spm_struct_size (mtr_final st tr) ++ rest).
Proof. exact r_spm_run_no_leak. Qed.
Print Assumptions C14_spm_run_no_leak.
