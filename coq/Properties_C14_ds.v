(* C14 (containers of datastruct/: elastic array, elastic queue, sequential pointer map):
   a refused allocation is reported, leaves the object exactly as it was and leaks nothing;
   shrink / delete / free cannot fail.  Only statements, each closed by [exact].
   [refused ev] = the allocation oracle refused a request among the events of the operation;
   the theorems quantify over every oracle (single failures, persistent failure from k on, ...). *)
From Coq Require Import NArith ZArith List Bool Permutation.
From LCP Require Import Base.CheckedMem.
From LCP Require Import Gen.Repo_ds.
From LCP Require Import DS.AllocOracle.
From LCP Require Import DS.ElasticArray.
From LCP Require Import DS.ElasticQueue.
From LCP Require Import DS.SeqPtrMap.
From LCP Require Import DS.ElasticArrayRepo.
From LCP Require Import DS.ElasticArrayProofs.
From LCP Require Import DS.ElasticQueueProofs.
From LCP Require Import DS.SeqPtrMapProofs.
From LCP Require Import DS.ElasticArrayRepoProofs.
Import ListNotations.
Local Open Scope N_scope.

(* M1 fail_unchanged, elastic array (init, resize, append, truncate, export, exportdup): if the
   oracle refuses a request during the operation it returns its error value (NULL / -1) and the
   state - every field - is the state before; the invariant still holds, so every C12 theorem
   applies to the object afterwards (it remains usable); a failed export leaves the array intact. *)
Theorem C14_ea_fail_unchanged :
  forall op st o x st' o' ev,
    st_inv st -> ea_op_ok op ->
    r_ea_step op st o = Ok (x, st', o', ev) ->
    refused ev = true -> is_shrink op = false ->
    st' = st /\ x = ea_err_out op /\ st_inv st'.
Proof. exact r_ea_fail_unchanged. Qed.
Print Assumptions C14_ea_fail_unchanged.

Theorem C14_eq_fail_unchanged :
  forall rl op st o x st' o' ev,
    qst_inv rl st -> eq_op_ok rl op -> (q_used st + 1) * rl < W ->
    r_eq_step op st o = Ok (x, st', o', ev) ->
    refused ev = true -> op <> QDelete ->
    st' = st /\ x = YRc false /\ qst_inv rl st'.
Proof. exact r_eq_fail_unchanged. Qed.
Print Assumptions C14_eq_fail_unchanged.

Theorem C14_spm_fail_unchanged :
  forall op st o x st' o' ev,
    mst_inv st -> spm_op_ok op -> (m_used st + 1) * 8 < W -> (m_next st < INT64_MAX)%Z ->
    r_spm_step op st o = Ok (x, st', o', ev) ->
    refused ev = true -> is_sdelete op = false ->
    st' = st /\ x = spm_err_out op /\ mst_inv st'.
Proof. exact r_spm_fail_unchanged. Qed.
Print Assumptions C14_spm_fail_unchanged.

(* M2 infallible_ops: elasticarray_shrink and _free return normally under EVERY oracle (the
   all-refusing one included) and the contents are those of the ideal shrink: when realloc
   refuses, the old buffer is kept and the new size recorded *)
Theorem C14_ea_infallible :
  forall op e o,
    ea_inv e -> ea_op_ok op -> (is_shrink op = true \/ op = OFree) ->
    exists st' o' ev,
      r_ea_step op (Some e) o = Ok (XUnit, st', o', ev) /\ st_inv st' /\
      st_abs st' = snd (ea_spec_step op (Some (ea_abs e)) false).
Proof. exact r_ea_infallible. Qed.
Print Assumptions C14_ea_infallible.

Theorem C14_eq_delete_infallible :
  forall rl q o,
    eq_inv q -> eq_reclen q = rl -> (eq_offset q + eq_len q + 1) * rl < W ->
    exists q' o' ev,
      r_eq_step QDelete (Some q) o = Ok (YUnit, Some q', o', ev) /\
      eq_inv q' /\ eq_abs q' = (rl, tl (eq_recs q)).
Proof. exact r_eq_delete_infallible. Qed.
Print Assumptions C14_eq_delete_infallible.

Theorem C14_spm_delete_infallible :
  forall m i o,
    spm_inv m -> spm_trimmed m -> (- 2 ^ 63 <= i <= INT64_MAX)%Z ->
    exists m' o' ev,
      r_spm_step (SDelete i) (Some m) o = Ok (ZUnit, Some m', o', ev) /\
      spm_inv m' /\ spm_trimmed m' /\
      spm_abs m' = {| am_next := am_next (spm_abs m); am_live := am_remove (am_live (spm_abs m)) i |}.
Proof. exact r_spm_delete_infallible. Qed.
Print Assumptions C14_spm_delete_infallible.

(* M3 no_leak: replaying the malloc / realloc / free events of an operation on the ghost heap
   (multiset of block sizes; None = a block freed that is not live) succeeds and leaves exactly
   the blocks the object owns afterwards, plus what export / exportdup handed to the client.
   With C14_*_fail_unchanged: after a refused request the live blocks are those before; after
   free (state None, owns nothing) none of the object's blocks is live. *)
Theorem C14_ea_no_leak :
  forall op st o x st' o' ev rest,
    st_inv st -> ea_op_ok op ->
    r_ea_step op st o = Ok (x, st', o', ev) ->
    exists h, heap_run (st_owned ea_struct_size st ++ rest) ev = Some h /\
              Permutation h (st_owned ea_struct_size st' ++ handed op x st ++ rest).
Proof. exact r_ea_step_no_leak. Qed.
Print Assumptions C14_ea_no_leak.

(* ... and for whole programs under any oracle *)
Theorem C14_ea_run_no_leak :
  forall ops st o tr rest,
    st_inv st -> Forall ea_op_ok ops ->
    r_ea_run ops st o = Ok tr ->
    exists h, heap_run (st_owned ea_struct_size st ++ rest) (concat (map tr_ev tr)) = Some h /\
              Permutation h (st_owned ea_struct_size (tr_final st tr) ++ tr_handed ops st tr ++ rest).
Proof. exact r_ea_run_no_leak. Qed.
Print Assumptions C14_ea_run_no_leak.

Theorem C14_eq_no_leak :
  forall rl op st o x st' o' ev rest,
    qst_inv rl st -> eq_op_ok rl op -> (q_used st + 1) * rl < W ->
    r_eq_step op st o = Ok (x, st', o', ev) ->
    exists h, heap_run (qst_owned ea_struct_size eq_struct_size st ++ rest) ev = Some h /\
              Permutation h (qst_owned ea_struct_size eq_struct_size st' ++ rest).
Proof. exact r_eq_step_no_leak. Qed.
Print Assumptions C14_eq_no_leak.

Theorem C14_spm_no_leak :
  forall op st o x st' o' ev rest,
    mst_inv st -> spm_op_ok op -> (m_used st + 1) * 8 < W -> (m_next st < INT64_MAX)%Z ->
    r_spm_step op st o = Ok (x, st', o', ev) ->
    exists h, heap_run (mst_owned ea_struct_size eq_struct_size spm_struct_size st ++ rest) ev = Some h /\
              Permutation h (mst_owned ea_struct_size eq_struct_size spm_struct_size st' ++ rest).
Proof. exact r_spm_step_no_leak. Qed.
Print Assumptions C14_spm_no_leak.
