(* C02: AES block encryption and the AES-CTR stream equal FIPS-197 / SP 800-38A.
   Only statements, each closed by [exact], with Print Assumptions.

   Reading guide.  Spec = Crypto/AesSpec.v (FIPS-197 with the S-box DEFINED as inverse + affine map;
   ctr_spec = data XOR E(nonce_be64 || i_be64), i = 0, 1, ...).  Model = Accel/AesNi.v (instruction
   level model of crypto_aes_aesni.c driven by the regenerated MKRKEY / aes_key[] tables) and
   Crypto/AesCtrModel.v (crypto_aesctr*.c for an arbitrary block function E; its bookkeeping arithmetic -
   every update of bytectr / *buflen / the block counter / pblk[15], every condition and call argument
   over them - is NOT hand-written: it is regenerated from the C text as expression trees,
   Gen/Repo_aes_arith.v, and evaluated with C integer semantics, Crypto/AesCtrArith.v; see
   C03_ctr_regenerated_bookkeeping_eq_reference in Properties_C03_aes.v).  x_* / repo_* =
   the models instantiated with the constants regenerated from the C (Crypto/AesRepo.v).
   st_wf any = the two arrays of the struct have 16 bytes, contents arbitrary ("any prior state").
   hw = whether the AES-NI path was selected; with hw = true a call of >= 16 bytes takes the
   bulk path and shorter calls the portable path, inside one stream.
   NOT covered by these theorems: the OpenSSL fallback (AES_set_encrypt_key / AES_encrypt) is
   external code and is not modelled - C02_aesctr_portable_over_fips197 ASSUMES FIPS-197 for it
   and the correspondence run of the software-only build compares it with AesSpec; in-place
   operation (aliasing) is a runtime matter exercised by the driver. *)
From Coq Require Import NArith List.
From LCP Require Import Base.CheckedMem.
From LCP Require Import Gen.Repo_aes.
From LCP Require Import Crypto.AesSpec.
From LCP Require Import Crypto.AesProofs.
From LCP Require Import Accel.AesNi.
From LCP Require Import Crypto.AesCtrModel.
From LCP Require Import Crypto.AesRepo.
From LCP Require Import Accel.AesNiProofs.
From LCP Require Import Accel.AesNiKeyProofs.
From LCP Require Import Crypto.AesCtrProofs.
From LCP Require Import Crypto.AesTop.
From LCP Require Import Gen.Repo_aes_sel.
From LCP Require Import Crypto.AesSelect.
From LCP Require Import Crypto.AesSelectProofs.
Import ListNotations.
Local Open Scope N_scope.

(* ---------------------------------------------------------------- block encryption *)
(* the literal table of FIPS-197 Figure 7 is the S-box defined by inverse + affine map, on all of N *)
Theorem C02_sbox_table_is_sbox : forall x, sbox_fast x = sbox x.
Proof. exact sbox_fast_eq. Qed.
Print Assumptions C02_sbox_table_is_sbox.

(* the self-test vectors now in crypto/crypto_aes.c are values of the spec (FIPS-197 C.1, C.3) *)
Theorem C02_selftest_vectors_are_fips197 :
  AES_encrypt selftest1_key selftest1_ptext = selftest1_ctext /\
  AES_encrypt selftest2_key selftest2_ptext = selftest2_ctext.
Proof. exact (conj repo_selftest1_is_fips repo_selftest2_is_fips). Qed.
Print Assumptions C02_selftest_vectors_are_fips197.

(* M3: the aesenc chain with its `nr > 10` branch is the FIPS-197 Cipher on a correct schedule *)
Theorem C02_aesni_encrypt_eq_cipher :
  forall (w : list word) (Nr : nat) (rk : list m128) b,
    (Nr = 10 \/ Nr = 14)%nat ->
    (forall r, (r <= Nr)%nat -> nth r rk [] = round_key w r) ->
    repo_encrypt_block_aesni sbox (rk, N.of_nat Nr) b = Cipher sbox Nr w b.
Proof. exact (encrypt_block_aesni_eq_Cipher sbox). Qed.
Print Assumptions C02_aesni_encrypt_eq_cipher.

(* G4: the MKRKEY128 / MKRKEY256 chains with the rcon / shuffle immediates now in the source
   compute the FIPS-197 key schedule, for every key *)
Theorem C02_key_expand_128_aesni_eq : forall key, length key = 16%nat ->
  firstn 11 (repo_key_expand_128_aesni sbox key) = round_keys (AES_KeyExpansion key).
Proof. exact aesni_key_expand_128_is_fips197. Qed.
Print Assumptions C02_key_expand_128_aesni_eq.

Theorem C02_key_expand_256_aesni_eq : forall key, length key = 32%nat ->
  repo_key_expand_256_aesni sbox key = round_keys (AES_KeyExpansion key).
Proof. exact aesni_key_expand_256_is_fips197. Qed.
Print Assumptions C02_key_expand_256_aesni_eq.

(* hence, for every 128- or 256-bit key and every block, AES-NI block encryption is FIPS-197 AES
   (full statement; G4 is closed, so no "modulo key expansion" remains) *)
Theorem C02_aesni_block_is_fips197 : forall key k b,
  repo_key_expand_aesni sbox key = Some k ->
  repo_encrypt_block_aesni sbox k b = AES_encrypt key b.
Proof. exact aesni_block_is_fips197. Qed.
Print Assumptions C02_aesni_block_is_fips197.

(* the same for the executable instance that the correspondence run compares with the library,
   and key expansion is defined exactly for the two key sizes *)
Theorem C02_x_aesni_block_is_fips197 : forall key k b,
  x_key_expand_aesni key = Some k -> x_encrypt_block_aesni k b = AES_encrypt key b.
Proof. exact x_aesni_block_is_fips197. Qed.
Print Assumptions C02_x_aesni_block_is_fips197.

Theorem C02_aesni_key_expand_defined : forall key, (length key = 16 \/ length key = 32)%nat ->
  exists k, x_key_expand_aesni key = Some k.
Proof. exact aesni_key_expand_defined. Qed.
Print Assumptions C02_aesni_key_expand_defined.

(* ---------------------------------------------------------------- the stream, any block function *)
(* M1a: init2 establishes the invariant from ANY prior state (pblk[8..14] are not initialised) *)
Theorem C02_ctr_inv_init2 : forall (E : list N -> list N) nonce any,
  st_wf any -> ctr_inv E nonce 0 0 (init2 ctr_init_index ctr_init_byte nonce any).
Proof. exact init2_inv. Qed.
Print Assumptions C02_ctr_inv_init2.

(* M1b: every call, of any size, on either path, preserves it and writes input XOR the keystream
   bytes total .. total+len-1.  (ctr_inv E nonce start total s: the object was (re-)initialised at
   stream position start - 0 for init2, a block boundary 16*B for the harness's white-box seek -
   and is now at position total.) *)
Theorem C02_ctr_inv_stream : forall (E : list N -> list N),
  (forall b, length (E b) = 16%nat) ->
  forall nonce start, start mod 16 = 0 ->
  forall hw total s inp,
    ctr_inv E nonce start total s -> total + N.of_nat (length inp) < two64 ->
    exists s', stream_cfg E hw s inp = Ok (s', xor_list inp (ks_range E nonce total (length inp))) /\
               ctr_inv E nonce start (total + N.of_nat (length inp)) s'.
Proof. exact stream_cfg_spec. Qed.
Print Assumptions C02_ctr_inv_stream.

(* M2: any sequence of calls of any sizes (including 0) from a freshly (re-)initialised object *)
Theorem C02_ctr_stream_correct : forall (E : list N -> list N),
  (forall b, length (E b) = 16%nat) ->
  forall hw nonce any chunks,
    st_wf any -> N.of_nat (length (concat chunks)) < two64 ->
    exists s' outs,
      stream_all E hw (init2 ctr_init_index ctr_init_byte nonce any) chunks = Ok (s', outs) /\
      concat outs = ctr_spec E nonce (concat chunks) /\
      map (@length N) outs = map (@length N) chunks.
Proof. exact ctr_stream_correct. Qed.
Print Assumptions C02_ctr_stream_correct.

Theorem C02_ctr_partition_independent : forall (E : list N -> list N),
  (forall b, length (E b) = 16%nat) ->
  forall hw1 hw2 nonce any1 any2 chunks1 chunks2,
    st_wf any1 -> st_wf any2 -> concat chunks1 = concat chunks2 ->
    N.of_nat (length (concat chunks1)) < two64 ->
    exists s1 outs1 s2 outs2,
      stream_all E hw1 (init2 ctr_init_index ctr_init_byte nonce any1) chunks1 = Ok (s1, outs1) /\
      stream_all E hw2 (init2 ctr_init_index ctr_init_byte nonce any2) chunks2 = Ok (s2, outs2) /\
      concat outs1 = concat outs2.
Proof. exact ctr_partition_independent. Qed.
Print Assumptions C02_ctr_partition_independent.

Theorem C02_ctr_involutive : forall (E : list N -> list N),
  (forall b, length (E b) = 16%nat) ->
  forall hw1 hw2 nonce any1 any2 chunks1 chunks2 s1 outs1,
    st_wf any1 -> st_wf any2 -> N.of_nat (length (concat chunks1)) < two64 ->
    stream_all E hw1 (init2 ctr_init_index ctr_init_byte nonce any1) chunks1 = Ok (s1, outs1) ->
    concat chunks2 = concat outs1 ->
    exists s2 outs2,
      stream_all E hw2 (init2 ctr_init_index ctr_init_byte nonce any2) chunks2 = Ok (s2, outs2) /\
      concat outs2 = concat chunks1.
Proof. exact ctr_involutive. Qed.
Print Assumptions C02_ctr_involutive.

(* re-initialising a used object, with the same key (E2 = E1) or a new one, restarts the keystream *)
Theorem C02_ctr_reinit_restarts : forall (E1 E2 : list N -> list N),
  (forall b, length (E1 b) = 16%nat) -> (forall b, length (E2 b) = 16%nat) ->
  forall hw1 hw2 nonce1 nonce2 any history s1 outs1 chunks,
    st_wf any -> N.of_nat (length (concat history)) < two64 ->
    stream_all E1 hw1 (init2 ctr_init_index ctr_init_byte nonce1 any) history = Ok (s1, outs1) ->
    N.of_nat (length (concat chunks)) < two64 ->
    exists s2 outs2,
      stream_all E2 hw2 (init2 ctr_init_index ctr_init_byte nonce2 s1) chunks = Ok (s2, outs2) /\
      concat outs2 = ctr_spec E2 nonce2 (concat chunks).
Proof. exact ctr_reinit_restarts. Qed.
Print Assumptions C02_ctr_reinit_restarts.

(* ---------------------------------------------------------------- end to end *)
(* AES-NI build: key schedule, block function, routing and stream all as modelled from the C *)
Theorem C02_aesctr_aesni_is_ctr_of_fips197 : forall key k nonce any chunks,
  x_key_expand_aesni key = Some k ->
  st_wf any -> N.of_nat (length (concat chunks)) < two64 ->
  exists s' outs,
    stream_all (x_encrypt_block_aesni k) true (x_init2 nonce any) chunks = Ok (s', outs) /\
    concat outs = ctr_spec (AES_encrypt key) nonce (concat chunks) /\
    map (@length N) outs = map (@length N) chunks.
Proof. exact aesctr_aesni_is_ctr_of_fips197. Qed.
Print Assumptions C02_aesctr_aesni_is_ctr_of_fips197.

(* the object positioned at block B by the correspondence harness (stream->bytectr = 16*B written
   right after init2; not a library operation): it produces the spec's keystream from block B on.
   This is the statement the white-box seek cases of the correspondence run rely on. *)
Theorem C02_aesctr_aesni_seek_is_ctr_of_fips197 : forall key k nonce B any chunks,
  x_key_expand_aesni key = Some k ->
  st_wf any -> 16 * B + N.of_nat (length (concat chunks)) < two64 ->
  exists s' outs,
    stream_all (x_encrypt_block_aesni k) true (x_seek (16 * B) (x_init2 nonce any)) chunks = Ok (s', outs) /\
    concat outs = ctr_spec_from (AES_encrypt key) nonce B (concat chunks) /\
    map (@length N) outs = map (@length N) chunks.
Proof. exact aesctr_aesni_seek_is_ctr_of_fips197. Qed.
Print Assumptions C02_aesctr_aesni_seek_is_ctr_of_fips197.

Theorem C02_ctr_seek_stream_correct : forall (E : list N -> list N),
  (forall b, length (E b) = 16%nat) ->
  forall hw nonce B any chunks,
    st_wf any -> 16 * B + N.of_nat (length (concat chunks)) < two64 ->
    exists s' outs,
      stream_all E hw (seek (16 * B) (init2 ctr_init_index ctr_init_byte nonce any)) chunks = Ok (s', outs) /\
      concat outs = ctr_spec_from E nonce B (concat chunks) /\
      map (@length N) outs = map (@length N) chunks.
Proof. exact ctr_seek_stream_correct. Qed.
Print Assumptions C02_ctr_seek_stream_correct.

(* software build, partial: FIPS-197 is ASSUMED for OpenSSL's block function (E := AES_encrypt key);
   what is proved is the portable loop of crypto_aesctr.c around it *)
Theorem C02_aesctr_portable_over_fips197_partial : forall key nonce any chunks,
  st_wf any -> N.of_nat (length (concat chunks)) < two64 ->
  exists s' outs,
    stream_all (AES_encrypt key) false (x_init2 nonce any) chunks = Ok (s', outs) /\
    concat outs = ctr_spec (AES_encrypt key) nonce (concat chunks) /\
    map (@length N) outs = map (@length N) chunks.
Proof. exact aesctr_portable_over_fips197. Qed.
Print Assumptions C02_aesctr_portable_over_fips197_partial.

(* the library as a whole, for every outcome of its implementation selection: cpu = the CPU reports
   AES-NI, selftest = the first-use self-test of the AES-NI code passed (it fails e.g. when its
   allocation is refused).  x_lib_aesctr interprets the selection logic of crypto_aes.c and
   crypto_aesctr.c regenerated from the C text (Gen/Repo_aes_sel.v; model Crypto/AesSelect.v, where a
   callee applied to a key object of the other module's kind is Fault) around the stream model.
   Partial: OpenSSL is not modelled; what is ASSUMED about it is exactly the hypothesis on ossl. *)
Theorem C02_aesctr_any_selection_is_ctr_of_fips197_partial :
  forall (ossl : list N -> list N -> list N),
    (forall key b, (length key = 16 \/ length key = 32)%nat -> ossl key b = AES_encrypt key b) ->
    forall cpu selftest key nonce any chunks,
      (length key = 16 \/ length key = 32)%nat ->
      st_wf any -> N.of_nat (length (concat chunks)) < two64 ->
      exists s' outs,
        x_lib_aesctr cpu selftest ossl key nonce any chunks = Ok (s', outs) /\
        concat outs = ctr_spec (AES_encrypt key) nonce (concat chunks) /\
        map (@length N) outs = map (@length N) chunks.
Proof. exact aesctr_any_selection_is_ctr_of_fips197. Qed.
Print Assumptions C02_aesctr_any_selection_is_ctr_of_fips197_partial.
