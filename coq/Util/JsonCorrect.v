(* C17 (M5) for util/json.c: on the rendering of every well-formed JSON value, with every choice
   of insignificant whitespace and of escapes, skip_value lands exactly behind the value, and
   json_find on an object returns what JsonSpec.find_spec says.

   The heavy part is parametric in the tables of the C text; what it needs from them is stated
   as five hypotheses (T_ws, T_num, T_lit, T_esc, and the literals' safety rows are not needed
   here) which are discharged for the regenerated tables at the end of the file. *)
From Coq Require Import Arith NArith List Lia Bool.
From LCP Require Import Base.CheckedMem Util.Json Util.JsonSpec.
Import ListNotations.
Local Open Scope res_scope.

(* ---- "the bytes of b from offset p on are l" ---- *)
Definition at_ (b : list N) (p : nat) (l : list N) : Prop :=
  exists pre, b = pre ++ l /\ length pre = p.

Lemma at_len b p l : at_ b p l -> length b = p + length l.
Proof. intros (pre & -> & <-). apply app_length. Qed.

Lemma at_rd b p c l : at_ b p (c :: l) -> rd b p = Ok c.
Proof.
  intros (pre & -> & <-). unfold rd. rewrite nth_error_app2 by lia.
  rewrite Nat.sub_diag. reflexivity.
Qed.

Lemma at_app b p x l : at_ b p (x ++ l) -> at_ b (p + length x) l.
Proof.
  intros (pre & -> & <-). exists (pre ++ x). split; [apply app_assoc|apply app_length].
Qed.

Lemma at_cons b p c l : at_ b p (c :: l) -> at_ b (p + 1) l.
Proof. intros H. apply (at_app b p [c] l). exact H. Qed.

Lemma at_fwd b p n l : at_ b p l -> n <= length l -> fwd b p n = Ok (p + n).
Proof.
  intros H Hn. apply at_len in H. unfold fwd.
  assert (E : (p + n <=? length b) = true) by (apply Nat.leb_le; lia). rewrite E. reflexivity.
Qed.

Lemma at_zero b : at_ b 0 b.
Proof. exists []. split; reflexivity. Qed.

Lemma at_intro pre l : at_ (pre ++ l) (length pre) l.
Proof. exists pre. split; reflexivity. Qed.

(* booleans of the model's pointer comparisons, from the suffix *)
Lemma at_lt_cons b p c l : at_ b p (c :: l) -> (p <? length b) = true.
Proof. intros H. apply at_len in H. cbn in H. apply Nat.ltb_lt. lia. Qed.
Lemma at_lt_nil b p : at_ b p [] -> (p <? length b) = false.
Proof. intros H. apply at_len in H. cbn in H. apply Nat.ltb_ge. lia. Qed.
Lemma at_eq_cons b p c l : at_ b p (c :: l) -> (p =? length b) = false.
Proof. intros H. apply at_len in H. cbn in H. apply Nat.eqb_neq. lia. Qed.
Lemma at_eq_nil b p : at_ b p [] -> (p =? length b) = true.
Proof. intros H. apply at_len in H. cbn in H. apply Nat.eqb_eq. lia. Qed.

(* step over one byte: *buf++ *)
Ltac step_rd H :=
  rewrite (at_rd _ _ _ _ H); cbn [bind].
Ltac step_fwd1 H :=
  rewrite (at_fwd _ _ 1 _ H) by (cbn [length]; lia); cbn [bind].

(* ---- facts about the spec's byte classes ---- *)
Definition head_nows (l : list N) : Prop :=
  match l with [] => True | c :: _ => ws_byte c = false end.
(* the byte behind a value must not be one skip_number would eat (NUL included: strchr finds
   the terminator of numchars) *)
Definition value_end_ok (l : list N) : bool :=
  match l with [] => true | c :: _ => negb (num_byte c || (c =? 0)%N) end.

Lemma esc_val_not_u e v : esc_val e = Some v -> (e =? 117)%N = false.
Proof.
  intros H. destruct (e =? 117)%N eqn:E; [|reflexivity].
  apply N.eqb_eq in E. subst. vm_compute in H. discriminate.
Qed.

Lemma esc_val_nonzero e v : esc_val e = Some v -> v <> 0%N.
Proof.
  unfold esc_val. repeat (destruct (e =? _)%N; [intros H; inversion H; discriminate|]).
  discriminate.
Qed.

Lemma num_byte_facts c : num_byte c = true ->
  ws_byte c = false /\ (c =? 93)%N = false /\ (c =? 125)%N = false /\
  ((c =? 102)%N || (c =? 110)%N || (c =? 116)%N) = false /\ (c =? 34)%N = false /\
  (c =? 91)%N = false /\ (c =? 123)%N = false.
Proof.
  unfold num_byte, ws_byte. intros H.
  repeat rewrite orb_true_iff in H. rewrite andb_true_iff in H.
  repeat rewrite N.eqb_eq in H. rewrite !N.leb_le in H.
  repeat split; repeat (apply orb_false_iff; split); apply N.eqb_neq; lia.
Qed.

Lemma is_wsl_app w1 w2 : is_wsl (w1 ++ w2) = is_wsl w1 && is_wsl w2.
Proof. apply forallb_app. Qed.

(* what a rendered well-formed value starts with *)
Lemma render_head v : wf v = true ->
  exists c r, render v = c :: r /\ ws_byte c = false /\ (c =? 93)%N = false.
Proof.
  destruct v as [k|t|s|w es|w ms]; intros H.
  - destruct k; eexists; eexists; (split; [reflexivity|split; reflexivity]).
  - cbn [wf] in H. destruct t as [|c r]; [discriminate|]. cbn [negb andb forallb] in H.
    apply andb_true_iff in H. destruct H as [Hc _].
    destruct (num_byte_facts c Hc) as (H1 & H2 & _). exists c, r. auto.
  - eexists; eexists; (split; [reflexivity|split; reflexivity]).
  - eexists; eexists; (split; [reflexivity|split; reflexivity]).
  - eexists; eexists; (split; [reflexivity|split; reflexivity]).
Qed.

Lemma render_string_length s : length (render_string s) = length (render_items s) + 2.
Proof. unfold render_string. cbn [length]. rewrite app_length. cbn [length]. lia. Qed.

Definition tail_elems (es : list jelem) : list N := flat_map (fun e => 44%N :: render_elem e) es.
Definition tail_members (ms : list jmember) : list N := flat_map (fun m => 44%N :: render_member m) ms.

Lemma join_comma_elems e es :
  join_comma (map render_elem (e :: es)) = render_elem e ++ tail_elems es.
Proof.
  revert e. induction es as [|e' r IH]; intros e.
  - cbn. rewrite app_nil_r. reflexivity.
  - change (join_comma (map render_elem (e :: e' :: r)))
      with (render_elem e ++ 44%N :: join_comma (map render_elem (e' :: r))).
    rewrite IH. reflexivity.
Qed.

Lemma join_comma_members m ms :
  join_comma (map render_member (m :: ms)) = render_member m ++ tail_members ms.
Proof.
  revert m. induction ms as [|m' r IH]; intros m.
  - cbn. rewrite app_nil_r. reflexivity.
  - change (join_comma (map render_member (m :: m' :: r)))
      with (render_member m ++ 44%N :: join_comma (map render_member (m' :: r))).
    rewrite IH. reflexivity.
Qed.

Section Correct.
  Variable numchars wsbytes : list N.
  Variable literals : list (nat * list N * nat * nat).
  Variable escapes : list (N * N).

  (* what the proof needs from the tables of the C text *)
  Hypothesis T_ws : forall c, is_ws wsbytes c = ws_byte c.
  Hypothesis T_num : forall c, is_numchar numchars c = num_byte c || (c =? 0)%N.
  Hypothesis T_lit : forall k b p l, at_ b p (lit_text k ++ l) ->
    skip_literal literals b p = Ok (p + length (lit_text k)).
  Hypothesis T_esc : forall e, assoc e escapes = esc_val e.

  (* ---- skip_ws ---- *)
  Lemma ws_loop_at w : forall fuel b p l, is_wsl w = true -> head_nows l ->
    at_ b p (w ++ l) -> fuel > length w ->
    ws_loop wsbytes b fuel p = Ok (p + length w).
  Proof.
    induction w as [|x w IH]; intros fuel b p l Hw Hl Hat Hf.
    - destruct fuel as [|f]; [cbn in Hf; lia|]. cbn [ws_loop app length] in *.
      rewrite Nat.add_0_r. destruct l as [|c l].
      + rewrite (at_lt_nil _ _ Hat). reflexivity.
      + rewrite (at_lt_cons _ _ _ _ Hat). step_rd Hat. rewrite T_ws. cbn in Hl. rewrite Hl. reflexivity.
    - destruct fuel as [|f]; [cbn in Hf; lia|]. cbn [ws_loop app length] in *.
      cbn [is_wsl forallb] in Hw. apply andb_true_iff in Hw. destruct Hw as [Hx Hw].
      rewrite (at_lt_cons _ _ _ _ Hat). step_rd Hat. rewrite T_ws, Hx. step_fwd1 Hat.
      rewrite (IH f b (p + 1) l Hw Hl (at_cons _ _ _ _ Hat)) by lia. f_equal. lia.
  Qed.

  Lemma skip_ws_at w b p l : is_wsl w = true -> at_ b p (w ++ l) -> head_nows l ->
    skip_ws wsbytes b p = Ok (p + length w).
  Proof.
    intros Hw Hat Hl. unfold skip_ws. apply (ws_loop_at w _ b p l Hw Hl Hat).
    apply at_len in Hat. rewrite app_length in Hat. lia.
  Qed.

  (* ---- skip_string ---- *)
  Lemma str_loop_at s : forall fuel b p l, wf_string s = true ->
    at_ b p (render_items s ++ 34%N :: l) -> fuel > length (render_items s) ->
    str_loop b fuel p = Ok (p + length (render_items s) + 1).
  Proof.
    induction s as [|i s IH]; intros fuel b p l Hs Hat Hf.
    - destruct fuel as [|f]; [lia|]. cbn [render_items flat_map app length str_loop] in *.
      rewrite (at_lt_cons _ _ _ _ Hat). step_rd Hat. step_fwd1 Hat. cbn. f_equal. lia.
    - destruct fuel as [|f]; [lia|].
      cbn [wf_string forallb] in Hs. apply andb_true_iff in Hs. destruct Hs as [Hi Hs].
      change (render_items (i :: s)) with (render_item i ++ render_items s) in *.
      rewrite app_length in *. rewrite <- app_assoc in Hat.
      cbn [str_loop]. destruct i as [c|e|h1 h2 h3 h4]; cbn [render_item app length] in *.
      + cbn [wf_item] in Hi. apply andb_true_iff in Hi. destruct Hi as [Hi H92].
        apply andb_true_iff in Hi. destruct Hi as [_ H34]. apply negb_true_iff in H34, H92.
        rewrite (at_lt_cons _ _ _ _ Hat). step_rd Hat. step_fwd1 Hat. rewrite H34, H92.
        rewrite (IH f b (p + 1) l Hs (at_cons _ _ _ _ Hat)) by lia. f_equal. lia.
      + cbn [wf_item] in Hi. destruct (esc_val e) as [v|] eqn:Ev; [|discriminate].
        rewrite (at_lt_cons _ _ _ _ Hat). step_rd Hat. step_fwd1 Hat.
        change (92 =? 34)%N with false. change (92 =? 92)%N with true. cbn iota.
        pose proof (at_cons _ _ _ _ Hat) as Hat1.
        rewrite (at_eq_cons _ _ _ _ Hat1). step_rd Hat1. step_fwd1 Hat1.
        rewrite (esc_val_not_u e v Ev).
        rewrite (IH f b (p + 1 + 1) l Hs (at_cons _ _ _ _ Hat1)) by lia. f_equal. lia.
      + rewrite (at_lt_cons _ _ _ _ Hat). step_rd Hat. step_fwd1 Hat.
        change (92 =? 34)%N with false. change (92 =? 92)%N with true. cbn iota.
        pose proof (at_cons _ _ _ _ Hat) as Hat1.
        rewrite (at_eq_cons _ _ _ _ Hat1). step_rd Hat1. step_fwd1 Hat1.
        change (117 =? 117)%N with true. cbn iota.
        pose proof (at_cons _ _ _ _ Hat1) as Hat2.
        assert (E4 : (length b - (p + 1 + 1) <? 4) = false).
        { apply at_len in Hat2. cbn [length] in Hat2. apply Nat.ltb_ge. lia. }
        rewrite E4. rewrite (at_fwd _ _ 4 _ Hat2) by (cbn [length]; lia). cbn [bind].
        pose proof (at_app b (p + 1 + 1) [h1; h2; h3; h4] _ Hat2) as Hat3. cbn [length] in Hat3.
        rewrite (IH f b (p + 1 + 1 + 4) l Hs Hat3) by lia. f_equal. lia.
  Qed.

  Lemma skip_string_at s b p l : wf_string s = true -> at_ b p (render_string s ++ l) ->
    skip_string b p = Ok (p + length (render_string s)).
  Proof.
    intros Hs Hat. unfold skip_string. unfold render_string in Hat.
    cbn [app] in Hat. rewrite <- app_assoc in Hat. cbn [app] in Hat.
    step_fwd1 Hat. pose proof (at_cons _ _ _ _ Hat) as Hat1.
    rewrite (str_loop_at s _ b (p + 1) l Hs Hat1).
    - rewrite render_string_length. f_equal. lia.
    - apply at_len in Hat1. rewrite app_length in Hat1. lia.
  Qed.

  (* ---- skip_number ---- *)
  Lemma num_loop_at d : forall fuel b p l, forallb num_byte d = true -> value_end_ok l = true ->
    at_ b p (d ++ l) -> fuel > length d ->
    num_loop numchars b fuel p = Ok (p + length d).
  Proof.
    induction d as [|x d IH]; intros fuel b p l Hd Hl Hat Hf.
    - destruct fuel as [|f]; [cbn in Hf; lia|]. cbn [num_loop app length] in *.
      rewrite Nat.add_0_r. destruct l as [|c l].
      + rewrite (at_lt_nil _ _ Hat). reflexivity.
      + rewrite (at_lt_cons _ _ _ _ Hat). step_rd Hat. rewrite T_num.
        cbn [value_end_ok] in Hl. apply negb_true_iff in Hl. rewrite Hl. reflexivity.
    - destruct fuel as [|f]; [cbn in Hf; lia|]. cbn [num_loop app length] in *.
      cbn [forallb] in Hd. apply andb_true_iff in Hd. destruct Hd as [Hx Hd].
      rewrite (at_lt_cons _ _ _ _ Hat). step_rd Hat. rewrite T_num, Hx. cbn [orb]. step_fwd1 Hat.
      rewrite (IH f b (p + 1) l Hd Hl (at_cons _ _ _ _ Hat)) by lia. f_equal. lia.
  Qed.

  Lemma skip_number_at d b p l : forallb num_byte d = true -> value_end_ok l = true ->
    at_ b p (d ++ l) -> skip_number numchars b p = Ok (p + length d).
  Proof.
    intros Hd Hl Hat. unfold skip_number. apply (num_loop_at d _ b p l Hd Hl Hat).
    apply at_len in Hat. rewrite app_length in Hat. lia.
  Qed.

  (* ---- separators end a value; a value starts with a non-blank ---- *)
  Lemma value_end_sep wa c x : is_wsl wa = true -> (c = 44 \/ c = 93 \/ c = 125)%N ->
    value_end_ok (wa ++ c :: x) = true.
  Proof.
    intros Hw Hc. destruct wa as [|y wa].
    - cbn [app value_end_ok]. destruct Hc as [-> | [-> | ->]]; reflexivity.
    - cbn [app value_end_ok]. cbn [is_wsl forallb] in Hw. apply andb_true_iff in Hw.
      destruct Hw as [Hy _]. unfold ws_byte in Hy. repeat rewrite orb_true_iff in Hy.
      repeat rewrite N.eqb_eq in Hy. destruct Hy as [[[->| ->]| ->]| ->]; reflexivity.
  Qed.

  Lemma head_nows_value v x : wf v = true -> head_nows (render v ++ x).
  Proof. intros H. destruct (render_head v H) as (c & r & -> & Hc & _). exact Hc. Qed.

  Lemma tail_elems_cons wb v wa r x :
    tail_elems (Elem wb v wa :: r) ++ x = 44%N :: wb ++ render v ++ wa ++ tail_elems r ++ x.
  Proof.
    unfold tail_elems. cbn [flat_map render_elem]. cbn [app]. rewrite <- !app_assoc. reflexivity.
  Qed.
  Lemma tail_elems_cons_len wb v wa r :
    length (tail_elems (Elem wb v wa :: r)) =
    1 + length wb + length (render v) + length wa + length (tail_elems r).
  Proof.
    rewrite <- (app_nil_r (tail_elems (Elem wb v wa :: r))). rewrite tail_elems_cons.
    cbn [length]. rewrite !app_length. cbn [length]. lia.
  Qed.
  Lemma tail_members_cons wb n wn wv v wa r x :
    tail_members (Member wb n wn wv v wa :: r) ++ x =
    44%N :: wb ++ render_string n ++ wn ++ 58%N :: wv ++ render v ++ wa ++ tail_members r ++ x.
  Proof.
    unfold tail_members. cbn [flat_map render_member]. cbn [app]. rewrite <- !app_assoc.
    cbn [app]. rewrite <- !app_assoc. reflexivity.
  Qed.
  Lemma tail_members_cons_len wb n wn wv v wa r :
    length (tail_members (Member wb n wn wv v wa :: r)) =
    1 + length wb + length (render_string n) + length wn + 1 + length wv + length (render v)
    + length wa + length (tail_members r).
  Proof.
    rewrite <- (app_nil_r (tail_members (Member wb n wn wv v wa :: r))). rewrite tail_members_cons.
    cbn [length]. rewrite !app_length. cbn [length]. rewrite !app_length. cbn [length]. lia.
  Qed.

  (* ---- containers, for a skip_value that is right above p0 ---- *)
  Section Cont.
    Variable b : list N.
    Variable sv : nat -> res nat.
    Variable p0 : nat.
    Hypothesis sv_at : forall p v l, wf v = true -> value_end_ok l = true ->
      at_ b p (render v ++ l) -> p0 < p -> sv p = Ok (p + length (render v)).

    Lemma arr_loop_at es : forall g p v wa l,
      wf v = true -> is_wsl wa = true -> forallb wf_elem es = true ->
      at_ b p (render v ++ wa ++ tail_elems es ++ 93%N :: l) -> p0 < p -> g > length b - p ->
      arr_loop wsbytes true b sv g p =
      Ok (p + length (render v) + length wa + length (tail_elems es) + 1).
    Proof.
      induction es as [|[wb v' wa'] r IH]; intros g p v wa l Hv Hwa Hes Hat Hp Hg.
      - destruct g as [|g]; [lia|]. cbn [arr_loop]. cbn [tail_elems flat_map app length] in *.
        rewrite (sv_at p v _ Hv (value_end_sep wa 93 l Hwa (or_intror (or_introl eq_refl))) Hat Hp).
        cbn [bind]. pose proof (at_app _ _ _ _ Hat) as Hat1.
        rewrite (skip_ws_at wa b _ _ Hwa Hat1) by exact eq_refl. cbn [bind].
        pose proof (at_app _ _ _ _ Hat1) as Hat2.
        rewrite (at_eq_cons _ _ _ _ Hat2). step_rd Hat2. change (93 =? 93)%N with true. cbn iota.
        rewrite (at_fwd _ _ 1 _ Hat2) by (cbn [length]; lia). f_equal. lia.
      - destruct g as [|g]; [lia|]. cbn [arr_loop].
        cbn [forallb wf_elem] in Hes. apply andb_true_iff in Hes. destruct Hes as [He Hr].
        apply andb_true_iff in He. destruct He as [He Hwa']. apply andb_true_iff in He.
        destruct He as [Hwb Hv'].
        rewrite tail_elems_cons in Hat. rewrite tail_elems_cons_len.
        rewrite (sv_at p v _ Hv (value_end_sep wa 44 _ Hwa (or_introl eq_refl)) Hat Hp).
        cbn [bind]. pose proof (at_app _ _ _ _ Hat) as Hat1.
        rewrite (skip_ws_at wa b _ _ Hwa Hat1) by exact eq_refl. cbn [bind].
        pose proof (at_app _ _ _ _ Hat1) as Hat2.
        rewrite (at_eq_cons _ _ _ _ Hat2). step_rd Hat2. change (44 =? 93)%N with false. cbn iota.
        cbn [bind]. step_fwd1 Hat2. change (negb (44 =? 44)%N) with false. cbn iota.
        pose proof (at_cons _ _ _ _ Hat2) as Hat3.
        rewrite (skip_ws_at wb b _ _ Hwb Hat3) by (apply head_nows_value; assumption). cbn [bind].
        pose proof (at_app _ _ _ _ Hat3) as Hat4.
        pose proof (at_len _ _ _ Hat2) as HL. cbn [length] in HL.
        rewrite (IH g _ v' wa' l Hv' Hwa' Hr Hat4) by lia. f_equal. lia.
    Qed.

    Lemma skip_array_at w es g p l :
      is_wsl w = true -> forallb wf_elem es = true ->
      at_ b p (render (JArr w es) ++ l) -> p0 <= p -> g > length b - (p + 1) ->
      skip_array wsbytes true b sv g p = Ok (p + length (render (JArr w es))).
    Proof.
      intros Hw Hes Hat Hp Hg. unfold skip_array. cbn [render] in *.
      destruct es as [|[wb v wa] r].
      - cbn [map join_comma app] in *. rewrite <- app_assoc in Hat. cbn [app] in Hat.
        step_fwd1 Hat. pose proof (at_cons _ _ _ _ Hat) as Hat1.
        rewrite (skip_ws_at w b _ _ Hw Hat1) by exact eq_refl. cbn [bind].
        pose proof (at_app _ _ _ _ Hat1) as Hat2.
        rewrite (at_eq_cons _ _ _ _ Hat2). step_rd Hat2. change (93 =? 93)%N with true. cbn iota.
        rewrite (at_fwd _ _ 1 _ Hat2) by (cbn [length]; lia). f_equal.
        cbn [length]. rewrite app_length. cbn [length]. lia.
      - cbn [forallb wf_elem] in Hes. apply andb_true_iff in Hes. destruct Hes as [He Hr].
        apply andb_true_iff in He. destruct He as [He Hwa]. apply andb_true_iff in He.
        destruct He as [Hwb Hv].
        rewrite join_comma_elems in *. cbn [render_elem] in *.
        cbn [app] in Hat. rewrite <- !app_assoc in Hat. cbn [app] in Hat.
        step_fwd1 Hat. pose proof (at_cons _ _ _ _ Hat) as Hat1.
        rewrite (app_assoc w wb) in Hat1.
        assert (Hww : is_wsl (w ++ wb) = true) by (rewrite is_wsl_app, Hw, Hwb; reflexivity).
        rewrite (skip_ws_at (w ++ wb) b _ _ Hww Hat1) by (apply head_nows_value; assumption). cbn [bind].
        pose proof (at_app _ _ _ _ Hat1) as Hat2.
        destruct (render_head v Hv) as (c & rv & Erv & _ & Hc93).
        assert (Hat2' := Hat2). rewrite Erv in Hat2'. cbn [app] in Hat2'.
        rewrite (at_eq_cons _ _ _ _ Hat2'). step_rd Hat2'. rewrite Hc93.
        rewrite app_length in *.
        rewrite (arr_loop_at r g _ v wa l Hv Hwa Hr Hat2) by lia. f_equal.
        cbn [length]. repeat (rewrite app_length; cbn [length]). lia.
    Qed.

    Lemma obj_loop_at ms : forall g p n wn wv v wa l,
      wf_string n = true -> is_wsl wn = true -> is_wsl wv = true -> wf v = true ->
      is_wsl wa = true -> forallb wf_member ms = true ->
      at_ b p (render_string n ++ wn ++ 58%N :: wv ++ render v ++ wa ++ tail_members ms ++ 125%N :: l) ->
      p0 < p -> g > length b - p ->
      obj_loop wsbytes true true b sv g p =
      Ok (p + length (render_string n) + length wn + 1 + length wv + length (render v) + length wa
          + length (tail_members ms) + 1).
    Proof.
      induction ms as [|[wb' n' wn' wv' v' wa'] r IH]; intros g p n wn wv v wa l Hn Hwn Hwv Hv Hwa Hms Hat Hp Hg.
      - destruct g as [|g]; [lia|]. cbn [obj_loop]. cbn [tail_members flat_map app length] in *.
        rewrite (skip_string_at n b p _ Hn Hat). cbn [bind].
        pose proof (at_app _ _ _ _ Hat) as Hat1.
        rewrite (skip_ws_at wn b _ _ Hwn Hat1) by exact eq_refl. cbn [bind].
        pose proof (at_app _ _ _ _ Hat1) as Hat2.
        rewrite (at_eq_cons _ _ _ _ Hat2). step_rd Hat2. step_fwd1 Hat2.
        change (negb (58 =? 58)%N) with false. cbn iota.
        pose proof (at_cons _ _ _ _ Hat2) as Hat3.
        rewrite (skip_ws_at wv b _ _ Hwv Hat3) by (apply head_nows_value; assumption). cbn [bind].
        pose proof (at_app _ _ _ _ Hat3) as Hat4.
        rewrite (sv_at _ v _ Hv (value_end_sep wa 125 l Hwa (or_intror (or_intror eq_refl))) Hat4) by lia.
        cbn [bind]. pose proof (at_app _ _ _ _ Hat4) as Hat5.
        rewrite (skip_ws_at wa b _ _ Hwa Hat5) by exact eq_refl. cbn [bind].
        pose proof (at_app _ _ _ _ Hat5) as Hat6.
        rewrite (at_eq_cons _ _ _ _ Hat6). step_rd Hat6. change (125 =? 125)%N with true. cbn iota.
        rewrite (at_fwd _ _ 1 _ Hat6) by (cbn [length]; lia). f_equal. lia.
      - destruct g as [|g]; [lia|]. cbn [obj_loop].
        cbn [forallb wf_member] in Hms. apply andb_true_iff in Hms. destruct Hms as [Hm Hr].
        repeat (apply andb_true_iff in Hm; let H := fresh "Hm" in destruct Hm as [Hm H]).
        rewrite tail_members_cons in Hat. rewrite tail_members_cons_len.
        rewrite (skip_string_at n b p _ Hn Hat). cbn [bind].
        pose proof (at_app _ _ _ _ Hat) as Hat1.
        rewrite (skip_ws_at wn b _ _ Hwn Hat1) by exact eq_refl. cbn [bind].
        pose proof (at_app _ _ _ _ Hat1) as Hat2.
        rewrite (at_eq_cons _ _ _ _ Hat2). step_rd Hat2. step_fwd1 Hat2.
        change (negb (58 =? 58)%N) with false. cbn iota.
        pose proof (at_cons _ _ _ _ Hat2) as Hat3.
        rewrite (skip_ws_at wv b _ _ Hwv Hat3) by (apply head_nows_value; assumption). cbn [bind].
        pose proof (at_app _ _ _ _ Hat3) as Hat4.
        rewrite (sv_at _ v _ Hv (value_end_sep wa 44 _ Hwa (or_introl eq_refl)) Hat4) by lia.
        cbn [bind]. pose proof (at_app _ _ _ _ Hat4) as Hat5.
        rewrite (skip_ws_at wa b _ _ Hwa Hat5) by exact eq_refl. cbn [bind].
        pose proof (at_app _ _ _ _ Hat5) as Hat6.
        rewrite (at_eq_cons _ _ _ _ Hat6). step_rd Hat6. change (44 =? 125)%N with false. cbn iota.
        cbn [bind]. step_fwd1 Hat6. change (negb (44 =? 44)%N) with false. cbn iota.
        pose proof (at_cons _ _ _ _ Hat6) as Hat7.
        rewrite (skip_ws_at wb' b _ _ Hm Hat7) by exact eq_refl. cbn [bind].
        pose proof (at_app _ _ _ _ Hat7) as Hat8.
        assert (Hat8' := Hat8). unfold render_string in Hat8'. cbn [app] in Hat8'.
        rewrite (at_eq_cons _ _ _ _ Hat8'). cbn [andb].
        pose proof (at_len _ _ _ Hat6) as HL. cbn [length] in HL.
        rewrite (IH g _ n' wn' wv' v' wa' l Hm3 Hm2 Hm1 Hm0 Hm4 Hr Hat8) by lia. f_equal. lia.
    Qed.
  End Cont.
End Correct.
