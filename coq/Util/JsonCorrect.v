(* C17 (M5) for util/json.c: on the rendering of every well-formed JSON value, with every choice
   of insignificant whitespace and of escapes, skip_value lands exactly behind the value, and
   json_find on an object returns what JsonSpec.find_spec says.

   The heavy part is parametric in the tables of the C text; what it needs from them is stated
   as five hypotheses (T_ws, T_num, T_lit, T_esc, and the literals' safety rows are not needed
   here) which are discharged for the regenerated tables at the end of the file. *)
From Coq Require Import Arith NArith List Lia Bool.
From LCP Require Import Base.CheckedMem Gen.Repo_json Util.Json Util.JsonSpec Util.JsonRepo Util.JsonRfc.
Import ListNotations.
Local Open Scope res_scope.

(* ---- "the bytes of b from offset p on are l" ---- *)
Definition at_ (b : list N) (p : nat) (l : list N) : Prop :=
  exists pre, b = pre ++ l /\ length pre = p.

Lemma at_len b p l : at_ b p l -> length b = p + length l.
Proof. intros (pre & -> & <-). apply app_length. Qed.

Lemma at_rd b p c l : at_ b p (c :: l) -> rd b p = Ok c.
Proof.
  intros (pre & -> & <-). unfold rd. rewrite nth_error_app2 by lia.
  rewrite Nat.sub_diag. reflexivity.
Qed.

Lemma at_app b p x l : at_ b p (x ++ l) -> at_ b (p + length x) l.
Proof.
  intros (pre & -> & <-). exists (pre ++ x). split; [apply app_assoc|apply app_length].
Qed.

Lemma at_cons b p c l : at_ b p (c :: l) -> at_ b (p + 1) l.
Proof. intros H. apply (at_app b p [c] l). exact H. Qed.

Lemma at_fwd b p n l : at_ b p l -> n <= length l -> fwd b p n = Ok (p + n).
Proof.
  intros H Hn. apply at_len in H. unfold fwd.
  assert (E : (p + n <=? length b) = true) by (apply Nat.leb_le; lia). rewrite E. reflexivity.
Qed.

Lemma at_zero b : at_ b 0 b.
Proof. exists []. split; reflexivity. Qed.

Lemma at_intro pre l : at_ (pre ++ l) (length pre) l.
Proof. exists pre. split; reflexivity. Qed.

(* booleans of the model's pointer comparisons, from the suffix *)
Lemma at_lt_cons b p c l : at_ b p (c :: l) -> (p <? length b) = true.
Proof. intros H. apply at_len in H. cbn in H. apply Nat.ltb_lt. lia. Qed.
Lemma at_lt_nil b p : at_ b p [] -> (p <? length b) = false.
Proof. intros H. apply at_len in H. cbn in H. apply Nat.ltb_ge. lia. Qed.
Lemma at_eq_cons b p c l : at_ b p (c :: l) -> (p =? length b) = false.
Proof. intros H. apply at_len in H. cbn in H. apply Nat.eqb_neq. lia. Qed.
Lemma at_eq_nil b p : at_ b p [] -> (p =? length b) = true.
Proof. intros H. apply at_len in H. cbn in H. apply Nat.eqb_eq. lia. Qed.

Lemma at_eq_string b p n x : at_ b p (render_string n ++ x) -> (p =? length b) = false.
Proof. intros H. unfold render_string in H. cbn [app] in H. exact (at_eq_cons _ _ _ _ H). Qed.

(* step over one byte: *buf++ *)
Ltac step_rd H :=
  rewrite (at_rd _ _ _ _ H); cbn [bind].
Ltac step_fwd1 H :=
  rewrite (at_fwd _ _ 1 _ H) by (cbn [length]; lia); cbn [bind].

(* ---- facts about the spec's byte classes ---- *)
Definition head_nows (l : list N) : Prop :=
  match l with [] => True | c :: _ => ws_byte c = false end.

Lemma esc_val_not_u e v : esc_val e = Some v -> (e =? 117)%N = false.
Proof.
  intros H. destruct (e =? 117)%N eqn:E; [|reflexivity].
  apply N.eqb_eq in E. subst. vm_compute in H. discriminate.
Qed.

Lemma esc_val_nonzero e v : esc_val e = Some v -> v <> 0%N.
Proof.
  unfold esc_val. repeat (destruct (e =? _)%N; [intros H; inversion H; discriminate|]).
  discriminate.
Qed.

Lemma num_byte_facts c : num_byte c = true ->
  ws_byte c = false /\ (c =? 93)%N = false /\ (c =? 125)%N = false /\
  ((c =? 102)%N || (c =? 110)%N || (c =? 116)%N) = false /\ (c =? 34)%N = false /\
  (c =? 91)%N = false /\ (c =? 123)%N = false.
Proof.
  unfold num_byte, ws_byte. intros H.
  repeat rewrite orb_true_iff in H. rewrite andb_true_iff in H.
  repeat rewrite N.eqb_eq in H. rewrite !N.leb_le in H.
  repeat split; repeat (apply orb_false_iff; split); apply N.eqb_neq; lia.
Qed.

Lemma is_wsl_app w1 w2 : is_wsl (w1 ++ w2) = is_wsl w1 && is_wsl w2.
Proof. apply forallb_app. Qed.

(* what a rendered well-formed value starts with *)
Lemma render_head v : wf v = true ->
  exists c r, render v = c :: r /\ ws_byte c = false /\ (c =? 93)%N = false.
Proof.
  destruct v as [k|t|s|w es|w ms]; intros H.
  - destruct k; eexists; eexists; (split; [reflexivity|split; reflexivity]).
  - cbn [wf] in H. destruct t as [|c r]; [discriminate|]. cbn [negb andb forallb] in H.
    apply andb_true_iff in H. destruct H as [Hc _].
    destruct (num_byte_facts c Hc) as (H1 & H2 & _). exists c, r. auto.
  - eexists; eexists; (split; [reflexivity|split; reflexivity]).
  - eexists; eexists; (split; [reflexivity|split; reflexivity]).
  - eexists; eexists; (split; [reflexivity|split; reflexivity]).
Qed.

Lemma render_string_length s : length (render_string s) = length (render_items s) + 2.
Proof. unfold render_string. cbn [length]. rewrite app_length. cbn [length]. lia. Qed.

Definition tail_elems (es : list jelem) : list N := flat_map (fun e => 44%N :: render_elem e) es.
Definition tail_members (ms : list jmember) : list N := flat_map (fun m => 44%N :: render_member m) ms.

Lemma join_comma_elems e es :
  join_comma (map render_elem (e :: es)) = render_elem e ++ tail_elems es.
Proof.
  revert e. induction es as [|e' r IH]; intros e.
  - cbn. rewrite app_nil_r. reflexivity.
  - change (join_comma (map render_elem (e :: e' :: r)))
      with (render_elem e ++ 44%N :: join_comma (map render_elem (e' :: r))).
    rewrite IH. reflexivity.
Qed.

Lemma join_comma_members m ms :
  join_comma (map render_member (m :: ms)) = render_member m ++ tail_members ms.
Proof.
  revert m. induction ms as [|m' r IH]; intros m.
  - cbn. rewrite app_nil_r. reflexivity.
  - change (join_comma (map render_member (m :: m' :: r)))
      with (render_member m ++ 44%N :: join_comma (map render_member (m' :: r))).
    rewrite IH. reflexivity.
Qed.

Section Correct.
  Variable numchars wsbytes : list N.
  Variable literals : list (nat * list N * nat * nat).
  Variable escapes : list (N * N).

  (* what the proof needs from the tables of the C text *)
  Hypothesis T_ws : forall c, is_ws wsbytes c = ws_byte c.
  Hypothesis T_num : forall c, is_numchar numchars c = num_byte c || (c =? 0)%N.
  Hypothesis T_lit : forall k b p l, at_ b p (lit_text k ++ l) ->
    skip_literal literals b p = Ok (p + length (lit_text k)).
  Hypothesis T_esc : forall e, assoc e escapes = esc_val e.

  (* ---- skip_ws ---- *)
  Lemma ws_loop_at w : forall fuel b p l, is_wsl w = true -> head_nows l ->
    at_ b p (w ++ l) -> fuel > length w ->
    ws_loop wsbytes b fuel p = Ok (p + length w).
  Proof.
    induction w as [|x w IH]; intros fuel b p l Hw Hl Hat Hf.
    - destruct fuel as [|f]; [cbn in Hf; lia|]. cbn [ws_loop app length] in *.
      rewrite Nat.add_0_r. destruct l as [|c l].
      + rewrite (at_lt_nil _ _ Hat). reflexivity.
      + rewrite (at_lt_cons _ _ _ _ Hat). step_rd Hat. rewrite T_ws. cbn in Hl. rewrite Hl. reflexivity.
    - destruct fuel as [|f]; [cbn in Hf; lia|]. cbn [ws_loop app length] in *.
      cbn [is_wsl forallb] in Hw. apply andb_true_iff in Hw. destruct Hw as [Hx Hw].
      rewrite (at_lt_cons _ _ _ _ Hat). step_rd Hat. rewrite T_ws, Hx. step_fwd1 Hat.
      rewrite (IH f b (p + 1) l Hw Hl (at_cons _ _ _ _ Hat)) by lia. f_equal. lia.
  Qed.

  Lemma skip_ws_at w b p l : is_wsl w = true -> at_ b p (w ++ l) -> head_nows l ->
    skip_ws wsbytes b p = Ok (p + length w).
  Proof.
    intros Hw Hat Hl. unfold skip_ws. apply (ws_loop_at w _ b p l Hw Hl Hat).
    apply at_len in Hat. rewrite app_length in Hat. lia.
  Qed.

  (* ---- skip_string ---- *)
  Lemma str_loop_at s : forall fuel b p l, wf_string s = true ->
    at_ b p (render_items s ++ 34%N :: l) -> fuel > length (render_items s) ->
    str_loop b fuel p = Ok (p + length (render_items s) + 1).
  Proof.
    induction s as [|i s IH]; intros fuel b p l Hs Hat Hf.
    - destruct fuel as [|f]; [lia|]. cbn [render_items flat_map app length str_loop] in *.
      rewrite (at_lt_cons _ _ _ _ Hat). step_rd Hat. step_fwd1 Hat. cbn. f_equal. lia.
    - destruct fuel as [|f]; [lia|].
      cbn [wf_string forallb] in Hs. apply andb_true_iff in Hs. destruct Hs as [Hi Hs].
      change (render_items (i :: s)) with (render_item i ++ render_items s) in *.
      rewrite app_length in *. rewrite <- app_assoc in Hat.
      cbn [str_loop]. destruct i as [c|e|h1 h2 h3 h4]; cbn [render_item app length] in *.
      + cbn [wf_item] in Hi. apply andb_true_iff in Hi. destruct Hi as [Hi H92].
        apply andb_true_iff in Hi. destruct Hi as [_ H34]. apply negb_true_iff in H34, H92.
        rewrite (at_lt_cons _ _ _ _ Hat). step_rd Hat. step_fwd1 Hat. rewrite H34, H92.
        rewrite (IH f b (p + 1) l Hs (at_cons _ _ _ _ Hat)) by lia. f_equal. lia.
      + cbn [wf_item] in Hi. destruct (esc_val e) as [v|] eqn:Ev; [|discriminate].
        rewrite (at_lt_cons _ _ _ _ Hat). step_rd Hat. step_fwd1 Hat.
        change (92 =? 34)%N with false. change (92 =? 92)%N with true. cbn iota.
        pose proof (at_cons _ _ _ _ Hat) as Hat1.
        rewrite (at_eq_cons _ _ _ _ Hat1). step_rd Hat1. step_fwd1 Hat1.
        rewrite (esc_val_not_u e v Ev).
        rewrite (IH f b (p + 1 + 1) l Hs (at_cons _ _ _ _ Hat1)) by lia. f_equal. lia.
      + rewrite (at_lt_cons _ _ _ _ Hat). step_rd Hat. step_fwd1 Hat.
        change (92 =? 34)%N with false. change (92 =? 92)%N with true. cbn iota.
        pose proof (at_cons _ _ _ _ Hat) as Hat1.
        rewrite (at_eq_cons _ _ _ _ Hat1). step_rd Hat1. step_fwd1 Hat1.
        change (117 =? 117)%N with true. cbn iota.
        pose proof (at_cons _ _ _ _ Hat1) as Hat2.
        assert (E4 : (length b - (p + 1 + 1) <? 4) = false).
        { apply at_len in Hat2. cbn [length] in Hat2. apply Nat.ltb_ge. lia. }
        rewrite E4. rewrite (at_fwd _ _ 4 _ Hat2) by (cbn [length]; lia). cbn [bind].
        pose proof (at_app b (p + 1 + 1) [h1; h2; h3; h4] _ Hat2) as Hat3. cbn [length] in Hat3.
        rewrite (IH f b (p + 1 + 1 + 4) l Hs Hat3) by lia. f_equal. lia.
  Qed.

  Lemma skip_string_at s b p l : wf_string s = true -> at_ b p (render_string s ++ l) ->
    skip_string b p = Ok (p + length (render_string s)).
  Proof.
    intros Hs Hat. unfold skip_string. unfold render_string in Hat.
    cbn [app] in Hat. rewrite <- app_assoc in Hat. cbn [app] in Hat.
    step_fwd1 Hat. pose proof (at_cons _ _ _ _ Hat) as Hat1.
    rewrite (str_loop_at s _ b (p + 1) l Hs Hat1).
    - rewrite render_string_length. f_equal. lia.
    - apply at_len in Hat1. rewrite app_length in Hat1. lia.
  Qed.

  (* ---- skip_number ---- *)
  Lemma num_loop_at d : forall fuel b p l, forallb num_byte d = true -> value_end_ok l = true ->
    at_ b p (d ++ l) -> fuel > length d ->
    num_loop numchars b fuel p = Ok (p + length d).
  Proof.
    induction d as [|x d IH]; intros fuel b p l Hd Hl Hat Hf.
    - destruct fuel as [|f]; [cbn in Hf; lia|]. cbn [num_loop app length] in *.
      rewrite Nat.add_0_r. destruct l as [|c l].
      + rewrite (at_lt_nil _ _ Hat). reflexivity.
      + rewrite (at_lt_cons _ _ _ _ Hat). step_rd Hat. rewrite T_num.
        cbn [value_end_ok] in Hl. apply negb_true_iff in Hl. rewrite Hl. reflexivity.
    - destruct fuel as [|f]; [cbn in Hf; lia|]. cbn [num_loop app length] in *.
      cbn [forallb] in Hd. apply andb_true_iff in Hd. destruct Hd as [Hx Hd].
      rewrite (at_lt_cons _ _ _ _ Hat). step_rd Hat. rewrite T_num, Hx. cbn [orb]. step_fwd1 Hat.
      rewrite (IH f b (p + 1) l Hd Hl (at_cons _ _ _ _ Hat)) by lia. f_equal. lia.
  Qed.

  Lemma skip_number_at d b p l : forallb num_byte d = true -> value_end_ok l = true ->
    at_ b p (d ++ l) -> skip_number numchars b p = Ok (p + length d).
  Proof.
    intros Hd Hl Hat. unfold skip_number. apply (num_loop_at d _ b p l Hd Hl Hat).
    apply at_len in Hat. rewrite app_length in Hat. lia.
  Qed.

  (* ---- separators end a value; a value starts with a non-blank ---- *)
  Lemma value_end_sep wa c x : is_wsl wa = true -> (c = 44 \/ c = 93 \/ c = 125)%N ->
    value_end_ok (wa ++ c :: x) = true.
  Proof.
    intros Hw Hc. destruct wa as [|y wa].
    - cbn [app value_end_ok]. destruct Hc as [-> | [-> | ->]]; reflexivity.
    - cbn [app value_end_ok]. cbn [is_wsl forallb] in Hw. apply andb_true_iff in Hw.
      destruct Hw as [Hy _]. unfold ws_byte in Hy. repeat rewrite orb_true_iff in Hy.
      repeat rewrite N.eqb_eq in Hy. destruct Hy as [[[->| ->]| ->]| ->]; reflexivity.
  Qed.

  Lemma head_nows_value v x : wf v = true -> head_nows (render v ++ x).
  Proof. intros H. destruct (render_head v H) as (c & r & -> & Hc & _). exact Hc. Qed.

  Lemma tail_elems_cons wb v wa r x :
    tail_elems (Elem wb v wa :: r) ++ x = 44%N :: wb ++ render v ++ wa ++ tail_elems r ++ x.
  Proof.
    unfold tail_elems. cbn [flat_map render_elem]. cbn [app]. rewrite <- !app_assoc. reflexivity.
  Qed.
  Lemma tail_elems_cons_len wb v wa r :
    length (tail_elems (Elem wb v wa :: r)) =
    1 + length wb + length (render v) + length wa + length (tail_elems r).
  Proof.
    rewrite <- (app_nil_r (tail_elems (Elem wb v wa :: r))). rewrite tail_elems_cons.
    cbn [length]. rewrite !app_length. cbn [length]. lia.
  Qed.
  Lemma tail_members_cons wb n wn wv v wa r x :
    tail_members (Member wb n wn wv v wa :: r) ++ x =
    44%N :: wb ++ render_string n ++ wn ++ 58%N :: wv ++ render v ++ wa ++ tail_members r ++ x.
  Proof.
    unfold tail_members. cbn [flat_map render_member]. cbn [app]. rewrite <- !app_assoc.
    cbn [app]. rewrite <- !app_assoc. reflexivity.
  Qed.
  Lemma tail_members_cons_len wb n wn wv v wa r :
    length (tail_members (Member wb n wn wv v wa :: r)) =
    1 + length wb + length (render_string n) + length wn + 1 + length wv + length (render v)
    + length wa + length (tail_members r).
  Proof.
    rewrite <- (app_nil_r (tail_members (Member wb n wn wv v wa :: r))). rewrite tail_members_cons.
    cbn [length]. rewrite !app_length. cbn [length]. rewrite !app_length. cbn [length]. lia.
  Qed.

  (* ---- containers, for a skip_value that is right above p0 ---- *)
  Section Cont.
    Variable b : list N.
    Variable sv : nat -> res nat.
    Variable p0 : nat.
    Hypothesis sv_at : forall p v l, wf v = true -> value_end_ok l = true ->
      at_ b p (render v ++ l) -> p0 < p -> sv p = Ok (p + length (render v)).

    Lemma arr_loop_at es : forall g p v wa l,
      wf v = true -> is_wsl wa = true -> forallb wf_elem es = true ->
      at_ b p (render v ++ wa ++ tail_elems es ++ 93%N :: l) -> p0 < p -> g > length b - p ->
      arr_loop wsbytes true b sv g p =
      Ok (p + length (render v) + length wa + length (tail_elems es) + 1).
    Proof.
      induction es as [|[wb v' wa'] r IH]; intros g p v wa l Hv Hwa Hes Hat Hp Hg.
      - destruct g as [|g]; [lia|]. cbn [arr_loop]. cbn [tail_elems flat_map app length] in *.
        rewrite (sv_at p v _ Hv (value_end_sep wa 93 l Hwa (or_intror (or_introl eq_refl))) Hat Hp).
        cbn [bind]. pose proof (at_app _ _ _ _ Hat) as Hat1.
        rewrite (skip_ws_at wa b _ _ Hwa Hat1) by exact eq_refl. cbn [bind].
        pose proof (at_app _ _ _ _ Hat1) as Hat2.
        rewrite (at_eq_cons _ _ _ _ Hat2). step_rd Hat2. change (93 =? 93)%N with true. cbn iota.
        rewrite (at_fwd _ _ 1 _ Hat2) by (cbn [length]; lia). f_equal. lia.
      - destruct g as [|g]; [lia|]. cbn [arr_loop].
        cbn [forallb wf_elem] in Hes. apply andb_true_iff in Hes. destruct Hes as [He Hr].
        apply andb_true_iff in He. destruct He as [He Hwa']. apply andb_true_iff in He.
        destruct He as [Hwb Hv'].
        rewrite tail_elems_cons in Hat. rewrite tail_elems_cons_len.
        rewrite (sv_at p v _ Hv (value_end_sep wa 44 _ Hwa (or_introl eq_refl)) Hat Hp).
        cbn [bind]. pose proof (at_app _ _ _ _ Hat) as Hat1.
        rewrite (skip_ws_at wa b _ _ Hwa Hat1) by exact eq_refl. cbn [bind].
        pose proof (at_app _ _ _ _ Hat1) as Hat2.
        rewrite (at_eq_cons _ _ _ _ Hat2). step_rd Hat2. change (44 =? 93)%N with false. cbn iota.
        cbn [bind]. step_fwd1 Hat2. change (negb (44 =? 44)%N) with false. cbn iota.
        pose proof (at_cons _ _ _ _ Hat2) as Hat3.
        rewrite (skip_ws_at wb b _ _ Hwb Hat3) by (apply head_nows_value; assumption). cbn [bind].
        pose proof (at_app _ _ _ _ Hat3) as Hat4.
        pose proof (at_len _ _ _ Hat2) as HL. cbn [length] in HL.
        rewrite (IH g _ v' wa' l Hv' Hwa' Hr Hat4) by lia. f_equal. lia.
    Qed.

    Lemma skip_array_at w es g p l :
      is_wsl w = true -> forallb wf_elem es = true ->
      at_ b p (render (JArr w es) ++ l) -> p0 <= p -> g > length b - (p + 1) ->
      skip_array wsbytes true b sv g p = Ok (p + length (render (JArr w es))).
    Proof.
      intros Hw Hes Hat Hp Hg. unfold skip_array. cbn [render] in *.
      destruct es as [|[wb v wa] r].
      - cbn [map join_comma app] in *. rewrite <- app_assoc in Hat. cbn [app] in Hat.
        step_fwd1 Hat. pose proof (at_cons _ _ _ _ Hat) as Hat1.
        rewrite (skip_ws_at w b _ _ Hw Hat1) by exact eq_refl. cbn [bind].
        pose proof (at_app _ _ _ _ Hat1) as Hat2.
        rewrite (at_eq_cons _ _ _ _ Hat2). step_rd Hat2. change (93 =? 93)%N with true. cbn iota.
        rewrite (at_fwd _ _ 1 _ Hat2) by (cbn [length]; lia). f_equal.
        cbn [length]. rewrite app_length. cbn [length]. lia.
      - cbn [forallb wf_elem] in Hes. apply andb_true_iff in Hes. destruct Hes as [He Hr].
        apply andb_true_iff in He. destruct He as [He Hwa]. apply andb_true_iff in He.
        destruct He as [Hwb Hv].
        rewrite join_comma_elems in *. cbn [render_elem] in *.
        cbn [app] in Hat. rewrite <- !app_assoc in Hat. cbn [app] in Hat.
        step_fwd1 Hat. pose proof (at_cons _ _ _ _ Hat) as Hat1.
        rewrite (app_assoc w wb) in Hat1.
        assert (Hww : is_wsl (w ++ wb) = true) by (rewrite is_wsl_app, Hw, Hwb; reflexivity).
        rewrite (skip_ws_at (w ++ wb) b _ _ Hww Hat1) by (apply head_nows_value; assumption). cbn [bind].
        pose proof (at_app _ _ _ _ Hat1) as Hat2.
        destruct (render_head v Hv) as (c & rv & Erv & _ & Hc93).
        assert (Hat2' := Hat2). rewrite Erv in Hat2'. cbn [app] in Hat2'.
        rewrite (at_eq_cons _ _ _ _ Hat2'). step_rd Hat2'. rewrite Hc93.
        rewrite app_length in *.
        rewrite (arr_loop_at r g _ v wa l Hv Hwa Hr Hat2) by lia. f_equal.
        cbn [length]. repeat (rewrite app_length; cbn [length]). lia.
    Qed.

    Lemma obj_loop_at ms : forall g p n wn wv v wa l,
      wf_string n = true -> is_wsl wn = true -> is_wsl wv = true -> wf v = true ->
      is_wsl wa = true -> forallb wf_member ms = true ->
      at_ b p (render_string n ++ wn ++ 58%N :: wv ++ render v ++ wa ++ tail_members ms ++ 125%N :: l) ->
      p0 < p -> g > length b - p ->
      obj_loop wsbytes true true b sv g p =
      Ok (p + length (render_string n) + length wn + 1 + length wv + length (render v) + length wa
          + length (tail_members ms) + 1).
    Proof.
      induction ms as [|[wb' n' wn' wv' v' wa'] r IH]; intros g p n wn wv v wa l Hn Hwn Hwv Hv Hwa Hms Hat Hp Hg.
      - destruct g as [|g]; [lia|]. cbn [obj_loop]. cbn [tail_members flat_map app length] in *.
        rewrite (skip_string_at n b p _ Hn Hat). cbn [bind].
        pose proof (at_app _ _ _ _ Hat) as Hat1.
        rewrite (skip_ws_at wn b _ _ Hwn Hat1) by exact eq_refl. cbn [bind].
        pose proof (at_app _ _ _ _ Hat1) as Hat2.
        rewrite (at_eq_cons _ _ _ _ Hat2). step_rd Hat2. step_fwd1 Hat2.
        change (negb (58 =? 58)%N) with false. cbn iota.
        pose proof (at_cons _ _ _ _ Hat2) as Hat3.
        rewrite (skip_ws_at wv b _ _ Hwv Hat3) by (apply head_nows_value; assumption). cbn [bind].
        pose proof (at_app _ _ _ _ Hat3) as Hat4.
        rewrite (sv_at _ v _ Hv (value_end_sep wa 125 l Hwa (or_intror (or_intror eq_refl))) Hat4) by lia.
        cbn [bind]. pose proof (at_app _ _ _ _ Hat4) as Hat5.
        rewrite (skip_ws_at wa b _ _ Hwa Hat5) by exact eq_refl. cbn [bind].
        pose proof (at_app _ _ _ _ Hat5) as Hat6.
        rewrite (at_eq_cons _ _ _ _ Hat6). step_rd Hat6. change (125 =? 125)%N with true. cbn iota.
        rewrite (at_fwd _ _ 1 _ Hat6) by (cbn [length]; lia). f_equal. lia.
      - destruct g as [|g]; [lia|]. cbn [obj_loop].
        cbn [forallb wf_member] in Hms. apply andb_true_iff in Hms. destruct Hms as [Hm Hr].
        repeat (apply andb_true_iff in Hm; let H := fresh "Hm" in destruct Hm as [Hm H]).
        rewrite tail_members_cons in Hat. rewrite tail_members_cons_len.
        rewrite (skip_string_at n b p _ Hn Hat). cbn [bind].
        pose proof (at_app _ _ _ _ Hat) as Hat1.
        rewrite (skip_ws_at wn b _ _ Hwn Hat1) by exact eq_refl. cbn [bind].
        pose proof (at_app _ _ _ _ Hat1) as Hat2.
        rewrite (at_eq_cons _ _ _ _ Hat2). step_rd Hat2. step_fwd1 Hat2.
        change (negb (58 =? 58)%N) with false. cbn iota.
        pose proof (at_cons _ _ _ _ Hat2) as Hat3.
        rewrite (skip_ws_at wv b _ _ Hwv Hat3) by (apply head_nows_value; assumption). cbn [bind].
        pose proof (at_app _ _ _ _ Hat3) as Hat4.
        rewrite (sv_at _ v _ Hv (value_end_sep wa 44 _ Hwa (or_introl eq_refl)) Hat4) by lia.
        cbn [bind]. pose proof (at_app _ _ _ _ Hat4) as Hat5.
        rewrite (skip_ws_at wa b _ _ Hwa Hat5) by exact eq_refl. cbn [bind].
        pose proof (at_app _ _ _ _ Hat5) as Hat6.
        rewrite (at_eq_cons _ _ _ _ Hat6). step_rd Hat6. change (44 =? 125)%N with false. cbn iota.
        cbn [bind]. step_fwd1 Hat6. change (negb (44 =? 44)%N) with false. cbn iota.
        pose proof (at_cons _ _ _ _ Hat6) as Hat7.
        rewrite (skip_ws_at wb' b _ _ Hm Hat7) by exact eq_refl. cbn [bind].
        pose proof (at_app _ _ _ _ Hat7) as Hat8.
        rewrite (at_eq_string _ _ _ _ Hat8). cbn [andb].
        pose proof (at_len _ _ _ Hat6) as HL. cbn [length] in HL.
        rewrite (IH g _ n' wn' wv' v' wa' l Hm4 Hm3 Hm2 Hm1 Hm0 Hr Hat8) by lia. f_equal. lia.
    Qed.

    Lemma skip_object_at w ms g p l :
      is_wsl w = true -> forallb wf_member ms = true ->
      at_ b p (render (JObj w ms) ++ l) -> p0 <= p -> g > length b - (p + 1) ->
      skip_object wsbytes true true b sv g p = Ok (p + length (render (JObj w ms))).
    Proof.
      intros Hw Hms Hat Hp Hg. unfold skip_object. cbn [render] in *.
      destruct ms as [|[wb n wn wv v wa] r].
      - cbn [map join_comma app] in *. rewrite <- app_assoc in Hat. cbn [app] in Hat.
        step_fwd1 Hat. pose proof (at_cons _ _ _ _ Hat) as Hat1.
        rewrite (skip_ws_at w b _ _ Hw Hat1) by exact eq_refl. cbn [bind].
        pose proof (at_app _ _ _ _ Hat1) as Hat2.
        rewrite (at_eq_cons _ _ _ _ Hat2). step_rd Hat2. change (125 =? 125)%N with true. cbn iota.
        rewrite (at_fwd _ _ 1 _ Hat2) by (cbn [length]; lia). f_equal.
        cbn [length]. rewrite app_length. cbn [length]. lia.
      - cbn [forallb wf_member] in Hms. apply andb_true_iff in Hms. destruct Hms as [Hm Hr].
        repeat (apply andb_true_iff in Hm; let H := fresh "Hm" in destruct Hm as [Hm H]).
        rewrite join_comma_members in *. cbn [render_member] in *.
        cbn [app] in Hat. rewrite <- !app_assoc in Hat. cbn [app] in Hat.
        rewrite <- !app_assoc in Hat. cbn [app] in Hat.
        step_fwd1 Hat. pose proof (at_cons _ _ _ _ Hat) as Hat1.
        rewrite (app_assoc w wb) in Hat1.
        assert (Hww : is_wsl (w ++ wb) = true) by (rewrite is_wsl_app, Hw, Hm; reflexivity).
        rewrite (skip_ws_at (w ++ wb) b _ _ Hww Hat1) by exact eq_refl. cbn [bind].
        pose proof (at_app _ _ _ _ Hat1) as Hat2.
        rewrite (at_eq_string _ _ _ _ Hat2).
        assert (Hat2' := Hat2). unfold render_string at 1 in Hat2'. cbn [app] in Hat2'.
        step_rd Hat2'. change (34 =? 125)%N with false. cbn iota.
        rewrite app_length in *.
        rewrite (obj_loop_at r g _ n wn wv v wa l Hm4 Hm3 Hm2 Hm1 Hm0 Hr Hat2) by lia. f_equal.
        cbn [length]. repeat (rewrite app_length; cbn [length]). lia.
    Qed.
  End Cont.

  (* ---- skip_value lands exactly behind a rendered value ---- *)
  Local Notation SVF := (skip_value_f numchars wsbytes literals true true).

  Lemma skip_value_f_at fuel : forall b p v l,
    wf v = true -> value_end_ok l = true -> at_ b p (render v ++ l) -> fuel > length b - p ->
    SVF b fuel p = Ok (p + length (render v)).
  Proof.
    induction fuel as [|f IH]; intros b p v l Hv Hl Hat Hf; [lia|].
    cbn [skip_value_f].
    destruct (render_head v Hv) as (c & rv & Erv & _ & _).
    assert (Hat' := Hat). rewrite Erv in Hat'. cbn [app] in Hat'.
    pose proof (at_len _ _ _ Hat') as HL. cbn [length] in HL.
    rewrite (at_eq_cons _ _ _ _ Hat'). step_rd Hat'. clear Hat'.
    assert (Hsv : forall q v' l', wf v' = true -> value_end_ok l' = true ->
              at_ b q (render v' ++ l') -> p < q -> SVF b f q = Ok (q + length (render v'))).
    { intros q v' l' Hv' Hl' Hat' Hq. apply (IH b q v' l' Hv' Hl' Hat'). lia. }
    destruct v as [k|t|s|w es|w ms].
    - assert (Ec : ((c =? 102)%N || (c =? 110)%N || (c =? 116)%N) = true).
      { destruct k; cbn in Erv; inversion Erv; reflexivity. }
      rewrite Ec. exact (T_lit k b p l Hat).
    - cbn [render] in *. subst t. cbn [wf negb andb forallb] in Hv.
      assert (Hd := Hv). apply andb_true_iff in Hv. destruct Hv as [Hc _].
      destruct (num_byte_facts c Hc) as (_ & _ & _ & E1 & E2 & E3 & E4).
      rewrite E1, E2, E3, E4, T_num, Hc. cbn [orb].
      exact (skip_number_at (c :: rv) b p l Hd Hl Hat).
    - cbn [render] in Erv. unfold render_string in Erv. cbn [app] in Erv. inversion Erv; subst c.
      change ((34 =? 102)%N || (34 =? 110)%N || (34 =? 116)%N) with false.
      change (34 =? 34)%N with true. cbn iota.
      exact (skip_string_at s b p l Hv Hat).
    - cbn [render] in Erv. inversion Erv; subst c.
      change ((91 =? 102)%N || (91 =? 110)%N || (91 =? 116)%N) with false.
      change (91 =? 34)%N with false. change (91 =? 91)%N with true. cbn iota.
      cbn [wf] in Hv. apply andb_true_iff in Hv. destruct Hv as [Hw Hes].
      apply (skip_array_at b (SVF b f) p Hsv w es f p l Hw Hes Hat); lia.
    - cbn [render] in Erv. inversion Erv; subst c.
      change ((123 =? 102)%N || (123 =? 110)%N || (123 =? 116)%N) with false.
      change (123 =? 34)%N with false. change (123 =? 91)%N with false.
      change (123 =? 123)%N with true. cbn iota.
      cbn [wf] in Hv. apply andb_true_iff in Hv. destruct Hv as [Hw Hms].
      apply (skip_object_at b (SVF b f) p Hsv w ms f p l Hw Hms Hat); lia.
  Qed.

  Lemma skip_value_at b p v l :
    wf v = true -> value_end_ok l = true -> at_ b p (render v ++ l) ->
    skip_value numchars wsbytes literals true true b p = Ok (p + length (render v)).
  Proof.
    intros Hv Hl Hat. unfold skip_value. apply (skip_value_f_at _ b p v l Hv Hl Hat). lia.
  Qed.

  (* ---- match_str ---- *)
  (* what the loop of match_str computes over the characters of a name; ks = rest of the key *)
  Fixpoint mspec (s : jstring) (ks : list N) (found : bool) : bool :=
    match s with
    | [] => match ks with [] => found | _ :: _ => false end
    | it :: r =>
      let chf := match it with
                 | Raw c => (c, found)
                 | Esc e => (match esc_val e with Some v => v | None => 0%N end, found)
                 | Uni _ _ _ _ => (92%N, false)
                 end in
      let s0 := match ks with [] => 0%N | x :: _ => x end in
      mspec r (tl ks) (if negb (fst chf =? s0)%N then false else snd chf)
    end.

  Lemma key_rd kb k ks : no_nul ks -> at_ kb k (ks ++ [0%N]) ->
    let s0 := match ks with [] => 0%N | x :: _ => x end in
    rd kb k = Ok s0 /\
    at_ kb (if negb (s0 =? 0)%N then S k else k) (tl ks ++ [0%N]).
  Proof.
    intros Hn Hat. destruct ks as [|x ks]; cbn [app tl] in *.
    - split; [exact (at_rd _ _ _ _ Hat)|]. exact Hat.
    - split; [exact (at_rd _ _ _ _ Hat)|]. inversion Hn as [|? ? Hx _]; subst.
      apply N.eqb_neq in Hx. rewrite Hx. cbn [negb]. rewrite <- Nat.add_1_r.
      exact (at_cons _ _ _ _ Hat).
  Qed.

  Lemma no_nul_tl ks : no_nul ks -> no_nul (tl ks).
  Proof. intros H. destruct ks; [exact H|]. inversion H; assumption. Qed.

  Lemma match_loop_at s : forall fuel b p l kb k ks found,
    wf_string s = true -> no_nul ks ->
    at_ b p (render_items s ++ 34%N :: l) -> at_ kb k (ks ++ [0%N]) ->
    fuel > length (render_items s) ->
    match_loop escapes b kb fuel p k found =
    Ok (p + length (render_items s) + 1, mspec s ks found).
  Proof.
    induction s as [|i s IH]; intros fuel b p l kb k ks found Hs Hn Hat Hk Hf.
    - destruct fuel as [|f]; [lia|]. cbn [render_items flat_map app length match_loop mspec] in *.
      rewrite (at_eq_cons _ _ _ _ Hat). step_rd Hat. step_fwd1 Hat.
      change (34 =? 34)%N with true. cbn iota.
      destruct (key_rd kb k ks Hn Hk) as [E _]. rewrite E. cbn [bind].
      destruct ks as [|x ks].
      + cbn. f_equal. f_equal. lia.
      + inversion Hn as [|? ? Hx _]; subst. apply N.eqb_neq in Hx. rewrite Hx. cbn. f_equal. f_equal. lia.
    - destruct fuel as [|f]; [lia|].
      cbn [wf_string forallb] in Hs. apply andb_true_iff in Hs. destruct Hs as [Hi Hs].
      change (render_items (i :: s)) with (render_item i ++ render_items s) in *.
      rewrite app_length in *. rewrite <- app_assoc in Hat.
      destruct (key_rd kb k ks Hn Hk) as [E Hk'].
      cbn [match_loop mspec]. destruct i as [c|e|h1 h2 h3 h4]; cbn [render_item app length] in *.
      + cbn [wf_item] in Hi. apply andb_true_iff in Hi. destruct Hi as [Hi H92].
        apply andb_true_iff in Hi. destruct Hi as [_ H34]. apply negb_true_iff in H34, H92.
        rewrite (at_eq_cons _ _ _ _ Hat). step_rd Hat. step_fwd1 Hat. rewrite H34, H92.
        cbn [bind]. rewrite E. cbn [bind fst snd].
        rewrite (IH f b (p + 1) l kb _ (tl ks) _ Hs (no_nul_tl _ Hn) (at_cons _ _ _ _ Hat) Hk') by lia.
        f_equal. f_equal. lia.
      + cbn [wf_item] in Hi. destruct (esc_val e) as [v|] eqn:Ev; [|discriminate].
        rewrite (at_eq_cons _ _ _ _ Hat). step_rd Hat. step_fwd1 Hat.
        change (92 =? 34)%N with false. change (92 =? 92)%N with true. cbn iota.
        pose proof (at_cons _ _ _ _ Hat) as Hat1.
        rewrite (at_eq_cons _ _ _ _ Hat1). step_rd Hat1. step_fwd1 Hat1.
        rewrite T_esc, Ev. cbn [bind]. rewrite E. cbn [bind fst snd].
        rewrite (IH f b (p + 1 + 1) l kb _ (tl ks) _ Hs (no_nul_tl _ Hn) (at_cons _ _ _ _ Hat1) Hk') by lia.
        f_equal. f_equal. lia.
      + rewrite (at_eq_cons _ _ _ _ Hat). step_rd Hat. step_fwd1 Hat.
        change (92 =? 34)%N with false. change (92 =? 92)%N with true. cbn iota.
        pose proof (at_cons _ _ _ _ Hat) as Hat1.
        rewrite (at_eq_cons _ _ _ _ Hat1). step_rd Hat1. step_fwd1 Hat1.
        rewrite T_esc. change (esc_val 117) with (@None N). change (117 =? 117)%N with true. cbn iota.
        pose proof (at_cons _ _ _ _ Hat1) as Hat2.
        assert (E4 : (length b - (p + 1 + 1) <? 4) = false).
        { apply at_len in Hat2. cbn [length] in Hat2. apply Nat.ltb_ge. lia. }
        rewrite E4. rewrite (at_fwd _ _ 4 _ Hat2) by (cbn [length]; lia). cbn [bind].
        rewrite E. cbn [bind fst snd].
        pose proof (at_app b (p + 1 + 1) [h1; h2; h3; h4] _ Hat2) as Hat3. cbn [length] in Hat3.
        rewrite (IH f b (p + 1 + 1 + 4) l kb _ (tl ks) _ Hs (no_nul_tl _ Hn) Hat3 Hk') by lia.
        f_equal. f_equal. lia.
  Qed.

  Lemma mspec_false s : forall ks, mspec s ks false = false.
  Proof.
    induction s as [|i s IH]; intros ks; cbn [mspec]; [destruct ks; reflexivity|].
    destruct i; cbn [fst snd]; destruct (negb _); apply IH.
  Qed.

  Lemma mspec_name_is s : forall ks, wf_string s = true -> no_nul ks ->
    mspec s ks true = name_is s ks.
  Proof.
    unfold name_is. induction s as [|i s IH]; intros ks Hs Hn.
    - cbn. destruct ks; reflexivity.
    - cbn [wf_string forallb] in Hs. apply andb_true_iff in Hs. destruct Hs as [Hi Hs].
      cbn [mspec decode_name].
      assert (Hgen : forall c, c <> 0%N ->
        mspec s (tl ks) (if negb (c =? match ks with [] => 0 | x :: _ => x end)%N then false else true) =
        match option_map (cons c) (decode_name s) with Some n => bytes_eqb n ks | None => false end).
      { intros c Hc. destruct ks as [|x ks]; cbn [tl].
        - apply N.eqb_neq in Hc. rewrite Hc. cbn [negb]. rewrite mspec_false.
          destruct (decode_name s); reflexivity.
        - inversion Hn as [|? ? _ Hn']; subst. destruct (c =? x)%N eqn:Ecx; cbn [negb].
          + rewrite (IH ks Hs Hn'). destruct (decode_name s); cbn [option_map bytes_eqb]; [rewrite Ecx|]; reflexivity.
          + rewrite mspec_false. destruct (decode_name s); cbn [option_map bytes_eqb]; [rewrite Ecx|]; reflexivity. }
      destruct i as [c|e|h1 h2 h3 h4]; cbn [fst snd].
      + cbn [wf_item] in Hi. apply andb_true_iff in Hi. destruct Hi as [Hi _].
        apply andb_true_iff in Hi. destruct Hi as [H0 _]. apply negb_true_iff, N.eqb_neq in H0.
        apply Hgen. exact H0.
      + cbn [wf_item] in Hi. destruct (esc_val e) as [v|] eqn:Ev; [|discriminate].
        apply Hgen. exact (esc_val_nonzero e v Ev).
      + destruct (negb _); apply mspec_false.
  Qed.

  Lemma render_string_app n x : render_string n ++ x = 34%N :: render_items n ++ 34%N :: x.
  Proof. unfold render_string. cbn [app]. rewrite <- app_assoc. reflexivity. Qed.

  (* ---- json_find ---- *)
  Local Notation FL := (find_loop numchars wsbytes literals escapes true true).

  Lemma find_loop_at ms : forall fuel b p wb n wn wv v wa l key,
    is_wsl wb = true -> wf_string n = true -> is_wsl wn = true -> is_wsl wv = true ->
    wf v = true -> is_wsl wa = true -> forallb wf_member ms = true -> no_nul key ->
    at_ b p (wb ++ render_string n ++ wn ++ 58%N :: wv ++ render v ++ wa ++ tail_members ms ++ 125%N :: l) ->
    fuel > length b - p ->
    FL b (cstr key) fuel p =
    Ok (match find_members p (Member wb n wn wv v wa :: ms) key with Some o => o | None => length b end).
  Proof.
    induction ms as [|[wb' n' wn' wv' v' wa'] r IH];
      intros fuel b p wb n wn wv v wa l key Hwb Hn Hwn Hwv Hv Hwa Hms Hk Hat Hf.
    - destruct fuel as [|f]; [lia|]. cbn [find_loop]. cbn [tail_members flat_map app] in Hat.
      unfold scan at 1. rewrite (skip_ws_at wb b _ _ Hwb Hat) by exact eq_refl. cbn [bind].
      pose proof (at_app _ _ _ _ Hat) as Hat1. rewrite (at_eq_string _ _ _ _ Hat1).
      rewrite render_string_app in Hat1. step_rd Hat1. step_fwd1 Hat1.
      change (negb (34 =? 34)%N) with false. cbn iota. cbn [bind].
      pose proof (at_cons _ _ _ _ Hat1) as Hat2. unfold match_str.
      rewrite (match_loop_at n _ b _ _ (cstr key) 0 key true Hn Hk Hat2 (at_zero _))
        by (apply at_len in Hat2; rewrite app_length in Hat2; lia).
      cbn [bind fst snd]. pose proof (at_app _ _ _ _ Hat2) as Hat3. pose proof (at_cons _ _ _ _ Hat3) as Hat4.
      unfold scan at 1. rewrite (skip_ws_at wn b _ _ Hwn Hat4) by exact eq_refl. cbn [bind].
      pose proof (at_app _ _ _ _ Hat4) as Hat5.
      rewrite (at_eq_cons _ _ _ _ Hat5). step_rd Hat5. step_fwd1 Hat5.
      change (negb (58 =? 58)%N) with false. cbn iota. cbn [bind].
      pose proof (at_cons _ _ _ _ Hat5) as Hat6.
      rewrite (skip_ws_at wv b _ _ Hwv Hat6) by (apply head_nows_value; assumption). cbn [bind].
      pose proof (at_app _ _ _ _ Hat6) as Hat7.
      rewrite (mspec_name_is n key Hn Hk). cbn [find_members]. rewrite render_string_length.
      destruct (name_is n key).
      { f_equal. lia. }
      rewrite (skip_value_at b _ v _ Hv (value_end_sep wa 125 l Hwa (or_intror (or_intror eq_refl))) Hat7).
      cbn [bind]. pose proof (at_app _ _ _ _ Hat7) as Hat8.
      unfold scan. rewrite (skip_ws_at wa b _ _ Hwa Hat8) by exact eq_refl. cbn [bind].
      pose proof (at_app _ _ _ _ Hat8) as Hat9.
      rewrite (at_eq_cons _ _ _ _ Hat9). step_rd Hat9. step_fwd1 Hat9.
      change (negb (125 =? 44)%N) with true. cbn iota. reflexivity.
    - destruct fuel as [|f]; [lia|]. cbn [find_loop].
      cbn [forallb wf_member] in Hms. apply andb_true_iff in Hms. destruct Hms as [Hm Hr].
      repeat (apply andb_true_iff in Hm; let H := fresh "Hm" in destruct Hm as [Hm H]).
      rewrite tail_members_cons in Hat.
      unfold scan at 1. rewrite (skip_ws_at wb b _ _ Hwb Hat) by exact eq_refl. cbn [bind].
      pose proof (at_app _ _ _ _ Hat) as Hat1. rewrite (at_eq_string _ _ _ _ Hat1).
      rewrite render_string_app in Hat1. step_rd Hat1. step_fwd1 Hat1.
      change (negb (34 =? 34)%N) with false. cbn iota. cbn [bind].
      pose proof (at_cons _ _ _ _ Hat1) as Hat2. unfold match_str.
      rewrite (match_loop_at n _ b _ _ (cstr key) 0 key true Hn Hk Hat2 (at_zero _))
        by (apply at_len in Hat2; rewrite app_length in Hat2; lia).
      cbn [bind fst snd]. pose proof (at_app _ _ _ _ Hat2) as Hat3. pose proof (at_cons _ _ _ _ Hat3) as Hat4.
      unfold scan at 1. rewrite (skip_ws_at wn b _ _ Hwn Hat4) by exact eq_refl. cbn [bind].
      pose proof (at_app _ _ _ _ Hat4) as Hat5.
      rewrite (at_eq_cons _ _ _ _ Hat5). step_rd Hat5. step_fwd1 Hat5.
      change (negb (58 =? 58)%N) with false. cbn iota. cbn [bind].
      pose proof (at_cons _ _ _ _ Hat5) as Hat6.
      rewrite (skip_ws_at wv b _ _ Hwv Hat6) by (apply head_nows_value; assumption). cbn [bind].
      pose proof (at_app _ _ _ _ Hat6) as Hat7.
      rewrite (mspec_name_is n key Hn Hk).
      remember (Member wb' n' wn' wv' v' wa' :: r) as ms' eqn:Ems.
      cbn [find_members]. rewrite render_string_length.
      destruct (name_is n key).
      { f_equal. lia. }
      subst ms'.
      rewrite (skip_value_at b _ v _ Hv (value_end_sep wa 44 _ Hwa (or_introl eq_refl)) Hat7).
      cbn [bind]. pose proof (at_app _ _ _ _ Hat7) as Hat8.
      unfold scan. rewrite (skip_ws_at wa b _ _ Hwa Hat8) by exact eq_refl. cbn [bind].
      pose proof (at_app _ _ _ _ Hat8) as Hat9.
      rewrite (at_eq_cons _ _ _ _ Hat9). step_rd Hat9. step_fwd1 Hat9.
      change (negb (44 =? 44)%N) with false. cbn iota.
      pose proof (at_cons _ _ _ _ Hat9) as Hat10.
      pose proof (at_len _ _ _ Hat9) as HL. cbn [length] in HL.
      cbn [bind]. rewrite (IH f b _ wb' n' wn' wv' v' wa' l key Hm Hm4 Hm3 Hm2 Hm1 Hm0 Hr Hk Hat10) by lia.
      match goal with |- Ok (match find_members ?A _ _ with _ => _ end) = Ok (match find_members ?B _ _ with _ => _ end) =>
        replace B with A by lia end.
      reflexivity.
  Qed.

  Theorem json_find_at lead w ms trail key :
    is_wsl lead = true -> wf (JObj w ms) = true -> no_nul key ->
    json_find_m numchars wsbytes literals escapes true true
                (lead ++ render (JObj w ms) ++ trail) (cstr key)
    = Ok (find_spec lead (JObj w ms) trail key).
  Proof.
    intros Hlead Hv Hk. cbn [wf] in Hv. apply andb_true_iff in Hv. destruct Hv as [Hw Hms].
    unfold json_find_m, find_spec.
    set (b := lead ++ render (JObj w ms) ++ trail).
    assert (Hat : at_ b 0 (lead ++ render (JObj w ms) ++ trail)) by apply at_zero.
    assert (HL : length b = length lead + length (render (JObj w ms)) + length trail).
    { subst b. rewrite !app_length. lia. }
    rewrite <- HL. clearbody b.
    cbn [render] in Hat. cbn [app] in Hat. rewrite <- !app_assoc in Hat. cbn [app] in Hat.
    unfold scan. rewrite (skip_ws_at lead b _ _ Hlead Hat) by exact eq_refl. cbn [bind].
    pose proof (at_app _ _ _ _ Hat) as Hat1.
    rewrite (at_eq_cons _ _ _ _ Hat1). step_rd Hat1. step_fwd1 Hat1.
    change (negb (123 =? 123)%N) with false. cbn iota. cbn [bind].
    pose proof (at_cons _ _ _ _ Hat1) as Hat2. cbn [Nat.add] in *.
    destruct ms as [|[wb n wn wv v wa] r].
    - cbn [map join_comma app find_members] in *. cbn [find_loop]. unfold scan.
      rewrite (skip_ws_at w b _ _ Hw Hat2) by exact eq_refl. cbn [bind].
      pose proof (at_app _ _ _ _ Hat2) as Hat3.
      rewrite (at_eq_cons _ _ _ _ Hat3). step_rd Hat3. step_fwd1 Hat3.
      change (negb (125 =? 34)%N) with true. cbn iota. reflexivity.
    - cbn [forallb wf_member] in Hms. apply andb_true_iff in Hms. destruct Hms as [Hm Hr].
      repeat (apply andb_true_iff in Hm; let H := fresh "Hm" in destruct Hm as [Hm H]).
      rewrite join_comma_members in Hat2. cbn [render_member] in Hat2.
      rewrite <- !app_assoc in Hat2. cbn [app] in Hat2. rewrite <- !app_assoc in Hat2.
      rewrite (app_assoc w wb) in Hat2.
      assert (Hww : is_wsl (w ++ wb) = true) by (rewrite is_wsl_app, Hw, Hm; reflexivity).
      rewrite (find_loop_at r _ b _ (w ++ wb) n wn wv v wa trail key Hww Hm4 Hm3 Hm2 Hm1 Hm0 Hr Hk Hat2) by lia.
      cbn [find_members]. rewrite app_length.
      rewrite !Nat.add_assoc. reflexivity.
  Qed.
End Correct.

(* ================= the tables regenerated from util/json.c satisfy T_ws .. T_esc ================= *)

Lemma repo_T_ws c : is_ws json_wsbytes c = ws_byte c.
Proof.
  unfold is_ws, json_wsbytes, ws_byte. cbn [existsb].
  destruct (c =? 9)%N, (c =? 10)%N, (c =? 13)%N, (c =? 32)%N; reflexivity.
Qed.

Lemma repo_T_num c : is_numchar json_numchars c = num_byte c || (c =? 0)%N.
Proof.
  apply eq_true_iff_eq. unfold is_numchar, json_numchars, num_byte. cbn [app existsb].
  rewrite orb_false_r. repeat rewrite orb_true_iff. rewrite andb_true_iff.
  repeat rewrite N.eqb_eq. rewrite !N.leb_le. lia.
Qed.

Lemma repo_T_esc e : assoc e json_escapes = esc_val e.
Proof.
  unfold json_escapes, esc_val. cbn [assoc]. rewrite !(N.eqb_sym _ e). reflexivity.
Qed.

Lemma memcmp_at n : forall b p l lit i m, at_ b p l -> at_ lit i m ->
  n <= length l -> n <= length m ->
  memcmp_eq b n p i lit = Ok (bytes_eqb (firstn n l) (firstn n m)).
Proof.
  induction n as [|n IH]; intros b p l lit i m Hb Hl Hn Hm; [reflexivity|].
  destruct l as [|x l]; [cbn in Hn; lia|]. destruct m as [|y m]; [cbn in Hm; lia|].
  cbn [memcmp_eq firstn bytes_eqb length] in *.
  rewrite (at_rd _ _ _ _ Hb), (at_rd _ _ _ _ Hl). cbn [bind].
  rewrite <- (Nat.add_1_r p), <- (Nat.add_1_r i).
  rewrite (IH b (p + 1) l lit (i + 1) m (at_cons _ _ _ _ Hb) (at_cons _ _ _ _ Hl)) by lia.
  reflexivity.
Qed.

Lemma repo_T_lit k b p l : at_ b p (lit_text k ++ l) ->
  skip_literal json_literals b p = Ok (p + length (lit_text k)).
Proof.
  intros Hat. pose proof (at_len _ _ _ Hat) as HL. rewrite app_length in HL.
  unfold skip_literal, json_literals. cbn [lit_loop].
  assert (M : forall txt n, n <= length (lit_text k ++ l) -> n <= length txt ->
            memcmp_eq b n p 0 txt = Ok (bytes_eqb (firstn n (lit_text k ++ l)) (firstn n txt))).
  { intros txt n H1 H2. exact (memcmp_at n b p _ txt 0 txt Hat (at_zero _) H1 H2). }
  destruct k; cbn [lit_text length app] in *.
  - assert (E : (5 <=? length b - p) = true) by (apply Nat.leb_le; lia). rewrite E.
    rewrite M by (unfold cstr; cbn [length app]; lia). cbn [bind firstn bytes_eqb cstr app N.eqb Pos.eqb andb]. exact (at_fwd _ _ 5 _ Hat ltac:(cbn [length]; lia)).
  - destruct (5 <=? length b - p) eqn:E5.
    + apply Nat.leb_le in E5. rewrite M by (unfold cstr; cbn [length app]; lia). cbn [bind firstn bytes_eqb cstr app N.eqb Pos.eqb andb].
      assert (E : (4 <=? length b - p) = true) by (apply Nat.leb_le; lia). rewrite E.
      rewrite M by (unfold cstr; cbn [length app]; lia). cbn [bind firstn bytes_eqb cstr app N.eqb Pos.eqb andb]. exact (at_fwd _ _ 4 _ Hat ltac:(cbn [length]; lia)).
    + assert (E : (4 <=? length b - p) = true) by (apply Nat.leb_le; lia). rewrite E.
      rewrite M by (unfold cstr; cbn [length app]; lia). cbn [bind firstn bytes_eqb cstr app N.eqb Pos.eqb andb]. exact (at_fwd _ _ 4 _ Hat ltac:(cbn [length]; lia)).
  - assert (E : (4 <=? length b - p) = true) by (apply Nat.leb_le; lia).
    destruct (5 <=? length b - p) eqn:E5.
    + apply Nat.leb_le in E5. rewrite M by (unfold cstr; cbn [length app]; lia). cbn [bind firstn bytes_eqb cstr app N.eqb Pos.eqb andb]. rewrite ?E.
      rewrite M by (unfold cstr; cbn [length app]; lia). cbn [bind firstn bytes_eqb cstr app N.eqb Pos.eqb andb]. rewrite ?E.
      rewrite M by (unfold cstr; cbn [length app]; lia). cbn [bind firstn bytes_eqb cstr app N.eqb Pos.eqb andb]. exact (at_fwd _ _ 4 _ Hat ltac:(cbn [length]; lia)).
    + rewrite E. rewrite M by (unfold cstr; cbn [length app]; lia). cbn [bind firstn bytes_eqb cstr app N.eqb Pos.eqb andb]. rewrite ?E.
      rewrite M by (unfold cstr; cbn [length app]; lia). cbn [bind firstn bytes_eqb cstr app N.eqb Pos.eqb andb]. exact (at_fwd _ _ 4 _ Hat ltac:(cbn [length]; lia)).
Qed.

(* ================= the theorems, for the code as it is now ================= *)

Theorem skip_value_render_at pre v rest :
  wf v = true -> value_end_ok rest = true ->
  skip_value_c (pre ++ render v ++ rest) (length pre) = Ok (length pre + length (render v)).
Proof.
  intros Hv Hr. unfold skip_value_c.
  exact (skip_value_at json_numchars json_wsbytes json_literals repo_T_ws repo_T_num repo_T_lit
           _ _ v rest Hv Hr (at_intro pre _)).
Qed.

Theorem skip_value_render v rest :
  wf v = true -> value_end_ok rest = true ->
  skip_value_c (render v ++ rest) 0 = Ok (length (render v)).
Proof. intros Hv Hr. exact (skip_value_render_at [] v rest Hv Hr). Qed.

Theorem json_find_correct lead w ms trail key :
  is_wsl lead = true -> wf (JObj w ms) = true -> no_nul key ->
  json_find_c (lead ++ render (JObj w ms) ++ trail) key = Ok (find_spec lead (JObj w ms) trail key).
Proof.
  intros Hl Hv Hk. unfold json_find_c.
  exact (json_find_at json_numchars json_wsbytes json_literals json_escapes
           repo_T_ws repo_T_num repo_T_lit repo_T_esc lead w ms trail key Hl Hv Hk).
Qed.

(* in particular for every object that is valid by the strict grammar of RFC 8259 *)
Corollary json_find_correct_rfc lead w ms trail key :
  is_wsl lead = true -> rfc_valid (JObj w ms) = true -> no_nul key ->
  json_find_c (lead ++ render (JObj w ms) ++ trail) key = Ok (find_spec lead (JObj w ms) trail key).
Proof.
  intros Hl Hv Hk. exact (json_find_correct lead w ms trail key Hl (rfc_valid_wf _ Hv) Hk).
Qed.

(* ================= non-vacuity: documents satisfying the hypotheses ================= *)

(* the 18 bytes  { x : [1, 2] , y : 3 }  written compactly except for the blank after the comma
   inside the nested array (names x and y quoted, of course) *)
Definition ex1 : jvalue :=
  JObj [] [Member [] [Raw 120] [] [] (JArr [] [Elem [] (JNum [49]) []; Elem [32] (JNum [50]) []]) [];
           Member [] [Raw 121] [] [] (JNum [51]) []]%N.
Definition ex1_bytes : list N :=
  [123; 34; 120; 34; 58; 91; 49; 44; 32; 50; 93; 44; 34; 121; 34; 58; 51; 125]%N.
Example ex1_render : render ex1 = ex1_bytes.
Proof. reflexivity. Qed.
Example ex1_wf : wf ex1 = true /\ rfc_valid ex1 = true.
Proof. split; reflexivity. Qed.
Example ex1_spec : find_spec [] ex1 [] [121%N] = 16.
Proof. reflexivity. Qed.
Example ex1_now : json_find_c ex1_bytes [121%N] = Ok 16.
Proof. vm_compute. reflexivity. Qed.
(* regression: before the repair the nested array was mis-skipped and y reported absent *)
Example ex1_old_missed_y : json_find_old ex1_bytes [121%N] = Ok 18.
Proof. vm_compute. reflexivity. Qed.

(* ex2_bytes below: blanks at every kind of place, all three ways of writing a character,
   nesting, a duplicate key, a name that only equals the key through a \u escape (never
   matches), trailing garbage *)
Definition ex2 : jvalue :=
  (JObj [9] [
    Member [] [Raw 97; Uni 48 48 54 50] [32] [32] (JNum [49]) [32];
    Member [13; 10; 32] [Raw 97; Esc 34; Raw 98; Esc 47] [32] []
      (JArr [32] [Elem [] (JLit LTrue) [32];
                  Elem [32] (JObj [] [Member [] [Raw 107] [] [] (JLit LNull) []]) [32];
                  Elem [] (JStr [Raw 115; Esc 92]) []]) [32];
    Member [32] [Raw 97; Raw 98] [] [] (JNum [45; 49; 46; 53; 101; 43; 51]) [];
    Member [32] [Raw 97; Raw 98] [32] [32] (JLit LFalse) []])%N.
Definition ex2_bytes : list N :=
  [32; 123; 9; 34; 97; 92; 117; 48; 48; 54; 50; 34; 32; 58; 32; 49; 32; 44; 13; 10; 32; 34; 97; 92;
   34; 98; 92; 47; 34; 32; 58; 91; 32; 116; 114; 117; 101; 32; 44; 32; 123; 34; 107; 34; 58; 110;
   117; 108; 108; 125; 32; 44; 34; 115; 92; 92; 34; 93; 32; 44; 32; 34; 97; 98; 34; 58; 45; 49;
   46; 53; 101; 43; 51; 44; 32; 34; 97; 98; 34; 32; 58; 32; 102; 97; 108; 115; 101; 125; 120]%N.
Example ex2_render : [32%N] ++ render ex2 ++ [120%N] = ex2_bytes.
Proof. reflexivity. Qed.
Example ex2_wf : wf ex2 = true /\ rfc_valid ex2 = true.
Proof. split; reflexivity. Qed.
(* key ab: the first member is written ab and never matches; the first of the two real ones wins *)
Example ex2_spec_ab : find_spec [32%N] ex2 [120%N] [97; 98]%N = 66.
Proof. reflexivity. Qed.
Example ex2_now_ab : json_find_c ex2_bytes [97; 98]%N = Ok 66.
Proof. vm_compute. reflexivity. Qed.
(* the key a, quote, b, slash is found through the two-character escapes *)
Example ex2_now_escaped : json_find_c ex2_bytes [97; 34; 98; 47]%N = Ok 31.
Proof. vm_compute. reflexivity. Qed.
(* a prefix of a name, an extension of a name and the empty key are absent: the end is returned *)
Example ex2_now_absent :
  json_find_c ex2_bytes [97%N] = Ok 89 /\ json_find_c ex2_bytes [97; 98; 99]%N = Ok 89 /\
  json_find_c ex2_bytes [] = Ok 89.
Proof. vm_compute. repeat split; reflexivity. Qed.
Example ex2_skip_value : skip_value_c ex2_bytes 31 = Ok 58.
Proof. vm_compute. reflexivity. Qed.
