(* aws/aws_readkeys.c and util/readpass_file.c: fgets-based line readers over arbitrary file
   bytes (NULs, over-long and unterminated lines), with the real buffer sizes regenerated from
   the sources.  The line buffer is an object of exactly its declared size; every access goes
   through the checked accessors.
   TRUSTED: the model of fgets (ISO C: at most size-1 characters, stops after a newline, NULL
   when no character could be read, terminator after the last character), of strcspn/strchr/
   strcmp/strdup as scans that stop at the terminator; read errors (ferror) are not modelled. *)
From Coq Require Import Arith NArith List Lia Bool.
From LCP Require Import Base.CheckedMem Util.EndianMem Gen.Repo_codec2.
Import ListNotations.
Local Open Scope N_scope.
Local Open Scope res_scope.

(* ---- fgets(buf, size, f): (None = NULL | Some buffer after the call, rest of the file) ---- *)
Fixpoint fgets_loop (buf : list N) (i room : nat) (file : list N) {struct room}
    : res (list N * nat * list N) :=
  match room with
  | O => Ok (buf, i, file)
  | S room' =>
    match file with
    | [] => Ok (buf, i, [])
    | c :: r =>
      let* buf := wr buf i c in
      if c =? 10 then Ok (buf, S i, r) else fgets_loop buf (S i) room' r
    end
  end.
Definition fgets_m (buf : list N) (size : nat) (file : list N) : res (option (list N) * list N) :=
  let* (buf', cnt, rest) := fgets_loop buf 0 (size - 1) file in
  match cnt, file with
  | O, [] => Ok (None, rest)                       (* end of file before any character *)
  | _, _ => let* b := wr buf' cnt 0 in Ok (Some b, rest)
  end.

Definition in_set (c : N) (set : list N) : bool := existsb (N.eqb c) set.

(* strcspn(buf + off, set): number of leading characters not in set; stops at the terminator *)
Fixpoint strcspn_from (fuel : nat) (buf : list N) (off : nat) (set : list N) (acc : nat) {struct fuel}
    : res nat :=
  match fuel with
  | O => Fault
  | S f =>
    let* c := rd buf (off + acc) in
    if (c =? 0) || in_set c set then Ok acc else strcspn_from f buf off set (S acc)
  end.
Definition strcspn_m (buf : list N) (off : nat) (set : list N) : res nat :=
  strcspn_from (S (length buf)) buf off set 0.

(* strchr(buf, c) for c <> 0: index of the first occurrence before the terminator *)
Fixpoint strchr_from (fuel : nat) (buf : list N) (c : N) (i : nat) {struct fuel} : res (option nat) :=
  match fuel with
  | O => Fault
  | S f =>
    let* x := rd buf i in
    if x =? c then Ok (Some i) else if x =? 0 then Ok None else strchr_from f buf c (S i)
  end.
Definition strchr_m (buf : list N) (c : N) : res (option nat) := strchr_from (S (length buf)) buf c 0.

Definition bytes_eqb (a b : list N) : bool :=
  Nat.eqb (length a) (length b) && forallb (fun p => N.eqb (fst p) (snd p)) (combine a b).

(* ---- aws_readkeys ---- *)
Inductive aws_result : Type :=
| AwsErr                                          (* returned -1 *)
| AwsOk (key_id key_secret : list N).             (* returned 0 *)

Definition aws_finish (kid ksec : option (list N)) : aws_result :=
  match kid, ksec with
  | Some a, Some b => AwsOk a b
  | _, _ => AwsErr                                (* "Need ACCESS_KEY_ID and ACCESS_KEY_SECRET" *)
  end.

Fixpoint aws_loop (fuel : nat) (buf : list N) (file : list N) (kid ksec : option (list N))
    {struct fuel} : res aws_result :=
  match fuel with
  | O => OutOfFuel
  | S f =>
    let* (r, rest) := fgets_m buf (N.to_nat aws_fgets_size) file in
    match r with
    | None => Ok (aws_finish kid ksec)
    | Some buf =>
      let* p := strcspn_m buf 0 aws_eol_set in
      let* c := rd buf p in
      if c =? 0 then Ok (aws_finish kid ksec)     (* "Missing EOL": break *)
      else
        let* buf := wr buf p 0 in
        let* q := strchr_m buf aws_separator in
        match q with
        | None => Ok AwsErr                       (* err3 *)
        | Some q =>
          let* buf := wr buf q 0 in
          let* name := cstr_at buf 0 in
          if bytes_eqb name aws_name_id then
            match kid with
            | Some _ => Ok AwsErr                 (* specified twice *)
            | None => let* v := cstr_at buf (S q) in aws_loop f buf rest (Some v) ksec
            end
          else if bytes_eqb name aws_name_secret then
            match ksec with
            | Some _ => Ok AwsErr
            | None => let* v := cstr_at buf (S q) in aws_loop f buf rest kid (Some v)
            end
          else Ok AwsErr                          (* err3 *)
        end
    end
  end.

(* buf0: the (uninitialised) stack buffer, an object of aws_buf_size bytes *)
Definition aws_readkeys_m (buf0 : list N) (file : list N) : res aws_result :=
  aws_loop (S (length file)) buf0 file None None.

(* ---- readpass_file: None = returned -1, Some passphrase = returned 0 ---- *)
Definition readpass_file_m (buf0 : list N) (file : list N) : res (option (list N)) :=
  let* (r, rest) := fgets_m buf0 (N.to_nat rp_fgets_size) file in
  let* buf := (match r with Some b => Ok b | None => wr buf0 0 0 end) in
  match rest with
  | _ :: _ => Ok None                             (* fgetc(f) != EOF *)
  | [] =>
    let* p := strcspn_m buf 0 rp_eol_set in
    let* buf := wr buf p 0 in
    let* s := cstr_at buf 0 in
    Ok (Some s)
  end.

Definition aws_stack_buffer : list N := alloc (N.to_nat aws_buf_size) 165.
Definition rp_stack_buffer : list N := alloc (N.to_nat rp_buf_size) 165.
