(* C15 for util/json.c: on EVERY byte string and every key, the model of json_find
   - never reads outside the buffer and never forms a pointer above end  (no Fault),
   - terminates: the fuel its callers supply is always enough            (no OutOfFuel),
   - returns an offset in [0, length buf].
   This is index safety, termination and range only: the model has no machine stack, so the
   stack consumed by the C recursion skip_value <-> skip_array / skip_object (one frame per
   nesting level, no depth limit: known finding F11) is outside these theorems.
   The proof is parametric in the tables taken from the C text; the only thing it needs from
   them is that every row (a, text, n, adv) of skip_literal has n <= a, adv <= a and
   n <= strlen(text) + 1  (checked by computation on the regenerated rows). *)
From Coq Require Import Arith NArith List Lia Bool.
From LCP Require Import Base.CheckedMem Gen.Repo_json Util.Json Util.JsonRepo.
Import ListNotations.
Local Open Scope res_scope.

(* "r is Ok q with P q" *)
Definition okres {A} (P : A -> Prop) (r : res A) : Prop :=
  match r with Ok q => P q | _ => False end.

Lemma okres_bind {A B} (P : A -> Prop) (Q : B -> Prop) (r : res A) (k : A -> res B) :
  okres P r -> (forall q, P q -> okres Q (k q)) -> okres Q (bind r k).
Proof. destruct r; cbn; auto; contradiction. Qed.

Lemma okres_weaken {A} (P Q : A -> Prop) (r : res A) :
  okres P r -> (forall q, P q -> Q q) -> okres Q r.
Proof. destruct r; cbn; auto. Qed.

Lemma okres_inv {A} (P : A -> Prop) (r : res A) : okres P r -> exists q, r = Ok q /\ P q.
Proof. destruct r; cbn; try contradiction. eauto. Qed.

Definition lit_row_ok (row : nat * list N * nat * nat) : bool :=
  match row with (a, txt, n, adv) => (n <=? a) && (adv <=? a) && (n <=? length txt + 1) end.

Section Safe.
  Variable numchars wsbytes : list N.
  Variable literals : list (nat * list N * nat * nat).
  Variable escapes : list (N * N).
  Variable fix_ws : bool.
  Variable b : list N.
  Hypothesis literals_ok : forallb lit_row_ok literals = true.

  Local Notation L := (length b).
  Local Notation between p := (fun q => p <= q <= L).

  Lemma rd_bind {B} (Q : B -> Prop) p (k : N -> res B) :
    p < L -> (forall c, okres Q (k c)) -> okres Q (bind (rd b p) k).
  Proof.
    intros H Hk. destruct (rd_ok b p H) as (c & E & _). rewrite E. cbn. apply Hk.
  Qed.

  Lemma fwd_bind {B} (Q : B -> Prop) p n (k : nat -> res B) :
    p + n <= L -> okres Q (k (p + n)) -> okres Q (bind (fwd b p n) k).
  Proof.
    intros H Hk. unfold fwd. apply Nat.leb_le in H. rewrite H. cbn. exact Hk.
  Qed.

  Lemma fwd_ok p n : p + n <= L -> fwd b p n = Ok (p + n).
  Proof. intros H. unfold fwd. apply Nat.leb_le in H. rewrite H. reflexivity. Qed.

  (* ---- skip_ws ---- *)
  Lemma ws_loop_ok fuel : forall p, p <= L -> fuel > L - p ->
    okres (between p) (ws_loop wsbytes b fuel p).
  Proof.
    induction fuel as [|f IH]; intros p Hp Hf; [lia|]. cbn [ws_loop].
    destruct (p <? L) eqn:E; [|cbn; lia]. apply Nat.ltb_lt in E.
    apply rd_bind; [exact E|]. intros c. destruct (is_ws wsbytes c); [|cbn; lia].
    apply fwd_bind; [lia|]. eapply okres_weaken; [apply IH; lia|]. cbn. intros; lia.
  Qed.

  Lemma skip_ws_ok p : p <= L -> okres (between p) (skip_ws wsbytes b p).
  Proof. intros H. unfold skip_ws. apply ws_loop_ok; lia. Qed.

  (* ---- skip_literal ---- *)
  Lemma memcmp_ok n : forall p i lit, p + n <= L -> i + n <= length lit ->
    okres (fun _ => True) (memcmp_eq b n p i lit).
  Proof.
    induction n as [|n IH]; intros p i lit Hp Hi; [exact I|]. cbn [memcmp_eq].
    apply rd_bind; [lia|]. intros x.
    destruct (rd_ok lit i) as (y & E & _); [lia|]. rewrite E. cbn [bind].
    eapply okres_bind; [apply IH; lia|]. intros r _. exact I.
  Qed.

  Lemma lit_loop_ok lits : forallb lit_row_ok lits = true -> forall p, p <= L ->
    okres (between p) (lit_loop b lits p).
  Proof.
    induction lits as [|[[[a txt] n] adv] r IH]; intros Hok p Hp; [cbn; lia|].
    cbn [forallb] in Hok. apply andb_true_iff in Hok. destruct Hok as [Hrow Hr].
    unfold lit_row_ok in Hrow. apply andb_true_iff in Hrow. destruct Hrow as [Hrow H3].
    apply andb_true_iff in Hrow. destruct Hrow as [H1 H2].
    apply Nat.leb_le in H1, H2, H3. cbn [lit_loop].
    destruct (a <=? L - p) eqn:E; [|apply IH; assumption]. apply Nat.leb_le in E.
    eapply okres_bind.
    { apply memcmp_ok; [lia|]. unfold cstr. rewrite app_length. cbn [length]. lia. }
    intros e _. destruct e; [|apply IH; assumption].
    rewrite fwd_ok by lia. cbn. lia.
  Qed.

  Lemma skip_literal_ok p : p <= L -> okres (between p) (skip_literal literals b p).
  Proof. intros H. unfold skip_literal. apply lit_loop_ok; assumption. Qed.

  (* ---- skip_string ---- *)
  Lemma str_loop_ok fuel : forall p, p <= L -> fuel > L - p ->
    okres (between p) (str_loop b fuel p).
  Proof.
    induction fuel as [|f IH]; intros p Hp Hf; [lia|]. cbn [str_loop].
    destruct (p <? L) eqn:E; [|cbn; lia]. apply Nat.ltb_lt in E.
    apply rd_bind; [exact E|]. intros ch. apply fwd_bind; [lia|].
    destruct (ch =? 34)%N; [cbn; lia|].
    destruct (ch =? 92)%N.
    - destruct (p + 1 =? L) eqn:E2; [cbn; lia|]. apply Nat.eqb_neq in E2.
      apply rd_bind; [lia|]. intros ch2. apply fwd_bind; [lia|].
      destruct (ch2 =? 117)%N.
      + destruct (L - (p + 1 + 1) <? 4) eqn:E3; [cbn; lia|]. apply Nat.ltb_ge in E3.
        apply fwd_bind; [lia|]. eapply okres_weaken; [apply IH; lia|]. cbn. intros; lia.
      + eapply okres_weaken; [apply IH; lia|]. cbn. intros; lia.
    - eapply okres_weaken; [apply IH; lia|]. cbn. intros; lia.
  Qed.

  Lemma skip_string_ok p : p < L -> okres (fun q => p < q <= L) (skip_string b p).
  Proof.
    intros H. unfold skip_string. apply fwd_bind; [lia|].
    eapply okres_weaken; [apply str_loop_ok; lia|]. cbn. intros; lia.
  Qed.

  (* ---- skip_number ---- *)
  Lemma num_loop_ok fuel : forall p, p <= L -> fuel > L - p ->
    okres (between p) (num_loop numchars b fuel p).
  Proof.
    induction fuel as [|f IH]; intros p Hp Hf; [lia|]. cbn [num_loop].
    destruct (p <? L) eqn:E; [|cbn; lia]. apply Nat.ltb_lt in E.
    apply rd_bind; [exact E|]. intros c. destruct (is_numchar numchars c); [|cbn; lia].
    apply fwd_bind; [lia|]. eapply okres_weaken; [apply IH; lia|]. cbn. intros; lia.
  Qed.

  Lemma skip_number_ok p : p <= L -> okres (between p) (skip_number numchars b p).
  Proof. intros H. unfold skip_number. apply num_loop_ok; lia. Qed.

  (* ---- containers, for a skip_value that is safe above p0 ---- *)
  Section Cont.
    Variable sv : nat -> res nat.
    Variable p0 : nat.
    Hypothesis sv_ok : forall p, p0 < p <= L -> okres (between p) (sv p).

    Lemma opt_ws_ok p : p <= L ->
      okres (between p) (if fix_ws then skip_ws wsbytes b p else Ok p).
    Proof. intros H. destruct fix_ws; [apply skip_ws_ok; exact H|cbn; lia]. Qed.

    Lemma arr_loop_ok fuel : forall p, p0 < p <= L -> fuel > L - p ->
      okres (between p) (arr_loop wsbytes fix_ws b sv fuel p).
    Proof.
      induction fuel as [|f IH]; intros p Hp Hf; [lia|]. cbn [arr_loop].
      eapply okres_bind; [apply sv_ok; exact Hp|]. cbn beta. intros p1 H1.
      eapply okres_bind; [apply skip_ws_ok; lia|]. cbn beta. intros p2 H2.
      destruct (p2 =? L) eqn:E; [cbn; lia|]. apply Nat.eqb_neq in E.
      apply rd_bind; [lia|]. intros c. destruct (c =? 93)%N.
      { rewrite fwd_ok by lia. cbn. lia. }
      apply rd_bind; [lia|]. intros c2. apply fwd_bind; [lia|].
      destruct (negb (c2 =? 44)%N); [cbn; lia|].
      eapply okres_bind; [apply opt_ws_ok; lia|]. cbn beta. intros p3 H3.
      eapply okres_weaken; [apply IH; lia|]. cbn. intros; lia.
    Qed.

    Lemma skip_array_ok fuel p : p0 <= p < L -> fuel > L - S p ->
      okres (between p) (skip_array wsbytes fix_ws b sv fuel p).
    Proof.
      intros Hp Hf. unfold skip_array. apply fwd_bind; [lia|].
      eapply okres_bind; [apply skip_ws_ok; lia|]. cbn beta. intros p2 H2.
      destruct (p2 =? L) eqn:E; [cbn; lia|]. apply Nat.eqb_neq in E.
      apply rd_bind; [lia|]. intros c. destruct (c =? 93)%N.
      { rewrite fwd_ok by lia. cbn. lia. }
      eapply okres_weaken; [apply arr_loop_ok; lia|]. cbn. intros; lia.
    Qed.

    (* with the end test before the next member (fix_end = true), as the code is now *)
    Lemma obj_loop_ok fuel : forall p, p0 < p < L -> fuel > L - p ->
      okres (between p) (obj_loop wsbytes fix_ws true b sv fuel p).
    Proof.
      induction fuel as [|f IH]; intros p Hp Hf; [lia|]. cbn [obj_loop].
      eapply okres_bind; [apply skip_string_ok; lia|]. cbn beta. intros p1 H1.
      eapply okres_bind; [apply skip_ws_ok; lia|]. cbn beta. intros p2 H2.
      destruct (p2 =? L) eqn:E; [cbn; lia|]. apply Nat.eqb_neq in E.
      apply rd_bind; [lia|]. intros c. apply fwd_bind; [lia|].
      destruct (negb (c =? 58)%N); [cbn; lia|].
      eapply okres_bind; [apply skip_ws_ok; lia|]. cbn beta. intros p3 H3.
      eapply okres_bind; [apply sv_ok; lia|]. cbn beta. intros p4 H4.
      eapply okres_bind; [apply skip_ws_ok; lia|]. cbn beta. intros p5 H5.
      destruct (p5 =? L) eqn:E5; [cbn; lia|]. apply Nat.eqb_neq in E5.
      apply rd_bind; [lia|]. intros c2. destruct (c2 =? 125)%N.
      { rewrite fwd_ok by lia. cbn. lia. }
      apply rd_bind; [lia|]. intros c3. apply fwd_bind; [lia|].
      destruct (negb (c3 =? 44)%N); [cbn; lia|].
      eapply okres_bind; [apply opt_ws_ok; lia|]. cbn beta. intros p6 H6.
      cbn [andb]. destruct (p6 =? L) eqn:E6; [cbn; lia|]. apply Nat.eqb_neq in E6.
      eapply okres_weaken; [apply IH; lia|]. cbn. intros; lia.
    Qed.

    Lemma skip_object_ok fuel p : p0 <= p < L -> fuel > L - S p ->
      okres (between p) (skip_object wsbytes fix_ws true b sv fuel p).
    Proof.
      intros Hp Hf. unfold skip_object. apply fwd_bind; [lia|].
      eapply okres_bind; [apply skip_ws_ok; lia|]. cbn beta. intros p2 H2.
      destruct (p2 =? L) eqn:E; [cbn; lia|]. apply Nat.eqb_neq in E.
      apply rd_bind; [lia|]. intros c. destruct (c =? 125)%N.
      { rewrite fwd_ok by lia. cbn. lia. }
      eapply okres_weaken; [apply obj_loop_ok; lia|]. cbn. intros; lia.
    Qed.
  End Cont.

  (* ---- skip_value: remaining-length fuel suffices at every nesting depth ---- *)
  Lemma skip_value_f_ok fuel : forall p, p <= L -> fuel > L - p ->
    okres (between p) (skip_value_f numchars wsbytes literals fix_ws true b fuel p).
  Proof.
    induction fuel as [|f IH]; intros p Hp Hf; [lia|]. cbn [skip_value_f].
    destruct (p =? L) eqn:E; [cbn; lia|]. apply Nat.eqb_neq in E.
    apply rd_bind; [lia|]. intros c.
    destruct ((c =? 102)%N || (c =? 110)%N || (c =? 116)%N); [apply skip_literal_ok; exact Hp|].
    destruct (c =? 34)%N.
    { eapply okres_weaken; [apply skip_string_ok; lia|]. cbn. intros; lia. }
    destruct (c =? 91)%N.
    { apply (skip_array_ok _ p); [|lia|lia]. intros q Hq. apply IH; lia. }
    destruct (c =? 123)%N.
    { apply (skip_object_ok _ p); [|lia|lia]. intros q Hq. apply IH; lia. }
    destruct (is_numchar numchars c); [apply skip_number_ok; exact Hp|]. cbn. lia.
  Qed.

  Lemma skip_value_ok p : p <= L ->
    okres (between p) (skip_value numchars wsbytes literals fix_ws true b p).
  Proof. intros H. unfold skip_value. apply skip_value_f_ok; lia. Qed.

  (* ---- match_str: s stays inside the key string ---- *)
  Variable key : list N.
  Local Notation kb := (cstr key).

  (* position of the first NUL of kb: s never moves beyond it *)
  Fixpoint first_nul (l : list N) : nat :=
    match l with
    | [] => 0
    | c :: r => if (c =? 0)%N then 0 else S (first_nul r)
    end.

  Lemma first_nul_rd l : forall k, k <= first_nul l ->
    exists c, rd (cstr l) k = Ok c /\ ((c =? 0)%N = false -> S k <= first_nul l).
  Proof.
    induction l as [|x r IH]; intros k Hk.
    - cbn in Hk. assert (k = 0) by lia. subst. exists 0%N. split; [reflexivity|discriminate].
    - cbn [first_nul] in Hk |- *. destruct (x =? 0)%N eqn:Ex.
      + assert (k = 0) by lia. subst. exists x. split; [reflexivity|]. intros Hc. congruence.
      + destruct k as [|k].
        * exists x. split; [reflexivity|]. intros _. lia.
        * destruct (IH k) as (c & E & Hc); [lia|]. exists c. split; [exact E|]. intros Hz. specialize (Hc Hz). lia.
  Qed.

  Lemma match_loop_ok fuel : forall p k found, p <= L -> fuel > L - p -> k <= first_nul key ->
    okres (fun r => p <= fst r <= L) (match_loop escapes b kb fuel p k found).
  Proof.
    induction fuel as [|f IH]; intros p k found Hp Hf Hk; [lia|]. cbn [match_loop].
    destruct (p =? L) eqn:E; [cbn; lia|]. apply Nat.eqb_neq in E.
    apply rd_bind; [lia|]. intros ch. apply fwd_bind; [lia|].
    destruct (first_nul_rd key k Hk) as (s0 & Es0 & Hs0).
    destruct (ch =? 34)%N.
    { rewrite Es0. cbn. lia. }
    (* after the switch: either a return with a pointer in range, or continue further right *)
    set (sw := (if (ch =? 92)%N then _ else _)).
    assert (Hsw : okres (fun s => match s with
                                  | inl out => p <= fst out <= L
                                  | inr (_, q, _) => p < q <= L
                                  end) sw).
    { subst sw. destruct (ch =? 92)%N; [|cbn; lia].
      destruct (p + 1 =? L) eqn:E2; [cbn; lia|]. apply Nat.eqb_neq in E2.
      apply rd_bind; [lia|]. intros e. apply fwd_bind; [lia|].
      destruct (assoc e escapes); [cbn; lia|].
      destruct (e =? 117)%N; [|cbn; lia].
      destruct (L - (p + 1 + 1) <? 4) eqn:E3; [cbn; lia|]. apply Nat.ltb_ge in E3.
      apply fwd_bind; [lia|]. cbn. lia. }
    eapply okres_bind; [exact Hsw|]. cbn beta. intros [out | [[ch' q] fnd]] Hq; [cbn; exact Hq|].
    rewrite Es0. cbn [bind].
    eapply okres_weaken.
    { apply IH; [lia|lia|]. destruct (negb (s0 =? 0)%N) eqn:En; [|exact Hk].
      apply negb_true_iff in En. apply Hs0. exact En. }
    cbn. intros; lia.
  Qed.

  Lemma match_str_ok p : p <= L ->
    okres (fun r => p <= fst r <= L) (match_str escapes b kb p).
  Proof. intros H. unfold match_str. apply match_loop_ok; lia. Qed.

  (* ---- SCAN ---- *)
  Lemma scan_ok p ch : p <= L ->
    okres (fun r => match r with None => True | Some q => p < q <= L end) (scan wsbytes b p ch).
  Proof.
    intros H. unfold scan.
    eapply okres_bind; [apply skip_ws_ok; exact H|]. cbn beta. intros p1 H1.
    destruct (p1 =? L) eqn:E; [exact I|]. apply Nat.eqb_neq in E.
    apply rd_bind; [lia|]. intros c. apply fwd_bind; [lia|].
    destruct (negb (c =? ch)%N); cbn; [exact I|lia].
  Qed.

  (* ---- json_find ---- *)
  Lemma find_loop_ok fuel : forall p, p <= L -> fuel > L - p ->
    okres (fun q => q <= L)
          (find_loop numchars wsbytes literals escapes fix_ws true b kb fuel p).
  Proof.
    induction fuel as [|f IH]; intros p Hp Hf; [lia|]. cbn [find_loop].
    eapply okres_bind; [apply scan_ok; exact Hp|]. cbn beta. intros [p1|] H1; [|cbn; lia].
    eapply okres_bind; [apply match_str_ok; lia|]. cbn beta. intros [p2 fnd] H2. cbn [fst snd] in *.
    eapply okres_bind; [apply scan_ok; lia|]. cbn beta. intros [p3|] H3; [|cbn; lia].
    eapply okres_bind; [apply skip_ws_ok; lia|]. cbn beta. intros p4 H4.
    destruct fnd; [cbn; lia|].
    eapply okres_bind; [apply skip_value_ok; lia|]. cbn beta. intros p5 H5.
    eapply okres_bind; [apply scan_ok; lia|]. cbn beta. intros [p6|] H6; [|cbn; lia].
    apply IH; lia.
  Qed.

  Theorem json_find_ok :
    okres (fun q => q <= L) (json_find_m numchars wsbytes literals escapes fix_ws true b kb).
  Proof.
    unfold json_find_m.
    eapply okres_bind; [apply scan_ok; lia|]. cbn beta. intros [p|] H; [|cbn; lia].
    apply find_loop_ok; lia.
  Qed.
End Safe.

(* ================= for the tables regenerated from util/json.c ================= *)

Lemma repo_literals_ok : forallb lit_row_ok json_literals = true.
Proof. vm_compute. reflexivity. Qed.

(* json_find on ANY bytes with ANY key string: returns, and the pointer is inside [buf, end] *)
Theorem json_find_total buf key :
  exists q, json_find_c buf key = Ok q /\ q <= length buf.
Proof.
  apply okres_inv. unfold json_find_c.
  exact (json_find_ok json_numchars json_wsbytes json_literals json_escapes true buf repo_literals_ok key).
Qed.

Corollary json_find_no_fault buf key :
  json_find_c buf key <> Fault /\ json_find_c buf key <> OutOfFuel /\ json_find_c buf key <> AssertFail.
Proof.
  destruct (json_find_total buf key) as (q & E & _). rewrite E. repeat split; discriminate.
Qed.

(* the same for skip_value started anywhere inside the buffer *)
Theorem skip_value_total buf p : p <= length buf ->
  exists q, skip_value_c buf p = Ok q /\ p <= q <= length buf.
Proof.
  intros H. apply okres_inv. unfold skip_value_c.
  exact (skip_value_ok json_numchars json_wsbytes json_literals true buf repo_literals_ok p H).
Qed.

(* regression: the code before the repair (no end test after a comma in skip_object) formed
   end + 1 on the 12 bytes  {"x":{"a":1,  searched for "y"; the code as it is now does not *)
Definition f1_witness : list N := [123; 34; 120; 34; 58; 123; 34; 97; 34; 58; 49; 44]%N.
Example old_skip_object_overread : json_find_old f1_witness [121%N] = Fault.
Proof. vm_compute. reflexivity. Qed.
Example now_no_overread : json_find_c f1_witness [121%N] = Ok 12.
Proof. vm_compute. reflexivity. Qed.
