(* util/sock_util.c and the glue of util/sock.c:sock_resolve: serialise/deserialise, dup, cmp,
   print/resolve round trips, and absence of faults on every input.
   The AF_INET6 text conversions are Section variables here; the laws assumed of them are
   hypotheses of the theorems (see the Section Resolve below). *)
From Coq Require Import Arith NArith ZArith List Lia Bool.
From LCP Require Import Base.CheckedMem Base.Sweep Util.EndianMem Util.EndianMemProofs Util.Endian Util.EndianProofs Util.SockText Util.SockTextProofs Util.Sock Gen.Repo_codec2.
Import ListNotations.
Local Open Scope N_scope.
Local Open Scope res_scope.
Ltac Zify.zify_post_hook ::= Z.to_euclidean_division_equations.

(* ---------------- copies between objects ---------------- *)
Lemma memcpy_at d1 d2 d3 src off n :
  off = length d1 -> n = length src -> length d2 = n ->
  memcpy_m (d1 ++ d2 ++ d3) off src 0 n = Ok (d1 ++ src ++ d3).
Proof.
  intros -> -> H. pose proof (memcpy_parts d1 d2 d3 [] src [] H) as P.
  cbn [app length] in P. rewrite app_nil_r in P. exact P.
Qed.

Lemma memcpy_at0 d2 d3 src n :
  n = length src -> length d2 = n -> memcpy_m (d2 ++ d3) 0 src 0 n = Ok (src ++ d3).
Proof. intros H1 H2. apply (memcpy_at [] d2 d3 src 0 n); auto. Qed.

Lemma memcpy_out s1 s2 s3 off n fill :
  off = length s1 -> n = length s2 ->
  memcpy_m (alloc n fill) 0 (s1 ++ s2 ++ s3) off n = Ok s2.
Proof.
  intros -> ->. pose proof (memcpy_parts [] (alloc (length s2) fill) [] s1 s2 s3) as P.
  cbn [app length] in P. rewrite !app_nil_r in P. apply P. unfold alloc. apply repeat_length.
Qed.

Lemma memcpy_out0 s2 s3 n fill :
  n = length s2 -> memcpy_m (alloc n fill) 0 (s2 ++ s3) 0 n = Ok s2.
Proof. intros H. apply (memcpy_out [] s2 s3 0 n fill); auto. Qed.

Lemma alloc_app n m fill : alloc (n + m) fill = alloc n fill ++ alloc m fill.
Proof. unfold alloc. apply repeat_app. Qed.
Lemma alloc_length n fill : length (alloc n fill) = n.
Proof. unfold alloc. apply repeat_length. Qed.

(* ---------------- native integers (this platform: little endian, 4-byte int and socklen_t) ---------------- *)
Lemma native_bytes_le w x : native_bytes w x = le_bytes w x.
Proof. reflexivity. Qed.
Lemma native_val_le bs : native_val bs = le_val bs.
Proof. reflexivity. Qed.
Lemma native_bytes_length w x : length (native_bytes w x) = w.
Proof. rewrite native_bytes_le. apply le_bytes_length. Qed.
Lemma native_roundtrip w x : x < 256 ^ N.of_nat w -> native_val (native_bytes w x) = x.
Proof. intros H. rewrite native_bytes_le, native_val_le. apply le_val_le_bytes, H. Qed.

(* a well-formed struct sock_addr: the ints are 32-bit patterns, namelen fits socklen_t *)
Definition wf_sa (sa : sock_addr) : Prop :=
  sa_family sa < 2 ^ 32 /\ sa_socktype sa < 2 ^ 32 /\ N.of_nat (length (sa_name sa)) < 2 ^ 32.

(* ---------------- sock_addr_dup ---------------- *)
Theorem sock_addr_dup_ok sa : sock_addr_dup_m sa = Ok sa.
Proof. unfold sock_addr_dup_m. rewrite memcpy_whole. cbn [bind]. destruct sa; reflexivity. Qed.

(* ---------------- sock_addr_cmp ---------------- *)
Lemma memcmp_ne_spec : forall a b pa pb,
  length a = length b -> length pa = length pb ->
  memcmp_ne (pa ++ a) (pb ++ b) (length pa) (length a) = Ok (if list_eq_dec N.eq_dec a b then false else true).
Proof.
  induction a as [|x a IH]; intros b pa pb Hl Hp.
  - destruct b; [|discriminate]. cbn [memcmp_ne length]. destruct (list_eq_dec N.eq_dec [] []); congruence.
  - destruct b as [|y b]; [discriminate|]. cbn [length] in Hl. cbn [memcmp_ne length].
    rewrite rd_mid.
    replace (rd (pb ++ y :: b) (length pa)) with (Ok y) by (rewrite Hp; symmetry; apply rd_mid).
    cbn [bind].
    specialize (IH b (pa ++ [x]) (pb ++ [y])). rewrite !app_length in IH. cbn [length] in IH.
    rewrite <- !app_assoc in IH. cbn [app] in IH.
    replace (S (length pa)) with (length pa + 1)%nat by lia. rewrite IH by lia. cbn [bind]. f_equal.
    destruct (N.eqb_spec x y) as [->|Hne]; cbn [negb orb].
    + destruct (list_eq_dec N.eq_dec a b) as [E1|E1];
        destruct (list_eq_dec N.eq_dec (y :: a) (y :: b)) as [E2|E2];
        try reflexivity; exfalso; [apply E2; congruence | apply E1; congruence].
    + destruct (list_eq_dec N.eq_dec (x :: a) (y :: b)) as [E|E]; [congruence | reflexivity].
Qed.

Theorem sock_addr_cmp_ok a b :
  exists r, sock_addr_cmp_m a b = Ok r /\ (r = 0 <-> a = b) /\ (r = 0 \/ r = 1).
Proof.
  unfold sock_addr_cmp_m. destruct a as [f1 t1 n1], b as [f2 t2 n2]. cbn [sa_family sa_socktype sa_name].
  destruct (N.eqb_spec f1 f2) as [->|Hf]; cbn [negb orb].
  2:{ exists 1. split; [reflexivity|]. split; [|right; reflexivity]. split; [discriminate | congruence]. }
  destruct (N.eqb_spec t1 t2) as [->|Ht]; cbn [negb orb].
  2:{ exists 1. split; [reflexivity|]. split; [|right; reflexivity]. split; [discriminate | congruence]. }
  destruct (Nat.eqb_spec (length n1) (length n2)) as [Hl|Hl]; cbn [negb].
  2:{ exists 1. split; [reflexivity|]. split; [|right; reflexivity]. split; [discriminate | congruence]. }
  pose proof (memcmp_ne_spec n1 n2 [] [] Hl eq_refl) as M. cbn [app length] in M. rewrite M. cbn [bind].
  destruct (list_eq_dec N.eq_dec n1 n2) as [->|Hn].
  - exists 0. split; [reflexivity|]. split; [|left; reflexivity]. split; reflexivity.
  - exists 1. split; [reflexivity|]. split; [|right; reflexivity]. split; [discriminate | congruence].
Qed.

(* ---------------- serialize / deserialize ---------------- *)
Definition serialized (sa : sock_addr) : list N :=
  native_bytes 4 (sa_family sa) ++ native_bytes 4 (sa_socktype sa) ++
  native_bytes 4 (N.of_nat (length (sa_name sa))) ++ sa_name sa.

(* the layout is: native int, int, socklen_t, name *)
Theorem sock_addr_serialize_ok sa : sock_addr_serialize_m sa = Ok (serialized sa).
Proof.
  unfold sock_addr_serialize_m, serialized.
  change n_hdr with (4 + (4 + 4))%nat. change n_int with 4%nat. change n_socklen with 4%nat.
  rewrite <- !Nat.add_assoc. rewrite !alloc_app.
  set (F := native_bytes 4 (sa_family sa)). set (T := native_bytes 4 (sa_socktype sa)).
  set (L := native_bytes 4 (N.of_nat (length (sa_name sa)))).
  assert (length F = 4%nat) as LF by apply native_bytes_length.
  assert (length T = 4%nat) as LT by apply native_bytes_length.
  assert (length L = 4%nat) as LL by apply native_bytes_length.
  rewrite (memcpy_at0 (alloc 4 0) _ F 4) by (rewrite ?alloc_length; auto). cbn [bind].
  rewrite (memcpy_at F (alloc 4 0) _ T 4 4) by (rewrite ?alloc_length; auto). cbn [bind].
  rewrite (app_assoc F T).
  rewrite (memcpy_at (F ++ T) (alloc 4 0) _ L (2 * 4) 4) by (rewrite ?alloc_length, ?app_length; auto; lia).
  cbn [bind]. rewrite (app_assoc (F ++ T) L).
  replace (alloc (length (sa_name sa)) 0) with (alloc (length (sa_name sa)) 0 ++ []) by apply app_nil_r.
  rewrite (memcpy_at ((F ++ T) ++ L) (alloc (length (sa_name sa)) 0) [] (sa_name sa) (4 + (4 + 4)) (length (sa_name sa)))
    by (rewrite ?alloc_length, ?app_length; auto; lia).
  rewrite app_nil_r, <- !app_assoc. reflexivity.
Qed.

Theorem sock_addr_deserialize_serialize sa :
  wf_sa sa -> sock_addr_deserialize_m (serialized sa) = Ok (Some sa).
Proof.
  intros (Hf & Ht & Hl). unfold sock_addr_deserialize_m, serialized.
  change n_hdr with 12%nat. change n_int with 4%nat. change n_socklen with 4%nat.
  set (F := native_bytes 4 (sa_family sa)). set (T := native_bytes 4 (sa_socktype sa)).
  set (L := native_bytes 4 (N.of_nat (length (sa_name sa)))).
  assert (length F = 4%nat) as LF by apply native_bytes_length.
  assert (length T = 4%nat) as LT by apply native_bytes_length.
  assert (length L = 4%nat) as LL by apply native_bytes_length.
  rewrite !app_length, LF, LT, LL.
  replace (4 + (4 + (4 + length (sa_name sa))) <? 12)%nat with false by (symmetry; apply Nat.ltb_ge; lia).
  rewrite (memcpy_out0 F _ 4) by auto. cbn [bind].
  rewrite (memcpy_out F T _ 4 4) by auto. cbn [bind].
  rewrite (app_assoc F T).
  rewrite (memcpy_out (F ++ T) L _ (2 * 4) 4) by (rewrite ?app_length; auto; lia). cbn [bind].
  unfold F, T, L. rewrite !native_roundtrip by (change (256 ^ N.of_nat 4) with (2 ^ 32); assumption).
  change (2 ^ 64) with 18446744073709551616. change (2 ^ 32) with 4294967296 in Hl.
  replace (N.of_nat (4 + (4 + (4 + length (sa_name sa)))) =?
           (N.of_nat 12 + N.of_nat (length (sa_name sa))) mod 18446744073709551616) with true
    by (symmetry; apply N.eqb_eq; rewrite N.mod_small by lia; lia).
  cbn [negb]. rewrite Nat2N.id. fold F T L. rewrite (app_assoc (F ++ T) L).
  replace (sa_name sa) with (sa_name sa ++ []) at 2 by apply app_nil_r.
  rewrite (memcpy_out ((F ++ T) ++ L) (sa_name sa) [] 12 _) by (rewrite ?app_length; auto; lia).
  cbn [bind]. destruct sa; reflexivity.
Qed.

Lemma memcpy_read src soff n fill :
  (soff + n <= length src)%nat ->
  memcpy_m (alloc n fill) 0 src soff n = Ok (firstn n (skipn soff src)).
Proof.
  intros H. rewrite memcpy_ok by (rewrite ?alloc_length; lia).
  cbn [firstn app Nat.add]. rewrite (skipn_all2 (n:=n) (alloc n fill)) by (rewrite alloc_length; lia).
  rewrite app_nil_r. reflexivity.
Qed.

Lemma In_firstn' {A} n (l : list A) x : In x (firstn n l) -> In x l.
Proof. intros H. rewrite <- (firstn_skipn n l). apply in_or_app. left. exact H. Qed.
Lemma bytes_ok_firstn n (l : list N) : bytes_ok l -> bytes_ok (firstn n l).
Proof. unfold bytes_ok. rewrite !Forall_forall. intros H x Hx. apply H. eapply In_firstn', Hx. Qed.
Lemma In_skipn {A} n (l : list A) x : In x (skipn n l) -> In x l.
Proof. intros H. rewrite <- (firstn_skipn n l). apply in_or_app. right. exact H. Qed.
Lemma bytes_ok_skipn n (l : list N) : bytes_ok l -> bytes_ok (skipn n l).
Proof. unfold bytes_ok. rewrite !Forall_forall. intros H x Hx. apply H. eapply In_skipn, Hx. Qed.

(* C15: on every buffer the decoder reads only inside the buffer (no Fault), whatever the header
   says; an accepted buffer is exactly header + namelen bytes long *)
Theorem sock_addr_deserialize_no_fault buf :
  bytes_ok buf ->
  exists r, sock_addr_deserialize_m buf = Ok r /\
            match r with
            | Some sa => length buf = (12 + length (sa_name sa))%nat /\ sa_name sa = skipn 12 buf
            | None => True
            end.
Proof.
  intros Hb. unfold sock_addr_deserialize_m.
  change n_hdr with 12%nat. change n_int with 4%nat. change n_socklen with 4%nat.
  destruct (Nat.ltb_spec (length buf) 12) as [Hs|Hs]; [exists None; split; [reflexivity | exact I]|].
  rewrite !memcpy_read by lia. cbn [bind].
  set (namelen := native_val (firstn 4 (skipn (2 * 4) buf))).
  assert (namelen < 2 ^ 32) as Hn.
  { unfold namelen. rewrite native_val_le.
    pose proof (le_val_bound (firstn 4 (skipn (2 * 4) buf))
                  (bytes_ok_firstn _ _ (bytes_ok_skipn _ _ Hb))) as Q.
    rewrite firstn_length, skipn_length in Q.
    replace (Nat.min 4 (length buf - 2 * 4)) with 4%nat in Q by lia. exact Q. }
  change (2 ^ 32) with 4294967296 in Hn. change (2 ^ 64) with 18446744073709551616.
  rewrite N.mod_small by lia.
  destruct (N.eqb_spec (N.of_nat (length buf)) (N.of_nat 12 + namelen)) as [He|He]; cbn [negb];
    [|exists None; split; [reflexivity | exact I]].
  assert (N.to_nat namelen = (length buf - 12)%nat) as Hk by lia.
  rewrite Hk. rewrite memcpy_read by lia. cbn [bind].
  eexists. split; [reflexivity|]. cbn [sa_name]. rewrite firstn_length, skipn_length.
  split; [lia|]. apply firstn_all2. rewrite skipn_length. lia.
Qed.

(* ---------------- strrchr ---------------- *)
Fixpoint last_idx (c : N) (s : list N) (i : nat) (last : option nat) : option nat :=
  match s with
  | [] => last
  | x :: r => last_idx c r (S i) (if x =? c then Some i else last)
  end.

Lemma strrchr_from_ok : forall s pre rest fuel c last,
  no_nul s -> (length s < fuel)%nat ->
  strrchr_from fuel (pre ++ s ++ 0 :: rest) c (length pre) last = Ok (last_idx c s (length pre) last).
Proof.
  induction s as [|x s IH]; intros pre rest fuel c last Hn Hf.
  - destruct fuel as [|f]; [cbn [length] in Hf; lia|]. cbn [strrchr_from app last_idx].
    rewrite rd_mid. reflexivity.
  - destruct fuel as [|f]; [cbn [length] in Hf; lia|]. inversion Hn as [|? ? Hx Hs]; subst.
    cbn [strrchr_from app last_idx]. rewrite rd_mid. cbn [bind].
    destruct (N.eqb_spec x 0) as [?|_]; [contradiction|].
    specialize (IH (pre ++ [x]) rest f c (if x =? c then Some (length pre) else last) Hs).
    rewrite app_length in IH. cbn [length] in IH. rewrite <- app_assoc in IH. cbn [app] in IH.
    replace (S (length pre)) with (length pre + 1)%nat by lia. apply IH. cbn [length] in Hf. lia.
Qed.

Lemma strrchr_m_ok s rest c : no_nul s -> strrchr_m (s ++ 0 :: rest) c = Ok (last_idx c s 0 None).
Proof.
  intros Hn. unfold strrchr_m. apply (strrchr_from_ok s [] rest _ c None Hn).
  rewrite app_length. cbn [length]. lia.
Qed.

Lemma last_idx_bound : forall s c i last k,
  last_idx c s i last = Some k -> last = Some k \/ (i <= k < i + length s)%nat.
Proof.
  induction s as [|x s IH]; intros c i last k H; cbn [last_idx] in H; [left; exact H|].
  apply IH in H. destruct H as [H|H].
  - destruct (x =? c); [inversion H; subst; right; cbn [length]; lia | left; exact H].
  - right. cbn [length]. lia.
Qed.

Lemma last_idx_absent : forall s c i last, ~ In c s -> last_idx c s i last = last.
Proof.
  induction s as [|x s IH]; intros c i last Hn; [reflexivity|]. cbn [last_idx].
  destruct (N.eqb_spec x c) as [->|_]; [exfalso; apply Hn; left; reflexivity|].
  apply IH. intros H. apply Hn. right. exact H.
Qed.

Lemma last_idx_found : forall a c b i last,
  ~ In c b -> last_idx c (a ++ c :: b) i last = Some (i + length a)%nat.
Proof.
  induction a as [|x a IH]; intros c b i last Hn.
  - cbn [app last_idx length]. rewrite N.eqb_refl. rewrite last_idx_absent by exact Hn. f_equal. lia.
  - cbn [app last_idx length]. rewrite IH by exact Hn. f_equal. lia.
Qed.

Lemma list_split_at {A} (s : list A) k d :
  (k < length s)%nat -> s = firstn k s ++ nth k s d :: skipn (S k) s /\ length (firstn k s) = k.
Proof.
  intros H. split.
  - rewrite <- (firstn_skipn k s) at 1. f_equal.
    revert k H. induction s as [|x s IH]; intros [|k] H; cbn [length] in H; try lia; [reflexivity|].
    cbn [skipn nth]. apply IH. lia.
  - rewrite firstn_length. lia.
Qed.

Lemma no_nul_app (a b : list N) : no_nul (a ++ b) <-> no_nul a /\ no_nul b.
Proof. unfold no_nul. apply Forall_app. Qed.

(* ---------------- sock_resolve: the model equals a pure function of the string ---------------- *)
Section Resolve.
  Variable pton6 : list N -> option (list N).
  (* typing of inet_pton(AF_INET6): it fills exactly the 16 bytes of an in6_addr *)
  Hypothesis pton6_len : forall s a, pton6 s = Some a -> length a = 16%nat.

  Definition inet4_spec (ip : list N) (p : N) : resolved :=
    match pton4 ip with
    | None => RFail
    | Some a => RAddrs [sa_ipv4 (p mod 65536) a]
    end.
  Definition inet6_spec (ip : list N) (p : N) : resolved :=
    match pton6 ip with
    | None => RFail
    | Some a => RAddrs [sa_ipv6 (p mod 65536) a]
    end.

  Definition resolve_spec (s : list N) : resolved :=
    if hd 0 s =? 47 then
      (if (n_sun_path <=? length s)%nat then RFail else RAddrs [sa_unix s])
    else
      match last_idx 58 s 0 None with
      | None => RFail
      | Some ci =>
        let h := firstn ci s in
        let t := skipn (S ci) s in
        if negb (hd 0 h =? 91) then RHost h t
        else
          match rev (tl h) with
          | [] => RFail
          | x :: rip =>
            if negb (x =? 93) then RFail
            else
              let ip := rev rip in
              match parse_port t with
              | None => RFail
              | Some p => if existsb (N.eqb 58) ip then inet6_spec ip p else inet4_spec ip p
              end
          end
      end.

  Lemma be_bytes_2 v : be_bytes 2 v = [(v / 256) mod 256; v mod 256].
  Proof. reflexivity. Qed.

  Lemma resolve_inet4_ok ip p :
    sock_resolve_inet_m af_inet n_sin off_sin_family off_sin_port off_sin_addr 4 pton4 ip p = Ok (inet4_spec ip p).
  Proof.
    unfold sock_resolve_inet_m, inet4_spec.
    change n_sin with (2 + (2 + (4 + 8)))%nat. change n_family with 2%nat.
    change (N.to_nat off_sin_family) with 0%nat. change (N.to_nat off_sin_port) with 2%nat.
    change (N.to_nat off_sin_addr) with 4%nat.
    rewrite !alloc_app.
    set (F := native_bytes 2 af_inet). set (P := be_bytes 2 (p mod 65536)).
    rewrite (memcpy_at0 (alloc 2 0) _ F 2) by reflexivity. cbn [bind].
    rewrite (memcpy_at F (alloc 2 0) _ P 2 2) by reflexivity. cbn [bind].
    destruct (pton4 ip) as [a|] eqn:E; [|reflexivity].
    pose proof (pton4_length ip a E) as La.
    rewrite (app_assoc F P).
    rewrite (memcpy_at (F ++ P) (alloc 4 0) _ a 4 4) by (auto; reflexivity). cbn [bind].
    unfold sa_ipv4, sockaddr_in_of. rewrite <- app_assoc. reflexivity.
  Qed.

  Lemma resolve_inet6_ok ip p :
    sock_resolve_inet_m af_inet6 n_sin6 off_sin6_family off_sin6_port off_sin6_addr 16 pton6 ip p =
    Ok (inet6_spec ip p).
  Proof.
    unfold sock_resolve_inet_m, inet6_spec.
    change n_sin6 with (2 + (2 + (4 + (16 + 4))))%nat. change n_family with 2%nat.
    change (N.to_nat off_sin6_family) with 0%nat. change (N.to_nat off_sin6_port) with 2%nat.
    change (N.to_nat off_sin6_addr) with 8%nat.
    rewrite !alloc_app.
    set (F := native_bytes 2 af_inet6). set (P := be_bytes 2 (p mod 65536)).
    rewrite (memcpy_at0 (alloc 2 0) _ F 2) by reflexivity. cbn [bind].
    rewrite (memcpy_at F (alloc 2 0) _ P 2 2) by reflexivity. cbn [bind].
    destruct (pton6 ip) as [a|] eqn:E; [|reflexivity].
    pose proof (pton6_len ip a E) as La.
    rewrite (app_assoc F P). rewrite (app_assoc (F ++ P) (alloc 4 0)).
    rewrite (memcpy_at ((F ++ P) ++ alloc 4 0) (alloc 16 0) _ a 8 16) by (auto; reflexivity). cbn [bind].
    unfold sa_ipv6, sockaddr_in6_of. rewrite <- !app_assoc. reflexivity.
  Qed.

  Lemma resolve_unix_ok s :
    no_nul s ->
    sock_resolve_unix_m (cstr s) =
    Ok (if (n_sun_path <=? length s)%nat then RFail else RAddrs [sa_unix s]).
  Proof.
    intros Hn. unfold sock_resolve_unix_m, cstr. rewrite strlen_m_ok0 by exact Hn. cbn [bind].
    destruct (Nat.leb_spec n_sun_path (length s)) as [Hl|Hl]; [reflexivity|].
    change n_sun_path with 108%nat in Hl.
    change n_sun with (2 + 108)%nat. change n_family with 2%nat.
    change (N.to_nat off_sun_family) with 0%nat. change (N.to_nat off_sun_path) with 2%nat.
    replace 108%nat with (S (length s) + (107 - length s))%nat at 1 by lia.
    rewrite !alloc_app.
    set (F := native_bytes 2 af_unix).
    rewrite (memcpy_at0 (alloc 2 0) _ F 2) by reflexivity. cbn [bind].
    rewrite (memcpy_at F (alloc (S (length s)) 0) _ (s ++ [0]) 2 (S (length s)))
      by (rewrite ?alloc_length, ?app_length; cbn [length]; auto; lia).
    cbn [bind]. unfold sa_unix, sockaddr_un_of. change n_family with 2%nat. fold F.
    change n_sun_path with 108%nat. rewrite <- app_assoc.
    replace (108 - length s)%nat with (1 + (107 - length s))%nat by lia.
    unfold alloc. rewrite repeat_app. reflexivity.
  Qed.

  Lemma rd_hd (h r : list N) : rd (h ++ 0 :: r) 0 = Ok (hd 0 h).
  Proof. destruct h; reflexivity. Qed.

  Lemma hd_nonzero_cons (h : list N) c : hd 0 h = c -> c <> 0 -> exists h', h = c :: h'.
  Proof. destruct h as [|x h']; cbn [hd]; intros H Hc; [congruence | subst; eauto]. Qed.

  (* for every C string: never a Fault, and the result is the pure function resolve_spec *)
  Theorem sock_resolve_model_spec s :
    no_nul s -> sock_resolve_m pton6 (cstr s) = Ok (resolve_spec s).
  Proof.
    intros Hn. unfold sock_resolve_m, resolve_spec. unfold cstr at 1. rewrite rd_hd. cbn [bind].
    destruct (N.eqb_spec (hd 0 s) 47) as [E47|N47]; [apply resolve_unix_ok, Hn|].
    unfold cstr. rewrite strlen_m_ok0 by exact Hn. cbn [bind].
    replace (S (length s)) with (length (s ++ [0])) by (rewrite app_length; cbn [length]; lia).
    rewrite memcpy_whole. cbn [bind]. rewrite strrchr_m_ok by exact Hn. cbn [bind].
    destruct (last_idx 58 s 0 None) as [ci|] eqn:El; [|reflexivity].
    destruct (last_idx_bound _ _ _ _ _ El) as [?|[_ Hci]]; [discriminate|]. cbn [Nat.add] in Hci.
    destruct (list_split_at s ci 0 Hci) as [Es Lh].
    remember (firstn ci s) as h eqn:Dh. remember (skipn (S ci) s) as t eqn:Dt.
    remember (nth ci s 0) as x0 eqn:Dx. clear Dh Dt Dx El Hci. subst s. subst ci.
    assert (no_nul h /\ no_nul t) as [Nh Nt].
    { apply no_nul_app in Hn. destruct Hn as [A B]. inversion B as [|? ? B1 B2]. split; assumption. }
    rewrite <- app_assoc. cbn [app]. rewrite wr_mid. cbn [bind].
    rewrite rd_hd. cbn [bind].
    destruct (N.eqb_spec (hd 0 h) 91) as [E91|N91]; cbn [negb].
    2:{ rewrite cstr_at_ok0 by exact Nh. cbn [bind].
        replace (h ++ 0 :: t ++ [0]) with ((h ++ [0]) ++ t ++ 0 :: []) by (rewrite <- app_assoc; reflexivity).
        replace (S (length h)) with (length (h ++ [0])) by (rewrite app_length; cbn [length]; lia).
        rewrite cstr_at_ok by exact Nt. reflexivity. }
    destruct (hd_nonzero_cons h 91 E91 ltac:(lia)) as [h' Eh]. rewrite Eh. cbn [tl].
    assert (no_nul h') as Nh' by (rewrite Eh in Nh; inversion Nh; assumption).
    rewrite strlen_m_ok0 by (rewrite <- Eh; exact Nh). cbn [bind length].
    destruct (rev h') as [|x rip] eqn:Er.
    { (* "[" alone: the last character is '[' itself *)
      assert (h' = []) as -> by (rewrite <- (rev_involutive h'), Er; reflexivity).
      cbn [length app rd nth_error bind N.eqb Pos.eqb negb]. reflexivity. }
    assert (h' = rev rip ++ [x]) as Eh' by (rewrite <- (rev_involutive h'), Er; reflexivity).
    set (ip := rev rip) in *. rewrite Eh'.
    assert (no_nul ip /\ x <> 0) as [Ni Nx].
    { rewrite Eh' in Nh'. apply no_nul_app in Nh'. destruct Nh' as [A B]. inversion B; subst. split; assumption. }
    replace ((91 :: ip ++ [x]) ++ 0 :: t ++ [0]) with ((91 :: ip) ++ x :: 0 :: t ++ [0])
      by (cbn [app]; rewrite <- app_assoc; reflexivity).
    replace (length (ip ++ [x])) with (length (91 :: ip)) by (rewrite app_length; cbn [length]; lia).
    rewrite rd_mid. cbn [bind].
    destruct (N.eqb_spec x 93) as [->|N93]; cbn [negb]; [|reflexivity].
    (* strip the brackets *)
    replace ((91 :: ip) ++ 93 :: 0 :: t ++ [0]) with ([91] ++ (ip ++ [93]) ++ 0 :: t ++ [0])
      by (cbn [app]; rewrite <- app_assoc; reflexivity).
    pose proof (strlen_m_ok [91] (ip ++ [93]) (t ++ [0])) as SL. cbn [length] in SL.
    rewrite SL by (apply no_nul_app; split; [exact Ni | constructor; [lia | constructor]]). clear SL.
    cbn [bind]. rewrite app_length. cbn [length]. replace (length ip + 1)%nat with (S (length ip)) by lia.
    replace ([91] ++ (ip ++ [93]) ++ 0 :: t ++ [0]) with ((91 :: ip) ++ 93 :: 0 :: t ++ [0])
      by (cbn [app]; rewrite <- app_assoc; reflexivity).
    replace (1 + length ip)%nat with (length (91 :: ip)) by reflexivity.
    rewrite wr_mid. cbn [bind].
    (* the port string *)
    replace ((91 :: ip) ++ 0 :: 0 :: t ++ [0]) with (((91 :: ip) ++ [0; 0]) ++ t ++ 0 :: [])
      by (rewrite <- app_assoc; reflexivity).
    replace (S (S (S (length ip)))) with (length ((91 :: ip) ++ [0; 0]))
      by (rewrite app_length; cbn [length]; lia).
    rewrite cstr_at_ok by exact Nt. cbn [bind].
    destruct (parse_port t) as [p|]; [|reflexivity].
    replace (((91 :: ip) ++ [0; 0]) ++ t ++ [0]) with ([91] ++ ip ++ 0 :: 0 :: t ++ [0])
      by (cbn [app]; rewrite <- app_assoc; reflexivity).
    pose proof (cstr_at_ok [91] ip (0 :: t ++ [0]) Ni) as CA. cbn [length] in CA. rewrite CA. clear CA. cbn [bind].
    destruct (existsb (N.eqb 58) ip); [apply resolve_inet6_ok | apply resolve_inet4_ok].
  Qed.

  (* C15: sock_resolve never leaves the string it was given *)
  Corollary sock_resolve_no_fault s : no_nul s -> exists r, sock_resolve_m pton6 (cstr s) = Ok r.
  Proof. intros H. eexists. apply sock_resolve_model_spec, H. Qed.
End Resolve.

(* ---------------- printing, and resolving what was printed ---------------- *)
Lemma fmt_pp4 x n : fmt_interp fmt_pp_ipv4 [PStr x; PNum n] = Ok (91 :: x ++ 93 :: 58 :: dec_digits n ++ []).
Proof. reflexivity. Qed.
Lemma fmt_pp6 x n : fmt_interp fmt_pp_ipv6 [PStr x; PNum n] = Ok (91 :: x ++ 93 :: 58 :: dec_digits n ++ []).
Proof. reflexivity. Qed.

Lemma be_val_be_bytes_2 port : port < 65536 -> be_val (be_bytes 2 port) = port.
Proof. intros H. apply be_val_be_bytes. exact H. Qed.

Lemma firstn_exact {A} (a b : list A) : firstn (length a) (a ++ b) = a.
Proof. rewrite firstn_app, firstn_all, Nat.sub_diag. cbn [firstn]. apply app_nil_r. Qed.
Lemma skipn_exact {A} (a b : list A) : skipn (length a) (a ++ b) = b.
Proof. rewrite skipn_app, skipn_all, Nat.sub_diag. reflexivity. Qed.

Lemma firstn_skipn_mid {A} (pre mid post : list A) n m :
  length pre = n -> length mid = m -> firstn m (skipn n (pre ++ mid ++ post)) = mid.
Proof. intros <- <-. rewrite skipn_exact. apply firstn_exact. Qed.

(* ---------------- prettyprint_unix as repaired (F14) ---------------- *)
(* the path a Unix name denotes: the bytes of the sun_path region up to its first NUL, or all of
   them when there is none *)
Fixpoint until_nul (l : list N) : list N :=
  match l with
  | [] => []
  | c :: r => if c =? 0 then [] else c :: until_nul r
  end.

Lemma until_nul_length l : (length (until_nul l) <= length l)%nat.
Proof. induction l as [|c r IH]; [apply Nat.le_refl|]. cbn [until_nul]. destruct (c =? 0); cbn [length]; lia. Qed.

Lemma until_nul_prefix l : firstn (length (until_nul l)) l = until_nul l.
Proof.
  induction l as [|c r IH]; [reflexivity|]. cbn [until_nul]. destruct (c =? 0); [reflexivity|].
  cbn [length firstn]. rewrite IH. reflexivity.
Qed.

Lemma until_nul_no_nul l : no_nul (until_nul l).
Proof.
  induction l as [|c r IH]; [constructor|]. cbn [until_nul].
  destruct (N.eqb_spec c 0); [constructor | constructor; assumption].
Qed.

Lemma until_nul_app s rest : no_nul s -> until_nul (s ++ 0 :: rest) = s.
Proof.
  intros H. induction H as [|c r Hc Hr IH]; [reflexivity|]. cbn [app until_nul].
  destruct (N.eqb_spec c 0); [contradiction|]. rewrite IH. reflexivity.
Qed.

Lemma skipn_nth_cons (s : list N) i : (i < length s)%nat -> skipn i s = nth i s 0 :: skipn (S i) s.
Proof.
  revert i. induction s as [|x r IH]; intros [|k] H; cbn [length] in H; try lia; [reflexivity|].
  cbn [skipn nth]. apply IH. lia.
Qed.

(* memchr over the whole rest of the object: never a Fault, finds the end of until_nul *)
Lemma memchr0_until s off : forall n i, (off + i + n = length s)%nat ->
  exists e, memchr0_from s off i n = Ok e /\
    ((match e with Some k => k | None => (i + n)%nat end)
             = (i + length (until_nul (skipn (off + i) s)))%nat).
Proof.
  induction n as [|n IH]; intros i H.
  - exists None. split; [reflexivity|]. rewrite skipn_all2 by lia. reflexivity.
  - cbn [memchr0_from]. rewrite rd_nth by lia. cbn [bind].
    rewrite (skipn_nth_cons s (off + i)) by lia. cbn [until_nul].
    destruct (nth (off + i) s 0 =? 0).
    + exists (Some i). split; [reflexivity|]. cbn [length]. lia.
    + destruct (IH (S i)) as [e [R V]]; [lia|]. exists e. split; [exact R|].
      replace (S (off + i)) with (off + S i)%nat by lia. cbn [length].
      destruct e as [k|]; lia.
Qed.

Lemma skipn_alloc_last n fill : skipn n (alloc (S n) fill) = [fill].
Proof.
  unfold alloc. induction n as [|n IH]; [reflexivity|]. cbn [repeat skipn] in *. exact IH.
Qed.

(* the repaired routine on EVERY address: NULL when the name does not reach sun_path, otherwise
   exactly the path the name denotes; no Fault whatever the name bytes and length are *)
Theorem prettyprint_unix_exact sa :
  prettyprint_unix_m sa =
  Ok (if (length (sa_name sa) <? N.to_nat off_sun_path)%nat then None
      else Some (until_nul (skipn (N.to_nat off_sun_path) (sa_name sa)))).
Proof.
  unfold prettyprint_unix_m. set (off := N.to_nat off_sun_path). set (name := sa_name sa).
  destruct (Nat.ltb_spec (length name) off) as [Hs|Hs]; [reflexivity|]. cbv zeta.
  destruct (memchr0_until name off (length name - off) 0) as [e [R V]]; [lia|].
  rewrite R. cbn [bind]. cbn [Nat.add] in V. rewrite Nat.add_0_r in V. rewrite V.
  set (U := until_nul (skipn off name)).
  assert (HU : (length U <= length name - off)%nat).
  { unfold U. pose proof (until_nul_length (skipn off name)) as Q. rewrite skipn_length in Q. exact Q. }
  rewrite memcpy_ok by (rewrite ?alloc_length; lia). cbn [bind firstn app Nat.add].
  assert (PU : firstn (length U) (skipn off name) = U) by apply until_nul_prefix.
  rewrite PU, skipn_alloc_last.
  rewrite wr_mid. cbn [bind]. rewrite firstn_exact. reflexivity.
Qed.

Section RoundTrip.
  Variable pton6 : list N -> option (list N).
  Variable ntop6 : list N -> list N.
  (* ASSUMED of the libc conversions for AF_INET6 (sampled by the correspondence run): *)
  Hypothesis pton6_len : forall s a, pton6 s = Some a -> length a = 16%nat.
  Hypothesis pton6_ntop6 : forall a, length a = 16%nat -> bytes_ok a -> pton6 (ntop6 a) = Some a.
  Hypothesis ntop6_shape : forall a, length a = 16%nat -> bytes_ok a -> In 58 (ntop6 a) /\ no_nul (ntop6 a).

  Lemma prettyprint_ipv4 port a0 a1 a2 a3 :
    port < 65536 ->
    sock_addr_prettyprint_m ntop6 (sa_ipv4 port [a0; a1; a2; a3]) =
    Ok (Some (91 :: ntop4 [a0; a1; a2; a3] ++ 93 :: 58 :: dec_digits port)).
  Proof. clear pton6_len pton6_ntop6 ntop6_shape.
    intros Hp. unfold sock_addr_prettyprint_m, sa_ipv4. cbn [sa_family sa_name].
    change (af_inet =? af_inet) with true. cbv iota.
    unfold prettyprint_inet. cbn [sa_name].
    change (length (sockaddr_in_of port [a0; a1; a2; a3])) with 16%nat.
    change (negb (16 =? n_sin)%nat) with false. cbv iota.
    change n_sin with (length (sockaddr_in_of port [a0; a1; a2; a3])). rewrite memcpy_whole. cbn [bind].
    change (firstn 4 (skipn (N.to_nat off_sin_addr) (sockaddr_in_of port [a0; a1; a2; a3]))) with [a0; a1; a2; a3].
    change (firstn 2 (skipn (N.to_nat off_sin_port) (sockaddr_in_of port [a0; a1; a2; a3]))) with (be_bytes 2 port).
    rewrite be_val_be_bytes_2 by exact Hp. rewrite fmt_pp4. cbn [bind]. rewrite app_nil_r. reflexivity.
  Qed.

  Lemma prettyprint_ipv6 port a :
    port < 65536 -> length a = 16%nat ->
    sock_addr_prettyprint_m ntop6 (sa_ipv6 port a) = Ok (Some (91 :: ntop6 a ++ 93 :: 58 :: dec_digits port)).
  Proof. clear pton6_len pton6_ntop6 ntop6_shape.
    intros Hp La. unfold sock_addr_prettyprint_m, sa_ipv6. cbn [sa_family sa_name].
    change (af_inet6 =? af_inet) with false. change (af_inet6 =? af_inet6) with true. cbv iota.
    unfold prettyprint_inet. cbn [sa_name].
    assert (length (sockaddr_in6_of port a) = 28%nat) as L28.
    { unfold sockaddr_in6_of. rewrite !app_length, La. reflexivity. }
    rewrite L28. change (negb (28 =? n_sin6)%nat) with false. cbv iota.
    change n_sin6 with 28%nat. rewrite <- L28. rewrite memcpy_whole. cbn [bind].
    change (N.to_nat off_sin6_addr) with 8%nat. change (N.to_nat off_sin6_port) with 2%nat.
    assert (firstn 16 (skipn 8 (sockaddr_in6_of port a)) = a) as Ea.
    { unfold sockaddr_in6_of. rewrite !app_assoc. rewrite <- (app_assoc _ a).
      apply firstn_skipn_mid; [reflexivity | exact La]. }
    assert (firstn 2 (skipn 2 (sockaddr_in6_of port a)) = be_bytes 2 port) as Eport by reflexivity.
    rewrite Ea, Eport. rewrite be_val_be_bytes_2 by exact Hp. rewrite fmt_pp6. cbn [bind]. rewrite app_nil_r.
    reflexivity.
  Qed.

  Lemma prettyprint_unix path :
    no_nul path -> (length path < n_sun_path)%nat ->
    sock_addr_prettyprint_m ntop6 (sa_unix path) = Ok (Some path).
  Proof. clear pton6_len pton6_ntop6 ntop6_shape.
    intros Hn Hl. unfold sock_addr_prettyprint_m, sa_unix. cbn [sa_family sa_name].
    change (af_unix =? af_inet) with false. change (af_unix =? af_inet6) with false.
    change (af_unix =? af_unix) with true. cbv iota.
    rewrite prettyprint_unix_exact. cbn [sa_name].
    unfold sockaddr_un_of. change (N.to_nat off_sun_path) with (length (native_bytes n_family af_unix)).
    rewrite !app_length, repeat_length.
    replace (length (native_bytes n_family af_unix) + (length path + (n_sun_path - length path)) <?
             length (native_bytes n_family af_unix))%nat with false by (symmetry; apply Nat.ltb_ge; lia).
    rewrite skipn_exact.
    replace (n_sun_path - length path)%nat with (S (n_sun_path - length path - 1)) by lia. cbn [repeat].
    rewrite until_nul_app by exact Hn. reflexivity.
  Qed.

  (* C15: the printer on EVERY address value - any family, any name bytes, any name length (so in
     particular on whatever sock_addr_deserialize accepted): never a Fault.  For AF_UNIX the result
     is NULL when the name does not reach sun_path and otherwise the bytes of the sun_path region up
     to its first NUL or its end; it contains no NUL and lies inside the name. *)
  Theorem sock_addr_prettyprint_no_fault sa :
    exists r, sock_addr_prettyprint_m ntop6 sa = Ok r /\
    (sa_family sa = af_unix ->
               r = if (length (sa_name sa) <? N.to_nat off_sun_path)%nat then None
                   else Some (until_nul (skipn (N.to_nat off_sun_path) (sa_name sa)))).
  Proof. clear pton6_len pton6_ntop6 ntop6_shape.
    unfold sock_addr_prettyprint_m.
    destruct (N.eqb_spec (sa_family sa) af_inet) as [E4|N4].
    { unfold prettyprint_inet.
      destruct (Nat.eqb_spec (length (sa_name sa)) n_sin) as [L|L]; cbn [negb].
      - rewrite <- L. rewrite memcpy_whole. cbn [bind]. rewrite fmt_pp4. cbn [bind].
        eexists. split; [reflexivity|]. intros F. rewrite F in E4. discriminate.
      - eexists. split; [reflexivity|]. intros F. rewrite F in E4. discriminate. }
    destruct (N.eqb_spec (sa_family sa) af_inet6) as [E6|N6].
    { unfold prettyprint_inet.
      destruct (Nat.eqb_spec (length (sa_name sa)) n_sin6) as [L|L]; cbn [negb].
      - rewrite <- L. rewrite memcpy_whole. cbn [bind]. rewrite fmt_pp6. cbn [bind].
        eexists. split; [reflexivity|]. intros F. rewrite F in E6. discriminate.
      - eexists. split; [reflexivity|]. intros F. rewrite F in E6. discriminate. }
    destruct (N.eqb_spec (sa_family sa) af_unix) as [Eu|Nu].
    - rewrite prettyprint_unix_exact. eexists. split; [reflexivity|]. intros _. reflexivity.
    - eexists. split; [reflexivity|]. intros F. contradiction.
  Qed.

  (* ... and composed with the decoder: whatever bytes arrive, decoding and then printing stays
     inside the buffer and inside the decoded name *)
  Theorem deserialize_then_prettyprint_no_fault buf :
    bytes_ok buf ->
    exists r, bind (sock_addr_deserialize_m buf)
                   (fun o => match o with
                             | None => Ok None
                             | Some sa => sock_addr_prettyprint_m ntop6 sa
                             end) = Ok r.
  Proof. clear pton6_len pton6_ntop6 ntop6_shape.
    intros Hb. destruct (sock_addr_deserialize_no_fault buf Hb) as [o [E _]]. rewrite E. cbn [bind].
    destruct o as [sa|]; [|eexists; reflexivity].
    destruct (sock_addr_prettyprint_no_fault sa) as [r [P _]]. exists r. exact P.
  Qed.

  (* the bracket / last-colon glue on a printed address *)
  Lemma resolve_spec_bracket ip ps p :
    ~ In 58 ps -> parse_port ps = Some p ->
    resolve_spec pton6 (91 :: ip ++ 93 :: 58 :: ps) =
    if existsb (N.eqb 58) ip then inet6_spec pton6 ip p else inet4_spec ip p.
  Proof. clear pton6_len pton6_ntop6 ntop6_shape ntop6.
    intros Hc Hp. unfold resolve_spec. cbn [hd]. change (91 =? 47) with false. cbv iota.
    replace (91 :: ip ++ 93 :: 58 :: ps) with ((91 :: ip ++ [93]) ++ 58 :: ps)
      by (cbn [app]; rewrite <- app_assoc; reflexivity).
    rewrite last_idx_found by exact Hc. cbn [Nat.add].
    rewrite firstn_exact.
    replace (S (length (91 :: ip ++ [93]))) with (length ((91 :: ip ++ [93]) ++ [58]))
      by (rewrite app_length; cbn [length]; lia).
    replace ((91 :: ip ++ [93]) ++ 58 :: ps) with (((91 :: ip ++ [93]) ++ [58]) ++ ps)
      by (rewrite <- app_assoc; reflexivity).
    rewrite skipn_exact. cbn [hd tl]. change (91 =? 91) with true. cbn [negb].
    rewrite rev_app_distr. cbn [rev app]. change (93 =? 93) with true. cbn [negb].
    rewrite rev_involutive, Hp. reflexivity.
  Qed.

  Theorem resolve_prettyprint_ipv4 port a0 a1 a2 a3 :
    a0 < 256 -> a1 < 256 -> a2 < 256 -> a3 < 256 -> 1 <= port <= 65535 ->
    exists str, sock_addr_prettyprint_m ntop6 (sa_ipv4 port [a0; a1; a2; a3]) = Ok (Some str) /\
                no_nul str /\
                sock_resolve_m pton6 (cstr str) = Ok (RAddrs [sa_ipv4 port [a0; a1; a2; a3]]).
  Proof. clear pton6_ntop6 ntop6_shape.
    intros H0 H1 H2 H3 [Hp1 Hp2].
    assert (port < 65536) as Hp by lia.
    destruct (dec_digits_port port Hp) as (Dd & _ & Dp). specialize (Dp Hp1).
    pose proof (ntop4_chars a0 a1 a2 a3 H0 H1 H2 H3) as Ch.
    assert (forall c, ip4_char c = false -> ~ In c (ntop4 [a0; a1; a2; a3])) as NoC.
    { intros c Hc Hin. rewrite forallb_forall in Ch. specialize (Ch c Hin). congruence. }
    exists (91 :: ntop4 [a0; a1; a2; a3] ++ 93 :: 58 :: dec_digits port).
    split; [apply prettyprint_ipv4; exact Hp|].
    assert (no_nul (91 :: ntop4 [a0; a1; a2; a3] ++ 93 :: 58 :: dec_digits port)) as Nn.
    { constructor; [lia|]. apply no_nul_app. split.
      - unfold no_nul. rewrite Forall_forall. intros x Hx ->. exact (NoC 0 eq_refl Hx).
      - constructor; [lia|]. constructor; [lia|]. apply digits_no_nul, Dd. }
    split; [exact Nn|].
    rewrite (sock_resolve_model_spec pton6 pton6_len) by exact Nn.
    rewrite (resolve_spec_bracket _ _ port) by first [exact Dp | apply digits_no_char; [exact Dd | reflexivity]].
    replace (existsb (N.eqb 58) (ntop4 [a0; a1; a2; a3])) with false.
    2:{ symmetry. apply not_true_is_false. intros E. apply existsb_exists in E. destruct E as (x & Hx & Ex).
        apply N.eqb_eq in Ex. subst x. exact (NoC 58 eq_refl Hx). }
    unfold inet4_spec. rewrite pton4_ntop4 by assumption. rewrite N.mod_small by lia. reflexivity.
  Qed.

  Theorem resolve_prettyprint_ipv6 port a :
    length a = 16%nat -> bytes_ok a -> 1 <= port <= 65535 ->
    exists str, sock_addr_prettyprint_m ntop6 (sa_ipv6 port a) = Ok (Some str) /\
                no_nul str /\
                sock_resolve_m pton6 (cstr str) = Ok (RAddrs [sa_ipv6 port a]).
  Proof.
    intros La Hb [Hp1 Hp2].
    assert (port < 65536) as Hp by lia.
    destruct (dec_digits_port port Hp) as (Dd & _ & Dp). specialize (Dp Hp1).
    destruct (ntop6_shape a La Hb) as [Hc Hn6].
    exists (91 :: ntop6 a ++ 93 :: 58 :: dec_digits port).
    split; [apply prettyprint_ipv6; assumption|].
    assert (no_nul (91 :: ntop6 a ++ 93 :: 58 :: dec_digits port)) as Nn.
    { constructor; [lia|]. apply no_nul_app. split; [exact Hn6|].
      constructor; [lia|]. constructor; [lia|]. apply digits_no_nul, Dd. }
    split; [exact Nn|].
    rewrite (sock_resolve_model_spec pton6 pton6_len) by exact Nn.
    rewrite (resolve_spec_bracket _ _ port) by first [exact Dp | apply digits_no_char; [exact Dd | reflexivity]].
    replace (existsb (N.eqb 58) (ntop6 a)) with true.
    2:{ symmetry. apply existsb_exists. exists 58. split; [exact Hc | reflexivity]. }
    unfold inet6_spec. rewrite pton6_ntop6 by assumption. rewrite N.mod_small by lia. reflexivity.
  Qed.

  Theorem resolve_prettyprint_unix path :
    no_nul path -> hd 0 path = 47 -> (length path < n_sun_path)%nat ->
    sock_addr_prettyprint_m ntop6 (sa_unix path) = Ok (Some path) /\
    sock_resolve_m pton6 (cstr path) = Ok (RAddrs [sa_unix path]).
  Proof. clear pton6_ntop6 ntop6_shape.
    intros Hn Hh Hl. split; [apply prettyprint_unix; assumption|].
    rewrite (sock_resolve_model_spec pton6 pton6_len) by exact Hn.
    unfold resolve_spec. rewrite Hh. change (47 =? 47) with true. cbv iota.
    replace (n_sun_path <=? length path)%nat with false by (symmetry; apply Nat.leb_gt; exact Hl).
    reflexivity.
  Qed.

  (* a literal resolves to the address it denotes: "[a.b.c.d]:port", "[v6 text]:port" *)
  Theorem resolve_ipv4_literal ip ps p a :
    no_nul ip -> no_nul ps -> ~ In 58 ip -> ~ In 58 ps ->
    parse_port ps = Some p -> pton4 ip = Some a ->
    sock_resolve_m pton6 (cstr (91 :: ip ++ 93 :: 58 :: ps)) = Ok (RAddrs [sa_ipv4 (p mod 65536) a]).
  Proof. clear pton6_ntop6 ntop6_shape ntop6.
    intros Ni Np Ci Cp Hp Ha.
    rewrite (sock_resolve_model_spec pton6 pton6_len).
    2:{ constructor; [lia|]. apply no_nul_app. split; [exact Ni|]. constructor; [lia|]. constructor; [lia|exact Np]. }
    rewrite (resolve_spec_bracket _ _ p) by assumption.
    replace (existsb (N.eqb 58) ip) with false.
    2:{ symmetry. apply not_true_is_false. intros E. apply existsb_exists in E. destruct E as (x & Hx & Ex).
        apply N.eqb_eq in Ex. subst x. exact (Ci Hx). }
    unfold inet4_spec. rewrite Ha. reflexivity.
  Qed.

  Theorem resolve_ipv6_literal ip ps p a :
    no_nul ip -> no_nul ps -> In 58 ip -> ~ In 58 ps ->
    parse_port ps = Some p -> pton6 ip = Some a ->
    sock_resolve_m pton6 (cstr (91 :: ip ++ 93 :: 58 :: ps)) = Ok (RAddrs [sa_ipv6 (p mod 65536) a]).
  Proof. clear pton6_ntop6 ntop6_shape ntop6.
    intros Ni Np Ci Cp Hp Ha.
    rewrite (sock_resolve_model_spec pton6 pton6_len).
    2:{ constructor; [lia|]. apply no_nul_app. split; [exact Ni|]. constructor; [lia|]. constructor; [lia|exact Np]. }
    rewrite (resolve_spec_bracket _ _ p) by assumption.
    replace (existsb (N.eqb 58) ip) with true.
    2:{ symmetry. apply existsb_exists. exists 58. split; [exact Ci | reflexivity]. }
    unfold inet6_spec. rewrite Ha. reflexivity.
  Qed.
End RoundTrip.

(* ---------------- sock_addr_ensure_port ---------------- *)
Lemma fmt_port0_host x : fmt_interp fmt_ensure_port_host [PStr x] = Ok (x ++ [58; 48]).
Proof. reflexivity. Qed.
Lemma fmt_port0_addr x : fmt_interp fmt_ensure_port_addr [PStr x] = Ok (x ++ [58; 48]).
Proof. reflexivity. Qed.

(* C15: never a Fault; the result is the string itself or the string with ":0" appended *)
Theorem sock_addr_ensure_port_no_fault s :
  no_nul s -> exists r, sock_addr_ensure_port_m (cstr s) = Ok r /\ (r = s \/ r = s ++ [58; 48]).
Proof.
  intros Hn. unfold sock_addr_ensure_port_m, cstr.
  rewrite strrchr_m_ok by exact Hn. cbn [bind]. rewrite cstr_at_ok0 by exact Hn. cbn [bind].
  rewrite rd_hd. cbn [bind].
  destruct (last_idx 58 s 0 None) as [ci|] eqn:El.
  - destruct ci as [|k]; [exists s; auto|].
    destruct (hd 0 s =? 47); [exists s; auto|].
    destruct (negb (hd 0 s =? 91)); [exists s; auto|].
    destruct (last_idx_bound _ _ _ _ _ El) as [?|[_ Hk]]; [discriminate|]. cbn [Nat.add] in Hk.
    destruct (rd_ok (s ++ [0]) k) as (b & Eb & _); [rewrite app_length; cbn [length]; lia|].
    rewrite Eb. cbn [bind]. destruct (negb (b =? 93)); [rewrite fmt_port0_addr|]; eexists; eauto.
  - destruct (hd 0 s =? 47); [exists s; auto|].
    destruct (negb (hd 0 s =? 91)); [rewrite fmt_port0_host | rewrite fmt_port0_addr]; eexists; eauto.
Qed.

(* ---------------- non-vacuity ---------------- *)
Example resolve_example_ipv4 :      (* "[1.2.3.4]:80" *)
  sock_resolve_x (cstr [91; 49; 46; 50; 46; 51; 46; 52; 93; 58; 56; 48]) = Ok (RAddrs [sa_ipv4 80 [1; 2; 3; 4]]).
Proof. vm_compute. reflexivity. Qed.
Example resolve_example_ipv6 :      (* "[::1]:65535" with the executable glibc-style model *)
  sock_resolve_x (cstr [91; 58; 58; 49; 93; 58; 54; 53; 53; 51; 53]) =
  Ok (RAddrs [sa_ipv6 65535 [0; 0; 0; 0; 0; 0; 0; 0; 0; 0; 0; 0; 0; 0; 0; 1]]).
Proof. vm_compute. reflexivity. Qed.
Example resolve_example_fail :      (* "[1.2.3.4]:0", "[", "[]:80" *)
  sock_resolve_x (cstr [91; 49; 46; 50; 46; 51; 46; 52; 93; 58; 48]) = Ok RFail /\
  sock_resolve_x (cstr [91]) = Ok RFail /\ sock_resolve_x (cstr [91; 93; 58; 56; 48]) = Ok RFail.
Proof. repeat split; vm_compute; reflexivity. Qed.
Example resolve_example_unterminated : sock_resolve_x [91; 58] = Fault.
Proof. vm_compute. reflexivity. Qed.
(* regression for finding F14: the 18-byte serialised address (family AF_UNIX, type 1, namelen 6,
   name = family + "/bcd" without terminator) is accepted by the decoder; the printer as it was
   before the repair (strdup of sun_path, namelen ignored) leaves the 6-byte name block; the
   repaired one prints "/bcd".  Likewise a name that stops before sun_path. *)
Example prettyprint_unix_regression_F14 :
  let buf := [1; 0; 0; 0; 1; 0; 0; 0; 6; 0; 0; 0; 1; 0; 47; 98; 99; 100] in
  let sa := mk_sa 1 1 [1; 0; 47; 98; 99; 100] in
  sock_addr_deserialize_m buf = Ok (Some sa) /\
    prettyprint_unix_old_m sa = Fault /\
    sock_addr_prettyprint_x sa = Ok (Some [47; 98; 99; 100]) /\
    prettyprint_unix_old_m (mk_sa 1 1 [1; 0]) = Fault /\
    sock_addr_prettyprint_x (mk_sa 1 1 [1; 0]) = Ok (Some []) /\
    sock_addr_prettyprint_x (mk_sa 1 1 [1]) = Ok None.
Proof. vm_compute. repeat split; reflexivity. Qed.
Example deserialize_example_short :
  sock_addr_deserialize_m [2; 0; 0; 0; 1; 0; 0; 0; 16; 0; 0; 0; 2; 0] = Ok None.
Proof. vm_compute. reflexivity. Qed.
Example wf_sa_example : wf_sa (sa_ipv4 80 [1; 2; 3; 4]).
Proof. unfold wf_sa. cbn. repeat split; lia. Qed.

(* M4: a socket address survives serialise / deserialise *)
Theorem sock_addr_serialize_roundtrip sa :
  wf_sa sa ->
  exists buf, sock_addr_serialize_m sa = Ok buf /\
              buf = native_bytes 4 (sa_family sa) ++ native_bytes 4 (sa_socktype sa) ++
                    native_bytes 4 (N.of_nat (length (sa_name sa))) ++ sa_name sa /\
              sock_addr_deserialize_m buf = Ok (Some sa).
Proof.
  intros H. exists (serialized sa). split; [apply sock_addr_serialize_ok|].
  split; [reflexivity | apply sock_addr_deserialize_serialize, H].
Qed.

(* The three laws assumed of the AF_INET6 text conversions are jointly satisfiable (so the IPv6
   round-trip theorem is not vacuous): a toy pair - ':' followed by two letters per byte - has them.
   That the real inet_ntop / inet_pton have them is what the correspondence run samples. *)
Definition toy_ntop6 (a : list N) : list N := 58 :: flat_map (fun b => [65 + b / 16; 65 + b mod 16]) a.
Fixpoint toy_unpair (s : list N) : option (list N) :=
  match s with
  | [] => Some []
  | h :: l :: r => option_map (cons ((h - 65) * 16 + (l - 65))) (toy_unpair r)
  | _ => None
  end.
Definition toy_pton6 (s : list N) : option (list N) :=
  match s with
  | 58 :: r => match toy_unpair r with
               | Some a => if Nat.eqb (length a) 16 then Some a else None
               | None => None
               end
  | _ => None
  end.

Lemma toy_unpair_ok a : toy_unpair (flat_map (fun b => [65 + b / 16; 65 + b mod 16]) a) = Some a.
Proof.
  induction a as [|b r IH]; [reflexivity|]. cbn [flat_map app toy_unpair]. rewrite IH. cbn [option_map].
  f_equal. f_equal. lia.
Qed.

Example ipv6_laws_satisfiable :
  (forall s a, toy_pton6 s = Some a -> length a = 16%nat) /\
  (forall a, length a = 16%nat -> bytes_ok a -> toy_pton6 (toy_ntop6 a) = Some a) /\
  (forall a, length a = 16%nat -> bytes_ok a -> In 58 (toy_ntop6 a) /\ no_nul (toy_ntop6 a)).
Proof.
  split; [|split].
  - intros s a H. unfold toy_pton6 in H. destruct s as [|c r]; [discriminate|].
    destruct (N.eqb_spec c 58) as [->|Hne].
    + destruct (toy_unpair r) as [x|]; [|discriminate].
      destruct (Nat.eqb_spec (length x) 16); [|discriminate]. inversion H; subst. assumption.
    + exfalso. destruct c as [|p]; [discriminate|].
      do 6 (destruct p as [p|p|]; try discriminate). congruence.
  - intros a La _. unfold toy_pton6, toy_ntop6. rewrite toy_unpair_ok, La. reflexivity.
  - intros a _ _. split; [left; reflexivity|]. unfold toy_ntop6. constructor; [lia|].
    unfold no_nul. rewrite Forall_forall. intros x Hx. apply in_flat_map in Hx. destruct Hx as (b & _ & Hb).
    destruct Hb as [<-|[<-|[]]]; lia.
Qed.

(* a hypothesis-free instance of the IPv6 round trip *)
Example resolve_prettyprint_ipv6_instance :
  exists str, sock_addr_prettyprint_m toy_ntop6 (sa_ipv6 443 (repeat 0 15 ++ [1])) = Ok (Some str) /\
              no_nul str /\
              sock_resolve_m toy_pton6 (cstr str) = Ok (RAddrs [sa_ipv6 443 (repeat 0 15 ++ [1])]).
Proof.
  destruct ipv6_laws_satisfiable as (L1 & L2 & L3).
  apply (resolve_prettyprint_ipv6 toy_pton6 toy_ntop6 L1 L2 L3); [reflexivity | | lia].
  repeat constructor.
Qed.
