(* RFC 8259 validity (JsonSpec.rfc_valid: strict number grammar, escaped control characters,
   four hex digits after \u) implies the liberal well-formedness [wf] under which the finder is
   proved correct; and what the spec's answer means. *)
From Coq Require Import Arith NArith List Lia Bool.
From LCP Require Import Util.JsonSpec.
Import ListNotations.
Local Open Scope N_scope.

Lemma forallb_impl {A} (f g : A -> bool) l :
  (forall x, f x = true -> g x = true) -> forallb f l = true -> forallb g l = true.
Proof.
  intros H. induction l as [|x l IH]; [reflexivity|]. cbn [forallb]. intros E.
  apply andb_true_iff in E. destruct E as [E1 E2]. rewrite (H x E1), (IH E2). reflexivity.
Qed.

Lemma is_digit_num c : is_digit c = true -> num_byte c = true.
Proof. unfold is_digit, num_byte. intros ->. rewrite !orb_true_r. reflexivity. Qed.

Lemma span_digits_spec t :
  t = fst (span_digits t) ++ snd (span_digits t) /\ forallb is_digit (fst (span_digits t)) = true.
Proof.
  induction t as [|c r IH]; [split; reflexivity|]. cbn [span_digits].
  destruct (is_digit c) eqn:E; [|split; reflexivity].
  destruct (span_digits r) as [d s]. cbn [fst snd] in *. destruct IH as [IH1 IH2].
  split; [cbn [app]; f_equal; exact IH1|]. cbn [forallb]. rewrite E, IH2. reflexivity.
Qed.

Lemma all_digits1_num t : all_digits1 t = true -> forallb num_byte t = true.
Proof.
  induction t as [|c r IH]; [discriminate|]. cbn [all_digits1 forallb]. intros H.
  apply andb_true_iff in H. destruct H as [Hc Hr]. rewrite (is_digit_num c Hc). cbn [andb].
  destruct r as [|c' r']; [reflexivity|]. exact (IH Hr).
Qed.

Lemma rfc_exp_num t : rfc_exp t = true -> forallb num_byte t = true.
Proof.
  destruct t as [|c r]; [reflexivity|]. cbn [rfc_exp forallb]. intros H.
  apply andb_true_iff in H. destruct H as [Hc Hr].
  assert (num_byte c = true) as ->.
  { unfold num_byte. apply orb_true_iff in Hc. destruct Hc as [-> | ->]; rewrite ?orb_true_r; reflexivity. }
  cbn [andb]. destruct r as [|s r']; [discriminate|].
  destruct ((s =? 43) || (s =? 45)) eqn:Es.
  - cbn [forallb]. rewrite (all_digits1_num _ Hr).
    assert (num_byte s = true) as ->; [|reflexivity].
    unfold num_byte. apply orb_true_iff in Es. destruct Es as [-> | ->]; rewrite ?orb_true_r; reflexivity.
  - exact (all_digits1_num _ Hr).
Qed.

Lemma rfc_frac_exp_num t : rfc_frac_exp t = true -> forallb num_byte t = true.
Proof.
  destruct t as [|c r]; [reflexivity|]. cbn [rfc_frac_exp]. destruct (c =? 46) eqn:Ec.
  - apply N.eqb_eq in Ec. subst c. destruct (span_digits_spec r) as [E1 E2].
    destruct (span_digits r) as [d s]. cbn [fst snd] in *. intros H.
    apply andb_true_iff in H. destruct H as [_ Hs]. cbn [forallb]. change (num_byte 46) with true.
    cbn [andb]. rewrite E1, forallb_app, (forallb_impl _ _ d is_digit_num E2), (rfc_exp_num s Hs). reflexivity.
  - exact (rfc_exp_num (c :: r)).
Qed.

Lemma rfc_number_wf t : rfc_number t = true -> wf (JNum t) = true.
Proof.
  unfold rfc_number. cbn [wf]. intros H.
  assert (G : forall u, (let (d, s) := span_digits u in
                         match d with [] => false | c :: d' => (negb (c =? 48) || is_nil d') && rfc_frac_exp s end) = true ->
                        u <> [] /\ forallb num_byte u = true).
  { intros u Hu. destruct (span_digits_spec u) as [E1 E2]. destruct (span_digits u) as [d s].
    cbn [fst snd] in *. destruct d as [|c d']; [discriminate|].
    apply andb_true_iff in Hu. destruct Hu as [_ Hs]. split; [rewrite E1; discriminate|].
    rewrite E1, forallb_app, (forallb_impl _ _ _ is_digit_num E2), (rfc_frac_exp_num s Hs). reflexivity. }
  destruct t as [|c r]; [cbn in H; discriminate|]. cbn [negb andb].
  destruct (c =? 45) eqn:Ec.
  - apply N.eqb_eq in Ec. subst c. destruct (G r H) as [_ G2]. cbn [forallb]. rewrite G2. reflexivity.
  - destruct (G (c :: r) H) as [_ G2]. exact G2.
Qed.

Lemma rfc_item_wf i : rfc_item i = true -> wf_item i = true.
Proof.
  destruct i as [c|e|a b c d]; cbn [rfc_item wf_item]; intros H; [|exact H|reflexivity].
  apply andb_true_iff in H. destruct H as [H H92]. apply andb_true_iff in H. destruct H as [H H34].
  apply andb_true_iff in H. destruct H as [H32 _]. rewrite H34, H92.
  apply N.leb_le in H32. assert ((c =? 0) = false) as -> by (apply N.eqb_neq; lia). reflexivity.
Qed.

(* every RFC-valid value is well-formed in the sense the correctness theorem needs *)
Fixpoint rfc_valid_wf (v : jvalue) : rfc_valid v = true -> wf v = true
with rfc_elem_wf (e : jelem) : rfc_elem e = true -> wf_elem e = true
with rfc_member_wf (m : jmember) : rfc_member m = true -> wf_member m = true.
Proof.
  - destruct v as [k|t|s|w es|w ms]; cbn [rfc_valid]; intros H.
    + reflexivity.
    + exact (rfc_number_wf t H).
    + exact (forallb_impl _ _ s rfc_item_wf H).
    + cbn [wf]. apply andb_true_iff in H. destruct H as [Hw H]. rewrite Hw. cbn [andb].
      induction es as [|e es IH]; [reflexivity|]. cbn [forallb] in *.
      apply andb_true_iff in H. destruct H as [He Hes].
      rewrite (rfc_elem_wf e He), (IH Hes). reflexivity.
    + cbn [wf]. apply andb_true_iff in H. destruct H as [Hw H]. rewrite Hw. cbn [andb].
      induction ms as [|m ms IH]; [reflexivity|]. cbn [forallb] in *.
      apply andb_true_iff in H. destruct H as [Hm Hms].
      rewrite (rfc_member_wf m Hm), (IH Hms). reflexivity.
  - destruct e as [wb v wa]. cbn [rfc_elem wf_elem]. intros H.
    apply andb_true_iff in H. destruct H as [H Hwa]. apply andb_true_iff in H. destruct H as [Hwb Hv].
    rewrite Hwb, Hwa, (rfc_valid_wf v Hv). reflexivity.
  - destruct m as [wb n wn wv v wa]. cbn [rfc_member wf_member]. unfold wf_string. intros H.
    repeat (apply andb_true_iff in H; let X := fresh "H" in destruct H as [H X]).
    rewrite H, H0, H2, H3, (rfc_valid_wf v H1), (forallb_impl _ _ n rfc_item_wf H4). reflexivity.
Qed.

(* ---- what the spec's answer means ---- *)
Lemma bytes_eqb_eq x : forall y, bytes_eqb x y = true <-> x = y.
Proof.
  induction x as [|a x IH]; intros [|c y]; cbn [bytes_eqb]; try (split; [discriminate|discriminate]).
  - split; reflexivity.
  - rewrite andb_true_iff, N.eqb_eq, IH. split; [intros [-> ->]; reflexivity|intros E; inversion E; auto].
Qed.

Lemma name_is_iff s key : name_is s key = true <-> decode_name s = Some key.
Proof.
  unfold name_is. destruct (decode_name s) as [n|]; [|split; discriminate].
  rewrite bytes_eqb_eq. split; [intros ->; reflexivity|intros E; inversion E; reflexivity].
Qed.

(* find_members returns Some o exactly when the member list splits as  before ++ m :: after  with
   no name in [before] equal to the key, m's name equal to it, and o = the offset at which the
   rendering of m's value starts *)
Definition member_name (m : jmember) : jstring := match m with Member _ n _ _ _ _ => n end.
Definition member_value (m : jmember) : jvalue := match m with Member _ _ _ _ v _ => v end.
(* bytes of a member in front of its value *)
Definition member_head (m : jmember) : list N :=
  match m with Member wb n wn wv _ _ => wb ++ render_string n ++ wn ++ 58 :: wv end.

Lemma find_members_some ms : forall off key o,
  find_members off ms key = Some o ->
  exists before m after,
    ms = before ++ m :: after /\
    forallb (fun x => negb (name_is (member_name x) key)) before = true /\
    name_is (member_name m) key = true /\
    o = (off + length (flat_map (fun x => render_member x ++ [44%N]) before) + length (member_head m))%nat.
Proof.
  induction ms as [|[wb n wn wv v wa] r IH]; intros off key o H; [discriminate|].
  cbn [find_members] in H. destruct (name_is n key) eqn:E.
  - inversion H; subst. exists [], (Member wb n wn wv v wa), r. repeat split; [exact E|].
    cbn [flat_map length member_head]. unfold render_string. repeat (rewrite app_length; cbn [length]). lia.
  - destruct (IH _ _ _ H) as (bf & m & af & -> & Hbf & Hm & ->).
    exists (Member wb n wn wv v wa :: bf), m, af. repeat split.
    + cbn [forallb member_name]. rewrite E, Hbf. reflexivity.
    + exact Hm.
    + cbn [flat_map render_member]. unfold render_string. repeat (rewrite app_length; cbn [length]). lia.
Qed.

Lemma find_members_none ms : forall off key,
  find_members off ms key = None ->
  forallb (fun x => negb (name_is (member_name x) key)) ms = true.
Proof.
  induction ms as [|[wb n wn wv v wa] r IH]; intros off key H; [reflexivity|].
  cbn [find_members] in H. cbn [forallb member_name]. destruct (name_is n key); [discriminate|].
  exact (IH _ _ H).
Qed.

Lemma join_comma_split {A} (f : A -> list N) before m after :
  join_comma (map f (before ++ m :: after)) =
  flat_map (fun x => f x ++ [44]) before ++ join_comma (map f (m :: after)).
Proof.
  induction before as [|x before IH]; [reflexivity|].
  change ((x :: before) ++ m :: after) with (x :: (before ++ m :: after)).
  change (map f (x :: (before ++ m :: after))) with (f x :: map f (before ++ m :: after)).
  change (flat_map (fun x => f x ++ [44]) (x :: before))
    with ((f x ++ [44]) ++ flat_map (fun x => f x ++ [44]) before).
  rewrite <- app_assoc. rewrite <- IH.
  destruct (before ++ m :: after) as [|y r] eqn:E; [destruct before; discriminate|].
  cbn [map join_comma app]. rewrite <- app_assoc. reflexivity.
Qed.

Lemma skipn_app_exact {A} (a b : list A) n : n = length a -> skipn n (a ++ b) = b.
Proof. intros ->. induction a as [|x a IH]; [reflexivity|exact IH]. Qed.

Lemma negb_name_is_forall key l :
  forallb (fun x => negb (name_is (member_name x) key)) l = true ->
  Forall (fun x => decode_name (member_name x) <> Some key) l.
Proof.
  intros H. apply Forall_forall. intros x Hx. rewrite forallb_forall in H. specialize (H x Hx).
  apply negb_true_iff in H. intros E. apply name_is_iff in E. congruence.
Qed.

(* The answer of the spec: either it is the offset at which the rendering of the value of the
   FIRST member named key starts (decoded name = key; no earlier member has that name), or no
   member has that name and the answer is the length of the whole text. *)
Theorem find_spec_meaning lead w ms trail key :
  let text := lead ++ render (JObj w ms) ++ trail in
  let o := find_spec lead (JObj w ms) trail key in
  (exists before m after rest,
      ms = before ++ m :: after /\
      Forall (fun x => decode_name (member_name x) <> Some key) before /\
      decode_name (member_name m) = Some key /\
      skipn o text = render (member_value m) ++ rest)
  \/ (Forall (fun x => decode_name (member_name x) <> Some key) ms /\ o = length text).
Proof.
  cbn zeta. unfold find_spec.
  destruct (find_members (length lead + 1 + length w) ms key) as [o|] eqn:E.
  - left. destruct (find_members_some _ _ _ _ E) as (bf & m & af & -> & Hbf & Hm & ->).
    destruct m as [wb n wn wv v wa].
    exists bf, (Member wb n wn wv v wa), af.
    cbn [render]. rewrite join_comma_split.
    replace (join_comma (map render_member (Member wb n wn wv v wa :: af)))
      with (member_head (Member wb n wn wv v wa) ++ render v ++ wa ++
            match af with [] => [] | _ :: _ => 44 :: join_comma (map render_member af) end).
    2:{ cbn [map join_comma render_member member_head]. destruct af as [|a af'].
        - cbn [map]. rewrite app_nil_r. rewrite <- !app_assoc. cbn [app]. reflexivity.
        - cbn [map]. rewrite <- !app_assoc. cbn [app]. rewrite <- !app_assoc. reflexivity. }
    eexists. repeat split.
    + exact (negb_name_is_forall key bf Hbf).
    + apply name_is_iff. exact Hm.
    + cbn [member_value].
      set (hd := member_head (Member wb n wn wv v wa)).
      set (sep := flat_map (fun x => render_member x ++ [44]) bf).
      replace (lead ++ (123 :: w ++ (sep ++ hd ++ render v ++ wa ++ _) ++ [125]) ++ trail)
        with ((lead ++ 123 :: w ++ sep ++ hd) ++ render v ++ wa ++
              match af with [] => [] | _ :: _ => 44 :: join_comma (map render_member af) end ++ [125] ++ trail).
      2:{ cbn [app]. rewrite <- !app_assoc. cbn [app]. rewrite <- !app_assoc. reflexivity. }
      apply skipn_app_exact. rewrite !app_length. cbn [length]. rewrite !app_length. lia.
  - right. split; [exact (negb_name_is_forall key ms (find_members_none _ _ _ E))|].
    rewrite !app_length. lia.
Qed.
