(* C16 for util/parsenum.h: the model of PARSENUM_EX (Util/Parsenum.v over Util/Strto.v) returns, for
   EVERY C string, exactly what the grammar-level spec (Util/ParsenumSpec.v) prescribes. *)
From Coq Require Import Arith NArith ZArith List Lia Bool.
From LCP Require Import Base.CheckedMem Util.ParsenumSpec Util.Strto Util.Parsenum Util.StrtoProofs.
Import ListNotations.
Local Open Scope Z_scope.

Definition UT (w : Z) : ctype := {| ck := KUnsigned; cw := w |}.
Definition ST (w : Z) : ctype := {| ck := KSigned; cw := w |}.
Definition FT (w : Z) : ctype := {| ck := KFloat; cw := w |}.

(* ---- facts about the four widths ---- *)
Lemma width_facts w : width_ok w ->
  exists h, 2 ^ (w - 1) = h /\ 2 ^ w = 2 * h /\ 128 <= h <= 9223372036854775808.
Proof.
  intros [-> | [-> | [-> | ->]]]; eexists; (split; [reflexivity|]); split; try reflexivity; lia.
Qed.

Lemma class_unsigned_type w : width_ok w ->
  class_float (UT w) = false /\ class_signed (UT w) = false /\ class_unsigned (UT w) = true /\
  store (UT w) (-1) = 2 ^ w - 1.
Proof. intros [-> | [-> | [-> | ->]]]; vm_compute; auto. Qed.

Lemma class_signed_type w : width_ok w ->
  class_float (ST w) = false /\ class_signed (ST w) = true /\ class_unsigned (ST w) = false /\
  store (ST w) (-1) = -1.
Proof. intros [-> | [-> | [-> | ->]]]; vm_compute; auto. Qed.

(* ---- 64-bit conversions without mod ---- *)
Ltac modlia := unfold u64, s64, wrap_u, wrap_s, two64, UMAX, IMAX, IMIN in *;
               change (2 ^ 64) with 18446744073709551616 in *;
               change (2 ^ (64 - 1)) with 9223372036854775808 in *;
               Z.div_mod_to_equations; lia.

Lemma u64_small x : 0 <= x <= UMAX -> u64 x = x.
Proof. intros H. modlia. Qed.
Lemma u64_neg x : IMIN <= x < 0 -> u64 x = x + two64.
Proof. intros H. modlia. Qed.
Lemma s64_small x : IMIN <= x <= IMAX -> s64 x = x.
Proof. intros H. modlia. Qed.
Lemma negate_mod v : 0 < v <= UMAX -> (two64 - v) mod two64 = two64 - v.
Proof. intros H. modlia. Qed.
Lemma negate_mod0 : (two64 - 0) mod two64 = 0.
Proof. reflexivity. Qed.

(* ---- the end-pointer test ---- *)
Lemma bad_end_correct s p rest trailing :
  no_nul s -> s = p ++ rest -> p <> [] ->
  bad_end (cstr s) (length s - length rest) trailing =
  Ok (match rest, trailing with _ :: _, false => true | _, _ => false end).
Proof.
  intros Hn -> Hp. rewrite app_length. replace (length p + length rest - length rest)%nat with (length p) by lia.
  unfold bad_end. destruct (Nat.eqb_spec (length p) 0) as [E|E].
  { destruct p; [contradiction|discriminate]. }
  destruct trailing; [destruct rest; reflexivity|].
  rewrite cstr_app, rd_pre0. destruct rest as [|c r]; [reflexivity|].
  destruct (no_nul_app _ _ Hn) as [_ Hr]. destruct (no_nul_cons _ _ Hr) as [Hc _].
  unfold cstr. cbn [app rd nth_error bind]. apply N.eqb_neq in Hc. rewrite Hc. reflexivity.
Qed.

(* the first non-blank character, as re-read by parsenum_unsigned *)
Lemma first_char_minus s neg v rest base :
  bytes_ok s -> numeral base (drop_blanks s) = Some (neg, v, rest) ->
  (let* i := skip_ws (S (length (cstr s))) (cstr s) 0 in
   let* c := rd (cstr s) i in Ok (c =? 45)%N)%res = Ok neg.
Proof.
  intros Hb Hnum.
  pose proof (skip_ws_correct s [] (S (length (cstr s))) Hb) as Hsk. cbn [app length] in Hsk.
  rewrite Hsk by (unfold cstr; rewrite app_length; simpl; lia). cbn [bind Nat.add].
  destruct (numeral_shape base s neg v rest Hb Hnum) as (_ & _ & _ & Hneg).
  rewrite (drop_blanks_split s) at 1. rewrite cstr_app.
  rewrite <- (length_firstn_blanks s) at 2. rewrite rd_pre0.
  destruct (drop_blanks s) as [|c r].
  - unfold cstr. cbn. f_equal. destruct neg; [|reflexivity].
    destruct Hneg as [H _]. destruct (H eq_refl) as [r Hr]. discriminate.
  - unfold cstr. cbn [app rd nth_error bind]. f_equal.
    destruct (N.eqb_spec c 45) as [->|Hc]; symmetry.
    + apply Hneg. eexists; reflexivity.
    + destruct neg; [|reflexivity]. destruct Hneg as [H _]. destruct (H eq_refl) as [r' Hr].
      inversion Hr; contradiction.
Qed.

(* ================= unsigned targets ================= *)
(* what the code does after strtoumax on a well-formed numeral (no junk), as a function of the
   grammar's sign and magnitude *)
Definition utail (signtest : bool) (w min max : Z) (neg : bool) (v : Z) : outcome :=
  let val := if v >? UMAX then UMAX else if neg then (two64 - v) mod two64 else v in
  let err0 := if v >? UMAX then ERange else ENone in
  let umin := u64 (if min <=? 0 then 0 else min) in
  let umax := u64 max in
  let tmax := u64 (2 ^ w - 1) in
  let e := if (val <? umin) || (val >? umax) || (val >? tmax) then ERange
           else if negb (val =? 0) then (if signtest && neg then ERange else err0) else err0 in
  let e' := if max <=? IMAX
            then (if (s64 max <? 0) && (match e with ENone => true | _ => false end) then ERange else e)
            else e in
  {| o_errno := e'; o_stored := wrap_u w val |}.

Ltac bd :=
  repeat (match goal with
          | |- context [?a <? ?b] => destruct (Z.ltb_spec a b)
          | |- context [?a <=? ?b] => destruct (Z.leb_spec a b)
          | |- context [?a >? ?b] => destruct (Z.gtb_spec a b)
          | |- context [?a =? ?b] => destruct (Z.eqb_spec a b)
          end; try (exfalso; lia); cbn [orb andb negb]).

Lemma utail_spec w min max neg v :
  width_ok w -> IMIN <= min <= UMAX -> IMIN <= max <= UMAX -> 0 <= v ->
  presult_of (utail true w min max neg v) =
  (let mv := if neg then - v else v in
   if (Z.max min (typemin KUnsigned w) <=? mv) && (mv <=? Z.min max (typemax KUnsigned w))
   then OkV mv else ERANGE).
Proof.
  intros Hw Hmin Hmax Hv.
  destruct (width_facts w Hw) as (h & _ & E2 & Hh).
  unfold utail, typemin, typemax, presult_of. cbn [andb o_errno o_stored]. rewrite E2.
  rewrite (u64_small (2 * h - 1)) by (unfold UMAX; lia).
  (* the clamped minimum *)
  assert (u64 (if min <=? 0 then 0 else min) = Z.max min 0) as ->.
  { destruct (Z.leb_spec min 0); [rewrite u64_small by (unfold UMAX; lia) | rewrite u64_small by lia]; lia. }
  (* the post-test fires exactly when max is negative *)
  assert (forall e, (if max <=? IMAX
                     then (if (s64 max <? 0) && (match e with ENone => true | _ => false end) then ERange else e)
                     else e) =
                    (if max <? 0 then (match e with ENone => ERange | _ => e end) else e)) as Hpost.
  { intros e. destruct (Z.leb_spec max IMAX).
    - rewrite s64_small by lia. destruct (max <? 0), e; reflexivity.
    - destruct (Z.ltb_spec max 0); [unfold IMAX in *; lia | reflexivity]. }
  rewrite Hpost. clear Hpost.
  unfold wrap_u. rewrite E2.
  destruct (Z.ltb_spec max 0) as [Mneg|Mpos].
  - (* negative max: never a success *)
    assert ((Z.max min 0 <=? (if neg then - v else v)) && ((if neg then - v else v) <=? Z.min max (2 * h - 1)) = false) as ->.
    { destruct (Z.leb_spec (Z.max min 0) (if neg then - v else v)),
               (Z.leb_spec (if neg then - v else v) (Z.min max (2 * h - 1))); try reflexivity.
      exfalso. destruct neg; lia. }
    repeat match goal with |- context [if ?c then _ else _] => destruct c end; reflexivity.
  - rewrite (u64_small max) by lia.
    destruct (Z.gtb_spec v UMAX) as [Vbig|Vok].
    + (* overflow in strtoumax: ERANGE whatever follows *)
      assert ((Z.max min 0 <=? (if neg then - v else v)) && ((if neg then - v else v) <=? Z.min max (2 * h - 1)) = false) as ->.
      { apply andb_false_iff. unfold UMAX in *. destruct neg; [left | right]; apply Z.leb_gt; lia. }
      repeat match goal with |- context [if ?c then _ else _] => destruct c end; reflexivity.
    + destruct neg.
      * destruct (Z.eq_dec v 0) as [->|Vnz].
        { rewrite negate_mod0. change (- 0) with 0. cbn [negb]. change (0 =? 0) with true. cbn [negb].
          bd; try reflexivity; try (rewrite Z.mod_small by lia; reflexivity). }
        { rewrite negate_mod by lia.
          assert ((Z.max min 0 <=? - v) && (- v <=? Z.min max (2 * h - 1)) = false) as ->.
          { apply andb_false_iff. left. apply Z.leb_gt. lia. }
          unfold two64, UMAX in *. bd; reflexivity. }
      * unfold UMAX in *. bd; try reflexivity; try (rewrite Z.mod_small by lia; reflexivity).
Qed.

(* parsenum_unsigned on a C string, in terms of the grammar *)
Definition uval (neg : bool) (v : Z) : Z :=
  if v >? UMAX then UMAX else if neg then (two64 - v) mod two64 else v.

Lemma parsenum_unsigned_run s umin umax tmax base trailing :
  base_ok base -> bytes_ok s -> no_nul s ->
  parsenum_unsigned_m (cstr s) umin umax tmax base trailing =
  Ok (match numeral base (drop_blanks s) with
      | None => (0, EInval)
      | Some (neg, v, rest) =>
        let val := uval neg v in
        let err0 := if v >? UMAX then ERange else ENone in
        match rest, trailing with
        | _ :: _, false => (val, EInval)
        | _, _ =>
          (val, if (val <? umin) || (val >? umax) || (val >? tmax) then ERange
                else if negb (val =? 0) then (if neg then ERange else err0) else err0)
        end
      end).
Proof.
  intros Hbase Hb Hn. unfold parsenum_unsigned_m.
  rewrite (strtoumax_correct s base Hb Hn Hbase). unfold strtou_spec. cbn [bind].
  destruct (numeral base (drop_blanks s)) as [[[neg v] rest]|] eqn:Enum.
  - destruct (numeral_shape base s neg v rest Hb Enum) as (p & Hp & Hpn & _).
    pose proof (bad_end_correct s p rest trailing Hn Hp Hpn) as Hbad.
    pose proof (first_char_minus s neg v rest base Hb Enum) as Hfc.
    assert (forall (K : bool -> res (Z * errno)),
             (let* i := skip_ws (S (length (cstr s))) (cstr s) 0 in
              let* c := rd (cstr s) i in K (c =? 45)%N)%res = K neg) as Hfc'.
    { intros K. destruct (skip_ws (S (length (cstr s))) (cstr s) 0) as [i| | |]; cbn [bind] in *; try discriminate.
      destruct (rd (cstr s) i) as [c| | |]; cbn [bind] in *; try discriminate. inversion Hfc. reflexivity. }
    assert (forall val err0,
      (let* bad := bad_end (cstr s) (length s - length rest) trailing in
       if bad then Ok (val, EInval)
       else if (val <? umin) || (val >? umax) || (val >? tmax) then Ok (val, ERange)
       else if negb (val =? 0) then
         let* i := skip_ws (S (length (cstr s))) (cstr s) 0 in
         let* c := rd (cstr s) i in
         if (c =? 45)%N then Ok (val, ERange) else Ok (val, err0)
       else Ok (val, err0))%res =
      Ok (match rest, trailing with
          | _ :: _, false => (val, EInval)
          | _, _ => (val, if (val <? umin) || (val >? umax) || (val >? tmax) then ERange
                          else if negb (val =? 0) then (if neg then ERange else err0) else err0)
          end)) as Htail.
    { intros val err0. rewrite Hbad. cbn [bind].
      rewrite (Hfc' (fun m => if m then Ok (val, ERange) else Ok (val, err0))).
      destruct rest as [|c r]; [|destruct trailing]; try reflexivity;
        destruct ((val <? umin) || (val >? umax) || (val >? tmax)); try reflexivity;
        destruct (negb (val =? 0)); try reflexivity; destruct neg; reflexivity. }
    unfold uval. destruct (v >? UMAX); cbv zeta; apply Htail.
  - cbn [bind]. unfold bad_end. cbn [Nat.eqb bind]. reflexivity.
Qed.

(* the whole macro on a C string, reduced to utail *)
Lemma parsenum_ex6_unsigned_run w min max base trailing s sd :
  width_ok w -> base_ok base -> bytes_ok s -> no_nul s ->
  parsenum_ex6 (UT w) (cstr s) min max base trailing sd =
  Ok (match numeral base (drop_blanks s) with
      | None => {| o_errno := EInval; o_stored := wrap_u w 0 |}
      | Some (neg, v, rest) =>
        match rest, trailing with
        | _ :: _, false => {| o_errno := EInval; o_stored := wrap_u w (uval neg v) |}
        | _, _ => utail true w min max neg v
        end
      end).
Proof.
  intros Hw Hbase Hb Hn.
  destruct (class_unsigned_type w Hw) as (C1 & C2 & _ & C4).
  unfold parsenum_ex6. rewrite C1, C2, C4.
  rewrite (parsenum_unsigned_run s _ _ _ base trailing Hbase Hb Hn). cbn [bind].
  destruct (numeral base (drop_blanks s)) as [[[neg v] rest]|].
  - unfold utail. fold (uval neg v). cbv zeta. cbn [andb].
    destruct rest as [|c r]; [|destruct trailing]; cbv iota beta; unfold store; cbn [ck cw UT]; try reflexivity.
    + destruct (max <=? IMAX); [rewrite andb_false_r|]; reflexivity.
  - cbv iota beta. unfold store; cbn [ck cw UT]. destruct (max <=? IMAX); [rewrite andb_false_r|]; reflexivity.
Qed.

(* M2 *)
Theorem parsenum_unsigned_exact_proof w min max base trailing s sd :
  width_ok w -> IMIN <= min <= UMAX -> IMIN <= max <= UMAX -> base_ok base ->
  bytes_ok s -> no_nul s ->
  map_res presult_of (parsenum_ex6 (UT w) (cstr s) min max base trailing sd)
  = Ok (parse_spec KUnsigned w min max base trailing s).
Proof.
  intros Hw Hmin Hmax Hbase Hb Hn.
  rewrite (parsenum_ex6_unsigned_run w min max base trailing s sd Hw Hbase Hb Hn).
  cbn [map_res]. f_equal. unfold parse_spec.
  destruct (numeral base (drop_blanks s)) as [[[neg v] rest]|] eqn:Enum; [|reflexivity].
  pose proof (numeral_value_nonneg base s neg v rest Hb Hn Hbase Enum) as Hv.
  destruct rest as [|c r]; [|destruct trailing]; try reflexivity;
    apply (utail_spec w min max neg v Hw Hmin Hmax Hv).
Qed.

(* PARSENUM_EX(x, s, base, trailing) and PARSENUM(x, s) on unsigned targets: the type's own range *)
Theorem parsenum_ex4_unsigned_exact_proof w base trailing s sd :
  width_ok w -> base_ok base -> bytes_ok s -> no_nul s ->
  map_res presult_of (parsenum_ex4 (UT w) (cstr s) base trailing sd)
  = Ok (parse_spec_nobounds w base trailing s).
Proof.
  intros Hw Hbase Hb Hn.
  destruct (class_unsigned_type w Hw) as (C1 & _ & C3 & C4).
  destruct (width_facts w Hw) as (h & _ & E2 & Hh).
  unfold parsenum_ex4. rewrite C1, C3, C4.
  rewrite (parsenum_unsigned_run s _ _ _ base trailing Hbase Hb Hn). cbn [bind].
  unfold parse_spec_nobounds, parse_spec.
  destruct (numeral base (drop_blanks s)) as [[[neg v] rest]|] eqn:Enum; [|reflexivity].
  pose proof (numeral_value_nonneg base s neg v rest Hb Hn Hbase Enum) as Hv.
  assert (presult_of
            {| o_errno := (if (uval neg v <? 0) || (uval neg v >? u64 (2 ^ w - 1)) || (uval neg v >? u64 (2 ^ w - 1))
                           then ERange
                           else if negb (uval neg v =? 0)
                                then (if neg then ERange else if v >? UMAX then ERange else ENone)
                                else if v >? UMAX then ERange else ENone);
               o_stored := store (UT w) (uval neg v) |} =
          (if (Z.max 0 (typemin KUnsigned w) <=? (if neg then - v else v)) &&
              ((if neg then - v else v) <=? Z.min (typemax KUnsigned w) (typemax KUnsigned w))
           then OkV (if neg then - v else v) else ERANGE)) as Hcore.
  { unfold presult_of, typemin, typemax, store, wrap_u, uval. cbn [o_errno o_stored ck cw UT]. rewrite E2.
    rewrite (u64_small (2 * h - 1)) by (unfold UMAX; lia).
    destruct (Z.gtb_spec v UMAX) as [Vbig|Vok].
    - assert ((Z.max 0 0 <=? (if neg then - v else v)) && ((if neg then - v else v) <=? Z.min (2 * h - 1) (2 * h - 1)) = false) as ->.
      { destruct (Z.leb_spec (Z.max 0 0) (if neg then - v else v)),
                 (Z.leb_spec (if neg then - v else v) (Z.min (2 * h - 1) (2 * h - 1))); try reflexivity.
        exfalso. unfold UMAX in *. destruct neg; lia. }
      repeat match goal with |- context [if ?c then _ else _] => destruct c end; reflexivity.
    - destruct neg.
      + destruct (Z.eq_dec v 0) as [->|Vnz].
        { rewrite negate_mod0. change (- 0) with 0. bd; try reflexivity; try (rewrite Z.mod_small by lia; reflexivity). }
        { rewrite negate_mod by lia.
          assert ((Z.max 0 0 <=? - v) && (- v <=? Z.min (2 * h - 1) (2 * h - 1)) = false) as ->.
          { apply andb_false_iff. left. apply Z.leb_gt. lia. }
          unfold two64, UMAX in *. bd; reflexivity. }
      + unfold UMAX in *. bd; try reflexivity; try (rewrite Z.mod_small by lia; reflexivity). }
  cbv zeta. destruct rest as [|c r]; [|destruct trailing]; cbv iota beta; cbn [map_res]; try reflexivity;
    f_equal; exact Hcore.
Qed.

(* ================= signed targets ================= *)
Definition ival (neg : bool) (v : Z) : Z :=
  if v >? (if neg then - IMIN else IMAX) then (if neg then IMIN else IMAX) else (if neg then - v else v).

Lemma parsenum_signed_run s smin smax base trailing :
  base_ok base -> bytes_ok s -> no_nul s ->
  parsenum_signed_m (cstr s) smin smax base trailing =
  Ok (match numeral base (drop_blanks s) with
      | None => (0, EInval)
      | Some (neg, v, rest) =>
        let val := ival neg v in
        let err0 := if v >? (if neg then - IMIN else IMAX) then ERange else ENone in
        match rest, trailing with
        | _ :: _, false => (val, EInval)
        | _, _ => if (val <? smin) || (val >? smax) then (0, ERange) else (val, err0)
        end
      end).
Proof.
  intros Hbase Hb Hn. unfold parsenum_signed_m.
  rewrite (strtoimax_correct s base Hb Hn Hbase). unfold strtoi_spec. cbn [bind].
  destruct (numeral base (drop_blanks s)) as [[[neg v] rest]|] eqn:Enum.
  - destruct (numeral_shape base s neg v rest Hb Enum) as (p & Hp & Hpn & _).
    pose proof (bad_end_correct s p rest trailing Hn Hp Hpn) as Hbad.
    unfold ival. destruct (v >? (if neg then - IMIN else IMAX)); cbv zeta; rewrite Hbad; cbn [bind];
      (destruct rest as [|c r]; [|destruct trailing]); try reflexivity;
      match goal with |- context [if ?c then _ else _] => destruct c end; reflexivity.
  - cbn [bind]. unfold bad_end. cbn [Nat.eqb bind]. reflexivity.
Qed.

(* M1: bounds inside the target type, as the interface requires for signed targets *)
Theorem parsenum_signed_exact_proof w min max base trailing s sd :
  width_ok w ->
  typemin KSigned w <= min <= typemax KSigned w -> typemin KSigned w <= max <= typemax KSigned w ->
  base_ok base -> bytes_ok s -> no_nul s ->
  map_res presult_of (parsenum_ex6 (ST w) (cstr s) min max base trailing sd)
  = Ok (parse_spec KSigned w min max base trailing s).
Proof.
  intros Hw Hmin Hmax Hbase Hb Hn.
  destruct (class_signed_type w Hw) as (C1 & C2 & _ & C4).
  destruct (width_facts w Hw) as (h & E1 & E2 & Hh).
  unfold typemin, typemax in Hmin, Hmax. rewrite E1 in Hmin, Hmax.
  unfold parsenum_ex6. rewrite C1, C2, C4. change (-1 <=? 0) with true. cbv iota.
  rewrite (s64_small min), (s64_small max) by (unfold IMIN, IMAX; lia).
  rewrite (parsenum_signed_run s min max base trailing Hbase Hb Hn). cbn [bind].
  unfold parse_spec.
  destruct (numeral base (drop_blanks s)) as [[[neg v] rest]|] eqn:Enum; [|reflexivity].
  pose proof (numeral_value_nonneg base s neg v rest Hb Hn Hbase Enum) as Hv.
  assert (presult_of
            (let (val, e) := if (ival neg v <? min) || (ival neg v >? max)
                             then (0, ERange)
                             else (ival neg v, if v >? (if neg then - IMIN else IMAX) then ERange else ENone) in
             {| o_errno := e; o_stored := store (ST w) val |}) =
          (if (Z.max min (typemin KSigned w) <=? (if neg then - v else v)) &&
              ((if neg then - v else v) <=? Z.min max (typemax KSigned w))
           then OkV (if neg then - v else v) else ERANGE)) as Hcore.
  { unfold typemin, typemax, ival. rewrite E1. unfold IMIN, IMAX in *.
    destruct neg; bd; cbn [presult_of o_errno o_stored]; try reflexivity; try (exfalso; lia);
      unfold presult_of, store, wrap_s; cbn [o_errno o_stored ck cw ST]; rewrite ?E1, ?E2;
      f_equal; rewrite Z.mod_small by lia; lia. }
  cbv zeta. destruct rest as [|c r]; [|destruct trailing]; cbv iota beta; cbn [map_res]; try reflexivity;
    f_equal; exact Hcore.
Qed.
